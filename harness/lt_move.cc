// C04 / C06, directed: "only an active locked_table keeps the table locked, and it releases every lock (including locks
// of arrays created while it was active) on unlock, destruction or move-assignment".  Fixed scenarios over two tables
// with named locked_table objects that outlive the move (a temporary source would hide a swap-style assignment);
// every lock of every lock array is inspected through the friend class.  Output: one line per check, LTMOVE ok|FAIL.
#include <cstdio>
#include <cstdint>
#include <string>
#include <libcuckoo/cuckoohash_map.hh>

extern "C" void libcuckoo_verif_hook(int, const void *, unsigned long, unsigned long) {}

namespace libcuckoo {
class UnitTestInternalAccess {
public:
  template <class M> static auto &all_locks(M &m) { return m.all_locks_; }
};
} // namespace libcuckoo
using IA = libcuckoo::UnitTestInternalAccess;
using Table = libcuckoo::cuckoohash_map<uint64_t, uint64_t>;
using LT = Table::locked_table;

static int g_fail = 0;
static size_t held(Table &t) {
  size_t n = 0;
  for (auto &arr : IA::all_locks(t))
    for (auto &l : arr) { if (l.try_lock()) l.unlock(); else ++n; }
  return n;
}
static size_t total(Table &t) { size_t n = 0; for (auto &arr : IA::all_locks(t)) n += arr.size(); return n; }
static void check(bool ok, const std::string &what) { printf("LTMOVE %s %s\n", ok ? "ok" : "FAIL", what.c_str()); if (!ok) ++g_fail; }

int main() {
  {
    Table A(1), B(1);
    LT ltA = A.lock_table();
    for (uint64_t k = 0; k < 200; ++k) ltA.insert(k, k);       // several lock arrays are created inside the section
    size_t arraysA = IA::all_locks(A).size();
    check(arraysA >= 2, "set-up: the section created lock arrays (" + std::to_string(arraysA) + ")");
    check(held(A) == total(A), "active locked_table holds every lock of every array");
    LT ltB = B.lock_table();
    ltA = std::move(ltB);                                       // named source, still in scope
    check(held(A) == 0, "move-assignment released every lock of the table the target owned (" + std::to_string(held(A)) + " still held)");
    check(!ltB.is_active(), "moved-from locked_table is inactive");
    check(ltA.is_active() && held(B) == total(B), "target is active and owns the source's table");
    ltA.unlock();
    check(held(B) == 0 && !ltA.is_active(), "unlock released the taken-over table");
    if (held(A) == 0 && held(B) == 0) check(A.insert(1000, 1) && B.insert(1000, 1), "both tables usable afterwards");
  }
  {
    Table A(1);
    {
      LT lt = A.lock_table();
      for (uint64_t k = 0; k < 100; ++k) lt.insert(k, k);
      LT moved(std::move(lt));                                   // move construction
      check(!lt.is_active() && moved.is_active() && held(A) == total(A), "move construction hands ownership over");
    }                                                            // destruction while active, arrays grown inside
    check(held(A) == 0, "destruction released every lock (" + std::to_string(held(A)) + " still held)");
  }
  {
    Table A(1), B(1);
    LT ltA = A.lock_table(); ltA.unlock();
    LT ltB = B.lock_table();
    ltA = std::move(ltB);                                       // inactive target
    check(ltA.is_active() && !ltB.is_active() && held(A) == 0 && held(B) == total(B), "assignment to an inactive target");
    LT ltC = A.lock_table();
    ltC = std::move(ltC);                                       // self-assignment: whatever state results must be consistent
    check(ltC.is_active() ? held(A) == total(A) : held(A) == 0, "after self move-assignment the table is locked iff the locked_table is active");
    if (ltC.is_active()) ltC.unlock();
    check(held(A) == 0, "no lock left behind");
  }
  printf("LTMOVE done fails=%d\n", g_fail);
  return 0;
}
