// T4 (second instantiation): the C template instantiated for a key/value pair whose in-memory std::pair has padding
// (2-byte key, 8-byte value).  The file format is "8-byte count, then per element the key bytes followed by the
// mapped bytes" whatever the pair's layout (model: coq/CodecW.v, widths 2 and 8).  For several table sizes: the
// exact bytes written, the round trip through <table>_read, and every truncated prefix.
// Output, one line per size:  LAYOUT n=<n> bytes=<hex> order=<k:v,...> roundtrip=<0|1> rejected=<k>/<len>
#include <cstdint>
#include <cstdio>
#include <string>
#include <vector>

extern "C" {
#define CUCKOO_TABLE_NAME u16_u64_table
#define CUCKOO_KEY_TYPE uint16_t
#define CUCKOO_MAPPED_TYPE uint64_t
#include <libcuckoo-c/cuckoo_table_template.h>
}
#define CUCKOO_TABLE_NAME u16_u64_table
#define CUCKOO_KEY_TYPE uint16_t
#define CUCKOO_MAPPED_TYPE uint64_t
#include <libcuckoo-c/cuckoo_table_template.cc>

extern "C" void libcuckoo_verif_hook(int, const void *, unsigned long, unsigned long) {}

int main() {
  auto hex = [](const std::vector<unsigned char> &v) { std::string s; char b[3]; for (unsigned char c : v) { snprintf(b, 3, "%02x", c); s += b; } return s; };
  for (size_t n : {0u, 1u, 2u, 3u, 7u, 20u}) {
    u16_u64_table *t = u16_u64_table_init(0);
    for (size_t i = 0; i < n; ++i) {
      uint16_t k = (uint16_t)(0x1101 * (i + 1)); uint64_t v = 0x0102030405060708ULL * (i + 1) + i;
      u16_u64_table_insert(t, &k, &v);
    }
    u16_u64_table_locked_table *lt = u16_u64_table_lock_table(t);
    std::string order;
    {
      u16_u64_table_const_iterator *it = u16_u64_table_locked_table_cbegin(lt), *en = u16_u64_table_locked_table_cend(lt);
      for (; !u16_u64_table_const_iterator_equal(it, en); u16_u64_table_const_iterator_increment(it)) {
        char b[64];
        snprintf(b, sizeof b, "%s%u:%llu", order.empty() ? "" : ",", (unsigned)*u16_u64_table_const_iterator_key(it),
                 (unsigned long long)*u16_u64_table_const_iterator_mapped(it));
        order += b;
      }
      u16_u64_table_const_iterator_free(it); u16_u64_table_const_iterator_free(en);
    }
    FILE *fp = tmpfile();
    bool wok = u16_u64_table_locked_table_write(lt, fp);
    fflush(fp);
    long len = ftell(fp);
    std::vector<unsigned char> bytes((size_t)len);
    rewind(fp);
    if (len > 0 && fread(bytes.data(), 1, (size_t)len, fp) != (size_t)len) wok = false;
    rewind(fp);
    u16_u64_table *r = u16_u64_table_read(fp);
    fclose(fp);
    int roundtrip = 0;
    if (wok && r) {
      roundtrip = (u16_u64_table_size(r) == n);
      for (size_t i = 0; i < n && roundtrip; ++i) {
        uint16_t k = (uint16_t)(0x1101 * (i + 1)); uint64_t v = 0x0102030405060708ULL * (i + 1) + i, got = 0;
        if (!u16_u64_table_find(r, &k, &got) || got != v) roundtrip = 0;
      }
    }
    if (r) u16_u64_table_free(r);
    long rejected = 0;
    for (long j = 0; j < len; ++j) {
      FILE *f2 = tmpfile();
      if (j > 0 && fwrite(bytes.data(), 1, (size_t)j, f2) != (size_t)j) {}
      rewind(f2);
      u16_u64_table *p = u16_u64_table_read(f2);
      fclose(f2);
      if (!p) ++rejected; else u16_u64_table_free(p);
    }
    u16_u64_table_locked_table_free(lt);
    u16_u64_table_free(t);
    printf("LAYOUT n=%zu bytes=%s order=%s roundtrip=%d rejected=%ld/%ld\n", n, hex(bytes).c_str(), order.c_str(), roundtrip, rejected, len);
  }
  return 0;
}
