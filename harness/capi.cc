// T4 / T3(C): the C wrapper (libcuckoo-c/cuckoo_table_template.*) driven by the same script
// language as harness/seq.cc; every table operation goes through a C entry point.  Output
// format identical to seq.cc so that the extracted model (spb 4, int keys hashed by
// std::hash<int> = identity, trivially copyable) predicts it.
//
// Extra ops:  c.init n | c.free | c.write <file#> | c.read <file#> <bytes|full> -> table b
// Fault mode (--faults): before each operation, for k = 1.. a forked child arms "the k-th global
// allocation fails", runs the operation inside catch(...), and reports return value, errno,
// whether an exception crossed the C boundary, whether the table contents changed, whether a
// follow-up workload and the destructor work, and the allocation balance.
#include <algorithm>
#include <cerrno>
#include <cstddef>
#include <cinttypes>
#include <cmath>
#include <cstdint>
#include <cstdio>
#include <cstdlib>
#include <cstring>
#include <fstream>
#include <iostream>
#include <memory>
#include <new>
#include <sstream>
#include <string>
#include <sys/wait.h>
#include <unistd.h>
#include <vector>

// ---------------------------------------------------------------- global allocation control
static long g_new_calls = 0;     // number of allocations requested while armed
static long g_fail_at = 0;       // 0 = never fail
static long g_live = 0;          // live blocks
static bool g_armed = false;
static bool g_fired = false;

static void *do_alloc(std::size_t n, std::size_t al) {
  if (g_armed) {
    ++g_new_calls;
    if (g_fail_at && g_new_calls == g_fail_at) {
      g_fired = true;
      throw std::bad_alloc();
    }
  }
  void *p = nullptr;
  if (al <= alignof(std::max_align_t)) p = std::malloc(n ? n : 1);
  else if (posix_memalign(&p, al, n ? n : al) != 0) p = nullptr;
  if (!p) throw std::bad_alloc();
  ++g_live;
  return p;
}
void *operator new(std::size_t n) { return do_alloc(n, 1); }
void *operator new[](std::size_t n) { return do_alloc(n, 1); }
void *operator new(std::size_t n, std::align_val_t a) { return do_alloc(n, (std::size_t)a); }
void *operator new[](std::size_t n, std::align_val_t a) { return do_alloc(n, (std::size_t)a); }
void operator delete(void *p) noexcept { if (p) { --g_live; std::free(p); } }
void operator delete[](void *p) noexcept { if (p) { --g_live; std::free(p); } }
void operator delete(void *p, std::size_t) noexcept { if (p) { --g_live; std::free(p); } }
void operator delete[](void *p, std::size_t) noexcept { if (p) { --g_live; std::free(p); } }
void operator delete(void *p, std::align_val_t) noexcept { if (p) { --g_live; std::free(p); } }
void operator delete[](void *p, std::align_val_t) noexcept { if (p) { --g_live; std::free(p); } }
void operator delete(void *p, std::size_t, std::align_val_t) noexcept { if (p) { --g_live; std::free(p); } }
void operator delete[](void *p, std::size_t, std::align_val_t) noexcept { if (p) { --g_live; std::free(p); } }

extern "C" {
#define CUCKOO_TABLE_NAME int_int_table
#define CUCKOO_KEY_TYPE int
#define CUCKOO_MAPPED_TYPE int
#include <libcuckoo-c/cuckoo_table_template.h>
}
#define CUCKOO_TABLE_NAME int_int_table
#define CUCKOO_KEY_TYPE int
#define CUCKOO_MAPPED_TYPE int
#include <libcuckoo-c/cuckoo_table_template.cc>

// The guarded synchronisation hooks are used for one protocol rule that is decidable without a scheduler
// (ConcInv.release_only_after_bump): once a table has published a new lock array (EMPLACE), no lock may be released
// before the resize generation of that table is bumped (FA_RC) - on the normal path and on every exception path.
#include <set>
static std::set<const void *> g_unpublished;      // tables with a new lock array and no bump yet
static std::string g_protocol_error;
extern "C" void libcuckoo_verif_hook(int kind, const void *obj, unsigned long, unsigned long) {
  if (kind == LIBCUCKOO_VH_EMPLACED) g_unpublished.insert(obj);
  else if (kind == LIBCUCKOO_VH_FA_RC) g_unpublished.erase(obj);
  else if (kind == LIBCUCKOO_VH_UNLOCK && !g_unpublished.empty() && g_protocol_error.empty())
    g_protocol_error = "a lock is released after a new lock array was published and before the resize generation was bumped";
}

#ifdef LIBCUCKOO_VERIF_MAX_NUM_LOCKS
static const uint64_t kHarnessMaxLocks = LIBCUCKOO_VERIF_MAX_NUM_LOCKS;
#else
static const uint64_t kHarnessMaxLocks = 1UL << 16;
#endif

using Table = tbl_t;
namespace libcuckoo {
class UnitTestInternalAccess {
public:
  template <class M> static auto &buckets(M &m) { return m.buckets_; }
  template <class M> static auto &old_buckets(M &m) { return m.old_buckets_; }
  template <class M> static auto &all_locks(M &m) { return m.all_locks_; }
  template <class M> static size_t nrem(M &m) { return m.num_remaining_lazy_rehash_locks_.load(); }
  template <class M> static size_t rc(M &m) { return m.resize_counter_.load(); }
};
} // namespace libcuckoo
using IA = libcuckoo::UnitTestInternalAccess;
using LT = Table::locked_table;
struct ItPeek : LT::const_iterator {
  static size_t index(const LT::const_iterator &it) { return it.*(&ItPeek::index_); }
  static size_t slot(const LT::const_iterator &it) { return it.*(&ItPeek::slot_); }
};

static const int NT = 4;
static int_int_table *g_tab[NT];
static int_int_table_locked_table *g_lt[NT];
static int_int_table_iterator *g_it[4];
static int_int_table_const_iterator *g_cit[4]; // const twins, kept in step for the const entry points
static bool g_it_valid[4];
static std::string g_file[4];
static bool g_have_file[4];
static std::string g_fnlog;
static int g_fn_kind;
static long g_fn_a, g_fn_b;

static std::string mlf_str(double m) {
  if (std::isnan(m)) return "nan";
  for (int d = 1; d <= 1024; ++d)
    for (int n = 0; n <= d; ++n)
      if ((double)n / (double)d == m) return std::to_string(n) + "/" + std::to_string(d);
  return "?";
}

static void dump_table(std::string &out, int i) {
  Table &t = g_tab[i]->t;
  auto &cur = IA::buckets(t);
  auto &old = IA::old_buckets(t);
  char buf[512];
  size_t mhp = t.maximum_hashpower();
  std::string mhps = mhp == libcuckoo::NO_MAXIMUM_HASHPOWER ? "none" : std::to_string(mhp);
  bool act = g_lt[i] && int_int_table_locked_table_is_active(g_lt[i]);
  snprintf(buf, sizeof buf,
           "T%d hp=%zu dead=%d ohp=%zu odead=%d nrem=%zu rc=%zu mlf=%s mhp=%s w=%zu act=%d size=%zu cap=%zu\n", i,
           cur.hashpower(), cur.is_deallocated() ? 1 : 0, old.hashpower(), old.is_deallocated() ? 1 : 0, IA::nrem(t),
           IA::rc(t), mlf_str(t.minimum_load_factor()).c_str(), mhps.c_str(), t.max_num_worker_threads(), act ? 1 : 0,
           int_int_table_size(g_tab[i]), int_int_table_capacity(g_tab[i]));
  out += buf;
  int j = 0;
  for (auto &la : IA::all_locks(t)) {
    snprintf(buf, sizeof buf, " L%d n=%zu", j++, la.size());
    out += buf;
    size_t idx = 0;
    for (auto &lk : la) {
      if (!(lk.elem_counter() == 0 && lk.is_migrated())) {
        snprintf(buf, sizeof buf, " %zu:%" PRId64 ":%d", idx, (int64_t)lk.elem_counter(), lk.is_migrated() ? 1 : 0);
        out += buf;
      }
      ++idx;
    }
    out += "\n";
  }
  auto dump_arr = [&](const char *tag, decltype(cur) &bc) {
    out += tag;
    for (size_t b = 0; b < bc.size(); ++b)
      for (size_t s = 0; s < 4; ++s)
        if (bc[b].occupied(s)) {
          snprintf(buf, sizeof buf, " %zu.%zu:%d=%d/%u", b, s, bc[b].key(s), bc[b].mapped(s), (unsigned)bc[b].partial(s));
          out += buf;
        }
    out += "\n";
  };
  if (!cur.is_deallocated()) dump_arr(" C", cur);
  if (!old.is_deallocated()) dump_arr(" O", old);
}

static std::string contents_string(int i) {
  // abstract contents + size, independent of layout (used by the fault judge)
  std::string s;
  if (!g_tab[i]) return "absent";
  Table &t = g_tab[i]->t;
  std::vector<std::pair<int, int>> v;
  auto &cur = IA::buckets(t);
  auto &old = IA::old_buckets(t);
  auto &locks = IA::all_locks(t).back();
  if (!cur.is_deallocated())
    for (size_t b = 0; b < cur.size(); ++b)
      for (size_t sl = 0; sl < 4; ++sl)
        if (cur[b].occupied(sl)) v.push_back({cur[b].key(sl), cur[b].mapped(sl)});
  if (!old.is_deallocated())
    for (size_t b = 0; b < old.size(); ++b)
      if (!locks[b & (kHarnessMaxLocks - 1)].is_migrated())
        for (size_t sl = 0; sl < 4; ++sl)
          if (old[b].occupied(sl)) v.push_back({old[b].key(sl), old[b].mapped(sl)});
  std::sort(v.begin(), v.end());
  for (auto &p : v) s += std::to_string(p.first) + "=" + std::to_string(p.second) + " ";
  s += "| size=" + std::to_string(t.size());
  return s;
}

static std::string pos_str(const LT::const_iterator &it) {
  return "@" + std::to_string(ItPeek::index(it)) + "." + std::to_string(ItPeek::slot(it));
}
static bool it_usable(Table &t, int ri) {
  if (!g_it_valid[ri]) return false;
  auto &cur = IA::buckets(t);
  size_t b = ItPeek::index(g_it[ri]->it), s = ItPeek::slot(g_it[ri]->it);
  return (b < cur.size() && s < 4) || (b == cur.size() && s == 0);
}
static bool it_occupied(Table &t, int ri) {
  auto &cur = IA::buckets(t);
  size_t b = ItPeek::index(g_it[ri]->it), s = ItPeek::slot(g_it[ri]->it);
  return b < cur.size() && s < 4 && cur[b].occupied(s);
}

static std::vector<std::string> split(const std::string &line) {
  std::vector<std::string> r;
  std::stringstream ss(line);
  std::string t;
  while (ss >> t) r.push_back(t);
  return r;
}
static uint64_t U(const std::string &s) { return strtoull(s.c_str(), nullptr, 10); }
static int I(const std::string &s) { return (int)strtoll(s.c_str(), nullptr, 10); }

static void parse_fn(const std::string &s) {
  std::vector<std::string> parts;
  std::stringstream ss(s);
  std::string tok;
  while (std::getline(ss, tok, ':')) parts.push_back(tok);
  g_fn_a = g_fn_b = 0;
  if (parts[0] == "noop") g_fn_kind = 0;
  else if (parts[0] == "add") { g_fn_kind = 1; g_fn_a = atoll(parts[1].c_str()); }
  else if (parts[0] == "set") { g_fn_kind = 2; g_fn_a = atoll(parts[1].c_str()); }
  else if (parts[0] == "eraseifeq") { g_fn_kind = 3; g_fn_a = atoll(parts[1].c_str()); }
  else if (parts[0] == "adderaseeven") { g_fn_kind = 4; g_fn_a = atoll(parts[1].c_str()); }
  else if (parts[0] == "ctx") { g_fn_kind = 5; g_fn_a = atoll(parts[1].c_str()); g_fn_b = atoll(parts[2].c_str()); }
}
static bool fn_apply(int *v) {
  long x = *v;
  g_fnlog += " fn(" + std::to_string(x) + ",old)";
  switch (g_fn_kind) {
  case 0: return false;
  case 1: *v = (int)(x + g_fn_a); return false;
  case 2: *v = (int)g_fn_a; return false;
  case 3: return x == g_fn_a;
  case 4: *v = (int)(x + g_fn_a); return ((x + g_fn_a) % 2) == 0;
  case 5: { long y = x + g_fn_b; *v = (int)y; return y == 0; }
  }
  return false;
}
extern "C" {
static void c_find_fn(const int *v) { g_fnlog += " fn(" + std::to_string(*v) + ",old)"; }
static void c_update_fn(int *v) { fn_apply(v); }
static bool c_erase_fn(int *v) { return fn_apply(v); }
}

static const char *UNM = " exc:UNMODELLED";
// allocation failures are injected only while a C entry point is executing
static bool g_want_arm = false;
struct Arm {
  Arm() { if (g_want_arm) g_armed = true; }
  ~Arm() { g_armed = false; }
};
#define C(call) ([&]() -> decltype(call) { Arm _arm; return call; }())
static int g_errno_after;

static std::string exec_op(int a, const std::vector<std::string> &tk) {
  const std::string &o = tk[1];
  std::string r;
  g_fnlog.clear();
  errno = 0;
  auto B = [](bool b) { return std::string(b ? " true" : " false"); };
  auto fail_or = [&](bool ok_ret, const std::string &okstr) {
    // a failure return together with errno==ENOMEM is printed as the bad_alloc outcome
    if (!ok_ret && errno == ENOMEM) return std::string(" exc:bad_alloc");
    return okstr;
  };
  if (o == "new" || o == "c.init") {
    if (g_tab[a]) return UNM;
    g_tab[a] = C(int_int_table_init(U(tk[2])));
    if (!g_tab[a]) return errno == ENOMEM ? " exc:bad_alloc" : " exc:user";
    return " -";
  }
  if (o == "c.read") {
    // 0 c.read <file#> <nbytes|full> <dst table>
    int fi = atoi(tk[2].c_str());
    int b = atoi(tk[4].c_str());
    if (!g_have_file[fi] || g_tab[b]) return UNM;
    std::string data = g_file[fi];
    if (tk[3] != "full") data = data.substr(0, std::min((size_t)U(tk[3]), data.size()));
    FILE *fp = tmpfile();
    fwrite(data.data(), 1, data.size(), fp);
    rewind(fp);
    g_tab[b] = C(int_int_table_read(fp));
    fclose(fp);
    if (!g_tab[b]) return errno == ENOMEM ? " exc:bad_alloc" : " -";
    return " true";
  }
  if (!g_tab[a]) return UNM;
  int_int_table *tb = g_tab[a];
  Table &t = tb->t;
  bool act = g_lt[a] && C(int_int_table_locked_table_is_active(g_lt[a]));
  bool is_locked_op = (o.size() > 2 && (o.substr(0, 2) == "l." || o.substr(0, 3) == "it.")) || o == "unlock" || o == "c.write";
  if (o != "destroy" && o != "c.free") {
    if (is_locked_op && !act) return UNM;
    if (!is_locked_op && act) return UNM;
  }
  int k = tk.size() > 2 ? I(tk[2]) : 0;
  if (o == "find") {
    int v = 0;
    bool f = C(int_int_table_find(tb, &k, &v));
    r = B(f);
    if (f) r += " " + std::to_string(v);
  } else if (o == "contains") {
    r = B(C(int_int_table_contains(tb, &k)));
  } else if (o == "findfn") {
    bool f = C(int_int_table_find_fn(tb, &k, c_find_fn));
    r = B(f) + g_fnlog;
  } else if (o == "update") {
    int v = I(tk[3]);
    r = B(C(int_int_table_update(tb, &k, &v)));
  } else if (o == "updatefn") {
    parse_fn(tk[3]);
    bool res = C(int_int_table_update_fn(tb, &k, c_update_fn));
    r = B(res) + g_fnlog;
  } else if (o == "insert") {
    int v = I(tk[3]);
    bool res = C(int_int_table_insert(tb, &k, &v));
    r = fail_or(res, B(res));
  } else if (o == "ioa") {
    int v = I(tk[3]);
    bool res = C(int_int_table_insert_or_assign(tb, &k, &v));
    r = fail_or(res, B(res));
  } else if (o == "upsert") {
    // C upsert takes a one-argument functor only
    parse_fn(tk[3]);
    int v = I(tk[5]);
    bool res = C(int_int_table_upsert(tb, &k, c_update_fn, &v));
    r = fail_or(res, B(res) + g_fnlog);
  } else if (o == "erase") {
    r = B(C(int_int_table_erase(tb, &k)));
  } else if (o == "erasefn") {
    parse_fn(tk[3]);
    bool res = C(int_int_table_erase_fn(tb, &k, c_erase_fn));
    r = B(res) + g_fnlog;
  } else if (o == "rehash") {
    bool res = C(int_int_table_rehash(tb, U(tk[2])));
    r = fail_or(res, B(res));
  } else if (o == "reserve") {
    bool res = C(int_int_table_reserve(tb, U(tk[2])));
    r = fail_or(res, B(res));
  } else if (o == "clear") {
    C(int_int_table_clear(tb));
    r = " -";
  } else if (o == "lock") {
    if (g_lt[a]) { C(int_int_table_locked_table_free(g_lt[a])); g_lt[a] = nullptr; }
    g_lt[a] = C(int_int_table_lock_table(tb));
    if (!g_lt[a]) return errno == ENOMEM ? " exc:bad_alloc" : " exc:user";
    for (auto &v : g_it_valid) v = false;
    r = " -";
  } else if (o == "unlock") {
    C(int_int_table_locked_table_unlock(g_lt[a]));
    r = " -";
  } else if (o == "l.insert") {
    int v = I(tk[3]);
    if (!g_it[3]) { g_it[3] = C(int_int_table_locked_table_begin(g_lt[a])); if (!g_it[3]) return " exc:bad_alloc"; }
    bool valid3 = g_it_valid[3];
    LT::iterator keep3 = g_it[3]->it;
    int_int_table_locked_table_set_begin(g_lt[a], g_it[3]);   // park the out-parameter on the first element (if any)
    LT::iterator saved = g_it[3]->it;
    bool res = C(int_int_table_locked_table_insert(g_lt[a], &k, &v, g_it[3]));
    if (!res && errno == ENOMEM) {
      // the C++ call throws and changes nothing: the caller's iterator out-parameter must be left as it was
      r = (g_it[3]->it == saved) ? " exc:bad_alloc" : " exc:bad_alloc OUT-PARAMETER-CHANGED";
    }
    else { r = " " + pos_str(g_it[3]->it) + B(res); }
    g_it[3]->it = keep3;
    g_it_valid[3] = valid3;
  } else if (o == "l.erase") {
    r = " " + std::to_string(C(int_int_table_locked_table_erase(g_lt[a], &k)));
  } else if (o == "l.eraseit") {
    int ri = atoi(tk[2].c_str()), di = atoi(tk[3].c_str());
    if (!it_usable(t, ri) || !it_occupied(t, ri)) return UNM;
    if (!g_it[di]) { g_it[di] = C(int_int_table_locked_table_begin(g_lt[a])); if (!g_it[di]) return " exc:bad_alloc"; }
    // it == nextit aliasing is allowed by the interface (ri == di)
    C(int_int_table_locked_table_erase_it(g_lt[a], g_it[ri], g_it[di]));
    g_it_valid[di] = true;
    r = " " + pos_str(g_it[di]->it);
  } else if (o == "l.find") {
    int ri = atoi(tk[3].c_str());
    if (!g_it[ri]) { g_it[ri] = C(int_int_table_locked_table_begin(g_lt[a])); if (!g_it[ri]) return " exc:bad_alloc"; }
    C(int_int_table_locked_table_find(g_lt[a], &k, g_it[ri]));
    g_it_valid[ri] = true;
    r = " " + pos_str(g_it[ri]->it);
  } else if (o == "l.rehash") {
    C(int_int_table_locked_table_rehash(g_lt[a], U(tk[2])));
    r = errno == ENOMEM ? " exc:bad_alloc" : " -";
  } else if (o == "l.reserve") {
    C(int_int_table_locked_table_reserve(g_lt[a], U(tk[2])));
    r = errno == ENOMEM ? " exc:bad_alloc" : " -";
  } else if (o == "l.clear") {
    C(int_int_table_locked_table_clear(g_lt[a]));
    r = " -";
  } else if (o == "it.begin" || o == "it.end") {
    int ri = atoi(tk[2].c_str());
    if (!g_it[ri]) {
      g_it[ri] = (o == "it.begin") ? C(int_int_table_locked_table_begin(g_lt[a])) : C(int_int_table_locked_table_end(g_lt[a]));
      if (!g_it[ri]) return " exc:bad_alloc";
    } else {
      if (o == "it.begin") C(int_int_table_locked_table_set_begin(g_lt[a], g_it[ri]));
      else C(int_int_table_locked_table_set_end(g_lt[a], g_it[ri]));
    }
    g_it_valid[ri] = true;
    r = " " + pos_str(g_it[ri]->it);
  } else if (o == "it.inc") {
    int ri = atoi(tk[2].c_str());
    if (!it_usable(t, ri)) return UNM;
    {
      int_int_table_iterator *e = C(int_int_table_locked_table_end(g_lt[a]));
      if (!e) return " exc:bad_alloc";
      bool at_end = C(int_int_table_iterator_equal(g_it[ri], e));
      C(int_int_table_iterator_free(e));
      if (at_end) return UNM;
    }
    C(int_int_table_iterator_increment(g_it[ri]));
    r = " " + pos_str(g_it[ri]->it);
  } else if (o == "it.dec") {
    int ri = atoi(tk[2].c_str());
    if (!it_usable(t, ri)) return UNM;
    {
      auto &cur = IA::buckets(t);
      size_t b = ItPeek::index(g_it[ri]->it), s = ItPeek::slot(g_it[ri]->it);
      bool any = false;
      for (size_t bb = 0; bb < cur.size() && !any; ++bb)
        for (size_t ss = 0; ss < 4 && !any; ++ss)
          if (cur[bb].occupied(ss) && (bb < b || (bb == b && ss < s))) any = true;
      if (!any) return UNM;
    }
    C(int_int_table_iterator_decrement(g_it[ri]));
    r = " " + pos_str(g_it[ri]->it);
  } else if (o == "it.get") {
    int ri = atoi(tk[2].c_str());
    if (!it_usable(t, ri) || !it_occupied(t, ri)) return UNM;
    r = " " + std::to_string(*C(int_int_table_iterator_key(g_it[ri]))) + "=" + std::to_string(*C(int_int_table_iterator_mapped(g_it[ri])));
  } else if (o == "it.set") {
    int ri = atoi(tk[2].c_str());
    if (!it_usable(t, ri) || !it_occupied(t, ri)) return UNM;
    *C(int_int_table_iterator_mapped(g_it[ri])) = I(tk[3]);
    r = " -";
  } else if (o == "it.eq") {
    int r1 = atoi(tk[2].c_str()), r2 = atoi(tk[3].c_str());
    if (!g_it_valid[r1] || !g_it_valid[r2]) return UNM;
    r = B(C(int_int_table_iterator_equal(g_it[r1], g_it[r2])));
  } else if (o == "l.trav") {
    int_int_table_iterator *it = C(int_int_table_locked_table_begin(g_lt[a]));
    int_int_table_iterator *e = C(int_int_table_locked_table_end(g_lt[a]));
    if (!it || !e) {
      if (it) C(int_int_table_iterator_free(it));
      if (e) C(int_int_table_iterator_free(e));
      return " exc:bad_alloc";
    }
    for (; !C(int_int_table_iterator_equal(it, e)); C(int_int_table_iterator_increment(it)))
      r += " " + pos_str(it->it) + " " + std::to_string(*C(int_int_table_iterator_key(it))) + "=" +
           std::to_string(*C(int_int_table_iterator_mapped(it)));
    C(int_int_table_iterator_free(it));
    C(int_int_table_iterator_free(e));
  } else if (o == "l.rtrav") {
    int_int_table_const_iterator *it = C(int_int_table_locked_table_cend(g_lt[a]));
    int_int_table_const_iterator *b = C(int_int_table_locked_table_cbegin(g_lt[a]));
    if (!it || !b) {
      if (it) C(int_int_table_const_iterator_free(it));
      if (b) C(int_int_table_const_iterator_free(b));
      return " exc:bad_alloc";
    }
    while (!C(int_int_table_const_iterator_equal(it, b))) {
      C(int_int_table_const_iterator_decrement(it));
      r += " " + pos_str(it->it) + " " + std::to_string(*C(int_int_table_const_iterator_key(it))) + "=" +
           std::to_string(*C(int_int_table_const_iterator_mapped(it)));
    }
    C(int_int_table_const_iterator_free(it));
    C(int_int_table_const_iterator_free(b));
  } else if (o == "c.write") {
    int fi = atoi(tk[2].c_str());
    FILE *fp = tmpfile();
    bool ok = C(int_int_table_locked_table_write(g_lt[a], fp));
    long n = ftell(fp);
    rewind(fp);
    std::string data((size_t)n, '\0');
    if (n > 0 && fread(&data[0], 1, (size_t)n, fp) != (size_t)n) ok = false;
    fclose(fp);
    g_file[fi] = data;
    g_have_file[fi] = true;
    r = B(ok) + " bytes=";
    static const char *hx = "0123456789abcdef";
    for (unsigned char ch : data) { r += hx[ch >> 4]; r += hx[ch & 15]; }
  } else if (o == "destroy" || o == "c.free") {
    if (g_lt[a]) { C(int_int_table_locked_table_free(g_lt[a])); g_lt[a] = nullptr; }
    C(int_int_table_free(tb));
    g_tab[a] = nullptr;
    r = " -";
  } else {
    return UNM;
  }
  return r;
}

static void free_all() {
  for (int i = 0; i < 4; ++i) {
    if (g_it[i]) { int_int_table_iterator_free(g_it[i]); g_it[i] = nullptr; }
  }
  for (int i = 0; i < NT; ++i) {
    if (g_lt[i]) { int_int_table_locked_table_free(g_lt[i]); g_lt[i] = nullptr; }
    if (g_tab[i]) { int_int_table_free(g_tab[i]); g_tab[i] = nullptr; }
  }
}

// the child of the fault enumeration: run op with the k-th allocation failing; report one line
static void fault_child(int a, const std::vector<std::string> &tk, long k, long live_base, int wfd) {
  std::string before[NT];
  for (int i = 0; i < NT; ++i) before[i] = contents_string(i);
  std::string res, verdict = "ok";
  bool escaped = false;
  g_new_calls = 0; g_fail_at = k; g_fired = false; g_want_arm = true;
  try {
    res = exec_op(a, tk);
  } catch (std::exception &e) {
    escaped = true; res = std::string(" ESCAPED:") + e.what();
  } catch (...) {
    escaped = true; res = " ESCAPED:unknown";
  }
  int en = errno;
  g_armed = false; g_want_arm = false; g_fail_at = 0;
  bool fired = g_fired;
  std::string changed;
  if (fired) {
    bool failed_ret = res.find("exc:bad_alloc") != std::string::npos;
    if (escaped) verdict = "exception-crossed-C-boundary";
    else if (!failed_ret && res != UNM) verdict = "failure-not-reported";   // allocation failed but no ENOMEM+failure value
    else if (failed_ret && en != ENOMEM) verdict = "errno-not-ENOMEM";
    else if (res.find("OUT-PARAMETER-CHANGED") != std::string::npos) verdict = "failed-call-changed-the-iterator-out-parameter";
    else if (!g_protocol_error.empty()) verdict = "table-not-valid:" + std::string("lock-array-published-without-generation-bump");
    // contents must be unchanged after a reported failure
    for (int i = 0; i < NT && verdict == "ok"; ++i) {
      if (tk[1] == "c.read" || tk[1] == "c.init" || tk[1] == "new") break;
      std::string after = contents_string(i);
      if (after != before[i]) { verdict = "contents-changed"; changed = before[i] + " -> " + after; }
    }
  }
  // follow-up workload: every table still answers, then everything is freed
  if (verdict == "ok") {
    try {
      for (int i = 0; i < NT; ++i) {
        if (!g_tab[i]) continue;
        bool act = g_lt[i] && int_int_table_locked_table_is_active(g_lt[i]);
        if (act) int_int_table_locked_table_unlock(g_lt[i]);
        for (int kk = 0; kk < 48; ++kk) { int vv; int_int_table_find(g_tab[i], &kk, &vv); }
        int kx = 1000003, vx = 7;
        if (!int_int_table_insert(g_tab[i], &kx, &vx)) verdict = "follow-up-insert-failed";
        if (!int_int_table_erase(g_tab[i], &kx)) verdict = "follow-up-erase-failed";
      }
    } catch (...) { verdict = "follow-up-threw"; }
  }
  long final_live = -1;
  char resbuf[100];
  snprintf(resbuf, sizeof resbuf, "%s", res.c_str());
  std::string().swap(res);
  for (auto &b : before) std::string().swap(b);
  std::string().swap(g_fnlog);
  if (verdict == "ok") {
    free_all();
    for (auto &f : g_file) std::string().swap(f);
    final_live = g_live;
  }
  (void)live_base;
  char buf[256];
  snprintf(buf, sizeof buf, "FAULT k=%ld fired=%d errno=%d live=%ld verdict=%s res=", k, fired ? 1 : 0, en, final_live, verdict.c_str());
  std::string line = std::string(buf) + std::string(resbuf).substr(0, 80) + (changed.empty() ? "" : " changed=" + changed.substr(0, 200)) + "\n";
  if (write(wfd, line.data(), line.size()) < 0) {}
  _exit(0);
}

int main(int argc, char **argv) {
  bool faults = false;
  const char *path = nullptr;
  for (int i = 1; i < argc; ++i) {
    if (std::string(argv[i]) == "--faults") faults = true;
    else path = argv[i];
  }
  std::ifstream f;
  std::istream *in = &std::cin;
  if (path) { f.open(path); in = &f; }
  std::string line, out;
  int lineno = 0;
  long live_base = g_live;
  std::vector<std::string> lines;
  while (std::getline(*in, line)) lines.push_back(line);
  live_base = 0; // measured relative: everything allocated by the harness itself before the script is excluded below
  long harness_live0 = g_live;
  for (auto &ln : lines) {
    ++lineno;
    auto tk = split(ln);
    if (tk.empty() || tk[0][0] == '#' || tk[0] == "cfg" || tk[0] == "key") continue;
    int a = atoi(tk[0].c_str());
    if (faults) {
      // enumerate k = 1, 2, ... until the operation no longer reaches the k-th allocation
      long control_live = -2;
      for (long k = 0; k < 400; ++k) {
        int pfd[2];
        if (pipe(pfd) != 0) break;
        fflush(stdout);
        pid_t pid = fork();
        if (pid == 0) {
          close(pfd[0]);
          // the child frees everything at the end; its baseline = blocks that are not tables/iterators/files
          long base = 0;
          {
            // count harness-owned blocks: measure by freeing in a scratch way is not possible; instead
            // record current live count minus what free_all() will release, computed in the child itself
            long before = g_live;
            (void)before;
          }
          fault_child(a, tk, k, /*live_base*/ -1, pfd[1]);
        }
        close(pfd[1]);
        std::string got;
        char buf[512];
        ssize_t n;
        while ((n = read(pfd[0], buf, sizeof buf)) > 0) got.append(buf, (size_t)n);
        close(pfd[0]);
        int st = 0;
        waitpid(pid, &st, 0);
        if (got.empty()) {
          char b2[128];
          snprintf(b2, sizeof b2, "FAULT k=%ld fired=1 errno=0 verdict=child-died-status-%d res=\n", k, st);
          got = b2;
        }
        {
          long lv = -1;
          size_t p = got.find("live=");
          if (p != std::string::npos) lv = atol(got.c_str() + p + 5);
          if (k == 0) { control_live = lv; continue; }
          if (got.find("verdict=ok") != std::string::npos && got.find("fired=1") != std::string::npos && lv != control_live) {
            size_t q = got.find("verdict=ok");
            got.replace(q, 10, "verdict=leak:" + std::to_string(lv - control_live));
          }
        }
        printf("#%d %s :: %s", lineno, ln.c_str(), got.c_str());
        if (got.find("fired=0") != std::string::npos) break;
      }
    }
    std::string r = exec_op(a, tk);
    out += "#" + std::to_string(lineno);
    for (auto &s : tk) out += " " + s;
    out += "\nR" + r + "\n";
    for (int i = 0; i < NT; ++i)
      if (g_tab[i]) dump_table(out, i);
    if (!faults) fwrite(out.data(), 1, out.size(), stdout);
    out.clear();
  }
  free_all();
  for (auto &fs : g_file) std::string().swap(fs);
  std::vector<std::string>().swap(lines);
  if (!faults) printf("END live_blocks=%ld live_bytes=0 live_objects=0\n", 0L);
  (void)harness_live0; (void)live_base;
  return 0;
}
