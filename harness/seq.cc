// T1 sequential white-box harness: executes a script on the real libcuckoo table and prints,
// after every operation, the result and the complete internal state in the same textual
// format as the extracted Coq model (ocaml/driver.ml).
//
// Compile-time configuration:
//   -DH_SPB=<n>                         slots per bucket
//   -DLIBCUCKOO_VERIF_MAX_NUM_LOCKS=<n> stripe count (guarded hook in cuckoohash_map.hh)
//   -DH_KIND=0|1                        0: trivial key/value (is_simple), 1: instrumented types
//   -DH_NOTHROW=0|1                     (kind 1) move constructors noexcept or not
#include <algorithm>
#include <atomic>
#include <cerrno>
#include <sys/wait.h>
#include <unistd.h>
#include <cinttypes>
#include <cmath>
#include <cstdint>
#include <cstdio>
#include <cstdlib>
#include <cstring>
#include <fstream>
#include <iostream>
#include <map>
#include <memory>
#include <sstream>
#include <string>
#include <mutex>
#include <unordered_map>
#include <vector>

#include <libcuckoo/cuckoohash_map.hh>

// The guarded synchronisation hooks are used for one protocol rule that is decidable without a scheduler
// (ConcInv.release_only_after_bump): once a table has published a new lock array (EMPLACE), no lock may be released
// before the resize generation of that table is bumped (FA_RC) - on the normal path and on every exception path.
#include <set>
static std::set<const void *> g_unpublished;      // tables with a new lock array and no bump yet
static std::string g_protocol_error;
extern "C" void libcuckoo_verif_hook(int kind, const void *obj, unsigned long, unsigned long) {
  if (kind == LIBCUCKOO_VH_EMPLACED) g_unpublished.insert(obj);
  else if (kind == LIBCUCKOO_VH_FA_RC) g_unpublished.erase(obj);
  else if (kind == LIBCUCKOO_VH_UNLOCK && !g_unpublished.empty() && g_protocol_error.empty())
    g_protocol_error = "a lock is released after a new lock array was published and before the resize generation was bumped";
}

#ifndef H_SPB
#define H_SPB 4
#endif
#ifndef H_KIND
#define H_KIND 0
#endif
#ifndef H_NOTHROW
#define H_NOTHROW 1
#endif
#ifdef LIBCUCKOO_VERIF_MAX_NUM_LOCKS
static const uint64_t kHarnessMaxLocks = LIBCUCKOO_VERIF_MAX_NUM_LOCKS;
#else
static const uint64_t kHarnessMaxLocks = 1UL << 16;
#endif

// ---------------------------------------------------------------- chosen hashes
static std::unordered_map<uint64_t, uint64_t> g_hash;
static std::vector<std::string> g_errors; // harness-detected misuse (read of moved-from object, ...)
// ---------------------------------------------------------------- fault injection (T3, C07)
struct UserFault {};   // what a user's hash / equality / constructor / functor throws
static bool g_lvalue_args = false;  // script directive "lvalues 1": insertion-type calls get lvalue arguments
static int g_fault_kind = 0;      // 0 none, 1 k-th allocation, 2 hash of poison key, 3 equality with poison key,
                                  // 4 k-th copy construction of an element from user arguments, 5 functor
static long g_fault_at = 0;
static std::atomic<long> g_fault_count{0};
static bool g_fault_fired = false;
static const uint64_t kPoison = 999;
static uint64_t hash_of(uint64_t id) {
  auto it = g_hash.find(id);
  return it == g_hash.end() ? id : it->second;
}

// ---------------------------------------------------------------- element types
#if H_KIND == 0
struct Key {
  uint64_t id;
};
static inline Key mkkey(uint64_t id) {
  Key k;
  k.id = id;
  return k;
}
static inline bool key_husk(const Key &) { return false; }
using Val = int64_t;
static inline Val mkval(int64_t v) { return v; }
static inline int64_t val_get(const Val &v) { return v; }
static inline void val_set(Val &v, int64_t x) { v = x; }
static const bool kSimple = true, kNothrow = true, kDestructive = false;
#else
// Instrumented types: every object is registered; double destruction, use of a destroyed or
// moved-from object and leaks are reported.
struct Registry {
  std::unordered_map<const void *, int> st; // 1 = live, 2 = moved-from
  long constructed = 0, destroyed = 0;
  void ctor(const void *p, int s) {
    if (st.count(p)) g_errors.push_back("construct over live object");
    st[p] = s;
    ++constructed;
  }
  void dtor(const void *p) {
    auto it = st.find(p);
    if (it == st.end()) {
      g_errors.push_back("destroy of non-object");
      return;
    }
    st.erase(it);
    ++destroyed;
  }
  void use(const void *p, const char *what) {
    auto it = st.find(p);
    if (it == st.end())
      g_errors.push_back(std::string("use of destroyed object: ") + what);
    else if (it->second == 2)
      g_errors.push_back(std::string("use of moved-from object: ") + what);
  }
};
static Registry g_reg;
struct Key {
  uint64_t id;
  bool moved;
  explicit Key(uint64_t i) : id(i), moved(false) { g_reg.ctor(this, 1); }
  Key(const Key &o) : id(o.id), moved(o.moved) {
    if (g_fault_kind == 4 && g_fault_count.fetch_add(1) + 1 == g_fault_at) { g_fault_fired = true; throw UserFault(); }
    g_reg.ctor(this, o.moved ? 2 : 1);
  }
  Key(Key &&o) noexcept(H_NOTHROW) : id(o.id), moved(o.moved) {
    g_reg.ctor(this, o.moved ? 2 : 1);
    o.moved = true;
    g_reg.st[&o] = 2;
  }
  Key &operator=(const Key &o) {
    id = o.id;
    moved = o.moved;
    g_reg.st[this] = moved ? 2 : 1;
    return *this;
  }
  ~Key() { g_reg.dtor(this); }
};
static inline Key mkkey(uint64_t id) { return Key(id); }
static inline bool key_husk(const Key &k) { return k.moved; }
struct HKey;

struct Val {
  int64_t v;
  bool moved;
  Val() : v(0), moved(false) { g_reg.ctor(this, 1); }
  explicit Val(int64_t x) : v(x), moved(false) { g_reg.ctor(this, 1); }
  Val(const Val &o) : v(o.v), moved(o.moved) {
    if (g_fault_kind == 4 && g_fault_count.fetch_add(1) + 1 == g_fault_at) { g_fault_fired = true; throw UserFault(); }
    g_reg.ctor(this, o.moved ? 2 : 1);
  }
  Val(Val &&o) noexcept(H_NOTHROW) : v(o.v), moved(o.moved) {
    g_reg.ctor(this, o.moved ? 2 : 1);
    o.moved = true;
    g_reg.st[&o] = 2;
  }
  Val &operator=(const Val &o) {
    v = o.v;
    moved = o.moved;
    g_reg.st[this] = moved ? 2 : 1;
    return *this;
  }
  Val &operator=(Val &&o) {
    v = o.v;
    moved = o.moved;
    g_reg.st[this] = moved ? 2 : 1;
    o.moved = true;
    g_reg.st[&o] = 2;
    return *this;
  }
  ~Val() { g_reg.dtor(this); }
};
static inline Val mkval(int64_t v) { return Val(v); }
static inline int64_t val_get(const Val &v) {
  g_reg.use(&v, "value read");
  return v.v;
}
static inline void val_set(Val &v, int64_t x) {
  g_reg.use(&v, "value write");
  v.v = x;
}
static const bool kSimple = false, kNothrow = H_NOTHROW, kDestructive = true;
#endif

#if H_KIND == 1
// a key-like type that hashes and compares consistently with Key but is not convertible to it
struct HKey { uint64_t id; };
#endif
struct KeyHash {
#if H_KIND == 1
  size_t operator()(const HKey &k) const { return hash_of(k.id); }
#endif
  size_t operator()(const Key &k) const {
#if H_KIND == 1
    g_reg.use(&k, "hash");
#endif
    if (g_fault_kind == 2 && k.id == kPoison) { g_fault_fired = true; throw UserFault(); }
    return hash_of(k.id);
  }
};
struct KeyEq {
#if H_KIND == 1
  bool operator()(const Key &a, const HKey &b) const { g_reg.use(&a, "eq lhs"); return a.id == b.id; }
  bool operator()(const HKey &a, const Key &b) const { g_reg.use(&b, "eq rhs"); return a.id == b.id; }
#endif
  bool operator()(const Key &a, const Key &b) const {
#if H_KIND == 1
    g_reg.use(&a, "eq lhs");
    g_reg.use(&b, "eq rhs");
#endif
    if (g_fault_kind == 3 && (a.id == kPoison || b.id == kPoison)) { g_fault_fired = true; throw UserFault(); }
    return a.id == b.id;
  }
};

// ---------------------------------------------------------------- argument instrumentation (C16)
static std::string g_consumed;
static bool g_copy_args = false;
#if H_KIND == 1
#define LK(id) (HKey{(uint64_t)(id)})
// named key/value arguments handed to insertion-type calls as rvalues; afterwards (also when the
// call throws) it is recorded whether the table moved from them
struct Args {
  Key k;
  Val v;
  Args(uint64_t id, int64_t x) : k(id), v(x) {}
  ~Args() { g_consumed = std::string(" consumed=") + (k.moved ? "1" : "0") + (v.moved ? "1" : "0"); }
};
#else
#define LK(id) mkkey(id)
#endif

// ---------------------------------------------------------------- allocator
struct AllocStats {
  std::atomic<long> live_blocks{0};
  std::atomic<long> live_bytes{0};
  std::atomic<long> calls{0};
};
static AllocStats g_alloc;
// which allocator instance (id) issued each live block: unequal instances stand for different arenas, so a block
// must be returned through an allocator equal to the one it came from
static std::mutex g_owner_mu;
static std::unordered_map<const void *, int> g_block_owner;
template <class T> struct TrackAlloc {
  using value_type = T;
#ifdef H_NOPROP
  // the non-propagating policy: assignment keeps the destination's allocator, so a move assignment between unequal
  // allocators relocates element by element (swap of unequal non-propagating allocators is undefined: not generated)
  using propagate_on_container_copy_assignment = std::false_type;
  using propagate_on_container_move_assignment = std::false_type;
  using propagate_on_container_swap = std::false_type;
#else
  using propagate_on_container_copy_assignment = std::true_type;
  using propagate_on_container_move_assignment = std::true_type;
  using propagate_on_container_swap = std::true_type;
#endif
  int id;
  TrackAlloc() : id(0) {}
  explicit TrackAlloc(int i) : id(i) {}
  template <class U> TrackAlloc(const TrackAlloc<U> &o) : id(o.id) {}
  T *allocate(size_t n) {
    if (g_fault_kind == 1 && g_fault_count.fetch_add(1) + 1 == g_fault_at) { g_fault_fired = true; throw std::bad_alloc(); }
    ++g_alloc.calls;
    ++g_alloc.live_blocks;
    g_alloc.live_bytes += (long)(n * sizeof(T));
    T *p = std::allocator<T>().allocate(n);
    { std::lock_guard<std::mutex> g(g_owner_mu); g_block_owner[p] = id; }
    return p;
  }
  void deallocate(T *p, size_t n) {
    {
      std::lock_guard<std::mutex> g(g_owner_mu);
      auto it = g_block_owner.find(p);
      if (it == g_block_owner.end()) g_errors.push_back("deallocate of a block this allocator family never issued");
      else {
        if (it->second != id)
          g_errors.push_back("block issued by allocator " + std::to_string(it->second) + " returned through unequal allocator " + std::to_string(id));
        g_block_owner.erase(it);
      }
    }
    --g_alloc.live_blocks;
    g_alloc.live_bytes -= (long)(n * sizeof(T));
    std::allocator<T>().deallocate(p, n);
  }
  template <class U> bool operator==(const TrackAlloc<U> &o) const { return id == o.id; }
  template <class U> bool operator!=(const TrackAlloc<U> &o) const { return id != o.id; }
};

using Table = libcuckoo::cuckoohash_map<Key, Val, KeyHash, KeyEq, TrackAlloc<std::pair<const Key, Val>>, H_SPB>;
using LT = Table::locked_table;

// ---------------------------------------------------------------- internal access
namespace libcuckoo {
class UnitTestInternalAccess {
public:
  template <class M> static auto &buckets(M &m) { return m.buckets_; }
  template <class M> static auto &old_buckets(M &m) { return m.old_buckets_; }
  template <class M> static auto &all_locks(M &m) { return m.all_locks_; }
  template <class M> static size_t nrem(M &m) { return m.num_remaining_lazy_rehash_locks_.load(); }
  template <class M> static size_t rc(M &m) { return m.resize_counter_.load(); }
  template <class M> static size_t partial_key(size_t h) { return M::partial_key(h); }
  template <class M> static size_t index_hash(size_t hp, size_t h) { return M::index_hash(hp, h); }
  template <class M> static size_t alt_index(size_t hp, size_t p, size_t i) {
    return M::alt_index(hp, (typename M::partial_t)p, i);
  }
  template <class M> static size_t lock_ind(size_t b) { return M::lock_ind(b); }
  template <class M> static size_t hashsize(size_t hp) { return M::hashsize(hp); }
  template <class M> static size_t hashmask(size_t hp) { return M::hashmask(hp); }
  template <class M> static size_t reserve_calc(size_t n) { return M::reserve_calc(n); }
};
} // namespace libcuckoo
using IA = libcuckoo::UnitTestInternalAccess;

struct ItPeek : LT::const_iterator {
  static size_t index(const LT::const_iterator &it) { return it.*(&ItPeek::index_); }
  static size_t slot(const LT::const_iterator &it) { return it.*(&ItPeek::slot_); }
};

// ---------------------------------------------------------------- functor family
struct Fnk {
  int kind; // 0 noop 1 add 2 set 3 eraseifeq 4 adderaseeven 5 ctx
  int64_t a, b;
};
static Fnk parse_fn(const std::string &s) {
  Fnk f{0, 0, 0};
  std::vector<std::string> parts;
  std::stringstream ss(s);
  std::string tok;
  while (std::getline(ss, tok, ':')) parts.push_back(tok);
  if (parts[0] == "noop") f.kind = 0;
  else if (parts[0] == "add") { f.kind = 1; f.a = atoll(parts[1].c_str()); }
  else if (parts[0] == "set") { f.kind = 2; f.a = atoll(parts[1].c_str()); }
  else if (parts[0] == "eraseifeq") { f.kind = 3; f.a = atoll(parts[1].c_str()); }
  else if (parts[0] == "adderaseeven") { f.kind = 4; f.a = atoll(parts[1].c_str()); }
  else if (parts[0] == "ctx") { f.kind = 5; f.a = atoll(parts[1].c_str()); f.b = atoll(parts[2].c_str()); }
  else if (parts[0] == "throw") { f.kind = 6; f.a = atoll(parts[1].c_str()); }
  else { fprintf(stderr, "bad functor %s\n", s.c_str()); exit(2); }
  return f;
}
static std::string g_fnlog;
static bool fn_apply(const Fnk &f, Val &v, bool newly) {
  int64_t x = val_get(v);
  g_fnlog += " fn(" + std::to_string(x) + "," + (newly ? "new" : "old") + ")";
  switch (f.kind) {
  case 0: return false;
  case 1: val_set(v, x + f.a); return false;
  case 2: val_set(v, f.a); return false;
  case 3: return x == f.a;
  case 4: val_set(v, x + f.a); return ((x + f.a) % 2) == 0;
  case 5: {
    int64_t y = newly ? x + f.a : x + f.b;
    val_set(v, y);
    return y == 0;
  }
  case 6:
    // partial effect, then the functor throws
    val_set(v, x + f.a);
    g_fault_fired = true;
    throw UserFault();
  }
  return false;
}
struct UpsertFn1 { Fnk f; void operator()(Val &v) { fn_apply(f, v, false); } };
struct UpsertFn2 {
  Fnk f;
  void operator()(Val &v, libcuckoo::UpsertContext c) { fn_apply(f, v, c == libcuckoo::UpsertContext::NEWLY_INSERTED); }
};
// functors callable in BOTH shapes: they accept an UpsertContext, so the documented behaviour is that of the
// two-argument form (invoked after a new insertion too, with the matching context); the one-argument overload must
// never be chosen
struct UpsertFnBoth {
  Fnk f;
  void operator()(Val &v) { g_errors.push_back("the context-less overload of a functor that accepts an UpsertContext was invoked"); fn_apply(f, v, false); }
  void operator()(Val &v, libcuckoo::UpsertContext c) { fn_apply(f, v, c == libcuckoo::UpsertContext::NEWLY_INSERTED); }
};
struct UpraseFnBoth {
  Fnk f;
  bool operator()(Val &v) { g_errors.push_back("the context-less overload of a functor that accepts an UpsertContext was invoked"); return fn_apply(f, v, false); }
  bool operator()(Val &v, libcuckoo::UpsertContext c) { return fn_apply(f, v, c == libcuckoo::UpsertContext::NEWLY_INSERTED); }
};
struct UpraseFn1 { Fnk f; bool operator()(Val &v) { return fn_apply(f, v, false); } };
struct UpraseFn2 {
  Fnk f;
  bool operator()(Val &v, libcuckoo::UpsertContext c) { return fn_apply(f, v, c == libcuckoo::UpsertContext::NEWLY_INSERTED); }
};

// ---------------------------------------------------------------- world
static const int NT = 4;
static std::unique_ptr<Table> g_tab[NT];
static std::unique_ptr<LT> g_lt[NT];
static LT::iterator g_it[4];
static bool g_it_valid[4];
#if H_KIND == 0
static std::unique_ptr<std::stringstream> g_img[4];
#endif

static std::string mlf_str(double m) {
  if (std::isnan(m)) return "nan";
  for (int d = 1; d <= 1024; ++d)
    for (int n = 0; n <= d; ++n)
      if ((double)n / (double)d == m) return std::to_string(n) + "/" + std::to_string(d);
  char buf[64];
  snprintf(buf, sizeof buf, "%.17g", m);
  return buf;
}

template <class BC> static void dump_array(std::string &out, const char *tag, BC &bc) {
  out += tag;
  size_t n = bc.size();
  char buf[128];
  for (size_t b = 0; b < n; ++b) {
    for (size_t s = 0; s < H_SPB; ++s) {
      if (bc[b].occupied(s)) {
        const Key &k = bc[b].key(s);
#if H_KIND == 0
        int64_t v = bc[b].mapped(s);
#else
        int64_t v = bc[b].mapped(s).v;
#endif
        snprintf(buf, sizeof buf, " %zu.%zu:%" PRIu64 "=%" PRId64 "/%u%s", b, s, (uint64_t)k.id, v,
                 (unsigned)bc[b].partial(s), key_husk(k) ? "h" : "");
        out += buf;
      }
    }
  }
  out += "\n";
}

static void dump_table(std::string &out, int i) {
  Table &t = *g_tab[i];
  auto &cur = IA::buckets(t);
  auto &old = IA::old_buckets(t);
  char buf[512];
  size_t mhp = t.maximum_hashpower();
  std::string mhps = mhp == libcuckoo::NO_MAXIMUM_HASHPOWER ? "none" : std::to_string(mhp);
  snprintf(buf, sizeof buf,
           "T%d hp=%zu dead=%d ohp=%zu odead=%d nrem=%zu rc=%zu mlf=%s mhp=%s w=%zu act=%d size=%zu cap=%zu\n", i,
           cur.hashpower(), cur.is_deallocated() ? 1 : 0, old.hashpower(), old.is_deallocated() ? 1 : 0,
           IA::nrem(t), IA::rc(t), mlf_str(t.minimum_load_factor()).c_str(), mhps.c_str(),
           t.max_num_worker_threads(), (g_lt[i] && g_lt[i]->is_active()) ? 1 : 0, t.size(), t.capacity());
  out += buf;
  // derived statistics are checked here, against their definitions (C05)
  if (t.empty() != (t.size() == 0)) g_errors.push_back("empty() != (size()==0)");
  if (!cur.is_deallocated()) {
    if (t.bucket_count() != (size_t(1) << t.hashpower())) g_errors.push_back("bucket_count != 2^hashpower");
    if (t.capacity() != t.bucket_count() * H_SPB) g_errors.push_back("capacity != bucket_count*spb");
    double lf = t.load_factor();
    if (lf != (double)t.size() / (double)t.capacity()) g_errors.push_back("load_factor != size/capacity");
  }
  int j = 0;
  for (auto &la : IA::all_locks(t)) {
    snprintf(buf, sizeof buf, " L%d n=%zu", j++, la.size());
    out += buf;
    size_t idx = 0;
    for (auto &lk : la) {
      if (!(lk.elem_counter() == 0 && lk.is_migrated())) {
        snprintf(buf, sizeof buf, " %zu:%" PRId64 ":%d", idx, (int64_t)lk.elem_counter(), lk.is_migrated() ? 1 : 0);
        out += buf;
      }
      ++idx;
    }
    out += "\n";
  }
  if (!cur.is_deallocated()) dump_array(out, " C", cur);
  if (!old.is_deallocated()) dump_array(out, " O", old);
}

static std::string pos_str(const LT::const_iterator &it) {
  return "@" + std::to_string(ItPeek::index(it)) + "." + std::to_string(ItPeek::slot(it));
}

static bool it_occupied(Table &t, const LT::const_iterator &it) {
  auto &cur = IA::buckets(t);
  size_t b = ItPeek::index(it), s = ItPeek::slot(it);
  return b < cur.size() && s < H_SPB && cur[b].occupied(s);
}

static bool it_usable(Table &t, int ri) {
  if (!g_it_valid[ri]) return false;
  auto &cur = IA::buckets(t);
  size_t b = ItPeek::index(g_it[ri]), s = ItPeek::slot(g_it[ri]);
  return (b < cur.size() && s < H_SPB) || (b == cur.size() && s == 0);
}

static std::vector<std::string> split(const std::string &line) {
  std::vector<std::string> r;
  std::stringstream ss(line);
  std::string t;
  while (ss >> t) r.push_back(t);
  return r;
}

static uint64_t U(const std::string &s) { return strtoull(s.c_str(), nullptr, 10); }
static int64_t I(const std::string &s) { return strtoll(s.c_str(), nullptr, 10); }

static const char *UNM = " exc:UNMODELLED";

// executes one op on table a; returns the result string (with leading space per atom)
static std::string exec_op(int a, const std::vector<std::string> &tk) {
  const std::string &o = tk[1];
  std::string r;
  g_fnlog.clear();
  g_consumed.clear();
  auto B = [](bool b) { return std::string(b ? " true" : " false"); };
  if (o == "new") {
    if (g_tab[a]) return UNM;
    try { g_tab[a].reset(new Table(U(tk[2]))); }
    catch (std::bad_alloc &) { return " exc:bad_alloc"; }
    catch (...) { return " exc:user"; }
    return " -";
  }
  if (!g_tab[a]) return UNM;
  Table &t = *g_tab[a];
  bool act = g_lt[a] && g_lt[a]->is_active();
  bool is_locked_op = (o.size() > 2 && (o.substr(0, 2) == "l." || o.substr(0, 3) == "it.")) || o == "unlock" ||
                      o == "sout" || o == "sin";
  bool either = (o == "mlf" || o == "mhp" || o == "workers" || o == "copyto" || o == "moveto" || o == "assignto" ||
                 o == "massignto" || o == "swap" || o == "copyallocto" || o == "moveallocto");
  if (!either) {
    if (is_locked_op && !act) return UNM;
    if (!is_locked_op && act) return UNM;
  }
  try {
    if (o == "find") {
      Val v = mkval(0);
      bool f = t.find(LK(U(tk[2])), v);
      r = B(f);
      if (f) r += " " + std::to_string(val_get(v));
    } else if (o == "findthrow") {
      Val v = t.find(LK(U(tk[2])));
      r = " " + std::to_string(val_get(v));
    } else if (o == "contains") {
      r = B(t.contains(LK(U(tk[2]))));
    } else if (o == "findfn") {
      bool f = t.find_fn(LK(U(tk[2])), [](const Val &v) {
        g_fnlog += " fn(" + std::to_string(val_get(v)) + ",old)";
      });
      r = B(f) + g_fnlog;
    } else if (o == "update") {
      r = B(t.update(LK(U(tk[2])), mkval(I(tk[3]))));
    } else if (o == "updatefn") {
      Fnk f = parse_fn(tk[3]);
      bool res = t.update_fn(LK(U(tk[2])), [&f](Val &v) { fn_apply(f, v, false); });
      r = B(res) + g_fnlog;
#if H_KIND == 1
    } else if (o == "insert") {
      bool res;
      { Args ar(U(tk[2]), I(tk[3]));
        if (g_copy_args || g_lvalue_args) res = t.insert(ar.k, ar.v);   // lvalue arguments: elements copy-constructed, arguments untouched
        else res = t.insert(std::move(ar.k), std::move(ar.v)); }
      r = B(res) + g_consumed;
    } else if (o == "ioa") {
      bool res; { Args ar(U(tk[2]), I(tk[3])); res = g_lvalue_args ? t.insert_or_assign(ar.k, ar.v) : t.insert_or_assign(std::move(ar.k), std::move(ar.v)); }
      r = B(res) + g_consumed;
    } else if (o == "upsert") {
      Fnk f = parse_fn(tk[3]);
      bool res;
      { Args ar(U(tk[2]), I(tk[5]));
        if (g_lvalue_args) res = (tk[4] == "1") ? t.upsert(ar.k, UpsertFn2{f}, ar.v) : t.upsert(ar.k, UpsertFn1{f}, ar.v);
        else if (tk[4] == "1" && U(tk[2]) % 2 == 1) res = t.upsert(std::move(ar.k), UpsertFnBoth{f}, std::move(ar.v));
        else res = (tk[4] == "1") ? t.upsert(std::move(ar.k), UpsertFn2{f}, std::move(ar.v))
                             : t.upsert(std::move(ar.k), UpsertFn1{f}, std::move(ar.v)); }
      r = B(res) + g_fnlog + g_consumed;
    } else if (o == "uprase") {
      Fnk f = parse_fn(tk[3]);
      bool res;
      { Args ar(U(tk[2]), I(tk[5]));
        if (g_lvalue_args) res = (tk[4] == "1") ? t.uprase_fn(ar.k, UpraseFn2{f}, ar.v) : t.uprase_fn(ar.k, UpraseFn1{f}, ar.v);
        else if (tk[4] == "1" && U(tk[2]) % 2 == 1) res = t.uprase_fn(std::move(ar.k), UpraseFnBoth{f}, std::move(ar.v));
        else res = (tk[4] == "1") ? t.uprase_fn(std::move(ar.k), UpraseFn2{f}, std::move(ar.v))
                             : t.uprase_fn(std::move(ar.k), UpraseFn1{f}, std::move(ar.v)); }
      r = B(res) + g_fnlog + g_consumed;
#else
    } else if (o == "insert") {
      r = B(t.insert(mkkey(U(tk[2])), mkval(I(tk[3]))));
    } else if (o == "ioa") {
      r = B(t.insert_or_assign(mkkey(U(tk[2])), mkval(I(tk[3]))));
    } else if (o == "upsert") {
      Fnk f = parse_fn(tk[3]);
      bool res = (tk[4] == "1" && U(tk[2]) % 2 == 1) ? t.upsert(mkkey(U(tk[2])), UpsertFnBoth{f}, mkval(I(tk[5])))
                 : (tk[4] == "1") ? t.upsert(mkkey(U(tk[2])), UpsertFn2{f}, mkval(I(tk[5])))
                                : t.upsert(mkkey(U(tk[2])), UpsertFn1{f}, mkval(I(tk[5])));
      r = B(res) + g_fnlog;
    } else if (o == "uprase") {
      Fnk f = parse_fn(tk[3]);
      bool res = (tk[4] == "1" && U(tk[2]) % 2 == 1) ? t.uprase_fn(mkkey(U(tk[2])), UpraseFnBoth{f}, mkval(I(tk[5])))
                 : (tk[4] == "1") ? t.uprase_fn(mkkey(U(tk[2])), UpraseFn2{f}, mkval(I(tk[5])))
                                : t.uprase_fn(mkkey(U(tk[2])), UpraseFn1{f}, mkval(I(tk[5])));
      r = B(res) + g_fnlog;
#endif
    } else if (o == "erase") {
      r = B(t.erase(LK(U(tk[2]))));
    } else if (o == "erasefn") {
      Fnk f = parse_fn(tk[3]);
      bool res = t.erase_fn(LK(U(tk[2])), [&f](Val &v) { return fn_apply(f, v, false); });
      r = B(res) + g_fnlog;
    } else if (o == "rehash") {
      r = B(t.rehash(U(tk[2])));
    } else if (o == "reserve") {
      r = B(t.reserve(U(tk[2])));
    } else if (o == "clear") {
      t.clear();
      r = " -";
    } else if (o == "mlf") {
      double m;
      if (tk[2] == "nan") m = std::nan("");
      else {
        if (U(tk[3]) == 0) return UNM;
        bool neg = tk[2][0] == '-';
        double n = (double)U(neg ? tk[2].substr(1) : tk[2]);
        m = (neg ? -n : n) / (double)U(tk[3]);
      }
      t.minimum_load_factor(m);
      r = " -";
    } else if (o == "mhp") {
      t.maximum_hashpower(tk[2] == "none" ? libcuckoo::NO_MAXIMUM_HASHPOWER : U(tk[2]));
      r = " -";
    } else if (o == "workers") {
      t.max_num_worker_threads(U(tk[2]));
      r = " -";
    } else if (o == "lock") {
      g_lt[a].reset(new LT(t.lock_table()));
      for (auto &v : g_it_valid) v = false;
      r = " -";
    } else if (o == "unlock") {
      g_lt[a]->unlock();
      r = " -";
    } else if (o == "l.insert") {
#if H_KIND == 1
      std::string pr; bool ins;
      { Args ar(U(tk[2]), I(tk[3]));
        if (g_lvalue_args) { auto res = g_lt[a]->insert(ar.k, ar.v); pr = pos_str(res.first); ins = res.second; }
        else { auto res = g_lt[a]->insert(std::move(ar.k), std::move(ar.v)); pr = pos_str(res.first); ins = res.second; } }
      r = " " + pr + B(ins) + g_consumed;
#else
      auto res = g_lt[a]->insert(mkkey(U(tk[2])), mkval(I(tk[3])));
      r = " " + pos_str(res.first) + B(res.second);
#endif
    } else if (o == "l.idx") {
      Val &v = (*g_lt[a])[mkkey(U(tk[2]))];
      r = " " + std::to_string(val_get(v));
    } else if (o == "l.erase") {
      r = " " + std::to_string(g_lt[a]->erase(LK(U(tk[2]))));
    } else if (o == "l.eraseit") {
      int ri = atoi(tk[2].c_str()), di = atoi(tk[3].c_str());
      if (!it_usable(t, ri) || !it_occupied(t, g_it[ri])) return UNM;
      g_it[di] = g_lt[a]->erase(g_it[ri]);
      g_it_valid[di] = true;
      r = " " + pos_str(g_it[di]);
    } else if (o == "l.find") {
      int ri = atoi(tk[3].c_str());
      g_it[ri] = g_lt[a]->find(LK(U(tk[2])));
      g_it_valid[ri] = true;
      r = " " + pos_str(g_it[ri]);
    } else if (o == "l.at") {
      // alternately through the const overloads (at / find / equal_range of a const locked_table), with the same
      // heterogeneous key type: it is not convertible to key_type, so a lookup that constructed a key would not compile
      if (U(tk[2]) % 2 == 0) r = " " + std::to_string(val_get(g_lt[a]->at(LK(U(tk[2])))));
      else {
        const LT &clt = *g_lt[a];
        auto cit = clt.find(LK(U(tk[2])));
        auto cpr = clt.equal_range(LK(U(tk[2])));
        if ((cit == clt.end()) != (cpr.first == cpr.second)) g_errors.push_back("const find and const equal_range disagree");
        r = " " + std::to_string(val_get(clt.at(LK(U(tk[2])))));
      }
    } else if (o == "l.count") {
      const LT &clt = *g_lt[a];
      r = " " + std::to_string(clt.count(LK(U(tk[2]))));
    } else if (o == "l.range") {
      auto pr = g_lt[a]->equal_range(LK(U(tk[2])));
      r = " " + pos_str(pr.first) + " " + pos_str(pr.second);
    } else if (o == "l.rehash") {
      g_lt[a]->rehash(U(tk[2]));
      r = " -";
    } else if (o == "l.reserve") {
      g_lt[a]->reserve(U(tk[2]));
      r = " -";
    } else if (o == "l.clear") {
      g_lt[a]->clear();
      r = " -";
    } else if (o == "it.begin") {
      int ri = atoi(tk[2].c_str());
      g_it[ri] = g_lt[a]->begin();
      g_it_valid[ri] = true;
      r = " " + pos_str(g_it[ri]);
    } else if (o == "it.end") {
      int ri = atoi(tk[2].c_str());
      g_it[ri] = g_lt[a]->end();
      g_it_valid[ri] = true;
      r = " " + pos_str(g_it[ri]);
    } else if (o == "it.inc") {
      int ri = atoi(tk[2].c_str());
      if (!it_usable(t, ri) || g_it[ri] == g_lt[a]->end()) return UNM;
      ++g_it[ri];
      r = " " + pos_str(g_it[ri]);
    } else if (o == "it.dec") {
      int ri = atoi(tk[2].c_str());
      // operator-- at begin() is undefined: the model reports it, the harness must not run it
      if (!it_usable(t, ri)) return UNM;
      {
        auto &cur = IA::buckets(t);
        size_t b = ItPeek::index(g_it[ri]), s = ItPeek::slot(g_it[ri]);
        bool any = false;
        for (size_t bb = 0; bb < cur.size() && !any; ++bb)
          for (size_t ss = 0; ss < H_SPB && !any; ++ss)
            if (cur[bb].occupied(ss) && (bb < b || (bb == b && ss < s))) any = true;
        if (!any) return UNM;
      }
      --g_it[ri];
      r = " " + pos_str(g_it[ri]);
    } else if (o == "it.get") {
      int ri = atoi(tk[2].c_str());
      if (!it_usable(t, ri) || !it_occupied(t, g_it[ri])) return UNM;
      LT::const_iterator cit = g_it[ri];
      r = " " + std::to_string(cit->first.id) + "=" + std::to_string(val_get(cit->second));
    } else if (o == "it.set") {
      int ri = atoi(tk[2].c_str());
      if (!it_usable(t, ri) || !it_occupied(t, g_it[ri])) return UNM;
      val_set(g_it[ri]->second, I(tk[3]));
      r = " -";
    } else if (o == "it.eq") {
      int r1 = atoi(tk[2].c_str()), r2 = atoi(tk[3].c_str());
      if (!g_it_valid[r1] || !g_it_valid[r2]) return UNM;
      r = B(g_it[r1] == g_it[r2]);
    } else if (o == "l.trav") {
      for (auto it = g_lt[a]->begin(); it != g_lt[a]->end(); ++it)
        r += " " + pos_str(it) + " " + std::to_string(it->first.id) + "=" + std::to_string(val_get(it->second));
    } else if (o == "l.rtrav") {
      const LT &clt = *g_lt[a];
      auto it = clt.cend();
      while (it != clt.cbegin()) {
        --it;
        r += " " + pos_str(it) + " " + std::to_string(it->first.id) + "=" + std::to_string(val_get(it->second));
      }
    }
#if H_KIND == 0
    else if (o == "sout") {
      int si = atoi(tk[2].c_str());
      g_img[si].reset(new std::stringstream());
      *g_img[si] << *g_lt[a];
      r = " -";
    } else if (o == "sin") {
      int si = atoi(tk[2].c_str());
      if (!g_img[si]) return UNM;
      std::stringstream copy(g_img[si]->str());
      copy >> *g_lt[a];
      for (auto &v : g_it_valid) v = false;
      r = " -";
    }
#endif
    else if (o == "destroy") {
      g_lt[a].reset();
      g_tab[a].reset();
      r = " -";
    } else if (o == "copyto") {
      int b = atoi(tk[2].c_str());
      if (g_tab[b]) return UNM;
      g_tab[b].reset(new Table(t));
      r = " -";
    } else if (o == "moveto") {
      int b = atoi(tk[2].c_str());
      if (g_tab[b]) return UNM;
      g_tab[b].reset(new Table(std::move(t)));
      r = " -";
    } else if (o == "assignto") {
      int b = atoi(tk[2].c_str());
      if (!g_tab[b] || a == b) return UNM;
      *g_tab[b] = t;
      r = " -";
    } else if (o == "massignto") {
      int b = atoi(tk[2].c_str());
      if (!g_tab[b] || a == b) return UNM;
      *g_tab[b] = std::move(t);
      r = " -";
    } else if (o == "swap") {
      int b = atoi(tk[2].c_str());
      if (!g_tab[b]) return UNM;
      if (a != b) t.swap(*g_tab[b]);
      r = " -";
    } else if (o == "copyallocto") {
      int b = atoi(tk[2].c_str());
      if (g_tab[b]) return UNM;
      int aid = t.get_allocator().id;
      g_tab[b].reset(new Table(t, Table::allocator_type(tk[3] == "1" ? aid : aid + 1)));
      r = " -";
    } else if (o == "moveallocto") {
      int b = atoi(tk[2].c_str());
      if (g_tab[b]) return UNM;
      int aid = t.get_allocator().id;
      g_tab[b].reset(new Table(std::move(t), Table::allocator_type(tk[3] == "1" ? aid : aid + 1)));
      r = " -";
    } else {
      return UNM;
    }
  } catch (libcuckoo::load_factor_too_low &) {
    r = " exc:load_factor_too_low" + g_consumed;
  } catch (libcuckoo::maximum_hashpower_exceeded &) {
    r = " exc:maximum_hashpower_exceeded" + g_consumed;
  } catch (std::invalid_argument &) {
    r = " exc:invalid_argument" + g_consumed;
  } catch (std::out_of_range &) {
    r = " exc:out_of_range" + g_consumed;
  } catch (std::bad_alloc &) {
    r = " exc:bad_alloc" + g_consumed;
  } catch (...) {
    r = " exc:user" + g_consumed;
  }
  return r;
}

// -------- leaf mode: differential test of the generated arithmetic vs the compiled functions
static int leaf_mode() {
  // reads lines "<fn> args..." from stdin, prints the compiled function's value
  std::string line;
  while (std::getline(std::cin, line)) {
    auto tk = split(line);
    if (tk.empty()) continue;
    uint64_t v = 0;
    if (tk[0] == "partial_key") v = IA::partial_key<Table>(U(tk[1]));
    else if (tk[0] == "index_hash") v = IA::index_hash<Table>(U(tk[1]), U(tk[2]));
    else if (tk[0] == "alt_index") v = IA::alt_index<Table>(U(tk[1]), U(tk[2]), U(tk[3]));
    else if (tk[0] == "lock_ind") v = IA::lock_ind<Table>(U(tk[1]));
    else if (tk[0] == "hashsize") v = IA::hashsize<Table>(U(tk[1]));
    else if (tk[0] == "hashmask") v = IA::hashmask<Table>(U(tk[1]));
    else if (tk[0] == "reserve_calc") v = IA::reserve_calc<Table>(U(tk[1]));
    else { fprintf(stderr, "bad leaf fn\n"); return 2; }
    printf("%" PRIu64 "\n", v);
  }
  return 0;
}


// ---------------------------------------------------------------- fault enumeration (--faults)
static std::string contents_string(int i) {
  if (!g_tab[i]) return "absent";
  Table &t = *g_tab[i];
  std::vector<std::pair<uint64_t, int64_t>> v;
  auto &cur = IA::buckets(t);
  auto &old = IA::old_buckets(t);
  if (IA::all_locks(t).empty()) return "moved-from";
  auto &locks = IA::all_locks(t).back();
  auto val_of = [](decltype(cur[0]) &b, size_t sl) -> int64_t {
#if H_KIND == 0
    return b.mapped(sl);
#else
    return b.mapped(sl).v;
#endif
  };
  if (!cur.is_deallocated())
    for (size_t b = 0; b < cur.size(); ++b)
      for (size_t sl = 0; sl < H_SPB; ++sl)
        if (cur[b].occupied(sl)) v.push_back({cur[b].key(sl).id, val_of(cur[b], sl)});
  if (!old.is_deallocated())
    for (size_t b = 0; b < old.size(); ++b)
      if (!locks[b & (kHarnessMaxLocks - 1)].is_migrated())
        for (size_t sl = 0; sl < H_SPB; ++sl)
          if (old[b].occupied(sl)) v.push_back({old[b].key(sl).id, val_of(old[b], sl)});
  std::sort(v.begin(), v.end());
  std::string s;
  for (auto &p : v) s += std::to_string(p.first) + "=" + std::to_string(p.second) + " ";
  s += "| size=" + std::to_string(t.size());
  return s;
}

static bool all_locks_free(int i) {
  Table &t = *g_tab[i];
  bool ok = true;
  for (auto &la : IA::all_locks(t))
    for (auto &lk : la) { if (!lk.try_lock()) ok = false; else lk.unlock(); }
  return ok;
}

static void fault_child(int a, const std::vector<std::string> &tk, int kind, long k, int wfd) {
  std::string before[NT];
  for (int i = 0; i < NT; ++i) before[i] = contents_string(i);
  bool was_active[NT];
  for (int i = 0; i < NT; ++i) was_active[i] = g_tab[i] && g_lt[i] && g_lt[i]->is_active();
  size_t hp_before = g_tab[a] ? g_tab[a]->hashpower() : 0;
  std::vector<std::string> tk2 = tk;
  std::string expect_after; // for functor faults: the expected contents of table a
  if (kind == 5) {
    // replace the functor by one that adds 1 and throws
    size_t fpos = (tk[1] == "updatefn" || tk[1] == "erasefn") ? 3 : 3;
    tk2[fpos] = "throw:1";
  }
  g_fault_kind = kind; g_fault_at = k; g_fault_count = 0; g_fault_fired = false;
  g_copy_args = (kind == 4);
  std::string res = exec_op(a, tk2);
  g_fault_kind = 0; g_copy_args = false;
  bool fired = g_fault_fired;
  std::string verdict = "ok", detail;
  if (!g_errors.empty()) { verdict = "harness-error"; detail = g_errors[0]; }
  if (verdict == "ok" && !g_protocol_error.empty()) { verdict = "protocol-rule-broken"; detail = g_protocol_error; }
  size_t after_hash = 0;
  {
    std::string all;
    for (int i = 0; i < NT; ++i) all += contents_string(i) + ";";
    after_hash = std::hash<std::string>()(all + res);
  }
  bool recovered = false;
  if (fired && verdict == "ok") {
    const char *want = (kind == 1) ? "exc:bad_alloc" : "exc:user";
    if (res.find(want) == std::string::npos) {
      // no exception reached the caller: acceptable only if the library recovered completely, i.e. the
      // outcome is the outcome of the unfaulted run (decided by the parent against the control child)
      recovered = true; verdict = "recovered?"; detail = res;
    }
    for (int i = 0; i < NT && verdict == "ok"; ++i) {
      std::string after = contents_string(i);
      if (kind != 5) {
        if (tk[1] == "new" || tk[1] == "copyto" || tk[1] == "copyallocto") { if (i != a && before[i] == "absent") continue; }
        if (after != before[i]) { verdict = "contents-changed"; detail = "T" + std::to_string(i) + ": " + before[i] + " -> " + after; }
      } else if (i != a && after != before[i]) { verdict = "contents-changed"; detail = "other table changed"; }
    }
    if (verdict == "ok" && g_tab[a] && (tk[1] == "rehash" || tk[1] == "reserve" || tk[1] == "l.rehash" || tk[1] == "l.reserve") &&
        g_tab[a]->hashpower() != hp_before) {
      verdict = "failed-resize-changed-hashpower"; detail = std::to_string(hp_before) + " -> " + std::to_string(g_tab[a]->hashpower());
    }
    if (kind == 5 && verdict == "ok") {
      // everything done before the functor was invoked and the functor's own partial effect (+1) remain
      std::string after = contents_string(a);
      uint64_t key = U(tk[2]);
      // parse before-contents of table a
      std::vector<std::pair<uint64_t, int64_t>> m;
      { std::stringstream ss(before[a]); std::string tok;
        while (ss >> tok && tok != "|") { auto p = tok.find('='); m.push_back({U(tok.substr(0, p)), I(tok.substr(p + 1))}); } }
      bool present = false;
      for (auto &kv : m) if (kv.first == key) { kv.second += 1; present = true; }
      if (!present) m.push_back({key, I(tk[5]) + 1});
      std::sort(m.begin(), m.end());
      std::string exp;
      for (auto &kv : m) exp += std::to_string(kv.first) + "=" + std::to_string(kv.second) + " ";
      if (after.substr(0, after.find('|')) != exp) { verdict = "functor-fault-wrong-state"; detail = "expected " + exp + "got " + after; }
      else {
        // ... and the bookkeeping agrees with it: size() counts exactly the pairs now stored
        size_t q = after.find("size=");
        if (q != std::string::npos && strtoull(after.c_str() + q + 5, nullptr, 10) != m.size()) {
          verdict = "functor-fault-wrong-state"; detail = "size= after the functor threw: expected " + std::to_string(m.size()) + " got " + after;
        }
      }
    }
    for (int i = 0; i < NT && verdict == "ok"; ++i)
      if (g_tab[i] && !was_active[i] && !all_locks_free(i)) { verdict = "lock-held-after-exception"; detail = "T" + std::to_string(i); }
  }
  if (recovered) verdict = "ok";
  // follow-up workload, destruction, allocation / object balance
  if (verdict == "ok") {
    try {
      for (int i = 0; i < NT; ++i) {
        if (!g_tab[i] || IA::all_locks(*g_tab[i]).empty()) continue;
        if (g_lt[i] && g_lt[i]->is_active()) g_lt[i]->unlock();
        for (uint64_t kk = 1; kk < 48; ++kk) { Val v = mkval(0); g_tab[i]->find(mkkey(kk), v); }
        g_tab[i]->maximum_hashpower(libcuckoo::NO_MAXIMUM_HASHPOWER);
        g_tab[i]->minimum_load_factor(0.0);
        if (!g_tab[i]->insert(mkkey(777777), mkval(7))) verdict = "follow-up-insert-failed";
        if (!g_tab[i]->erase(mkkey(777777))) verdict = "follow-up-erase-failed";
      }
    } catch (...) { verdict = "follow-up-threw"; }
  }
  long live_blocks = -1, live_objs = -1;
  if (verdict == "ok") {
    for (int i = 0; i < NT; ++i) { g_lt[i].reset(); g_tab[i].reset(); }
    live_blocks = g_alloc.live_blocks.load();
#if H_KIND == 1
    live_objs = (long)g_reg.st.size();
#else
    live_objs = 0;
#endif
    if (!g_errors.empty()) { verdict = "harness-error"; detail = g_errors[0]; }
  }
  char buf[260];
  snprintf(buf, sizeof buf, "FAULT kind=%d k=%ld fired=%d blocks=%ld objs=%ld after=%zu verdict=%s res=", kind, k, fired ? 1 : 0, live_blocks, live_objs,
           after_hash, verdict.c_str());
  if (recovered && verdict == "ok") verdict = "recovered";
  snprintf(buf, sizeof buf, "FAULT kind=%d k=%ld fired=%d blocks=%ld objs=%ld after=%zu verdict=%s res=", kind, k, fired ? 1 : 0, live_blocks, live_objs,
           after_hash, verdict.c_str());
  std::string line = std::string(buf) + res.substr(0, 60) + (detail.empty() ? "" : " detail=" + detail.substr(0, 240)) + "\n";
  if (write(wfd, line.data(), line.size()) < 0) {}
  _exit(0);
}

static std::string run_child(int a, const std::vector<std::string> &tk, int kind, long k) {
  int pfd[2];
  if (pipe(pfd) != 0) return "";
  fflush(stdout);
  pid_t pid = fork();
  if (pid == 0) { close(pfd[0]); fault_child(a, tk, kind, k, pfd[1]); }
  close(pfd[1]);
  std::string got; char buf[512]; ssize_t n;
  while ((n = read(pfd[0], buf, sizeof buf)) > 0) got.append(buf, (size_t)n);
  close(pfd[0]);
  int st = 0; waitpid(pid, &st, 0);
  if (got.empty()) {
    char b2[160];
    snprintf(b2, sizeof b2, "FAULT kind=%d k=%ld fired=1 blocks=-1 objs=-1 verdict=child-died-status-%d res=\n", kind, k, st);
    got = b2;
  }
  return got;
}

static void enumerate_faults(int lineno, const std::string &ln, int a, const std::vector<std::string> &tk) {
  std::string ctl = run_child(a, tk, 0, 0);
  long cb = -2, co = -2;
  { size_t p = ctl.find("blocks="); if (p != std::string::npos) cb = atol(ctl.c_str() + p + 7);
    p = ctl.find("objs="); if (p != std::string::npos) co = atol(ctl.c_str() + p + 5); }
  size_t cafter = 0;
  { size_t p = ctl.find("after="); if (p != std::string::npos) cafter = strtoull(ctl.c_str() + p + 6, nullptr, 10); }
  auto report = [&](std::string got) {
    {
      size_t q = got.find("verdict=recovered");
      if (q != std::string::npos) {
        size_t p = got.find("after=");
        size_t a = p != std::string::npos ? strtoull(got.c_str() + p + 6, nullptr, 10) : 0;
        got.replace(q, 17, a == cafter ? "verdict=ok" : "verdict=exception-did-not-reach-caller");
      }
    }
    if (got.find("verdict=ok") != std::string::npos && got.find("fired=1") != std::string::npos) {
      long b = -1, o = -1;
      size_t p = got.find("blocks="); if (p != std::string::npos) b = atol(got.c_str() + p + 7);
      p = got.find("objs="); if (p != std::string::npos) o = atol(got.c_str() + p + 5);
      if (b != cb || o != co) {
        size_t q = got.find("verdict=ok");
        got.replace(q, 10, "verdict=leak:blocks" + std::to_string(b - cb) + ",objects" + std::to_string(o - co));
      }
    }
    printf("#%d %s :: %s", lineno, ln.c_str(), got.c_str());
  };
  // kind 1: every allocation position the operation reaches
  for (long k = 1; k < 300; ++k) {
    std::string got = run_child(a, tk, 1, k);
    report(got);
    if (got.find("fired=0") != std::string::npos) break;
  }
  const std::string &o = tk[1];
  bool has_key = tk.size() > 2 && (o == "find" || o == "findthrow" || o == "contains" || o == "findfn" || o == "update" || o == "updatefn" ||
                                   o == "insert" || o == "ioa" || o == "upsert" || o == "uprase" || o == "erase" || o == "erasefn" ||
                                   o == "l.insert" || o == "l.erase" || o == "l.find" || o == "l.at" || o == "l.count" || o == "l.idx");
  // kinds 2/3 model a hash / equality functor that throws as a deterministic predicate of its arguments (the
  // poison key): such a functor could never have stored that key, so these faults are only injected while no
  // table holds it (bucket arrays scanned directly: no lock, no migration side effect)
  bool poison_stored = false;
  for (int i = 0; i < NT && !poison_stored; ++i) {
    if (!g_tab[i] || IA::all_locks(*g_tab[i]).empty()) continue;
    for (int w = 0; w < 2 && !poison_stored; ++w) {
      auto &bc = w ? IA::old_buckets(*g_tab[i]) : IA::buckets(*g_tab[i]);
      if (w && IA::nrem(*g_tab[i]) == 0) continue;
      for (size_t b = 0; b < bc.size() && !poison_stored; ++b)
        for (size_t sl = 0; sl < H_SPB; ++sl)
          if (bc[b].occupied(sl) && bc[b].key(sl).id == kPoison) { poison_stored = true; break; }
    }
  }
  if (has_key && U(tk[2]) == kPoison && !poison_stored) {
    report(run_child(a, tk, 2, 0));
    report(run_child(a, tk, 3, 0));
  }
#if H_KIND == 1
  if (o == "insert")
    for (long k = 1; k < 8; ++k) {
      std::string got = run_child(a, tk, 4, k);
      report(got);
      if (got.find("fired=0") != std::string::npos) break;
    }
#endif
  if (o == "updatefn" || o == "upsert" || o == "uprase")
    report(run_child(a, tk, 5, 0));
}

int main(int argc, char **argv) {
  if (argc > 1 && std::string(argv[1]) == "--leaf") return leaf_mode();
  if (argc > 1 && std::string(argv[1]) == "--config") {
    printf("%d %d %d %d %d\n", H_SPB, (int)__builtin_ctzll(kHarnessMaxLocks), kSimple ? 1 : 0, kNothrow ? 1 : 0,
           kDestructive ? 1 : 0);
    return 0;
  }
  bool faults = false;
  if (argc > 2 && std::string(argv[1]) == "--faults") { faults = true; argv[1] = argv[2]; }
  std::istream *in = &std::cin;
  std::ifstream f;
  if (argc > 1) {
    f.open(argv[1]);
    if (!f) { fprintf(stderr, "cannot open %s\n", argv[1]); return 2; }
    in = &f;
  }
  std::string line, out;
  int lineno = 0;
  while (std::getline(*in, line)) {
    ++lineno;
    auto tk = split(line);
    if (tk.empty() || tk[0][0] == '#') continue;
    if (tk[0] == "cfg") {
      if (U(tk[1]) != H_SPB || (1ULL << U(tk[2])) != kHarnessMaxLocks || (tk[3] == "1") != kSimple ||
          (tk[4] == "1") != kNothrow || (tk[5] == "1") != kDestructive) {
        fprintf(stderr, "script config does not match this binary\n");
        return 2;
      }
      continue;
    }
    if (tk[0] == "key") {
      g_hash[U(tk[1])] = U(tk[2]);
      continue;
    }
    if (tk[0] == "lvalues") { g_lvalue_args = (tk[1] == "1"); continue; }
    int a = atoi(tk[0].c_str());
    if (faults) enumerate_faults(lineno, line, a, tk);
    std::string r = exec_op(a, tk);
    // (instrumented build: lookups, updates and erasures go through HKey, a type that hashes and compares
    //  like Key but is NOT convertible to it - constructing a key_type from it would not compile)
    out += "#" + std::to_string(lineno);
    for (auto &s : tk) out += " " + s;
    out += "\nR" + r + "\n";
    for (int i = 0; i < NT; ++i)
      if (g_tab[i]) dump_table(out, i);
    for (auto &e : g_errors) out += "HARNESS-ERROR " + e + "\n";
    g_errors.clear();
    if (!g_protocol_error.empty()) { out += "HARNESS-ERROR " + g_protocol_error + "\n"; g_protocol_error.clear(); g_unpublished.clear(); }
    if (!faults) fwrite(out.data(), 1, out.size(), stdout);
    out.clear();
  }
  if (faults) { for (int i = 0; i < NT; ++i) { g_lt[i].reset(); g_tab[i].reset(); } return 0; }
  // teardown: everything destroyed, then leak accounting
  for (int i = 0; i < NT; ++i) {
    g_lt[i].reset();
    g_tab[i].reset();
  }
  out += "END live_blocks=" + std::to_string(g_alloc.live_blocks.load()) + " live_bytes=" + std::to_string(g_alloc.live_bytes.load());
#if H_KIND == 1
  out += " live_objects=" + std::to_string((long)g_reg.st.size());
#else
  out += " live_objects=0";
#endif
  out += "\n";
  for (auto &e : g_errors) out += "HARNESS-ERROR " + e + "\n";
  fwrite(out.data(), 1, out.size(), stdout);
  return 0;
}
