// T2 concurrent schedule harness: real std::threads on the real table, exactly one runnable at a
// time; the baton is passed at the guarded hooks (every synchronisation event).  The schedule is
// part of the script, so every execution replays exactly.
//
// Script:
//   cfg <spb> <lbits> 1 1 0          (trivial key/value types)
//   key <id> <hash>
//   pre <op...>                      sequential set-up operations (not scheduled, not traced)
//   thread <tid> <op> ; <op> ; ...   the program of thread <tid> (0-based, consecutive)
//   sched <tid> <tid> ...            choice at successive scheduling points (then round-robin);
//                                    -(t+1) = thread t runs until it finishes or blocks;
//                                    -(100+t) = thread t runs until its next event is ALL_FIRST (about to take all locks)
//   seed <n>                         or: seeded random scheduling
// Thread ops: find k | contains k | insert k v | ioa k v | update k v | upsert k fn two v |
//   uprase k fn two v | erase k | updatefn k fn | erasefn k fn | rehash n | reserve n | clear |
//   lock | unlock | l.insert k v | l.erase k | l.find k | l.rehash n | l.reserve n | l.clear | l.sin | l.sinbad
// Output: EV <tid> <label> lines (the global event trace), H <tid> inv/ret lines (the history),
//   DEADLOCK if no thread can run, the final dump, LOCKS free=<0|1>.
#include <atomic>
#include <unistd.h>
#include <csignal>
#include <algorithm>
#include <cinttypes>
#include <condition_variable>
#include <cstdint>
#include <cstdio>
#include <cstdlib>
#include <cstring>
#include <fstream>
#include <iostream>
#include <map>
#include <memory>
#include <mutex>
#include <random>
#include <sstream>
#include <string>
#include <thread>
#include <unordered_map>
#include <vector>

#include <libcuckoo/cuckoohash_map.hh>

#ifndef H_SPB
#define H_SPB 2
#endif
#ifdef LIBCUCKOO_VERIF_MAX_NUM_LOCKS
static const uint64_t kHarnessMaxLocks = LIBCUCKOO_VERIF_MAX_NUM_LOCKS;
#else
static const uint64_t kHarnessMaxLocks = 1UL << 16;
#endif

static std::unordered_map<uint64_t, uint64_t> g_hash;
struct Key { uint64_t id; };
struct KeyHash { size_t operator()(const Key &k) const { auto it = g_hash.find(k.id); return it == g_hash.end() ? k.id : it->second; } };
struct KeyEq { bool operator()(const Key &a, const Key &b) const { return a.id == b.id; } };
#ifdef H_VALHOOK
// instrumented mapped type: every read / write of a stored value (copy out of the table, assignment into it, the
// functor's accesses, relocation) is reported at the moment it happens, and a read of a stored value is a
// scheduling point - so a value used after the locks were released is both seen and schedulable
static void val_access(const void *p, int w);
struct Val {
  int64_t x;
  Val() : x(0) {}
  Val(int64_t v) : x(v) {}
  Val(const Val &o) { val_access(&o, 0); x = o.x; }
  Val(Val &&o) noexcept { val_access(&o, 0); x = o.x; }
  Val &operator=(const Val &o) { val_access(&o, 0); val_access(this, 1); x = o.x; return *this; }
  Val &operator=(int64_t v) { val_access(this, 1); x = v; return *this; }
  operator int64_t() const { val_access(this, 0); return x; }
};
#else
using Val = int64_t;
#endif
using Table = libcuckoo::cuckoohash_map<Key, Val, KeyHash, KeyEq, std::allocator<std::pair<const Key, Val>>, H_SPB>;
using LT = Table::locked_table;

namespace libcuckoo {
class UnitTestInternalAccess {
public:
  template <class M> static auto &buckets(M &m) { return m.buckets_; }
  template <class M> static auto &old_buckets(M &m) { return m.old_buckets_; }
  template <class M> static auto &all_locks(M &m) { return m.all_locks_; }
  template <class M> static size_t nrem(M &m) { return m.num_remaining_lazy_rehash_locks_.load(); }
  template <class M> static size_t rc(M &m) { return m.resize_counter_.load(); }
};
} // namespace libcuckoo
using IA = libcuckoo::UnitTestInternalAccess;

static Table *g_tab = nullptr;

// ---------------------------------------------------------------- scheduler
struct ThreadCtl {
  std::vector<std::vector<std::string>> ops;
  bool finished = false;
  const void *waiting = nullptr; // lock it is parked on
  int all_idx = -1;              // array index while inside lock_all
  std::unique_ptr<LT> lt;
};
static std::vector<ThreadCtl> g_thr;
static std::mutex g_mu;
static std::condition_variable g_cv;
static int g_turn = -1;          // tid allowed to run; -1 = main
static bool g_active = false;
static thread_local int tls_tid = -1;
static thread_local bool tls_in_hook = false;
static std::unordered_map<const void *, int> g_lock_owner;
static std::vector<int> g_sched;
static int g_cur_kind = 0;       // hook kind at which the running thread is yielding
static size_t g_sched_pos = 0;
static bool g_random = false;
static std::mt19937_64 g_rng;
static std::string g_out;
static bool g_deadlock = false;
static long g_events = 0;
static const long kMaxEvents = 200000;

static bool find_lock(const void *p, int &a, int &l) {
  int ai = 0;
  for (auto &la : IA::all_locks(*g_tab)) {
    if (!la.empty()) {
      const char *b = reinterpret_cast<const char *>(la.data());
      const char *e = b + la.size() * sizeof(la[0]);
      const char *q = reinterpret_cast<const char *>(p);
      if (q >= b && q < e) { a = ai; l = (int)((q - b) / sizeof(la[0])); return true; }
    }
    ++ai;
  }
  return false;
}

// a lock address just past the end of a published lock array: an out-of-range stripe index
static bool near_miss(const void *p, int &a, long &idx) {
  int ai = 0;
  for (auto &la : IA::all_locks(*g_tab)) {
    if (!la.empty()) {
      const char *b = reinterpret_cast<const char *>(la.data());
      const char *e = b + la.size() * sizeof(la[0]);
      const char *q = reinterpret_cast<const char *>(p);
      if (q >= e && q < e + (long)kHarnessMaxLocks * (long)sizeof(la[0])) { a = ai; idx = (q - b) / (long)sizeof(la[0]); return true; }
    }
    ++ai;
  }
  return false;
}

static bool runnable(int t) {
  if (g_thr[t].finished) return false;
  if (g_thr[t].waiting) {
    auto it = g_lock_owner.find(g_thr[t].waiting);
    if (it != g_lock_owner.end() && it->second >= 0) return false;
  }
  return true;
}

// called with g_mu held by the running thread `me` (or -1 for main at start): choose who runs next
static int choose_next(int me) {
  int n = (int)g_thr.size();
  std::vector<int> cand;
  for (int t = 0; t < n; ++t) if (runnable(t)) cand.push_back(t);
  if (cand.empty()) return -2;
  if (g_random) {
    // mostly keep running the current thread, sometimes switch
    bool me_ok = false;
    for (int t : cand) if (t == me) me_ok = true;
    if (me_ok && (g_rng() % 100) < 70) return me;
    return cand[g_rng() % cand.size()];
  }
  // a negative entry -(t+1) means: thread t runs until it has finished (or blocks); the entry is consumed then.
  // -(100+t): thread t runs until it is about to start taking all locks (its next event is ALL_FIRST)
  while (g_sched_pos < g_sched.size() && g_sched[g_sched_pos] <= -100) {
    int t = -g_sched[g_sched_pos] - 100;
    if (t < n && me == t && g_cur_kind == LIBCUCKOO_VH_ALL_FIRST) { ++g_sched_pos; continue; }
    if (t < n && runnable(t)) return t;
    ++g_sched_pos;
  }
  while (g_sched_pos < g_sched.size() && g_sched[g_sched_pos] < 0 && g_sched[g_sched_pos] > -100) {
    int t = -g_sched[g_sched_pos] - 1;
    if (t < n && runnable(t)) return t;
    ++g_sched_pos;
  }
  if (g_sched_pos < g_sched.size()) {
    int want = g_sched[g_sched_pos++];
    for (int t : cand) if (t == want) return t;
    // not runnable: next runnable after it, round-robin
    for (int d = 1; d <= n; ++d) { int t = (want + d) % n; if (t >= 0 && runnable(t)) return t; }
  }
  // schedule exhausted: stay with the current thread while it can run, else lowest runnable
  for (int t : cand) if (t == me) return me;
  return cand[0];
}

static void yield_point(std::unique_lock<std::mutex> &lk, int me) {
  int nx = choose_next(me);
  if (nx == -2) {
    // nobody can run: deadlock (or everything finished)
    bool all_done = true;
    for (auto &t : g_thr) if (!t.finished) all_done = false;
    if (!all_done) { g_deadlock = true; g_out += "DEADLOCK\n"; fwrite(g_out.data(), 1, g_out.size(), stdout); fflush(stdout); _exit(3); }
    g_turn = -1;
    g_cv.notify_all();
    return;
  }
  g_out += "Y " + std::to_string(nx) + "\n";   // the scheduling decision taken at this point (for directed replays)
  g_turn = nx;
  g_cv.notify_all();
  if (nx != me && me >= 0 && !g_thr[me].finished) g_cv.wait(lk, [&] { return g_turn == me; });
}

static void emit(int tid, const std::string &s) { g_out += "EV " + std::to_string(tid) + " " + s + "\n"; }

#ifdef H_VALHOOK
static void val_access(const void *p, int w) {
  if (!g_active || tls_tid < 0 || tls_in_hook || !g_tab) return;
  int which = -1; size_t bidx = 0;
  {
    tls_in_hook = true;   // the look-up below goes through hooked accessors
    for (int wh = 0; wh < 2 && which < 0; ++wh) {
      auto &bc = wh ? IA::old_buckets(*g_tab) : IA::buckets(*g_tab);
      if (bc.is_deallocated()) continue;
      size_t n = bc.size();
      const char *base = reinterpret_cast<const char *>(&bc[0]);
      const char *q = reinterpret_cast<const char *>(p);
      size_t bsz = sizeof(bc[0]);
      if (q >= base && q < base + n * bsz) { which = wh; bidx = (size_t)(q - base) / bsz; }
    }
    tls_in_hook = false;
  }
  if (which < 0) return;
  struct Guard { Guard() { tls_in_hook = true; } ~Guard() { tls_in_hook = false; } } guard;
  int me = tls_tid;
  std::unique_lock<std::mutex> lk(g_mu);
  if (!w) yield_point(lk, me);   // before the read: whoever is scheduled here may change what is read
  g_out += "AC " + std::to_string(me) + " " + std::to_string(which) + " " + std::to_string(bidx) + " " + std::to_string(w) + " v\n";
}
#endif

extern "C" void libcuckoo_verif_hook(int kind, const void *obj, unsigned long a, unsigned long b) {
  if (!g_active || tls_tid < 0 || tls_in_hook) return;
  struct Guard { Guard() { tls_in_hook = true; } ~Guard() { tls_in_hook = false; } } guard;
  int me = tls_tid;
  std::unique_lock<std::mutex> lk(g_mu);
  if (kind == LIBCUCKOO_VH_BUCKET) {
    // data access (not a scheduling point): bucket i of the current (0) or superseded (1) array; b = 1 for setKV/eraseKV
    int which = (obj == (const void *)&IA::buckets(*g_tab)) ? 0 : (obj == (const void *)&IA::old_buckets(*g_tab)) ? 1 : -1;
    if (which >= 0) g_out += "AC " + std::to_string(me) + " " + std::to_string(which) + " " + std::to_string(a) + " " + std::to_string(b) + "\n";
    return;
  }
  if (kind == LIBCUCKOO_VH_FS_NREM) {
    if (obj == (const void *)g_tab) {
      g_out += "AC " + std::to_string(me) + " DEC\n";
      if (IA::nrem(*g_tab) == 1) g_out += "AC " + std::to_string(me) + " FREEOLD\n"; // this decrement releases the superseded array
    }
    return;
  }
  if (++g_events > kMaxEvents) { g_out += "LIVELOCK\n"; fwrite(g_out.data(), 1, g_out.size(), stdout); fflush(stdout); _exit(4); }
  g_cur_kind = kind;
  bool is_main_tab = (obj == (const void *)g_tab);
  bool is_main_buckets = (obj == (const void *)&IA::buckets(*g_tab));
  int ai, li;
  switch (kind) {
  case LIBCUCKOO_VH_LOCKREQ:
    if (!find_lock(obj, ai, li)) {
      long idx;
      if (g_thr[me].all_idx < 0 && near_miss(obj, ai, idx))
        g_out += "OOB-LOCK thread " + std::to_string(me) + " indexes lock array " + std::to_string(ai) + " at " + std::to_string(idx) + " (past its end)\n";
      return;
    }
    emit(me, "LOCKREQ " + std::to_string(ai) + " " + std::to_string(li));
    g_thr[me].waiting = obj;
    yield_point(lk, me);
    g_thr[me].waiting = nullptr;
    return;
  case LIBCUCKOO_VH_LOCKED:
    g_lock_owner[obj] = me;
    if (!find_lock(obj, ai, li)) return;
    emit(me, "LOCKED " + std::to_string(ai) + " " + std::to_string(li));
    yield_point(lk, me);
    return;
  case LIBCUCKOO_VH_UNLOCK:
    {
      auto it = g_lock_owner.find(obj);
      if (it != g_lock_owner.end() && it->second >= 0 && it->second != me)
        g_out += "FOREIGN-UNLOCK thread " + std::to_string(me) + " releases a lock owned by thread " + std::to_string(it->second) + "\n";
      else if (it != g_lock_owner.end() && it->second < 0 && find_lock(obj, ai, li))
        g_out += "FOREIGN-UNLOCK thread " + std::to_string(me) + " releases lock (" + std::to_string(ai) + "," + std::to_string(li) + ") which it does not hold (already free)\n";
    }
    g_lock_owner[obj] = -1;
    if (!find_lock(obj, ai, li)) return;
    emit(me, "UNLOCK " + std::to_string(ai) + " " + std::to_string(li));
    return; // no switch here: the flag is cleared right after the hook (see DESIGN 4, T2)
  case LIBCUCKOO_VH_TRYLOCK:
    return;
  case LIBCUCKOO_VH_LD_HP:
    if (!is_main_buckets) return;
    yield_point(lk, me); // the switch happens BEFORE the load: the value recorded is the value read
    emit(me, "LD_HP " + std::to_string(IA::buckets(*g_tab).hashpower()));
    return;
  case LIBCUCKOO_VH_ST_HP:
    if (!is_main_buckets) return;
    yield_point(lk, me);
    emit(me, "ST_HP " + std::to_string(a));
    return;
  case LIBCUCKOO_VH_LD_RC:
    if (!is_main_tab) return;
    yield_point(lk, me);
    emit(me, "LD_RC " + std::to_string(IA::rc(*g_tab)));
    return;
  case LIBCUCKOO_VH_FA_RC:
    if (!is_main_tab) return;
    yield_point(lk, me);
    emit(me, "FA_RC");
    return;
  case LIBCUCKOO_VH_CURLOCKS:
    if (!is_main_tab) return;
    yield_point(lk, me);
    emit(me, "CURLOCKS " + std::to_string(IA::all_locks(*g_tab).size() - 1));
    return;
  case LIBCUCKOO_VH_ALL_FIRST:
    if (!is_main_tab) return;
    yield_point(lk, me);
    g_thr[me].all_idx = (int)IA::all_locks(*g_tab).size() - 1;
    emit(me, "ALL_FIRST " + std::to_string(g_thr[me].all_idx));
    return;
  case LIBCUCKOO_VH_ALL_NEXT: {
    if (!is_main_tab) return;
    yield_point(lk, me);
    bool more = g_thr[me].all_idx + 1 < (int)IA::all_locks(*g_tab).size();
    emit(me, std::string("ALL_NEXT ") + (more ? "1" : "0"));
    g_thr[me].all_idx++;
    return;
  }
  case LIBCUCKOO_VH_EMPLACE: {
    if (!is_main_tab) return;
    yield_point(lk, me);
    emit(me, "EMPLACE " + std::to_string(a));
    return;
  }
  case LIBCUCKOO_VH_ALL_UNLOCK_END:
    // between the last unlock of one lock array and the unlocker's look at the list for a next one
    if (!is_main_tab) return;
    yield_point(lk, me);
    return;
  default:
    return;
  }
}

// ---------------------------------------------------------------- ops
struct Fnk { int kind; int64_t a, b; };
static Fnk parse_fn(const std::string &s) {
  Fnk f{0, 0, 0};
  std::vector<std::string> parts; std::stringstream ss(s); std::string tok;
  while (std::getline(ss, tok, ':')) parts.push_back(tok);
  if (parts[0] == "noop") f.kind = 0;
  else if (parts[0] == "add") { f.kind = 1; f.a = atoll(parts[1].c_str()); }
  else if (parts[0] == "set") { f.kind = 2; f.a = atoll(parts[1].c_str()); }
  else if (parts[0] == "eraseifeq") { f.kind = 3; f.a = atoll(parts[1].c_str()); }
  else if (parts[0] == "adderaseeven") { f.kind = 4; f.a = atoll(parts[1].c_str()); }
  else if (parts[0] == "ctx") { f.kind = 5; f.a = atoll(parts[1].c_str()); f.b = atoll(parts[2].c_str()); }
  return f;
}
static bool fn_apply(const Fnk &f, Val &v, bool newly, std::string &log) {
  int64_t x = v;
  log += " fn(" + std::to_string(x) + "," + (newly ? "new" : "old") + ")";
  switch (f.kind) {
  case 0: return false;
  case 1: v = x + f.a; return false;
  case 2: v = f.a; return false;
  case 3: return x == f.a;
  case 4: v = x + f.a; return ((x + f.a) % 2) == 0;
  case 5: { int64_t y = newly ? x + f.a : x + f.b; v = y; return y == 0; }
  }
  return false;
}
static uint64_t U(const std::string &s) { return strtoull(s.c_str(), nullptr, 10); }
static int64_t I(const std::string &s) { return strtoll(s.c_str(), nullptr, 10); }
static Key K(const std::string &s) { Key k; k.id = U(s); return k; }

static std::string run_op(int tid, const std::vector<std::string> &tk) {
  Table &t = *g_tab;
  const std::string &o = tk[0];
  std::string r, log;
  auto B = [](bool b) { return std::string(b ? " true" : " false"); };
  std::unique_ptr<LT> &lt = g_thr[tid >= 0 ? tid : 0].lt;
  try {
    if (o == "find") { Val v = 0; bool f = t.find(K(tk[1]), v); r = B(f); if (f) r += " " + std::to_string((int64_t)v); }
    else if (o == "findthrow") {
      try { Val v = t.find(K(tk[1])); r = " true " + std::to_string((int64_t)v); } catch (std::out_of_range &) { r = " false"; }
    }
    else if (o == "contains") r = B(t.contains(K(tk[1])));
    else if (o == "insert") r = B(t.insert(K(tk[1]), I(tk[2])));
    else if (o == "ioa") r = B(t.insert_or_assign(K(tk[1]), I(tk[2])));
    else if (o == "update") r = B(t.update(K(tk[1]), I(tk[2])));
    else if (o == "erase") r = B(t.erase(K(tk[1])));
    else if (o == "updatefn") { Fnk f = parse_fn(tk[2]); bool res = t.update_fn(K(tk[1]), [&](Val &v) { fn_apply(f, v, false, log); }); r = B(res) + log; }
    else if (o == "erasefn") { Fnk f = parse_fn(tk[2]); bool res = t.erase_fn(K(tk[1]), [&](Val &v) { return fn_apply(f, v, false, log); }); r = B(res) + log; }
    else if (o == "upsert") {
      Fnk f = parse_fn(tk[2]);
      bool res = (tk[3] == "1")
        ? t.upsert(K(tk[1]), [&](Val &v, libcuckoo::UpsertContext c) { fn_apply(f, v, c == libcuckoo::UpsertContext::NEWLY_INSERTED, log); }, I(tk[4]))
        : t.upsert(K(tk[1]), [&](Val &v) { fn_apply(f, v, false, log); }, I(tk[4]));
      r = B(res) + log;
    } else if (o == "uprase") {
      Fnk f = parse_fn(tk[2]);
      bool res = (tk[3] == "1")
        ? t.uprase_fn(K(tk[1]), [&](Val &v, libcuckoo::UpsertContext c) { return fn_apply(f, v, c == libcuckoo::UpsertContext::NEWLY_INSERTED, log); }, I(tk[4]))
        : t.uprase_fn(K(tk[1]), [&](Val &v) { return fn_apply(f, v, false, log); }, I(tk[4]));
      r = B(res) + log;
    }
    else if (o == "rehash") r = B(t.rehash(U(tk[1])));
    else if (o == "reserve") r = B(t.reserve(U(tk[1])));
    else if (o == "clear") { t.clear(); r = " -"; }
    else if (o == "mlf") { t.minimum_load_factor((double)U(tk[1]) / (double)U(tk[2])); r = " -"; }
    else if (o == "mhp") { t.maximum_hashpower(tk[1] == "none" ? libcuckoo::NO_MAXIMUM_HASHPOWER : U(tk[1])); r = " -"; }
    else if (o == "lock") { lt.reset(new LT(t.lock_table())); r = " -"; }
    else if (o == "unlock") { if (lt) lt->unlock(); r = " -"; }
    else if (o == "l.insert") { auto res = lt->insert(K(tk[1]), I(tk[2])); r = B(res.second); }
    else if (o == "l.erase") r = " " + std::to_string(lt->erase(K(tk[1])));
    else if (o == "l.find") { auto it = lt->find(K(tk[1])); r = (it == lt->end()) ? " false" : (" true " + std::to_string((int64_t)it->second)); }
    else if (o == "l.rehash") { lt->rehash(U(tk[1])); r = " -"; }
    else if (o == "l.reserve") { lt->reserve(U(tk[1])); r = " -"; }
    else if (o == "l.clear") { lt->clear(); r = " -"; }
#ifndef H_VALHOOK
    else if (o == "l.sin") {
      // stream a freshly built table of the given hashpower (tk[1]) with keys tk[2..] into the locked table
      std::stringstream ss;
      bool built = true;
      try {
        Table src(0);
        src.maximum_hashpower(10);
        src.rehash(U(tk[1]));
        for (size_t i = 2; i + 1 < tk.size(); i += 2) src.insert(K(tk[i]), I(tk[i + 1]));
        auto slt = src.lock_table();
        ss << slt;
      } catch (...) { built = false; }
      if (!built) r = " exc:UNMODELLED";   // the image could not be built: nothing is extracted
      else { ss >> *lt; r = " -"; }
    }
    else if (o == "l.sinbad") {
      // as l.sin, but the image's stored minimum load factor is out of its domain (2.0): the extraction replaces the
      // bucket array and then fails in the setter (std::invalid_argument)
      std::stringstream ss;
      bool built = true;
      try {
        Table src(0);
        src.maximum_hashpower(10);
        src.rehash(U(tk[1]));
        for (size_t i = 2; i + 1 < tk.size(); i += 2) src.insert(K(tk[i]), I(tk[i + 1]));
        auto slt = src.lock_table();
        ss << slt;
      } catch (...) { built = false; }
      if (!built) r = " exc:UNMODELLED";
      else {
        std::string img = ss.str();
        double bad = 2.0;
        size_t off = img.size() - sizeof(size_t) - sizeof(double);   // layout: buckets, size, mlf (double), mhp (size_t)
        memcpy(&img[off], &bad, sizeof(double));
        std::stringstream s2(img);
        s2 >> *lt; r = " -";
      }
    }
#endif
    else r = " exc:UNMODELLED";
  } catch (libcuckoo::load_factor_too_low &) { r = " exc:load_factor_too_low";
  } catch (libcuckoo::maximum_hashpower_exceeded &) { r = " exc:maximum_hashpower_exceeded";
  } catch (std::invalid_argument &) { r = " exc:invalid_argument";
  } catch (std::out_of_range &) { r = " exc:out_of_range";
  } catch (std::bad_alloc &) { r = " exc:bad_alloc";
  } catch (...) { r = " exc:user"; }
  return r;
}

static std::string join(const std::vector<std::string> &v) { std::string s; for (auto &x : v) { if (!s.empty()) s += " "; s += x; } return s; }

static void thread_main(int tid) {
  tls_tid = tid;
  {
    std::unique_lock<std::mutex> lk(g_mu);
    g_cv.wait(lk, [&] { return g_turn == tid; });
  }
  for (auto &op : g_thr[tid].ops) {
    {
      std::unique_lock<std::mutex> lk(g_mu);
      g_out += "H " + std::to_string(tid) + " inv " + join(op) + "\n";
      yield_point(lk, tid);
    }
    std::string r = run_op(tid, op);
    {
      std::unique_lock<std::mutex> lk(g_mu);
      g_out += "H " + std::to_string(tid) + " ret" + r + "\n";
      // an operation that legitimately keeps ownership (an active locked_table) returns with RETL
      bool keeps = g_thr[tid].lt && g_thr[tid].lt->is_active();
      emit(tid, keeps ? "RETL" : "RET");
      if (!keeps) g_thr[tid].all_idx = -1;
    }
  }
  {
    std::unique_lock<std::mutex> lk(g_mu);
    g_thr[tid].lt.reset(); // a locked_table left active is released by its destructor
    g_thr[tid].finished = true;
    yield_point(lk, tid);
  }
}

static std::vector<std::string> split(const std::string &line) {
  std::vector<std::string> r; std::stringstream ss(line); std::string t;
  while (ss >> t) r.push_back(t);
  return r;
}

static void dump_final() {
  Table &t = *g_tab;
  auto &cur = IA::buckets(t);
  auto &old = IA::old_buckets(t);
  char buf[256];
  snprintf(buf, sizeof buf, "FINAL hp=%zu nrem=%zu rc=%zu size=%zu narr=%zu\n", cur.hashpower(), IA::nrem(t), IA::rc(t), t.size(), IA::all_locks(t).size());
  g_out += buf;
  // abstract contents: current array + un-migrated stripes of the old array
  std::map<uint64_t, std::vector<int64_t>> m;
  auto &locks = IA::all_locks(t).back();
  for (size_t b = 0; b < cur.size(); ++b)
    for (size_t s = 0; s < H_SPB; ++s)
      if (cur[b].occupied(s)) m[cur[b].key(s).id].push_back((int64_t)cur[b].mapped(s));
  if (!old.is_deallocated())
    for (size_t b = 0; b < old.size(); ++b)
      if (!locks[b & (kHarnessMaxLocks - 1)].is_migrated())
        for (size_t s = 0; s < H_SPB; ++s)
          if (old[b].occupied(s)) m[old[b].key(s).id].push_back((int64_t)old[b].mapped(s));
  g_out += "CONTENTS";
  for (auto &kv : m)
    for (auto v : kv.second) g_out += " " + std::to_string(kv.first) + "=" + std::to_string(v);
  g_out += "\n";
  if (m.size() != t.size()) g_out += "SIZE-MISMATCH size()=" + std::to_string(t.size()) + " elements=" + std::to_string(m.size()) + "\n";
  bool all_free = true;
  for (auto &la : IA::all_locks(t))
    for (auto &lk : la) {
      if (!lk.try_lock()) all_free = false; else lk.unlock();
    }
  g_out += std::string("LOCKS free=") + (all_free ? "1" : "0") + "\n";
}

static void on_alarm(int) {
  // a thread is spinning or blocked outside the scheduler: report what happened so far
  g_out += "HANG\n";
  if (write(1, g_out.data(), g_out.size()) < 0) {}
  _exit(5);
}

int main(int argc, char **argv) {
  if (argc < 2) { fprintf(stderr, "usage: conc <script>\n"); return 2; }
  signal(SIGALRM, on_alarm);
  alarm(20);
  std::ifstream f(argv[1]);
  std::string line;
  size_t init_n = 4;
  std::vector<std::vector<std::string>> pre;
  while (std::getline(f, line)) {
    auto tk = split(line);
    if (tk.empty() || tk[0][0] == '#') continue;
    if (tk[0] == "cfg") {
      if (U(tk[1]) != H_SPB || (1ULL << U(tk[2])) != kHarnessMaxLocks) { fprintf(stderr, "config mismatch\n"); return 2; }
    } else if (tk[0] == "key") g_hash[U(tk[1])] = U(tk[2]);
    else if (tk[0] == "init") init_n = U(tk[1]);
    else if (tk[0] == "pre") pre.push_back(std::vector<std::string>(tk.begin() + 1, tk.end()));
    else if (tk[0] == "thread") {
      size_t tid = U(tk[1]);
      if (g_thr.size() <= tid) g_thr.resize(tid + 1);
      std::vector<std::string> cur;
      for (size_t i = 2; i < tk.size(); ++i) {
        if (tk[i] == ";") { if (!cur.empty()) g_thr[tid].ops.push_back(cur); cur.clear(); }
        else cur.push_back(tk[i]);
      }
      if (!cur.empty()) g_thr[tid].ops.push_back(cur);
    } else if (tk[0] == "sched") { for (size_t i = 1; i < tk.size(); ++i) g_sched.push_back(atoi(tk[i].c_str())); }
    else if (tk[0] == "seed") { g_random = true; g_rng.seed(U(tk[1])); }
  }
  g_tab = new Table(init_n);
  g_thr.resize(std::max<size_t>(g_thr.size(), 1));
  for (auto &op : pre) run_op(-1, op);
  {
    char buf[160];
    size_t nl = IA::all_locks(*g_tab).back().size();
    snprintf(buf, sizeof buf, "INIT hp=%zu rc=%zu narr=%zu lastsz=%zu\n", IA::buckets(*g_tab).hashpower(), IA::rc(*g_tab), IA::all_locks(*g_tab).size(), nl);
    g_out += buf;
    g_out += "ARRS";
    for (auto &la : IA::all_locks(*g_tab)) g_out += " " + std::to_string(la.size());
    g_out += "\n";
    {
      // contents after the set-up operations (some of them may have been refused)
      auto lt = g_tab->lock_table();
      g_out += "CONTENTS0";
      for (auto &kv : lt) g_out += " " + std::to_string(kv.first.id) + "=" + std::to_string((int64_t)kv.second);
      g_out += "\n";
    }
  }
  std::vector<std::thread> th;
  g_active = true;
  for (size_t i = 0; i < g_thr.size(); ++i) th.emplace_back(thread_main, (int)i);
  {
    std::unique_lock<std::mutex> lk(g_mu);
    yield_point(lk, -1);
    g_cv.wait(lk, [&] { return g_turn == -1; });
  }
  for (auto &t : th) t.join();
  g_active = false;
  dump_final();
  fwrite(g_out.data(), 1, g_out.size(), stdout);
  delete g_tab;
  return 0;
}
