(* Driver for the extracted model: reads a script (see DESIGN Appendix B), prints one result line
   and a complete state dump per operation, in exactly the format harness/seq.cc prints. *)
open Model

(* ---------- number conversion (N, Z, positive stay Coq datatypes) ---------- *)
let rec pos_of_int (i : int) : positive =
  if i = 1 then XH else if i land 1 = 0 then XO (pos_of_int (i lsr 1)) else XI (pos_of_int (i lsr 1))
let n_of_int (i : int) : n = if i = 0 then N0 else Npos (pos_of_int i)
let ten = n_of_int 10
let n_of_string (s : string) : n =
  let r = ref N0 in
  String.iter (fun ch ->
    if ch < '0' || ch > '9' then failwith ("bad number " ^ s);
    r := N.add (N.mul !r ten) (n_of_int (Char.code ch - 48))) s;
  !r
let rec int_of_pos = function XH -> 1 | XO p -> 2 * int_of_pos p | XI p -> 2 * int_of_pos p + 1
let int_of_n = function N0 -> 0 | Npos p -> int_of_pos p
let string_of_n (x : n) : string =
  if x = N0 then "0" else begin
    let b = Buffer.create 20 in
    let rec go x acc = if x = N0 then acc else
      let (q, r) = N.div_eucl x ten in go q (string_of_int (int_of_n r) :: acc) in
    List.iter (Buffer.add_string b) (go x []); Buffer.contents b end
let z_of_string (s : string) : z =
  if String.length s > 0 && s.[0] = '-' then Z.opp (Z.of_N (n_of_string (String.sub s 1 (String.length s - 1))))
  else Z.of_N (n_of_string s)
let string_of_z = function Z0 -> "0" | Zpos p -> string_of_n (Npos p) | Zneg p -> "-" ^ string_of_n (Npos p)
let rec nat_of_int i = if i <= 0 then O else S (nat_of_int (i - 1))
let rec int_of_nat = function O -> 0 | S n -> 1 + int_of_nat n

(* ---------- printing ---------- *)
let exn_name = function
  | ELoadFactorTooLow -> "load_factor_too_low" | EMaxHashpower -> "maximum_hashpower_exceeded"
  | EInvalidArgument -> "invalid_argument" | EOutOfRange -> "out_of_range" | EBadAlloc -> "bad_alloc"
  | EUser -> "user" | EOutOfFuel -> "OUT_OF_FUEL" | EUnmodelled -> "UNMODELLED"

let rv_str = function
  | RBool b -> if b then "true" else "false"
  | RNat x -> string_of_n x
  | RInt z -> string_of_z z
  | RNone -> "-"
  | RPos (b, s) -> "@" ^ string_of_n b ^ "." ^ string_of_n s
  | RExn e -> "exc:" ^ exn_name e
  | RFn (v, newly) -> "fn(" ^ string_of_z v ^ "," ^ (if newly then "new" else "old") ^ ")"
  | RKV (k, v) -> string_of_n k ^ "=" ^ string_of_z v

let no_max = n_of_string "18446744073709551615"

let mlf_str (nn : n) (d : n) : string =
  if d = N0 then "nan" else
  let g = N.gcd nn d in
  let g = if g = N0 then n_of_int 1 else g in
  let (a, _) = N.div_eucl nn g and (b, _) = N.div_eucl d g in
  string_of_n a ^ "/" ^ string_of_n b

let sorted_rows (m : 'a PositiveMap.t) : (int * 'a) list =
  List.sort (fun (a, _) (b, _) -> compare a b) (List.map (fun (p, x) -> (int_of_pos p - 1, x)) (PositiveMap.elements m))

let dump_array (buf : Buffer.t) (tag : string) (a : barray) =
  Buffer.add_string buf tag;
  List.iter (fun (b, row) ->
    List.iter (fun (s, e) ->
      Buffer.add_string buf (Printf.sprintf " %d.%d:%s=%s/%s%s" b s (string_of_n e.ekey) (string_of_z e.eval)
        (string_of_n e.epart) (if e.ehusk then "h" else ""))) (sorted_rows row)) (sorted_rows a.bsl);
  Buffer.add_char buf '\n'

let dump_table (cfg : config) (buf : Buffer.t) (i : int) (s : tslot) =
  let t = s.tb in
  Buffer.add_string buf (Printf.sprintf "T%d hp=%s dead=%d ohp=%s odead=%d nrem=%s rc=%s mlf=%s mhp=%s w=%s act=%d size=%s cap=%s\n" i
    (string_of_n t.cur.bhp) (if t.cur.bdead then 1 else 0)
    (string_of_n t.old.bhp) (if t.old.bdead then 1 else 0)
    (string_of_n t.nrem) (string_of_n t.rc) (mlf_str t.mlfn t.mlfd)
    (if t.mhp = no_max then "none" else string_of_n t.mhp) (string_of_n t.workers)
    (if s.active then 1 else 0) (string_of_n (tsize t)) (string_of_n (capacity cfg t)));
  List.iteri (fun j la ->
    Buffer.add_string buf (Printf.sprintf " L%d n=%d" j (List.length la));
    List.iteri (fun idx lk ->
      if not (lk.cnt = Z0 && lk.mig) then
        Buffer.add_string buf (Printf.sprintf " %d:%s:%d" idx (string_of_z lk.cnt) (if lk.mig then 1 else 0))) la;
    Buffer.add_char buf '\n') t.locks;
  if not t.cur.bdead then dump_array buf " C" t.cur;
  if not t.old.bdead then dump_array buf " O" t.old

let hex_of_bytes (bs : n list) : string =
  String.concat "" (List.map (fun b -> Printf.sprintf "%02x" (int_of_n b)) bs)

let dump_world (cfg : config) (buf : Buffer.t) (w : world) =
  List.iteri (fun i o -> match o with None -> () | Some s -> dump_table cfg buf i s) w.tabs

(* ---------- script parsing ---------- *)
let parse_fn (s : string) : fnk =
  match String.split_on_char ':' s with
  | ["noop"] -> FNoop
  | ["add"; d] -> FAdd (z_of_string d)
  | ["set"; d] -> FSet (z_of_string d)
  | ["eraseifeq"; d] -> FEraseIfEq (z_of_string d)
  | ["adderaseeven"; d] -> FAddEraseIfEven (z_of_string d)
  | ["ctx"; a; b] -> FCtx (z_of_string a, z_of_string b)
  | _ -> failwith ("bad functor " ^ s)

let nn = n_of_string
let zz = z_of_string
let ni s = nat_of_int (int_of_string s)
let bb s = (s = "1")

let parse_op (toks : string list) : op =
  match toks with
  | ["new"; x] -> ONew (nn x)
  | ["find"; k] -> OFind (nn k) | ["findthrow"; k] -> OFindThrow (nn k)
  | ["contains"; k] -> OContains (nn k) | ["findfn"; k] -> OFindFn (nn k)
  | ["update"; k; v] -> OUpdate (nn k, zz v) | ["updatefn"; k; f] -> OUpdateFn (nn k, parse_fn f)
  | ["insert"; k; v] -> OInsert (nn k, zz v) | ["ioa"; k; v] -> OIoa (nn k, zz v)
  | ["upsert"; k; f; two; v] -> OUpsert (nn k, parse_fn f, bb two, zz v)
  | ["uprase"; k; f; two; v] -> OUprase (nn k, parse_fn f, bb two, zz v)
  | ["erase"; k] -> OErase (nn k) | ["erasefn"; k; f] -> OEraseFn (nn k, parse_fn f)
  | ["rehash"; x] -> ORehash (nn x) | ["reserve"; x] -> OReserve (nn x) | ["clear"] -> OClear
  | ["mlf"; "nan"] -> OMlf MNaN
  | ["mlf"; a; d] ->
    if a.[0] = '-' then OMlf (MRat (true, nn (String.sub a 1 (String.length a - 1)), nn d))
    else OMlf (MRat (false, nn a, nn d))
  | ["mhp"; "none"] -> OMhp no_max
  | ["mhp"; x] -> OMhp (nn x) | ["workers"; x] -> OWorkers (nn x)
  | ["lock"] -> OLock | ["unlock"] -> OUnlock
  | ["l.insert"; k; v] -> LInsert (nn k, zz v) | ["l.erase"; k] -> LEraseKey (nn k)
  | ["l.eraseit"; r; d] -> LEraseIt (ni r, ni d)
  | ["l.find"; k; r] -> LFind (nn k, ni r) | ["l.at"; k] -> LAt (nn k) | ["l.idx"; k] -> LIdx (nn k)
  | ["l.count"; k] -> LCount (nn k) | ["l.range"; k] -> LRange (nn k)
  | ["l.rehash"; x] -> LRehash (nn x) | ["l.reserve"; x] -> LReserve (nn x) | ["l.clear"] -> LClear
  | ["it.begin"; r] -> ItBegin (ni r) | ["it.end"; r] -> ItEnd (ni r)
  | ["it.inc"; r] -> ItInc (ni r) | ["it.dec"; r] -> ItDec (ni r) | ["it.get"; r] -> ItGet (ni r)
  | ["it.set"; r; v] -> ItSet (ni r, zz v) | ["it.eq"; r1; r2] -> ItEq (ni r1, ni r2)
  | ["l.trav"] -> LTraverse | ["l.rtrav"] -> LRTraverse
  | ["sout"; s] -> StreamOut (ni s) | ["sin"; s] -> StreamIn (ni s)
  | ["copyto"; b] -> OCopyTo (ni b) | ["moveto"; b] -> OMoveTo (ni b)
  | ["assignto"; b] -> OAssignTo (ni b) | ["massignto"; b] -> OMoveAssignTo (ni b)
  | ["swap"; b] -> OSwap (ni b)
  | ["copyallocto"; b; e] -> OCopyAllocTo (ni b, bb e) | ["moveallocto"; b; e] -> OMoveAllocTo (ni b, bb e)
  | ["destroy"] -> ODestroy
  | _ -> failwith ("bad op: " ^ String.concat " " toks)

let parse_cop (toks : string list) : cop =
  match toks with
  | ["c.init"; x] -> CInit (nn x)
  | ["c.free"] -> CFree
  | ["c.write"; f] -> CWrite (ni f)
  | ["c.read"; f; "full"; d] -> CRead (ni f, None, ni d)
  | ["c.read"; f; nb; d] -> CRead (ni f, Some (nn nb), ni d)
  | _ -> CFwd (parse_op toks)

(* ---------- judge mode: the extracted acceptor (Spec.v) applied to the implementation's output ---------- *)
let exn_of_name = function
  | "load_factor_too_low" -> ELoadFactorTooLow | "maximum_hashpower_exceeded" -> EMaxHashpower
  | "invalid_argument" -> EInvalidArgument | "out_of_range" -> EOutOfRange | "bad_alloc" -> EBadAlloc
  | "user" -> EUser | "OUT_OF_FUEL" -> EOutOfFuel | _ -> EUnmodelled

let parse_atom (a : string) : rv =
  let n = String.length a in
  if a = "true" then RBool true else if a = "false" then RBool false
  else if a = "-" then RNone
  else if n > 4 && String.sub a 0 4 = "exc:" then RExn (exn_of_name (String.sub a 4 (n - 4)))
  else if a.[0] = '@' then begin
    match String.split_on_char '.' (String.sub a 1 (n - 1)) with
    | [b; s] -> RPos (nn b, nn s) | _ -> failwith ("bad pos " ^ a) end
  else if n > 3 && String.sub a 0 3 = "fn(" then begin
    match String.split_on_char ',' (String.sub a 3 (n - 4)) with
    | [v; c] -> RFn (zz v, c = "new") | _ -> failwith ("bad fn " ^ a) end
  else match String.index_opt a '=' with
    | Some i -> RKV (nn (String.sub a 0 i), zz (String.sub a (i + 1) (n - i - 1)))
    | None -> RInt (zz a)

let clause_name = function
  | C02_result -> "C02" | C05_size -> "C05" | C09_iter -> "C09" | C10_limit -> "C10"
  | C12_stream -> "C12" | C11_special -> "C11" | C16_args -> "C16" | C17_functor -> "C17"

let parse_obs (toks : string list) : obs =
  let tbl = Hashtbl.create 16 in
  List.iter (fun t -> match String.index_opt t '=' with
    | Some i -> Hashtbl.replace tbl (String.sub t 0 i) (String.sub t (i + 1) (String.length t - i - 1))
    | None -> ()) toks;
  let g k = Hashtbl.find tbl k in
  let (mn, md) = match g "mlf" with
    | "nan" -> (N0, N0)
    | m -> (match String.split_on_char '/' m with [a; b] -> (nn a, nn b) | _ -> (N0, N0)) in
  { o_hp = nn (g "hp"); o_size = nn (g "size"); o_cap = nn (g "cap"); o_mlfn = mn; o_mlfd = md;
    o_mhp = (if g "mhp" = "none" then no_max else nn (g "mhp")); o_act = (g "act" = "1"); o_dead = (g "dead" = "1") }

let dflt_obs = { o_hp = N0; o_size = N0; o_cap = N0; o_mlfn = N0; o_mlfd = N0; o_mhp = no_max; o_act = false; o_dead = false }

let judge_main (script : string) (implout : string) =
  let spbv = ref (n_of_int 4) in
  let ic = open_in script in
  (try while true do
    let toks = List.filter (fun s -> s <> "") (String.split_on_char ' ' (String.trim (input_line ic))) in
    (match toks with "cfg" :: a :: _ -> spbv := nn a | _ -> ())
  done with End_of_file -> ());
  close_in ic;
  let ic = open_in implout in
  let lines = ref [] in
  (try while true do lines := input_line ic :: !lines done with End_of_file -> ());
  let lines = Array.of_list (List.rev !lines) in
  let st = ref sst_init in
  let cfiles : (int, n list) Hashtbl.t = Hashtbl.create 4 in
  let prev : obs option array = Array.make 4 None in
  let i = ref 0 in
  let nl = Array.length lines in
  let nops = ref 0 in
  while !i < nl do
    let l = lines.(!i) in
    if String.length l > 0 && l.[0] = '#' then begin
      let toks = List.filter (fun s -> s <> "") (String.split_on_char ' ' l) in
      (match toks with
       | ln :: tab :: rest when !i + 1 < nl ->
         let rl = lines.(!i + 1) in
         let atoms = List.filter (fun s -> s <> "") (String.split_on_char ' ' rl) in
         let is_bytes x = (String.length x > 6 && String.sub x 0 6 = "bytes=") || (String.length x > 9 && String.sub x 0 9 = "consumed=") in
         let r = (match atoms with "R" :: xs -> List.map parse_atom (List.filter (fun x -> not (is_bytes x)) xs) | _ -> []) in
         (* collect the dump that follows *)
         let posts : obs option array = Array.make 4 None in
         let j = ref (!i + 2) in
         let herr = ref false in
         while !j < nl && not (String.length lines.(!j) > 0 && (lines.(!j).[0] = '#' || lines.(!j).[0] = 'E')) do
           let dl = lines.(!j) in
           if String.length dl > 1 && dl.[0] = 'T' then begin
             let dt = List.filter (fun s -> s <> "") (String.split_on_char ' ' dl) in
             let ti = int_of_string (String.sub (List.hd dt) 1 (String.length (List.hd dt) - 1)) in
             posts.(ti) <- Some (parse_obs (List.tl dt))
           end else if String.length dl > 13 && String.sub dl 0 13 = "HARNESS-ERROR" then herr := true;
           incr j
         done;
         let a = int_of_string tab in
         let pre = (match prev.(a) with Some x -> x | None -> dflt_obs) in
         let post = (match posts.(a) with Some x -> x | None -> dflt_obs) in
         let contents_of (i : int) : (n * z) list option =
           (match List.nth_opt !st.s_tabs i with Some (Some t) when not t.st_moved -> Some t.st_m | _ -> None) in
         let put_tab (i : int) (m : (n * z) list) =
           st := { !st with s_tabs = List.mapi (fun j x -> if j = i then Some { st_m = m; st_act = false; st_moved = false } else x) !st.s_tabs } in
         let cblame = ref [] in
         let (st', cls) =
           (match rest with
            | ["c.init"; x] -> judge_op fapply_std !spbv !st (nat_of_int a) (ONew (nn x)) r pre post
            | ["c.free"] -> judge_op fapply_std !spbv !st (nat_of_int a) ODestroy r pre post
            | ["c.write"; f] ->
              (* the bytes the implementation wrote must decode (extracted CApi.decode_file) to the contents *)
              let hexs = (match List.rev atoms with h :: _ when String.length h > 6 && String.sub h 0 6 = "bytes=" -> String.sub h 6 (String.length h - 6) | _ -> "") in
              let bytes = List.init (String.length hexs / 2) (fun i -> n_of_int (int_of_string ("0x" ^ String.sub hexs (2 * i) 2))) in
              Hashtbl.replace cfiles (int_of_string f) bytes;
              (match decode_file bytes, contents_of a with
               | Some (cnt, pairs), Some m ->
                 let sortp l = List.sort compare (List.map (fun (k, v) -> (string_of_n k, string_of_z v)) l) in
                 if int_of_n cnt <> List.length m || sortp pairs <> sortp m then cblame := ["C14"]
               | None, Some _ -> cblame := ["C14"]
               | _, None -> ());
              (!st, [])
            | ["c.read"; f; nb; d] ->
              (match Hashtbl.find_opt cfiles (int_of_string f) with
               | None -> (!st, [])
               | Some bytes ->
                 let data = if nb = "full" then bytes else List.filteri (fun i _ -> i < int_of_string nb) bytes in
                 let res_true = (match r with [RBool true] -> true | _ -> false) in
                 let res_null = (match r with [RNone] -> true | _ -> false) in
                 (match r with [RExn EUnmodelled] -> () | _ ->
                 (match decode_file data with
                  | None -> if not res_null then cblame := ["C14"]
                  | Some (_, pairs) ->
                    if not res_true then cblame := [(match r with [RExn _] -> "C15" | _ -> "C14")]
                    else begin
                      (* first occurrence of a key wins, as with insert *)
                      let m = List.fold_left (fun acc (k, v) -> if List.mem_assoc k acc then acc else acc @ [(k, v)]) [] pairs in
                      put_tab (int_of_string d) m
                    end));
                 (!st, []))
            | _ -> judge_op fapply_std !spbv !st (nat_of_int a) (parse_op rest) r pre post) in
         st := st';
         let cls2 = judge_stats !spbv !st (Array.to_list posts) in
         incr nops;
         List.iter (fun c -> Printf.printf "BLAME %s %s :: %s\n" ln (clause_name c) (String.concat " " (tab :: rest))) (cls @ cls2);
         List.iter (fun c -> Printf.printf "BLAME %s %s :: %s\n" ln c (String.concat " " (tab :: rest))) !cblame;
         if !herr then Printf.printf "BLAME %s HARNESS :: %s\n" ln (String.concat " " (tab :: rest));
         Array.blit posts 0 prev 0 4;
         i := !j
       | _ -> incr i)
    end else incr i
  done;
  Printf.printf "JUDGED %d\n" !nops

(* ---------- leaf mode: the generated arithmetic (gen/HashGen.v, extracted) on given arguments ---------- *)
let leaf_main () =
  (try while true do
    let toks = List.filter (fun s -> s <> "") (String.split_on_char ' ' (String.trim (input_line stdin))) in
    let v = match toks with
      | ["partial_key"; h] -> partial_key (nn h)
      | ["index_hash"; hp; h] -> index_hash (nn hp) (nn h)
      | ["alt_index"; hp; p; i] -> alt_index (nn hp) (nn p) (nn i)
      | ["lock_ind"; b] -> lock_ind_gen kMaxNumLocks (nn b)
      | ["hashsize"; hp] -> hashsize (nn hp)
      | ["hashmask"; hp] -> hashmask (nn hp)
      | _ -> failwith "bad leaf line" in
    print_string (string_of_n v); print_char '\n'
  done with End_of_file -> ())

(* ---------- conc mode: replay of a real event trace (harness/conc.cc) in the extracted L2 model ---------- *)
let tstate_name = function
  | Idle -> "Idle" | S0 -> "S0" | S1 _ -> "S1" | E0 _ -> "E0" | E1 _ -> "E1" | EW _ -> "EW" | EC _ -> "EC"
  | EF _ -> "EF" | CS (_, _, got) -> "CS" ^ string_of_int (List.length got) | CW _ -> "CW" | A0 -> "A0" | AR _ -> "AR" | AN _ -> "AN"
  | AH (_, d) -> if d then "AHdirty" else "AH" | AU _ -> "AU"

let conc_main (path : string) =
  let ic = open_in path in
  let st = ref None in
  let hp0 = ref N0 and rc0 = ref N0 in
  let nev = ref 0 in
  let nin = ref 0 in
  (* request discipline (the hypothesis [req_disc] of ConcBound.lock_all_own_steps): a thread issues one lock
     request per acquisition - the model itself lets a whole-table operation repeat LOCKREQ without progress *)
  let pending_req : (int, string * string) Hashtbl.t = Hashtbl.create 8 in
  let fail lineno msg = Printf.printf "REPLAY-FAIL line %d: %s\n" lineno msg; Printf.printf "REPLAYED %d events\n" !nev; exit 0 in
  let lineno = ref 0 in
  let stepl (s : gstate) (t : int) (lbs : label list) : gstate option =
    List.fold_left (fun acc lb -> match acc with None -> None | Some s -> gstep s (nat_of_int t) lb) (Some s) lbs in
  (try while true do
    let line = input_line ic in
    incr lineno;
    let toks = List.filter (fun s -> s <> "") (String.split_on_char ' ' (String.trim line)) in
    match toks with
    | "INIT" :: kvs ->
      List.iter (fun kv -> match String.split_on_char '=' kv with
        | ["hp"; v] -> hp0 := nn v | ["rc"; v] -> rc0 := nn v | _ -> ()) kvs
    | "ARRS" :: sizes -> st := Some (ginit !hp0 !rc0 (List.map (fun x -> nat_of_int (int_of_string x)) sizes))
    | "EV" :: t :: rest ->
      let t = int_of_string t in
      let s = (match !st with Some s -> s | None -> fail !lineno "no INIT") in
      let nat x = nat_of_int (int_of_string x) in
      let cur = s.thr (nat_of_int t) in
      (match rest with
       | ["RETL"] ->
         (* the caller keeps an active locked_table: it must hold everything, with no unpublished write *)
         (match cur with
          | AH (_, false) -> ()
          | _ -> fail !lineno (Printf.sprintf "thread %d returns from a locked_table operation in state %s" t (tstate_name cur)))
       | ["RET"] ->
         (match cur with
          | Idle -> ()
          | _ -> (match gstep s (nat_of_int t) (NEXT O) with
                  | Some s' -> st := Some s'; incr nin
                  | None -> fail !lineno (Printf.sprintf "thread %d returns to the caller in state %s (holding locks or mid-protocol)" t (tstate_name cur))))
       | _ ->
         (match rest with
          | ["LOCKREQ"; a; l] ->
            if Hashtbl.mem pending_req t then fail !lineno (Printf.sprintf "thread %d requests lock (%s,%s) while its request for another acquisition is still pending" t a l);
            Hashtbl.replace pending_req t (a, l)
          | ["LOCKED"; a; l] ->
            (match Hashtbl.find_opt pending_req t with
             | Some (a', l') when a' = a && l' = l -> Hashtbl.remove pending_req t
             | _ -> fail !lineno (Printf.sprintf "thread %d acquires lock (%s,%s) it did not request" t a l))
          | _ -> ());
         let lb = (match rest with
           | ["LD_RC"; v] -> LD_RC (nn v) | ["LD_HP"; v] -> LD_HP (nn v) | ["CURLOCKS"; a] -> CURLOCKS (nat a)
           | ["LOCKREQ"; a; l] -> LOCKREQ (nat a, nat l) | ["LOCKED"; a; l] -> LOCKED (nat a, nat l)
           | ["UNLOCK"; a; l] -> UNLOCK (nat a, nat l) | ["ST_HP"; v] -> ST_HP (nn v) | ["EMPLACE"; n] -> EMPLACE (nat n)
           | ["FA_RC"] -> FA_RC | ["ALL_FIRST"; a] -> ALL_FIRST (nat a) | ["ALL_NEXT"; m] -> ALL_NEXT (m = "1")
           | _ -> fail !lineno ("unknown event " ^ String.concat " " rest)) in
         let one = S O and two = S (S O) and three = S (S (S O)) in
         let attempts = [ []; [NEXT one]; [NEXT two]; [NEXT three]; [BEGIN one]; [BEGIN three];
                          [NEXT O; BEGIN one]; [NEXT O; BEGIN three] ] in
         let rec go = function
           | [] -> fail !lineno (Printf.sprintf "event '%s' of thread %d is not a step of the model in state %s" (String.concat " " rest) t (tstate_name cur))
           | pre :: more ->
             (match stepl s t (pre @ [lb]) with
              | Some s' -> st := Some s'; incr nev; nin := !nin + List.length pre
              | None -> go more) in
         go attempts)
    | _ -> ()
  done with End_of_file -> ());
  (* at the end every thread must be idle and no lock held *)
  (match !st with
   | Some s ->
     for t = 0 to 7 do
       (match s.thr (nat_of_int t) with Idle -> () | x -> Printf.printf "REPLAY-FAIL end: thread %d ends in state %s\n" t (tstate_name x))
     done
   | None -> ());
  Printf.printf "REPLAYED %d events (+%d internal)\n" !nev !nin

let () =
  if Array.length Sys.argv > 1 && Sys.argv.(1) = "--conc" then (conc_main Sys.argv.(2); exit 0);
  if Array.length Sys.argv > 1 && Sys.argv.(1) = "--judge" then (judge_main Sys.argv.(2) Sys.argv.(3); exit 0);
  if Array.length Sys.argv > 1 && Sys.argv.(1) = "--leaf" then (leaf_main (); exit 0);
  if Array.length Sys.argv > 1 && Sys.argv.(1) = "--codecw" then begin
    (* stdin lines: <kw> <vw> <k:v,k:v,...|->  -> the file the width-generic codec (coq/CodecW.v) writes, in hex, and
       whether the checked reader gives the pairs back *)
    (try while true do
      let line = String.trim (input_line stdin) in
      (match List.filter (fun s -> s <> "") (String.split_on_char ' ' line) with
       | [kw; vw; ps] ->
         let pairs = if ps = "-" then [] else
           List.map (fun p -> match String.split_on_char ':' p with [k; v] -> (nn k, nn v) | _ -> failwith "pair") (String.split_on_char ',' ps) in
         let kwn = nat_of_int (int_of_string kw) and vwn = nat_of_int (int_of_string vw) in
         let bytes = encode_file_w kwn vwn (n_of_int (List.length pairs)) pairs in
         let back = (match decode_file_w_chk kwn vwn bytes with Some (_, qs) -> qs = pairs | None -> false) in
         Printf.printf "%s %b\n" (hex_of_bytes bytes) back
       | _ -> ())
    done with End_of_file -> ()); exit 0 end;
  let ic = if Array.length Sys.argv > 1 then open_in Sys.argv.(1) else stdin in
  let cfg = ref { spb = n_of_int 4; lbits = n_of_int 16; simple = true; nothrow = true; destructive = false } in
  let hashes : (n, n) Hashtbl.t = Hashtbl.create 64 in
  let hash k = match Hashtbl.find_opt hashes k with Some h -> h | None -> k in
  let w = ref cworld_init in
  let lval = ref false in     (* script directive "lvalues 1": the harness passes lvalue arguments, which are never consumed *)
  let buf = Buffer.create 65536 in
  let lineno = ref 0 in
  (try
    while true do
      let line = input_line ic in
      incr lineno;
      let toks = List.filter (fun s -> s <> "") (String.split_on_char ' ' (String.trim line)) in
      match toks with
      | [] -> ()
      | t :: _ when t.[0] = '#' -> ()
      | ["cfg"; a; b; c; d; e] ->
        cfg := { spb = nn a; lbits = nn b; simple = bb c; nothrow = bb d; destructive = bb e }
      | ["key"; k; h] -> Hashtbl.replace hashes (nn k) (nn h)
      | ["lvalues"; b] -> lval := (b = "1")
      | tab :: rest ->
        let o = parse_cop rest in
        let ((w', out), bytes) = cstep !cfg hash fapply_std !w (nat_of_int (int_of_string tab)) o in
        w := w';
        Buffer.add_string buf (Printf.sprintf "#%d %s\nR" !lineno (String.concat " " toks));
        List.iter (fun r -> Buffer.add_char buf ' '; Buffer.add_string buf (rv_str r)) out;
        (* C16: for instrumented (non-trivial) element types the harness reports whether the key and
           value arguments were moved from; in the model they are consumed iff the call inserted
           (insert_or_assign on a duplicate hands its value to the documented assignment) *)
        (if not (!cfg).simple then
           let unmodelled = (match out with [RExn EUnmodelled] -> true | _ -> false) in
           let first_bool = (match out with RBool b :: _ -> Some b | _ -> None) in
           let second_bool = (match out with _ :: RBool b :: _ -> Some b | _ -> None) in
           let c2 kb vb = Buffer.add_string buf (Printf.sprintf " consumed=%d%d" (if kb && not !lval then 1 else 0) (if vb && not !lval then 1 else 0)) in
           match rest with
           | ("insert" | "upsert" | "uprase") :: _ when not unmodelled ->
             (match first_bool with Some b -> c2 b b | None -> c2 false false)
           | "ioa" :: _ when not unmodelled ->
             (match first_bool with Some b -> c2 b true | None -> c2 false false)
           | "l.insert" :: _ when not unmodelled ->
             (match second_bool with Some b -> c2 b b | None -> c2 false false)
           | _ -> ());
        (match bytes with Some bs -> Buffer.add_string buf (" bytes=" ^ hex_of_bytes bs) | None -> ());
        Buffer.add_char buf '\n';
        dump_world !cfg buf !w.cw;
        if Buffer.length buf > 1 lsl 20 then (print_string (Buffer.contents buf); Buffer.clear buf)
    done
  with End_of_file -> ());
  Buffer.add_string buf "END live_blocks=0 live_bytes=0 live_objects=0\n";
  print_string (Buffer.contents buf)
