(* Driver for the extracted model: reads a script (see DESIGN Appendix B), prints one result line
   and a complete state dump per operation, in exactly the format harness/seq.cc prints. *)
open Model

(* ---------- number conversion (N, Z, positive stay Coq datatypes) ---------- *)
let rec pos_of_int (i : int) : positive =
  if i = 1 then XH else if i land 1 = 0 then XO (pos_of_int (i lsr 1)) else XI (pos_of_int (i lsr 1))
let n_of_int (i : int) : n = if i = 0 then N0 else Npos (pos_of_int i)
let ten = n_of_int 10
let n_of_string (s : string) : n =
  let r = ref N0 in
  String.iter (fun ch ->
    if ch < '0' || ch > '9' then failwith ("bad number " ^ s);
    r := N.add (N.mul !r ten) (n_of_int (Char.code ch - 48))) s;
  !r
let rec int_of_pos = function XH -> 1 | XO p -> 2 * int_of_pos p | XI p -> 2 * int_of_pos p + 1
let int_of_n = function N0 -> 0 | Npos p -> int_of_pos p
let string_of_n (x : n) : string =
  if x = N0 then "0" else begin
    let b = Buffer.create 20 in
    let rec go x acc = if x = N0 then acc else
      let (q, r) = N.div_eucl x ten in go q (string_of_int (int_of_n r) :: acc) in
    List.iter (Buffer.add_string b) (go x []); Buffer.contents b end
let z_of_string (s : string) : z =
  if String.length s > 0 && s.[0] = '-' then Z.opp (Z.of_N (n_of_string (String.sub s 1 (String.length s - 1))))
  else Z.of_N (n_of_string s)
let string_of_z = function Z0 -> "0" | Zpos p -> string_of_n (Npos p) | Zneg p -> "-" ^ string_of_n (Npos p)
let rec nat_of_int i = if i <= 0 then O else S (nat_of_int (i - 1))
let rec int_of_nat = function O -> 0 | S n -> 1 + int_of_nat n

(* ---------- printing ---------- *)
let exn_name = function
  | ELoadFactorTooLow -> "load_factor_too_low" | EMaxHashpower -> "maximum_hashpower_exceeded"
  | EInvalidArgument -> "invalid_argument" | EOutOfRange -> "out_of_range" | EBadAlloc -> "bad_alloc"
  | EUser -> "user" | EOutOfFuel -> "OUT_OF_FUEL" | EUnmodelled -> "UNMODELLED"

let rv_str = function
  | RBool b -> if b then "true" else "false"
  | RNat x -> string_of_n x
  | RInt z -> string_of_z z
  | RNone -> "-"
  | RPos (b, s) -> "@" ^ string_of_n b ^ "." ^ string_of_n s
  | RExn e -> "exc:" ^ exn_name e
  | RFn (v, newly) -> "fn(" ^ string_of_z v ^ "," ^ (if newly then "new" else "old") ^ ")"
  | RKV (k, v) -> string_of_n k ^ "=" ^ string_of_z v

let no_max = n_of_string "18446744073709551615"

let mlf_str (nn : n) (d : n) : string =
  if d = N0 then "nan" else
  let g = N.gcd nn d in
  let g = if g = N0 then n_of_int 1 else g in
  let (a, _) = N.div_eucl nn g and (b, _) = N.div_eucl d g in
  string_of_n a ^ "/" ^ string_of_n b

let sorted_rows (m : 'a PositiveMap.t) : (int * 'a) list =
  List.sort (fun (a, _) (b, _) -> compare a b) (List.map (fun (p, x) -> (int_of_pos p - 1, x)) (PositiveMap.elements m))

let dump_array (buf : Buffer.t) (tag : string) (a : barray) =
  Buffer.add_string buf tag;
  List.iter (fun (b, row) ->
    List.iter (fun (s, e) ->
      Buffer.add_string buf (Printf.sprintf " %d.%d:%s=%s/%s%s" b s (string_of_n e.ekey) (string_of_z e.eval)
        (string_of_n e.epart) (if e.ehusk then "h" else ""))) (sorted_rows row)) (sorted_rows a.bsl);
  Buffer.add_char buf '\n'

let dump_table (cfg : config) (buf : Buffer.t) (i : int) (s : tslot) =
  let t = s.tb in
  Buffer.add_string buf (Printf.sprintf "T%d hp=%s dead=%d ohp=%s odead=%d nrem=%s rc=%s mlf=%s mhp=%s w=%s act=%d size=%s cap=%s\n" i
    (string_of_n t.cur.bhp) (if t.cur.bdead then 1 else 0)
    (string_of_n t.old.bhp) (if t.old.bdead then 1 else 0)
    (string_of_n t.nrem) (string_of_n t.rc) (mlf_str t.mlfn t.mlfd)
    (if t.mhp = no_max then "none" else string_of_n t.mhp) (string_of_n t.workers)
    (if s.active then 1 else 0) (string_of_n (tsize t)) (string_of_n (capacity cfg t)));
  List.iteri (fun j la ->
    Buffer.add_string buf (Printf.sprintf " L%d n=%d" j (List.length la));
    List.iteri (fun idx lk ->
      if not (lk.cnt = Z0 && lk.mig) then
        Buffer.add_string buf (Printf.sprintf " %d:%s:%d" idx (string_of_z lk.cnt) (if lk.mig then 1 else 0))) la;
    Buffer.add_char buf '\n') t.locks;
  if not t.cur.bdead then dump_array buf " C" t.cur;
  if not t.old.bdead then dump_array buf " O" t.old

let dump_world (cfg : config) (buf : Buffer.t) (w : world) =
  List.iteri (fun i o -> match o with None -> () | Some s -> dump_table cfg buf i s) w.tabs

(* ---------- script parsing ---------- *)
let parse_fn (s : string) : fnk =
  match String.split_on_char ':' s with
  | ["noop"] -> FNoop
  | ["add"; d] -> FAdd (z_of_string d)
  | ["set"; d] -> FSet (z_of_string d)
  | ["eraseifeq"; d] -> FEraseIfEq (z_of_string d)
  | ["adderaseeven"; d] -> FAddEraseIfEven (z_of_string d)
  | ["ctx"; a; b] -> FCtx (z_of_string a, z_of_string b)
  | _ -> failwith ("bad functor " ^ s)

let nn = n_of_string
let zz = z_of_string
let ni s = nat_of_int (int_of_string s)
let bb s = (s = "1")

let parse_op (toks : string list) : op =
  match toks with
  | ["new"; x] -> ONew (nn x)
  | ["find"; k] -> OFind (nn k) | ["findthrow"; k] -> OFindThrow (nn k)
  | ["contains"; k] -> OContains (nn k) | ["findfn"; k] -> OFindFn (nn k)
  | ["update"; k; v] -> OUpdate (nn k, zz v) | ["updatefn"; k; f] -> OUpdateFn (nn k, parse_fn f)
  | ["insert"; k; v] -> OInsert (nn k, zz v) | ["ioa"; k; v] -> OIoa (nn k, zz v)
  | ["upsert"; k; f; two; v] -> OUpsert (nn k, parse_fn f, bb two, zz v)
  | ["uprase"; k; f; two; v] -> OUprase (nn k, parse_fn f, bb two, zz v)
  | ["erase"; k] -> OErase (nn k) | ["erasefn"; k; f] -> OEraseFn (nn k, parse_fn f)
  | ["rehash"; x] -> ORehash (nn x) | ["reserve"; x] -> OReserve (nn x) | ["clear"] -> OClear
  | ["mlf"; "nan"] -> OMlf MNaN
  | ["mlf"; a; d] ->
    if a.[0] = '-' then OMlf (MRat (true, nn (String.sub a 1 (String.length a - 1)), nn d))
    else OMlf (MRat (false, nn a, nn d))
  | ["mhp"; "none"] -> OMhp no_max
  | ["mhp"; x] -> OMhp (nn x) | ["workers"; x] -> OWorkers (nn x)
  | ["lock"] -> OLock | ["unlock"] -> OUnlock
  | ["l.insert"; k; v] -> LInsert (nn k, zz v) | ["l.erase"; k] -> LEraseKey (nn k)
  | ["l.eraseit"; r; d] -> LEraseIt (ni r, ni d)
  | ["l.find"; k; r] -> LFind (nn k, ni r) | ["l.at"; k] -> LAt (nn k) | ["l.idx"; k] -> LIdx (nn k)
  | ["l.count"; k] -> LCount (nn k) | ["l.range"; k] -> LRange (nn k)
  | ["l.rehash"; x] -> LRehash (nn x) | ["l.reserve"; x] -> LReserve (nn x) | ["l.clear"] -> LClear
  | ["it.begin"; r] -> ItBegin (ni r) | ["it.end"; r] -> ItEnd (ni r)
  | ["it.inc"; r] -> ItInc (ni r) | ["it.dec"; r] -> ItDec (ni r) | ["it.get"; r] -> ItGet (ni r)
  | ["it.set"; r; v] -> ItSet (ni r, zz v) | ["it.eq"; r1; r2] -> ItEq (ni r1, ni r2)
  | ["l.trav"] -> LTraverse | ["l.rtrav"] -> LRTraverse
  | ["sout"; s] -> StreamOut (ni s) | ["sin"; s] -> StreamIn (ni s)
  | ["copyto"; b] -> OCopyTo (ni b) | ["moveto"; b] -> OMoveTo (ni b)
  | ["assignto"; b] -> OAssignTo (ni b) | ["massignto"; b] -> OMoveAssignTo (ni b)
  | ["swap"; b] -> OSwap (ni b)
  | ["copyallocto"; b; e] -> OCopyAllocTo (ni b, bb e) | ["moveallocto"; b; e] -> OMoveAllocTo (ni b, bb e)
  | ["destroy"] -> ODestroy
  | _ -> failwith ("bad op: " ^ String.concat " " toks)

let () =
  let ic = if Array.length Sys.argv > 1 then open_in Sys.argv.(1) else stdin in
  let cfg = ref { spb = n_of_int 4; lbits = n_of_int 16; simple = true; nothrow = true; destructive = false } in
  let hashes : (n, n) Hashtbl.t = Hashtbl.create 64 in
  let hash k = match Hashtbl.find_opt hashes k with Some h -> h | None -> k in
  let w = ref init_world in
  let buf = Buffer.create 65536 in
  let lineno = ref 0 in
  (try
    while true do
      let line = input_line ic in
      incr lineno;
      let toks = List.filter (fun s -> s <> "") (String.split_on_char ' ' (String.trim line)) in
      match toks with
      | [] -> ()
      | t :: _ when t.[0] = '#' -> ()
      | ["cfg"; a; b; c; d; e] ->
        cfg := { spb = nn a; lbits = nn b; simple = bb c; nothrow = bb d; destructive = bb e }
      | ["key"; k; h] -> Hashtbl.replace hashes (nn k) (nn h)
      | tab :: rest ->
        let o = parse_op rest in
        let (w', out) = step !cfg hash fapply_std !w (nat_of_int (int_of_string tab)) o in
        w := w';
        Buffer.add_string buf (Printf.sprintf "#%d %s\nR" !lineno (String.concat " " toks));
        List.iter (fun r -> Buffer.add_char buf ' '; Buffer.add_string buf (rv_str r)) out;
        Buffer.add_char buf '\n';
        dump_world !cfg buf !w;
        if Buffer.length buf > 1 lsl 20 then (print_string (Buffer.contents buf); Buffer.clear buf)
    done
  with End_of_file -> ());
  Buffer.add_string buf "END live_blocks=0 live_bytes=0 live_objects=0\n";
  print_string (Buffer.contents buf)
