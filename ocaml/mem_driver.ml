(* Runs the extracted race detector (coq/MemDefs.v) on an execution written by tools/t2.py.
   input lines:  T t lk | C t lk | D t | R t x | W t x | P x lk (protection map) ; '#' comments
   output: ORDERS tas=.. clr=.. dec=.. ; WF b ; PROT b (first unprotected index) ; RACES n i j ... *)
open Memmodel
let rec nat_of_int n = if n <= 0 then O else S (nat_of_int (n - 1))
let rec int_of_nat = function O -> 0 | S n -> 1 + int_of_nat n
let oname = function Relaxed -> "relaxed" | Consume -> "consume" | Acquire -> "acquire" | Release -> "release" | AcqRel -> "acq_rel" | SeqCst -> "seq_cst"
let () =
  let evs = ref [] and prot = Hashtbl.create 64 in
  (try while true do
    let line = String.trim (input_line stdin) in
    match List.filter (fun s -> s <> "") (String.split_on_char ' ' line) with
    | ["T"; t; l] -> evs := Tas (nat_of_int (int_of_string t), nat_of_int (int_of_string l)) :: !evs
    | ["C"; t; l] -> evs := Clr (nat_of_int (int_of_string t), nat_of_int (int_of_string l)) :: !evs
    | ["D"; t] -> evs := Dec (nat_of_int (int_of_string t)) :: !evs
    | ["R"; t; x] -> evs := Rd (nat_of_int (int_of_string t), nat_of_int (int_of_string x)) :: !evs
    | ["W"; t; x] -> evs := Wr (nat_of_int (int_of_string t), nat_of_int (int_of_string x)) :: !evs
    | ["P"; x; l] -> Hashtbl.replace prot (int_of_string x) (int_of_string l)
    | _ -> ()
  done with End_of_file -> ());
  let e = List.rev !evs in
  let o = source_orders in
  (match orders_of_sites sites with
   | Some _ -> Printf.printf "ORDERS tas=%s clr=%s dec=%s\n" (oname o.o_tas) (oname o.o_clr) (oname o.o_dec)
   | None -> Printf.printf "ORDERS missing (a synchronisation site was not found in the source: treated as relaxed)\n");
  Printf.printf "WF %b\n" (wf_locks e);
  if Hashtbl.length prot > 0 then begin
    let pf x = let xi = int_of_nat x in nat_of_int (try Hashtbl.find prot xi with Not_found -> 1000000) in
    (* find the first unprotected access by checking prefixes only when the whole check fails *)
    if protected_by pf e then Printf.printf "PROT true\n"
    else begin
      let arr = Array.of_list e in
      let lo = ref 0 and hi = ref (Array.length arr) in
      while !hi - !lo > 1 do
        let mid = (!lo + !hi) / 2 in
        if protected_by pf (Array.to_list (Array.sub arr 0 mid)) then lo := mid else hi := mid
      done;
      Printf.printf "PROT false %d\n" !lo
    end
  end;
  let rs = if Array.length Sys.argv > 1 && Sys.argv.(1) = "--prot-only" then [] else races o e in
  Printf.printf "RACES %d" (List.length rs);
  List.iteri (fun k (i, j) -> if k < 8 then Printf.printf " %d %d" (int_of_nat i) (int_of_nat j)) rs;
  print_newline ()
