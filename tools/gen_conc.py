#!/usr/bin/env python3
"""Generators of T2 programs: small multi-threaded client programs over a tiny key universe with
chosen hashes, plus a seeded random schedule or an explicit one."""
import random, sys, os
sys.path.insert(0, os.path.dirname(os.path.abspath(__file__)))
import gen

STRIPE_OPS = ['find', 'contains', 'insert', 'ioa', 'update', 'erase', 'updatefn', 'erasefn', 'upsert', 'uprase']

def rand_op(r, nkeys, allow_whole=True, profile='mixed'):
    k = r.randrange(1, nkeys + 1)
    v = r.randrange(0, 90)
    x = r.random()
    if allow_whole and x < {'mixed': 0.12, 'resize': 0.35, 'insert': 0.05}[profile]:
        return r.choice(['rehash %d' % r.choice([0, 1, 2, 3, 4]), 'reserve %d' % r.choice([1, 4, 9, 17, 33]), 'clear',
                         'rehash %d' % r.choice([1, 2, 3])])
    o = r.choice(STRIPE_OPS if profile != 'insert' else ['insert', 'insert', 'upsert', 'find', 'erase', 'ioa'])
    if o in ('find', 'contains', 'erase'): return '%s %d' % (o, k)
    if o in ('insert', 'ioa', 'update'): return '%s %d %d' % (o, k, v)
    if o in ('updatefn', 'erasefn'): return '%s %d %s' % (o, k, r.choice(['add:1', 'add:1', 'set:7', 'eraseifeq:7', 'adderaseeven:1']))
    return '%s %d %s %d %d' % (o, k, r.choice(['add:1', 'ctx:5:1', 'noop', 'adderaseeven:1']), r.randrange(2), v)

def locked_section(r, nkeys):
    ops = ['lock']
    for _ in range(r.randrange(1, 4)):
        k = r.randrange(1, nkeys + 1)
        x = r.randrange(8)
        if x < 3: ops.append('l.insert %d %d' % (k, r.randrange(90)))
        elif x == 3: ops.append('l.erase %d' % k)
        elif x == 4: ops.append('l.find %d' % k)
        elif x == 5: ops.append('l.rehash %d' % r.choice([1, 2, 3, 4]))
        elif x == 6: ops.append('l.clear')
        else: ops.append('%s %d %d %d %d %d' % (r.choice(['l.sin', 'l.sin', 'l.sin', 'l.sinbad']), r.choice([0, 1, 2, 3]), r.randrange(1, nkeys + 1), r.randrange(90), r.randrange(1, nkeys + 1), r.randrange(90)))
    ops.append('unlock')
    return ops

def rmw_thread(r, nkeys, hot):
    ops = []
    for _ in range(r.choice([2, 3, 4])):
        x = r.random()
        k = hot if x < 0.75 else r.randrange(1, nkeys + 1)
        y = r.randrange(6)
        if y < 3: ops.append('updatefn %d add:1' % k)
        elif y == 3: ops.append('upsert %d add:1 %d 1' % (k, r.randrange(2)))
        elif y == 4: ops.append('find %d' % k)
        else: ops.append(r.choice(['insert %d %d' % (r.randrange(1, nkeys + 1), r.randrange(90)), 'rehash %d' % r.choice([1, 2, 3]),
                                    'erase %d' % r.randrange(1, nkeys + 1)]))
    return ops

def gen_conc(seed, spb, lbits, nthreads=None, profile=None):
    r = random.Random(seed)
    nthreads = nthreads or r.choice([2, 2, 2, 3])
    profile = profile or r.choice(['mixed', 'mixed', 'resize', 'insert', 'locked', 'rmw'])
    nkeys = r.choice([3, 4, 6, 8])
    style = r.choice(['same', 'samelow', 'twobuckets', 'mixed', 'small', 'random'])
    keys = gen.make_keys(r, nkeys, style)
    lines = ['# conc profile=%s style=%s threads=%d' % (profile, style, nthreads), 'cfg %d %d 1 1 0' % (spb, lbits)]
    for k, h in keys.items():
        lines.append('key %d %d' % (k, h))
    lines.append('init %d' % r.choice([1, 2, 4, 4, 8]))
    lines.append('pre mhp %d' % r.choice([5, 6, 7]))
    if profile == 'rmw':
        lines.append('pre insert 1 %d' % r.randrange(90))
    for _ in range(r.randrange(0, nkeys + 1)):
        lines.append('pre insert %d %d' % (r.randrange(1, nkeys + 1), r.randrange(90)))
    for t in range(nthreads):
        ops = []
        n = r.choice([1, 2, 2, 3])
        if profile == 'rmw':
            ops = rmw_thread(r, nkeys, 1)
        elif profile == 'locked' and t == 0:
            ops = locked_section(r, nkeys)
        else:
            for _ in range(n):
                ops.append(rand_op(r, nkeys, True, profile if profile not in ('locked', 'rmw') else 'mixed'))
        lines.append('thread %d %s' % (t, ' ; '.join(ops)))
    lines.append('seed %d' % r.getrandbits(32))
    return '\n'.join(lines) + '\n'

def gen_reads(seed, spb, lbits):
    """programs for the instrumented-value variant: readers through every lookup overload (the throwing find copies
    the value out), writers that update / erase / re-insert / displace / resize the same keys"""
    r = random.Random(seed)
    nthreads = r.choice([2, 2, 3])
    nkeys = r.choice([2, 3, 4])
    keys = gen.make_keys(r, nkeys + 2, r.choice(['same', 'samelow', 'twobuckets', 'mixed']))
    lines = ['# conc profile=reads threads=%d' % nthreads, 'cfg %d %d 1 1 0' % (spb, lbits)] + ['key %d %d' % kv for kv in keys.items()]
    lines.append('init %d' % r.choice([1, 2, 4]))
    lines.append('pre mhp %d' % r.choice([5, 6]))
    for k in range(1, nkeys + 1):
        lines.append('pre insert %d %d' % (k, 10 * k))
    for t in range(nthreads):
        ops = []
        for _ in range(r.choice([1, 2, 3])):
            k = r.randrange(1, nkeys + 1)
            if t == 0 or r.random() < 0.3:
                ops.append(r.choice(['findthrow %d' % k, 'findthrow %d' % k, 'find %d' % k, 'contains %d' % k, 'updatefn %d add:1' % k]))
            else:
                ops.append(r.choice(['update %d %d' % (k, r.randrange(90)), 'erase %d ; insert %d %d' % (k, nkeys + 1, r.randrange(90)), 'ioa %d %d' % (k, r.randrange(90)),
                                     'erase %d ; insert %d %d' % (k, k, r.randrange(90)), 'insert %d %d' % (nkeys + 2, r.randrange(90)), 'rehash %d' % r.choice([1, 2, 3]),
                                     'updatefn %d add:1' % k, 'erasefn %d eraseifeq:%d' % (k, 10 * k)]))
        lines.append('thread %d %s' % (t, ' ; '.join(ops)))
    lines.append('seed %d' % r.getrandbits(32))
    return '\n'.join(lines) + '\n'

def gen_sweep_reads(seed, spb, lbits, maxpoints=40):
    """single-preemption sweeps for the instrumented-value variant: a reader of key k is stopped at each of its
    scheduling points (including the point just before it copies the stored value), a writer then changes / erases /
    replaces that element and runs to completion, the reader finishes: its result must be the value before or after"""
    r = random.Random(seed)
    h = r.getrandbits(64)
    keys = {1: h, 2: h, 3: h}
    hdr = ['# conc reads sweep', 'cfg %d %d 1 1 0' % (spb, lbits)] + ['key %d %d' % kv for kv in keys.items()]
    hdr.append('init %d' % r.choice([1, 2, 4]))
    hdr.append('pre mhp 5')
    hdr.append('pre insert 1 10')
    rd = r.choice(['findthrow 1', 'findthrow 1', 'find 1', 'updatefn 1 add:1'])
    wr = r.choice(['update 1 20', 'erase 1 ; insert 2 30', 'erase 1 ; insert 2 30 ; insert 3 40', 'ioa 1 25', 'erase 1', 'rehash 3 ; update 1 21'])
    body = ['thread 0 ' + rd, 'thread 1 ' + wr]
    return ['\n'.join(hdr + body + ['sched ' + ' '.join(map(str, [0] * j + [-2, -1]))]) + '\n' for j in range(1, maxpoints)]

def gen_sweep(seed, spb, lbits, maxpoints=90, dup_only=False, two_groups=None, force_resize=False, diff_stripes=False):
    """Systematic single-preemption sweep over a small program built around bucket displacement: both
    candidate buckets of a new key are full (all keys share one hash, or two hashes with equal buckets),
    one thread inserts it (BFS + path execution), the others erase / update / re-insert residents or
    resize.  Returns explicit schedules: thread order (p0,p1,..): p0 runs j scheduling points, then the
    others run to completion in order, then p0 finishes - for every j."""
    r = random.Random(seed)
    nres = 2 * spb
    h = r.getrandbits(64)
    if diff_stripes:
        # the two candidate buckets of the shared hash fall under different lock stripes at every table size: the
        # low bits of (tag+1)*0xc6a4a7935bd1e995 are not all zero
        kmax = 1 << lbits
        tags = [t for t in range(256) if ((t + 1) * 0xc6a4a7935bd1e995) & (kmax - 1)]
        h = gen.hash_with_tag(r, r.choice(tags), r.getrandbits(12), 12)
    keys = {k: h for k in range(1, nres + 4)}
    if (two_groups if two_groups is not None else r.random() < 0.4):
        # second group: same tag and low bits, differing higher bits
        h2 = gen.hash_with_tag(r, gen.partial_key(h), h & 7, 3)
        for k in range(nres // 2 + 1, nres + 4):
            if r.random() < 0.5: keys[k] = h2
    hdr = ['# conc sweep', 'cfg %d %d 1 1 0' % (spb, lbits)] + ['key %d %d' % kv for kv in keys.items()]
    hdr.append('init %d' % r.choice([1, 2, 4, 8]))
    hdr.append('pre mhp %d' % r.choice([5, 6]))
    for k in range(1, nres + 1):
        hdr.append('pre insert %d %d' % (k, 10 * k))
    newk = nres + 1
    victim = r.randrange(1, nres + 1)
    t0 = r.choice(['insert %d 5' % newk, 'upsert %d add:1 1 5' % newk, 'uprase %d ctx:1:1 1 5' % newk, 'ioa %d 5' % newk])
    others = []
    o1 = r.choice(['erase %d' % victim, 'erase %d ; insert %d 7' % (victim, victim), 'erasefn %d eraseifeq:%d' % (victim, 10 * victim),
                   'erase %d ; updatefn %d add:1' % (victim, r.randrange(1, nres + 1)),
                   # the same NEW key inserted by the other thread while the first one is displacing: the
                   # duplicate must be found by the re-check after displacement, in either candidate bucket
                   'erase %d ; insert %d 7' % (victim, newk), 'erase %d ; upsert %d ctx:1:1 1 7' % (victim, newk),
                   'erase %d ; insert %d 7' % (victim, newk)])
    if dup_only:
        # ... or after a complete resize by the other thread (the duplicate then lives at the new size's buckets)
        o1 = r.choice(['erase %d ; insert %d 7' % (victim, newk), 'erase %d ; upsert %d ctx:1:1 1 7' % (victim, newk),
                       'erase %d ; rehash %d ; insert %d 7' % (victim, r.choice([4, 5]), newk),
                       'erase %d ; reserve %d ; upsert %d ctx:1:1 1 7' % (victim, r.choice([40, 70]), newk)])
        if force_resize:
            o1 = r.choice(['erase %d ; rehash %d ; insert %d 7' % (victim, r.choice([4, 5]), newk),
                           'erase %d ; reserve %d ; upsert %d ctx:1:1 1 7' % (victim, r.choice([40, 70]), newk)])
        t0 = r.choice(['insert %d 5' % newk, 'upsert %d ctx:1:1 1 5' % newk, 'uprase %d ctx:1:1 1 5' % newk, 'ioa %d 5' % newk])
    others.append(o1)
    if r.random() < 0.5 and not dup_only:
        others.append(r.choice(['updatefn %d add:1 ; updatefn %d add:1' % (victim, victim), 'rehash %d' % r.choice([1, 2, 3]),
                                'insert %d 9' % (nres + 2), 'find %d ; find %d' % (victim, newk), 'lock ; l.erase %d ; unlock' % victim]))
    progs = [t0] + others
    scripts = []
    nthr = len(progs)
    orders = [[0] + list(range(1, nthr))]
    if nthr > 2:
        orders.append([0, 2, 1])
    orders.append([1, 0] + list(range(2, nthr)))
    for order in orders:
        body = ['thread %d %s' % (i, progs[i]) for i in range(nthr)]
        for j in range(1, maxpoints):
            sched = [order[0]] * j
            for u in order[1:]:
                sched += [u] * 300
            scripts.append('\n'.join(hdr + body + ['sched ' + ' '.join(map(str, sched))]) + '\n')
    return scripts

def alt_index(hp, tag, i):
    return (i ^ (((tag + 1) * gen.MURMUR) & gen.MASK64)) & ((1 << hp) - 1)

def gen_sweep_layout(seed, spb, lbits, maxpoints=140):
    """Single-preemption sweeps over a constructed layout: key K has candidate buckets X and Y, both full;
    the residents of X have their alternate in an empty bucket Z (so a displacement path X -> Z exists), the
    residents of Y likewise elsewhere.  Thread 0 inserts K (displacing), thread 1 erases a resident of Y and
    inserts the SAME key K (it lands in Y).  Thread 0 must find that duplicate after its displacement."""
    r = random.Random(seed)
    hp = r.choice([2, 3]) if spb <= 2 else 2
    nb = 1 << hp
    for _ in range(200):
        X, Y, Z = r.sample(range(nb), 3)
        tagK = [t for t in range(256) if alt_index(hp, t, X) == Y]
        tagA = [t for t in range(256) if alt_index(hp, t, X) == Z]
        tagB = [t for t in range(256) if alt_index(hp, t, Y) not in (X, Y)]
        if tagK and tagA and tagB:
            break
    else:
        return []
    keys = {}
    kid = 1
    resX, resY = [], []
    for _ in range(spb):
        keys[kid] = gen.hash_with_tag(r, r.choice(tagA), X, hp + 3); resX.append(kid); kid += 1
    for _ in range(spb):
        keys[kid] = gen.hash_with_tag(r, r.choice(tagB), Y, hp + 3); resY.append(kid); kid += 1
    K = kid
    keys[K] = gen.hash_with_tag(r, r.choice(tagK), X, hp + 3)
    hdr = ['# conc layout sweep X=%d Y=%d Z=%d hp=%d' % (X, Y, Z, hp), 'cfg %d %d 1 1 0' % (spb, lbits)] + ['key %d %d' % kv for kv in keys.items()]
    hdr.append('init %d' % (nb * spb))
    hdr.append('pre mhp %d' % (hp + 2))
    for k in resX + resY:
        hdr.append('pre insert %d %d' % (k, 10 * k))
    victim = r.choice(resY)
    t0 = r.choice(['insert %d 5' % K, 'upsert %d ctx:1:1 1 5' % K, 'uprase %d ctx:1:1 1 5' % K, 'ioa %d 5' % K])
    t1 = r.choice(['erase %d ; insert %d 7' % (victim, K), 'erase %d ; upsert %d ctx:1:1 1 7' % (victim, K)])
    variants = [t1]
    if r.random() < 0.5:
        # the other thread erases an element of the displacement path (each resident of X in turn) between the path
        # search and the move: the erased element must stay erased (later find / update functors are not invoked on it)
        variants = [r.choice(['erase %d ; find %d' % (pv, pv), 'erasefn %d eraseifeq:%d ; updatefn %d add:1' % (pv, 10 * pv, pv)]) for pv in resX]
        maxpoints = min(maxpoints, 90)
    scripts = []
    for t1 in variants:
        body = ['thread 0 ' + t0, 'thread 1 ' + t1]
        for j in range(1, maxpoints):
            sched = [0] * j + [1] * 300
            scripts.append('\n'.join(hdr + body + ['sched ' + ' '.join(map(str, sched))]) + '\n')
    return scripts

def gen_sweep_section(seed, spb, lbits, sin_only=False, maxpoints=45, pending=None):
    """single-preemption sweeps around a locked section that replaces / resizes the table: thread 0 runs
    `lock ; <section operations> ; unlock`, thread 1 one ordinary operation on a key the section touches.
    (a) thread 1 runs i scheduling points (it has its snapshot, or is about to lock), then the whole section runs,
    then thread 1 finishes; (b) the section runs j points, thread 1 runs until it blocks, the section finishes, thread 1
    finishes.  Thread 1 must observe exactly the state the section left."""
    r = random.Random(seed)
    h = r.getrandbits(64)
    style = r.choice(['same', 'mixed'])
    keys = {k: (h if style == 'same' else r.getrandbits(64)) for k in range(1, 6)}
    hdr = ['# conc section sweep', 'cfg %d %d 1 1 0' % (spb, lbits)] + ['key %d %d' % kv for kv in keys.items()]
    hdr.append('init %d' % r.choice([1, 2, 4, 16, 16]))
    hdr.append('pre mhp 6')
    for k in (1, 2):
        hdr.append('pre insert %d %d' % (k, 10 * k))
    sin = '%s %d 1 11 3 33' % (r.choice(['l.sin', 'l.sin', 'l.sinbad']), r.choice([0, 1, 2, 3, 4]))
    sec = [sin] if sin_only else [r.choice([sin, sin, 'l.rehash %d' % r.choice([1, 2, 3, 4]), 'l.clear', 'l.erase 1 ; l.insert 3 30',
                                            'l.rehash %d ; %s' % (r.choice([2, 3]), sin), 'l.insert 3 30 ; l.insert 4 40 ; l.insert 5 50'])]
    t0 = 'lock ; ' + ' ; '.join(sec) + ' ; unlock'
    t1 = r.choice(['find 1', 'insert 1 7', 'insert 3 7', 'update 1 8', 'erase 1', 'upsert 1 add:1 1 5', 'find 3', 'updatefn 1 add:1'])
    npre = maxpoints // 2
    if not sin_only and (pending if pending is not None else r.random() < 0.35):
        # the waiting operation is an insertion that has already decided to expand (both candidate buckets full, no
        # displacement path: all keys share one hash) and is about to take all locks when the section starts; the
        # section SHRINKS the table below the size that decision was taken for
        keys = {k: h for k in range(1, 2 * spb + 2)}
        for k in (90, 91, 92):
            keys[k] = r.getrandbits(64)
        hdr = ['# conc section sweep (pending expansion, shrinking section)', 'cfg %d %d 1 1 0' % (spb, lbits)] + ['key %d %d' % kv for kv in keys.items()]
        hdr.append('init 16'); hdr.append('pre mhp 7')
        for k in range(1, 2 * spb + 1):
            hdr.append('pre insert %d %d' % (k, 10 * k))
        # the section replaces the contents by three unrelated keys and shrinks the table
        t0 = 'lock ; l.clear ; l.insert 90 1 ; l.insert 91 2 ; l.insert 92 3 ; ' + r.choice(['l.rehash 1', 'l.rehash 0', 'l.rehash 2', 'l.reserve 3']) + ' ; unlock'
        t1 = r.choice(['insert %d 7', 'upsert %d add:1 1 7', 'ioa %d 7']) % (2 * spb + 1) + ' ; find 90 ; find 91 ; find 92'
        body = ['thread 0 ' + t0, 'thread 1 ' + t1]
        # thread 1 runs up to the point where it starts taking all locks for its expansion, then j further points
        return ['\n'.join(hdr + body + ['sched ' + ' '.join(map(str, [-101] + [1] * j + [-1, -2]))]) + '\n' for j in range(0, 24)]
    body = ['thread 0 ' + t0, 'thread 1 ' + t1]
    out = []
    for i in range(1, npre):
        out.append('\n'.join(hdr + body + ['sched ' + ' '.join(map(str, [1] * i + [-1, -2]))]) + '\n')
    for j in range(1, maxpoints):
        out.append('\n'.join(hdr + body + ['sched ' + ' '.join(map(str, [0] * j + [-2, -1, -2]))]) + '\n')
    return out

def gen_sweep2_layout(seed, spb, lbits, max1=34, max2=22):
    """Two-preemption sweeps over a constructed layout (check-then-act windows): key K has candidate buckets X
    and Y, both full, so thread 0's insert of K enters the displacement search with no lock held.  Thread 1
    erases a resident of X (the search then finds a free slot at depth 0); thread 2 inserts a NEW key whose first
    candidate bucket is X (it takes that slot).  Schedules: thread 0 runs j1 scheduling points, thread 1 runs to
    completion, thread 0 runs j2 more points, thread 2 runs to completion, thread 0 finishes - for all j1, j2.
    On every schedule the new key must be stored once and K must be stored once."""
    r = random.Random(seed)
    hp = r.choice([2, 3]) if spb <= 2 else 2
    nb = 1 << hp
    for _ in range(300):
        X, Y = r.sample(range(nb), 2)
        tagK = [t for t in range(256) if alt_index(hp, t, X) == Y]
        tagR = [t for t in range(256) if alt_index(hp, t, X) not in (X, Y)]
        tagS = [t for t in range(256) if alt_index(hp, t, Y) not in (X, Y)]
        if tagK and tagR and tagS:
            break
    else:
        return []
    keys = {}
    kid = 1
    resX, resY = [], []
    for _ in range(spb):
        keys[kid] = gen.hash_with_tag(r, r.choice(tagR), X, hp + 3); resX.append(kid); kid += 1
    for _ in range(spb):
        keys[kid] = gen.hash_with_tag(r, r.choice(tagS), Y, hp + 3); resY.append(kid); kid += 1
    K = kid; keys[K] = gen.hash_with_tag(r, r.choice(tagK), X, hp + 3); kid += 1
    N = kid; keys[N] = gen.hash_with_tag(r, r.choice(tagR), X, hp + 3)
    hdr = ['# conc two-preemption layout sweep X=%d Y=%d hp=%d' % (X, Y, hp), 'cfg %d %d 1 1 0' % (spb, lbits)] + ['key %d %d' % kv for kv in keys.items()]
    hdr.append('init %d' % (nb * spb))
    hdr.append('pre mhp %d' % (hp + 2))
    for k in resX + resY:
        hdr.append('pre insert %d %d' % (k, 10 * k))
    victim = r.choice(resX)
    t0 = r.choice(['insert %d 5' % K, 'upsert %d ctx:1:1 1 5' % K, 'ioa %d 5' % K])
    t1 = r.choice(['erase %d' % victim, 'erasefn %d eraseifeq:%d' % (victim, 10 * victim)])
    t2 = r.choice(['insert %d 7' % N, 'upsert %d add:1 1 7' % N, 'insert %d 7 ; find %d' % (N, N)])
    body = ['thread 0 ' + t0, 'thread 1 ' + t1, 'thread 2 ' + t2]
    scripts = []
    for j1 in range(1, max1):
        for j2 in range(1, max2):
            sched = [0] * j1 + [-2] + [0] * j2 + [-3, -1]
            scripts.append('\n'.join(hdr + body + ['sched ' + ' '.join(map(str, sched))]) + '\n')
    return scripts

if __name__ == '__main__':
    sys.stdout.write(gen_conc(int(sys.argv[1]), int(sys.argv[2]), int(sys.argv[3])))
