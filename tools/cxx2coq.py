#!/usr/bin/env python3
"""cxx2coq: translate the leaf integer functions and constants of libcuckoo's
cuckoohash_map (as instantiated by clang) into Gallina over N with explicit
fixed-width wrap-around.

Input : /repo (path argument), clang++ 14 JSON AST of an explicit instantiation
Output: coq/gen/HashGen.v  (definitions)  and coq/gen/MemOrders.v (memory orders at the
        atomic call sites of the functions the concurrent model relies on)

The translator is deliberately small and *refuses* anything it does not understand
(raises Untranslatable): a refused function is reported by the check as a broken tie.

Typing discipline: every expression node carries the C++ type clang assigned to it
(`desugaredQualType`).  Unsigned types of width w are represented by N values < 2^w and
every arithmetic node of such a type is wrapped with `wrap w`.  `int` nodes arise here
only from integer promotion of sub-word unsigned values; they are accepted only when a
conservative upper bound proves the value stays inside [0, 2^31) so that no signed
overflow / negative value can occur, otherwise the translator refuses.
"""
import json, subprocess, sys, os, re

class Untranslatable(Exception):
    pass

UNSIGNED = {
    'unsigned long': 64, 'const unsigned long': 64, 'unsigned long long': 64,
    'unsigned int': 32, 'const unsigned int': 32,
    'unsigned short': 16, 'const unsigned short': 16,
    'unsigned char': 8, 'const unsigned char': 8,
}
SIGNED = {'int': 32, 'const int': 32}

def ty(node):
    t = node.get('type', {})
    return t.get('desugaredQualType', t.get('qualType'))

def width(node):
    t = ty(node)
    if t in UNSIGNED:
        return ('u', UNSIGNED[t])
    if t in SIGNED:
        return ('s', SIGNED[t])
    raise Untranslatable('type %r at %s' % (t, node.get('kind')))

def parse_objs(text):
    dec = json.JSONDecoder()
    i = 0
    objs = []
    n = len(text)
    while i < n:
        while i < n and text[i].isspace():
            i += 1
        if i >= n:
            break
        o, j = dec.raw_decode(text, i)
        objs.append(o)
        i = j
    return objs

def clang_ast(repo, flt, defines=()):
    tu = '#include <libcuckoo/cuckoohash_map.hh>\ntemplate class libcuckoo::cuckoohash_map<int,int>;\n'
    cmd = ['clang++', '-std=gnu++17', '-I', repo, '-x', 'c++', '-fsyntax-only'] + \
          ['-D' + d for d in defines] + \
          ['-Xclang', '-ast-dump=json', '-Xclang', '-ast-dump-filter=' + flt, '-']
    r = subprocess.run(cmd, input=tu, capture_output=True, text=True)
    if r.returncode != 0:
        raise Untranslatable('clang failed: ' + r.stderr[:2000])
    return parse_objs(r.stdout)

class Ctx:
    def __init__(self, class_consts):
        self.class_consts = class_consts  # names of class-level constants
        self.used_consts = []

def pow2(n):
    return 1 << n

def expr(node, env, ctx):
    """returns (coq_term:str, bound:int) ; bound = inclusive upper bound of the value"""
    k = node['kind']
    inner = node.get('inner', [])
    if k in ('ParenExpr', 'ConstantExpr'):
        return expr(inner[0], env, ctx)
    if k == 'IntegerLiteral':
        v = int(node['value'])
        sg, w = width(node)
        if v < 0 or v >= pow2(w - (1 if sg == 's' else 0)):
            raise Untranslatable('literal out of range')
        return ('%d' % v, v)
    if k == 'DeclRefExpr':
        name = node['referencedDecl']['name']
        if name in env:
            return (name, env[name])
        if name in ctx.class_consts:
            if name not in ctx.used_consts:
                ctx.used_consts.append(name)
            sg, w = width(node)
            return (name, pow2(w) - 1)
        raise Untranslatable('reference to unknown %s' % name)
    if k in ('ImplicitCastExpr', 'CXXStaticCastExpr', 'CXXFunctionalCastExpr', 'CStyleCastExpr'):
        ck = node.get('castKind')
        if ck in ('LValueToRValue', 'NoOp'):
            t, b = expr(inner[0], env, ctx)
            # NoOp casts do not change representation; still clamp the bound to the type
            return (t, b)
        if ck == 'IntegralCast':
            t, b = expr(inner[0], env, ctx)
            sg, w = width(node)
            if sg == 'u':
                if b < pow2(w):
                    return (t, b)            # value-preserving
                return ('(wrap %d %s)' % (w, t), pow2(w) - 1)
            else:
                if b >= pow2(w - 1):
                    raise Untranslatable('cast to int may overflow')
                return (t, b)
        raise Untranslatable('cast kind %s' % ck)
    if k == 'BinaryOperator':
        op = node['opcode']
        sg, w = width(node)
        (a, ba) = expr(inner[0], env, ctx)
        (c, bc) = expr(inner[1], env, ctx)
        lim = pow2(w) if sg == 'u' else pow2(w - 1)
        def fin(term, bound):
            if bound < lim:
                return (term, bound)
            if sg == 's':
                raise Untranslatable('signed overflow possible in %s' % op)
            return ('(wrap %d %s)' % (w, term), lim - 1)
        if op == '+':
            return fin('(%s + %s)' % (a, c), ba + bc)
        if op == '*':
            return fin('(%s * %s)' % (a, c), ba * bc)
        if op == '-':
            if sg == 's':
                raise Untranslatable('signed subtraction')
            # a, c < 2^w ; result = (a + 2^w - c) mod 2^w
            return ('(wrap %d (%s + %d - %s))' % (w, a, pow2(w), c), lim - 1)
        if op == '^':
            return ('(N.lxor %s %s)' % (a, c), pow2(max(ba, bc).bit_length()) - 1)
        if op == '|':
            return ('(N.lor %s %s)' % (a, c), pow2(max(ba, bc).bit_length()) - 1)
        if op == '&':
            return ('(N.land %s %s)' % (a, c), min(ba, bc))
        if op == '>>':
            # shift count must be < width for defined behaviour; result type = left operand type
            sgl, wl = width(inner[0])
            if bc >= wl:
                # defined only for counts < wl: record the side condition
                env.setdefault('__side__', []).append('%s < %d' % (c, wl))
            return ('(N.shiftr %s %s)' % (a, c), ba)
        if op == '<<':
            sgl, wl = width(inner[0])
            if sgl == 's':
                raise Untranslatable('signed left shift')
            if bc >= wl:
                env.setdefault('__side__', []).append('%s < %d' % (c, wl))
            return ('(wrap %d (N.shiftl %s %s))' % (wl, a, c), pow2(wl) - 1)
        raise Untranslatable('binary operator %s' % op)
    if k == 'CallExpr':
        f = inner[0]
        while f['kind'] in ('ImplicitCastExpr', 'ParenExpr'):
            f = f['inner'][0]
        if f['kind'] != 'DeclRefExpr':
            raise Untranslatable('indirect call')
        fname = f['referencedDecl']['name']
        if fname not in env.get('__funcs__', {}):
            raise Untranslatable('call to untranslated %s' % fname)
        args = [expr(a, env, ctx)[0] for a in inner[1:]]
        extra = env['__funcs__'][fname]
        for c_ in extra:
            if c_ not in ctx.used_consts:
                ctx.used_consts.append(c_)
        sg, w = width(node)
        return ('(%s %s)' % (fname + ('_gen' if extra else ''), ' '.join(list(extra) + args)), pow2(w) - 1)
    raise Untranslatable('expression kind %s' % k)

def translate_function(m, funcs, class_consts):
    """m: CXXMethodDecl with body. returns (coq_def:str, extra_consts:list, sides:list)"""
    name = m['name']
    params = [p for p in m.get('inner', []) if p['kind'] == 'ParmVarDecl']
    body = [p for p in m.get('inner', []) if p['kind'] == 'CompoundStmt']
    if not body:
        raise Untranslatable('%s has no body' % name)
    env = {'__funcs__': funcs}
    for p in params:
        sg, w = width(p)
        if sg != 'u':
            raise Untranslatable('signed parameter')
        env[p['name']] = pow2(w) - 1
    ctx = Ctx(class_consts)
    lets = []
    ret = None
    for st in body[0].get('inner', []):
        if st['kind'] == 'DeclStmt':
            for vd in st['inner']:
                if vd['kind'] != 'VarDecl' or 'inner' not in vd:
                    raise Untranslatable('declaration form')
                t, b = expr(vd['inner'][0], env, ctx)
                sg, w = width(vd)
                if sg != 'u':
                    raise Untranslatable('signed local')
                if b >= pow2(w):
                    t, b = '(wrap %d %s)' % (w, t), pow2(w) - 1
                lets.append((vd['name'], t))
                env[vd['name']] = b
        elif st['kind'] == 'ReturnStmt':
            t, b = expr(st['inner'][0], env, ctx)
            ret = t
            break
        elif st['kind'] == 'NullStmt':
            continue
        else:
            raise Untranslatable('statement %s in %s' % (st['kind'], name))
    if ret is None:
        raise Untranslatable('no return in %s' % name)
    extra = list(ctx.used_consts)
    pn = ' '.join('(%s : N)' % c for c in extra + [p['name'] for p in params])
    s = 'Definition %s %s : N :=\n' % (name + ('_gen' if extra else ''), pn)
    for (n_, t) in lets:
        s += '  let %s := %s in\n' % (n_, t)
    s += '  %s.\n' % ret
    return s, extra, env.get('__side__', [])

FUNCS = ['hashsize', 'hashmask', 'partial_key', 'index_hash', 'alt_index', 'lock_ind']
CONSTS = ['kMaxNumLocks', 'MAX_BFS_PATH_LEN']
NSCONSTS = ['DEFAULT_SLOT_PER_BUCKET', 'DEFAULT_SIZE', 'NO_MAXIMUM_HASHPOWER']

def find_spec(objs):
    for o in objs:
        if o['kind'] == 'ClassTemplateSpecializationDecl' and o.get('name') == 'cuckoohash_map':
            return o
    raise Untranslatable('no specialization in AST')

KNOWN_CONSTS = {}
def eval_const(node):
    """evaluate a constant initialiser with python ints, fixed width"""
    k = node['kind']
    inner = node.get('inner', [])
    if k in ('ParenExpr', 'ConstantExpr', 'ExprWithCleanups'):
        return eval_const(inner[0])
    if k == 'IntegerLiteral':
        return int(node['value'])
    if k in ('ImplicitCastExpr', 'CXXStaticCastExpr', 'CXXFunctionalCastExpr'):
        v = eval_const(inner[0])
        if node.get('castKind') == 'IntegralCast':
            sg, w = width(node)
            if sg == 'u':
                return v % pow2(w)
            if v >= pow2(w - 1):
                raise Untranslatable('const cast overflow')
        return v
    if k == 'BinaryOperator':
        a, b = eval_const(inner[0]), eval_const(inner[1])
        sg, w = width(node)
        op = node['opcode']
        r = {'+': a + b, '-': a - b, '*': a * b, '<<': a << b, '>>': a >> b,
             '&': a & b, '|': a | b, '^': a ^ b}.get(op)
        if r is None:
            raise Untranslatable('const op ' + op)
        if sg == 'u':
            return r % pow2(w)
        if not (-pow2(w - 1) <= r < pow2(w - 1)):
            raise Untranslatable('const signed overflow')
        return r
    if k == 'DeclRefExpr':
        nm = node['referencedDecl']['name']
        if nm in KNOWN_CONSTS:
            return KNOWN_CONSTS[nm]
        raise Untranslatable('const refers to ' + nm)
    if k == 'CallExpr':
        # std::numeric_limits<size_t>::max()
        f = inner[0]
        while f['kind'] in ('ImplicitCastExpr', 'ParenExpr'):
            f = f['inner'][0]
        if f.get('referencedDecl', {}).get('name') == 'max' and ty(node) in UNSIGNED:
            return pow2(UNSIGNED[ty(node)]) - 1
        raise Untranslatable('const call')
    raise Untranslatable('const kind ' + k)

# ---------------------------------------------------------------- memory orders
ATOMIC_SITES = [
    # (enclosing function name, atomic member function)
    ('lock', 'test_and_set'), ('unlock', 'clear'), ('try_lock', 'test_and_set'),
    ('load_resize_counter', 'load'),
    ('hashpower', 'load'), ('hashpower', 'store'),
    ('num_remaining_lazy_rehash_locks', 'load'), ('num_remaining_lazy_rehash_locks', 'store'),
    ('decrement_num_remaining_lazy_rehash_locks', 'fetch_sub'),
    ('cuckoo_fast_double', 'fetch_add'), ('cuckoo_expand_simple', 'fetch_add'),
]

def collect_orders(node, out, fn=None):
    if not isinstance(node, dict):
        return
    k = node.get('kind')
    if k in ('CXXMethodDecl', 'FunctionDecl', 'CXXConstructorDecl') and 'name' in node:
        fn = node['name']
    if k == 'CXXMemberCallExpr':
        callee = node['inner'][0]
        mname = callee.get('name') or callee.get('referencedMemberDecl')
        if callee.get('kind') == 'MemberExpr':
            mname = callee.get('name')
        orders = []
        def enum_refs(n):
            if isinstance(n, dict):
                rd = n.get('referencedDecl')
                if n.get('kind') == 'DeclRefExpr' and rd and rd.get('kind') == 'EnumConstantDecl' \
                        and rd.get('name', '').startswith('memory_order'):
                    orders.append(rd['name'])
                for c in n.get('inner', []):
                    enum_refs(c)
        for a in node['inner'][1:]:
            enum_refs(a)
        if orders:
            out.append((fn, mname, tuple(orders)))
    for c in node.get('inner', []):
        collect_orders(c, out, fn)

# ---- order of failure-relevant effects of the resize paths (gen/EffectOrder.v)
PATTERNS = [   # (effect constructor, regex) - first match at a position wins; order of the list = priority
    ('LockAll',        r'\block_all\s*\('),
    ('Validate',       r'\bcheck_resize_validity\s*<'),
    ('MigrateAll',     r'\brehash_lock\s*<\s*kIsNotLazy\s*>|(?<![\w.])rehash_with_workers\s*\(\s*\)'),
    ('AllocBuckets',   r'\bbuckets_t\s+\w+\s*\('),
    ('AllocTempMap',   r'\bcuckoohash_map\s+\w+\s*\('),
    ('FillTempMap',    r'\bparallel_exec\s*\('),
    ('FinishTempMap',  r'\bnew_map\s*\.\s*rehash_with_workers\s*\('),
    ('ReadBuckets',    r'\bis\s*>>\s*\w+'),
    ('ReadScalar',     r'\bis\s*\.\s*read\s*\('),
    ('SetLimits',      r'\blt\s*\.\s*(?:minimum_load_factor|maximum_hashpower)\s*\('),
    ('GrowLocks',      r'\bmaybe_resize_locks\s*\('),
    ('SwapBuckets',    r'\bold_buckets_\s*\.\s*swap\s*\(|\bbuckets_\s*\.\s*swap\s*\(|\bbuckets\(\)\s*\.\s*swap\s*\(|\bswap\s*\(\s*lt\.buckets'),
    ('AssignBuckets',  r'\bbuckets_\s*=\s*std::move'),
    ('SetPending',     r'\bnum_remaining_lazy_rehash_locks\s*\(\s*\w'),
    ('Bump',           r'\bresize_counter_\s*\.\s*fetch_add|\bbump_resize_counter\s*\('),
]

def find_fn(node, name, out):
    if isinstance(node, dict):
        if node.get('name') == name and node.get('kind') in ('FunctionTemplateDecl', 'CXXMethodDecl', 'FunctionDecl'):
            out.append(node)
        for c in node.get('inner', []):
            find_fn(c, name, out)

def fn_body(n):
    if n.get('kind') == 'CompoundStmt': return n
    for c in n.get('inner', []):
        b = fn_body(c)
        if b: return b

def strip_comments(text):
    # keep offsets: replace comment characters by spaces
    def blank(m): return re.sub(r'[^\n]', ' ', m.group(0))
    text = re.sub(r'//[^\n]*', blank, text)
    return re.sub(r'/\*.*?\*/', blank, text, flags=re.S)

def effects_of(objs, src, fname):
    for o in objs:
        out = []
        find_fn(o, fname, out)
        for x in out:
            b = fn_body(x)
            if b and b['range']['begin'].get('offset') is not None:
                lo, hi = b['range']['begin']['offset'], b['range']['end']['offset']
                text = strip_comments(src[lo:hi + 1])
                hits = []
                for (eff, rx) in PATTERNS:
                    for m in re.finditer(rx, text):
                        hits.append((m.start(), eff))
                hits.sort()
                seq, last = [], -1
                for pos, eff in hits:
                    if pos == last: continue
                    seq.append(eff); last = pos
                return seq
    raise Untranslatable('function body of %s not found' % fname)


def main():
    repo = sys.argv[1]
    outdir = sys.argv[2]
    defines = sys.argv[3:]
    os.makedirs(outdir, exist_ok=True)
    objs = clang_ast(repo, 'cuckoohash_map', defines)
    spec = find_spec(objs)
    members = spec['inner']
    out = ['(* GENERATED by tools/cxx2coq.py from %s/libcuckoo/cuckoohash_map.hh -- do not edit *)' % repo,
           'From Coq Require Import NArith.', 'Local Open Scope N_scope.',
           'Definition wrap (w x : N) : N := x mod 2 ^ w.', '']
    consts = {}
    for m in members:
        if m.get('kind') == 'VarDecl' and m.get('name') in CONSTS and 'inner' in m:
            consts[m['name']] = eval_const(m['inner'][0])
    for c in CONSTS:
        if c not in consts:
            raise Untranslatable('constant %s not found' % c)
        out.append('Definition %s : N := %d.' % (c, consts[c]))
    # slot_per_bucket of this instantiation (informational)
    out.append('')
    funcs = {}
    sides_all = {}
    byname = {}
    for m in members:
        if m.get('kind') == 'CXXMethodDecl' and m.get('name') in FUNCS and any(
                c.get('kind') == 'CompoundStmt' for c in m.get('inner', [])):
            byname[m['name']] = m
    for f in FUNCS:
        if f not in byname:
            raise Untranslatable('function %s not found' % f)
        s, extra, sides = translate_function(byname[f], funcs, set(CONSTS))
        funcs[f] = tuple(extra)
        sides_all[f] = sides
        out.append('(* defined-behaviour side conditions: %s *)' % (', '.join(sides) or 'none'))
        out.append(s)
        if extra:
            ps = [p['name'] for p in byname[f]['inner'] if p['kind'] == 'ParmVarDecl']
            out.append('Definition %s %s : N := %s_gen %s %s.\n' % (
                f, ' '.join('(%s : N)' % p for p in ps), f, ' '.join(extra), ' '.join(ps)))
    # parameter signature record: arity of each function (a changed signature changes this)
    for f in FUNCS:
        ps = [p['name'] for p in byname[f]['inner'] if p['kind'] == 'ParmVarDecl']
        out.append('Definition %s_arity : nat := %d.' % (f, len(ps)))
    # namespace-level constants
    for c in NSCONSTS:
        o2 = clang_ast(repo, 'libcuckoo::' + c, defines)
        val = None
        for o in o2:
            if o.get('kind') == 'VarDecl' and o.get('name') == c and 'inner' in o:
                val = eval_const(o['inner'][0])
        if val is None:
            raise Untranslatable('namespace constant %s' % c)
        KNOWN_CONSTS[c] = val
        out.append('Definition %s : N := %d.' % (c, val))
    open(os.path.join(outdir, 'HashGen.v'), 'w').write('\n'.join(out) + '\n')

    # memory orders
    sites = []
    collect_orders(spec, sites)
    o3 = clang_ast(repo, 'bucket_container', defines)
    for o in o3:
        if o.get('kind') == 'ClassTemplateSpecializationDecl':
            collect_orders(o, sites)
    sites = sorted(set(sites))
    mo = ['(* GENERATED by tools/cxx2coq.py: std::memory_order arguments at atomic call sites *)',
          'From Coq Require Import List String.', 'Import ListNotations.', 'Local Open Scope string_scope.',
          'Inductive morder := Relaxed | Consume | Acquire | Release | AcqRel | SeqCst.',
          'Definition sites : list (string * string * list morder) := [']
    conv = {'memory_order_relaxed': 'Relaxed', 'memory_order_consume': 'Consume',
            'memory_order_acquire': 'Acquire', 'memory_order_release': 'Release',
            'memory_order_acq_rel': 'AcqRel', 'memory_order_seq_cst': 'SeqCst'}
    rows = []
    for (fn, mname, orders) in sites:
        rows.append('  ("%s", "%s", [%s])' % (fn, mname, '; '.join(conv[o] for o in orders)))
    mo.append(';\n'.join(rows))
    mo.append('].')
    open(os.path.join(outdir, 'MemOrders.v'), 'w').write('\n'.join(mo) + '\n')
    # order of effects of the resize paths
    src = open(os.path.join(repo, 'libcuckoo', 'cuckoohash_map.hh')).read()
    eo = ['(* GENERATED by tools/cxx2coq.py: failure-relevant effects of the resize paths, in source order (function-body',
          '   ranges from clang\'s AST, effects recognised by name) *)',
          'From Coq Require Import List.', 'Import ListNotations.',
          'Inductive effect := ' + ' | '.join(e for (e, _) in PATTERNS) + '.']
    for (cname, fname) in (('fast_double_effects', 'cuckoo_fast_double'), ('expand_simple_effects', 'cuckoo_expand_simple'), ('stream_in_effects', 'operator>>')):
        seq = effects_of(objs, src, fname)
        if not seq:
            raise Untranslatable('no effects recognised in ' + fname)
        eo.append('Definition %s : list effect := [%s].' % (cname, '; '.join(seq)))
    open(os.path.join(outdir, 'EffectOrder.v'), 'w').write('\n'.join(eo) + '\n')
    print('translated %d functions, %d constants, %d atomic sites, 3 effect orders' % (len(FUNCS), len(CONSTS) + len(NSCONSTS), len(sites)))

if __name__ == '__main__':
    try:
        main()
    except Untranslatable as e:
        print('UNTRANSLATABLE: %s' % e)
        sys.exit(3)
