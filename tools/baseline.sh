#!/bin/bash
# Runs the repository's own test suite (guard OFF) on a scratch copy of /repo's HEAD or working tree.
# usage: baseline.sh [worktree|tree]   (default: tree = current working tree files)
set -e
SRC=${VERIF_REPO:-/repo}
D=$(mktemp -d /tmp/lc_baseline.XXXXXX)
trap 'rm -rf "$D"' EXIT
mkdir -p "$D/src"
(cd "$SRC" && git ls-files -z | xargs -0 -I{} cp --parents {} "$D/src/")
cd "$D"
cmake -G Ninja -S src -B b -DCMAKE_BUILD_TYPE=RelWithDebInfo -DCMAKE_CXX_FLAGS=-Wno-error -DBUILD_TESTS=ON -DBUILD_STRESS_TESTS=ON -DBUILD_UNIT_TESTS=ON > cfg.log 2>&1 || { tail -20 cfg.log; exit 1; }
cmake --build b > build.log 2>&1 || { tail -40 build.log; exit 1; }
ctest --test-dir b -j8 --timeout 900 2>&1 | tail -20
