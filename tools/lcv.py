#!/usr/bin/env python3
"""lcv: the check driver (./check <ID> ...).  Pipeline per DESIGN section 5:
   1 regenerate coq/gen from /repo (translator) and rebuild harness binaries from /repo's tree
   2 make Properties_<ID>.vo (full .vo); scan for forbidden constructs; collect Print Assumptions
   3 run the correspondence tier(s) serving the property (+ the extracted acceptor as judge)
   4 verdict (VIOLATION / KNOWN-FINDING / pass), 5 evidence file."""
import os, sys, subprocess, json, time, re, shutil, hashlib, random, glob, concurrent.futures

V = os.path.dirname(os.path.dirname(os.path.abspath(__file__)))
sys.path.insert(0, os.path.join(V, 'tools'))
import t1, gen, t2, gen_conc

REPO = os.environ.get('VERIF_REPO', '/repo')
BUILD = os.path.join(V, 'build')
COQ = os.path.join(V, 'coq')
REPLAYS = os.path.join(BUILD, 'replays')

FORBIDDEN = r'\b(Admitted|admit|Axiom|Axioms|Parameter|Parameters|Conjecture|Hypothesis|Hypotheses|Variable)\b|Unset Guard|bypass_check|type-in-type|impredicative-set|Admit Obligations'

ALLOWED_AXIOMS = set()   # none needed so far; any axiom reported by Print Assumptions is listed in the evidence

def log(*a):
    print(*a, flush=True)

# ----------------------------------------------------------------------------- known findings
def load_findings():
    path = os.path.join(V, 'known_findings.txt')
    res = []
    if os.path.exists(path):
        for line in open(path):
            line = line.strip()
            if not line or line.startswith('#'):
                continue
            m = re.match(r'finding: property=(\S+) sig=(\S+) (.*)', line)
            if m:
                res.append(dict(prop=m.group(1), sig=m.group(2), text=m.group(3)))
    return res

# ----------------------------------------------------------------------------- step 1/2: coq
def regen():
    r = subprocess.run([sys.executable, os.path.join(V, 'tools', 'cxx2coq.py'), REPO, os.path.join(BUILD, 'gen_new')],
                       capture_output=True, text=True)
    ok = (r.returncode == 0)
    changed = False
    if ok:
        for f in ('HashGen.v', 'MemOrders.v', 'EffectOrder.v'):
            new = open(os.path.join(BUILD, 'gen_new', f)).read()
            dst = os.path.join(COQ, 'gen', f)
            old = open(dst).read() if os.path.exists(dst) else None
            if new != old:
                os.makedirs(os.path.dirname(dst), exist_ok=True)
                open(dst, 'w').write(new)
                changed = True
    return ok, changed, (r.stdout + r.stderr).strip()

def scan_forbidden():
    hits = []
    proj = [l.strip() for l in open(os.path.join(COQ, '_CoqProject')) if l.strip().endswith('.v')]
    for f in [os.path.join(COQ, x) for x in proj] + [os.path.join(COQ, 'Extract.v'), os.path.join(COQ, 'ExtractMem.v')]:
        txt = open(f).read()
        # strip comments
        txt2 = re.sub(r'\(\*.*?\*\)', lambda m: ' ' * len(m.group(0)), txt, flags=re.S)
        in_section = 0
        for i, line in enumerate(txt2.split('\n')):
            if re.match(r'\s*Section\b', line): in_section += 1
            if re.match(r'\s*End\b', line) and in_section > 0: in_section -= 1
            for m in re.finditer(FORBIDDEN, line):
                w = m.group(0)
                if w in ('Variable', 'Hypothesis', 'Hypotheses') and in_section > 0:
                    continue   # section-local: universally quantified after End
                hits.append('%s:%d: %s' % (os.path.basename(f), i + 1, w))
    return hits

def coq_build(target):
    """make -k <target>.vo ; returns (ok, log, theorems, assumptions)"""
    if not os.path.exists(os.path.join(COQ, 'Makefile')):
        subprocess.run(['coq_makefile', '-f', '_CoqProject', '-o', 'Makefile'], cwd=COQ, capture_output=True)
    vo = target + '.vo'
    # force the property file itself to be re-checked so that Print Assumptions output is captured
    try:
        os.unlink(os.path.join(COQ, vo))
    except FileNotFoundError:
        pass
    r = subprocess.run(['timeout', '3000', 'make', '-k', '-j16', vo], cwd=COQ, capture_output=True, text=True)
    out = r.stdout + r.stderr
    ok = (r.returncode == 0) and os.path.exists(os.path.join(COQ, vo))
    src = open(os.path.join(COQ, target + '.v')).read()
    src_nc = re.sub(r'\(\*.*?\*\)', '', src, flags=re.S)
    theorems = re.findall(r'^\s*(?:Theorem|Example)\s+(\w+)', src_nc, flags=re.M)
    closed = out.count('Closed under the global context')
    axioms = re.findall(r'Axioms:\n((?:.+\n)+?)(?=\S)', out)
    return ok, out, theorems, closed, axioms

def build_model():
    r = subprocess.run([os.path.join(V, 'tools', 'build_model.sh')], capture_output=True, text=True)
    return r.returncode == 0, (r.stdout + r.stderr)[-3000:]

# ----------------------------------------------------------------------------- evidence
def write_evidence(pid, tier, seed, cov, wall, violations, assumptions, level='proof'):
    os.makedirs(os.path.join(V, 'evidence'), exist_ok=True)
    ev = dict(property_id=pid, tier=tier, seed=seed, level=level, coverage=cov, assumptions=assumptions,
              wall_s=round(wall, 2), violations=violations)
    with open(os.path.join(V, 'evidence', pid + '.json'), 'w') as f:
        json.dump(ev, f, indent=1)

TRUSTED_BASE = [
    'Coq 8.16.1 kernel (coqc); vm_compute used in finite sweeps and Examples; no native_compute',
    'axioms reported by Print Assumptions for the property theorems: see "print_assumptions" (expected: none)',
    'translator tools/cxx2coq.py + clang 14 AST dump (gen/HashGen.v, gen/MemOrders.v regenerated from /repo on every run)',
    'extraction: ExtrOcamlBasic only (bool, option, unit, list, prod, sumbool, sumor to OCaml natives; andb/orb/negb inlined); N, Z, positive, nat stay Coq datatypes; OCaml 4.13.1; ocaml/driver.ml (parser/printers)',
    'hand-written model coq/Core.v, coq/Api.v (L1) tied to the code by slot-exact differential runs (harness/seq.cc), not verified against the C++',
]

def save_replay(pid, script_text, note):
    os.makedirs(REPLAYS, exist_ok=True)
    h = hashlib.sha1((script_text + note).encode()).hexdigest()[:12]
    path = os.path.join(REPLAYS, '%s_%s.txt' % (pid, h))
    with open(path, 'w') as f:
        f.write(script_text)
        f.write('\n# ---- ' + note.replace('\n', '\n# ') + '\n')
    return path

# ----------------------------------------------------------------------------- T0 leaf differential (C13)
def leaf_inputs(rng, n_random):
    vals = [0, 1, 2, 3, (1 << 64) - 1, (1 << 63), (1 << 63) - 1, (1 << 32), (1 << 32) - 1, 0xdeadbeefcafef00d]
    for k in range(64):
        vals += [1 << k, (1 << k) - 1, (1 << k) + 1, ((1 << 64) - 1) ^ (1 << k)]
    vals = sorted(set(v & ((1 << 64) - 1) for v in vals))
    for _ in range(n_random):
        vals.append(rng.getrandbits(64))
    lines = []
    for h in vals:
        lines.append('partial_key %d' % h)
    for hp in range(0, 63):
        lines.append('hashsize %d' % hp)
        lines.append('hashmask %d' % hp)
        for h in rng.sample(vals, 12) + [0, (1 << 64) - 1]:
            lines.append('index_hash %d %d' % (hp, h))
        for tag in (0, 1, 127, 128, 254, 255, rng.randrange(256), rng.randrange(256)):
            for i in [0, (1 << hp) - 1, rng.getrandbits(64) & ((1 << hp) - 1), rng.getrandbits(64) & ((1 << hp) - 1)]:
                lines.append('alt_index %d %d %d' % (hp, tag, i))
    for tag in range(256):
        lines.append('alt_index 20 %d %d' % (tag, rng.getrandbits(20)))
    for b in rng.sample(vals, 40):
        lines.append('lock_ind %d' % b)
    return lines

def run_leaf(binary, lines, model):
    inp = '\n'.join(lines) + '\n'
    cmd = [os.path.join(BUILD, 'ml', 'model_driver'), '--leaf'] if model else [binary, '--leaf']
    r = subprocess.run(cmd, input=inp, capture_output=True, text=True, timeout=300)
    return r.returncode, r.stdout.split('\n')[:-1]

def c13_predicates(binary, rng, n):
    """search the COMPILED functions for a concrete violation of the C13 statement: every hashpower 0..61 x
    every one of the 256 tags (hashes constructed to carry that tag) x boundary / random low bits"""
    def call(lines):
        rc, out = run_leaf(binary, lines, model=False)
        return [int(x) for x in out]
    fails = []
    cases = []
    reps = max(1, n // (62 * 256))
    for hp in range(0, 62):
        for tag in range(256):
            for j in range(reps):
                low = rng.choice([0, (1 << hp) - 1, rng.getrandbits(64)]) if j else rng.getrandbits(64)
                lb = min(hp + 1, 48)
                cases.append((hp, gen.hash_with_tag(rng, tag, low, lb)))
        cases.append((hp, (1 << 64) - 1)); cases.append((hp, 1 << hp)); cases.append((hp, (1 << hp) - 1)); cases.append((hp, 0))
    q = []
    for (hp, h) in cases:
        q += ['partial_key %d' % h, 'index_hash %d %d' % (hp, h), 'index_hash %d %d' % (hp + 1, h)]
    r1 = call(q)
    q2 = []
    for j, (hp, h) in enumerate(cases):
        t, i1, j1 = r1[3 * j], r1[3 * j + 1], r1[3 * j + 2]
        q2 += ['alt_index %d %d %d' % (hp, t, i1), 'alt_index %d %d %d' % (hp + 1, t, j1), 'lock_ind %d' % i1,
               'lock_ind %d' % ((i1 + (1 << hp)) & ((1 << 64) - 1)), 'partial_key %d' % h]
    r2 = call(q2)
    q3 = []
    for j, (hp, h) in enumerate(cases):
        t = r1[3 * j]
        i2 = r2[5 * j]
        q3.append('alt_index %d %d %d' % (hp, t, i2))
    r3 = call(q3)
    kmax_probe = call(['lock_ind %d' % ((1 << 64) - 1)])[0] + 1
    for j, (hp, h) in enumerate(cases):
        t, i1, j1 = r1[3 * j], r1[3 * j + 1], r1[3 * j + 2]
        i2, j2, l1, l1b = r2[5 * j], r2[5 * j + 1], r2[5 * j + 2], r2[5 * j + 3]
        back = r3[j]
        size = 1 << hp
        why = None
        if not (i1 < size and i2 < size): why = 'candidate bucket out of range'
        elif back != i1: why = 'alternate of the alternate is not the original bucket'
        elif t >= 256: why = 'partial tag out of range'
        elif j1 not in (i1, i1 + size): why = 'first candidate neither kept nor moved up by the old bucket count on doubling'
        elif j2 not in (i2, i2 + size): why = 'second candidate neither kept nor moved up by the old bucket count on doubling'
        elif kmax_probe <= size and l1 != l1b: why = 'bucket and its doubled image fall under different lock stripes'
        if why:
            fails.append(dict(hp=hp, hash=h, tag=t, i1=i1, i2=i2, alt_alt=back, j1=j1, j2=j2, why=why))
            if len(fails) >= 3:
                break
    if kmax_probe & (kmax_probe - 1):
        fails.append(dict(why='stripe count is not a power of two', kMaxNumLocks=kmax_probe))
    return fails, len(cases)

def check_C13(tier, seed):
    t0 = time.time()
    pid = 'C13'
    rng = random.Random(seed)
    notes = []
    broken = []          # names of broken obligations / correspondences
    ok_gen, changed, msg = regen()
    notes.append('translator: ' + msg)
    if not ok_gen:
        broken.append('translator refused /repo (tie T0): ' + msg)
    okc, out, theorems, closed, axioms = coq_build('Properties_C13') if ok_gen else (False, '', [], 0, [])
    if ok_gen and not okc:
        err = [l for l in out.split('\n') if 'Error' in l or 'File "' in l][:6]
        broken.append('proof obligation: coq/Properties_C13.v (or coq/Bits.v) no longer checks: ' + ' | '.join(err))
    forb = scan_forbidden()
    if forb:
        broken.append('forbidden construct in the development: ' + ', '.join(forb[:5]))
    okm, mlog = build_model() if ok_gen else (False, 'skipped')
    # harness with the REAL stripe count (no override) for the leaf functions
    cfg = t1.mkcfg(4, 16, 0)
    bins = t1.build_harness([cfg])
    binary = bins[t1.cfg_name(cfg)]
    nrand = 300 if tier == 'quick' else 5000
    lines = leaf_inputs(rng, nrand)
    disagreements = []
    evals = 0
    if okm:
        rc1, o1 = run_leaf(binary, lines, model=False)
        rc2, o2 = run_leaf(binary, lines, model=True)
        evals = len(lines)
        for l, a, b in zip(lines, o1, o2):
            if a != b:
                disagreements.append(dict(input=l, compiled=a, generated=b))
        if rc1 != 0 or rc2 != 0 or len(o1) != len(lines) or len(o2) != len(lines):
            broken.append('leaf differential run failed (rc %s/%s)' % (rc1, rc2))
        if disagreements:
            broken.append('correspondence T0: generated definitions disagree with compiled functions on %d inputs, e.g. %s'
                          % (len(disagreements), disagreements[0]))
    else:
        if ok_gen:
            broken.append('model build failed: ' + mlog[-400:])
    violations = 0
    samples = [dict(input=l, value=v) for l, v in list(zip(lines, o1 if okm else []))[:3]] + \
              [dict(input=l, value=v) for l, v in list(zip(lines, o1 if okm else []))[-3:]]
    if broken:
        fails, n = c13_predicates(binary, rng, 16000 if tier == 'quick' else 160000)
        evals += n
        note = '\n'.join(broken)
        if fails:
            path = save_replay(pid, json.dumps(fails, indent=1), 'C13 predicate fails on the compiled functions; ' + note)
            log('VIOLATION property=%s replay=%s' % (pid, path))
        else:
            path = save_replay(pid, '# no concrete failing input found\n', note)
            log('VIOLATION property=%s replay=%s no-failing-input-found' % (pid, path))
        violations = 1
    # "so deferred per-stripe migration never strands or misroutes a key": the arithmetic is only sound for deferral when
    # the old bucket count is a multiple of the stripe count - whether the code defers exactly then is checked by
    # resize scripts (shrink below the stripe count, then grow again) against the model and the acceptor
    mig_res = []
    if okm and not violations:
        mcfgs = [t1.mkcfg(2, 1, 0), t1.mkcfg(4, 2, 0), t1.mkcfg(1, 2, 0)]
        mig_res, _, _ = t1_run(pid, tier, seed + 5, mcfgs, 60 if tier == 'quick' else 1500, ['resize', 'stream', 'grow', 'resize'])
        bad = [r for r in mig_res if blame_kinds(r) & {'C02', 'C05', 'CRASH'}]
        if bad:
            r = bad[0]
            txt = open(r['path']).read() if os.path.exists(r['path']) else ''
            path = save_replay(pid, txt, 'a key is stranded or misrouted by migration after a doubling: blames=%s status=%s detail=%s' % (r.get('blames', [])[:4], r['status'], json.dumps(r.get('detail'))[:500]))
            log('VIOLATION property=%s replay=%s' % (pid, path)); violations = 1
        elif [r for r in mig_res if r['status'] in ('mismatch', 'model_error', 'judge_error')]:
            r = [r for r in mig_res if r['status'] in ('mismatch', 'model_error', 'judge_error')][0]
            txt = open(r['path']).read() if os.path.exists(r['path']) else ''
            path = save_replay(pid, txt, 'correspondence T1 on resize scripts broke: ' + json.dumps(r.get('detail'))[:600])
            log('VIOLATION property=%s replay=%s no-failing-input-found' % (pid, path)); violations = 1
    ntheorems = len([t for t in theorems if t.startswith('C13_')])
    cov = dict(obligations=max(ntheorems, 1), discharged=(ntheorems if okc else 0), migration_scripts=len(mig_res),
               checker_cmd='make -C coq Properties_C13.vo (coqc 8.16.1, full .vo)',
               trusted_base=TRUSTED_BASE,
               print_assumptions=dict(closed_under_global_context=closed, axioms=axioms),
               theorems=theorems,
               evaluations=evals, distinct_nontrivial=len(set(lines)),
               rule='leaf differential: every generated definition (partial_key, index_hash, alt_index, lock_ind, hashsize, hashmask) evaluated on boundary values (0, 2^k, 2^k+-1, all-ones, single-bit complements) x hashpowers 0..62 x tags incl. all 256 at hp 20 plus seeded random 64-bit values; distinct = distinct input lines; all are non-trivial in the sense that each exercises one translated function on one argument tuple',
               samples=samples, traces_validated_against_impl=evals - len(disagreements),
               translator_notes=notes, gen_changed=changed)
    write_evidence(pid, tier, seed, cov, time.time() - t0, violations, TRUSTED_BASE)
    return 1 if violations else 0

# ----------------------------------------------------------------------------- T1-based properties
T1_PROPS = {
    # pid: (coq target, blamed clauses, generator profiles, description)
    'C02': dict(target='Properties_C02', clauses=['C02', 'HARNESS', 'CRASH', 'C17'], profiles=['grow', 'churn', 'mixed', 'resize', 'locked', 'workers', 'workers_rebuild']),
    'C05': dict(target='Properties_C05', clauses=['C05'], profiles=['churn', 'resize', 'stream', 'mixed', 'locked', 'special', 'grow', 'stream', 'workers_rebuild']),
    'C09': dict(target='Properties_C09', clauses=['C09'], profiles=['locked', 'locked', 'mixed', 'workers', 'workers_rebuild', 'special']),
    'C10': dict(target='Properties_C10', clauses=['C10'], profiles=['resize', 'resize', 'mixed', 'grow', 'workers_rebuild', 'special']),
    'C17': dict(target='Properties_C17', clauses=['C17'], profiles=['churn', 'grow', 'mixed']),
    'C08': dict(target='Properties_C08', clauses=['HARNESS', 'CRASH', 'LEAK'], profiles=['churn', 'grow', 'resize', 'special', 'locked'], kinds=[1]),
    'C11': dict(target='Properties_C11', clauses=['C11', 'C02', 'C05', 'HARNESS', 'CRASH', 'LEAK'], profiles=['special']),
    'C12': dict(target='Properties_C12', clauses=['C12', 'C02', 'C05', 'C09', 'CRASH'], profiles=['stream'], kinds=[0]),
    'C16': dict(target='Properties_C16', clauses=['C16', 'HARNESS', 'CRASH', 'CONSUMED'], profiles=['grow', 'churn', 'mixed', 'locked'], kinds=[1]),
}

def blame_kinds(res):
    kinds = set()
    for b in res.get('blames', []):
        kinds.add(b.split()[2])
    if res['status'] in ('impl_crash',):
        kinds.add('CRASH')
    if res['status'] == 'harness_error':
        kinds.add('HARNESS')
    if res['status'] == 'life':
        kinds.add('LEAK')
    if res['status'] == 'mismatch':
        d = res.get('detail', {})
        if str(d.get('impl', '')).startswith('END ') or str(d.get('model', '')).startswith('END '):
            kinds.add('LEAK')        # allocation / object balance at the end differs from the model's (nothing live)
        # a rehash / reserve after which the implementation's array holds a different set of pairs than the model's
        # (whose rehash provably keeps the contents): "after rehash(n) or reserve(n) returns the contents are unchanged"
        opw = str(d.get('op', '')).split()
        if len(opw) >= 3 and opw[2].replace('l.', '') in ('rehash', 'reserve') and str(d.get('impl', '')).startswith(' C') and str(d.get('model', '')).startswith(' C'):
            prs = lambda x: sorted(re.findall(r':(\d+=-?\d+)/', x))
            if prs(d['impl']) != prs(d['model']):
                kinds.add('C10'); kinds.add('C02')
        # the state of a table right after a copy / move / swap / assignment differs from the model's, whose special
        # members provably transfer the complete state (Special.v): contents, counters, pending migration, limits
        if len(opw) >= 3 and opw[2] in ('swap', 'copyto', 'moveto', 'assignto', 'massignto', 'copyallocto', 'moveallocto'):
            kinds.add('C11')
        if 'consumed=' in str(d.get('impl', '')) + str(d.get('model', '')):
            kinds.add('CONSUMED')    # the caller's arguments were (not) moved from against the model
    return kinds

def finding_sig(res):
    """a specific signature for a violating case, used only to match known_findings.txt"""
    if res['status'] == 'harness_error':
        d = ' '.join(res.get('detail', []))
        if 'moved-from' in d:
            return 'use-of-moved-from-after-failed-rebuild'
    return None

def t1_run(pid, tier, seed, cfgs, ncases, profiles, extra_scripts=()):
    rng = random.Random(seed)
    bins = t1.build_harness(cfgs)
    cases = []
    # corpus first
    for f in sorted(glob.glob(os.path.join(V, 'corpus', '*.txt'))):
        txt = open(f).read()
        m = re.search(r'^cfg (\d+) (\d+) (\d+) (\d+) (\d+)', txt, flags=re.M)
        if not m: continue
        spb, lb, simple, nothrow, destr = map(int, m.groups())
        c = t1.mkcfg(spb, lb, 0 if simple else 1, nothrow)
        if t1.cfg_name(c) in bins:
            cases.append((bins[t1.cfg_name(c)], txt, t1.cfg_name(c)))
    ncorpus = len(cases)
    for i in range(ncases):
        c = cfgs[i % len(cfgs)]
        s = gen.gen_script(rng.getrandbits(48), c, profile=profiles[i % len(profiles)])
        cases.append((bins[t1.cfg_name(c)], s, t1.cfg_name(c)))
    for (c, s) in extra_scripts:
        cases.append((bins[t1.cfg_name(c)], s, t1.cfg_name(c)))
    res = t1.run_cases(cases, os.path.join(BUILD, 'cases_' + pid))
    return res, ncorpus, cases

def check_T1(pid, tier, seed):
    t0 = time.time()
    spec = T1_PROPS[pid]
    broken = []
    ok_gen, changed, msg = regen()
    if not ok_gen:
        broken.append('translator refused /repo (tie T0): ' + msg)
    okc, out, theorems, closed, axioms = coq_build(spec['target']) if ok_gen else (False, '', [], 0, [])
    if ok_gen and not okc:
        err = [l for l in out.split('\n') if 'Error' in l or 'File "' in l][:6]
        broken.append('proof obligation: coq/%s.v no longer checks: %s' % (spec['target'], ' | '.join(err)))
    forb = scan_forbidden()
    if forb:
        broken.append('forbidden construct in the development: ' + ', '.join(forb[:5]))
    okm, mlog = build_model() if ok_gen else (False, 'skipped')
    if ok_gen and not okm:
        broken.append('model build failed: ' + mlog[-400:])
    cfgs = t1.QUICK_CFGS if tier == 'quick' else t1.THOROUGH_CFGS
    if spec.get('kinds'):
        cfgs = [c for c in t1.THOROUGH_CFGS if c['kind'] in spec['kinds']]
        if tier == 'quick': cfgs = cfgs[:5]
    ncases = 280 if tier == 'quick' else 6000
    if pid in ('C11', 'C12'):
        ncases = 120 if tier == 'quick' else 3000     # multi-table scripts are several times longer
    if broken:
        ncases *= 3     # failing-input search: more volume
    findings = load_findings()
    res, ncorpus, cases = t1_run(pid, tier, seed, cfgs, ncases, spec['profiles'])
    if pid in ('C11', 'C08'):
        # "all allocator propagation policies": the same special-member scripts on a build whose allocator does not
        # propagate on assignment (judged by the acceptor and the allocation / lifetime tracking, not slot by slot)
        npcfgs = [t1.mkcfg(2, 1, 0, 1, noprop=1), t1.mkcfg(4, 2, 1, 1, noprop=1), t1.mkcfg(3, 1, 1, 0, noprop=1)]
        res2, _, _ = t1_run(pid, tier, seed + 41, npcfgs, 60 if tier == 'quick' else 1500, ['special'])
        res = res + res2
    # C16 / C17 quantify over "states where displacement happens before the duplicate is found": in this
    # library that needs a second thread inserting the same key while the first one displaces, so these two
    # checks also run the single-preemption sweeps of racing same-key insertions on the T2 harness
    conc_res = []
    if pid == 'C08':
        # "the table never treats a destroyed or moved-from object as a live element" under concurrent displacement:
        # an element erased between the path search and the move must stay erased (layout sweeps, tie T2)
        ccfgs = t2.CONC_CFGS_QUICK
        cbins = t2.build_conc(ccfgs)
        crng = random.Random(seed * 29 + 3)
        cjobs = []
        for i in range(6 if tier == 'quick' else 80):
            cc = ccfgs[i % len(ccfgs)]
            for sc in gen_conc.gen_sweep_layout(crng.getrandbits(48), cc[0], cc[1]):
                cjobs.append((cbins[cc], sc, 'layoutsweep', os.path.join(BUILD, 'cases_' + pid), False))
        conc_res = t2.run_many(cjobs)
    if pid == 'C12':
        # "a fully functional table in both locked and normal mode": operations of other threads that overlap the
        # extraction (blocked on the section, or holding a snapshot taken before it) must see the extracted table
        ccfgs = t2.CONC_CFGS_QUICK
        cbins = t2.build_conc(ccfgs)
        crng = random.Random(seed * 23 + 11)
        cjobs = []
        for i in range(8 if tier == 'quick' else 120):
            cc = ccfgs[i % len(ccfgs)]
            for sc in gen_conc.gen_sweep_section(crng.getrandbits(48), cc[0], cc[1], sin_only=True):
                cjobs.append((cbins[cc], sc, 'sinsweep', os.path.join(BUILD, 'cases_' + pid), False))
        conc_res = t2.run_many(cjobs)
    if pid in ('C16', 'C17'):
        ccfgs = t2.CONC_CFGS_QUICK
        cbins = t2.build_conc(ccfgs)
        crng = random.Random(seed * 31 + 7)
        cjobs = []
        for i in range(9 if tier == 'quick' else 120):
            cc = ccfgs[i % len(ccfgs)]
            for sc in gen_conc.gen_sweep(crng.getrandbits(48), cc[0], cc[1], dup_only=True)[:60] + \
                      gen_conc.gen_sweep_layout(crng.getrandbits(48), cc[0], cc[1]):
                cjobs.append((cbins[cc], sc, 'dupsweep', os.path.join(BUILD, 'cases_' + pid), False))
        conc_res = t2.run_many(cjobs)
    # C05 "across every event that rearranges the bookkeeping": a failed operation (throwing element constructor,
    # allocation failure) must leave size() equal to the number of stored pairs - fault enumeration (tie T3)
    fault_res = []
    if pid == 'C05':
        fcfgs = [t1.mkcfg(2, 2, 1, 1), t1.mkcfg(4, 2, 0), t1.mkcfg(3, 1, 1, 0)]
        fbins = t1.build_harness(fcfgs)
        frng = random.Random(seed * 13 + 5)
        fjobs = []
        for i in range(15 if tier == 'quick' else 300):
            c = fcfgs[i % len(fcfgs)]
            sc = gen.gen_script(frng.getrandbits(48), c, nops=frng.choice([30, 50]), poison=True, profile=frng.choice(['grow', 'churn', 'mixed', 'locked']))
            fjobs.append((fbins[t1.cfg_name(c)], sc, t1.cfg_name(c), os.path.join(BUILD, 'cases_' + pid)))
        with concurrent.futures.ThreadPoolExecutor(max_workers=16) as ex:
            fault_res = list(ex.map(run_seq_faults, fjobs))
    mism = [r for r in res if r['status'] in ('mismatch', 'model_error', 'judge_error')]
    viol = []
    known_hits = {}
    for r in fault_res:
        for l in r['bad']:
            if 'size=' in l and c07_sig(l) is None:
                viol.append(dict(path=r['path'], status='fault', blames=[], detail='size() after a failed operation: ' + l[:500]))
    for r in res:
        kinds = blame_kinds(r)
        mine = [k for k in kinds if k in spec['clauses']]
        if mine:
            sig = finding_sig(r)
            kf = [f for f in findings if f['prop'] == pid and f['sig'] == sig] if sig else []
            if kf:
                known_hits[sig] = kf[0]
            else:
                viol.append(r)
    conc_unreplayed = [r for r in conc_res if not r.get('replayed', True)] if pid == 'C12' else []
    for r in conc_res:
        bad = [p for p in r['problems'] if p[0] in ('C01', 'C05') + (('C06', 'C03') if pid == 'C12' else ())]
        if bad:
            r2 = dict(r); r2['status'] = 'concurrent'; r2['blames'] = []
            r2['detail'] = 'concurrent schedule (T2): ' + bad[0][1]
            viol.append(r2)
    violations = 0
    for sig, f in known_hits.items():
        log('KNOWN-FINDING: property=%s %s' % (pid, f['text']))
    if viol:
        r = viol[0]
        txt = open(r['path']).read() if os.path.exists(r['path']) else ''
        note = 'judge (extracted Spec.judge_op) blames: %s ; status=%s detail=%s' % (
            r.get('blames', [])[:5], r['status'], json.dumps(r.get('detail'))[:600])
        path = save_replay(pid, txt, note)
        log('VIOLATION property=%s replay=%s' % (pid, path))
        violations = 1
    elif mism or broken or conc_unreplayed:
        r = mism[0] if mism else (conc_unreplayed[0] if conc_unreplayed else None)
        txt = open(r['path']).read() if r and os.path.exists(r['path']) else '# no disagreeing script\n'
        note = '\n'.join(broken + (['correspondence T1 (model vs implementation, slot-exact) broke: %s' % json.dumps(r['detail'])[:800]] if r in mism else []) +
                         (['correspondence T2: the event trace of a schedule around a stream extraction is not a run of the L2 model: %s' % r.get('replay_fail')] if r in conc_unreplayed else []))
        path = save_replay(pid, txt, note)
        log('VIOLATION property=%s replay=%s no-failing-input-found' % (pid, path))
        violations = 1
    okres = [r for r in res if r['status'] == 'ok']
    feats = {}
    distinct = set()
    for r in okres:
        fs = tuple(r.get('features', []))
        for f in fs:
            feats[f] = feats.get(f, 0) + 1
        if any(f in ('grow', 'shrink', 'lazy', 'lockgrow') or f.startswith('exc:') for f in fs):
            distinct.add(r['path'])
    ntheorems = len([t for t in theorems if t.startswith(pid + '_')])
    sample_script = cases[ncorpus][1].split('\n') if len(cases) > ncorpus else []
    cov = dict(obligations=max(ntheorems, 1), discharged=(ntheorems if okc else 0),
               checker_cmd='make -C coq %s.vo (coqc 8.16.1, full .vo)' % spec['target'],
               trusted_base=TRUSTED_BASE,
               print_assumptions=dict(closed_under_global_context=closed, axioms=axioms),
               theorems=theorems,
               evaluations=len(res), distinct_nontrivial=len(distinct),
               rule='T1: seeded scripts (chosen 64-bit hashes: identical / same-low-bits / two-bucket / tag 255 / small / mixed / random; profiles %s) run on the real library (configs %s) and on the extracted model; per operation the result and the complete internal state (every slot of both bucket arrays, every lock array with counters and flags, lazy counter, generation, limits) must be textually equal; the extracted acceptor Spec.judge_op judges every implementation output. non-trivial = the script reached a growth, shrink, deferred migration, lock-array growth or a policy exception (distinct scripts counted)' % (spec['profiles'], [t1.cfg_name(c) for c in cfgs]),
               samples=[dict(script_head=sample_script[:3] + sample_script[-12:])],
               traces_validated_against_impl=len(okres),
               operations_judged=sum(r.get('judged', 0) for r in res),
               feature_counts=feats, corpus_cases=ncorpus, mismatches=len(mism), model_timeouts_inconclusive=len([r for r in res if r['status'] == 'model_timeout']),
               concurrent_same_key_sweeps=len(conc_res), fault_positions_checked_for_size=sum(len(r['lines']) for r in fault_res),
               known_findings=sorted(known_hits.keys()), gen_changed=changed)
    write_evidence(pid, tier, seed, cov, time.time() - t0, violations, TRUSTED_BASE)
    shutil.rmtree(os.path.join(BUILD, 'cases_' + pid), ignore_errors=True) if not violations else None
    return 1 if violations else 0

# ----------------------------------------------------------------------------- T4: C interface (C14, C15)
CAPI_LBITS_QUICK = [1, 2, 16]
CAPI_LBITS_THOROUGH = [1, 2, 3, 16]

def build_capi(lbits_list):
    os.makedirs(BUILD, exist_ok=True)
    def one(lb):
        out = os.path.join(BUILD, 'capi_l%d' % lb)
        cmd = ['g++', '-std=gnu++17', '-O1', '-g', '-I', REPO, '-DLIBCUCKOO_VERIF=1']
        if lb != 16:
            cmd.append('-DLIBCUCKOO_VERIF_MAX_NUM_LOCKS=%d' % (1 << lb))
        cmd += [os.path.join(V, 'harness', 'capi.cc'), '-o', out, '-lpthread']
        r = subprocess.run(cmd, capture_output=True, text=True)
        if r.returncode != 0:
            raise RuntimeError('capi harness build failed:\n' + r.stderr[-3000:])
        return lb, out
    with concurrent.futures.ThreadPoolExecutor(max_workers=8) as ex:
        return dict(ex.map(one, lbits_list))

def capi_cfg(lb):
    return dict(spb=4, lbits=lb, kind=0, nothrow=1, simple=1, destructive=0)

def coq_stage(target):
    broken = []
    ok_gen, changed, msg = regen()
    if not ok_gen:
        broken.append('translator refused /repo (tie T0): ' + msg)
    okc, out, theorems, closed, axioms = coq_build(target) if ok_gen else (False, '', [], 0, [])
    if ok_gen and not okc:
        err = [l for l in out.split('\n') if 'Error' in l or 'File "' in l][:6]
        broken.append('proof obligation: coq/%s.v no longer checks: %s' % (target, ' | '.join(err)))
    forb = scan_forbidden()
    if forb:
        broken.append('forbidden construct in the development: ' + ', '.join(forb[:5]))
    okm, mlog = build_model() if ok_gen else (False, 'skipped')
    if ok_gen and not okm:
        broken.append('model build failed: ' + mlog[-400:])
    return broken, okc, theorems, closed, axioms, changed

def capi_layout_check():
    """second instantiation of the C template (uint16_t -> uint64_t: the in-memory pair has padding): exact file bytes
    against the width-generic format (count, then key bytes and mapped bytes per element, no padding), round trip
    through <table>_read and every truncated prefix.  Returns a list of failure descriptions."""
    out = os.path.join(BUILD, 'capi_layout')
    r = subprocess.run(['g++', '-std=gnu++17', '-O1', '-g', '-I', REPO, '-DLIBCUCKOO_VERIF=1', os.path.join(V, 'harness', 'capi_layout.cc'), '-o', out, '-lpthread'],
                       capture_output=True, text=True)
    if r.returncode != 0:
        return ['the C template no longer compiles for uint16_t -> uint64_t: ' + r.stderr[-400:]], 0
    try:
        rr = subprocess.run([out], capture_output=True, text=True, timeout=120)
    except subprocess.TimeoutExpired:
        return ['padded-pair instantiation: run did not finish'], 0
    fails, n = [], 0
    if rr.returncode != 0:
        fails.append('padded-pair instantiation: harness exited with status %s' % rr.returncode)
    lines = [ln for ln in rr.stdout.split('\n') if ln.startswith('LAYOUT')]
    fields = [dict(kv.split('=', 1) for kv in ln.split()[1:]) for ln in lines]
    # expected bytes: the extracted width-generic codec (coq/CodecW.encode_file_w 2 8) on the pairs in iteration order
    mq = subprocess.run([os.path.join(BUILD, 'ml', 'model_driver'), '--codecw'], input=''.join('2 8 %s\n' % (f['order'] or '-') for f in fields),
                        capture_output=True, text=True, timeout=120)
    model = [l.split() for l in mq.stdout.split('\n') if l.strip()]
    if len(model) != len(fields):
        return ['the extracted codec did not answer (%s)' % mq.stderr[-200:]], 0
    for f, (mhex, mback) in zip(fields, model):
        n += 1
        pairs = [tuple(int(x) for x in p.split(':')) for p in f['order'].split(',') if p]
        exp = bytes.fromhex(mhex)
        if mback != 'true':
            fails.append('model: decode_file_w_chk (encode_file_w ..) does not give the pairs back')
        rej, ln_ = f['rejected'].split('/')
        if f['bytes'] != exp.hex():
            fails.append('uint16_t->uint64_t table of %s elements: file bytes are not count + (2 key bytes, 8 mapped bytes) per element: got %d bytes %s..., expected %d bytes %s...' % (f['n'], len(f['bytes']) // 2, f['bytes'][:60], len(exp), exp.hex()[:60]))
        elif f['roundtrip'] != '1':
            fails.append('uint16_t->uint64_t table of %s elements: reading the written file back does not give the same contents' % f['n'])
        elif rej != ln_:
            fails.append('uint16_t->uint64_t table of %s elements: %d of %s truncated prefixes were accepted by _read' % (f['n'], int(ln_) - int(rej), ln_))
    if n == 0 and not fails:
        fails.append('padded-pair instantiation: no output')
    return fails, n

def check_C14(tier, seed):
    t0 = time.time()
    pid = 'C14'
    rng = random.Random(seed)
    broken, okc, theorems, closed, axioms, changed = coq_stage('Properties_C14')
    lbs = CAPI_LBITS_QUICK if tier == 'quick' else CAPI_LBITS_THOROUGH
    bins = build_capi(lbs)
    ncases = 90 if tier == 'quick' else 1500
    if broken: ncases *= 3
    cases = []
    for i in range(ncases):
        lb = lbs[i % len(lbs)]
        sc = gen.gen_capi_script(rng.getrandbits(48), capi_cfg(lb), nops=rng.choice([30, 60, 120]))
        cases.append((bins[lb], sc, 'capi_l%d' % lb))
    res = t1.run_cases(cases, os.path.join(BUILD, 'cases_' + pid))
    mism = [r for r in res if r['status'] in ('mismatch', 'model_error', 'judge_error')]
    def contents_differ(r):
        # the set of stored pairs right after the operation differs from the model's, whose operations provably act on
        # the abstract map as the C++ ones do (LockedRefine.v, LazyRefine.v): a wrong element erased / kept / stored
        d = r.get('detail') or {}
        if r['status'] != 'mismatch' or not str(d.get('impl', '')).startswith(' C') or not str(d.get('model', '')).startswith(' C'):
            return False
        prs = lambda x: sorted(re.findall(r':(\d+=-?\d+)/', x))
        return prs(d['impl']) != prs(d['model'])
    viol = [r for r in res if r['status'] in ('impl_crash', 'harness_error') or contents_differ(r) or
            any(b.split()[2] in ('C14', 'C02', 'C05', 'C09', 'C17', 'C10') for b in r.get('blames', []))]
    # a C call that fails with ENOMEM behaves like the throwing C++ call: nothing changes, including the caller's
    # iterator out-parameters (fault enumeration through the C interface, tie T3)
    frng = random.Random(seed * 17 + 3)
    fres = []
    fbins = build_capi([1, 2])
    with concurrent.futures.ThreadPoolExecutor(max_workers=16) as ex:
        futs = [ex.submit(run_faults, fbins[lb], gen.gen_capi_script(frng.getrandbits(48), capi_cfg(lb), nops=frng.choice([30, 50])), 'capi_l%d' % lb,
                          os.path.join(BUILD, 'cases_' + pid)) for lb in ([1, 2] * (6 if tier == 'quick' else 60))]
        fres = [f.result() for f in futs]
    for fr in fres:
        for l in fr['bad']:
            if 'out-parameter' in l or 'contents-changed' in l:
                viol.append(dict(path=fr['path'], status='fault', blames=[], detail='C call failing with ENOMEM: ' + l[:400]))
    violations = 0
    lay_fails, lay_n = capi_layout_check()
    if lay_fails and not viol:
        path = save_replay(pid, '# harness/capi_layout.cc (no script: fixed tables of 0,1,2,3,7,20 elements of the instantiation uint16_t -> uint64_t)\n# run: g++ -std=gnu++17 -O1 -I /repo harness/capi_layout.cc -o capi_layout -lpthread && ./capi_layout\n', lay_fails[0])
        log('VIOLATION property=%s replay=%s' % (pid, path)); violations = 1
    elif viol:
        r = viol[0]
        txt = open(r['path']).read() if os.path.exists(r['path']) else ''
        path = save_replay(pid, txt, 'C interface disagrees with the reference behaviour: blames=%s status=%s detail=%s' % (
            r.get('blames', [])[:5], r['status'], json.dumps(r.get('detail'))[:600]))
        log('VIOLATION property=%s replay=%s' % (pid, path)); violations = 1
    elif mism or broken:
        r = mism[0] if mism else None
        txt = open(r['path']).read() if r and os.path.exists(r['path']) else '# no disagreeing script\n'
        note = '\n'.join(broken + (['correspondence T4 (L3 model vs C wrapper) broke: %s' % json.dumps(r['detail'])[:800]] if r else []))
        path = save_replay(pid, txt, note)
        log('VIOLATION property=%s replay=%s no-failing-input-found' % (pid, path)); violations = 1
    okres = [r for r in res if r['status'] == 'ok']
    ntheorems = len([t for t in theorems if t.startswith(pid + '_')])
    nreads = sum(c[1].count('c.read') for c in cases)
    cov = dict(obligations=max(ntheorems, 1), discharged=(ntheorems if okc else 0),
               checker_cmd='make -C coq Properties_C14.vo (coqc 8.16.1, full .vo)', trusted_base=TRUSTED_BASE,
               print_assumptions=dict(closed_under_global_context=closed, axioms=axioms), theorems=theorems,
               evaluations=len(res), distinct_nontrivial=len(set(r['path'] for r in okres if r.get('features'))),
               rule='T4: seeded C-interface scripts (dense / strided / random int keys; normal, locked-table and iterator entry points; file write followed by _read of EVERY truncation length 0..8+8*(keys+3) and of the full file) run through the real C wrapper (stripe counts %s) and through the extracted L3 model; outputs, file bytes and complete internal state compared textually; extracted decode_file/judge_op judge every implementation output. non-trivial = reached growth/shrink/migration/exception' % lbs,
               samples=[dict(script_head=cases[0][1].split('\n')[:12])], traces_validated_against_impl=len(okres),
               padded_pair_instantiation_tables=lay_n, truncated_reads=nreads, operations_judged=sum(r.get('judged', 0) for r in res), mismatches=len(mism), gen_changed=changed)
    write_evidence(pid, tier, seed, cov, time.time() - t0, violations, TRUSTED_BASE)
    if not violations: shutil.rmtree(os.path.join(BUILD, 'cases_' + pid), ignore_errors=True)
    return 1 if violations else 0

def run_faults(binary, script_text, tag, keep_dir):
    os.makedirs(keep_dir, exist_ok=True)
    h = hashlib.sha1(script_text.encode()).hexdigest()[:16]
    path = os.path.join(keep_dir, 'fault_%s_%s.txt' % (tag, h))
    open(path, 'w').write(script_text)
    try:
        r = subprocess.run([binary, '--faults', path], capture_output=True, text=True, timeout=600)
    except subprocess.TimeoutExpired:
        return dict(path=path, status='timeout', lines=[], bad=[])
    lines = [l for l in r.stdout.split('\n') if ' :: FAULT ' in l]
    bad = [l for l in lines if 'fired=1' in l and 'verdict=ok' not in l]
    if not bad and r.returncode == 0:
        os.unlink(path)
    return dict(path=path, status='ok' if r.returncode == 0 else 'crash', lines=lines, bad=bad)

def check_C15(tier, seed):
    t0 = time.time()
    pid = 'C15'
    rng = random.Random(seed)
    broken, okc, theorems, closed, axioms, changed = coq_stage('Properties_C15')
    lbs = CAPI_LBITS_QUICK if tier == 'quick' else CAPI_LBITS_THOROUGH
    bins = build_capi(lbs)
    ncases = 24 if tier == 'quick' else 400
    if broken: ncases *= 3
    jobs = []
    for i in range(ncases):
        lb = lbs[i % len(lbs)]
        sc = gen.gen_capi_script(rng.getrandbits(48), capi_cfg(lb), nops=rng.choice([25, 40, 60]), nkeys=rng.choice([6, 10, 16]))
        jobs.append((bins[lb], sc, 'capi_l%d' % lb))
    keep = os.path.join(BUILD, 'cases_' + pid)
    with concurrent.futures.ThreadPoolExecutor(max_workers=16) as ex:
        res = list(ex.map(lambda j: run_faults(j[0], j[1], j[2], keep), jobs))
    # the limits clause: tables from _init and _read have no minimum load factor / maximum hashpower.
    # checked on the normal run of the same scripts through the judge (policy exception => blame C15/C10)
    res2 = t1.run_cases(jobs[:max(6, len(jobs) // 4)], keep)
    nfault = sum(len(r['lines']) for r in res)
    fired = sum(1 for r in res for l in r['lines'] if 'fired=1' in l)
    bad = [(r, l) for r in res for l in r['bad']]
    crashed = [r for r in res if r['status'] != 'ok']
    limits_bad = [r for r in res2 if any('exc:load_factor_too_low' in json.dumps(r.get('detail', '')) for _ in [0]) or
                  any(b.split()[2] in ('C15',) for b in r.get('blames', []))]
    policy = [r for r in res2 if r['status'] == 'ok' and any(f in ('exc:load_factor_too_low', 'exc:maximum_hashpower_exceeded') for f in r.get('features', []))]
    mism = [r for r in res2 if r['status'] in ('mismatch', 'model_error', 'judge_error')]
    violations = 0
    if bad or crashed or limits_bad or policy:
        if bad:
            r, l = bad[0]
            note = 'fault injection (k-th global allocation fails inside a C entry point): ' + l
            txt = open(r['path']).read()
        elif crashed:
            r = crashed[0]; note = 'fault-enumeration run ended with status ' + r['status']; txt = open(r['path']).read()
        else:
            r = (limits_bad or policy)[0]; note = 'a policy exception (load_factor_too_low / maximum_hashpower_exceeded) arose on a table from _init/_read: %s' % json.dumps(r.get('blames', r.get('features')))[:300]
            txt = open(r['path']).read() if os.path.exists(r['path']) else ''
        path = save_replay(pid, txt, note)
        log('VIOLATION property=%s replay=%s' % (pid, path)); violations = 1
    elif broken or mism:
        r = mism[0] if mism else None
        txt = open(r['path']).read() if r and os.path.exists(r['path']) else '# no disagreeing script\n'
        path = save_replay(pid, txt, '\n'.join(broken + ([json.dumps(r['detail'])[:600]] if r else [])))
        log('VIOLATION property=%s replay=%s no-failing-input-found' % (pid, path)); violations = 1
    ntheorems = len([t for t in theorems if t.startswith(pid + '_')])
    sample = [l for r in res for l in r['lines'] if 'fired=1' in l][:4]
    ops_with_faults = len(set(l.split(' :: ')[0] for r in res for l in r['lines'] if 'fired=1' in l))
    cov = dict(obligations=max(ntheorems, 1), discharged=(ntheorems if okc else 0),
               checker_cmd='make -C coq Properties_C15.vo (coqc 8.16.1, full .vo)', trusted_base=TRUSTED_BASE,
               print_assumptions=dict(closed_under_global_context=closed, axioms=axioms), theorems=theorems,
               evaluations=nfault, distinct_nontrivial=fired,
               rule='T3(C): for every operation of every generated C-interface script and for k = 1,2,... until the operation no longer reaches a k-th allocation, a forked child makes the k-th global allocation (operator new, incl. aligned) fail inside the C entry point and checks: no exception crosses the extern "C" frame, failure value + errno==ENOMEM, contents and size unchanged, follow-up finds/insert/erase on every table work, everything frees, allocation balance equals the unfaulted control child. evaluations = fault positions tried; non-trivial = positions where the failure actually fired. The same scripts also run unfaulted through the judge: a policy exception on an _init/_read table is a violation.',
               samples=sample or ['(no fault fired)'], traces_validated_against_impl=len([r for r in res2 if r['status'] == 'ok']),
               operations_with_fault_positions=ops_with_faults, scripts=len(jobs), gen_changed=changed)
    write_evidence(pid, tier, seed, cov, time.time() - t0, violations, TRUSTED_BASE)
    if not violations: shutil.rmtree(keep, ignore_errors=True)
    return 1 if violations else 0

# ----------------------------------------------------------------------------- T3: fault enumeration on the C++ table (C07)
def run_seq_faults(args):
    binary, script_text, tag, keep_dir = args
    os.makedirs(keep_dir, exist_ok=True)
    h = hashlib.sha1(script_text.encode()).hexdigest()[:16]
    path = os.path.join(keep_dir, 'fault_%s_%s.txt' % (tag, h))
    open(path, 'w').write(script_text)
    try:
        r = subprocess.run([binary, '--faults', path], capture_output=True, text=True, timeout=900)
    except subprocess.TimeoutExpired:
        return dict(path=path, status='timeout', lines=[], bad=[])
    lines = [l for l in r.stdout.split('\n') if ' :: FAULT ' in l]
    bad = [l for l in lines if 'fired=1' in l and 'verdict=ok' not in l]
    if not bad and r.returncode == 0:
        os.unlink(path)
    return dict(path=path, status='ok' if r.returncode == 0 else 'crash', lines=lines, bad=bad)

def c07_sig(line):
    op = line.split(' :: ')[0].split()[2] if ' :: ' in line else ''
    if 'use of moved-from object' in line and op in ('rehash', 'reserve', 'l.rehash', 'l.reserve', 'insert', 'ioa', 'upsert', 'uprase', 'l.insert', 'l.idx'):
        return 'use-of-moved-from-after-failed-rebuild'
    return None

def check_C07(tier, seed):
    t0 = time.time()
    pid = 'C07'
    rng = random.Random(seed)
    broken, okc, theorems, closed, axioms, changed = coq_stage('Properties_C07')
    cfgs = [t1.mkcfg(2, 2, 1, 1), t1.mkcfg(4, 2, 0), t1.mkcfg(1, 1, 0), t1.mkcfg(3, 1, 1, 0), t1.mkcfg(2, 1, 0)]
    if tier != 'quick':
        cfgs += [t1.mkcfg(4, 1, 1, 1), t1.mkcfg(8, 1, 0), t1.mkcfg(1, 2, 1, 0), t1.mkcfg(4, 16, 0)]
    bins = t1.build_harness(cfgs)
    n = 280 if tier == 'quick' else 2400
    if broken: n *= 3
    keep = os.path.join(BUILD, 'cases_' + pid)
    jobs = []
    for i in range(n):
        c = cfgs[i % len(cfgs)]
        sc = gen.gen_script(rng.getrandbits(48), c, nops=rng.choice([30, 50, 80]), poison=True,
                            profile=rng.choice(['grow', 'churn', 'resize', 'mixed', 'locked', 'resize']))
        if c['kind'] == 0 and i % 2 == 1:
            # helper threads: rebuilds and migrations are split over worker threads (only the abstract
            # outcome is judged in fault mode, so the nondeterministic placement does not matter)
            sc = re.sub(r'^(0 mhp \d+)$', r'\1\n0 workers %d' % rng.choice([1, 2, 3]), sc, count=1, flags=re.M)
        jobs.append((bins[t1.cfg_name(c)], sc, t1.cfg_name(c), keep))
    with concurrent.futures.ThreadPoolExecutor(max_workers=16) as ex:
        res = list(ex.map(run_seq_faults, jobs))
    findings = load_findings()
    viol, known_hits = [], {}
    for r in res:
        if r['status'] != 'ok':
            viol.append((r, 'fault-enumeration run ended with status ' + r['status']))
        for l in r['bad']:
            sig = c07_sig(l)
            kf = [f for f in findings if f['prop'] == pid and f['sig'] == sig] if sig else []
            if kf: known_hits[sig] = kf[0]
            else: viol.append((r, l))
    violations = 0
    for sig, f in known_hits.items():
        log('KNOWN-FINDING: property=%s %s' % (pid, f['text']))
    if viol:
        r, l = viol[0]
        txt = open(r['path']).read() if os.path.exists(r['path']) else ''
        path = save_replay(pid, txt, 'fault injection: ' + l)
        log('VIOLATION property=%s replay=%s' % (pid, path)); violations = 1
    elif broken:
        path = save_replay(pid, '# no failing fault position found\n', '\n'.join(broken))
        log('VIOLATION property=%s replay=%s no-failing-input-found' % (pid, path)); violations = 1
    nfault = sum(len(r['lines']) for r in res)
    fired = sum(1 for r in res for l in r['lines'] if 'fired=1' in l)
    kinds = {}
    for r in res:
        for l in r['lines']:
            if 'fired=1' in l:
                m = re.search(r'kind=(\d)', l)
                kinds[m.group(1)] = kinds.get(m.group(1), 0) + 1
    ntheorems = len([t for t in theorems if t.startswith(pid + '_')])
    sample = [l for r in res for l in r['lines'] if 'fired=1' in l][:4]
    cov = dict(obligations=max(ntheorems, 1), discharged=(ntheorems if okc else 0),
               checker_cmd='make -C coq Properties_C07.vo (coqc 8.16.1, full .vo)', trusted_base=TRUSTED_BASE,
               print_assumptions=dict(closed_under_global_context=closed, axioms=axioms), theorems=theorems,
               evaluations=nfault, distinct_nontrivial=fired,
               rule='T3: for every operation of every generated script (configs %s) a forked child injects one fault and judges the outcome: kind 1 = the k-th allocation through the table\'s allocator fails, for k = 1.. until the operation no longer reaches a k-th allocation; kind 2/3 = hash / equality throws for a designated key; kind 4 = the k-th copy construction of an element from the caller\'s arguments throws; kind 5 = the functor throws after a partial effect. Checked: the exception reaches the caller, contents and size unchanged (functor: preceding insertion and partial effect remain), failed rehash/reserve keep the hashpower, no lock held, follow-up operations and destruction work, allocation and object balance equal the unfaulted control child. evaluations = fault positions tried, non-trivial = positions where the fault fired' % [t1.cfg_name(c) for c in cfgs],
               samples=sample or ['(none fired)'], fired_by_kind=kinds, scripts=len(jobs),
               known_findings=sorted(known_hits.keys()), gen_changed=changed)
    write_evidence(pid, tier, seed, cov, time.time() - t0, violations, TRUSTED_BASE, level='fault_enumeration')
    if not violations: shutil.rmtree(keep, ignore_errors=True)
    return 1 if violations else 0

# ----------------------------------------------------------------------------- T2: concurrent properties
T2_PROPS = {
    'C01': dict(target='Properties_C01', blame=('C01', 'C05', 'C03'), profiles=['mixed', 'resize', 'insert', 'mixed', 'locked', 'rmw']),
    'C03': dict(target='Properties_C03', blame=('C01', 'C03'), profiles=['rmw', 'insert', 'rmw', 'mixed', 'insert']),
    'C04': dict(target='Properties_C04', blame=('C04',), profiles=['resize', 'locked', 'mixed', 'insert']),
    'C06': dict(target='Properties_C06', blame=('C06', 'C01', 'C03'), profiles=['locked']),
}

def t2_finding_sig(pid, tag, text):
    if tag == 'C06' and ("['rehash'" in text or "['reserve'" in text):
        return 'noop-resize-returns-during-section'
    return None

def lt_move_check():
    """directed scenarios for locked_table move construction / move assignment / destruction (harness/lt_move.cc)"""
    out = os.path.join(BUILD, 'lt_move')
    r = subprocess.run(['g++', '-std=gnu++17', '-O1', '-g', '-I', REPO, '-DLIBCUCKOO_VERIF=1', os.path.join(V, 'harness', 'lt_move.cc'), '-o', out, '-lpthread'],
                       capture_output=True, text=True)
    if r.returncode != 0:
        return ['harness/lt_move.cc no longer compiles against /repo: ' + r.stderr[-400:]], 0
    try:
        rr = subprocess.run([out], capture_output=True, text=True, timeout=60)
    except subprocess.TimeoutExpired:
        return ['locked_table move scenarios: the run did not finish within 60 s (a call spins on a lock that was never released)'], 0
    lines = [l for l in rr.stdout.split('\n') if l.startswith('LTMOVE')]
    fails = [l for l in lines if l.startswith('LTMOVE FAIL')]
    if rr.returncode != 0 or not any(l.startswith('LTMOVE done') for l in lines):
        fails.append('locked_table move scenarios: harness ended with status %s' % rr.returncode)
    return fails, len(lines)

def check_T2(pid, tier, seed):
    t0 = time.time()
    spec = T2_PROPS[pid]
    rng = random.Random(seed)
    broken, okc, theorems, closed, axioms, changed = coq_stage(spec['target'])
    cfgs = t2.CONC_CFGS_QUICK if tier == 'quick' else t2.CONC_CFGS_THOROUGH
    bins = t2.build_conc(cfgs)
    n = 360 if tier == 'quick' else 12000
    if pid == 'C03': n = 180 if tier == 'quick' else 5000     # every run is also checked against the happens-before model
    if broken: n *= 3
    keep = os.path.join(BUILD, 'cases_' + pid)
    jobs = []
    # corpus first: minimised schedules of the defects found so far (all fixed: they must pass)
    for f in sorted(glob.glob(os.path.join(V, 'corpus_conc', '*.txt'))):
        txt = open(f).read()
        m = re.search(r'^cfg (\d+) (\d+)', txt, flags=re.M)
        c = (int(m.group(1)), int(m.group(2)))
        if c in bins:
            jobs.append((bins[c], txt, 'corpus', keep, True))
    ncorpus = len(jobs)
    for i in range(n):
        c = cfgs[i % len(cfgs)]
        sc = gen_conc.gen_conc(rng.getrandbits(48), c[0], c[1], profile=spec['profiles'][i % len(spec['profiles'])])
        jobs.append((bins[c], sc, 's%d_l%d' % c, keep, (i % 4 == 0)))
    # systematic single-preemption sweeps over displacement programs (every scheduling point of the
    # inserting thread, the other threads run to completion there)
    nsweep = {'C01': 9, 'C03': 12, 'C04': 3, 'C06': 2}[pid] * (1 if tier == 'quick' else (5 if pid == 'C03' else 12))
    nsw = 0
    for i in range(nsweep):
        c = cfgs[i % len(cfgs)]
        for sc in gen_conc.gen_sweep(rng.getrandbits(48), c[0], c[1], diff_stripes=(pid == 'C03' and c[0] <= 2), maxpoints=(70 if pid == 'C03' else 90)) + (gen_conc.gen_sweep_layout(rng.getrandbits(48), c[0], c[1]) if i % 2 == 0 else []):
            jobs.append((bins[c], sc, 'sweep_s%d_l%d' % c, keep, False)); nsw += 1
    # sweeps around a locked section that resizes / replaces the table
    if pid == 'C06':
        for i in range(6 if tier == 'quick' else 90):
            c = cfgs[i % len(cfgs)]
            for sc in gen_conc.gen_sweep_section(rng.getrandbits(48), c[0], c[1], pending=(i % 3 == 0)):
                jobs.append((bins[c], sc, 'secsweep_s%d_l%d' % c, keep, False)); nsw += 1
    # same-key sweeps: the other thread erases, resizes and inserts the key the first thread is displacing for
    if pid == 'C01':
        for i in range(4 if tier == 'quick' else 48):
            c = cfgs[i % len(cfgs)]
            for sc in gen_conc.gen_sweep(rng.getrandbits(48), c[0], c[1], dup_only=True, force_resize=True)[:60]:
                jobs.append((bins[c], sc, 'dupsweep_s%d_l%d' % c, keep, False)); nsw += 1
    # two-preemption sweeps over a constructed layout (check-then-act windows in the displacement code)
    if pid in ('C01', 'C03', 'C04'):
        for i in range(1 if tier == 'quick' else 16):
            c = cfgs[(i + 1) % len(cfgs)]
            for sc in gen_conc.gen_sweep2_layout(rng.getrandbits(48), c[0], c[1]):
                jobs.append((bins[c], sc, 'sweep2_s%d_l%d' % c, keep, False)); nsw += 1
    # instrumented mapped type (uses of stored values are events, reads of them scheduling points): lookups through
    # every overload against writers of the same element - "no call observes a stale value", "never a mixture"
    if pid in ('C01', 'C03'):
        vbins = t2.build_conc(cfgs, valhook=True)
        for i in range(60 if tier == 'quick' else 2000):
            c = cfgs[i % len(cfgs)]
            jobs.append((vbins[c], gen_conc.gen_reads(rng.getrandbits(48), c[0], c[1]), 'reads_s%d_l%d' % c, keep, False))
        for i in range(4 if tier == 'quick' else 60):
            c = cfgs[i % len(cfgs)]
            for sc in gen_conc.gen_sweep_reads(rng.getrandbits(48), c[0], c[1]):
                jobs.append((vbins[c], sc, 'readsweep_s%d_l%d' % c, keep, False)); nsw += 1
    # data accesses against the happens-before model: C03 (race clause) and C01 (no stale observation)
    os.environ['VERIF_T2_MEM'] = {'C03': '1', 'C01': 'random'}.get(pid, '0')   # C01: the randomly scheduled runs only (the sweeps are covered by C03)
    _t1 = time.time()
    res = t2.run_many(jobs)
    if os.environ.get('VERIF_TIMING'): sys.stderr.write('T2 jobs=%d run_many=%.1fs since_start=%.1fs\n' % (len(jobs), time.time() - _t1, time.time() - t0))
    # C06 "on creation the locked_table exposes every stored element (pending deferred migration is finished
    # first) ... hands it back intact": sequential locked-section scripts (with and without helper threads)
    # against the model and the acceptor
    # C04 "every call completes ... only an active locked_table keeps the table locked": sequential scripts over the
    # element-type configurations the scheduler harness does not have (not nothrow-movable: growth inside a locked
    # section goes through the rebuild path) - a call that never returns shows as a run stopped after 60 s
    seq4_res = []
    if pid == 'C04':
        s4cfgs = [t1.mkcfg(3, 1, 1, 0), t1.mkcfg(2, 2, 1, 1), t1.mkcfg(4, 1, 1, 0)]
        seq4_res, _, _ = t1_run(pid, tier, seed + 23, s4cfgs, 45 if tier == 'quick' else 900, ['locked', 'grow', 'locked'])
    seq_res = []
    if pid == 'C06':
        scfgs = [c for c in (t1.QUICK_CFGS if tier == 'quick' else t1.THOROUGH_CFGS)]
        seq_res, _, _ = t1_run(pid, tier, seed + 17, scfgs, 90 if tier == 'quick' else 2400, ['locked', 'workers', 'locked', 'workers_rebuild'])
    # directed search: for runs whose trace is not a run of the model, schedules that preempt the
    # offending thread just before its first unexpected event and let the others run
    djobs = []
    for r in res:
        if not r.get('replayed', True):
            for sc in r.get('directed', []):
                cfgm = re.search(r'^cfg (\d+) (\d+)', sc, flags=re.M)
                c = (int(cfgm.group(1)), int(cfgm.group(2)))
                if c in bins:
                    djobs.append((bins[c], sc, 'directed', keep, True))
        if len(djobs) > 600:
            break
    dres = t2.run_many(djobs) if djobs else []
    res_all = res
    res = res + dres
    findings = load_findings()
    viol, known_hits, unreplayed, unconfirmed = [], {}, [], []
    for r in res:
        for (tag, text) in r['problems']:
            if tag in spec['blame']:
                sig = t2_finding_sig(pid, tag, text)
                kf = [f for f in findings if f['prop'] == pid and f['sig'] == sig] if sig else []
                if kf: known_hits[sig] = kf[0]
                else: viol.append((r, tag, text))
        for (tag, sig, text) in r['known']:
            if tag == pid:
                kf = [f for f in findings if f['prop'] == pid and f['sig'] == sig]
                if kf: known_hits[sig] = kf[0]
                else: viol.append((r, tag, text))
        if not r.get('replayed', True): unreplayed.append(r)
        if r.get('confirmed') is False: unconfirmed.append(r)
    ltm_fails, ltm_n = lt_move_check() if pid in ('C04', 'C06') else ([], 0)
    if ltm_fails:
        pth = os.path.join(keep, 'lt_move.txt'); os.makedirs(keep, exist_ok=True)
        open(pth, 'w').write('# harness/lt_move.cc (fixed scenarios, no script)\n# run: g++ -std=gnu++17 -O1 -I /repo -DLIBCUCKOO_VERIF=1 harness/lt_move.cc -o lt_move -lpthread && ./lt_move\n' + '\n'.join('# ' + l for l in ltm_fails) + '\n')
        viol.append((dict(path=pth, problems=[]), 'C04', 'locked_table move / destruction: ' + ltm_fails[0]))
    for r in seq4_res:
        if r['status'] == 'impl_crash' and 'timeout' in str(r.get('detail')):
            r2 = dict(r); r2['problems'] = [('C04', 'sequential script: an operation did not return (the run was stopped after 60 s): a call that spins on a lock its own thread holds, or loops forever')]
            viol.append((r2, 'C04', r2['problems'][0][1]))
    for r in seq_res:
        kinds = blame_kinds(r)
        if kinds & {'C02', 'C09', 'C05', 'CRASH'}:
            r2 = dict(r); r2['problems'] = [('C06', 'locked-section script: %s %s' % (r.get('blames', [])[:3], json.dumps(r.get('detail'))[:300]))]
            viol.append((r2, 'C06', r2['problems'][0][1]))
    violations = 0
    for sig, f in known_hits.items():
        log('KNOWN-FINDING: property=%s %s' % (pid, f['text']))
    if viol:
        r, tag, text = viol[0]
        txt = open(r['path']).read() if os.path.exists(r['path']) else ''
        path = save_replay(pid, txt, '%s: %s' % (tag, text))
        log('VIOLATION property=%s replay=%s' % (pid, path)); violations = 1
    elif broken or unreplayed or unconfirmed:
        r = (unreplayed or unconfirmed or [None])[0]
        txt = open(r['path']).read() if r and os.path.exists(r['path']) else '# no disagreeing schedule\n'
        note = '\n'.join(broken + (['correspondence T2: the event trace of the real library is not a run of the L2 model: %s' % r.get('replay_fail')] if r in unreplayed else []) +
                         (['the linearization found is not confirmed by the extracted sequential model'] if r in unconfirmed else []))
        path = save_replay(pid, txt, note)
        log('VIOLATION property=%s replay=%s no-failing-input-found' % (pid, path)); violations = 1
    ntheorems = len([t for t in theorems if t.startswith(pid + '_')])
    nontrivial = [r for r in res if r.get('switches', 0) >= 3 and r.get('nops', 0) >= 2]
    sample = jobs[ncorpus][1].split('\n') if len(jobs) > ncorpus else []
    cov = dict(obligations=max(ntheorems, 1), discharged=(ntheorems if okc else 0),
               checker_cmd='make -C coq %s.vo (coqc 8.16.1, full .vo)' % spec['target'], trusted_base=TRUSTED_BASE + [
                   'L2 protocol model coq/Conc.v tied to the code by trace replay (every synchronisation event of the real run must be a step of the extracted model); C++11 DRF-SC for the acquire/release spinlock is assumed, not proved'],
               print_assumptions=dict(closed_under_global_context=closed, axioms=axioms), theorems=theorems,
               evaluations=len(res), distinct_nontrivial=len(set(r['path'] for r in nontrivial)),
               rule='T2: seeded multi-threaded programs (2-3 threads, 1-4 operations each, chosen colliding hashes, profiles %s, stripe/slot configs %s) run on the real library with one runnable thread at a time, the baton passed at every guarded hook (lock request/acquire/release, size/generation/lock-list accesses) according to a seeded random schedule; per run: event trace replayed in the extracted L2 model, history checked for linearizability (witness order confirmed by the extracted sequential model on every 4th run), locked-section exclusivity, deadlock/livelock/lock leak, size()==element count after join, happens-before race scan on the lock list. non-trivial = at least 3 context switches and 2 operations' % (spec['profiles'], cfgs),
               samples=[dict(program=[l for l in sample if not l.startswith('key')])],
               traces_validated_against_impl=len([r for r in res if r.get('replayed')]),
               events_replayed=sum(r.get('nevents', 0) for r in res), context_switches=sum(r.get('switches', 0) for r in res),
               linearizable_histories=len([r for r in res if r.get('linearizable')]), corpus_cases=ncorpus,
               directed_schedules=len(dres), sweep_schedules=nsw, locked_table_move_checks=ltm_n, sequential_locked_section_scripts=len(seq_res),
               runs_checked_against_hb_model=len([r for r in res if r.get('mem')]), bucket_accesses_checked=sum((r.get('mem') or {}).get('naccess', 0) for r in res),
               known_findings=sorted(known_hits.keys()), gen_changed=changed)
    write_evidence(pid, tier, seed, cov, time.time() - t0, violations, TRUSTED_BASE)
    if not violations: shutil.rmtree(keep, ignore_errors=True)
    return 1 if violations else 0

def replay(pid, path):
    """re-run a replay script on the current tree and print both sides' first disagreement / the judge's blames"""
    txt = open(path).read()
    m = re.search(r'^cfg (\d+) (\d+) (\d+) (\d+) (\d+)', txt, flags=re.M)
    if not m:
        print(txt)
        return 0
    spb, lb, simple, nothrow, destr = map(int, m.groups())
    c = t1.mkcfg(spb, lb, 0 if simple else 1, nothrow)
    bins = t1.build_harness([c])
    build_model()
    r = t1.run_case((bins[t1.cfg_name(c)], txt, 'replay', os.path.join(BUILD, 'cases_replay')))
    print(json.dumps(r, indent=1))
    return 0 if r['status'] == 'ok' else 1

def main():
    import argparse
    ap = argparse.ArgumentParser()
    ap.add_argument('pid')
    ap.add_argument('--tier', default=os.environ.get('VERIF_TIER', 'quick'))
    ap.add_argument('--replay')
    a = ap.parse_args()
    seed = int(os.environ.get('VERIF_SEED', '1'))
    os.makedirs(BUILD, exist_ok=True)
    if a.replay:
        sys.exit(replay(a.pid, a.replay))
    try:
        dispatch(a, seed)
    except SystemExit:
        raise
    except Exception as ex:
        # the machinery itself could not run against /repo's tree (typically: a harness no longer compiles, e.g. a
        # lookup through a key-like type that is not convertible to key_type): the tie is broken
        import traceback
        msg = ''.join(traceback.format_exception_only(type(ex), ex))[-3000:]
        hetero = a.pid == 'C16' and 'HKey' in msg
        path = save_replay(a.pid, '# no script: the check could not be run against the current tree\n', ('a lookup / update / erasure through a key-like type that hashes and compares like key_type but is not convertible to it (HKey in harness/seq.cc) no longer compiles: that call would construct a key_type. ' if hetero else '') + 'the harness / model could not be built or run against /repo: ' + msg)
        log('VIOLATION property=%s replay=%s%s' % (a.pid, path, '' if hetero else ' no-failing-input-found'))
        try:
            write_evidence(a.pid, a.tier, seed, dict(obligations=1, discharged=0, checker_cmd='-', trusted_base=TRUSTED_BASE, error=msg[-800:], evaluations=0), 0.0, 1, TRUSTED_BASE)
        except Exception:
            pass
        sys.exit(1)

def dispatch(a, seed):
    if a.pid == 'C13':
        sys.exit(check_C13(a.tier, seed))
    if a.pid in T1_PROPS:
        sys.exit(check_T1(a.pid, a.tier, seed))
    if a.pid in T2_PROPS:
        sys.exit(check_T2(a.pid, a.tier, seed))
    if a.pid == 'C07':
        sys.exit(check_C07(a.tier, seed))
    if a.pid == 'C14':
        sys.exit(check_C14(a.tier, seed))
    if a.pid == 'C15':
        sys.exit(check_C15(a.tier, seed))
    print('unknown property', a.pid)
    sys.exit(2)

if __name__ == '__main__':
    main()
