#!/usr/bin/env python3
"""Script generators for the T1 sequential correspondence (see DESIGN section 4).

All randomness derives from one random.Random(seed); a script is self-contained
(config line, chosen hashes, operations) and therefore replays exactly."""
import random

MASK64 = (1 << 64) - 1
MURMUR = 0xc6a4a7935bd1e995

def partial_key(h):
    h32 = (h & 0xffffffff) ^ (h >> 32)
    h16 = (h32 & 0xffff) ^ (h32 >> 16)
    h8 = (h16 & 0xff) ^ (h16 >> 8)
    return h8 & 0xff

def hash_with_tag(rng, tag, low=None, lowbits=0):
    """a 64-bit hash whose partial is `tag` and whose low `lowbits` bits are `low`"""
    while True:
        h = rng.getrandbits(64)
        if low is not None:
            h = (h >> lowbits << lowbits) | (low & ((1 << lowbits) - 1))
        # fix the tag by adjusting byte 7 (does not touch the low bits when lowbits <= 56)
        cur = partial_key(h)
        h ^= ((cur ^ tag) & 0xff) << 56
        if partial_key(h) == tag:
            return h & MASK64

def make_keys(rng, nkeys, style):
    """returns dict key-id -> hash"""
    keys = {}
    if style == 'same':
        h = rng.getrandbits(64)
        for k in range(1, nkeys + 1):
            keys[k] = h
    elif style == 'samelow':
        low = rng.getrandbits(3)
        tag = rng.getrandbits(8)
        for k in range(1, nkeys + 1):
            # same index for hp<=3, same tag (same alt), bits 3.. differ: split on doubling
            keys[k] = hash_with_tag(rng, tag, low, 3)
    elif style == 'twobuckets':
        tags = [rng.getrandbits(8) for _ in range(2)]
        lows = [rng.getrandbits(4) for _ in range(2)]
        for k in range(1, nkeys + 1):
            j = rng.randrange(2)
            keys[k] = hash_with_tag(rng, tags[j], lows[j], 4)
    elif style == 'tag255':
        # (tag+1)*C & mask == 0 for hp <= 8: both candidate buckets coincide
        for k in range(1, nkeys + 1):
            keys[k] = hash_with_tag(rng, 255, rng.getrandbits(2), 2)
    elif style == 'small':
        for k in range(1, nkeys + 1):
            keys[k] = rng.randrange(0, 16)
    elif style == 'mixed':
        base = rng.getrandbits(64)
        for k in range(1, nkeys + 1):
            r = rng.random()
            if r < 0.3:
                keys[k] = base
            elif r < 0.6:
                keys[k] = hash_with_tag(rng, partial_key(base), base & 7, 3)
            else:
                keys[k] = rng.getrandbits(64)
    else:  # random
        for k in range(1, nkeys + 1):
            keys[k] = rng.getrandbits(64)
    return keys

KEY_STYLES = ['same', 'samelow', 'twobuckets', 'tag255', 'small', 'mixed', 'random']

FNS = ['noop', 'add:1', 'add:-3', 'set:7', 'eraseifeq:7', 'eraseifeq:0', 'adderaseeven:1', 'adderaseeven:2',
       'ctx:5:-1', 'ctx:0:0', 'ctx:1:1']

class Gen:
    def __init__(self, rng, cfg, nkeys=None, style=None, profile=None, nops=None):
        self.rng = rng
        self.cfg = cfg  # dict spb, lbits, simple, nothrow, destructive
        self.nkeys = nkeys or rng.choice([4, 6, 8, 12, 16, 24, 40])
        self.style = style or rng.choice(KEY_STYLES)
        self.profile = profile or rng.choice(['grow', 'churn', 'churn', 'locked', 'resize', 'mixed', 'mixed'])
        self.nops = nops or rng.choice([20, 40, 80, 150])
        self.lines = []
        self.active = {0: False}
        self.exists = {0: False, 1: False, 2: False, 3: False}
        self.moved = {0: False, 1: False, 2: False, 3: False}
        self.have_img = {}
        self.it_valid = [False] * 4
        self.mlf_small = False
        self.mhp_none = True

    def mhp_none_possible_reject(self):
        # a numeric mhp below the current hashpower is rejected and leaves the old setting in place;
        # the generator does not track the hashpower, so a numeric request never clears mhp_none
        return True

    def k(self):
        # fault scripts: occasionally the key whose hash / equality throws when a fault is armed
        if getattr(self, 'poison', False) and self.rng.random() < 0.04:
            return 999
        # occasionally a key outside the universe (never inserted)
        if self.rng.random() < 0.03:
            return self.nkeys + 1 + self.rng.randrange(3)
        return self.rng.randrange(1, self.nkeys + 1)

    def v(self):
        return self.rng.randrange(-5, 100)

    def fn(self):
        return self.rng.choice(FNS)

    def emit(self, tab, s):
        self.lines.append('%d %s' % (tab, s))

    def normal_op(self, t):
        r = self.rng
        p = self.profile
        w_ins = {'grow': 70, 'churn': 30, 'locked': 30, 'resize': 30, 'mixed': 30}[p]
        x = r.randrange(100)
        if x < w_ins:
            c = r.randrange(6)
            if c <= 2: self.emit(t, 'insert %d %d' % (self.k(), self.v()))
            elif c == 3: self.emit(t, 'ioa %d %d' % (self.k(), self.v()))
            elif c == 4: self.emit(t, 'upsert %d %s %d %d' % (self.k(), self.fn(), r.randrange(2), self.v()))
            else: self.emit(t, 'uprase %d %s %d %d' % (self.k(), self.fn(), r.randrange(2), self.v()))
            return
        x = r.randrange(100)
        if x < 25:
            self.emit(t, r.choice(['find', 'findthrow', 'contains', 'findfn']) + ' %d' % self.k())
        elif x < 45:
            self.emit(t, 'erase %d' % self.k())
        elif x < 55:
            self.emit(t, 'erasefn %d %s' % (self.k(), self.fn()))
        elif x < 65:
            self.emit(t, 'update %d %d' % (self.k(), self.v()))
        elif x < 75:
            self.emit(t, 'updatefn %d %s' % (self.k(), self.fn()))
        elif x < 85:
            self.resize_op(t, '')
        elif x < 88:
            self.emit(t, 'clear')
        elif x < 94:
            self.limit_op(t)
        else:
            self.emit(t, 'insert %d %d' % (self.k(), self.v()))

    def resize_op(self, t, prefix):
        r = self.rng
        if getattr(self, 'use_workers', False) and not getattr(self, 'workers_rebuild', False):
            # with helper threads a rebuild places elements in a nondeterministic order; worker scripts
            # keep to doubling + migration (whose result does not depend on the order); the profile
            # 'workers_rebuild' does rebuild and is checked by the acceptor only (judge-only)
            self.emit(t, '%s %d' % ('l.find' if prefix else 'find', self.k()) + (' 0' if prefix else ''))
            return
        if r.random() < 0.5:
            self.emit(t, '%srehash %d' % (prefix, r.choice([0, 1, 2, 2, 3, 3, 4, 5, 6])))
        else:
            self.emit(t, '%sreserve %d' % (prefix, r.choice([0, 1, 2, 3, 4, 7, 8, 9, 15, 16, 17, 31, 33, 64, 100])))

    def limit_op(self, t):
        r = self.rng
        x = r.randrange(10)
        # Unbounded doubling guard: the real table doubles until memory is exhausted when colliding keys
        # meet "no minimum load factor" and "no maximum hashpower" (DESIGN 6.4); scripts never have both.
        if x < 3:
            ch = ['0', '1', '2', '3', '4', '5', '6', '8', '10']
            if not self.mlf_small:
                ch.append('none')
            m = r.choice(ch)
            self.emit(t, 'mhp %s' % m)
            # the setter may be rejected (invalid_argument) and then has no effect: stay conservative
            if m == 'none':
                self.mhp_none = True
            elif not self.mhp_none_possible_reject():
                self.mhp_none = False
        elif x < 8:
            ch = ['1 20', '1 2', '1 4', '3 4', '1 1', '1 8', '1 64', '5 4', '-1 2', '2 1', '1 16']
            if not self.mhp_none:
                ch += ['0 1', '-0 1', 'nan', '0 1']
            m = r.choice(ch)
            self.emit(t, 'mlf %s' % m)
            if m in ('0 1', '-0 1', 'nan'):
                self.mlf_small = True
            elif m not in ('5 4', '-1 2', '2 1'):
                self.mlf_small = False
        else:
            self.emit(t, 'workers %d' % (self.rng.choice([1, 2, 3]) if getattr(self, 'use_workers', False) else 0))

    def locked_op(self, t):
        r = self.rng
        x = r.randrange(100)
        if x < 25:
            self.emit(t, 'l.insert %d %d' % (self.k(), self.v()))
        elif x < 33:
            self.emit(t, 'l.erase %d' % self.k())
        elif x < 41:
            i = r.randrange(4)
            self.emit(t, 'l.find %d %d' % (self.k(), i)); self.it_valid[i] = True
        elif x < 45:
            self.emit(t, 'l.at %d' % self.k())
        elif x < 49:
            self.emit(t, 'l.idx %d' % self.k())
        elif x < 52:
            self.emit(t, 'l.count %d' % self.k())
        elif x < 56:
            self.emit(t, 'l.range %d' % self.k())
        elif x < 61:
            self.resize_op(t, 'l.')
        elif x < 63:
            self.emit(t, 'l.clear')
        elif x < 69:
            i = r.randrange(4)
            self.emit(t, 'it.begin %d' % i); self.it_valid[i] = True
        elif x < 72:
            i = r.randrange(4)
            self.emit(t, 'it.end %d' % i); self.it_valid[i] = True
        elif x < 80:
            self.emit(t, 'it.inc %d' % r.randrange(4))
        elif x < 85:
            self.emit(t, 'it.dec %d' % r.randrange(4))
        elif x < 89:
            self.emit(t, 'it.get %d' % r.randrange(4))
        elif x < 91:
            self.emit(t, 'it.set %d %d' % (r.randrange(4), self.v()))
        elif x < 93:
            self.emit(t, 'it.eq %d %d' % (r.randrange(4), r.randrange(4)))
        elif x < 96:
            self.emit(t, 'l.eraseit %d %d' % (r.randrange(4), r.randrange(4)))
        elif x < 98:
            self.emit(t, 'l.trav')
        else:
            self.emit(t, 'l.rtrav')

    def generate(self):
        r = self.rng
        c = self.cfg
        keys = make_keys(r, self.nkeys + 3, self.style)
        hdr = (['# judge-only'] if getattr(self, 'workers_rebuild', False) else []) + ['# profile=%s style=%s nkeys=%d' % (self.profile, self.style, self.nkeys),
               'cfg %d %d %d %d %d' % (c['spb'], c['lbits'], c['simple'], c['nothrow'], c['destructive'])]
        for k, h in keys.items():
            hdr.append('key %d %d' % (k, h))
        if c['simple'] == 0 and r.random() < 0.4:
            hdr.append('lvalues 1')      # insertion-type calls receive lvalue arguments (never consumed)
        self.emit(0, 'new %d' % r.choice([0, 1, 2, 3, 4, 5, 8, 9, 16, 17, 32, 64]))
        self.exists[0] = True
        # protect the run against unbounded doubling: a hashpower limit is always in force
        self.emit(0, 'mhp %d' % r.choice([6, 7, 8, 9]))
        self.mhp_none = False
        if getattr(self, 'use_workers', False):
            self.emit(0, 'workers %d' % r.choice([1, 2, 2, 3, 4]))
        n = 0
        while n < self.nops:
            n += 1
            t = 0
            if self.active[0]:
                if r.random() < 0.06:
                    self.emit(0, 'unlock'); self.active[0] = False
                elif r.random() < 0.05:
                    self.limit_op(0)
                else:
                    self.locked_op(0)
                    if r.random() < 0.15:
                        self.emit(0, 'l.trav')
            else:
                pl = {'locked': 0.12, 'mixed': 0.04, 'churn': 0.02, 'grow': 0.01, 'resize': 0.03}[self.profile]
                if r.random() < pl:
                    self.emit(0, 'lock'); self.active[0] = True
                    self.it_valid = [False] * 4
                    self.emit(0, 'l.trav')
                    self.emit(0, 'l.rtrav')
                else:
                    self.normal_op(0)
        if self.active[0]:
            self.emit(0, 'l.trav'); self.emit(0, 'l.rtrav'); self.emit(0, 'unlock')
        else:
            self.emit(0, 'lock'); self.emit(0, 'l.trav'); self.emit(0, 'l.rtrav'); self.emit(0, 'unlock')
        # every key looked up once at the end
        for k in range(1, self.nkeys + 1):
            self.emit(0, 'find %d' % k)
        return '\n'.join(hdr + self.lines) + '\n'

class CGen(Gen):
    """scripts over the C interface: int keys hashed by std::hash<int> (identity), spb 4"""
    def __init__(self, rng, cfg, **kw):
        super().__init__(rng, cfg, **kw)
        r = rng
        style = r.choice(['dense', 'stride', 'stride', 'mixed', 'collide', 'collide'])
        n = self.nkeys + 3
        if style == 'collide':
            # int keys whose identity hash has index 0 and tag 0 for every hashpower <= 8 (bytes 1 and 2
            # equal, bytes 0 and 3 zero): they fill one bucket pair whatever the table size
            self.keyset = [(a << 8) | (a << 16) for a in range(1, n + 1)]
        elif style == 'dense':
            self.keyset = list(range(1, n + 1))
        elif style == 'stride':
            st = 1 << r.choice([2, 3, 4, 8, 12])
            base = r.randrange(0, 7)
            self.keyset = [base + j * st for j in range(n)]
        else:
            self.keyset = [r.randrange(0, 1 << 20) for _ in range(n)]
            self.keyset = list(dict.fromkeys(self.keyset))
            while len(self.keyset) < n:
                self.keyset.append(len(self.keyset) + (1 << 21))
        self.have_file = [False] * 4

    def k(self):
        if self.rng.random() < 0.03:
            return self.keyset[self.nkeys + self.rng.randrange(3)]
        return self.keyset[self.rng.randrange(self.nkeys)]

    def fn(self):
        return self.rng.choice(['noop', 'add:1', 'add:-3', 'set:7', 'eraseifeq:7', 'adderaseeven:1'])

    def normal_op(self, t):
        r = self.rng
        x = r.randrange(100)
        if x < 40:
            c = r.randrange(4)
            if c <= 1: self.emit(t, 'insert %d %d' % (self.k(), self.v()))
            elif c == 2: self.emit(t, 'ioa %d %d' % (self.k(), self.v()))
            else: self.emit(t, 'upsert %d %s 0 %d' % (self.k(), self.fn(), self.v()))
        elif x < 55:
            self.emit(t, r.choice(['find', 'contains', 'findfn']) + ' %d' % self.k())
        elif x < 67:
            self.emit(t, 'erase %d' % self.k())
        elif x < 73:
            self.emit(t, 'erasefn %d %s' % (self.k(), self.fn()))
        elif x < 80:
            self.emit(t, 'update %d %d' % (self.k(), self.v()))
        elif x < 86:
            self.emit(t, 'updatefn %d %s' % (self.k(), r.choice(['noop', 'add:1', 'set:7'])))
        elif x < 96:
            self.resize_op(t, '')
        else:
            self.emit(t, 'clear')

    def locked_op(self, t):
        r = self.rng
        x = r.randrange(100)
        if x < 22: self.emit(t, 'l.insert %d %d' % (self.k(), self.v()))
        elif x < 30: self.emit(t, 'l.erase %d' % self.k())
        elif x < 40: self.emit(t, 'l.find %d %d' % (self.k(), r.randrange(3)))
        elif x < 46: self.resize_op(t, 'l.')
        elif x < 48: self.emit(t, 'l.clear')
        elif x < 56: self.emit(t, 'it.begin %d' % r.randrange(3))
        elif x < 60: self.emit(t, 'it.end %d' % r.randrange(3))
        elif x < 70: self.emit(t, 'it.inc %d' % r.randrange(3))
        elif x < 76: self.emit(t, 'it.dec %d' % r.randrange(3))
        elif x < 82: self.emit(t, 'it.get %d' % r.randrange(3))
        elif x < 85: self.emit(t, 'it.set %d %d' % (r.randrange(3), self.v()))
        elif x < 88: self.emit(t, 'it.eq %d %d' % (r.randrange(3), r.randrange(3)))
        elif x < 93: self.emit(t, 'l.eraseit %d %d' % (r.randrange(3), r.randrange(3)))
        elif x < 97: self.emit(t, 'l.trav')
        else: self.emit(t, 'l.rtrav')

    def file_ops(self):
        r = self.rng
        f = r.randrange(2)
        self.emit(0, 'c.write %d' % f)
        self.have_file[f] = True
        # every truncation offset of the file (its length is at most 8 + 8 * #keys), then the full file
        maxlen = 8 + 8 * (self.nkeys + 3)
        for nb in range(0, maxlen + 1):
            self.emit(0, 'c.read %d %d 2' % (f, nb))
            self.emit(2, 'c.free')
        self.emit(0, 'c.read %d full 1' % f)
        self.emit(1, 'lock'); self.emit(1, 'l.trav'); self.emit(1, 'unlock')
        for k in self.keyset[:self.nkeys]:
            self.emit(1, 'find %d' % k)
        self.emit(1, 'c.free')

    def generate(self):
        r = self.rng
        c = self.cfg
        hdr = ['# capi profile=%s nkeys=%d' % (self.profile, self.nkeys),
               'cfg %d %d %d %d %d' % (c['spb'], c['lbits'], c['simple'], c['nothrow'], c['destructive'])]
        self.emit(0, 'c.init %d' % r.choice([0, 1, 4, 5, 8, 16, 17, 32, 64]))
        n = 0
        files_done = 0
        while n < self.nops:
            n += 1
            if self.active[0]:
                if r.random() < 0.07:
                    self.emit(0, 'unlock'); self.active[0] = False
                elif r.random() < 0.04 and files_done < 2:
                    self.file_ops(); files_done += 1
                else:
                    self.locked_op(0)
            else:
                if r.random() < 0.08:
                    self.emit(0, 'lock'); self.active[0] = True
                    self.emit(0, 'l.trav'); self.emit(0, 'l.rtrav')
                else:
                    self.normal_op(0)
        if not self.active[0]:
            self.emit(0, 'lock')
        self.emit(0, 'l.trav')
        if files_done == 0:
            self.file_ops()
        self.emit(0, 'unlock')
        for k in self.keyset[:self.nkeys]:
            self.emit(0, 'find %d' % k)
        self.emit(0, 'c.free')
        return '\n'.join(hdr + self.lines) + '\n'

def gen_capi_script(seed, cfg, **kw):
    rng = random.Random(seed)
    return CGen(rng, cfg, **kw).generate()

class SpecialGen(Gen):
    """two-to-four tables: copy / move / assignment / swap / allocator-extended constructors (C11) and, for
    trivially copyable types, stream round trips between tables of different sizes (C12)"""
    def __init__(self, rng, cfg, stream=False, **kw):
        super().__init__(rng, cfg, **kw)
        self.stream = stream and cfg['simple'] == 1
        self.state = {0: 'live', 1: 'none', 2: 'none', 3: 'none'}   # none | live | moved

    def live(self):
        return [t for t, s in self.state.items() if s == 'live']

    def work(self, t, n):
        for _ in range(n):
            self.normal_op(t)

    def limit_op(self, t):
        # limits are copied / swapped between tables: keep every table protected (see Gen.limit_op)
        r = self.rng
        if r.random() < 0.5:
            self.emit(t, 'mhp %s' % r.choice(['5', '6', '7', '8']))
        else:
            self.emit(t, 'mlf %s' % r.choice(['1 20', '1 2', '1 4', '1 8', '1 16', '3 4']))

    def special(self):
        r = self.rng
        lv = self.live()
        if not lv:
            t = r.choice([t for t in self.state if self.state[t] == 'none'] or [0])
            if self.state[t] == 'none':
                self.emit(t, 'new %d' % r.choice([0, 1, 4, 8, 16, 33])); self.emit(t, 'mhp 8'); self.state[t] = 'live'
            return
        a = r.choice(lv)
        none = [t for t in self.state if self.state[t] == 'none']
        others = [t for t in self.state if t != a and self.state[t] in ('live', 'moved')]
        x = r.randrange(100)
        if x < 18 and none:
            b = r.choice(none); self.emit(a, 'copyto %d' % b); self.state[b] = 'live'
        elif x < 30 and none:
            b = r.choice(none); self.emit(a, 'moveto %d' % b); self.state[b] = 'live'; self.state[a] = 'moved'
        elif x < 42 and others:
            b = r.choice(others); self.emit(a, 'assignto %d' % b); self.state[b] = 'live'
        elif x < 52 and others:
            b = r.choice(others); self.emit(a, 'massignto %d' % b); self.state[b] = 'live'; self.state[a] = 'moved'
        elif x < 68 and [t for t in others if self.state[t] == 'live'] and not self.cfg.get('noprop'):
            b = r.choice([t for t in others if self.state[t] == 'live']); self.emit(a, 'swap %d' % b)
        elif x < 76 and none:
            b = r.choice(none); self.emit(a, 'copyallocto %d %d' % (b, r.randrange(2))); self.state[b] = 'live'
        elif x < 84 and none:
            b = r.choice(none); e = r.randrange(2)
            self.emit(a, 'moveallocto %d %d' % (b, e)); self.state[b] = 'live'; self.state[a] = 'moved'
        elif x < 92 and len(lv) + len([t for t in self.state if self.state[t] == 'moved']) > 1:
            self.emit(a, 'destroy'); self.state[a] = 'none'
        elif none:
            t = r.choice(none)
            self.emit(t, 'new %d' % r.choice([0, 1, 4, 8, 16, 33])); self.emit(t, 'mhp 8'); self.state[t] = 'live'
        for t in [t for t in self.state if self.state[t] == 'moved']:
            # a moved-from table is only destroyed or assigned to
            if r.random() < 0.3:
                self.emit(t, 'destroy'); self.state[t] = 'none'

    def stream_round(self):
        r = self.rng
        lv = self.live()
        if len(lv) < 2:
            none = [t for t in self.state if self.state[t] == 'none']
            if none:
                t = none[0]
                self.emit(t, 'new %d' % r.choice([0, 1, 2, 4, 8, 16, 32, 64])); self.emit(t, 'mhp 8'); self.state[t] = 'live'
                self.work(t, r.randrange(0, 12))
            lv = self.live()
            if len(lv) < 2: return
        a, b = r.sample(lv, 2)
        si = r.randrange(2)
        self.emit(a, 'lock'); self.emit(a, 'l.trav'); self.emit(a, 'sout %d' % si); self.emit(a, 'l.trav'); self.emit(a, 'unlock')
        self.emit(b, 'lock'); self.emit(b, 'sin %d' % si); self.emit(b, 'l.trav'); self.emit(b, 'l.rtrav')
        for _ in range(r.randrange(0, 4)):
            self.emit(b, 'l.insert %d %d' % (self.k(), self.v()))
        self.emit(b, 'l.trav'); self.emit(b, 'unlock')
        self.work(b, r.randrange(2, 10))

    def generate(self):
        r = self.rng
        c = self.cfg
        keys = make_keys(r, self.nkeys + 3, self.style)
        hdr = (['# judge-only'] if c.get('noprop') else []) + ['# profile=%s style=%s nkeys=%d' % ('stream' if self.stream else 'special', self.style, self.nkeys),
               'cfg %d %d %d %d %d' % (c['spb'], c['lbits'], c['simple'], c['nothrow'], c['destructive'])]
        for k, h in keys.items():
            hdr.append('key %d %d' % (k, h))
        self.emit(0, 'new %d' % r.choice([0, 1, 2, 4, 8, 16, 17, 32]))
        self.emit(0, 'mhp %d' % r.choice([6, 7, 8]))
        self.mhp_none = False
        self.profile = 'grow'
        n = 0
        while n < self.nops:
            n += 1
            lv = self.live()
            if lv and r.random() < 0.7:
                self.work(r.choice(lv), r.randrange(1, 6))
            elif self.stream and r.random() < 0.6:
                self.stream_round()
            else:
                self.special()
        for t in self.live():
            self.emit(t, 'lock'); self.emit(t, 'l.trav'); self.emit(t, 'unlock')
            for k in range(1, self.nkeys + 1):
                self.emit(t, 'find %d' % k)
        return '\n'.join(hdr + self.lines) + '\n'

def gen_script(seed, cfg, **kw):
    rng = random.Random(seed)
    poison = kw.pop('poison', False) if 'poison' in kw else False
    if poison:
        g = Gen(rng, cfg, **kw)
        g.poison = True
        return g.generate()
    prof = kw.get('profile')
    if prof == 'workers':
        kw = dict(kw); kw.pop('profile')
        g = Gen(rng, cfg, profile=rng.choice(['grow', 'locked', 'mixed', 'churn']), **kw)
        # helper threads only with trivially copyable nothrow element types (the instrumented registry is
        # single-threaded, and non-nothrow types grow by rebuild)
        g.use_workers = (cfg['simple'] == 1)
        return g.generate()
    if prof == 'workers_rebuild':
        kw = dict(kw); kw.pop('profile')
        g = Gen(rng, cfg, profile=rng.choice(['resize', 'locked', 'mixed', 'resize']), **kw)
        g.use_workers = (cfg['simple'] == 1)
        g.workers_rebuild = g.use_workers
        return g.generate()
    if prof in ('special', 'stream'):
        kw = dict(kw); kw.pop('profile')
        return SpecialGen(rng, cfg, stream=(prof == 'stream'), **kw).generate()
    return Gen(rng, cfg, **kw).generate()

if __name__ == '__main__':
    import sys
    cfg = dict(spb=int(sys.argv[2]), lbits=int(sys.argv[3]), simple=int(sys.argv[4]), nothrow=int(sys.argv[5]),
               destructive=int(sys.argv[6]))
    sys.stdout.write(gen_script(int(sys.argv[1]), cfg))
