#!/bin/bash
# Builds the Coq development (full .vo) and the extracted model driver.
set -e
cd "$(dirname "$0")/.."
V=$PWD
mkdir -p build/ml
cd coq
[ -f Makefile ] || coq_makefile -f _CoqProject -o Makefile >/dev/null
timeout 3000 make -j16 "$@" > ../build/coq_make.log 2>&1 || { tail -30 ../build/coq_make.log; exit 1; }
cd ../build/ml
if [ ! -f model_driver ] || [ -n "$(find ../../coq -maxdepth 2 -name '*.vo' -newer model_driver -print -quit)" ] || [ ../../ocaml/driver.ml -nt model_driver ] || [ ../../coq/Extract.v -nt model_driver ]; then
  cp ../../coq/Extract.v . && coqc -Q $V/coq LC Extract.v > extract.log 2>&1 || { cat extract.log; exit 1; }
  cp ../../ocaml/driver.ml .
  ocamlfind ocamlopt -w -a -O2 model.mli model.ml driver.ml -o model_driver > ocaml.log 2>&1 || { cat ocaml.log; exit 1; }
fi
