#!/bin/bash
# Builds the Coq development (full .vo) and the extracted model driver.
set -e
cd "$(dirname "$0")/.."
V=$PWD
mkdir -p build/ml
cd coq
[ -f Makefile ] || coq_makefile -f _CoqProject -o Makefile >/dev/null
# only what the executable model needs: a broken proof file must not stop the model from running
timeout 3000 make -j16 gen/HashGen.vo gen/MemOrders.vo Core.vo Api.vo Spec.vo CApi.vo Codec.vo CodecW.vo Conc.vo MemDefs.vo "$@" > ../build/coq_make.log 2>&1 || { tail -30 ../build/coq_make.log; exit 1; }
cd ../build/ml
if [ ! -f model_driver ] || [ -n "$(find ../../coq -maxdepth 2 -name '*.vo' -newer model_driver -print -quit)" ] || [ ../../ocaml/driver.ml -nt model_driver ] || [ ../../coq/Extract.v -nt model_driver ]; then
  cp ../../coq/Extract.v . && coqc -Q $V/coq LC Extract.v > extract.log 2>&1 || { cat extract.log; exit 1; }
  cp ../../ocaml/driver.ml .
  ocamlfind ocamlopt -w -a -O2 model.mli model.ml driver.ml -o model_driver.new > ocaml.log 2>&1 || { cat ocaml.log; exit 1; }
  mv -f model_driver.new model_driver     # atomic: a check running concurrently keeps the old binary
fi
if [ ! -f mem_driver ] || [ ../../coq/MemDefs.vo -nt mem_driver ] || [ ../../coq/gen/MemOrders.vo -nt mem_driver ] || [ ../../ocaml/mem_driver.ml -nt mem_driver ] || [ ../../coq/ExtractMem.v -nt mem_driver ]; then
  cp ../../coq/ExtractMem.v . && coqc -Q $V/coq LC ExtractMem.v > extractmem.log 2>&1 || { cat extractmem.log; exit 1; }
  cp ../../ocaml/mem_driver.ml .
  ocamlfind ocamlopt -w -a -O2 memmodel.mli memmodel.ml mem_driver.ml -o mem_driver.new > ocamlmem.log 2>&1 || { cat ocamlmem.log; exit 1; }
  mv -f mem_driver.new mem_driver
fi
