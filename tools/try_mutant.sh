#!/bin/bash
# usage: tools/try_mutant.sh <patch.diff> <property id>...   - applies a seeded change to /repo, runs the
# given checks (quick tier), prints their VIOLATION/KNOWN-FINDING lines and exit codes, and restores /repo.
set -u
P=$1; shift
cd /verif
if ! git -C /repo diff --quiet; then echo "/repo has uncommitted changes"; exit 2; fi
git -C /repo apply "$P" || { echo "patch does not apply"; exit 2; }
trap 'git -C /repo checkout -- . ' EXIT
for id in "$@"; do
  out=$(timeout 1500 ./check $id --tier quick 2>&1); rc=$?
  echo "== $id exit=$rc"
  echo "$out" | grep -E "VIOLATION|KNOWN-FINDING" | cut -c1-200
done
