#!/usr/bin/env python3
"""T2: concurrent schedule harness driver.
 - builds harness/conc.cc for a set of configurations (from /repo's working tree, hooks on)
 - runs programs+schedules, replays the event trace in the extracted L2 model (trace inclusion)
 - checks the history for linearizability (search in Python over real-time-consistent orders, the
   witness order is then CONFIRMED by running the extracted sequential model on it), for locked
   section exclusivity, deadlock / livelock / lock leaks, and for unordered conflicting accesses to
   the lock list (happens-before over the event trace)."""
import os, subprocess, sys, re, hashlib, itertools, concurrent.futures, json, threading

V = os.path.dirname(os.path.dirname(os.path.abspath(__file__)))
REPO = os.environ.get('VERIF_REPO', '/repo')
BUILD = os.path.join(V, 'build')
DRV = os.path.join(BUILD, 'ml', 'model_driver')

CONC_CFGS_QUICK = [(2, 1), (1, 2), (4, 1)]
CONC_CFGS_THOROUGH = [(2, 1), (1, 2), (4, 1), (1, 1), (2, 2), (3, 1)]

def build_conc(cfgs, valhook=False):
    """valhook: the variant with an instrumented mapped type (every use of a stored value is an event and a read of
    one is a scheduling point); no stream operations in that variant"""
    os.makedirs(BUILD, exist_ok=True)
    def one(c):
        spb, lb = c
        out = os.path.join(BUILD, 'conc_s%d_l%d%s' % (spb, lb, '_v' if valhook else ''))
        cmd = ['g++', '-std=gnu++17', '-O1', '-g', '-DNDEBUG', '-I', REPO, '-DLIBCUCKOO_VERIF=1', '-DH_SPB=%d' % spb] + (['-DH_VALHOOK=1'] if valhook else []) + [
               '-DLIBCUCKOO_VERIF_MAX_NUM_LOCKS=%d' % (1 << lb), os.path.join(V, 'harness', 'conc.cc'), '-o', out, '-lpthread']
        r = subprocess.run(cmd, capture_output=True, text=True)
        if r.returncode != 0:
            raise RuntimeError('conc harness build failed:\n' + r.stderr[-3000:])
        return c, out
    with concurrent.futures.ThreadPoolExecutor(max_workers=8) as ex:
        return dict(ex.map(one, cfgs))

# ----------------------------------------------------------------------------- sequential spec (search only)
def fn_apply(f, v, newly):
    p = f.split(':')
    if p[0] == 'noop': return v, False
    if p[0] == 'add': return v + int(p[1]), False
    if p[0] == 'set': return int(p[1]), False
    if p[0] == 'eraseifeq': return v, v == int(p[1])
    if p[0] == 'adderaseeven': return v + int(p[1]), (v + int(p[1])) % 2 == 0
    if p[0] == 'ctx':
        y = v + (int(p[1]) if newly else int(p[2]))
        return y, y == 0
    raise ValueError(f)

POLICY = ('exc:maximum_hashpower_exceeded', 'exc:load_factor_too_low')

def spec_apply(m, op, res):
    """m: dict; returns new dict if (op,res) is allowed from m, else None"""
    o = op[0]
    if res == ['exc:UNMODELLED']:
        return m
    if o == 'l.sinbad':
        # extraction of an image whose stored minimum load factor is out of its domain: the bucket array has been
        # replaced when the setter throws, so the section leaves the image's contents behind
        if res != ['exc:invalid_argument']: return None
        m2 = {}
        args = op[2:]
        for i in range(0, len(args) - 1, 2):
            k, v = int(args[i]), int(args[i + 1])
            if k not in m2: m2[k] = v
        return m2
    if res and res[0] in POLICY:
        return m if o in ('insert', 'ioa', 'upsert', 'uprase', 'rehash', 'reserve', 'l.insert', 'l.rehash', 'l.reserve') else None
    def B(b): return 'true' if b else 'false'
    if o in ('find', 'l.find'):
        k = int(op[1])
        exp = [B(True), str(m[k])] if k in m else [B(False)]
        return m if res == exp else None
    if o == 'contains':
        return m if res == [B(int(op[1]) in m)] else None
    if o in ('insert', 'l.insert'):
        k, v = int(op[1]), int(op[2])
        if k in m: return m if res == [B(False)] else None
        if res != [B(True)]: return None
        m2 = dict(m); m2[k] = v; return m2
    if o == 'ioa':
        k, v = int(op[1]), int(op[2])
        if res != [B(k not in m)]: return None
        m2 = dict(m); m2[k] = v; return m2
    if o == 'update':
        k, v = int(op[1]), int(op[2])
        if k not in m: return m if res == [B(False)] else None
        if res != [B(True)]: return None
        m2 = dict(m); m2[k] = v; return m2
    if o == 'erase':
        k = int(op[1])
        if k not in m: return m if res == [B(False)] else None
        if res != [B(True)]: return None
        m2 = dict(m); del m2[k]; return m2
    if o == 'l.erase':
        k = int(op[1])
        if k not in m: return m if res == ['0'] else None
        if res != ['1']: return None
        m2 = dict(m); del m2[k]; return m2
    if o in ('updatefn', 'erasefn'):
        k, f = int(op[1]), op[2]
        if k not in m: return m if res == [B(False)] else None
        v = m[k]
        if res != [B(True), 'fn(%d,old)' % v]: return None
        nv, er = fn_apply(f, v, False)
        m2 = dict(m)
        if o == 'erasefn' and er: del m2[k]
        else: m2[k] = nv
        return m2
    if o in ('upsert', 'uprase'):
        k, f, two, v = int(op[1]), op[2], op[3] == '1', int(op[4])
        m2 = dict(m)
        if k in m:
            v0 = m[k]
            if res != [B(False), 'fn(%d,old)' % v0]: return None
            nv, er = fn_apply(f, v0, False)
            if o == 'uprase' and er: del m2[k]
            else: m2[k] = nv
            return m2
        if two:
            if res != [B(True), 'fn(%d,new)' % v]: return None
            nv, er = fn_apply(f, v, True)
            if o == 'uprase' and er: return m2
            m2[k] = nv
            return m2
        if res != [B(True)]: return None
        m2[k] = v
        return m2
    if o in ('rehash', 'reserve'):
        return m if res in (['true'], ['false']) else None
    if o in ('clear', 'l.clear'):
        return {} if res == ['-'] else None
    if o in ('lock', 'unlock', 'l.rehash', 'l.reserve', 'mlf', 'mhp'):
        return m if res == ['-'] or res == ['exc:invalid_argument'] else None
    if o == 'l.sin':
        if res != ['-']: return None
        m2 = {}
        args = op[2:]
        for i in range(0, len(args) - 1, 2):
            k, v = int(args[i]), int(args[i + 1])
            if k not in m2: m2[k] = v
        return m2
    return None

def parse_run(out):
    """-> dict with events, history ops [(tid, op, res, inv_idx, ret_idx)], final contents, flags"""
    lines = out.split('\n')
    hist = []
    open_inv = {}
    events = []
    trace = []        # EV and AC (data access) lines in order
    ev_idx = []       # (position, tid, label) of every protocol event
    arrs0 = []
    idx = 0
    final = None
    flags = dict(deadlock=False, livelock=False, locks_free=None)
    for ln in lines:
        tk = ln.split()
        if not tk: continue
        if tk[0] == 'H':
            t = int(tk[1])
            if tk[2] == 'inv':
                if tk[3] == 'findthrow': tk[3] = 'find'     # the throwing overload: same history-level meaning
                open_inv[t] = (tk[3:], idx)
            else:
                op, i0 = open_inv.pop(t)
                hist.append(dict(tid=t, op=op, res=tk[3:], inv=i0, ret=idx))
            idx += 1
        elif tk[0] == 'EV':
            events.append((int(tk[1]), tk[2:]))
            trace.append((int(tk[1]), tk[2:]))
            ev_idx.append((idx, int(tk[1]), tk[2]))
            idx += 1
        elif tk[0] == 'AC':
            trace.append((int(tk[1]), ['ACC'] + tk[2:]))
        elif tk[0] == 'ARRS':
            arrs0 = [int(x) for x in tk[1:]]
        elif tk[0] == 'CONTENTS':
            final = {}
            dup = False
            for kv in tk[1:]:
                k, v = kv.split('=')
                if int(k) in final: dup = True
                final[int(k)] = int(v)
            flags['dup_key'] = dup
        elif tk[0] == 'CONTENTS0':
            flags['init'] = {int(kv.split('=')[0]): int(kv.split('=')[1]) for kv in tk[1:]}
        elif tk[0] == 'SIZE-MISMATCH': flags['size_mismatch'] = ln
        elif tk[0] == 'HANG': flags['hang'] = True
        elif tk[0] == 'OOB-LOCK': flags['oob'] = ln
        elif tk[0] == 'FOREIGN-UNLOCK': flags['foreign'] = ln
        elif tk[0] == 'DEADLOCK': flags['deadlock'] = True
        elif tk[0] == 'LIVELOCK': flags['livelock'] = True
        elif tk[0] == 'LOCKS': flags['locks_free'] = (tk[1] == 'free=1')
        elif tk[0] == 'FINAL':
            flags['final_line'] = ln
    pending = [dict(tid=t, op=op, res=None, inv=i0, ret=None) for t, (op, i0) in open_inv.items()]
    return dict(events=events, hist=hist, pending=pending, final=final, flags=flags, trace=trace, arrs0=arrs0, ev_idx=ev_idx)

def linearize(init, hist, final):
    """DFS over real-time-consistent orders in which a locked section is not interleaved with other
    threads' operations; returns the witness order (list of indices) or None"""
    n = len(hist)
    order = []
    seen = set()
    def key(m): return tuple(sorted(m.items()))
    def rec(done_mask, m, owner):
        if done_mask == (1 << n) - 1:
            return final is None or m == final
        st = (done_mask, key(m), owner)
        if st in seen: return False
        seen.add(st)
        min_ret = min(hist[i]['ret'] for i in range(n) if not done_mask & (1 << i))
        for i in range(n):
            if done_mask & (1 << i): continue
            if hist[i]['inv'] > min_ret: continue
            # (a resize request for the current size returns false without synchronising: recorded finding,
            #  reported by section_exclusive; it is a no-op and may sit anywhere)
            noop = hist[i]['op'][0] in ('rehash', 'reserve') and hist[i]['res'] == ['false']
            if owner is not None and hist[i]['tid'] != owner and not noop: continue
            m2 = spec_apply(m, hist[i]['op'], hist[i]['res'])
            if m2 is None: continue
            o = hist[i]['op'][0]
            owner2 = owner
            if o == 'lock' and hist[i]['res'] == ['-']: owner2 = hist[i]['tid']
            elif o == 'unlock': owner2 = None
            order.append(i)
            if rec(done_mask | (1 << i), m2, owner2): return True
            order.pop()
        return False
    ok = rec(0, dict(init), None)
    return list(order) if ok else None

def section_exclusive(hist, ev_idx=()):
    """no operation of another thread takes effect or returns while a locked section is active.  An operation that
    had performed its last synchronisation event (it released everything it held) BEFORE lock_table() returned is
    complete: only its return instruction is still to be executed, which no lock can delay - it is not counted."""
    bad = []
    for h in hist:
        if h['op'][0] == 'lock' and h['res'] == ['-']:
            t = h['tid']
            start = h['ret']
            ends = [x['inv'] for x in hist if x['tid'] == t and x['op'][0] == 'unlock' and x['inv'] > start]
            end = min(ends) if ends else 10 ** 9
            for x in hist:
                if x['tid'] != t and start < x['ret'] < end:
                    own = [i for (i, tt, lab) in ev_idx if tt == x['tid'] and x['inv'] < i < x['ret'] and lab != 'RET']
                    if ev_idx and own and max(own) < start:
                        continue
                    bad.append((h, x))
    return bad

def lock_list_races(events):
    """vector-clock happens-before over the event trace; returns unordered (write, read) pairs on the lock list"""
    nthr = max([t for t, _ in events] + [0]) + 1
    vc = [[0] * nthr for _ in range(nthr)]
    rel = {}          # sync object -> vector clock of last release
    writes = []       # (vc copy, tid, idx)
    races = []
    def join(a, b): return [max(x, y) for x, y in zip(a, b)]
    for idx, (t, ev) in enumerate(events):
        vc[t][t] += 1
        k = ev[0]
        if k == 'LOCKED':
            o = ('L', ev[1], ev[2])
            if o in rel: vc[t] = join(vc[t], rel[o])
        elif k == 'UNLOCK':
            rel[('L', ev[1], ev[2])] = list(vc[t])
        elif k == 'FA_RC':
            rel[('RC',)] = list(vc[t])
        elif k == 'LD_RC':
            if ('RC',) in rel: vc[t] = join(vc[t], rel[('RC',)])
        elif k == 'ST_HP':
            rel[('HP',)] = list(vc[t])
        elif k == 'LD_HP':
            if ('HP',) in rel: vc[t] = join(vc[t], rel[('HP',)])
        if k == 'EMPLACE':
            writes.append((list(vc[t]), t, idx))
        elif k in ('CURLOCKS', 'ALL_FIRST', 'ALL_NEXT'):
            for (wvc, wt, widx) in writes:
                if wt != t and not all(x <= y for x, y in zip(wvc, vc[t])):
                    races.append((widx, idx, wt, t, k))
    return races

MEMDRV = os.path.join(os.path.dirname(DRV), 'mem_driver')

def mem_check(trace, arrs0, lbits):
    """the run as an execution of the happens-before model (coq/MemDefs.v): lock acquisitions / releases,
    decrements of the pending-stripes counter and the bucket accesses the guarded hook reports; the extracted
    detector decides (a) lock well-formedness, (b) every bucket access is made under the stripe lock of
    that bucket in the lock array current at that moment (premise of MemModel.lock_protected_race_free),
    (c) no two conflicting accesses are unordered by happens-before under the memory orders of the source."""
    kmax = 1 << lbits
    sizes = list(arrs0)
    lock_id, loc_id, gloc_id = {}, {}, {}
    def lid(a, l): return lock_id.setdefault((a, l), len(lock_id))
    phys, gen, prot = [], [], {}
    desc = []
    old_seen = set()
    nacc = 0
    freeing = None     # thread currently inside clear_and_deallocate of the superseded array
    for (t, tk) in trace:
        k = tk[0]
        line = None
        if freeing is not None and not (t == freeing and k == 'ACC' and tk[1] == '1'):
            freeing = None
        if k == 'LOCKED': line = 'T %d %d' % (t, lid(int(tk[1]), int(tk[2])))
        elif k == 'UNLOCK': line = 'C %d %d' % (t, lid(int(tk[1]), int(tk[2])))
        elif k == 'EMPLACE':
            a = len(sizes); sizes.append(int(tk[1]))
            for l in range(int(tk[1])):
                ln = 'T %d %d' % (t, lid(a, l)); phys.append(ln); gen.append(ln); desc.append((t, ['created-locked', a, l]))
            continue
        elif k == 'ACC' and tk[1] == 'DEC': line = 'D %d' % t
        elif k == 'ACC' and tk[1] == 'FREEOLD':
            for i in sorted(old_seen):
                x = loc_id.setdefault((1, i), len(loc_id))
                phys.append('W %d %d' % (t, x)); desc.append((t, ['free-old-array', i]))
                gen.append('#')
            freeing = t
            continue
        elif k == 'ACC':
            which, i, w = int(tk[1]), int(tk[2]), int(tk[3])
            if freeing == t and which == 1:
                # destruction of the moved-from elements of the superseded array by the thread whose decrement was
                # the last: ordered after every migration by the acq_rel decrements (MemModel.last_decrement_frees_safely),
                # not by a stripe lock
                x = loc_id.setdefault((1, i), len(loc_id))
                phys.append('W %d %d' % (t, x)); gen.append('#'); desc.append((t, ['free-old-array', i]))
                continue
            nacc += 1
            if which == 1: old_seen.add(i)
            a = len(sizes) - 1
            l = i & (kmax - 1)
            x = loc_id.setdefault((which, i), len(loc_id))
            gx = gloc_id.setdefault((a, which, i), len(gloc_id))
            prot[gx] = lid(a, l) if l < sizes[a] else 999999
            phys.append('%s %d %d' % ('W' if w else 'R', t, x))
            gen.append('%s %d %d' % ('W' if w else 'R', t, gx))
            desc.append((t, ['bucket', 'old' if which else 'cur', i, 'write' if w else 'access', 'array', a, 'stripe', l]))
            continue
        if line is None: continue
        phys.append(line); gen.append(line); desc.append((t, tk))
    res = dict(naccess=nacc, nevents=len(phys))
    if nacc == 0: return res
    gen2 = [g for g in gen if g != '#']
    gdesc = [d for g, d in zip(gen, desc) if g != '#']
    inp = '\n'.join(gen2 + ['P %d %d' % (x, l) for x, l in prot.items()]) + '\n'
    r = subprocess.run([MEMDRV, '--prot-only'], input=inp, capture_output=True, text=True, timeout=300)
    for ln in r.stdout.split('\n'):
        tk = ln.split()
        if tk[:1] == ['PROT'] and tk[1] == 'false':
            j = int(tk[2]); res['unprotected'] = (j, gdesc[j] if j < len(gdesc) else None)
        if tk[:1] == ['ORDERS']: res['orders'] = ln
    r = subprocess.run([MEMDRV], input='\n'.join(phys) + '\n', capture_output=True, text=True, timeout=600)
    for ln in r.stdout.split('\n'):
        tk = ln.split()
        if tk[:1] == ['RACES'] and int(tk[1]) > 0:
            i, j = int(tk[2]), int(tk[3])
            res['race'] = (int(tk[1]), desc[i], desc[j])
        if tk[:1] == ['WF']: res['wf'] = (tk[1] == 'true')
    return res

def seq_script_for(order, hist, cfgline, keylines, pre):
    """sequential script realising a linearization, for confirmation by the extracted model"""
    lines = [cfgline] + keylines
    img = 0
    body = []
    for p in pre:
        body.append('0 ' + ' '.join(p))
    for i in order:
        op = hist[i]['op']
        if hist[i]['res'] == ['exc:UNMODELLED']:
            continue
        if op[0] == 'l.sin':
            body.append('1 new 0'); body.append('1 mhp 10') ; body.append('1 rehash %s' % op[1])
            a = op[2:]
            for j in range(0, len(a) - 1, 2):
                body.append('1 insert %s %s' % (a[j], a[j + 1]))
            body.append('1 lock'); body.append('1 sout %d' % img); body.append('1 unlock'); body.append('1 destroy')
            body.append('0 sin %d' % img)
        elif op[0] == 'l.find':
            body.append('0 l.at %s' % op[1])
        else:
            body.append('0 ' + ' '.join(op))
    return '\n'.join(lines + body) + '\n'

def directed_variants(script, out, fail_line, max_variants=6):
    """Schedules aimed at the first event of the real trace that is not a step of the model: keep the
    scheduling decisions up to the yield that precedes it, then let every other thread run as long as it
    can before the offending thread continues (and, as a second family, switch one yield earlier)."""
    lines = out.split('\n')
    decisions = []
    pos_of_line = {}
    for i, ln in enumerate(lines):
        if ln.startswith('Y '):
            decisions.append(int(ln.split()[1]))
        pos_of_line[i + 1] = len(decisions)
    if fail_line not in pos_of_line:
        return []
    n = pos_of_line[fail_line]
    m = [l for l in lines[:fail_line] if l.startswith('EV ')]
    if not m:
        return []
    offender = int(lines[fail_line - 1].split()[1]) if lines[fail_line - 1].startswith('EV ') else None
    nthr = len([l for l in script.split('\n') if l.startswith('thread ')])
    base = [l for l in script.split('\n') if not (l.startswith('seed ') or l.startswith('sched '))]
    res = []
    for back in (1, 2, 3, 0):
        k = max(0, n - back)
        for u in range(nthr):
            if u == offender:
                continue
            sched = decisions[:k] + [u] * 400
            res.append('\n'.join(base + ['sched ' + ' '.join(map(str, sched))]) + '\n')
            if len(res) >= max_variants:
                return res
    return res

def _rm(path):
    try:
        os.unlink(path)
    except FileNotFoundError:
        pass

def run_one(args):
    binary, script, tag, keep_dir, do_confirm = args
    os.makedirs(keep_dir, exist_ok=True)
    h = hashlib.sha1(script.encode()).hexdigest()[:16]
    path = os.path.join(keep_dir, 'conc_%s_%s.txt' % (tag, h))
    open(path, 'w').write(script)
    try:
        r = subprocess.run([binary, path], capture_output=True, text=True, timeout=60)
        rc, out = r.returncode, r.stdout
    except subprocess.TimeoutExpired:
        rc, out = -999, ''
    res = dict(path=path, tag=tag, rc=rc, problems=[], known=[])
    if rc == -999:
        res['problems'].append(('C04', 'run did not finish within 60 s (spinning or blocked outside the scheduler)'))
        return res
    run = parse_run(out)
    fl = run['flags']
    res['nevents'] = len(run['events'])
    res['nops'] = len(run['hist'])
    res['switches'] = sum(1 for a, b in zip(run['events'], run['events'][1:]) if a[0] != b[0])
    if fl['deadlock']:
        res['problems'].append(('C04', 'deadlock: no thread can run; pending ops %s' % [p['op'] for p in run['pending']]))
        return res
    if fl.get('oob'):
        res['problems'].append(('C03', 'memory access outside the lock array: ' + fl['oob']))
    if fl.get('foreign'):
        res['problems'].append(('C03', 'lock released by a thread that does not own it: ' + fl['foreign']))
    if fl.get('hang'):
        res['problems'].append(('C04', 'a thread spins or blocks forever outside the scheduler (alarm after 20 s); pending ops %s' % [p['op'] for p in run['pending']]))
        return res
    if fl['livelock']:
        res['problems'].append(('C04', 'event budget exhausted: some thread never completes its operation'))
        return res
    if rc != 0:
        res['problems'].append(('C01', 'harness exited with status %s' % rc))
        return res
    if fl['locks_free'] is False:
        res['problems'].append(('C04', 'a lock is still held after every thread finished'))
    # trace inclusion in the extracted L2 model
    op = path + '.%d.out' % threading.get_ident()
    open(op, 'w').write(out)
    rr = subprocess.run([DRV, '--conc', op], capture_output=True, text=True, timeout=120)
    _rm(op)
    rep = [l for l in rr.stdout.split('\n') if l.startswith('REPLAY-FAIL')]
    res['replayed'] = not rep
    if rep:
        res['replay_fail'] = rep[0]
        mm = re.search(r'line (\d+)', rep[0])
        if mm:
            res['directed'] = directed_variants(script, out, int(mm.group(1)))
    # lock-list race (known finding signature)
    races = lock_list_races(run['events'])
    if races:
        res['known'].append(('C03', 'lock-list-tail-race', 'unsynchronised read of the lock list (%s) concurrent with emplace_back: events %s' % (races[0][4], races[0][:2])))
    # data accesses against the happens-before model (extracted MemDefs.v)
    memmode = os.environ.get('VERIF_T2_MEM', '1')
    ordinary_sweep = tag.startswith('sweep_')     # single-preemption sweeps: hundreds of near-identical runs
    if (memmode == '1' and (not ordinary_sweep or int(h, 16) % 4 == 0)) or (memmode == 'random' and not tag.startswith('sweep')):
        lb = int(re.search(r'^cfg (\d+) (\d+)', script, flags=re.M).group(2))
        mc = mem_check(run['trace'], run['arrs0'], lb)
        res['mem'] = dict(naccess=mc.get('naccess', 0), orders=mc.get('orders'))
        if mc.get('unprotected'):
            j, d = mc['unprotected']
            res['problems'].append(('C03', 'unprotected access: thread %s touches %s without holding the stripe lock of that bucket in the current lock array (event %d of the execution)' % (d[0] if d else '?', ' '.join(map(str, d[1])) if d else '?', j)))
        if mc.get('race'):
            n, a, b = mc['race']
            res['problems'].append(('C03', 'data race: %d pair(s) of conflicting accesses unordered by happens-before under the memory orders of the source (%s), e.g. thread %s %s / thread %s %s' % (
                n, mc.get('orders'), a[0], ' '.join(map(str, a[1])), b[0], ' '.join(map(str, b[1])))))
    # pre ops and initial contents
    pre = [l.split()[1:] for l in script.split('\n') if l.startswith('pre ')]
    init = fl.get('init', {})
    if fl.get('size_mismatch'):
        res['problems'].append(('C05', 'after all threads joined: ' + fl['size_mismatch']))
    if fl.get('dup_key'):
        res['problems'].append(('C01', 'a key is stored twice in the final table'))
    order = linearize(init, run['hist'], run['final'])
    res['linearizable'] = order is not None
    if order is None:
        res['problems'].append(('C01', 'history has no linearization (results / final contents inconsistent with every real-time-consistent order)'))
    for (h0, x) in section_exclusive(run['hist'], run['ev_idx']):
        res['problems'].append(('C06', 'operation %s of thread %d returned while thread %d held an active locked_table' % (x['op'], x['tid'], h0['tid'])))
    # confirmation of the witness order by the extracted sequential model
    if order is not None and do_confirm and not any(h['op'][0] == 'l.sinbad' for h in run['hist']):
        cfgline = [l for l in script.split('\n') if l.startswith('cfg ')][0]
        keylines = [l for l in script.split('\n') if l.startswith('key ')]
        initl = [l for l in script.split('\n') if l.startswith('init ')]
        sc = seq_script_for(order, run['hist'], cfgline, keylines, [])
        sc = sc.replace(cfgline + '\n', cfgline + '\n', 1)
        body = sc.split('\n')
        hdr = [l for l in body if l.startswith('cfg') or l.startswith('key')]
        rest = [l for l in body if l and not (l.startswith('cfg') or l.startswith('key'))]
        full = hdr + ['0 new %s' % (initl[0].split()[1] if initl else '4')] + ['0 ' + ' '.join(p) for p in pre] + rest
        sp = path + '.%d.seq' % threading.get_ident()
        open(sp, 'w').write('\n'.join(full) + '\n')
        mr = subprocess.run([DRV, sp], capture_output=True, text=True, timeout=120)
        _rm(sp)
        # compare the model's results of the linearized ops with the concurrent results
        mres = [l[2:].split() for l in mr.stdout.split('\n') if l.startswith('R ')]
        mops = [l.split()[2:] for l in mr.stdout.split('\n') if l.startswith('#')]
        want = []
        for i in order:
            hop = run['hist'][i]
            if hop['res'] == ['exc:UNMODELLED']: continue
            if hop['op'][0] == 'l.sin': want.append((['sin', '*'], ['-']))
            elif hop['op'][0] == 'l.find':
                want.append((['l.at', hop['op'][1]], [hop['res'][1]] if hop['res'][0] == 'true' else ['exc:out_of_range']))
            elif hop['op'][0] in ('rehash', 'reserve'): want.append((hop['op'], None))
            elif hop['op'][0] == 'l.insert': want.append((hop['op'], ['@', hop['res'][0]]))
            elif hop['res'] and hop['res'][0] in POLICY: want.append((hop['op'], None))
            else: want.append((hop['op'], hop['res']))
        j = 0
        conf = True
        nsetup = 1 + len(pre)      # 'new' and the set-up operations precede the linearized ones in the model's run
        for (mo, mre) in list(zip(mops, mres))[nsetup:]:
            if j >= len(want): break
            wo, wr = want[j]
            if mo[:1] == wo[:1] and (wo[1:2] == ['*'] or mo[1:] == wo[1:]):
                if wr is not None:
                    if wr[:1] == ['@']:
                        if mre[-1:] != wr[1:]: conf = False
                    elif mre != wr: conf = False
                j += 1
        if j < len(want): conf = False
        res['confirmed'] = conf
        if not conf:
            res['confirm_detail'] = dict(want=want, model_ops=mops, model_res=mres, seq=full)
    if not res['problems'] and res.get('replayed', True) and res.get('confirmed') is not False:
        _rm(path)
    return res

def run_many(jobs, workers=16):
    with concurrent.futures.ThreadPoolExecutor(max_workers=workers) as ex:
        return list(ex.map(run_one, jobs))

if __name__ == '__main__':
    sys.path.insert(0, os.path.join(V, 'tools'))
    import gen_conc
    n = int(sys.argv[1]) if len(sys.argv) > 1 else 60
    seed = int(sys.argv[2]) if len(sys.argv) > 2 else 1
    bins = build_conc(CONC_CFGS_QUICK)
    jobs = []
    for i in range(n):
        c = CONC_CFGS_QUICK[i % len(CONC_CFGS_QUICK)]
        jobs.append((bins[c], gen_conc.gen_conc(seed * 7919 + i, c[0], c[1]), 's%d_l%d' % c, os.path.join(BUILD, 'cases_conc'), True))
    res = run_many(jobs)
    bad = [r for r in res if r['problems'] or not r.get('replayed', True) or r.get('confirmed') is False]
    print(len(res), 'runs', len(bad), 'bad', sum(1 for r in res if r['known']), 'with known-finding signatures',
          sum(r.get('switches', 0) for r in res), 'context switches')
    for r in bad[:6]:
        print(json.dumps(r, indent=1)[:1500])
