#!/usr/bin/env python3
"""usage: addprops.py <Properties file> <module to import> <comment> name=lemma ...
Appends `Theorem name : <statement as printed by Check lemma>. Proof. exact lemma. Qed. Print Assumptions name.`
to a property file (adding `From LC Require Import <module>.` before the first appended block)."""
import sys, re
sys.path.insert(0, '/verif/tools')
import mkprops
f, mod, comment = sys.argv[1], sys.argv[2], sys.argv[3]
pairs = [tuple(a.split('=')) for a in sys.argv[4:]]
src = open(f).read()
imports = '\n'.join(l for l in src.split('\n') if re.match(r'^(From|Require)', l)) + '\nFrom LC Require Import %s.' % mod
scopes = ['N_scope'] if 'Open Scope N_scope' in src else []
th = mkprops.stmts(imports, pairs, scopes=scopes)
out = src.rstrip('\n') + '\n\n(* ---- ' + comment + ' ---- *)\nFrom LC Require Import %s.\n' % mod + '\n'.join(th)
open(f, 'w').write(out)
print(len(th), 'theorems appended to', f)
