#!/bin/bash
# usage: tools/eval_mutant.sh <name> <worktree> <outdir> <check ids...>
# confirms the demonstration (passes on /repo, fails on the changed worktree), runs the given checks against the
# change applied to /repo (restored afterwards), and stores everything under seeded/<name>/
set -u
NAME=$1; WT=$2; OUT=$3; shift 3
cd /verif
D=seeded/$NAME
mkdir -p $D
cp $OUT/patch.diff $D/patch.diff
cp $OUT/demo.cc $D/demo.cc 2>/dev/null
cp $OUT/meta.json $D/agent_meta.json 2>/dev/null
EXTRA=""
grep -q "NDEBUG" $D/agent_meta.json 2>/dev/null && grep -q -- "-DNDEBUG" $D/agent_meta.json && EXTRA="-DNDEBUG"
g++ -std=gnu++17 -O1 $EXTRA -pthread -I /repo $D/demo.cc -o /tmp/demo_o_$NAME 2>/tmp/demo_build_$NAME.log; timeout 120 /tmp/demo_o_$NAME > /tmp/demo_o_$NAME.txt 2>&1; RO=$?
g++ -std=gnu++17 -O1 $EXTRA -pthread -I $WT $D/demo.cc -o /tmp/demo_m_$NAME 2>>/tmp/demo_build_$NAME.log; timeout 120 /tmp/demo_m_$NAME > /tmp/demo_m_$NAME.txt 2>&1; RM=$?
echo "demo: original exit=$RO changed exit=$RM"
RES=$(tools/try_mutant.sh /verif/$D/patch.diff "$@")
echo "$RES"
python3 - "$NAME" "$RO" "$RM" "$RES" "$@" <<'PY'
import json,sys,os
name,ro,rm,res=sys.argv[1],int(sys.argv[2]),int(sys.argv[3]),sys.argv[4]
checks=sys.argv[5:]
d='seeded/'+name
am=json.load(open(d+'/agent_meta.json')) if os.path.exists(d+'/agent_meta.json') else {}
meta=dict(property=am.get('property',name[:3]), summary=am.get('summary'), needs=am.get('needs'),
  demo_build=am.get('demo_build'), demo_expect=am.get('demo_expect'),
  confirmed=dict(demo_exit_on_repo=ro, demo_exit_on_changed_tree=rm, suite_passed_with_change=am.get('tests_passed')),
  checks_run=checks, check_output=res.split('\n'))
json.dump(meta,open(d+'/meta.json','w'),indent=1)
PY
rm -f /tmp/demo_o_$NAME /tmp/demo_m_$NAME
