#!/bin/bash
# One-time offline build of the framework: Coq development (with the pieces generated from /repo),
# extracted model driver. Harness binaries are rebuilt by every check from /repo's working tree.
set -e
cd "$(dirname "$0")/.."
mkdir -p build evidence
python3 tools/cxx2coq.py "${VERIF_REPO:-/repo}" coq/gen
rm -f coq/Makefile coq/Makefile.conf
tools/build_model.sh
