#!/usr/bin/env python3
"""T1: sequential white-box correspondence between the extracted Coq model and the real library.

Library of helpers used by ./check: building harness binaries for a set of configurations,
running scripts on both sides, slot-exact comparison."""
import os, subprocess, sys, concurrent.futures, resource, hashlib, json, time

V = os.path.dirname(os.path.dirname(os.path.abspath(__file__)))
REPO = os.environ.get('VERIF_REPO', '/repo')
BUILD = os.path.join(V, 'build')

def cfg_name(c):
    return 'seq_s%d_l%d_k%d_n%d' % (c['spb'], c['lbits'], c['kind'], c['nothrow']) + ('_np' if c.get('noprop') else '')

def mkcfg(spb, lbits, kind, nothrow=1, noprop=0):
    """noprop: the harness allocator does not propagate on copy / move assignment and swap (judge-only scripts)"""
    return dict(spb=spb, lbits=lbits, kind=kind, nothrow=nothrow if kind == 1 else 1,
                simple=1 if kind == 0 else 0, destructive=0 if kind == 0 else 1, noprop=noprop)

QUICK_CFGS = [mkcfg(1, 1, 0), mkcfg(2, 1, 0), mkcfg(4, 2, 0), mkcfg(2, 2, 1, 1), mkcfg(3, 1, 1, 0), mkcfg(8, 1, 0),
              mkcfg(4, 16, 0)]
THOROUGH_CFGS = QUICK_CFGS + [mkcfg(1, 2, 1, 1), mkcfg(4, 1, 1, 0), mkcfg(3, 2, 0), mkcfg(2, 3, 0), mkcfg(8, 2, 1, 1),
                              mkcfg(1, 1, 1, 0), mkcfg(4, 3, 1, 1)]

def build_one(c, extra_flags=()):
    out = os.path.join(BUILD, cfg_name(c))
    cmd = ['g++', '-std=gnu++17', '-O1', '-g', '-I', REPO, '-DH_SPB=%d' % c['spb'],
           '-DH_KIND=%d' % c['kind'], '-DH_NOTHROW=%d' % c['nothrow'], '-DLIBCUCKOO_VERIF=1']
    if c['lbits'] != 16:
        cmd.append('-DLIBCUCKOO_VERIF_MAX_NUM_LOCKS=%d' % (1 << c['lbits']))
    if c.get('noprop'):
        cmd.append('-DH_NOPROP=1')
    cmd += list(extra_flags) + [os.path.join(V, 'harness', 'seq.cc'), '-o', out, '-lpthread']
    r = subprocess.run(cmd, capture_output=True, text=True)
    return (c, out, r.returncode, r.stderr[-3000:])

def build_harness(cfgs):
    """always rebuilds from REPO's current working tree"""
    os.makedirs(BUILD, exist_ok=True)
    res = {}
    with concurrent.futures.ThreadPoolExecutor(max_workers=16) as ex:
        for (c, out, rc, err) in ex.map(build_one, cfgs):
            if rc != 0:
                raise RuntimeError('harness build failed for %s:\n%s' % (cfg_name(c), err))
            res[cfg_name(c)] = out
    return res

def _limits():
    resource.setrlimit(resource.RLIMIT_AS, (4 << 30, 4 << 30))
    resource.setrlimit(resource.RLIMIT_CPU, (60, 60))

def run_impl(binary, script_path, timeout=60):
    try:
        r = subprocess.run([binary, script_path], capture_output=True, text=True, timeout=timeout, preexec_fn=_limits)
        return r.returncode, r.stdout, r.stderr
    except subprocess.TimeoutExpired:
        return -999, '', 'timeout'

def run_model(script_path, timeout=240):
    drv = os.path.join(BUILD, 'ml', 'model_driver')
    try:
        r = subprocess.run([drv, script_path], capture_output=True, text=True, timeout=timeout)
        return r.returncode, r.stdout, r.stderr
    except subprocess.TimeoutExpired:
        return -999, '', 'timeout'

def run_judge(script_path, impl_out_path, timeout=120):
    drv = os.path.join(BUILD, 'ml', 'model_driver')
    r = subprocess.run([drv, '--judge', script_path, impl_out_path], capture_output=True, text=True, timeout=timeout)
    blames = [l for l in r.stdout.split('\n') if l.startswith('BLAME')]
    judged = [l for l in r.stdout.split('\n') if l.startswith('JUDGED')]
    return r.returncode, blames, (int(judged[0].split()[1]) if judged else 0), r.stderr[-500:]

def compare(impl_out, model_out):
    """returns None if equal, else dict describing the first difference"""
    a = impl_out.split('\n')
    b = model_out.split('\n')
    cur_op = None
    n = max(len(a), len(b))
    for i in range(n):
        x = a[i] if i < len(a) else '<eof>'
        y = b[i] if i < len(b) else '<eof>'
        if x.startswith('#'):
            cur_op = x
        if x != y:
            return dict(line=i + 1, op=cur_op, impl=x, model=y)
    return None

def features(impl_out):
    """which non-trivial mechanisms did this script reach (for distinct_nontrivial)"""
    f = set()
    prev_hp = None
    for line in impl_out.split('\n'):
        if line.startswith('T0 '):
            parts = dict(p.split('=') for p in line.split()[1:])
            hp = int(parts['hp'])
            if prev_hp is not None and hp > prev_hp: f.add('grow')
            if prev_hp is not None and hp < prev_hp: f.add('shrink')
            prev_hp = hp
            if parts['nrem'] != '0': f.add('lazy')
            if parts['act'] == '1': f.add('locked')
        elif line.startswith(' L1'):
            f.add('lockgrow')
        elif line.startswith('R exc:'):
            f.add(line[2:])
        elif line.startswith(' O') and len(line) > 3:
            f.add('oldlive')
    return f

def life_scan(impl_out):
    """C08 structural scan of the implementation's dumps: the superseded bucket array must be released as
    soon as no stripe of the current lock array is pending (Life.old_released); the freshly constructed
    table's 1-bucket placeholder (ohp=0, empty) is exempt.  Returns the first offending op or None."""
    cur_op = None
    tline = None
    last_l = None
    for line in impl_out.split('\n'):
        if line.startswith('#'):
            cur_op = line
        elif line.startswith('T'):
            tline = dict(p.split('=') for p in line.split()[1:]); tline['_t'] = line.split()[0]
            last_l = None
        elif line.startswith(' L'):
            last_l = line
        elif line.startswith(' O') and tline is not None:
            # old array alive: is anything pending in the current (last) lock array?
            pending = last_l is not None and any(x.endswith(':0') for x in last_l.split()[2:])
            content = len(line.split()) > 1
            if tline.get('odead') == '0' and not pending and (content or tline.get('ohp') != '0') and tline.get('size') != None:
                if ' destroy' in (cur_op or '') :
                    continue
                return '%s: table %s keeps its superseded bucket array (ohp=%s, %d slots) although no stripe is pending' % (
                    cur_op, tline['_t'], tline.get('ohp'), len(line.split()) - 1)
    return None

def run_case(args):
    binary, script_text, tag, keep_dir = args
    h = hashlib.sha1(script_text.encode()).hexdigest()[:16]
    path = os.path.join(keep_dir, 'case_%s_%s.txt' % (tag, h))
    with open(path, 'w') as f:
        f.write(script_text)
    rc_i, out_i, err_i = run_impl(binary, path)
    # judge-only scripts (helper threads + rebuild: slot placement depends on thread timing): the implementation's
    # outputs are checked by the extracted acceptor alone, not compared slot by slot with the model's run
    judge_only = script_text.startswith('# judge-only')
    rc_m, out_m, err_m = (0, '', '') if judge_only else run_model(path)
    res = dict(path=path, tag=tag)
    if rc_i == 0 or out_i:
        ip = path + '.impl'
        with open(ip, 'w') as f:
            f.write(out_i)
        try:
            jrc, blames, judged, jerr = run_judge(path, ip)
        except Exception as e:
            jrc, blames, judged, jerr = 1, [], 0, str(e)
        os.unlink(ip)
        res['judged'] = judged
        res['blames'] = blames
        if jrc != 0:
            res['status'] = 'judge_error'; res['detail'] = jerr
            return res
    if rc_m == -999:
        # the extracted model did not finish in time (very large tables are slow in the functional model, more so on a
        # loaded machine): inconclusive for the slot-exact comparison, the acceptor's verdict on the implementation stands
        if rc_i != 0:
            res['status'] = 'impl_crash'; res['detail'] = 'exit %s %s' % (rc_i, err_i[-500:]); return res
        res['status'] = 'blamed' if res.get('blames') else 'model_timeout'
        return res
    if rc_m != 0:
        res['status'] = 'model_error'; res['detail'] = err_m[-500:]
        return res
    if rc_i != 0:
        res['status'] = 'impl_crash'; res['detail'] = 'exit %s %s' % (rc_i, err_i[-500:])
        res['impl_out_tail'] = out_i[-2000:]
        return res
    ls = life_scan(out_i)
    if ls and 'moveallocto' not in script_text and 'swap' not in script_text and 'copyallocto' not in script_text:
        res['status'] = 'life'; res['detail'] = ls
        return res
    if 'HARNESS-ERROR' in out_i:
        res['status'] = 'harness_error'
        res['detail'] = [l for l in out_i.split('\n') if l.startswith('HARNESS-ERROR')][:5]
        return res
    d = None if judge_only else compare(out_i, out_m)
    if d is not None:
        res['status'] = 'mismatch'; res['detail'] = d
        return res
    if res.get('blames'):
        res['status'] = 'blamed'
        return res
    res['status'] = 'ok'
    res['features'] = sorted(features(out_i))
    res['nops'] = out_i.count('\n#') + (1 if out_i.startswith('#') else 0)
    os.unlink(path)
    return res

def run_cases(cases, keep_dir, workers=16):
    os.makedirs(keep_dir, exist_ok=True)
    with concurrent.futures.ThreadPoolExecutor(max_workers=workers) as ex:
        return list(ex.map(run_case, [(b, s, t, keep_dir) for (b, s, t) in cases]))

if __name__ == '__main__':
    sys.path.insert(0, os.path.join(V, 'tools'))
    import gen
    n = int(sys.argv[1]) if len(sys.argv) > 1 else 50
    seed = int(sys.argv[2]) if len(sys.argv) > 2 else 1
    cfgs = QUICK_CFGS
    t0 = time.time()
    bins = build_harness(cfgs)
    print('built %d harness binaries in %.1fs' % (len(bins), time.time() - t0))
    cases = []
    for i in range(n):
        c = cfgs[i % len(cfgs)]
        cases.append((bins[cfg_name(c)], gen.gen_script(seed * 1000003 + i, c), cfg_name(c)))
    t0 = time.time()
    res = run_cases(cases, os.path.join(BUILD, 'cases'))
    bad = [r for r in res if r['status'] != 'ok']
    print('%d cases, %d bad, %.1fs' % (len(res), len(bad), time.time() - t0))
    feats = {}
    for r in res:
        for f in r.get('features', []):
            feats[f] = feats.get(f, 0) + 1
    print(feats)
    for r in bad[:8]:
        print(json.dumps(r, indent=1))
