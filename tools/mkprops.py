#!/usr/bin/env python3
"""Helper used while writing coq/Properties_*.v: prints `Theorem <name> : <type of lemma>. Proof. exact <lemma>. Qed.`
with the statement exactly as Coq prints it (so the property file shows the full statement)."""
import subprocess, sys, re, tempfile, os
def stmts(imports, pairs, scopes=('N_scope',)):
    src = imports + '\nFrom Coq Require Import List.\nImport ListNotations.\n' + ''.join('Local Open Scope %s.\n' % s for s in scopes) + 'Set Printing Width 110.\nSet Printing Depth 200.\n'
    for (_, lem) in pairs:
        src += 'Check %s.\n' % lem
    with tempfile.NamedTemporaryFile('w', suffix='.v', delete=False, dir='/tmp') as f:
        f.write(src); path = f.name
    r = subprocess.run(['coqc', '-Q', '/verif/coq', 'LC', path], capture_output=True, text=True)
    os.unlink(path)
    out = r.stdout
    res = []
    chunks = re.split(r'^(\w+)\n     : ', out, flags=re.M)
    # chunks: ['', name1, type1, name2, type2...]
    types = {}
    for i in range(1, len(chunks) - 1, 2):
        types[chunks[i]] = chunks[i + 1].rstrip()
    for (name, lem) in pairs:
        t = types[lem]
        t = '\n'.join('  ' + l.strip() if l.startswith('       ') else '  ' + l for l in t.split('\n'))
        res.append('Theorem %s :\n%s.\nProof. exact %s. Qed.\nPrint Assumptions %s.\n' % (name, t, lem, name))
    return res
if __name__ == '__main__':
    pass
