(* L1 proofs: the special member functions (copy / move construction, copy / move assignment,
   swap, allocator-extended copy / move) transfer the COMPLETE logical state of a table.
   Nothing here assumes that the source is settled: the theorems hold for every source state,
   including one with a pending deferred migration (live [old] array, non-zero [nrem]). *)
From Coq Require Import NArith ZArith List Bool Lia FMapPositive.
From LC Require Import gen.HashGen Bits Core Api InvDefs ArrLemmas Stats Resize InsertLemmas Lazy.
Import ListNotations.
Local Open Scope N_scope.

(* ================================================================== A. the world: slots *)

Lemma set_nth_length {A} (x : A) l : forall n, length (set_nth n x l) = length l.
Proof.
  induction l as [|y r IH]; intros n; destruct n; cbn [set_nth length]; try reflexivity.
  rewrite IH. reflexivity.
Qed.

Lemma nth_set_nth_same {A} (x d : A) l : forall n, (n < length l)%nat -> nth n (set_nth n x l) d = x.
Proof.
  induction l as [|y r IH]; intros n Hn; cbn [length] in Hn; [lia|].
  destruct n as [|n]; cbn [set_nth nth]; [reflexivity|]. apply IH. lia.
Qed.

Lemma nth_set_nth_other {A} (x d : A) l : forall n m, n <> m -> nth m (set_nth n x l) d = nth m l d.
Proof.
  induction l as [|y r IH]; intros n m Hne; [destruct n; reflexivity|].
  destruct n as [|n], m as [|m]; cbn [set_nth nth]; try reflexivity; [congruence|].
  apply IH. congruence.
Qed.

Lemma get_tab_some_lt w i s : get_tab w i = Some s -> (i < length (tabs w))%nat.
Proof.
  unfold get_tab. intro H. destruct (Nat.lt_ge_cases i (length (tabs w))) as [L|G]; [exact L|].
  rewrite nth_overflow in H by exact G. discriminate.
Qed.

Lemma get_put_same w i x : (i < length (tabs w))%nat -> get_tab (put_tab w i x) i = x.
Proof. intro H. unfold get_tab, put_tab. cbn [tabs]. apply nth_set_nth_same. exact H. Qed.

Lemma get_put_other w i x j : i <> j -> get_tab (put_tab w i x) j = get_tab w j.
Proof. intro H. unfold get_tab, put_tab. cbn [tabs]. apply nth_set_nth_other. exact H. Qed.

Lemma put_tab_length w i x : length (tabs (put_tab w i x)) = length (tabs w).
Proof. unfold put_tab. cbn [tabs]. apply set_nth_length. Qed.

Lemma put_tab_its w i x : its (put_tab w i x) = its w.
Proof. reflexivity. Qed.

Lemma put_tab_imgs w i x : imgs (put_tab w i x) = imgs w.
Proof. reflexivity. Qed.

(* init_world has four slots *)
Lemma init_world_slots : length (tabs init_world) = 4%nat.
Proof. reflexivity. Qed.

Lemma table_eta u :
  {| cur := cur u; old := old u; locks := locks u; nrem := nrem u; rc := rc u;
     mlfn := mlfn u; mlfd := mlfd u; mhp := mhp u; workers := workers u |} = u.
Proof. destruct u. reflexivity. Qed.

(* ================================================================== B. the moved-from table *)

(* what the defaulted move constructor / move assignment leaves behind *)
Definition moved_from (t : table) : table :=
  set_locks (set_old (set_cur t (moved_from_barray (cur t))) (moved_from_barray (old t))) [].

Lemma moved_from_spec t :
  let m := moved_from t in
  locks m = [] /\ cur_locks m = [] /\
  bdead (cur m) = true /\ bdead (old m) = true /\
  (forall b s, bget (cur m) b s = None) /\ (forall b s, bget (old m) b s = None) /\
  bhp (cur m) = bhp (cur t) /\ bhp (old m) = bhp (old t) /\
  nrem m = nrem t /\ rc m = rc t /\ mlfn m = mlfn t /\ mlfd m = mlfd t /\ mhp m = mhp t /\
  workers m = workers t /\
  tsize m = 0.
Proof.
  cbv zeta. unfold moved_from, moved_from_barray.
  repeat split; try reflexivity; intros b s; apply bget_bdealloc.
Qed.

Lemma moved_from_no_holds t k v : ~ holds (cur (moved_from t)) k v.
Proof.
  intros [b [s [e [E _]]]]. unfold moved_from, moved_from_barray in E. cbn [cur set_locks set_old set_cur] in E.
  rewrite bget_bdealloc in E. discriminate.
Qed.

(* ================================================================== C. copying only the current lock array *)

(* the allocator-extended constructors with unequal allocators rebuild all_locks_ from the
   CURRENT lock array of the source only (add_locks_from_other) *)
Definition relocked (t : table) : table := add_locks_from_other (set_locks t []) t.

Lemma relocked_eq t : relocked t = set_locks t [cur_locks t].
Proof. reflexivity. Qed.

Lemma relocked_spec t :
  let d := relocked t in
  cur d = cur t /\ old d = old t /\ locks d = [cur_locks t] /\ cur_locks d = cur_locks t /\
  nrem d = nrem t /\ rc d = rc t /\ mlfn d = mlfn t /\ mlfd d = mlfd t /\ mhp d = mhp t /\
  workers d = workers t /\ locks d <> [] /\ (forall l, lock_at d l = lock_at t l).
Proof. cbv zeta. rewrite relocked_eq. repeat split. discriminate. Qed.

Lemma relocked_tsize t : tsize (relocked t) = tsize t.
Proof.
  rewrite relocked_eq. unfold tsize. cbn [locks set_locks].
  change (cur_locks (set_locks t [cur_locks t])) with (cur_locks t).
  destruct (locks t) as [|x r] eqn:E; [|reflexivity].
  unfold cur_locks. rewrite E. reflexivity.
Qed.

Section Invariant.
Variable c : config.
Variable hash : N -> N.

(* the lazy-state invariant and abstraction only look at the two arrays, the CURRENT lock
   array and the counter of remaining stripes *)
Lemma wfg_transfer s t t' :
  cur t' = cur t -> old t' = old t -> cur_locks t' = cur_locks t -> nrem t' = nrem t ->
  locks t' <> [] -> wfg c hash s t -> wfg c hash s t'.
Proof.
  intros E1 E2 E3 E4 Hne [W1 W2 W3 W4].
  assert (HP : forall b, pendP c t b <-> pendP c t' b).
  { intro b. unfold pendP. rewrite (pendb_ext c t t' E3) by (rewrite E2; reflexivity). reflexivity. }
  constructor.
  - exact Hne.
  - rewrite E1, E3. exact W2.
  - rewrite E1, E2. apply (linv_ext c hash _ _ _ _ HP). exact W3.
  - destruct W4 as [H|[X1 X2 X3 X4 X5]].
    + left. unfold all_migrated. rewrite E3. exact H.
    + right. constructor; rewrite ?E1, ?E2, ?E3, ?E4; assumption.
Qed.

Lemma lholds_transfer t t' k v :
  cur t' = cur t -> old t' = old t -> cur_locks t' = cur_locks t ->
  (lholds c t' k v <-> lholds c t k v).
Proof.
  intros E1 E2 E3. unfold lholds. rewrite E1, E2. apply lh_ext.
  intro b. unfold pendP. rewrite (pendb_ext c t t' E3) by (rewrite E2; reflexivity). reflexivity.
Qed.

Lemma lcounted_transfer t t' :
  cur t' = cur t -> old t' = old t -> cur_locks t' = cur_locks t ->
  (lcounted c t' <-> lcounted c t).
Proof.
  intros E1 E2 E3. unfold lcounted. rewrite E1, E2, E3.
  assert (HP : forall b, pendP c t b <-> pendP c t' b).
  { intro b. unfold pendP. rewrite (pendb_ext c t t' E3) by (rewrite E2; reflexivity). reflexivity. }
  split; intros [g [G E]]; exists g; (split; [|exact E]).
  - apply (ghost_ext _ _ _ _ (fun b => iff_sym (HP b))). exact G.
  - apply (ghost_ext _ _ _ _ HP). exact G.
Qed.

Lemma relocked_wfg s t : wfg c hash s t -> wfg c hash s (relocked t).
Proof. apply wfg_transfer; try reflexivity. rewrite relocked_eq. discriminate. Qed.

Lemma relocked_wfg_inv s t : locks t <> [] -> wfg c hash s (relocked t) -> wfg c hash s t.
Proof. intro Hne. apply wfg_transfer; try reflexivity. exact Hne. Qed.

Lemma relocked_lholds t k v : lholds c (relocked t) k v <-> lholds c t k v.
Proof. apply lholds_transfer; reflexivity. Qed.

Lemma relocked_lcounted t : lcounted c (relocked t) <-> lcounted c t.
Proof. apply lcounted_transfer; reflexivity. Qed.

(* ---- element-wise move: the source arrays keep only moved-from elements ---- *)

Lemma bget_husk_all a b s : bget (husk_all c a) b s = option_map (husk_of c) (bget a b s).
Proof.
  unfold bget, husk_all. cbn [bsl]. unfold PositiveMap.map at 1. rewrite PositiveMap.gmapi.
  destruct (PositiveMap.find (pidx b) (bsl a)) as [m|]; cbn [option_map]; [|reflexivity].
  unfold PositiveMap.map. apply PositiveMap.gmapi.
Qed.

Lemma husk_all_elements a b s e :
  bget (husk_all c a) b s = Some e -> exists e0, bget a b s = Some e0 /\ e = husk_of c e0.
Proof.
  rewrite bget_husk_all. destruct (bget a b s) as [e0|]; cbn [option_map]; [|discriminate].
  intro H. injection H as <-. exists e0. split; reflexivity.
Qed.

Lemma husk_all_dead a b s e :
  destructive c = true -> bget (husk_all c a) b s = Some e -> ehusk e = true.
Proof.
  intros Hd H. destruct (husk_all_elements a b s e H) as [e0 [_ ->]].
  unfold husk_of. rewrite Hd. reflexivity.
Qed.

Lemma husk_all_occupied a b s : occupied (husk_all c a) b s = occupied a b s.
Proof. unfold occupied. rewrite bget_husk_all. destruct (bget a b s); reflexivity. Qed.

Lemma husk_all_meta a : bhp (husk_all c a) = bhp a /\ bdead (husk_all c a) = bdead a.
Proof. split; reflexivity. Qed.

End Invariant.

(* ================================================================== D. the operations *)

Section Special.
Variable c : config.
Variable hash : N -> N.
Variable fapply : fnk -> Z -> bool -> Z * bool.

Notation step_some := (step_some c hash fapply).

(* ---- 1. copy construction ---- *)
Theorem copy_complete w a s b :
  get_tab w a = Some s -> get_tab w b = None -> (b < length (tabs w))%nat ->
  exists w',
    step_some w a s (OCopyTo b) = (w', [RNone]) /\
    get_tab w' b = Some {| tb := tb s; active := false |} /\
    get_tab w' a = Some s /\
    (forall x, x <> b -> get_tab w' x = get_tab w x) /\
    its w' = its w /\ imgs w' = imgs w.
Proof.
  intros Ha Hb Hlt. unfold Api.step_some. rewrite Hb.
  eexists. split; [reflexivity|].
  assert (Hab : b <> a) by (intro E; subst b; congruence).
  split; [apply get_put_same; exact Hlt|].
  split; [rewrite get_put_other by exact Hab; exact Ha|].
  split; [intros x Hx; apply get_put_other; congruence|].
  split; reflexivity.
Qed.

(* ---- 2. swap ---- *)
Theorem swap_complete w a s b sb :
  get_tab w a = Some s -> get_tab w b = Some sb -> a <> b ->
  exists w',
    step_some w a s (OSwap b) = (w', [RNone]) /\
    get_tab w' a = Some {| tb := tb sb; active := active s |} /\
    get_tab w' b = Some {| tb := tb s; active := active sb |} /\
    (forall x, x <> a -> x <> b -> get_tab w' x = get_tab w x) /\
    its w' = its w /\ imgs w' = imgs w.
Proof.
  intros Ha Hb Hab. unfold Api.step_some. rewrite Hb.
  apply Nat.eqb_neq in Hab. rewrite Hab. apply Nat.eqb_neq in Hab.
  rewrite !table_eta.
  assert (La := get_tab_some_lt _ _ _ Ha). assert (Lb := get_tab_some_lt _ _ _ Hb).
  eexists. split; [reflexivity|]. unfold put_t.
  split.
  { rewrite get_put_other by congruence. apply get_put_same. exact La. }
  split.
  { apply get_put_same. rewrite put_tab_length. exact Lb. }
  split.
  { intros x Hxa Hxb. rewrite !get_put_other by congruence. reflexivity. }
  split; reflexivity.
Qed.

(* every field, one by one (the whole record is exchanged, including the array kept for the
   deferred migration and the counter of remaining stripes) *)
Corollary swap_fields w a s b sb w' r ta tb' :
  get_tab w a = Some s -> get_tab w b = Some sb -> a <> b ->
  step_some w a s (OSwap b) = (w', r) ->
  get_tab w' a = Some ta -> get_tab w' b = Some tb' ->
  (cur (tb ta) = cur (tb sb) /\ old (tb ta) = old (tb sb) /\ locks (tb ta) = locks (tb sb) /\
   nrem (tb ta) = nrem (tb sb) /\ rc (tb ta) = rc (tb sb) /\ mlfn (tb ta) = mlfn (tb sb) /\
   mlfd (tb ta) = mlfd (tb sb) /\ mhp (tb ta) = mhp (tb sb) /\ workers (tb ta) = workers (tb sb)) /\
  (cur (tb tb') = cur (tb s) /\ old (tb tb') = old (tb s) /\ locks (tb tb') = locks (tb s) /\
   nrem (tb tb') = nrem (tb s) /\ rc (tb tb') = rc (tb s) /\ mlfn (tb tb') = mlfn (tb s) /\
   mlfd (tb tb') = mlfd (tb s) /\ mhp (tb tb') = mhp (tb s) /\ workers (tb tb') = workers (tb s)) /\
  active ta = active s /\ active tb' = active sb.
Proof.
  intros Ha Hb Hab Hs Ga Gb.
  destruct (swap_complete w a s b sb Ha Hb Hab) as [w0 [E [A [B _]]]].
  rewrite E in Hs. injection Hs as <- <-.
  rewrite A in Ga. rewrite B in Gb. injection Ga as <-. injection Gb as <-.
  cbn [tb active]. repeat split.
Qed.

(* any predicate of tables is exchanged *)
Corollary swap_pred (P : table -> Prop) w a s b sb w' r :
  get_tab w a = Some s -> get_tab w b = Some sb -> a <> b ->
  step_some w a s (OSwap b) = (w', r) ->
  exists ta tb',
    get_tab w' a = Some ta /\ get_tab w' b = Some tb' /\
    (P (tb ta) <-> P (tb sb)) /\ (P (tb tb') <-> P (tb s)).
Proof.
  intros Ha Hb Hab Hs.
  destruct (swap_complete w a s b sb Ha Hb Hab) as [w0 [E [A [B _]]]].
  rewrite E in Hs. injection Hs as <- <-.
  eexists. eexists. split; [exact A|]. split; [exact B|]. cbn [tb]. split; reflexivity.
Qed.

Corollary swap_fun {X} (f : table -> X) w a s b sb w' r :
  get_tab w a = Some s -> get_tab w b = Some sb -> a <> b ->
  step_some w a s (OSwap b) = (w', r) ->
  exists ta tb',
    get_tab w' a = Some ta /\ get_tab w' b = Some tb' /\
    f (tb ta) = f (tb sb) /\ f (tb tb') = f (tb s).
Proof.
  intros Ha Hb Hab Hs.
  destruct (swap_complete w a s b sb Ha Hb Hab) as [w0 [E [A [B _]]]].
  rewrite E in Hs. injection Hs as <- <-.
  eexists. eexists. split; [exact A|]. split; [exact B|]. cbn [tb]. split; reflexivity.
Qed.

(* swap with itself leaves the world alone *)
Theorem swap_self w a s :
  get_tab w a = Some s -> step_some w a s (OSwap a) = (w, [RNone]).
Proof. intro Ha. unfold Api.step_some. rewrite Ha, Nat.eqb_refl. reflexivity. Qed.

(* ---- 3. move construction, move assignment, copy assignment ---- *)
Theorem move_complete w a s b :
  get_tab w a = Some s -> get_tab w b = None -> (b < length (tabs w))%nat ->
  exists w',
    step_some w a s (OMoveTo b) = (w', [RNone]) /\
    get_tab w' b = Some {| tb := tb s; active := false |} /\
    get_tab w' a = Some {| tb := moved_from (tb s); active := active s |} /\
    (forall x, x <> a -> x <> b -> get_tab w' x = get_tab w x) /\
    its w' = its w /\ imgs w' = imgs w.
Proof.
  intros Ha Hb Hlt. unfold Api.step_some. rewrite Hb.
  assert (Hab : a <> b) by (intro E; subst b; congruence).
  assert (La := get_tab_some_lt _ _ _ Ha).
  eexists. split; [reflexivity|]. unfold put_t.
  split; [apply get_put_same; rewrite put_tab_length; exact Hlt|].
  split; [rewrite get_put_other by congruence; apply get_put_same; exact La|].
  split; [intros x Hxa Hxb; rewrite !get_put_other by congruence; reflexivity|].
  split; reflexivity.
Qed.

Theorem move_assign_complete w a s b sb :
  get_tab w a = Some s -> get_tab w b = Some sb -> a <> b ->
  exists w',
    step_some w a s (OMoveAssignTo b) = (w', [RNone]) /\
    get_tab w' b = Some {| tb := tb s; active := active sb |} /\
    get_tab w' a = Some {| tb := moved_from (tb s); active := active s |} /\
    (forall x, x <> a -> x <> b -> get_tab w' x = get_tab w x) /\
    its w' = its w /\ imgs w' = imgs w.
Proof.
  intros Ha Hb Hab. unfold Api.step_some. rewrite Hb.
  apply Nat.eqb_neq in Hab. rewrite Hab. apply Nat.eqb_neq in Hab.
  assert (La := get_tab_some_lt _ _ _ Ha). assert (Lb := get_tab_some_lt _ _ _ Hb).
  eexists. split; [reflexivity|]. unfold put_t.
  split; [apply get_put_same; rewrite put_tab_length; exact Lb|].
  split; [rewrite get_put_other by congruence; apply get_put_same; exact La|].
  split; [intros x Hxa Hxb; rewrite !get_put_other by congruence; reflexivity|].
  split; reflexivity.
Qed.

Theorem assign_complete w a s b sb :
  get_tab w a = Some s -> get_tab w b = Some sb -> a <> b ->
  exists w',
    step_some w a s (OAssignTo b) = (w', [RNone]) /\
    get_tab w' b = Some {| tb := tb s; active := active sb |} /\
    get_tab w' a = Some s /\
    (forall x, x <> b -> get_tab w' x = get_tab w x) /\
    its w' = its w /\ imgs w' = imgs w.
Proof.
  intros Ha Hb Hab. unfold Api.step_some. rewrite Hb.
  apply Nat.eqb_neq in Hab. rewrite Hab. apply Nat.eqb_neq in Hab.
  assert (Lb := get_tab_some_lt _ _ _ Hb).
  eexists. split; [reflexivity|].
  split; [apply get_put_same; exact Lb|].
  split; [rewrite get_put_other by congruence; exact Ha|].
  split; [intros x Hx; apply get_put_other; congruence|].
  split; reflexivity.
Qed.

(* the moved-from source: limits and counters kept, no locks, no storage, size 0 *)
Corollary move_source w a s b w' r sa :
  get_tab w a = Some s -> get_tab w b = None -> (b < length (tabs w))%nat ->
  step_some w a s (OMoveTo b) = (w', r) -> get_tab w' a = Some sa ->
  locks (tb sa) = [] /\ bdead (cur (tb sa)) = true /\ bdead (old (tb sa)) = true /\
  tsize (tb sa) = 0 /\ (forall k v, ~ holds (cur (tb sa)) k v) /\
  nrem (tb sa) = nrem (tb s) /\ rc (tb sa) = rc (tb s) /\
  mlfn (tb sa) = mlfn (tb s) /\ mlfd (tb sa) = mlfd (tb s) /\ mhp (tb sa) = mhp (tb s) /\
  workers (tb sa) = workers (tb s) /\ active sa = active s.
Proof.
  intros Ha Hb Hlt Hs Ga.
  destruct (move_complete w a s b Ha Hb Hlt) as [w0 [E [_ [A _]]]].
  rewrite E in Hs. injection Hs as <- <-. rewrite A in Ga. injection Ga as <-. cbn [tb active].
  destruct (moved_from_spec (tb s)) as [M1 [M2 [M3 [M4 [M5 [M6 [M7 [M8 [M9 [M10 [M11 [M12 [M13 [M14 M15]]]]]]]]]]]]]].
  cbv zeta in *.
  split; [exact M1|]. split; [exact M3|]. split; [exact M4|]. split; [exact M15|].
  split; [intros k v; apply moved_from_no_holds|].
  repeat split; assumption.
Qed.

Corollary move_assign_source w a s b sb w' r sa :
  get_tab w a = Some s -> get_tab w b = Some sb -> a <> b ->
  step_some w a s (OMoveAssignTo b) = (w', r) -> get_tab w' a = Some sa ->
  locks (tb sa) = [] /\ bdead (cur (tb sa)) = true /\ bdead (old (tb sa)) = true /\
  tsize (tb sa) = 0 /\ (forall k v, ~ holds (cur (tb sa)) k v) /\
  nrem (tb sa) = nrem (tb s) /\ rc (tb sa) = rc (tb s) /\
  mlfn (tb sa) = mlfn (tb s) /\ mlfd (tb sa) = mlfd (tb s) /\ mhp (tb sa) = mhp (tb s) /\
  workers (tb sa) = workers (tb s) /\ active sa = active s.
Proof.
  intros Ha Hb Hab Hs Ga.
  destruct (move_assign_complete w a s b sb Ha Hb Hab) as [w0 [E [_ [A _]]]].
  rewrite E in Hs. injection Hs as <- <-. rewrite A in Ga. injection Ga as <-. cbn [tb active].
  destruct (moved_from_spec (tb s)) as [M1 [M2 [M3 [M4 [M5 [M6 [M7 [M8 [M9 [M10 [M11 [M12 [M13 [M14 M15]]]]]]]]]]]]]].
  cbv zeta in *.
  split; [exact M1|]. split; [exact M3|]. split; [exact M4|]. split; [exact M15|].
  split; [intros k v; apply moved_from_no_holds|].
  repeat split; assumption.
Qed.

(* ---- 4. allocator-extended copy and move ---- *)
Theorem copy_alloc_complete w a s b eq :
  get_tab w a = Some s -> get_tab w b = None -> (b < length (tabs w))%nat ->
  exists w',
    step_some w a s (OCopyAllocTo b eq) = (w', [RNone]) /\
    get_tab w' b = Some {| tb := if eq then tb s else relocked (tb s); active := false |} /\
    get_tab w' a = Some s /\
    (forall x, x <> b -> get_tab w' x = get_tab w x) /\
    its w' = its w /\ imgs w' = imgs w.
Proof.
  intros Ha Hb Hlt. unfold Api.step_some. rewrite Hb.
  eexists. split; [reflexivity|].
  assert (Hab : b <> a) by (intro E; subst b; congruence).
  split; [apply get_put_same; exact Hlt|].
  split; [rewrite get_put_other by exact Hab; exact Ha|].
  split; [intros x Hx; apply get_put_other; congruence|].
  split; reflexivity.
Qed.

(* with unequal allocators the destination is the source with all_locks_ = [current array]:
   same arrays (current and deferred), same counter of remaining stripes, same stripes,
   same size and limits; the lazy-state invariant and the abstract contents carry over *)
Corollary copy_alloc_unequal w a s b w' r sd :
  get_tab w a = Some s -> get_tab w b = None -> (b < length (tabs w))%nat ->
  step_some w a s (OCopyAllocTo b false) = (w', r) -> get_tab w' b = Some sd ->
  cur (tb sd) = cur (tb s) /\ old (tb sd) = old (tb s) /\ nrem (tb sd) = nrem (tb s) /\
  locks (tb sd) = [cur_locks (tb s)] /\ cur_locks (tb sd) = cur_locks (tb s) /\
  tsize (tb sd) = tsize (tb s) /\ rc (tb sd) = rc (tb s) /\
  mlfn (tb sd) = mlfn (tb s) /\ mlfd (tb sd) = mlfd (tb s) /\ mhp (tb sd) = mhp (tb s) /\
  workers (tb sd) = workers (tb s) /\ active sd = false /\
  (forall st, wfg c hash st (tb s) -> wfg c hash st (tb sd)) /\
  (forall k v, lholds c (tb sd) k v <-> lholds c (tb s) k v) /\
  (lcounted c (tb sd) <-> lcounted c (tb s)).
Proof.
  intros Ha Hb Hlt Hs Gd.
  destruct (copy_alloc_complete w a s b false Ha Hb Hlt) as [w0 [E [A _]]].
  rewrite E in Hs. injection Hs as <- <-. rewrite A in Gd. injection Gd as <-. cbn [tb active].
  split; [reflexivity|]. split; [reflexivity|]. split; [reflexivity|]. split; [reflexivity|].
  split; [reflexivity|]. split; [apply relocked_tsize|].
  split; [reflexivity|]. split; [reflexivity|]. split; [reflexivity|]. split; [reflexivity|].
  split; [reflexivity|]. split; [reflexivity|].
  split; [intros st; apply relocked_wfg|].
  split; [intros k v; apply relocked_lholds|apply relocked_lcounted].
Qed.

Theorem move_alloc_complete w a s b eq :
  get_tab w a = Some s -> get_tab w b = None -> (b < length (tabs w))%nat ->
  exists w',
    step_some w a s (OMoveAllocTo b eq) = (w', [RNone]) /\
    get_tab w' b = Some {| tb := if eq then tb s else relocked (tb s); active := false |} /\
    get_tab w' a =
      Some {| tb := if eq then moved_from (tb s)
                    else set_old (set_cur (tb s) (husk_all c (cur (tb s)))) (husk_all c (old (tb s)));
              active := active s |} /\
    (forall x, x <> a -> x <> b -> get_tab w' x = get_tab w x) /\
    its w' = its w /\ imgs w' = imgs w.
Proof.
  intros Ha Hb Hlt. unfold Api.step_some. rewrite Hb.
  assert (Hab : a <> b) by (intro E; subst b; congruence).
  assert (La := get_tab_some_lt _ _ _ Ha).
  destruct eq.
  - eexists. split; [reflexivity|]. unfold put_t.
    split; [apply get_put_same; rewrite put_tab_length; exact Hlt|].
    split; [rewrite get_put_other by congruence; apply get_put_same; exact La|].
    split; [intros x Hxa Hxb; rewrite !get_put_other by congruence; reflexivity|].
    split; reflexivity.
  - eexists. split; [reflexivity|]. unfold put_t.
    split; [apply get_put_same; rewrite put_tab_length; exact Hlt|].
    split; [rewrite get_put_other by congruence; apply get_put_same; exact La|].
    split; [intros x Hxa Hxb; rewrite !get_put_other by congruence; reflexivity|].
    split; reflexivity.
Qed.

(* element-wise move: the source keeps its lock list, limits and storage, but every element
   left in its arrays is a moved-from husk of the element that was there *)
Corollary move_alloc_unequal_source w a s b w' r sa :
  get_tab w a = Some s -> get_tab w b = None -> (b < length (tabs w))%nat ->
  step_some w a s (OMoveAllocTo b false) = (w', r) -> get_tab w' a = Some sa ->
  locks (tb sa) = locks (tb s) /\ nrem (tb sa) = nrem (tb s) /\ rc (tb sa) = rc (tb s) /\
  mlfn (tb sa) = mlfn (tb s) /\ mlfd (tb sa) = mlfd (tb s) /\ mhp (tb sa) = mhp (tb s) /\
  workers (tb sa) = workers (tb s) /\ tsize (tb sa) = tsize (tb s) /\ active sa = active s /\
  bhp (cur (tb sa)) = bhp (cur (tb s)) /\ bdead (cur (tb sa)) = bdead (cur (tb s)) /\
  bhp (old (tb sa)) = bhp (old (tb s)) /\ bdead (old (tb sa)) = bdead (old (tb s)) /\
  (forall b0 s0, bget (cur (tb sa)) b0 s0 = option_map (husk_of c) (bget (cur (tb s)) b0 s0)) /\
  (forall b0 s0, bget (old (tb sa)) b0 s0 = option_map (husk_of c) (bget (old (tb s)) b0 s0)) /\
  (destructive c = true ->
   forall b0 s0 e, bget (cur (tb sa)) b0 s0 = Some e \/ bget (old (tb sa)) b0 s0 = Some e ->
                   ehusk e = true).
Proof.
  intros Ha Hb Hlt Hs Ga.
  destruct (move_alloc_complete w a s b false Ha Hb Hlt) as [w0 [E [_ [A _]]]].
  rewrite E in Hs. injection Hs as <- <-. rewrite A in Ga. injection Ga as <-.
  cbn [tb active cur old locks nrem rc mlfn mlfd mhp workers set_old set_cur].
  repeat (split; [reflexivity|]).
  split; [intros; apply bget_husk_all|]. split; [intros; apply bget_husk_all|].
  intros Hd b0 s0 e [H|H]; apply (husk_all_dead c _ _ _ _ Hd H).
Qed.

Corollary move_alloc_unequal_dest w a s b w' r sd :
  get_tab w a = Some s -> get_tab w b = None -> (b < length (tabs w))%nat ->
  step_some w a s (OMoveAllocTo b false) = (w', r) -> get_tab w' b = Some sd ->
  cur (tb sd) = cur (tb s) /\ old (tb sd) = old (tb s) /\ nrem (tb sd) = nrem (tb s) /\
  locks (tb sd) = [cur_locks (tb s)] /\ cur_locks (tb sd) = cur_locks (tb s) /\
  tsize (tb sd) = tsize (tb s) /\ rc (tb sd) = rc (tb s) /\
  mlfn (tb sd) = mlfn (tb s) /\ mlfd (tb sd) = mlfd (tb s) /\ mhp (tb sd) = mhp (tb s) /\
  workers (tb sd) = workers (tb s) /\ active sd = false /\
  (forall st, wfg c hash st (tb s) -> wfg c hash st (tb sd)) /\
  (forall k v, lholds c (tb sd) k v <-> lholds c (tb s) k v) /\
  (lcounted c (tb sd) <-> lcounted c (tb s)).
Proof.
  intros Ha Hb Hlt Hs Gd.
  destruct (move_alloc_complete w a s b false Ha Hb Hlt) as [w0 [E [A _]]].
  rewrite E in Hs. injection Hs as <- <-. rewrite A in Gd. injection Gd as <-. cbn [tb active].
  split; [reflexivity|]. split; [reflexivity|]. split; [reflexivity|]. split; [reflexivity|].
  split; [reflexivity|]. split; [apply relocked_tsize|].
  split; [reflexivity|]. split; [reflexivity|]. split; [reflexivity|]. split; [reflexivity|].
  split; [reflexivity|]. split; [reflexivity|].
  split; [intros st; apply relocked_wfg|].
  split; [intros k v; apply relocked_lholds|apply relocked_lcounted].
Qed.

End Special.
