(* C15 - tables obtained from <name>_init and <name>_read alike have no minimum load factor and
   no maximum hashpower, so the two policy exceptions cannot arise on them (model level).
   The no-exception-crosses / errno / unchanged-contents clauses are decided by fault enumeration
   on the real wrapper (see DESIGN 6.15); the theorems here carry the limits clause.
   Statements only; closed by [exact] of lemmas of CApiLemmas.v. *)
From Coq Require Import NArith ZArith List.
From LC Require Import gen.HashGen Core Api CApi CApiLemmas.
Import ListNotations.
Local Open Scope N_scope.

Theorem C15_init_tables_have_no_limits : forall c n, no_limits (init_table c n).
Proof. exact init_table_no_limits. Qed.
Print Assumptions C15_init_tables_have_no_limits.

Theorem C15_read_tables_have_no_limits : forall c n, no_limits (read_table c n).
Proof. exact read_table_no_limits. Qed.
Print Assumptions C15_read_tables_have_no_limits.

Theorem C15_no_limits_no_policy_exception :
  forall c auto t o n e, no_limits t -> check_resize_validity c auto t o n = inl (Some e) -> False.
Proof. exact no_limits_never_policy_exception. Qed.
Print Assumptions C15_no_limits_no_policy_exception.

Theorem C15_no_limits_resize_always_valid :
  forall c auto t n, no_limits t -> check_resize_validity c auto t (hashpower t) n = inr St_ok.
Proof. exact no_limits_resize_valid. Qed.
Print Assumptions C15_no_limits_resize_always_valid.

Theorem C15_rebuild_temporary_inherits_no_limits :
  forall t t', no_limits t -> no_limits (set_mhp (set_mlf t' 0 1) (mhp t)).
Proof. exact set_limits_no_limits. Qed.
Print Assumptions C15_rebuild_temporary_inherits_no_limits.
