(* C15 - tables obtained from <name>_init and <name>_read alike have no minimum load factor and
   no maximum hashpower, so the two policy exceptions cannot arise on them (model level).
   The no-exception-crosses / errno / unchanged-contents clauses are decided by fault enumeration
   on the real wrapper (see DESIGN 6.15); the theorems here carry the limits clause.
   Statements only; closed by [exact] of lemmas of CApiLemmas.v. *)
From Coq Require Import NArith ZArith List.
From LC Require Import gen.HashGen Core Api CApi CApiLemmas.
Import ListNotations.
Local Open Scope N_scope.

Theorem C15_init_tables_have_no_limits : forall c n, no_limits (init_table c n).
Proof. exact init_table_no_limits. Qed.
Print Assumptions C15_init_tables_have_no_limits.

Theorem C15_read_tables_have_no_limits : forall c n, no_limits (read_table c n).
Proof. exact read_table_no_limits. Qed.
Print Assumptions C15_read_tables_have_no_limits.

Theorem C15_no_limits_no_policy_exception :
  forall c auto t o n e, no_limits t -> check_resize_validity c auto t o n = inl (Some e) -> False.
Proof. exact no_limits_never_policy_exception. Qed.
Print Assumptions C15_no_limits_no_policy_exception.

Theorem C15_no_limits_resize_always_valid :
  forall c auto t n, no_limits t -> check_resize_validity c auto t (hashpower t) n = inr St_ok.
Proof. exact no_limits_resize_valid. Qed.
Print Assumptions C15_no_limits_resize_always_valid.

Theorem C15_rebuild_temporary_inherits_no_limits :
  forall t t', no_limits t -> no_limits (set_mhp (set_mlf t' 0 1) (mhp t)).
Proof. exact set_limits_no_limits. Qed.
Print Assumptions C15_rebuild_temporary_inherits_no_limits.

(* ---- policy exceptions cannot arise on tables handed out by the C interface (CApiRefine.v): an insertion-type call on a table with no limits ends in success (and the table still has no limits), never in load_factor_too_low / maximum_hashpower_exceeded ---- *)
From LC Require Import Lazy Refine LazyRefine NoFuel CApiRefine.
Theorem C15_insert_on_c_table_no_policy_exception :
  forall (c : config) (hash : N -> N),
  InvDefs.cfg_ok c ->
  nothrow c = true ->
  forall (t : table) (k : N) (v : Z) (g : Z -> bool -> option (Z * bool)) (t' : table)
  (r : exn + bool * list rv * (N * N)),
  lgood c hash t ->
  no_limits t ->
  uprase_gen c hash false t k v g = (t', r) ->
  lesc c hash t \/
  (exists e : exn, r = inl e /\ e = EOutOfFuel) \/
  (exists (ins : bool) (lg : list rv) (pos : N * N),
  r = inr (ins, lg, pos) /\ lgood c hash t' /\ no_limits t').
Proof. exact c_table_insert_no_policy_exception. Qed.
Print Assumptions C15_insert_on_c_table_no_policy_exception.

Theorem C15_locked_insert_on_c_table_never_throws :
  forall (c : config) (hash : N -> N),
  InvDefs.cfg_ok c ->
  nothrow c = true ->
  forall (t : table) (k : N) (v : Z) (g : Z -> bool -> option (Z * bool)),
  good c hash t ->
  no_limits t ->
  esc c hash t \/
  (exists (ins : bool) (lg : list rv) (pos : N * N),
  snd (uprase_gen c hash true t k v g) = inr (ins, lg, pos)).
Proof. exact c_table_locked_insert_never_throws. Qed.
Print Assumptions C15_locked_insert_on_c_table_never_throws.

(* ---- ENOMEM leaves the table valid: the automatic doubling behind the C insert functions allocates before it publishes anything (Effects.v, on the effect order generated from the source) ---- *)
From LC Require Import gen.EffectOrder Effects.
Theorem C15_doubling_failure_publishes_nothing :
  forall (k : nat) (b : bool), run fast_double_effects k false = Some b -> b = false.
Proof. exact fast_double_failure_atomic. Qed.
Print Assumptions C15_doubling_failure_publishes_nothing.

Theorem C15_rebuild_failure_publishes_nothing :
  forall (k : nat) (b : bool), run expand_simple_effects k false = Some b -> b = false.
Proof. exact expand_simple_failure_atomic. Qed.
Print Assumptions C15_rebuild_failure_publishes_nothing.

(* ---- run-tied form (RunTied.v): the [lesc] disjunct of C15_insert_on_c_table_no_policy_exception holds trivially for tables without limits; this one does not ---- *)
From LC Require Import AcceptModel RunTied.
Theorem C15_insert_on_c_table_no_policy_exception_tied :
  forall (c : config) (hash : N -> N),
  InvDefs.cfg_ok c ->
  nothrow c = true ->
  forall (t : table) (k : N) (v : Z) (g : Z -> bool -> option (Z * bool)) (t' : table)
  (r : exn + bool * list rv * (N * N)),
  lgood c hash t ->
  no_limits t ->
  uprase_gen c hash false t k v g = (t', r) ->
  tied_esc t' \/
  (exists (ins : bool) (lg : list rv) (pos : N * N),
  r = inr (ins, lg, pos) /\ lgood c hash t' /\ no_limits t').
Proof. exact c_table_insert_no_policy_exception_tied. Qed.
Print Assumptions C15_insert_on_c_table_no_policy_exception_tied.
