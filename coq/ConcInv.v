(* Invariants of the lock / snapshot protocol model [Conc.v].  Proofs only; no axioms. *)
From Coq Require Import NArith List Bool Arith Lia.
From LC Require Import Conc.
Import ListNotations.


(* ------------------------------------------------------------------ small helpers *)
Lemma upd_thr_same : forall f t x, upd_thr f t x t = x.
Proof. intros; unfold upd_thr; now rewrite Nat.eqb_refl. Qed.

Lemma upd_thr_other : forall f t x u, u <> t -> upd_thr f t x u = f u.
Proof.
  intros; unfold upd_thr. destruct (Nat.eqb t u) eqn:E; auto.
  apply Nat.eqb_eq in E; congruence.
Qed.

Lemma held_set_held : forall g a l o a' l',
  g_held (set_held g a l o) a' l' = if Nat.eqb a a' && Nat.eqb l l' then o else g_held g a' l'.
Proof. reflexivity. Qed.

Lemma held_set_same : forall g a l o, g_held (set_held g a l o) a l = o.
Proof. intros; simpl; now rewrite !Nat.eqb_refl. Qed.

Lemma held_set_other : forall g a l o a' l', ~ (a' = a /\ l' = l) ->
  g_held (set_held g a l o) a' l' = g_held g a' l'.
Proof.
  intros; simpl. destruct (Nat.eqb a a') eqn:E1; destruct (Nat.eqb l l') eqn:E2; simpl; auto.
  apply Nat.eqb_eq in E1; apply Nat.eqb_eq in E2; subst; tauto.
Qed.

(* ------------------------------------------------------------------ relational view of [tstep] *)
Inductive lstep (g : shared) : tstate -> label -> tstate -> Prop :=
| L_begin1 : lstep g Idle (BEGIN 1) S0
| L_begin3 : lstep g Idle (BEGIN 3) A0
| L_s0 : lstep g S0 (LD_RC (g_rc g)) (S1 (g_rc g))
| L_s1 : forall c0, lstep g (S1 c0) (LD_HP (g_hp g)) (E0 {| sc := c0; sh := g_hp g |})
| L_e0 : forall sn a, S a = narr g -> lstep g (E0 sn) (CURLOCKS a) (E1 sn a)
| L_e1 : forall sn sa l, l < asz g sa -> lstep g (E1 sn sa) (LOCKREQ sa l) (EW sn sa l)
| L_ec_ok : forall sn sa l, g_rc g = sc sn -> lstep g (EC sn sa l) (LD_RC (g_rc g)) (CS sn sa [l])
| L_ec_fail : forall sn sa l, g_rc g <> sc sn -> lstep g (EC sn sa l) (LD_RC (g_rc g)) (EF sa l)
| L_cs_req : forall sn sa m r l, l < asz g sa -> m < l ->
    lstep g (CS sn sa (m :: r)) (LOCKREQ sa l) (CW sn sa (m :: r) l)
| L_cs_ldhp : forall sn sa x r,
    lstep g (CS sn sa (x :: r)) (LD_HP (g_hp g)) (CS {| sc := sc sn; sh := g_hp g |} sa (x :: r))
| L_cs_ldrc : forall sn sa x r,
    lstep g (CS sn sa (x :: r)) (LD_RC (g_rc g)) (CS {| sc := g_rc g; sh := sh sn |} sa (x :: r))
| L_cs_cur : forall sn sa x r a, S a = narr g ->
    lstep g (CS sn sa (x :: r)) (CURLOCKS a) (CS sn sa (x :: r))
| L_cs_next : forall sn sa w ts', ts' = Idle \/ ts' = S0 \/ ts' = E0 sn \/ ts' = A0 ->
    lstep g (CS sn sa []) (NEXT w) ts'
| L_a0_ld : lstep g A0 (LD_HP (g_hp g)) A0
| L_a0_next : lstep g A0 (NEXT 0) Idle
| L_a0_first : forall a, S a = narr g -> lstep g A0 (ALL_FIRST a) (AR a a 0)
| L_ar_req : forall first a i, i < asz g a -> lstep g (AR first a i) (LOCKREQ a i) (AR first a i)
| L_an_done : forall first a, S a = narr g -> lstep g (AN first a) (ALL_NEXT false) (AH first false)
| L_an_more : forall first a, S a <> narr g -> lstep g (AN first a) (ALL_NEXT true) (AR first (S a) 0)
| L_ah_ldhp : forall first d, lstep g (AH first d) (LD_HP (g_hp g)) (AH first d)
| L_ah_ldrc : forall first d, lstep g (AH first d) (LD_RC (g_rc g)) (AH first d)
| L_ah_cur : forall first d a, S a = narr g -> lstep g (AH first d) (CURLOCKS a) (AH first d)
| L_au_next : forall first last a i w ts', ~ i < asz g a -> ~ a < last -> ts' = Idle \/ ts' = S0 ->
    lstep g (AU first last a i) (NEXT w) ts'.

(* lock acquisitions: thread state, lock, label, new thread state *)
Inductive astep (g : shared) : tstate -> nat -> nat -> label -> tstate -> Prop :=
| A_ew : forall sn sa l, astep g (EW sn sa l) sa l (LOCKED sa l) (EC sn sa l)
| A_cw : forall sn sa got l, astep g (CW sn sa got l) sa l (LOCKED sa l) (CS sn sa (l :: got))
| A_ar_last : forall first a i, i < asz g a -> S i = asz g a ->
    astep g (AR first a i) a i (LOCKED a i) (AN first a)
| A_ar_more : forall first a i, i < asz g a -> S i <> asz g a ->
    astep g (AR first a i) a i (LOCKED a i) (AR first a (S i)).

(* lock releases *)
Inductive rstep (g : shared) : tstate -> nat -> nat -> tstate -> Prop :=
| R_ef : forall sa l, rstep g (EF sa l) sa l S0
| R_cs : forall sn sa got l, In l got ->
    rstep g (CS sn sa got) sa l (CS sn sa (filter (fun x => negb (Nat.eqb l x)) got))
| R_ah : forall first, rstep g (AH first false) first 0 (AU first (narr g - 1) first 1)
| R_au : forall first last a i, i < asz g a -> rstep g (AU first last a i) a i (AU first last a (S i))
| R_au_tail : forall first last a i, ~ i < asz g a -> a < last ->
    rstep g (AU first last a i) (S a) 0 (AU first last (S a) 1).

Definition g_sthp (g : shared) (v : N) : shared :=
  {| g_hp := v; g_rc := g_rc g; g_arrs := g_arrs g; g_held := g_held g;
     g_hp0 := g_hp0 g; g_narr0 := g_narr0 g; g_dirty := true |}.
Definition g_emplace (me : tid) (g : shared) (n : nat) : shared :=
  {| g_hp := g_hp g; g_rc := g_rc g; g_arrs := g_arrs g ++ [n];
     g_held := fun a' l' => if Nat.eqb (narr g) a' then (if Nat.ltb l' n then Some me else None) else g_held g a' l';
     g_hp0 := g_hp0 g; g_narr0 := g_narr0 g; g_dirty := true |}.
Definition g_bump (g : shared) : shared :=
  {| g_hp := g_hp g; g_rc := N.succ (g_rc g); g_arrs := g_arrs g; g_held := g_held g;
     g_hp0 := g_hp g; g_narr0 := narr g; g_dirty := false |}.

Inductive tstepR (me : tid) (g : shared) : tstate -> label -> shared -> tstate -> Prop :=
| TR_local : forall ts lb ts', lstep g ts lb ts' -> tstepR me g ts lb g ts'
| TR_acq : forall ts lb a l ts', astep g ts a l lb ts' -> g_held g a l = None ->
    tstepR me g ts lb (set_held g a l (Some me)) ts'
| TR_rel : forall ts a l ts', rstep g ts a l ts' ->
    tstepR me g ts (UNLOCK a l) (set_held g a l None) ts'
| TR_sthp : forall first d v, tstepR me g (AH first d) (ST_HP v) (g_sthp g v) (AH first true)
| TR_emp : forall first d n, 0 < n -> tstepR me g (AH first d) (EMPLACE n) (g_emplace me g n) (AH first true)
| TR_fa : forall first d, tstepR me g (AH first d) FA_RC (g_bump g) (AH first false).

Ltac brk H :=
  repeat match type of H with
  | context [match ?x with _ => _ end] => destruct x eqn:?; try discriminate H
  end.

Ltac bprop :=
  repeat match goal with
  | H : _ && _ = true |- _ => apply andb_true_iff in H; destruct H
  | H : _ && _ = false |- _ => apply andb_false_iff in H
  | H : Nat.eqb _ _ = true |- _ => apply Nat.eqb_eq in H
  | H : Nat.eqb _ _ = false |- _ => apply Nat.eqb_neq in H
  | H : Nat.ltb _ _ = true |- _ => apply Nat.ltb_lt in H
  | H : Nat.ltb _ _ = false |- _ => apply Nat.ltb_ge in H
  | H : N.eqb _ _ = true |- _ => apply N.eqb_eq in H
  | H : N.eqb _ _ = false |- _ => apply N.eqb_neq in H
  | H : negb _ = true |- _ => apply negb_true_iff in H
  | H : negb _ = false |- _ => apply negb_false_iff in H
  end.

Lemma tstep_sound : forall me g ts lb g' ts',
  tstep me g ts lb = Some (g', ts') -> tstepR me g ts lb g' ts'.
Proof.
  intros me g ts lb g' ts' H. unfold tstep, after_release, max_got in H.
  destruct ts; destruct lb; cbv beta iota zeta in H; try discriminate H.
  all: brk H.
  all: try (inversion H; subst; clear H).
  all: bprop; subst; try discriminate; try lia.
  all: repeat match goal with
       | H : existsb _ _ = true |- _ =>
           apply existsb_exists in H; destruct H as (? & ? & ?); bprop; subst
       end.
  all: try solve [ apply TR_local; constructor; auto; lia
                 | eapply TR_acq; [ constructor; auto; lia | auto ]
                 | apply TR_rel; constructor; auto; lia
                 | constructor; auto; lia ].
  match goal with H : match ?w with _ => _ end = Some _ |- _ =>
    destruct w as [|[|[|[|?]]]]; inversion H; subst end;
  apply TR_local; constructor; auto.
Qed.

(* ------------------------------------------------------------------ lists of held stripes *)
Fixpoint desc (l : list nat) : Prop :=
  match l with [] => True | x :: r => (forall y, In y r -> y < x) /\ desc r end.

Lemma In_filter_neq : forall l got x,
  In x (filter (fun x => negb (Nat.eqb l x)) got) <-> In x got /\ x <> l.
Proof.
  intros. rewrite filter_In. split; intros [H1 H2]; split; auto.
  - apply negb_true_iff, Nat.eqb_neq in H2. congruence.
  - apply negb_true_iff, Nat.eqb_neq. congruence.
Qed.

Lemma desc_filter : forall f l, desc l -> desc (filter f l).
Proof.
  induction l; simpl; auto. intros [H1 H2]. destruct (f a); simpl; auto.
  split; auto. intros y Hy. apply filter_In in Hy. apply H1, Hy.
Qed.

(* ------------------------------------------------------------------ how a step changes the arrays *)
Definition arrs_ext (g g' : shared) : Prop :=
  g_arrs g' = g_arrs g \/ exists n, 0 < n /\ g_arrs g' = g_arrs g ++ [n].

Lemma ext_narr : forall g g', arrs_ext g g' -> narr g <= narr g'.
Proof.
  unfold arrs_ext, narr; intros g g' [H | (n & _ & H)]; rewrite H; auto.
  rewrite app_length; simpl; lia.
Qed.

Lemma ext_asz : forall g g' a, arrs_ext g g' -> a < narr g -> asz g' a = asz g a.
Proof.
  unfold arrs_ext, narr, asz; intros g g' a [H | (n & _ & H)] Ha; rewrite H; auto.
  now rewrite app_nth1.
Qed.

Lemma tstepR_ext : forall me g ts lb g' ts', tstepR me g ts lb g' ts' -> arrs_ext g g'.
Proof.
  destruct 1; try (left; reflexivity). right; exists n; split; auto.
Qed.

(* the part of the shared state that is not the owner map *)
Definition same_data (g g' : shared) : Prop :=
  g_hp g' = g_hp g /\ g_rc g' = g_rc g /\ g_arrs g' = g_arrs g /\
  g_hp0 g' = g_hp0 g /\ g_narr0 g' = g_narr0 g /\ g_dirty g' = g_dirty g.

Lemma same_data_refl : forall g, same_data g g.
Proof. unfold same_data; tauto. Qed.
Lemma same_data_set_held : forall g a l o, same_data g (set_held g a l o).
Proof. unfold same_data; simpl; tauto. Qed.

(* T5, first half: only a thread in [AH] changes anything but the owner map *)
Lemma tstepR_data : forall me g ts lb g' ts',
  tstepR me g ts lb g' ts' -> same_data g g' \/ all_holder ts.
Proof.
  destruct 1; simpl; auto using same_data_refl, same_data_set_held.
Qed.

Lemma same_data_narr : forall g g', same_data g g' -> narr g' = narr g.
Proof. unfold same_data, narr; intros g g' (_ & _ & H & _); now rewrite H. Qed.
Lemma same_data_asz : forall g g' a, same_data g g' -> asz g' a = asz g a.
Proof. unfold same_data, asz; intros g g' a (_ & _ & H & _); now rewrite H. Qed.

(* ------------------------------------------------------------------ I2: well-formed control states *)
Definition wf_ts (g : shared) (ts : tstate) : Prop :=
  match ts with
  | E1 _ sa => sa < narr g
  | EW _ sa l | EC _ sa l | EF sa l => sa < narr g /\ l < asz g sa
  | CS _ sa got => sa < narr g /\ desc got /\ (forall x, In x got -> x < asz g sa)
  | CW _ sa got l => sa < narr g /\ desc got /\ (forall x, In x got -> x < asz g sa) /\
                     l < asz g sa /\ (forall x, In x got -> x < l) /\ got <> []
  | AR first a i => first <= a /\ a < narr g /\ i < asz g a
  | AN first a => first <= a /\ a < narr g
  | AH first _ => first < narr g
  | AU first last a i => first <= a /\ a <= last /\ last < narr g /\ i <= asz g a
  | _ => True
  end.

Lemma wf_mono : forall g g' ts, arrs_ext g g' -> wf_ts g ts -> wf_ts g' ts.
Proof.
  intros g g' ts E. pose proof (ext_narr _ _ E) as Hn. pose proof (fun a => ext_asz g g' a E) as Ha.
  destruct ts; simpl; auto; intros; repeat match goal with H : _ /\ _ |- _ => destruct H end;
    try (rewrite !Ha by lia); repeat split; auto; try lia.
Qed.

Lemma holds_ext : forall g g' ts a l, arrs_ext g g' -> a < narr g ->
  (holds_lock g' ts a l <-> holds_lock g ts a l).
Proof.
  intros g g' ts a l E Hlt. pose proof (ext_narr _ _ E) as Hn. pose proof (ext_asz g g' a E Hlt) as Ha.
  destruct ts; simpl; try tauto; rewrite ?Ha; try tauto; lia.
Qed.

Lemma holds_bound : forall g ts a l, wf_ts g ts -> holds_lock g ts a l -> a < narr g /\ l < asz g a.
Proof.
  destruct ts; simpl; try tauto; intros;
    repeat match goal with H : _ /\ _ |- _ => destruct H | H : _ \/ _ |- _ => destruct H end;
    subst; auto; try lia.
Qed.

Lemma lstep_holds : forall g ts lb ts' a l, lstep g ts lb ts' -> wf_ts g ts ->
  (holds_lock g ts' a l <-> holds_lock g ts a l).
Proof.
  destruct 1; simpl; intros; try tauto;
    repeat match goal with H : _ \/ _ |- _ => destruct H end; subst; simpl; try tauto; try lia;
    try solve [intuition (subst; lia)].
Qed.

Lemma astep_holds : forall g ts a0 l0 lb ts' a l, astep g ts a0 l0 lb ts' -> wf_ts g ts ->
  (holds_lock g ts' a l <-> holds_lock g ts a l \/ (a = a0 /\ l = l0)).
Proof.
  destruct 1; simpl; intros; try tauto; try lia; try solve [intuition (subst; lia)].
  all: destruct (Nat.eq_dec a a0); [subst|]; split; intros; lia.
Qed.

Lemma rstep_holds : forall g ts a0 l0 ts' a l, rstep g ts a0 l0 ts' -> wf_ts g ts ->
  (holds_lock g ts' a l <-> holds_lock g ts a l /\ ~ (a = a0 /\ l = l0)).
Proof.
  destruct 1; simpl; intros; try tauto; try lia; try solve [intuition (subst; lia)].
  - rewrite In_filter_neq. tauto.
Qed.

(* ------------------------------------------------------------------ I0 / I3a: shape of the shared state *)
Record shape (g : shared) : Prop := {
  sh_ne : 1 <= narr g;
  sh_pos : forall a, a < narr g -> 0 < asz g a;
  sh_n0 : 1 <= g_narr0 g /\ g_narr0 g <= narr g;
  sh_clean : g_dirty g = false -> g_hp g = g_hp0 g /\ narr g = g_narr0 g }.

Lemma shape_same : forall g g', same_data g g' -> shape g -> shape g'.
Proof.
  intros g g' D [A B C E]. pose proof (same_data_narr _ _ D) as Hn.
  pose proof (fun a => same_data_asz g g' a D) as Ha.
  destruct D as (D1 & D2 & D3 & D4 & D5 & D6).
  split; rewrite ?Hn, ?D5, ?D6, ?D1, ?D4; auto. intros; rewrite Ha; auto.
Qed.

Lemma tstepR_shape : forall me g ts lb g' ts', tstepR me g ts lb g' ts' -> shape g -> shape g'.
Proof.
  intros me g ts lb g' ts' H S. destruct H;
    auto using (shape_same g), same_data_set_held; destruct S as [A B C E].
  - split; auto. simpl; discriminate.
  - split; unfold narr, asz in *; simpl; rewrite ?app_length; simpl; try lia; try discriminate.
    intros a Ha. destruct (Nat.eq_dec a (length (g_arrs g))) as [->|Hne].
    + rewrite nth_middle. auto.
    + rewrite app_nth1 by lia. apply B; lia.
  - split; unfold narr, asz in *; simpl; auto; try lia.
Qed.

Lemma tstepR_narr0_mono : forall me g ts lb g' ts', tstepR me g ts lb g' ts' -> shape g ->
  g_narr0 g <= g_narr0 g'.
Proof. intros me g ts lb g' ts' H S. destruct H; simpl; auto. apply S. Qed.

(* ------------------------------------------------------------------ I6: snapshots *)
Definition snapH_ok (g : shared) (sn : snap) : Prop :=
  (sc sn <= g_rc g)%N /\ (sc sn = g_rc g -> g_dirty g = false -> sh sn = g_hp0 g).
Definition snapA_ok (g : shared) (sn : snap) (sa : nat) : Prop :=
  sc sn = g_rc g -> g_narr0 g <= sa + 1 /\ (g_dirty g = false -> sa + 1 = g_narr0 g).
Definition snap_ok (g : shared) (ts : tstate) : Prop :=
  match ts with
  | S1 c0 => (c0 <= g_rc g)%N
  | E0 sn => snapH_ok g sn
  | E1 sn sa | EW sn sa _ | EC sn sa _ | CS sn sa _ | CW sn sa _ _ => snapH_ok g sn /\ snapA_ok g sn sa
  | _ => True
  end.

(* I7: validated threads see the current generation, size and lock array, and nothing is dirty *)
Definition val_ok (g : shared) (ts : tstate) : Prop :=
  match ts with
  | CS sn sa (_ :: _) | CW sn sa _ _ =>
      sc sn = g_rc g /\ sh sn = g_hp g /\ sa + 1 = narr g /\ g_dirty g = false
  | _ => True
  end.

Lemma snap_same : forall g g' ts, same_data g g' -> snap_ok g ts -> snap_ok g' ts.
Proof.
  intros g g' ts (D1 & D2 & D3 & D4 & D5 & D6).
  destruct ts; simpl; auto; unfold snapH_ok, snapA_ok; rewrite ?D1, ?D2, ?D4, ?D5, ?D6; auto.
Qed.

Lemma val_same : forall g g' ts, same_data g g' -> val_ok g ts -> val_ok g' ts.
Proof.
  intros g g' ts D. pose proof (same_data_narr _ _ D) as Hn. destruct D as (D1 & D2 & D3 & D4 & D5 & D6).
  destruct ts; simpl; auto; try destruct got; rewrite ?Hn, ?D1, ?D2, ?D4, ?D5, ?D6; auto.
Qed.

(* snapshots of the other threads survive every step *)
Lemma snap_frame : forall me g ts lb g' ts' x, tstepR me g ts lb g' ts' -> snap_ok g x -> snap_ok g' x.
Proof.
  intros me g ts lb g' ts' x H. destruct H;
    auto using (snap_same g), same_data_set_held;
    destruct x; simpl; auto; unfold snapH_ok, snapA_ok; simpl; intros;
    repeat match goal with H : _ /\ _ |- _ => destruct H end;
    repeat split; intros; try discriminate; try lia; auto.
Qed.

Lemma lstep_wf : forall g ts lb ts', lstep g ts lb ts' -> shape g -> wf_ts g ts -> wf_ts g ts'.
Proof.
  intros g ts lb ts' H S. pose proof (sh_pos _ S) as P. pose proof (sh_ne _ S) as NE.
  destruct H; simpl; intros;
    repeat match goal with H : _ /\ _ |- _ => destruct H | H : _ \/ _ |- _ => destruct H end;
    subst; simpl; auto; repeat split; auto; try lia; try discriminate;
    try solve [intros ? [<- | []]; lia]; try solve [intros ? []].
  - intros x [<- | Hx]; auto. apply H2 in Hx; lia.
  - apply P; lia.
  - apply P; lia.
Qed.

Lemma astep_wf : forall g ts a l lb ts', astep g ts a l lb ts' -> wf_ts g ts -> wf_ts g ts'.
Proof.
  intros g ts a l lb ts' H. destruct H; simpl; intros;
    repeat match goal with H : _ /\ _ |- _ => destruct H end; repeat split; auto; try lia.
  - intros x [<- | Hx]; auto.
Qed.

Lemma rstep_wf : forall g ts a l ts', rstep g ts a l ts' -> shape g -> wf_ts g ts -> wf_ts g ts'.
Proof.
  intros g ts a l ts' H S. pose proof (sh_pos _ S) as P.
  destruct H; simpl; intros;
    repeat match goal with H : _ /\ _ |- _ => destruct H end; repeat split; auto; try lia.
  - now apply desc_filter.
  - intros x Hx. apply In_filter_neq in Hx. apply H2, Hx.
  - apply P; lia.
  - apply P; lia.
Qed.

Lemma tstepR_wf : forall me g ts lb g' ts', tstepR me g ts lb g' ts' -> shape g ->
  wf_ts g ts -> wf_ts g' ts'.
Proof.
  intros me g ts lb g' ts' H S W. destruct H.
  - eapply lstep_wf; eauto.
  - change (wf_ts g ts'). eapply astep_wf; eauto.
  - change (wf_ts g ts'). eapply rstep_wf; eauto.
  - exact W.
  - simpl in *. unfold narr in *; simpl. rewrite app_length; simpl; lia.
  - exact W.
Qed.

Lemma tstepR_snap : forall me g ts lb g' ts', tstepR me g ts lb g' ts' -> shape g ->
  snap_ok g ts -> val_ok g ts -> snap_ok g' ts'.
Proof.
  intros me g ts lb g' ts' H S K V. pose proof (sh_clean _ S) as C. pose proof (sh_n0 _ S) as N0.
  destruct H.
  - destruct H; simpl in *; unfold snapH_ok, snapA_ok in *; simpl in *; auto;
      repeat match goal with H : _ /\ _ |- _ => destruct H | H : _ \/ _ |- _ => destruct H end;
      subst; simpl; auto; repeat split; intros; auto; try lia;
      try (destruct C; auto; lia); try solve [intuition congruence].
  - change (snap_ok g ts'). destruct H; simpl in *; auto.
  - change (snap_ok g ts'). destruct H; simpl in *; auto.
  - exact I.
  - exact I.
  - exact I.
Qed.

(* ------------------------------------------------------------------ the invariant *)
Record Inv (s : gstate) : Prop := {
  i_shape : shape (sh_ s);
  i_dirty : g_dirty (sh_ s) = true -> exists t first, thr s t = AH first true;
  i_own   : forall t a l, g_held (sh_ s) a l = Some t -> holds_lock (sh_ s) (thr s t) a l;
  i_claim : forall t a l, holds_lock (sh_ s) (thr s t) a l -> g_held (sh_ s) a l = Some t;
  i_wf    : forall t, wf_ts (sh_ s) (thr s t);
  i_snap  : forall t, snap_ok (sh_ s) (thr s t);
  i_ahd   : forall t first d, thr s t = AH first d -> d = g_dirty (sh_ s);
  i_ah0   : forall t first d, thr s t = AH first d -> first + 1 <= g_narr0 (sh_ s);
  i_val   : forall t, val_ok (sh_ s) (thr s t) }.

Lemma nth_pos : forall (l : list nat) a, Forall (fun n => 0 < n) l -> a < length l -> 0 < nth a l 0.
Proof.
  intros l a F Ha. rewrite Forall_forall in F. apply F, nth_In, Ha.
Qed.

Lemma Inv_init : forall hp0 rc0 arrs0, arrs_ok arrs0 -> Inv (ginit hp0 rc0 arrs0).
Proof.
  intros hp0 rc0 arrs0 [NE POS].
  assert (1 <= length arrs0) by (destruct arrs0; simpl; [congruence | lia]).
  split; simpl; try discriminate; auto; try tauto.
  split; unfold narr, asz; simpl; auto. intros; now apply nth_pos.
Qed.

(* consequences inside one state *)
Section InState.
  Variable s : gstate.
  Hypothesis HI : Inv s.
  Local Notation g := (sh_ s).

  Lemma ah_holds_last : forall t first d l, thr s t = AH first d -> l < asz g (narr g - 1) ->
    g_held g (narr g - 1) l = Some t.
  Proof.
    intros t first d l Ht Hl. apply (i_claim _ HI). rewrite Ht; simpl.
    pose proof (i_wf _ HI t) as W. rewrite Ht in W; simpl in W.
    pose proof (sh_ne _ (i_shape _ HI)). repeat split; auto; lia.
  Qed.

  Lemma one_ah : forall t1 t2 f1 d1 f2 d2, thr s t1 = AH f1 d1 -> thr s t2 = AH f2 d2 -> t1 = t2.
  Proof.
    intros t1 t2 f1 d1 f2 d2 H1 H2.
    assert (P : 0 < asz g (narr g - 1)).
    { apply (sh_pos _ (i_shape _ HI)). pose proof (sh_ne _ (i_shape _ HI)); lia. }
    pose proof (ah_holds_last _ _ _ _ H1 P) as E1. pose proof (ah_holds_last _ _ _ _ H2 P) as E2. congruence.
  Qed.

  (* a thread that owns a lock of an array at or after the committed last array excludes all-holders *)
  Lemma owner_excludes_ah : forall t a l R first d,
    g_held g a l = Some t -> g_narr0 g <= a + 1 -> thr s R = AH first d -> R = t.
  Proof.
    intros t a l R first d Hh Ha HR.
    pose proof (i_own _ HI _ _ _ Hh) as Ho. pose proof (holds_bound _ _ _ _ (i_wf _ HI t) Ho) as [B1 B2].
    pose proof (i_ah0 _ HI _ _ _ HR) as F.
    assert (g_held g a l = Some R).
    { apply (i_claim _ HI). rewrite HR; simpl. repeat split; auto; lia. }
    congruence.
  Qed.

  Lemma no_ah_not_dirty : (forall R first d, thr s R <> AH first d) -> g_dirty g = false.
  Proof.
    intros H. destruct (g_dirty g) eqn:E; auto.
    destruct (i_dirty _ HI E) as (R & f & HR). now apply H in HR.
  Qed.
End InState.

Section InState2.
  Variable s : gstate.
  Hypothesis HI : Inv s.
  Local Notation g := (sh_ s).

  Lemma owner_no_ah : forall t a l, g_held g a l = Some t -> g_narr0 g <= a + 1 ->
    ~ all_holder (thr s t) -> forall R first d, thr s R <> AH first d.
  Proof.
    intros t a l Hh Ha Hn R first d HR.
    assert (R = t) by (eapply owner_excludes_ah; eauto). subst R. rewrite HR in Hn. simpl in Hn; auto.
  Qed.

  Lemma owner_clean : forall t a l, g_held g a l = Some t -> g_narr0 g <= a + 1 ->
    ~ all_holder (thr s t) -> g_dirty g = false.
  Proof. intros. apply no_ah_not_dirty; auto. eapply owner_no_ah; eauto. Qed.

  (* while some thread is an all-holder, the I7 clause of every other thread is trivial *)
  Lemma val_trivial_under_ah : forall t first d u, thr s t = AH first d -> u <> t ->
    forall g', val_ok g' (thr s u).
  Proof.
    intros t first d u Ht Hne g'.
    pose proof (i_val _ HI u) as V. pose proof (i_wf _ HI u) as W.
    pose proof (sh_n0 _ (i_shape _ HI)) as N0.
    assert (K : forall sa x, holds_lock g (thr s u) sa x -> sa + 1 = narr g -> False).
    { intros sa x Ho E. apply (i_claim _ HI) in Ho.
      apply Hne. symmetry. eapply owner_excludes_ah; eauto. lia. }
    destruct (thr s u) eqn:Eu; simpl; auto.
    - destruct got as [|x r]; auto. exfalso. simpl in V. apply (K sa x); simpl; tauto.
    - exfalso. simpl in V, W. destruct got as [|x r]; [tauto|]. apply (K sa x); simpl; tauto.
  Qed.
End InState2.

Lemma narr_emplace : forall me g n, narr (g_emplace me g n) = S (narr g).
Proof. intros; unfold narr; simpl. rewrite app_length; simpl; lia. Qed.
Lemma asz_emplace_new : forall me g n, asz (g_emplace me g n) (narr g) = n.
Proof. intros; unfold asz, narr; simpl. apply nth_middle. Qed.
Lemma asz_emplace_old : forall me g n a, a < narr g -> asz (g_emplace me g n) a = asz g a.
Proof. intros; unfold asz, narr in *; simpl. now apply app_nth1. Qed.
Lemma ext_emplace : forall me g n, 0 < n -> arrs_ext g (g_emplace me g n).
Proof. intros; right; exists n; split; auto. Qed.

Lemma claims_old : forall g g' x a l, arrs_ext g g' -> wf_ts g x -> ~ all_holder x ->
  holds_lock g' x a l -> a < narr g.
Proof.
  intros g g' x a l E W NA H. destruct x; simpl in *; try tauto;
    repeat match goal with H : _ /\ _ |- _ => destruct H | H : _ \/ _ |- _ => destruct H end;
    subst; try lia.
Qed.

Lemma rstep_owned : forall g ts a l ts', rstep g ts a l ts' -> shape g -> wf_ts g ts ->
  holds_lock g ts a l.
Proof.
  intros g ts a l ts' H S. pose proof (sh_pos _ S) as P.
  destruct H; simpl; intros; auto;
    repeat match goal with H : _ /\ _ |- _ => destruct H end.
  all: try solve [repeat split; auto; apply P; auto].
  all: try solve [left; lia].
  all: try solve [right; repeat split; try lia; apply P; lia].
Qed.

Ltac thr_cases u t :=
  destruct (Nat.eq_dec u t) as [-> | ?]; [rewrite upd_thr_same | rewrite upd_thr_other by auto].

(* ------------------------------------------------------------------ preservation, clause by clause *)
Lemma P_dirty : forall s t lb g' ts', Inv s -> tstepR t (sh_ s) (thr s t) lb g' ts' ->
  g_dirty g' = true -> exists u first, upd_thr (thr s) t ts' u = AH first true.
Proof.
  intros s t lb g' ts' HI HS D.
  assert (K : (exists f, ts' = AH f true) \/
              (g_dirty (sh_ s) = true /\ forall f, thr s t = AH f true -> ts' = AH f true)).
  { remember (thr s t) as ts eqn:Hts. clear Hts. destruct HS; simpl in D; try discriminate; eauto; right; split; auto; intros f E; subst.
    - inversion H; subst; auto.
    - inversion H.
    - inversion H. }
  destruct K as [(f & ->) | (D0 & K)].
  - exists t, f. apply upd_thr_same.
  - destruct (i_dirty _ HI D0) as (w & f & Hw). destruct (Nat.eq_dec w t) as [-> | Hne].
    + exists t, f. rewrite upd_thr_same; auto.
    + exists w, f. rewrite upd_thr_other; auto.
Qed.

Lemma P_own : forall s t lb g' ts', Inv s -> tstepR t (sh_ s) (thr s t) lb g' ts' ->
  forall u a l, g_held g' a l = Some u -> holds_lock g' (upd_thr (thr s) t ts' u) a l.
Proof.
  intros s t lb g' ts' HI HS u a l Hh.
  pose proof (i_wf _ HI t) as W. pose proof (i_shape _ HI) as SH.
  remember (thr s t) as ts eqn:Hts.
  destruct HS as [ts lb ts' L | ts lb a0 l0 ts' A Hfree | ts a0 l0 ts' R | first d v | first d n Hn | first d].
  - pose proof (i_own _ HI _ _ _ Hh) as Ho. thr_cases u t; auto.
    rewrite <- Hts in Ho. eapply lstep_holds; eauto.
  - change (holds_lock (sh_ s) (upd_thr (thr s) t ts' u) a l). rewrite held_set_held in Hh.
    destruct (Nat.eqb a0 a && Nat.eqb l0 l) eqn:E.
    + bprop; subst. inversion Hh; subst u. rewrite upd_thr_same. eapply astep_holds; eauto.
    + pose proof (i_own _ HI _ _ _ Hh) as Ho. thr_cases u t; auto.
      rewrite <- Hts in Ho. eapply astep_holds; eauto.
  - change (holds_lock (sh_ s) (upd_thr (thr s) t ts' u) a l). rewrite held_set_held in Hh.
    destruct (Nat.eqb a0 a && Nat.eqb l0 l) eqn:E; [discriminate|].
    pose proof (i_own _ HI _ _ _ Hh) as Ho. thr_cases u t; auto.
    rewrite <- Hts in Ho. eapply rstep_holds; eauto. split; auto.
    intros [-> ->]. rewrite !Nat.eqb_refl in E; discriminate.
  - change (holds_lock (sh_ s) (upd_thr (thr s) t (AH first true) u) a l).
    pose proof (i_own _ HI _ _ _ Hh) as Ho. thr_cases u t; auto. rewrite <- Hts in Ho. exact Ho.
  - simpl in Hh. destruct (Nat.eqb (narr (sh_ s)) a) eqn:E.
    + bprop; subst a. destruct (Nat.ltb l n) eqn:El; inversion Hh; subst u. bprop.
      rewrite upd_thr_same. simpl in *. rewrite narr_emplace, asz_emplace_new. lia.
    + bprop. pose proof (i_own _ HI _ _ _ Hh) as Ho.
      pose proof (holds_bound _ _ _ _ (i_wf _ HI u) Ho) as [B _].
      apply (holds_ext _ _ _ _ _ (ext_emplace t _ _ Hn) B) in Ho.
      thr_cases u t; auto. rewrite <- Hts in Ho. exact Ho.
  - change (holds_lock (sh_ s) (upd_thr (thr s) t (AH first false) u) a l).
    pose proof (i_own _ HI _ _ _ Hh) as Ho. thr_cases u t; auto. rewrite <- Hts in Ho. exact Ho.
Qed.

Lemma P_claim : forall s t lb g' ts', Inv s -> tstepR t (sh_ s) (thr s t) lb g' ts' ->
  forall u a l, holds_lock g' (upd_thr (thr s) t ts' u) a l -> g_held g' a l = Some u.
Proof.
  intros s t lb g' ts' HI HS u a l Ho.
  pose proof (i_wf _ HI t) as W. pose proof (i_shape _ HI) as SH.
  remember (thr s t) as ts eqn:Hts.
  destruct HS as [ts lb ts' L | ts lb a0 l0 ts' A Hfree | ts a0 l0 ts' R | first d v | first d n Hn | first d].
  - apply (i_claim _ HI). revert Ho. thr_cases u t; auto. intros Ho.
    rewrite <- Hts. apply (proj1 (lstep_holds _ _ _ _ a l L W)). exact Ho.
  - change (holds_lock (sh_ s) (upd_thr (thr s) t ts' u) a l) in Ho. rewrite held_set_held.
    destruct (Nat.eqb a0 a && Nat.eqb l0 l) eqn:E.
    + bprop; subst. revert Ho. thr_cases u t; auto. intros Ho.
      apply (i_claim _ HI) in Ho. congruence.
    + apply (i_claim _ HI). revert Ho. thr_cases u t; auto. intros Ho.
      rewrite <- Hts. eapply astep_holds in Ho; eauto. destruct Ho as [Ho | [-> ->]]; auto.
      rewrite !Nat.eqb_refl in E; discriminate.
  - change (holds_lock (sh_ s) (upd_thr (thr s) t ts' u) a l) in Ho. rewrite held_set_held.
    assert (Ht : g_held (sh_ s) a0 l0 = Some t).
    { apply (i_claim _ HI). rewrite <- Hts. eapply rstep_owned; eauto. }
    revert Ho. thr_cases u t; intros Ho.
    + eapply rstep_holds in Ho; eauto. destruct Ho as [Ho Hn].
      destruct (Nat.eqb a0 a && Nat.eqb l0 l) eqn:E; [bprop; subst; tauto|].
      apply (i_claim _ HI). now rewrite <- Hts.
    + apply (i_claim _ HI) in Ho.
      destruct (Nat.eqb a0 a && Nat.eqb l0 l) eqn:E; auto. bprop; subst. congruence.
  - change (holds_lock (sh_ s) (upd_thr (thr s) t (AH first true) u) a l) in Ho.
    change (g_held (sh_ s) a l = Some u). apply (i_claim _ HI). revert Ho. thr_cases u t; auto.
    now rewrite <- Hts.
  - pose proof (ext_emplace t (sh_ s) _ Hn) as EX. revert Ho. thr_cases u t; intros Ho.
    + simpl in Ho. rewrite narr_emplace in Ho. simpl.
      destruct (Nat.eqb (narr (sh_ s)) a) eqn:E; bprop.
      * subst a. rewrite asz_emplace_new in Ho.
        destruct (Nat.ltb l n) eqn:El; bprop; auto. lia.
      * rewrite asz_emplace_old in Ho by lia. apply (i_claim _ HI). rewrite <- Hts; simpl. lia.
    + assert (NA : ~ all_holder (thr s u)).
      { intros AHu. destruct (thr s u) eqn:Eu; simpl in AHu; try tauto.
        symmetry in Hts. pose proof (one_ah _ HI _ _ _ _ _ _ Eu Hts). auto. }
      pose proof (claims_old _ _ _ _ _ EX (i_wf _ HI u) NA Ho) as B.
      apply (holds_ext _ _ _ _ _ EX B) in Ho. apply (i_claim _ HI) in Ho. simpl.
      destruct (Nat.eqb (narr (sh_ s)) a) eqn:E; bprop; auto. lia.
  - change (holds_lock (sh_ s) (upd_thr (thr s) t (AH first false) u) a l) in Ho.
    change (g_held (sh_ s) a l = Some u). apply (i_claim _ HI). revert Ho. thr_cases u t; auto.
    now rewrite <- Hts.
Qed.

Lemma P_wf : forall s t lb g' ts', Inv s -> tstepR t (sh_ s) (thr s t) lb g' ts' ->
  forall u, wf_ts g' (upd_thr (thr s) t ts' u).
Proof.
  intros s t lb g' ts' HI HS u. thr_cases u t.
  - eapply tstepR_wf; eauto using i_shape, i_wf.
  - eapply wf_mono; eauto using tstepR_ext, i_wf.
Qed.

Lemma P_snap : forall s t lb g' ts', Inv s -> tstepR t (sh_ s) (thr s t) lb g' ts' ->
  forall u, snap_ok g' (upd_thr (thr s) t ts' u).
Proof.
  intros s t lb g' ts' HI HS u. thr_cases u t.
  - eapply tstepR_snap; eauto using i_shape, i_snap, i_val.
  - eapply snap_frame; eauto using i_snap.
Qed.

(* the step into [AH] happens in a clean state *)
Lemma an_last_clean : forall s t first a, Inv s -> thr s t = AN first a -> S a = narr (sh_ s) ->
  g_dirty (sh_ s) = false.
Proof.
  intros s t first a HI Ht Ha.
  pose proof (i_wf _ HI t) as W. rewrite Ht in W; simpl in W.
  assert (Hh : g_held (sh_ s) a 0 = Some t).
  { apply (i_claim _ HI). rewrite Ht; simpl. repeat split; try lia.
    apply (sh_pos _ (i_shape _ HI)); lia. }
  eapply owner_clean; eauto.
  - pose proof (sh_n0 _ (i_shape _ HI)). lia.
  - rewrite Ht; simpl; auto.
Qed.

Lemma P_ahd : forall s t lb g' ts', Inv s -> tstepR t (sh_ s) (thr s t) lb g' ts' ->
  forall u first d, upd_thr (thr s) t ts' u = AH first d -> d = g_dirty g'.
Proof.
  intros s t lb g' ts' HI HS u first d. thr_cases u t; intros Hu.
  - remember (thr s t) as ts eqn:Hts. symmetry in Hts.
    destruct HS as [ts lb ts' L | ts lb a0 l0 ts' A Hfree | ts a0 l0 ts' R | f d0 v | f d0 n Hn | f d0];
      try subst ts'.
    + inversion L; subst; try (repeat match goal with H : _ \/ _ |- _ => destruct H end; discriminate).
      * symmetry. eapply an_last_clean; eauto.
      * eapply i_ahd; eauto.
      * eapply i_ahd; eauto.
      * eapply i_ahd; eauto.
    + inversion A.
    + inversion R.
    + now inversion Hu.
    + now inversion Hu.
    + now inversion Hu.
  - rewrite (i_ahd _ HI _ _ _ Hu). destruct (tstepR_data _ _ _ _ _ _ HS) as [D | A].
    + symmetry; apply D.
    + exfalso. destruct (thr s t) eqn:Et; simpl in A; try tauto.
      pose proof (one_ah _ HI _ _ _ _ _ _ Hu Et). auto.
Qed.

Lemma P_ah0 : forall s t lb g' ts', Inv s -> tstepR t (sh_ s) (thr s t) lb g' ts' ->
  forall u first d, upd_thr (thr s) t ts' u = AH first d -> first + 1 <= g_narr0 g'.
Proof.
  intros s t lb g' ts' HI HS u first d.
  pose proof (tstepR_narr0_mono _ _ _ _ _ _ HS (i_shape _ HI)) as M.
  thr_cases u t; intros Hu.
  - remember (thr s t) as ts eqn:Hts. symmetry in Hts.
    assert (K : (exists d0, ts = AH first d0) \/ (exists a, ts = AN first a /\ S a = narr (sh_ s) /\ g' = sh_ s)).
    { destruct HS as [ts lb ts' L | ts lb a0 l0 ts' A Hfree | ts a0 l0 ts' R | f d0 v | f d0 n Hn | f d0];
        try subst ts'; try (inversion Hu; subst; eauto; fail).
      - inversion L; subst; try (repeat match goal with H : _ \/ _ |- _ => destruct H end; discriminate); eauto.
      - inversion A.
      - inversion R. }
    destruct K as [(d0 & ->) | (a & -> & Ha & ->)].
    + pose proof (i_ah0 _ HI _ _ _ Hts). lia.
    + pose proof (an_last_clean _ _ _ _ HI Hts Ha) as C.
      apply (sh_clean _ (i_shape _ HI)) in C. destruct C as [_ C].
      pose proof (i_wf _ HI t) as W. rewrite Hts in W; simpl in W. lia.
  - pose proof (i_ah0 _ HI _ _ _ Hu). lia.
Qed.

(* the generation check succeeded: the thread becomes validated *)
Lemma ec_check_ok : forall s t sn sa l, Inv s -> thr s t = EC sn sa l -> g_rc (sh_ s) = sc sn ->
  val_ok (sh_ s) (CS sn sa [l]).
Proof.
  intros s t sn sa l HI Ht Hrc.
  pose proof (i_snap _ HI t) as K. rewrite Ht in K; simpl in K. destruct K as [[_ KH] KA].
  destruct (KA (eq_sym Hrc)) as [K1 K2].
  assert (Hh : g_held (sh_ s) sa l = Some t) by (apply (i_claim _ HI); rewrite Ht; simpl; auto).
  assert (C : g_dirty (sh_ s) = false).
  { eapply owner_clean; eauto. rewrite Ht; simpl; auto. }
  destruct (sh_clean _ (i_shape _ HI) C) as [C1 C2].
  specialize (K2 C). simpl. repeat split; auto; try lia. rewrite C1. auto.
Qed.

Lemma P_val : forall s t lb g' ts', Inv s -> tstepR t (sh_ s) (thr s t) lb g' ts' ->
  forall u, val_ok g' (upd_thr (thr s) t ts' u).
Proof.
  intros s t lb g' ts' HI HS u. thr_cases u t.
  - pose proof (i_val _ HI t) as V.
    remember (thr s t) as ts eqn:Hts. symmetry in Hts.
    destruct HS as [ts lb ts' L | ts lb a0 l0 ts' A Hfree | ts a0 l0 ts' R | f d0 v | f d0 n Hn | f d0];
      try exact I.
    + destruct L; simpl in *; auto;
        try (repeat match goal with H : _ \/ _ |- _ => destruct H end; subst; exact I);
        try tauto.
      eapply ec_check_ok; eauto.
    + apply (val_same (sh_ s)); [apply same_data_set_held|].
      destruct A; simpl in *; auto.
    + apply (val_same (sh_ s)); [apply same_data_set_held|].
      destruct R; try exact I.
      destruct got as [|x r]; [contradiction|]. simpl in V. unfold val_ok.
      match goal with |- context [filter ?f ?l] => destruct (filter f l) end; auto.
  - destruct (tstepR_data _ _ _ _ _ _ HS) as [D | A].
    + eapply val_same; eauto using i_val.
    + destruct (thr s t) eqn:Et; simpl in A; try tauto.
      eapply val_trivial_under_ah; eauto.
Qed.

Theorem Inv_tstepR : forall s t lb g' ts', Inv s -> tstepR t (sh_ s) (thr s t) lb g' ts' ->
  Inv {| sh_ := g'; thr := upd_thr (thr s) t ts' |}.
Proof.
  intros s t lb g' ts' HI HS. split; simpl.
  - eapply tstepR_shape; eauto using i_shape.
  - eapply P_dirty; eauto.
  - eapply P_own; eauto.
  - eapply P_claim; eauto.
  - eapply P_wf; eauto.
  - eapply P_snap; eauto.
  - eapply P_ahd; eauto.
  - eapply P_ah0; eauto.
  - eapply P_val; eauto.
Qed.

Lemma gstep_inv : forall s t lb s', gstep s t lb = Some s' ->
  exists g' ts', tstepR t (sh_ s) (thr s t) lb g' ts' /\ s' = {| sh_ := g'; thr := upd_thr (thr s) t ts' |}.
Proof.
  unfold gstep; intros s t lb s' H. destruct (tstep t (sh_ s) (thr s t) lb) as [[g' ts']|] eqn:E; [|discriminate].
  inversion H; subst. exists g', ts'; split; auto using tstep_sound.
Qed.

Theorem Inv_step : forall s t lb s', Inv s -> gstep s t lb = Some s' -> Inv s'.
Proof.
  intros s t lb s' HI H. apply gstep_inv in H. destruct H as (g' & ts' & HS & ->).
  eapply Inv_tstepR; eauto.
Qed.

Theorem reachable_Inv : forall hp0 rc0 arrs0 s, arrs_ok arrs0 -> reachable hp0 rc0 arrs0 s -> Inv s.
Proof.
  intros hp0 rc0 arrs0 s OK R. induction R; eauto using Inv_init, Inv_step.
Qed.

(* ================================================================== exported theorems *)
Section Theorems.
  Variables (hp0 rc0 : N) (arrs0 : list nat).
  Hypothesis OK : arrs_ok arrs0.
  Variable s : gstate.
  Hypothesis R : reachable hp0 rc0 arrs0 s.
  Local Notation g := (sh_ s).

  Let HI : Inv s := reachable_Inv hp0 rc0 arrs0 s OK R.

  (* I1: the owner map and the control states agree *)
  Theorem owner_iff : forall t a l, g_held g a l = Some t <-> holds_lock g (thr s t) a l.
  Proof. split; [apply (i_own _ HI) | apply (i_claim _ HI)]. Qed.

  Theorem owner_in_range : forall t a l, g_held g a l = Some t -> a < narr g /\ l < asz g a.
  Proof. intros t a l H. apply owner_iff in H. eapply holds_bound; eauto using i_wf. Qed.

  (* T2 *)
  Theorem single_owner : forall t1 t2 a l,
    holds_lock g (thr s t1) a l -> holds_lock g (thr s t2) a l -> t1 = t2.
  Proof. intros t1 t2 a l H1 H2. apply owner_iff in H1, H2. congruence. Qed.

  (* T1 *)
  Theorem validated_current : forall t sn sa x r,
    thr s t = CS sn sa (x :: r) \/ (exists l, thr s t = CW sn sa (x :: r) l) ->
    sc sn = g_rc g /\ sh sn = g_hp g /\ sa + 1 = narr g /\ g_dirty g = false /\
    (forall y, In y (x :: r) -> g_held g sa y = Some t /\ y < asz g sa) /\
    (forall t', ~ all_holder (thr s t')).
  Proof.
    intros t sn sa x r H.
    pose proof (i_val _ HI t) as V. pose proof (i_wf _ HI t) as W.
    assert (Ho : forall y, In y (x :: r) -> holds_lock g (thr s t) sa y).
    { destruct H as [H | (l & H)]; rewrite H; simpl; auto. }
    assert (Hb : forall y, In y (x :: r) -> y < asz g sa).
    { destruct H as [H | (l & H)]; rewrite H in W; simpl in W; intuition. }
    assert (V' : sc sn = g_rc g /\ sh sn = g_hp g /\ sa + 1 = narr g /\ g_dirty g = false).
    { destruct H as [H | (l & H)]; rewrite H in V; exact V. }
    destruct V' as (V1 & V2 & V3 & V4). repeat split; auto.
    - apply owner_iff; auto.
    - intros t' A. destruct (thr s t') eqn:Et'; simpl in A; try tauto.
      assert (Hx : g_held g sa x = Some t) by (apply owner_iff, Ho; simpl; auto).
      pose proof (sh_n0 _ (i_shape _ HI)) as N0.
      assert (t' = t) by (eapply owner_excludes_ah; eauto; lia). subst t'.
      destruct H as [H | (l & H)]; congruence.
  Qed.

  (* T3 *)
  Theorem all_holder_exclusive : forall t first d, thr s t = AH first d ->
    forall t', t' <> t -> ~ validated (thr s t') /\ ~ all_holder (thr s t').
  Proof.
    intros t first d Ht t' Hne. split; intros A.
    - assert (K : forall sn sa x r, thr s t' = CS sn sa (x :: r) \/ (exists l, thr s t' = CW sn sa (x :: r) l) -> False).
      { intros sn sa x r K. apply validated_current in K. destruct K as (_ & _ & _ & _ & _ & K).
        apply (K t). rewrite Ht; exact I. }
      destruct (thr s t') eqn:E; simpl in A; try tauto; destruct got as [|x r]; try tauto; eapply K; eauto.
    - destruct (thr s t') eqn:E; simpl in A; try tauto.
      apply Hne. eapply one_ah; eauto.
  Qed.

  (* T4: a thread between operations (or still taking its snapshot / waiting for its first
     stripe / about to start a whole-table operation) owns nothing *)
  Definition holds_nothing (ts : tstate) : Prop :=
    match ts with
    | Idle | S0 | S1 _ | E0 _ | E1 _ _ | EW _ _ _ | A0 | CS _ _ [] => True
    | _ => False
    end.

  Theorem idle_holds_nothing : forall t, holds_nothing (thr s t) -> forall a l, g_held g a l <> Some t.
  Proof.
    intros t H a l Hh. apply owner_iff in Hh. destruct (thr s t); simpl in *; try tauto.
    destruct got; simpl in *; tauto.
  Qed.

  (* I3 / I4 / I5 for all-holders *)
  Theorem all_holder_facts : forall t first d, thr s t = AH first d ->
    d = g_dirty g /\ first + 1 <= g_narr0 g /\ g_narr0 g <= narr g /\
    (forall a l, first <= a -> a < narr g -> l < asz g a -> g_held g a l = Some t).
  Proof.
    intros t first d Ht. repeat split.
    - eapply i_ahd; eauto.
    - eapply i_ah0; eauto.
    - apply (sh_n0 _ (i_shape _ HI)).
    - intros. apply owner_iff. rewrite Ht; simpl; auto.
  Qed.

  Theorem clean_state : g_dirty g = false -> g_hp g = g_hp0 g /\ narr g = g_narr0 g.
  Proof. apply (sh_clean _ (i_shape _ HI)). Qed.

  Theorem dirty_has_writer : g_dirty g = true -> exists t first, thr s t = AH first true.
  Proof. apply (i_dirty _ HI). Qed.

  (* T5, second half: an all-holder that may release ([d = false]) has published its writes *)
  Theorem release_only_after_bump : forall t first d a l s',
    thr s t = AH first d -> gstep s t (UNLOCK a l) = Some s' ->
    d = false /\ g_dirty g = false /\ g_hp g = g_hp0 g /\ narr g = g_narr0 g.
  Proof.
    intros t first d a l s' Ht H. unfold gstep in H. rewrite Ht in H.
    destruct d; simpl in H; [discriminate|]. split; auto.
    pose proof (i_ahd _ HI _ _ _ Ht) as D. symmetry in D. split; auto. apply clean_state; auto.
  Qed.

  (* I6 *)
  Theorem snapshots_ok : forall t, snap_ok g (thr s t).
  Proof. apply (i_snap _ HI). Qed.

  (* I2 *)
  Theorem control_states_wf : forall t, wf_ts g (thr s t).
  Proof. apply (i_wf _ HI). Qed.

  (* T6, I8 *)
  Theorem lock_order : forall t a l a' l',
    waiting_for g (thr s t) = Some (a, l) -> holds_lock g (thr s t) a' l' ->
    a' < a \/ (a' = a /\ l' < l).
  Proof.
    intros t a l a' l' Hw Hh. pose proof (i_wf _ HI t) as W.
    destruct (thr s t); simpl in *; try discriminate; inversion Hw; subst; try tauto.
    - destruct W as (_ & _ & _ & _ & W & _). destruct Hh as [-> Hh]. right; split; auto.
  Qed.
End Theorems.

(* T5, first half (no reachability needed) *)
Theorem writes_only_under_all_locks : forall s t lb s', gstep s t lb = Some s' ->
  g_hp (sh_ s') <> g_hp (sh_ s) \/ g_rc (sh_ s') <> g_rc (sh_ s) \/ g_arrs (sh_ s') <> g_arrs (sh_ s) ->
  all_holder (thr s t).
Proof.
  intros s t lb s' H D. apply gstep_inv in H. destruct H as (g' & ts' & HS & ->). simpl in D.
  destruct (tstepR_data _ _ _ _ _ _ HS) as [(D1 & D2 & D3 & _) | A]; auto. tauto.
Qed.

Theorem rc_monotone : forall s t lb s', gstep s t lb = Some s' -> (g_rc (sh_ s) <= g_rc (sh_ s'))%N.
Proof.
  intros s t lb s' H. apply gstep_inv in H. destruct H as (g' & ts' & HS & ->). simpl.
  destruct HS; simpl; lia.
Qed.

(* ------------------------------------------------------------------ T6: no deadlock *)
(* [blocked s t = Some (a,l)]: t requests lock (a,l), which is currently owned *)
Definition blocked (s : gstate) (t : tid) : option (nat * nat) :=
  match waiting_for (sh_ s) (thr s t) with
  | Some (a, l) => match g_held (sh_ s) a l with Some _ => Some (a, l) | None => None end
  | None => None
  end.

Lemma tstep_gstep : forall s t lb r, tstep t (sh_ s) (thr s t) lb = Some r -> exists s', gstep s t lb = Some s'.
Proof. intros s t lb [g' ts'] H. unfold gstep. rewrite H. eauto. Qed.

(* every thread that is inside an operation and is not waiting for an owned lock has an enabled
   step; the label is given explicitly for each control state *)
Definition enabled_label (g : shared) (ts : tstate) : label :=
  match ts with
  | Idle => BEGIN 1
  | S0 | EC _ _ _ => LD_RC (g_rc g)
  | S1 _ => LD_HP (g_hp g)
  | E0 _ => CURLOCKS (narr g - 1)
  | E1 _ sa => LOCKREQ sa 0
  | EW _ sa l | CW _ sa _ l => LOCKED sa l
  | EF sa l => UNLOCK sa l
  | CS _ sa [] => NEXT 0
  | CS _ sa (x :: _) => UNLOCK sa x
  | A0 => NEXT 0
  | AR _ a i => LOCKED a i
  | AN _ a => ALL_NEXT (negb (Nat.eqb (S a) (narr g)))
  | AH _ _ => FA_RC
  | AU _ last a i => if Nat.ltb i (asz g a) then UNLOCK a i
                     else if Nat.ltb a last then UNLOCK (S a) 0 else NEXT 0
  end.

Lemma enabled : forall s t, Inv s -> blocked s t = None ->
  exists s', gstep s t (enabled_label (sh_ s) (thr s t)) = Some s'.
Proof.
  intros s t HI NB.
  pose proof (i_wf _ HI t) as W. pose proof (i_shape _ HI) as SH.
  pose proof (sh_ne _ SH) as NE. pose proof (sh_pos _ SH) as P.
  assert (K : exists r, tstep t (sh_ s) (thr s t) (enabled_label (sh_ s) (thr s t)) = Some r);
    [| destruct K as (r & K); eapply tstep_gstep; eauto].
  unfold blocked in NB.
  destruct (thr s t) eqn:E; simpl in W, NB; unfold enabled_label, tstep, after_release; cbv beta iota zeta.
  - eauto.
  - rewrite N.eqb_refl; eauto.
  - rewrite N.eqb_refl; eauto.
  - replace (S (narr (sh_ s) - 1)) with (narr (sh_ s)) by lia. rewrite Nat.eqb_refl; eauto.
  - rewrite Nat.eqb_refl. assert (0 < asz (sh_ s) sa) by (apply P; auto).
    destruct (Nat.ltb 0 (asz (sh_ s) sa)) eqn:L; bprop; [simpl; eauto | lia].
  - rewrite !Nat.eqb_refl; simpl. destruct (g_held (sh_ s) sa l); [discriminate | eauto].
  - rewrite N.eqb_refl. destruct (N.eqb (g_rc (sh_ s)) (sc sn)); eauto.
  - rewrite !Nat.eqb_refl; simpl; eauto.
  - destruct got as [|x r]; simpl; eauto. rewrite !Nat.eqb_refl; simpl; eauto.
  - rewrite !Nat.eqb_refl; simpl. destruct (g_held (sh_ s) sa l); [discriminate | eauto].
  - eauto.
  - rewrite !Nat.eqb_refl; simpl. destruct W as (_ & _ & W). apply Nat.ltb_lt in W. rewrite W.
    destruct (g_held (sh_ s) a i); [discriminate | eauto].
  - destruct (Nat.eqb (S a) (narr (sh_ s))); simpl; eauto.
  - destruct d; eauto.
  - destruct (Nat.ltb i (asz (sh_ s) a)) eqn:L1.
    + rewrite !Nat.eqb_refl; simpl; eauto.
    + destruct (Nat.ltb a last) eqn:L2; simpl.
      * rewrite Nat.eqb_refl; simpl; eauto.
      * eauto.
Qed.

Definition rlt (p q : nat * nat) : Prop := fst p < fst q \/ (fst p = fst q /\ snd p < snd q).

Lemma max_blocked : forall s n,
  (forall t, t < n -> blocked s t = None) \/
  (exists t p, t < n /\ blocked s t = Some p /\
     forall t' p', t' < n -> blocked s t' = Some p' -> ~ rlt p p').
Proof.
  intros s n. induction n as [|n IH].
  - left; intros; lia.
  - destruct (blocked s n) as [p|] eqn:B.
    + right. destruct IH as [IH | (t0 & p0 & Ht0 & B0 & M)].
      * exists n, p. repeat split; auto. intros t' p' Ht' B'.
        destruct (Nat.eq_dec t' n) as [-> | Hne].
        -- rewrite B in B'; inversion B'; subst. unfold rlt; lia.
        -- rewrite IH in B' by lia. discriminate.
      * assert (D : rlt p0 p \/ ~ rlt p0 p) by (unfold rlt; lia). destruct D as [D | D].
        -- exists n, p. repeat split; auto. intros t' p' Ht' B'.
           destruct (Nat.eq_dec t' n) as [-> | Hne].
           ++ rewrite B in B'; inversion B'; subst. unfold rlt; lia.
           ++ assert (Hlt : t' < n) by lia. specialize (M t' p' Hlt B'). unfold rlt in *. lia.
        -- exists t0, p0. repeat split; auto. intros t' p' Ht' B'.
           destruct (Nat.eq_dec t' n) as [-> | Hne].
           ++ rewrite B in B'; inversion B'; subst. auto.
           ++ apply M with t'; auto. lia.
    + destruct IH as [IH | (t0 & p0 & Ht0 & B0 & M)].
      * left. intros t Ht. destruct (Nat.eq_dec t n) as [-> | Hne]; auto. apply IH; lia.
      * right. exists t0, p0. repeat split; auto. intros t' p' Ht' B'.
        destruct (Nat.eq_dec t' n) as [-> | Hne]; [congruence|]. apply M with t'; auto. lia.
Qed.

Theorem progress : forall hp0 rc0 arrs0 s n, arrs_ok arrs0 -> reachable hp0 rc0 arrs0 s ->
  (forall t, n <= t -> thr s t = Idle) ->
  (exists t, thr s t <> Idle) ->
  exists t lb s', t < n /\ thr s t <> Idle /\ gstep s t lb = Some s'.
Proof.
  intros hp0 rc0 arrs0 s n OK R Hidle (t1 & Ht1).
  pose proof (reachable_Inv _ _ _ _ OK R) as HI.
  assert (Hlt : forall t, thr s t <> Idle -> t < n).
  { intros t Ht. destruct (le_lt_dec n t); auto. apply Hidle in l. contradiction. }
  destruct (max_blocked s n) as [NB | (t0 & [a l] & Ht0 & B0 & M)].
  - destruct (enabled s t1 HI (NB _ (Hlt _ Ht1))) as (s' & H). eauto 10.
  - unfold blocked in B0.
    destruct (waiting_for (sh_ s) (thr s t0)) as [[a1 l1]|] eqn:Wt; [|discriminate].
    destruct (g_held (sh_ s) a1 l1) as [o|] eqn:Ho; inversion B0; subst a1 l1.
    pose proof (i_own _ HI _ _ _ Ho) as Hown.
    assert (No : thr s o <> Idle) by (intros E; rewrite E in Hown; exact Hown).
    assert (Bo : blocked s o = None).
    { destruct (blocked s o) as [[a' l']|] eqn:Bo; auto. exfalso.
      apply (M o (a', l') (Hlt _ No) Bo).
      unfold blocked in Bo.
      destruct (waiting_for (sh_ s) (thr s o)) as [[a2 l2]|] eqn:Wo; [|discriminate].
      destruct (g_held (sh_ s) a2 l2); inversion Bo; subst a2 l2.
      pose proof (lock_order _ _ _ OK _ R _ _ _ _ _ Wo Hown). unfold rlt; simpl. lia. }
    destruct (enabled s o HI Bo) as (s' & H). exists o. eauto 10.
Qed.

(* ------------------------------------------------------------------ link to [replay] *)
Lemma replay_reachable_from : forall hp0 rc0 arrs0 tr s s',
  reachable hp0 rc0 arrs0 s -> replay s tr = Some s' -> reachable hp0 rc0 arrs0 s'.
Proof.
  induction tr as [|[t lb] tr IH]; simpl; intros s s' R H.
  - inversion H; subst; auto.
  - destruct (gstep s t lb) as [s1|] eqn:E; [|discriminate].
    eapply IH; [|exact H]. eapply reach_step; eauto.
Qed.

Theorem replay_Inv : forall hp0 rc0 arrs0 tr s, arrs_ok arrs0 ->
  replay (ginit hp0 rc0 arrs0) tr = Some s -> Inv s.
Proof.
  intros. eapply reachable_Inv; eauto. eapply replay_reachable_from; eauto. constructor.
Qed.

(* Regression for the defect found while proving this file: in the first version of the model
   (and in the library before the fix of AllUnlocker) a releasing thread re-read the end of the
   lock list after finishing the last array, so that it could release locks of an array
   emplaced meanwhile by another all-holder.  With [last] captured before the first release the
   offending step is not enabled any more. *)
Example tail_race_trace_rejected :
  replay (ginit 0 0 [1])
    [ (0, BEGIN 3); (0, ALL_FIRST 0); (0, LOCKED 0 0); (0, ALL_NEXT false); (0, UNLOCK 0 0);
      (1, BEGIN 3); (1, ALL_FIRST 0); (1, LOCKED 0 0); (1, ALL_NEXT false); (1, EMPLACE 1) ] <> None
  /\
  replay (ginit 0 0 [1])
    [ (0, BEGIN 3); (0, ALL_FIRST 0); (0, LOCKED 0 0); (0, ALL_NEXT false); (0, UNLOCK 0 0);
      (1, BEGIN 3); (1, ALL_FIRST 0); (1, LOCKED 0 0); (1, ALL_NEXT false); (1, EMPLACE 1);
      (0, UNLOCK 1 0) ] = None.
Proof. split; [vm_compute; discriminate | vm_compute; reflexivity]. Qed.

Theorem dirty_iff : forall hp0 rc0 arrs0 s, arrs_ok arrs0 -> reachable hp0 rc0 arrs0 s ->
  (g_dirty (sh_ s) = true <-> exists t first, thr s t = AH first true).
Proof.
  intros hp0 rc0 arrs0 s OK R. pose proof (reachable_Inv _ _ _ _ OK R) as HI. split.
  - apply (i_dirty _ HI).
  - intros (t & first & H). symmetry. eapply i_ahd; eauto.
Qed.

Theorem validated_excludes_all_holder : forall hp0 rc0 arrs0 s t, arrs_ok arrs0 ->
  reachable hp0 rc0 arrs0 s -> validated (thr s t) -> forall t', ~ all_holder (thr s t').
Proof.
  intros hp0 rc0 arrs0 s t OK R V t' A.
  destruct (thr s t') eqn:E; simpl in A; try tauto.
  destruct (Nat.eq_dec t t') as [-> | Hne].
  - rewrite E in V; simpl in V; auto.
  - destruct (all_holder_exclusive _ _ _ OK _ R _ _ _ E t Hne) as [NV _]. auto.
Qed.
