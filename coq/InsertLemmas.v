(* L1 proofs, insertion path: BFS displacement search, path execution, cuckoo_insert, on a
   settled table (no deferred migration pending).  Groups H..M; uses ArrLemmas. *)
From Coq Require Import NArith ZArith List Bool Lia FMapPositive NArithRing.
From LC Require Import gen.HashGen Bits Core Api InvDefs ArrLemmas.
Import ListNotations.
Local Open Scope N_scope.

Section Ins.
Variable c : config.
Variable hash : N -> N.
Hypothesis Hc : cfg_ok c.

Notation arr_ok := (arr_ok c hash).
Notation settled := (settled c hash).
Notation same_contents := (same_contents c hash).

Lemma spb_nz : spb c <> 0.
Proof. assert (H := co_spb _ Hc). lia. Qed.

Lemma max_bfs_pred : max_bfs - 1 = 4.
Proof. reflexivity. Qed.

(* ================================================================== H. the search is read-only *)

(* one dequeue of the BFS loop on a table with nothing left to migrate *)
Lemma slot_search_loop_step mode t hp x q fuel :
  all_migrated t ->
  slot_search_loop c hash mode t hp (x :: q) (S fuel) =
  match slot_search_scan c t hp x (qpathcode x mod spb c) 0 (N.to_nat (spb c)) [] with
  | (Some r, _) => (t, Some r)
  | (None, children) => slot_search_loop c hash mode t hp (q ++ children) fuel
  end.
Proof.
  intro Hm. cbn [slot_search_loop]. rewrite (lock_one_settled c hash mode t (qbucket x) Hm).
  reflexivity.
Qed.

Lemma slot_search_loop_fst mode t hp fuel :
  all_migrated t -> forall q, fst (slot_search_loop c hash mode t hp q fuel) = t.
Proof.
  intro Hm. induction fuel as [|f IH]; intro q; [reflexivity|].
  destruct q as [|x q']; [reflexivity|].
  rewrite (slot_search_loop_step mode t hp x q' f Hm).
  destruct (slot_search_scan c t hp x (qpathcode x mod spb c) 0 (N.to_nat (spb c)) []) as [[r|] ch].
  - reflexivity.
  - apply IH.
Qed.

(* item 1, in the requested form *)
Lemma slot_search_loop_settled mode t hp q fuel :
  all_migrated t -> exists r, slot_search_loop c hash mode t hp q fuel = (t, r).
Proof.
  intro Hm. assert (H := slot_search_loop_fst mode t hp fuel Hm q).
  destruct (slot_search_loop c hash mode t hp q fuel) as [t' r]. cbn [fst] in H. subst t'.
  exists r. reflexivity.
Qed.

Lemma slot_search_settled mode t hp i1 i2 :
  all_migrated t -> exists r, slot_search c hash mode t hp i1 i2 = (t, r).
Proof. intro Hm. unfold slot_search. apply slot_search_loop_settled. exact Hm. Qed.

Lemma cuckoopath_search_loop_fst mode hp : forall slots t prev i acc,
  all_migrated t ->
  fst (fst (cuckoopath_search_loop c hash mode t hp prev slots i acc)) = t.
Proof.
  induction slots as [|s rest IH]; intros t prev i acc Hm; [reflexivity|].
  cbn [cuckoopath_search_loop]. rewrite (lock_one_settled c hash mode t _ Hm).
  destruct (bget (cur t) (alt_index hp (crpartial prev) (crbucket prev)) s) as [e|].
  - apply IH. exact Hm.
  - reflexivity.
Qed.

Lemma cuckoopath_search_loop_settled mode t hp prev slots i acc :
  all_migrated t ->
  exists racc d, cuckoopath_search_loop c hash mode t hp prev slots i acc = (t, racc, d).
Proof.
  intro Hm. assert (H := cuckoopath_search_loop_fst mode hp slots t prev i acc Hm).
  destruct (cuckoopath_search_loop c hash mode t hp prev slots i acc) as [[t' racc] d].
  cbn [fst] in H. subst t'. exists racc, d. reflexivity.
Qed.

(* ================================================================== I. shape of the path *)

Definition slot_ok (r : cuckoo_record) : Prop := crslot r < spb c.

(* the two facts path_wf asks of consecutive records r, r' *)
Definition link (hp : N) (r r' : cuckoo_record) : Prop :=
  crbucket r' = alt_index hp (crpartial r) (crbucket r) /\ crpartial r = partial_key (crhash r).

Lemma path_wf_snoc hp : forall l p n,
  path_wf hp (l ++ [p]) -> link hp p n -> path_wf hp (l ++ [p; n]).
Proof.
  induction l as [|a l IH]; intros p n Hw Hl.
  - cbn [app path_wf]. split; [exact Hl|]. split; [exact I|exact I].
  - change ((a :: l) ++ [p]) with (a :: (l ++ [p])) in Hw.
    change ((a :: l) ++ [p; n]) with (a :: (l ++ [p; n])).
    cbn [path_wf] in Hw |- *. destruct Hw as [Hh Hr]. split.
    + destruct l as [|b l']; cbn [app] in Hh |- *; exact Hh.
    + apply IH; assumption.
Qed.

Lemma path_wf_rev_cons hp p l n :
  path_wf hp (rev (p :: l)) -> link hp p n -> path_wf hp (rev (n :: p :: l)).
Proof.
  intros Hw Hl. cbn [rev] in Hw |- *. rewrite <- app_assoc. cbn [app].
  apply path_wf_snoc; assumption.
Qed.

Lemma decode_slots_spec : forall n p acc,
  Forall (fun s => s < spb c) acc ->
  length (fst (decode_slots c p n acc)) = (n + length acc)%nat /\
  Forall (fun s => s < spb c) (fst (decode_slots c p n acc)).
Proof.
  induction n as [|n IH]; intros p acc Ha.
  - cbn [decode_slots fst]. split; [reflexivity|exact Ha].
  - cbn [decode_slots].
    assert (Ha' : Forall (fun s => s < spb c) (p mod spb c :: acc)).
    { constructor; [apply N.mod_lt; exact spb_nz|exact Ha]. }
    destruct (IH (p / spb c) (p mod spb c :: acc) Ha') as [H1 H2].
    split; [|exact H2]. rewrite H1. cbn [length]. lia.
Qed.

(* the loop "for i = 1 .. depth": prev is the head of the (reversed) accumulator *)
Lemma cuckoopath_search_loop_spec mode hp : forall slots t prev i acc' t' racc d,
  all_migrated t ->
  cuckoopath_search_loop c hash mode t hp prev slots i (prev :: acc') = (t', racc, d) ->
  i = N.of_nat (S (length acc')) ->
  crpartial prev = partial_key (crhash prev) ->
  path_wf hp (rev (prev :: acc')) ->
  Forall (fun s => s < spb c) slots ->
  Forall slot_ok (prev :: acc') ->
  t' = t /\ (exists more, racc = more ++ prev :: acc') /\
  (N.to_nat d < length racc)%nat /\ (length racc <= S (length acc') + length slots)%nat /\
  path_wf hp (rev racc) /\ Forall slot_ok racc.
Proof.
  induction slots as [|s rest IH]; intros t prev i acc' t' racc d Hm E Hi Hp Hw Hs Hf.
  - cbn [cuckoopath_search_loop] in E. injection E as <- <- <-.
    split; [reflexivity|]. split; [exists []; reflexivity|].
    cbn [length]. split; [lia|]. split; [lia|]. split; [exact Hw|exact Hf].
  - cbn [cuckoopath_search_loop] in E. rewrite (lock_one_settled c hash mode t _ Hm) in E.
    inversion Hs as [|s0 r0 Hs1 Hs2]; subst s0 r0.
    set (b := alt_index hp (crpartial prev) (crbucket prev)) in *.
    destruct (bget (cur t) b s) as [e|].
    + set (r := {| crbucket := b; crslot := s; crhash := hash (ekey e);
                   crpartial := partial_key (hash (ekey e)) |}) in *.
      assert (Hl : link hp prev r) by (split; [reflexivity|exact Hp]).
      destruct (IH t r (i + 1) (prev :: acc') t' racc d Hm E) as [G1 [[more G2] [G3 [G4 [G5 G6]]]]].
      * cbn [length]. lia.
      * reflexivity.
      * apply path_wf_rev_cons; assumption.
      * exact Hs2.
      * constructor; [exact Hs1|exact Hf].
      * split; [exact G1|]. split.
        { exists (more ++ [r]). rewrite <- app_assoc. exact G2. }
        split; [exact G3|]. split; [cbn [length] in G4 |- *; lia|]. split; assumption.
    + injection E as <- <- <-.
      set (r := {| crbucket := b; crslot := s; crhash := 0; crpartial := 0 |}).
      assert (Hl : link hp prev r) by (split; [reflexivity|exact Hp]).
      split; [reflexivity|]. split; [exists [r]; reflexivity|].
      cbn [length]. split; [lia|]. split; [lia|]. split.
      * apply path_wf_rev_cons; assumption.
      * constructor; [exact Hs1|exact Hf].
Qed.

(* ------------------------------------------------------------------ depth of BFS nodes *)

Definition depth_ok (y : b_slot) : Prop := qdepth y <= 4.

Lemma scan_some : forall n t hp x start i acc r ch,
  slot_search_scan c t hp x start i n acc = (Some r, ch) ->
  qbucket r = qbucket x /\ qdepth r = qdepth x.
Proof.
  induction n as [|n IH]; intros t hp x start i acc r ch E.
  - cbn [slot_search_scan] in E. discriminate.
  - cbn [slot_search_scan] in E.
    destruct (bget (cur t) (qbucket x) ((start + i) mod spb c)) as [e|].
    + apply IH in E. exact E.
    + injection E as <- _. split; reflexivity.
Qed.

Lemma scan_children_depth : forall n t hp x start i acc,
  Forall depth_ok acc -> Forall depth_ok (snd (slot_search_scan c t hp x start i n acc)).
Proof.
  induction n as [|n IH]; intros t hp x start i acc Ha.
  - cbn [slot_search_scan snd]. exact Ha.
  - cbn [slot_search_scan].
    destruct (bget (cur t) (qbucket x) ((start + i) mod spb c)) as [e|].
    + apply IH. rewrite max_bfs_pred. destruct (N.ltb_spec (qdepth x) 4) as [L|L]; [|exact Ha].
      apply Forall_app. split; [exact Ha|]. constructor; [|constructor].
      unfold depth_ok. cbn [qdepth]. lia.
    + cbn [snd]. exact Ha.
Qed.

Lemma slot_search_loop_depth mode hp : forall fuel t q t' r,
  Forall depth_ok q ->
  slot_search_loop c hash mode t hp q fuel = (t', Some r) -> depth_ok r.
Proof.
  induction fuel as [|f IH]; intros t q t' r Hq E.
  - cbn [slot_search_loop] in E. discriminate.
  - cbn [slot_search_loop] in E. destruct q as [|x q']; [discriminate|].
    inversion Hq as [|x0 q0 Hx Hq']; subst x0 q0.
    set (t1 := lock_one c hash mode t (qbucket x)) in *.
    assert (Hch := scan_children_depth (N.to_nat (spb c)) t1 hp x (qpathcode x mod spb c) 0 [] (Forall_nil _)).
    destruct (slot_search_scan c t1 hp x (qpathcode x mod spb c) 0 (N.to_nat (spb c)) [])
      as [[r0|] ch] eqn:Es.
    + injection E as _ <-. apply scan_some in Es. destruct Es as [_ Ed].
      unfold depth_ok in *. rewrite Ed. exact Hx.
    + cbn [snd] in Hch. apply (IH t1 (q' ++ ch) t' r); [|exact E].
      apply Forall_app. split; assumption.
Qed.

Lemma slot_search_depth mode t hp i1 i2 t' r :
  slot_search c hash mode t hp i1 i2 = (t', Some r) -> qdepth r <= 4.
Proof.
  unfold slot_search. intro E. eapply slot_search_loop_depth; [|exact E].
  constructor; [|constructor; [|constructor]]; unfold depth_ok; cbn [qdepth]; lia.
Qed.

(* ------------------------------------------------------------------ item 2: cuckoopath_search *)

Lemma cuckoopath_search_shape mode t hp i1 i2 t' path depth :
  all_migrated t ->
  cuckoopath_search c hash mode t hp i1 i2 = (t', Some (path, depth)) ->
  t' = t /\
  (N.to_nat depth < length path)%nat /\
  Forall slot_ok path /\
  path_wf hp path /\
  (crbucket (nth_rec path 0) = i1 \/ crbucket (nth_rec path 0) = i2) /\
  depth <= 4.
Proof.
  intros Hm E. unfold cuckoopath_search in E.
  destruct (slot_search_settled mode t hp i1 i2 Hm) as [r Es]. rewrite Es in E.
  destruct r as [x|]; [|discriminate].
  assert (Hd := slot_search_depth mode t hp i1 i2 t x Es).
  destruct (decode_slots_spec (S (N.to_nat (qdepth x))) (qpathcode x) [] (Forall_nil _)) as [Dl Df].
  destruct (decode_slots c (qpathcode x) (S (N.to_nat (qdepth x))) []) as [slots code].
  cbn [fst] in Dl, Df. destruct slots as [|s0 rest]; [discriminate|].
  inversion Df as [|s0' rest' Hs0 Hrest]; subst s0' rest'.
  cbn [length] in Dl.
  set (b0 := if code =? 0 then i1 else i2) in *.
  assert (Hb0 : b0 = i1 \/ b0 = i2) by (unfold b0; destruct (code =? 0); [left|right]; reflexivity).
  rewrite (lock_one_settled c hash mode t b0 Hm) in E.
  destruct (bget (cur t) b0 s0) as [e|].
  - set (r0 := {| crbucket := b0; crslot := s0; crhash := hash (ekey e);
                  crpartial := partial_key (hash (ekey e)) |}) in *.
    destruct (cuckoopath_search_loop c hash mode t hp r0 rest 1 [r0]) as [[t3 racc] d] eqn:El.
    injection E as <- <- <-.
    destruct (cuckoopath_search_loop_spec mode hp rest t r0 1 [] t3 racc d Hm El)
      as [G1 [[more G2] [G3 [G4 [G5 G6]]]]].
    + reflexivity.
    + reflexivity.
    + cbn [rev app path_wf]. split; exact I.
    + exact Hrest.
    + constructor; [exact Hs0|constructor].
    + split; [exact G1|]. rewrite rev_length. split; [exact G3|].
      split; [apply Forall_rev; exact G6|]. split; [exact G5|]. split.
      * unfold nth_rec. change (N.to_nat 0) with 0%nat. rewrite G2.
        rewrite rev_app_distr. cbn [rev app nth]. exact Hb0.
      * cbn [length] in G4. lia.
  - injection E as <- <- <-. split; [reflexivity|]. cbn [length].
    split; [change (N.to_nat 0) with 0%nat; lia|].
    split; [constructor; [exact Hs0|constructor]|].
    split; [cbn [path_wf]; split; exact I|].
    split; [exact Hb0|lia].
Qed.

(* item 1 for cuckoopath_search *)
Lemma cuckoopath_search_settled mode t hp i1 i2 :
  all_migrated t -> exists r, cuckoopath_search c hash mode t hp i1 i2 = (t, r).
Proof.
  intro Hm. destruct (cuckoopath_search c hash mode t hp i1 i2) as [t' r] eqn:E.
  destruct r as [[path depth]|].
  - destruct (cuckoopath_search_shape mode t hp i1 i2 t' path depth Hm E) as [-> _].
    eexists. reflexivity.
  - unfold cuckoopath_search in E.
    destruct (slot_search_settled mode t hp i1 i2 Hm) as [r Es]. rewrite Es in E.
    destruct r as [x|].
    + destruct (decode_slots c (qpathcode x) (S (N.to_nat (qdepth x))) []) as [slots code].
      destruct slots as [|s0 rest].
      * injection E as <-. eexists. reflexivity.
      * rewrite (lock_one_settled c hash mode t _ Hm) in E.
        destruct (bget (cur t) (if code =? 0 then i1 else i2) s0) as [e|]; [|discriminate].
        destruct (cuckoopath_search_loop c hash mode t hp _ rest 1 _) as [[t3 racc] d].
        discriminate.
    + injection E as <-. eexists. reflexivity.
Qed.

(* item 2 in the requested form *)
Lemma cuckoopath_search_spec mode t i1 i2 path depth :
  settled t ->
  let hp := bhp (cur t) in
  i1 < 2 ^ hp -> i2 < 2 ^ hp ->
  cuckoopath_search c hash mode t hp i1 i2 = (t, Some (path, depth)) ->
  (N.to_nat depth < length path)%nat /\
  Forall (fun r => crslot r < spb c) path /\
  path_wf hp path /\
  (crbucket (nth_rec path 0) = i1 \/ crbucket (nth_rec path 0) = i2) /\
  depth <= MAX_BFS_PATH_LEN - 1.
Proof.
  intros St hp _ _ E.
  destruct (cuckoopath_search_shape mode t hp i1 i2 t path depth (se_mig _ _ _ St) E)
    as [_ [H1 [H2 [H3 [H4 H5]]]]].
  split; [exact H1|]. split; [exact H2|]. split; [exact H3|]. split; [exact H4|].
  change (MAX_BFS_PATH_LEN - 1) with 4. exact H5.
Qed.

(* ================================================================== J. run_cuckoo *)

(* item 3.  The bucket indices need not even be in range: every hop target is an alt_index. *)
Lemma run_cuckoo_loop_spec mode i1 i2 : forall fuel t,
  settled t ->
  exists t' r, run_cuckoo_loop c hash mode t (bhp (cur t)) i1 i2 fuel = (t', r) /\
    same_contents t t' /\
    (forall b s, r = RC_ok b s ->
       bget (cur t') b s = None /\ (b = i1 \/ b = i2) /\ s < spb c).
Proof.
  induction fuel as [|f IH]; intros t St.
  - cbn [run_cuckoo_loop]. exists t, RC_fuel. split; [reflexivity|].
    split; [apply same_contents_refl; exact St|]. intros b s E. discriminate.
  - cbn [run_cuckoo_loop]. assert (Hm := se_mig _ _ _ St).
    destruct (cuckoopath_search c hash mode t (bhp (cur t)) i1 i2) as [t1 [[path depth]|]] eqn:Es.
    + destruct (cuckoopath_search_shape mode t _ i1 i2 t1 path depth Hm Es)
        as [-> [Hl [Hf [Hw [Hhead _]]]]].
      destruct (cuckoopath_move_settled c hash mode t path depth i1 i2 St Hw Hl Hf)
        as [t2 [ok [Em [St2 [Hhp [Hlk [Hh Hok]]]]]]].
      assert (Hsc := cuckoopath_move_spec c hash mode t path depth i1 i2 St Hw Hl Hf).
      rewrite Em in Hsc |- *. cbn [fst] in Hsc. destruct ok.
      * exists t2, (RC_ok (crbucket (nth_rec path 0)) (crslot (nth_rec path 0))).
        split; [reflexivity|]. split; [exact Hsc|].
        intros b s E. injection E as <- <-. split; [apply Hok; reflexivity|].
        split; [exact Hhead|].
        apply (nth_rec_slot c path 0%nat Hf). lia.
      * destruct (IH t2 St2) as [t' [r [Er [Hsc' Hr]]]]. rewrite Hhp in Er.
        exists t', r. split; [exact Er|]. split; [|exact Hr].
        eapply same_contents_trans; eassumption.
    + destruct (cuckoopath_search_settled mode t (bhp (cur t)) i1 i2 Hm) as [r Es'].
      rewrite Es in Es'. injection Es' as -> _.
      exists t, RC_failure. split; [reflexivity|].
      split; [apply same_contents_refl; exact St|]. intros b s E. discriminate.
Qed.

Lemma run_cuckoo_spec mode t i1 i2 :
  settled t ->
  exists t' r, run_cuckoo c hash mode t i1 i2 = (t', r) /\
    same_contents t t' /\
    (forall b s, r = RC_ok b s ->
       bget (cur t') b s = None /\ (b = i1 \/ b = i2) /\ s < spb c).
Proof. intro St. unfold run_cuckoo, hashpower. apply run_cuckoo_loop_spec. exact St. Qed.

(* ================================================================== K. cuckoo_insert *)

Lemma key_in_same t t' k : same_contents t t' -> (key_in (cur t') k <-> key_in (cur t) k).
Proof.
  intros [_ [_ [_ [_ Hh]]]]. rewrite !key_in_holds. split; intros [v Hv]; exists v; apply Hh; exact Hv.
Qed.

Lemma key_in_dec t k : arr_ok (cur t) -> key_in (cur t) k \/ ~ key_in (cur t) k.
Proof.
  intro Ha. destruct (cuckoo_find_cases c hash t k Ha) as [[_ [_ [_ [e [E Hk]]]]]|[_ Hn]].
  - left. eexists _, _, e. split; eassumption.
  - right. exact Hn.
Qed.

Lemma cand_range t k b : arr_ok (cur t) -> cand hash (bhp (cur t)) k b -> b < 2 ^ bhp (cur t).
Proof.
  intros Ha Hb. assert (Hhp : bhp (cur t) < 64) by (assert (X := ao_hp _ _ _ Ha); lia).
  destruct Hb as [->| ->].
  - unfold i1_of. apply index_lt. exact Hhp.
  - unfold i2_of. apply alt_lt. exact Hhp.
Qed.

(* item 4 *)
Lemma cuckoo_insert_spec mode t k :
  settled t ->
  let hp := bhp (cur t) in
  let i1 := i1_of hash hp k in
  let i2 := i2_of hash hp k in
  exists t' res, cuckoo_insert c hash mode t k i1 i2 = (t', res) /\
    same_contents t t' /\
    (key_in (cur t) k ->
       exists pos, res = CI_pos pos /\ pstatus pos = St_duplicated /\
         exists e, bget (cur t') (pindex pos) (pslot pos) = Some e /\ ekey e = k) /\
    (~ key_in (cur t) k ->
       res = CI_fuel \/
       exists pos, res = CI_pos pos /\
         ((pstatus pos = St_ok /\ bget (cur t') (pindex pos) (pslot pos) = None /\
           (pindex pos = i1 \/ pindex pos = i2) /\ pslot pos < spb c) \/
          pstatus pos = St_table_full)).
Proof.
  intros St hp i1 i2. assert (Ha := se_arr _ _ _ St).
  assert (Hloc : forall b s e, bget (cur t) b s = Some e -> ekey e = k -> b = i1 \/ b = i2).
  { intros b s e E Hk. assert (Hp := ao_place _ _ _ Ha _ _ _ E). rewrite Hk in Hp. exact Hp. }
  assert (Hrefl := same_contents_refl c hash t St).
  unfold cuckoo_insert, hashed_partial.
  assert (S1 := try_find_insert_arr_ok c hash (cur t) i1 k Ha).
  assert (S2 := try_find_insert_arr_ok c hash (cur t) i2 k Ha).
  revert S1 S2.
  destruct (try_find_insert_bucket c (cur t) i1 (partial_key (hash k)) k 0 (N.to_nat (spb c)) None)
    as [nd1 r1].
  destruct (try_find_insert_bucket c (cur t) i2 (partial_key (hash k)) k 0 (N.to_nat (spb c)) None)
    as [nd2 r2].
  intros S1 S2.
  destruct nd1.
  2:{ (* duplicate in the first bucket *)
    destruct S1 as [s [e [-> [Hs [Hg Hk]]]]].
    eexists _, _. split; [reflexivity|]. split; [exact Hrefl|]. split.
    - intros _. eexists. split; [reflexivity|]. cbn [pstatus pindex pslot].
      split; [reflexivity|]. exists e. split; assumption.
    - intro Hn. exfalso. apply Hn. exists i1, s, e. split; assumption. }
  destruct nd2.
  2:{ (* duplicate in the second bucket *)
    destruct S2 as [s [e [-> [Hs [Hg Hk]]]]].
    eexists _, _. split; [reflexivity|]. split; [exact Hrefl|]. split.
    - intros _. eexists. split; [reflexivity|]. cbn [pstatus pindex pslot].
      split; [reflexivity|]. exists e. split; assumption.
    - intro Hn. exfalso. apply Hn. exists i2, s, e. split; assumption. }
  (* no duplicate in either bucket: the key is absent *)
  assert (N1 : forall s' e, bget (cur t) i1 s' = Some e -> ekey e <> k)
    by (destruct r1; [apply (proj2 (proj2 S1))|apply (proj2 S1)]).
  assert (N2 : forall s' e, bget (cur t) i2 s' = Some e -> ekey e <> k)
    by (destruct r2; [apply (proj2 (proj2 S2))|apply (proj2 S2)]).
  assert (Hnk : ~ key_in (cur t) k).
  { intros [b [s [e [E Hk]]]]. destruct (Hloc b s e E Hk) as [->| ->].
    - apply (N1 s e E Hk).
    - apply (N2 s e E Hk). }
  destruct r1 as [s|].
  { destruct S1 as [Hs [Hg _]].
    eexists _, _. split; [reflexivity|]. split; [exact Hrefl|]. split; [intro; contradiction|].
    intros _. right. eexists. split; [reflexivity|]. left. cbn [pstatus pindex pslot].
    split; [reflexivity|]. split; [exact Hg|]. split; [left; reflexivity|exact Hs]. }
  destruct r2 as [s|].
  { destruct S2 as [Hs [Hg _]].
    eexists _, _. split; [reflexivity|]. split; [exact Hrefl|]. split; [intro; contradiction|].
    intros _. right. eexists. split; [reflexivity|]. left. cbn [pstatus pindex pslot].
    split; [reflexivity|]. split; [exact Hg|]. split; [right; reflexivity|exact Hs]. }
  (* both buckets full: displacement *)
  destruct (run_cuckoo_spec mode t i1 i2 St) as [t1 [r [Er [Hsc Hok]]]]. rewrite Er.
  destruct r as [ib is_| |].
  - destruct (Hok ib is_ eq_refl) as [Hg [Hib His]].
    destruct Hsc as [St1 [Hhp1 Hrest]].
    assert (Hsc : same_contents t t1) by (split; [exact St1|split; [exact Hhp1|exact Hrest]]).
    assert (Hnk1 : ~ key_in (cur t1) k) by (rewrite (key_in_same t t1 k Hsc); exact Hnk).
    assert (Hf := cuckoo_find_cases c hash t1 k (se_arr _ _ _ St1)). cbv zeta in Hf.
    rewrite Hhp1 in Hf. fold hp in Hf. fold i1 in Hf. fold i2 in Hf.
    destruct Hf as [[_ [_ [_ [e [E Hk]]]]]|[Hf _]].
    + exfalso. apply Hnk1. eexists _, _, e. split; eassumption.
    + rewrite Hf. eexists _, _. split; [reflexivity|]. split; [exact Hsc|].
      split; [intro; contradiction|].
      intros _. right. eexists. split; [reflexivity|]. left. cbn [pstatus pindex pslot].
      split; [reflexivity|]. split; [exact Hg|]. split; [exact Hib|exact His].
  - eexists _, _. split; [reflexivity|]. split; [exact Hsc|]. split; [intro; contradiction|].
    intros _. right. eexists. split; [reflexivity|]. right. reflexivity.
  - eexists _, _. split; [reflexivity|]. split; [exact Hsc|]. split; [intro; contradiction|].
    intros _. left. reflexivity.
Qed.

(* the status alone tells whether the key was there *)
Lemma cuckoo_insert_status mode t k t' pos :
  settled t ->
  cuckoo_insert c hash mode t k (i1_of hash (bhp (cur t)) k) (i2_of hash (bhp (cur t)) k)
    = (t', CI_pos pos) ->
  (pstatus pos = St_duplicated <-> key_in (cur t) k) /\
  (pstatus pos = St_ok \/ pstatus pos = St_duplicated \/ pstatus pos = St_table_full).
Proof.
  intros St E.
  destruct (cuckoo_insert_spec mode t k St) as [t1 [res [E1 [_ [Hin Hout]]]]]. cbv zeta in E1, Hin, Hout.
  rewrite E in E1. injection E1 as <- <-.
  destruct (key_in_dec t k (se_arr _ _ _ St)) as [Hk|Hk].
  - destruct (Hin Hk) as [pos' [Ep [Hs _]]]. injection Ep as <-.
    split; [split; [intros _; exact Hk|intros _; exact Hs]|]. right. left. exact Hs.
  - destruct (Hout Hk) as [Ef|[pos' [Ep Hs]]]; [discriminate|]. injection Ep as <-.
    destruct Hs as [[Hs _]|Hs].
    + split; [|left; exact Hs]. split; [intro Hd; congruence|intro; contradiction].
    + split; [|right; right; exact Hs]. split; [intro Hd; congruence|intro; contradiction].
Qed.

(* ================================================================== L. insert without expansion *)

(* item 5: one iteration of the insert loop, for ANY expansion function *)
Lemma cuckoo_insert_loop_done fd mode t k i1 i2 fuel t1 pos :
  cuckoo_insert c hash mode t k i1 i2 = (t1, CI_pos pos) ->
  pstatus pos = St_ok \/ pstatus pos = St_duplicated ->
  cuckoo_insert_loop c hash fd mode t k i1 i2 (S fuel) = (t1, IL_pos pos i1 i2).
Proof.
  intros E H. cbn [cuckoo_insert_loop]. rewrite E. destruct H as [H|H]; rewrite H; reflexivity.
Qed.

Lemma cuckoo_insert_loop_fuel fd mode t k i1 i2 fuel t1 :
  cuckoo_insert c hash mode t k i1 i2 = (t1, CI_fuel) ->
  cuckoo_insert_loop c hash fd mode t k i1 i2 (S fuel) = (t1, IL_exn EOutOfFuel).
Proof. intro E. cbn [cuckoo_insert_loop]. rewrite E. reflexivity. Qed.

Lemma insert_step_spec mode t k v t1 pos :
  settled t ->
  cuckoo_insert c hash mode t k (i1_of hash (bhp (cur t)) k) (i2_of hash (bhp (cur t)) k)
    = (t1, CI_pos pos) ->
  pstatus pos = St_ok ->
  ~ key_in (cur t) k /\ same_contents t t1 /\
  let t2 := add_to_bucket c t1 (pindex pos) (pslot pos) (partial_key (hash k)) k v in
  settled t2 /\ bhp (cur t2) = bhp (cur t) /\
  forall k' v', holds (cur t2) k' v' <-> (k' = k /\ v' = v) \/ (k' <> k /\ holds (cur t) k' v').
Proof.
  intros St E Hs.
  destruct (cuckoo_insert_spec mode t k St) as [t' [res [E1 [Hsc [Hin Hout]]]]]. cbv zeta in E1, Hin, Hout.
  rewrite E in E1. injection E1 as <- <-.
  destruct (key_in_dec t k (se_arr _ _ _ St)) as [Hk|Hk].
  { destruct (Hin Hk) as [pos' [Ep [Hd _]]]. injection Ep as <-. congruence. }
  split; [exact Hk|]. split; [exact Hsc|].
  destruct (Hout Hk) as [Ef|[pos' [Ep Hcase]]]; [discriminate|]. injection Ep as <-.
  destruct Hcase as [[_ [Hg [Hidx Hslot]]]|Hf]; [|congruence].
  assert (Hsc' := Hsc). destruct Hsc' as [St1 [Hhp1 [_ [_ Hh1]]]].
  assert (Hcand : cand hash (bhp (cur t1)) k (pindex pos)) by (rewrite Hhp1; exact Hidx).
  assert (Hb : pindex pos < 2 ^ bhp (cur t1)) by (apply (cand_range t1 k); [apply (se_arr _ _ _ St1)|exact Hcand]).
  assert (Hnk1 : ~ key_in (cur t1) k) by (rewrite (key_in_same t t1 k Hsc); exact Hk).
  destruct (add_to_bucket_settled c hash t1 (pindex pos) (pslot pos) k v St1 Hg Hb Hslot Hcand Hnk1)
    as [St2 [Hhp2 Hh2]].
  cbv zeta in St2, Hhp2, Hh2 |- *.
  split; [exact St2|]. split; [congruence|].
  intros k' v'. rewrite Hh2. rewrite Hh1. reflexivity.
Qed.

Lemma insert_step_dup mode t k t1 pos :
  settled t ->
  cuckoo_insert c hash mode t k (i1_of hash (bhp (cur t)) k) (i2_of hash (bhp (cur t)) k)
    = (t1, CI_pos pos) ->
  pstatus pos = St_duplicated ->
  key_in (cur t) k /\ same_contents t t1 /\
  exists e, bget (cur t1) (pindex pos) (pslot pos) = Some e /\ ekey e = k.
Proof.
  intros St E Hs.
  destruct (cuckoo_insert_status mode t k t1 pos St E) as [[Hk _] _]. specialize (Hk Hs).
  destruct (cuckoo_insert_spec mode t k St) as [t' [res [E1 [Hsc [Hin _]]]]]. cbv zeta in E1, Hin.
  rewrite E in E1. injection E1 as <- <-.
  split; [exact Hk|]. split; [exact Hsc|].
  destruct (Hin Hk) as [pos' [Ep [_ He]]]. injection Ep as <-. exact He.
Qed.

(* the whole of uprase_gen when the first cuckoo_insert already yields a position *)
Lemma uprase_gen_no_expand mode t k v g t1 pos :
  settled t ->
  cuckoo_insert c hash mode t k (i1_of hash (bhp (cur t)) k) (i2_of hash (bhp (cur t)) k)
    = (t1, CI_pos pos) ->
  pstatus pos = St_ok \/ pstatus pos = St_duplicated ->
  uprase_gen c hash mode t k v g =
    let inserted := match pstatus pos with St_ok => true | _ => false end in
    let t3 := if inserted
              then add_to_bucket c t1 (pindex pos) (pslot pos) (hashed_partial hash k) k v else t1 in
    let cur_v := val_at t3 (pindex pos) (pslot pos) in
    match g cur_v inserted with
    | None => (t3, inr (inserted, [], (pindex pos, pslot pos)))
    | Some (v', er) =>
      let t4 := set_val t3 (pindex pos) (pslot pos) v' in
      let t5 := if er then del_from_bucket c t4 (pindex pos) (pslot pos) else t4 in
      (t5, inr (inserted, [RFn cur_v inserted], (pindex pos, pslot pos)))
    end.
Proof.
  intros St E Hs. unfold uprase_gen.
  rewrite (snapshot_and_lock_two_settled c hash mode t k (se_mig _ _ _ St)). unfold hashpower.
  change insert_loop_fuel with (S 69).
  rewrite (cuckoo_insert_loop_done (cuckoo_fast_double c hash) mode t k _ _ 69 t1 pos E Hs).
  reflexivity.
Qed.

(* plain insert of a new key that needs no expansion *)
Lemma uprase_gen_insert_new mode t k v t1 pos :
  settled t ->
  cuckoo_insert c hash mode t k (i1_of hash (bhp (cur t)) k) (i2_of hash (bhp (cur t)) k)
    = (t1, CI_pos pos) ->
  pstatus pos = St_ok ->
  exists t2,
    uprase_gen c hash mode t k v (fun _ _ => None) = (t2, inr (true, [], (pindex pos, pslot pos))) /\
    ~ key_in (cur t) k /\ settled t2 /\ bhp (cur t2) = bhp (cur t) /\
    forall k' v', holds (cur t2) k' v' <-> (k' = k /\ v' = v) \/ (k' <> k /\ holds (cur t) k' v').
Proof.
  intros St E Hs.
  rewrite (uprase_gen_no_expand mode t k v _ t1 pos St E (or_introl Hs)). cbv zeta. rewrite Hs.
  destruct (insert_step_spec mode t k v t1 pos St E Hs) as [Hk [_ [St2 [Hhp Hh]]]].
  eexists. split; [reflexivity|]. unfold hashed_partial.
  split; [exact Hk|]. split; [exact St2|]. split; [exact Hhp|exact Hh].
Qed.

(* plain insert of a key that is already there *)
Lemma uprase_gen_insert_dup mode t k v t1 pos :
  settled t ->
  cuckoo_insert c hash mode t k (i1_of hash (bhp (cur t)) k) (i2_of hash (bhp (cur t)) k)
    = (t1, CI_pos pos) ->
  pstatus pos = St_duplicated ->
  uprase_gen c hash mode t k v (fun _ _ => None) = (t1, inr (false, [], (pindex pos, pslot pos))) /\
  key_in (cur t) k /\ same_contents t t1.
Proof.
  intros St E Hs.
  rewrite (uprase_gen_no_expand mode t k v _ t1 pos St E (or_intror Hs)). cbv zeta. rewrite Hs.
  destruct (insert_step_dup mode t k t1 pos St E Hs) as [Hk [Hsc _]].
  split; [reflexivity|]. split; assumption.
Qed.

(* ================================================================== M. the BFS bound *)

(* number of nodes of a complete spb-ary tree of height n *)
Fixpoint wt (n : nat) : N :=
  match n with
  | O => 1
  | S n' => 1 + spb c * wt n'
  end.

(* the BFS subtree below a node of depth d (children exist only while d < 4) *)
Definition wdepth (d : N) : N := wt (N.to_nat (4 - d)).

Definition qweight (q : list b_slot) : N := fold_right (fun x a => wdepth (qdepth x) + a) 0 q.

Lemma wt_pos n : 1 <= wt n.
Proof. destruct n as [|n]; cbn [wt]; lia. Qed.

Lemma wdepth_pos d : 1 <= wdepth d.
Proof. apply wt_pos. Qed.

Lemma wdepth_step d : d < 4 -> wdepth d = 1 + spb c * wdepth (d + 1).
Proof.
  intro H. unfold wdepth.
  replace (N.to_nat (4 - d)) with (S (N.to_nat (4 - (d + 1)))) by lia. reflexivity.
Qed.

Lemma qweight_cons x q : qweight (x :: q) = wdepth (qdepth x) + qweight q.
Proof. reflexivity. Qed.

Lemma qweight_app q q' : qweight (q ++ q') = qweight q + qweight q'.
Proof.
  induction q as [|x q IH]; [reflexivity|].
  change ((x :: q) ++ q') with (x :: (q ++ q')). rewrite !qweight_cons, IH. lia.
Qed.

Definition child_w (x : b_slot) : N := if qdepth x <? 4 then wdepth (qdepth x + 1) else 0.

Lemma scan_weight : forall n t hp x start i acc,
  qweight (snd (slot_search_scan c t hp x start i n acc)) <= qweight acc + N.of_nat n * child_w x.
Proof.
  induction n as [|n IH]; intros t hp x start i acc.
  - cbn [slot_search_scan snd]. apply N.le_add_r.
  - rewrite Nat2N.inj_succ, N.mul_succ_l. cbn [slot_search_scan].
    destruct (bget (cur t) (qbucket x) ((start + i) mod spb c)) as [e|].
    + rewrite max_bfs_pred. unfold child_w in *.
      match goal with |- context [slot_search_scan c t hp x start (i + 1) n ?a] => specialize (IH t hp x start (i + 1) a) end.
      revert IH. generalize (N.of_nat n * (if qdepth x <? 4 then wdepth (qdepth x + 1) else 0)).
      intros P IH.
      destruct (qdepth x <? 4).
      * rewrite qweight_app in IH. rewrite qweight_cons in IH. cbn [qdepth qweight fold_right] in IH. lia.
      * lia.
    + cbn [snd]. generalize (N.of_nat n * child_w x + child_w x). intro P. lia.
Qed.

(* a dequeue that finds no empty slot strictly decreases the weight of the queue *)
Lemma scan_none_weight t hp x ch :
  slot_search_scan c t hp x (qpathcode x mod spb c) 0 (N.to_nat (spb c)) [] = (None, ch) ->
  qweight ch + 1 <= wdepth (qdepth x).
Proof.
  intro E.
  assert (H := scan_weight (N.to_nat (spb c)) t hp x (qpathcode x mod spb c) 0 []).
  rewrite E in H. cbn [snd] in H. rewrite N2Nat.id in H. change (qweight []) with 0 in H.
  unfold child_w in H. destruct (N.ltb_spec (qdepth x) 4) as [L|L].
  - rewrite (wdepth_step _ L). lia.
  - rewrite N.mul_0_r in H. assert (P := wdepth_pos (qdepth x)). lia.
Qed.

(* fuel above the weight of the queue is never used *)
Lemma slot_search_loop_fuel_irrel mode hp : forall fuel fuel' t q,
  qweight q <= N.of_nat fuel -> qweight q <= N.of_nat fuel' ->
  slot_search_loop c hash mode t hp q fuel = slot_search_loop c hash mode t hp q fuel'.
Proof.
  induction fuel as [|f IH]; intros fuel' t q H H'.
  - destruct q as [|x q'].
    + destruct fuel'; reflexivity.
    + exfalso. rewrite qweight_cons in H. assert (P := wdepth_pos (qdepth x)). lia.
  - destruct q as [|x q'].
    + destruct fuel'; reflexivity.
    + destruct fuel' as [|f'].
      { exfalso. rewrite qweight_cons in H'. assert (P := wdepth_pos (qdepth x)). lia. }
      cbn [slot_search_loop].
      destruct (slot_search_scan c (lock_one c hash mode t (qbucket x)) hp x (qpathcode x mod spb c) 0
                  (N.to_nat (spb c)) []) as [[r|] ch] eqn:Es; [reflexivity|].
      apply scan_none_weight in Es. rewrite qweight_cons in H, H'.
      apply IH; rewrite qweight_app; lia.
Qed.

Lemma wt4_closed (u : N) :
  (u + 1) ^ 5 = (1 + (u + 1) * (1 + (u + 1) * (1 + (u + 1) * (1 + (u + 1) * 1)))) * u + 1.
Proof.
  change 5 with (2 + 2 + 1). rewrite !N.pow_add_r, N.pow_1_r, N.pow_2_r. ring.
Qed.

Lemma max_cuckoo_count_weight : 2 * wt 4 = max_cuckoo_count c.
Proof.
  unfold max_cuckoo_count. f_equal. cbn [wt].
  destruct (N.eqb_spec (spb c) 1) as [E|Ne].
  - rewrite E. reflexivity.
  - assert (Hp := co_spb _ Hc).
    change max_bfs with 5.
    set (s := spb c) in *. replace s with ((s - 1) + 1) at 5 by lia.
    rewrite wt4_closed. replace (s - 1 + 1) with s by lia.
    rewrite N.add_sub. rewrite N.div_mul by lia. reflexivity.
Qed.

Definition bfs_init (i1 i2 : N) : list b_slot :=
  [{| qbucket := i1; qpathcode := 0; qdepth := 0 |}; {| qbucket := i2; qpathcode := 1; qdepth := 0 |}].

Lemma bfs_init_weight i1 i2 : qweight (bfs_init i1 i2) = max_cuckoo_count c.
Proof.
  rewrite <- max_cuckoo_count_weight. unfold bfs_init. rewrite !qweight_cons. cbn [qdepth].
  change (qweight []) with 0. change (wdepth 0) with (wt 4). lia.
Qed.

(* the BFS bound: MAX_CUCKOO_COUNT dequeues always suffice, any additional fuel is unused *)
Theorem slot_search_fuel_enough mode t hp i1 i2 extra :
  slot_search_loop c hash mode t hp (bfs_init i1 i2) (S (N.to_nat (max_cuckoo_count c)) + extra)
  = slot_search c hash mode t hp i1 i2.
Proof.
  unfold slot_search. fold (bfs_init i1 i2).
  apply slot_search_loop_fuel_irrel; rewrite bfs_init_weight; lia.
Qed.

(* "None" means the queue ran dry: every dequeued bucket was full and produced its children,
   until nothing was left *)
Inductive bfs_exhausted (t : table) (hp : N) : list b_slot -> Prop :=
| bx_nil : bfs_exhausted t hp []
| bx_cons x q ch :
    slot_search_scan c t hp x (qpathcode x mod spb c) 0 (N.to_nat (spb c)) [] = (None, ch) ->
    bfs_exhausted t hp (q ++ ch) -> bfs_exhausted t hp (x :: q).

Lemma slot_search_loop_none mode t hp : forall fuel q t',
  all_migrated t -> qweight q <= N.of_nat fuel ->
  slot_search_loop c hash mode t hp q fuel = (t', None) -> bfs_exhausted t hp q.
Proof.
  induction fuel as [|f IH]; intros q t' Hm H E.
  - destruct q as [|x q']; [constructor|].
    exfalso. rewrite qweight_cons in H. assert (P := wdepth_pos (qdepth x)). lia.
  - destruct q as [|x q']; [constructor|].
    rewrite (slot_search_loop_step mode t hp x q' f Hm) in E.
    destruct (slot_search_scan c t hp x (qpathcode x mod spb c) 0 (N.to_nat (spb c)) [])
      as [[r|] ch] eqn:Es; [discriminate|].
    apply (bx_cons t hp x q' ch Es). apply (IH _ t' Hm); [|exact E].
    apply scan_none_weight in Es. rewrite qweight_cons in H. rewrite qweight_app. lia.
Qed.

Theorem slot_search_none mode t hp i1 i2 t' :
  all_migrated t ->
  slot_search c hash mode t hp i1 i2 = (t', None) -> bfs_exhausted t hp (bfs_init i1 i2).
Proof.
  intros Hm E. unfold slot_search in E. fold (bfs_init i1 i2) in E.
  eapply slot_search_loop_none; [exact Hm| |exact E]. rewrite bfs_init_weight. lia.
Qed.

End Ins.
