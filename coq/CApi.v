(* L3: the C wrapper (libcuckoo-c/cuckoo_table_template.cc) over int -> int tables, and its file
   format.  Definitions only.  Entry points that merely forward to a C++ member are [CFwd]. *)
From Coq Require Import NArith ZArith List Bool.
From LC Require Import gen.HashGen Core Api.
Import ListNotations.
Local Open Scope N_scope.

(* ---------------------------------------------------------------- file codec *)
(* little-endian encoding of x in n bytes *)
Fixpoint le_bytes (n : nat) (x : N) : list N :=
  match n with
  | O => []
  | S n' => (x mod 256) :: le_bytes n' (x / 256)
  end.

Fixpoint le_value (bs : list N) : N :=
  match bs with
  | [] => 0
  | b :: r => b + 256 * le_value r
  end.

(* int as 4 bytes two's complement *)
Definition int_to_u32 (z : Z) : N := Z.to_N (z mod 4294967296)%Z.
Definition u32_to_int (n : N) : Z := if n <? 2147483648 then Z.of_N n else (Z.of_N n - 4294967296)%Z.

Definition encode_pair (kv : N * Z) : list N := le_bytes 4 (fst kv) ++ le_bytes 4 (int_to_u32 (snd kv)).

Definition encode_file (count : N) (pairs : list (N * Z)) : list N :=
  le_bytes 8 count ++ flat_map encode_pair pairs.

(* fread(&x, n, 1, fp): Some (value, rest) iff at least n bytes remain *)
Definition take_bytes (n : nat) (bs : list N) : option (list N * list N) :=
  if Nat.leb n (length bs) then Some (firstn n bs, skipn n bs) else None.

(* the record loop of _read: [count] records, each a 4-byte key and a 4-byte value;
   None = a short read (the function then deletes the table and returns NULL) *)
Fixpoint decode_records (count : nat) (bs : list N) : option (list (N * Z)) :=
  match count with
  | O => Some []
  | S n =>
    match take_bytes 4 bs with
    | None => None
    | Some (kb, r1) =>
      match take_bytes 4 r1 with
      | None => None
      | Some (vb, r2) =>
        match decode_records n r2 with
        | None => None
        | Some ps => Some ((le_value kb, u32_to_int (le_value vb)) :: ps)
        end
      end
    end
  end.

Definition decode_file (bs : list N) : option (N * list (N * Z)) :=
  match take_bytes 8 bs with
  | None => None
  | Some (cb, r) =>
    let count := le_value cb in
    match decode_records (N.to_nat count) r with
    | None => None
    | Some ps => Some (count, ps)
    end
  end.

(* ---------------------------------------------------------------- C entry points *)
Inductive cop :=
| CInit (n : N)                                   (* <name>_init *)
| CRead (f : nat) (nbytes : option N) (dst : nat) (* <name>_read on file f, truncated to nbytes *)
| CWrite (f : nat)                                (* <name>_locked_table_write *)
| CFree                                           (* <name>_free (and its locked table) *)
| CFwd (o : op).                                  (* entry points that forward to one C++ member *)

Record cworld := { cw : world; cfiles : list (option (list N)) }.

Definition cworld_init : cworld := {| cw := init_world; cfiles := repeat None 4 |}.

Section CStep.
Variable c : config.
Variable hash : N -> N.
Variable fapply : fnk -> Z -> bool -> Z * bool.

(* elements of a locked table in iteration order *)
Fixpoint elems_fwd (t : table) (p : N * N) (n : nat) : list (N * Z) :=
  match n with
  | O => []
  | S n' =>
    if (fst p =? fst (end_pos t)) && (snd p =? 0) then []
    else match bget (cur t) (fst p) (snd p) with
         | Some e => (ekey e, eval e) :: elems_fwd t (it_next c t p) n'
         | None => []
         end
  end.

Definition write_file (t : table) : list N :=
  encode_file (tsize t) (elems_fwd t (it_begin c t) (trav_fuel c t)).

(* the insertion loop of _read; an exception other than bad_alloc would cross the C boundary *)
Fixpoint read_inserts (t : table) (ps : list (N * Z)) : table * option exn :=
  match ps with
  | [] => (t, None)
  | (k, v) :: r =>
    match insert_with c hash (cuckoo_fast_double c hash) t k v with
    | (t1, Some e) => (t1, Some e)
    | (t1, None) => read_inserts t1 r
    end
  end.

(* tables from _init have no minimum load factor and no maximum hashpower *)
Definition init_table (n : N) : table :=
  set_mhp (set_mlf (new_table c n) 0 1) NO_MAXIMUM_HASHPOWER.

(* the table _read constructs before inserting: same limits as _init *)
Definition read_table (n : N) : table := init_table n.

Definition cstep (w : cworld) (a : nat) (o : cop) : cworld * out * option (list N) :=
  match o with
  | CFwd o' => let '(w', r) := step c hash fapply (cw w) a o' in ({| cw := w'; cfiles := cfiles w |}, r, None)
  | CInit n =>
    match get_tab (cw w) a with
    | Some _ => (w, exn_out EUnmodelled, None)
    | None => ({| cw := put_tab (cw w) a (Some {| tb := init_table n; active := false |}); cfiles := cfiles w |}, [RNone], None)
    end
  | CFree =>
    match get_tab (cw w) a with
    | None => (w, exn_out EUnmodelled, None)
    | Some _ => ({| cw := put_tab (cw w) a None; cfiles := cfiles w |}, [RNone], None)
    end
  | CWrite f =>
    match get_tab (cw w) a with
    | Some s =>
      if active s then
        let bytes := write_file (tb s) in
        ({| cw := cw w; cfiles := set_nth f (Some bytes) (cfiles w) |}, [RBool true], Some bytes)
      else (w, exn_out EUnmodelled, None)
    | None => (w, exn_out EUnmodelled, None)
    end
  | CRead f nb dst =>
    match nth f (cfiles w) None, get_tab (cw w) dst with
    | Some bytes, None =>
      let data := match nb with Some n => firstn (N.to_nat n) bytes | None => bytes end in
      match take_bytes 8 data with
      | None => (w, [RNone], None)                                  (* NULL *)
      | Some (cb, rest) =>
        let count := le_value cb in
        match decode_records (N.to_nat count) rest with
        | None => (w, [RNone], None)                                (* short read: table deleted, NULL *)
        | Some ps =>
          match read_inserts (read_table count) ps with
          | (t1, Some e) => (w, exn_out e, None)                    (* crosses the extern "C" frame unless bad_alloc *)
          | (t1, None) =>
            ({| cw := put_tab (cw w) dst (Some {| tb := t1; active := false |}); cfiles := cfiles w |}, [RBool true], None)
          end
        end
      end
    | _, _ => (w, exn_out EUnmodelled, None)
    end
  end.

End CStep.
