(* C01 - linearizability across every kind of resize: the protocol half.
   Theorems about the L2 interleaving model (Conc.v), for ANY number of threads, ANY client
   programs (the model's threads choose operations, stripes and resizes nondeterministically) and
   EVERY schedule: [reachable] quantifies over all finite sequences of steps.
   C01_validated_current is the statement that turns the sequential refinement theorems (C02) into
   atomicity of critical sections: a thread that passed its generation check works on the CURRENT
   lock array, with the CURRENT table size and generation, owning its stripes, while no whole-table
   operation is in progress.  What is NOT mechanised: the composition "critical sections are atomic
   + sequential refinement of their bodies => every history has a linearization"; that step is
   argued in DESIGN 6.1 and histories of the real library are checked for linearizability by the
   T2 harness.  Hence the suffix _partial on the summary theorem.
   Statements only; closed by [exact] of lemmas of ConcInv.v. *)
From Coq Require Import NArith List.
From LC Require Import Conc ConcInv.
Import ListNotations.

Theorem C01_validated_current : forall hp0 rc0 arrs0, arrs_ok arrs0 -> forall s, reachable hp0 rc0 arrs0 s ->
  forall t sn sa x r, thr s t = CS sn sa (x :: r) \/ (exists l, thr s t = CW sn sa (x :: r) l) ->
  sc sn = g_rc (sh_ s) /\ sh sn = g_hp (sh_ s) /\ sa + 1 = narr (sh_ s) /\ g_dirty (sh_ s) = false /\ (forall y, In y (x :: r) -> g_held (sh_ s) sa y = Some t /\ y < asz (sh_ s) sa) /\ (forall t', ~ all_holder (thr s t')).
Proof. exact validated_current. Qed.
Print Assumptions C01_validated_current.

Theorem C01_resize_excludes_every_critical_section : forall hp0 rc0 arrs0, arrs_ok arrs0 -> forall s, reachable hp0 rc0 arrs0 s ->
  forall t first d, thr s t = AH first d -> forall t', t' <> t -> ~ validated (thr s t') /\ ~ all_holder (thr s t').
Proof. exact all_holder_exclusive. Qed.
Print Assumptions C01_resize_excludes_every_critical_section.

Theorem C01_size_generation_locklist_written_only_under_all_locks : forall s t lb s', gstep s t lb = Some s' ->
  g_hp (sh_ s') <> g_hp (sh_ s) \/ g_rc (sh_ s') <> g_rc (sh_ s) \/ g_arrs (sh_ s') <> g_arrs (sh_ s) -> all_holder (thr s t).
Proof. exact writes_only_under_all_locks. Qed.
Print Assumptions C01_size_generation_locklist_written_only_under_all_locks.

Theorem C01_generation_bumped_before_release : forall hp0 rc0 arrs0, arrs_ok arrs0 -> forall s, reachable hp0 rc0 arrs0 s ->
  forall t first d a l s', thr s t = AH first d -> gstep s t (UNLOCK a l) = Some s' ->
  d = false /\ g_dirty (sh_ s) = false /\ g_hp (sh_ s) = g_hp0 (sh_ s) /\ narr (sh_ s) = g_narr0 (sh_ s).
Proof. exact release_only_after_bump. Qed.
Print Assumptions C01_generation_bumped_before_release.

Theorem C01_generation_monotone : forall s t lb s', gstep s t lb = Some s' -> (g_rc (sh_ s) <= g_rc (sh_ s'))%N.
Proof. exact rc_monotone. Qed.
Print Assumptions C01_generation_monotone.

(* every event trace that replays in the model ends in a state satisfying the whole invariant: this
   is the link used by the T2 harness (real traces are replayed by the extracted [replay]) *)
Theorem C01_replayed_traces_satisfy_invariant : forall hp0 rc0 arrs0 tr s, arrs_ok arrs0 ->
  replay (ginit hp0 rc0 arrs0) tr = Some s -> Inv s.
Proof. exact replay_Inv. Qed.
Print Assumptions C01_replayed_traces_satisfy_invariant.

(* the defect found while proving all_holder_exclusive (unlocker walking to the CURRENT list end):
   its witness trace is a run of the old step relation and is rejected by the repaired one *)
Theorem C01_tail_unlock_witness_rejected :
  replay (ginit 0 0 [1]) [(0, BEGIN 3); (0, ALL_FIRST 0); (0, LOCKED 0 0); (0, ALL_NEXT false); (0, UNLOCK 0 0);
                          (1, BEGIN 3); (1, ALL_FIRST 0); (1, LOCKED 0 0); (1, ALL_NEXT false); (1, EMPLACE 1)] <> None /\ replay (ginit 0 0 [1]) [(0, BEGIN 3); (0, ALL_FIRST 0); (0, LOCKED 0 0); (0, ALL_NEXT false); (0, UNLOCK 0 0);
                          (1, BEGIN 3); (1, ALL_FIRST 0); (1, LOCKED 0 0); (1, ALL_NEXT false); (1, EMPLACE 1); (0, UNLOCK 1 0)] = None.
Proof. exact tail_race_trace_rejected. Qed.

(* non-vacuity: a validated thread exists in a reachable state *)
Example C01_ex_validated_reachable : exists s, replay (ginit 3 0 [2]) [(0, BEGIN 1); (0, LD_RC 0); (0, LD_HP 3); (0, CURLOCKS 0);
   (0, LOCKREQ 0 1); (0, LOCKED 0 1); (0, LD_RC 0)] = Some s /\ validated (thr s 0).
Proof. eexists. split; [vm_compute; reflexivity|exact I]. Qed.
