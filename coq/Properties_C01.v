(* C01 - linearizability across every kind of resize: the protocol half.
   Theorems about the L2 interleaving model (Conc.v), for ANY number of threads, ANY client
   programs (the model's threads choose operations, stripes and resizes nondeterministically) and
   EVERY schedule: [reachable] quantifies over all finite sequences of steps.
   C01_validated_current is the statement that turns the sequential refinement theorems (C02) into
   atomicity of critical sections: a thread that passed its generation check works on the CURRENT
   lock array, with the CURRENT table size and generation, owning its stripes, while no whole-table
   operation is in progress.  What is NOT mechanised: the composition "critical sections are atomic
   + sequential refinement of their bodies => every history has a linearization"; that step is
   argued in DESIGN 6.1 and histories of the real library are checked for linearizability by the
   T2 harness.  Hence the suffix _partial on the summary theorem.
   Statements only; closed by [exact] of lemmas of ConcInv.v. *)
From Coq Require Import NArith List.
From LC Require Import gen.HashGen Core Api InvDefs ArrLemmas Refine Conc ConcInv ConcLin.
Import ListNotations.

Theorem C01_validated_current : forall hp0 rc0 arrs0, arrs_ok arrs0 -> forall s, reachable hp0 rc0 arrs0 s ->
  forall t sn sa x r, thr s t = CS sn sa (x :: r) \/ (exists l, thr s t = CW sn sa (x :: r) l) ->
  sc sn = g_rc (sh_ s) /\ sh sn = g_hp (sh_ s) /\ sa + 1 = narr (sh_ s) /\ g_dirty (sh_ s) = false /\ (forall y, In y (x :: r) -> g_held (sh_ s) sa y = Some t /\ y < asz (sh_ s) sa) /\ (forall t', ~ all_holder (thr s t')).
Proof. exact validated_current. Qed.
Print Assumptions C01_validated_current.

Theorem C01_resize_excludes_every_critical_section : forall hp0 rc0 arrs0, arrs_ok arrs0 -> forall s, reachable hp0 rc0 arrs0 s ->
  forall t first d, thr s t = AH first d -> forall t', t' <> t -> ~ validated (thr s t') /\ ~ all_holder (thr s t').
Proof. exact all_holder_exclusive. Qed.
Print Assumptions C01_resize_excludes_every_critical_section.

Theorem C01_size_generation_locklist_written_only_under_all_locks : forall s t lb s', gstep s t lb = Some s' ->
  g_hp (sh_ s') <> g_hp (sh_ s) \/ g_rc (sh_ s') <> g_rc (sh_ s) \/ g_arrs (sh_ s') <> g_arrs (sh_ s) -> all_holder (thr s t).
Proof. exact writes_only_under_all_locks. Qed.
Print Assumptions C01_size_generation_locklist_written_only_under_all_locks.

Theorem C01_generation_bumped_before_release : forall hp0 rc0 arrs0, arrs_ok arrs0 -> forall s, reachable hp0 rc0 arrs0 s ->
  forall t first d a l s', thr s t = AH first d -> gstep s t (UNLOCK a l) = Some s' ->
  d = false /\ g_dirty (sh_ s) = false /\ g_hp (sh_ s) = g_hp0 (sh_ s) /\ narr (sh_ s) = g_narr0 (sh_ s).
Proof. exact release_only_after_bump. Qed.
Print Assumptions C01_generation_bumped_before_release.

Theorem C01_generation_monotone : forall s t lb s', gstep s t lb = Some s' -> (g_rc (sh_ s) <= g_rc (sh_ s'))%N.
Proof. exact rc_monotone. Qed.
Print Assumptions C01_generation_monotone.

(* every event trace that replays in the model ends in a state satisfying the whole invariant: this
   is the link used by the T2 harness (real traces are replayed by the extracted [replay]) *)
Theorem C01_replayed_traces_satisfy_invariant : forall hp0 rc0 arrs0 tr s, arrs_ok arrs0 ->
  replay (ginit hp0 rc0 arrs0) tr = Some s -> Inv s.
Proof. exact replay_Inv. Qed.
Print Assumptions C01_replayed_traces_satisfy_invariant.

(* the defect found while proving all_holder_exclusive (unlocker walking to the CURRENT list end):
   its witness trace is a run of the old step relation and is rejected by the repaired one *)
Theorem C01_tail_unlock_witness_rejected :
  replay (ginit 0 0 [1]) [(0, BEGIN 3); (0, ALL_FIRST 0); (0, LOCKED 0 0); (0, ALL_NEXT false); (0, UNLOCK 0 0);
                          (1, BEGIN 3); (1, ALL_FIRST 0); (1, LOCKED 0 0); (1, ALL_NEXT false); (1, EMPLACE 1)] <> None /\ replay (ginit 0 0 [1]) [(0, BEGIN 3); (0, ALL_FIRST 0); (0, LOCKED 0 0); (0, ALL_NEXT false); (0, UNLOCK 0 0);
                          (1, BEGIN 3); (1, ALL_FIRST 0); (1, LOCKED 0 0); (1, ALL_NEXT false); (1, EMPLACE 1); (0, UNLOCK 1 0)] = None.
Proof. exact tail_race_trace_rejected. Qed.

(* non-vacuity: a validated thread exists in a reachable state *)
Example C01_ex_validated_reachable : exists s, replay (ginit 3 0 [2]) [(0, BEGIN 1); (0, LD_RC 0); (0, LD_HP 3); (0, CURLOCKS 0);
   (0, LOCKREQ 0 1); (0, LOCKED 0 1); (0, LD_RC 0)] = Some s /\ validated (thr s 0).
Proof. eexists. split; [vm_compute; reflexivity|exact I]. Qed.
(* ---- generated statements (tools/mkprops.py): the composition (ConcLin.v) ---- *)
(* The COMBINED system (ConcLin.cstep): protocol state + the shared table + per-thread operation in flight +
   history.  A thread in a validated critical section performs its operation's data step with the bucket
   indices computed from ITS SNAPSHOT of the table size ([lin_data c hash (sh sn)]); resizes replace the table
   under all locks preserving the contents.  [linearizable_by_points]: (a) the linearization events, in order,
   are a legal sequential execution of the map specification ending in the table's contents; (b),(c) every
   response is preceded by exactly one linearization event of that operation, itself preceded by its
   invocation, with nothing of that thread in between.  Covered: find / contains / update / update_fn / erase /
   erase_fn (DLookup), insert / insert_or_assign / upsert / uprase_fn when no expansion is needed in the
   linearizing section (DUprase), resizes that leave the table fully migrated.  Not covered (DESIGN 6.1): the
   deferred-migration state inside the combined system, operations ending in a policy exception, and the
   multi-section displacement of insert is one atomic data step here (its hops are contents-preserving by
   C02_displacement_preserves_contents). *)

Theorem C01_linearizable_by_linearization_points :
  forall (c : config) (hash : N -> N),
  cfg_ok c ->
  forall (hp0 rc0 : N) (arrs0 : list nat) (t0 : table),
  arrs_ok arrs0 ->
  good c hash t0 ->
  bhp (cur t0) = hp0 ->
  forall s : cstate,
  creach c hash hp0 rc0 arrs0 t0 s ->
  legal (holds (cur t0)) (lins (hist s)) (holds (cur (tbl s))) /\
  (forall (t : tid) (op : dop) (r : dres) (h1 h2 : list hev),
  hist s = h1 ++ HRes t op r :: h2 ->
  exists ha hb hc : list hev,
  h1 = ha ++ HInv t op :: hb ++ HLin t op r :: hc /\ quiet t hb /\ quiet t hc /\ tphase t ha PIdle) /\
  (forall (t : tid) (op : dop) (r : dres) (h1 h2 : list hev),
  hist s = h1 ++ HLin t op r :: h2 ->
  exists ha hb : list hev, h1 = ha ++ HInv t op :: hb /\ quiet t hb /\ tphase t ha PIdle).
Proof. exact linearizable_by_points. Qed.
Print Assumptions C01_linearizable_by_linearization_points.

Theorem C01_snapshot_of_a_linearizing_thread_is_current :
  forall (c : config) (hash : N -> N),
  cfg_ok c ->
  forall (hp0 rc0 : N) (arrs0 : list nat) (t0 : table),
  arrs_ok arrs0 ->
  good c hash t0 ->
  bhp (cur t0) = hp0 ->
  forall (s : cstate) (t : tid) (sn : snap) (sa x : nat) (r : list nat),
  creach c hash hp0 rc0 arrs0 t0 s -> thr (pr s) t = CS sn sa (x :: r) -> sh sn = hashpower (tbl s).
Proof. exact lin_snapshot_current. Qed.
Print Assumptions C01_snapshot_of_a_linearizing_thread_is_current.

Theorem C01_linearizing_step_is_the_sequential_operation :
  forall (c : config) (hash : N -> N),
  cfg_ok c ->
  forall (hp0 rc0 : N) (arrs0 : list nat) (t0 : table),
  arrs_ok arrs0 ->
  forall (s : cstate) (t : tid) (sn : snap) (sa x : nat) (r : list nat) (op : dop)
  (tbl' : table) (rs : dres),
  CInv c hash hp0 rc0 arrs0 t0 s ->
  thr (pr s) t = CS sn sa (x :: r) ->
  lin_data c hash (sh sn) (tbl s) op = Some (tbl', rs) ->
  sh sn = hashpower (tbl s) /\
  good c hash tbl' /\
  bhp (cur tbl') = bhp (cur (tbl s)) /\
  spec_step (holds (cur (tbl s))) op rs (holds (cur tbl')) /\
  match op with
  | DLookup k g =>
  match rs with
  | RLookup o => lookup_fn c hash false (tbl s) k g = (tbl', o)
  | RUprase _ _ => False
  end
  | DUprase k v g =>
  match rs with
  | RLookup _ => False
  | RUprase i lg => exists p : N * N, uprase_gen c hash false (tbl s) k v g = (tbl', inr (i, lg, p))
  end
  end.
Proof. exact lin_step_spec. Qed.
Print Assumptions C01_linearizing_step_is_the_sequential_operation.

Theorem C01_completed_operation_linearized_between_invocation_and_response :
  forall (c : config) (hash : N -> N),
  cfg_ok c ->
  forall (hp0 rc0 : N) (arrs0 : list nat) (t0 : table),
  arrs_ok arrs0 ->
  good c hash t0 ->
  bhp (cur t0) = hp0 ->
  forall (s : cstate) (t : tid) (op : dop) (r : dres) (h1 h2 : list hev),
  creach c hash hp0 rc0 arrs0 t0 s ->
  hist s = h1 ++ HRes t op r :: h2 ->
  exists ha hb hc : list hev,
  hist s = ha ++ HInv t op :: hb ++ HLin t op r :: hc ++ HRes t op r :: h2 /\
  quiet t hb /\ quiet t hc /\ lins (hist s) = lins (ha ++ hb) ++ (op, r) :: lins hc ++ lins h2.
Proof. exact completed_op_linearized. Qed.
Print Assumptions C01_completed_operation_linearized_between_invocation_and_response.

Theorem C01_present_key_never_reported_absent :
  forall (c : config) (hash : N -> N),
  cfg_ok c ->
  forall (hp0 rc0 : N) (arrs0 : list nat) (t0 : table),
  arrs_ok arrs0 ->
  good c hash t0 ->
  bhp (cur t0) = hp0 ->
  forall (s : cstate) (l1 : list (dop * dres)) (k : N) (g : Z -> Z * bool) (l2 : list (dop * dres)),
  creach c hash hp0 rc0 arrs0 t0 s ->
  lins (hist s) = l1 ++ (DLookup k g, RLookup None) :: l2 ->
  forall m : contents, legal (holds (cur t0)) l1 m -> forall v : Z, ~ m k v.
Proof. exact lookup_none_absent. Qed.
Print Assumptions C01_present_key_never_reported_absent.

Theorem C01_insert_reports_inserted_iff_absent :
  forall (c : config) (hash : N -> N),
  cfg_ok c ->
  forall (hp0 rc0 : N) (arrs0 : list nat) (t0 : table),
  arrs_ok arrs0 ->
  good c hash t0 ->
  bhp (cur t0) = hp0 ->
  forall (s : cstate) (l1 : list (dop * dres)) (k : N) (v : Z) (g : Z -> bool -> option (Z * bool))
  (i : bool) (lg : list rv) (l2 : list (dop * dres)),
  creach c hash hp0 rc0 arrs0 t0 s ->
  lins (hist s) = l1 ++ (DUprase k v g, RUprase i lg) :: l2 ->
  forall m : contents, legal (holds (cur t0)) l1 m -> i = true <-> (forall v0 : Z, ~ m k v0).
Proof. exact uprase_inserted_iff_absent. Qed.
Print Assumptions C01_insert_reports_inserted_iff_absent.

Theorem C01_resize_excludes_critical_sections :
  forall (c : config) (hash : N -> N),
  cfg_ok c ->
  forall (hp0 rc0 : N) (arrs0 : list nat) (t0 : table),
  arrs_ok arrs0 ->
  good c hash t0 ->
  bhp (cur t0) = hp0 ->
  forall (s : cstate) (t : tid) (first : nat) (d : bool),
  creach c hash hp0 rc0 arrs0 t0 s ->
  thr (pr s) t = AH first d -> forall u : tid, ~ validated (thr (pr s) u).
Proof. exact resize_excludes_critical_sections. Qed.
Print Assumptions C01_resize_excludes_critical_sections.

(* ---- linearizability THROUGH deferred migration (ConcLinLazy.v): the combined system over [lgood] tables, abstract contents [lholds]; the resize step may leave every stripe un-migrated (the real automatic doubling in normal mode, fast_double_is_resize_step); a linearizing operation migrates the stripes it locks ---- *)
From LC Require Import LazyRefine ConcLinLazy.
Theorem C01_linearizable_through_deferred_migration :
  forall (c : config) (hash : N -> N),
  cfg_ok c ->
  forall (hp0 rc0 : N) (arrs0 : list nat) (t0 : table),
  arrs_ok arrs0 ->
  lgood c hash t0 ->
  bhp (cur t0) = hp0 ->
  forall s : cstate,
  creachL c hash hp0 rc0 arrs0 t0 s ->
  legal (Lazy.lholds c t0) (lins (hist s)) (Lazy.lholds c (tbl s)) /\
  (forall (t : tid) (op : dop) (r : dres) (h1 h2 : list hev),
  hist s = h1 ++ HRes t op r :: h2 ->
  exists ha hb hc : list hev,
  h1 = ha ++ HInv t op :: hb ++ HLin t op r :: hc /\ quiet t hb /\ quiet t hc /\ tphase t ha PIdle) /\
  (forall (t : tid) (op : dop) (r : dres) (h1 h2 : list hev),
  hist s = h1 ++ HLin t op r :: h2 ->
  exists ha hb : list hev, h1 = ha ++ HInv t op :: hb /\ quiet t hb /\ tphase t ha PIdle).
Proof. exact linearizable_by_points_lazy. Qed.
Print Assumptions C01_linearizable_through_deferred_migration.

Theorem C01_linearizing_step_is_the_sequential_operation_lazy :
  forall (c : config) (hash : N -> N),
  cfg_ok c ->
  forall (hp0 rc0 : N) (arrs0 : list nat) (t0 : table),
  arrs_ok arrs0 ->
  forall (s : cstate) (t : tid) (sn : snap) (sa x : nat) (r : list nat) (op : dop)
  (tbl' : table) (rs : dres),
  CInvL c hash hp0 rc0 arrs0 t0 s ->
  thr (pr s) t = CS sn sa (x :: r) ->
  lin_data c hash (sh sn) (tbl s) op = Some (tbl', rs) ->
  sh sn = hashpower (tbl s) /\
  lgood c hash tbl' /\
  bhp (cur tbl') = bhp (cur (tbl s)) /\
  spec_step (Lazy.lholds c (tbl s)) op rs (Lazy.lholds c tbl') /\
  match op with
  | DLookup k g =>
  match rs with
  | RLookup o => lookup_fn c hash false (tbl s) k g = (tbl', o)
  | RUprase _ _ => False
  end
  | DUprase k v g =>
  match rs with
  | RLookup _ => False
  | RUprase i lg => exists p : N * N, uprase_gen c hash false (tbl s) k v g = (tbl', inr (i, lg, p))
  end
  end.
Proof. exact lin_step_specL. Qed.
Print Assumptions C01_linearizing_step_is_the_sequential_operation_lazy.

Theorem C01_present_key_never_reported_absent_lazy :
  forall (c : config) (hash : N -> N),
  cfg_ok c ->
  forall (hp0 rc0 : N) (arrs0 : list nat) (t0 : table),
  arrs_ok arrs0 ->
  lgood c hash t0 ->
  bhp (cur t0) = hp0 ->
  forall (s : cstate) (l1 : list (dop * dres)) (k : N) (g : Z -> Z * bool) (l2 : list (dop * dres)),
  creachL c hash hp0 rc0 arrs0 t0 s ->
  lins (hist s) = l1 ++ (DLookup k g, RLookup None) :: l2 ->
  forall m : contents, legal (Lazy.lholds c t0) l1 m -> forall v : Z, ~ m k v.
Proof. exact lookup_none_absent_lazy. Qed.
Print Assumptions C01_present_key_never_reported_absent_lazy.

Theorem C01_automatic_doubling_is_a_resize_step :
  forall (c : config) (hash : N -> N),
  cfg_ok c ->
  forall t : table,
  lgood c hash t ->
  (bhp (cur t) + 1 < 60)%N ->
  ~ maxed t (bhp (cur t) + 1) ->
  let t' := fast_double_body c hash false t (bhp (cur t) + 1) in
  resize_ok c hash t t' (bhp (cur t) + 1) /\
  (nothrow c = true ->
  lf_lt_mlf c t = false -> cuckoo_fast_double c hash false t (bhp (cur t)) = (t', inr St_ok)) /\
  ((kmax c <= hashsize (bhp (cur t)))%N ->
  ~ all_migrated t' /\
  ~ good c hash t' /\
  (forall l : N, (l < kmax c)%N -> mig (lock_at t' l) = false) /\
  (forall (k : N) (x : Z), ~ holds (cur t') k x)).
Proof. exact fast_double_is_resize_step. Qed.
Print Assumptions C01_automatic_doubling_is_a_resize_step.

Theorem C01_finishing_migration_is_a_resize_step :
  forall (c : config) (hash : N -> N),
  cfg_ok c ->
  forall t : table,
  lgood c hash t ->
  resize_ok c hash t (rehash_with_workers c hash t) (bhp (cur t)) /\
  all_migrated (rehash_with_workers c hash t).
Proof. exact rww_is_resize_step. Qed.
Print Assumptions C01_finishing_migration_is_a_resize_step.

Theorem C01_rehash_is_a_resize_step :
  forall (c : config) (hash : N -> N),
  cfg_ok c ->
  forall (t : table) (n : N) (t' : table) (r : exn + bool),
  lgood c hash t ->
  limC c (mhp t) ->
  destructive c = false ->
  cuckoo_rehash c hash false t n = (t', r) -> resize_ok c hash t t' (bhp (cur t')).
Proof. exact rehash_is_resize_step. Qed.
Print Assumptions C01_rehash_is_a_resize_step.

Theorem C01_settled_system_is_a_subsystem :
  forall (c : config) (hash : N -> N) (s s' : cstate),
  good c hash (tbl s) -> cstep c hash s s' -> cstepL c hash s s'.
Proof. exact cstep_cstepL. Qed.
Print Assumptions C01_settled_system_is_a_subsystem.
