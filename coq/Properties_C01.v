(* C01 - placeholder until ConcInv.v is delivered *)
From LC Require Import Conc.
Theorem C01_model_initial_state_idle : forall hp rc arrs t, thr (ginit hp rc arrs) t = Idle.
Proof. reflexivity. Qed.
Print Assumptions C01_model_initial_state_idle.
