(* C12 - stream serialization round-trips the table and yields a fully working table (model level).
   Source: any settled, counted table whose hashpower respects its own maximum; destination: ANY
   locked table (any previous size, contents and number of lock stripes).  The result is settled and
   counted again, so every theorem about settled tables (C02, C05, C09, C10, C17) applies to the
   operations that follow, in locked and in normal mode.
   Statements only; closed by [exact] of lemmas of Stream.v. *)
From Coq Require Import NArith ZArith List.
From LC Require Import gen.HashGen Core Api InvDefs ArrLemmas Stats Resize Lazy Special Stream Life.
Import ListNotations.
Local Open Scope N_scope.

Theorem C12_stream_roundtrip : forall c hash, cfg_ok c -> forall ts td,
  settled c hash ts -> counted c ts -> (hashpower ts <= mhp ts \/ mhp ts = NO_MAXIMUM_HASHPOWER) ->
  (0 <= sum_cnt (cur_locks ts) < 2 ^ 64)%Z ->
  locks td <> [] -> cur_locks td <> [] -> all_migrated td ->
  let im := stream_out ts in
  let td' := fst (stream_in c td im) in
  snd (stream_in c td im) = [RNone] /\
  cur td' = {| bhp := bhp (cur ts); bsl := bsl (cur ts); bdead := false |} /\
  (forall b s, bget (cur td') b s = bget (cur ts) b s) /\
  (forall k v, holds (cur td') k v <-> holds (cur ts) k v) /\
  hashpower td' = hashpower ts /\ mlfn td' = mlfn ts /\ mlfd td' = mlfd ts /\ mhp td' = mhp ts /\
  tsize td' = tsize ts /\ settled c hash td' /\ counted c td' /\ rc td' = wrap64 (rc td + 1) /\
  old td' = old td /\ nrem td' = nrem td /\ workers td' = workers td /\
  length (cur_locks td') = Nat.max (length (cur_locks td)) (N.to_nat (N.min (kmax c) (2 ^ bhp (cur ts)))) /\
  ((length (cur_locks td) <= N.to_nat (kmax c))%nat -> (length (cur_locks td') <= N.to_nat (kmax c))%nat).
Proof. exact stream_roundtrip. Qed.
Print Assumptions C12_stream_roundtrip.
