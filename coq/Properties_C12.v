(* C12 - stream serialization round-trips the table and yields a fully working table (model level).
   Source: any settled, counted table whose hashpower respects its own maximum; destination: ANY
   locked table (any previous size, contents and number of lock stripes).  The result is settled and
   counted again, so every theorem about settled tables (C02, C05, C09, C10, C17) applies to the
   operations that follow, in locked and in normal mode.
   Statements only; closed by [exact] of lemmas of Stream.v. *)
From Coq Require Import NArith ZArith List.
From LC Require Import gen.HashGen Core Api InvDefs ArrLemmas Stats Resize Lazy Special Stream Life.
Import ListNotations.
Local Open Scope N_scope.

Theorem C12_stream_roundtrip : forall c hash, cfg_ok c -> forall ts td,
  settled c hash ts -> counted c ts -> (hashpower ts <= mhp ts \/ mhp ts = NO_MAXIMUM_HASHPOWER) ->
  (0 <= sum_cnt (cur_locks ts) < 2 ^ 64)%Z ->
  locks td <> [] -> cur_locks td <> [] -> all_migrated td ->
  let im := stream_out ts in
  let td' := fst (stream_in c td im) in
  snd (stream_in c td im) = [RNone] /\
  cur td' = {| bhp := bhp (cur ts); bsl := bsl (cur ts); bdead := false |} /\
  (forall b s, bget (cur td') b s = bget (cur ts) b s) /\
  (forall k v, holds (cur td') k v <-> holds (cur ts) k v) /\
  hashpower td' = hashpower ts /\ mlfn td' = mlfn ts /\ mlfd td' = mlfd ts /\ mhp td' = mhp ts /\
  tsize td' = tsize ts /\ settled c hash td' /\ counted c td' /\ rc td' = wrap64 (rc td + 1) /\
  old td' = old td /\ nrem td' = nrem td /\ workers td' = workers td /\
  length (cur_locks td') = Nat.max (length (cur_locks td)) (N.to_nat (N.min (kmax c) (2 ^ bhp (cur ts)))) /\
  ((length (cur_locks td) <= N.to_nat (kmax c))%nat -> (length (cur_locks td') <= N.to_nat (kmax c))%nat).
Proof. exact stream_roundtrip. Qed.
Print Assumptions C12_stream_roundtrip.

(* ---- the extracted table is a fully working table (StreamGood.v): it satisfies the invariants of the refinement theorems, so every later operation - in locked and normal mode, with expansions - behaves as on the abstract map the source held ---- *)
From LC Require Import Refine LazyRefine StreamGood.
Theorem C12_extracted_table_is_well_formed :
  forall (c : config) (hash : N -> N),
  cfg_ok c ->
  forall ts td : table,
  good c hash ts ->
  (0 <= sum_cnt (cur_locks ts) < 2 ^ 64)%Z ->
  locks td <> [] ->
  cur_locks td <> [] ->
  all_migrated td ->
  (length (cur_locks td) <= N.to_nat (kmax c))%nat ->
  let td' := fst (stream_in c td (stream_out ts)) in
  good c hash td' /\
  lgood c hash td' /\
  (forall (k : N) (v : Z), holds (cur td') k v <-> holds (cur ts) k v) /\
  (forall (k : N) (v : Z), lholds c td' k v <-> holds (cur ts) k v) /\
  mlfn td' = mlfn ts /\
  mlfd td' = mlfd ts /\
  mhp td' = mhp ts /\ workers td' = workers td /\ tsize td' = tsize ts /\ bhp (cur td') = bhp (cur ts).
Proof. exact stream_in_good. Qed.
Print Assumptions C12_extracted_table_is_well_formed.

Theorem C12_operations_after_extraction_refine_the_source_contents :
  forall (c : config) (hash : N -> N),
  cfg_ok c ->
  forall (ts td : table) (m : amap) (fapply : fnk -> Z -> bool -> Z * bool)
  (w : world) (a : nat) (s : tslot) (o : op) (w' : world) (r : out),
  nothrow c = true ->
  good c hash ts ->
  (0 <= sum_cnt (cur_locks ts) < 2 ^ 64)%Z ->
  locks td <> [] ->
  cur_locks td <> [] ->
  all_migrated td ->
  (length (cur_locks td) <= N.to_nat (kmax c))%nat ->
  (forall (k : N) (v : Z), holds (cur ts) k v <-> m k = Some v) ->
  tb s = fst (stream_in c td (stream_out ts)) ->
  active s = false ->
  normal_op o = true ->
  op_pre c (tb s) o ->
  step_some c hash fapply w a s o = (w', r) ->
  lesc c hash (tb s) \/
  (exists (t' : table) (m' : amap),
  w' = put_t w a s t' /\
  lgood c hash t' /\ lim_same (tb s) t' /\ rep c t' m' /\ op_spec c fapply (tb s) m o r m').
Proof. exact stream_in_then_operation_refines. Qed.
Print Assumptions C12_operations_after_extraction_refine_the_source_contents.

(* ---- a stream image that does not fit is rejected; raw round trip ---- *)
From LC Require Import Stream.
Theorem C12_stream_in_rejects :
  forall (c : config) (ts td : table),
  mhp ts < hashpower ts ->
  snd (stream_in c td (stream_out ts)) = exn_out EInvalidArgument /\
  cur (fst (stream_in c td (stream_out ts))) = reloaded (cur ts) /\
  rc (fst (stream_in c td (stream_out ts))) = rc td.
Proof. exact stream_in_rejects. Qed.
Print Assumptions C12_stream_in_rejects.

Theorem C12_stream_roundtrip_raw :
  forall (c : config) (ts td : table),
  hashpower ts <= mhp ts ->
  locks td <> [] ->
  cur_locks td <> [] ->
  let td' := fst (stream_in c td (stream_out ts)) in
  snd (stream_in c td (stream_out ts)) = [RNone] /\
  cur td' = reloaded (cur ts) /\
  mlfn td' = mlfn ts /\
  mlfd td' = mlfd ts /\ mhp td' = mhp ts /\ tsize td' = tsize ts /\ rc td' = wrap64 (rc td + 1).
Proof. exact stream_roundtrip_raw. Qed.
Print Assumptions C12_stream_roundtrip_raw.

(* ---- order of effects of the extraction (Effects.v) ---- *)
From LC Require Import gen.EffectOrder Effects.
Theorem C12_extraction_order_consistent :
  consistent_order stream_in_effects = true.
Proof. exact stream_in_order_consistent. Qed.
Print Assumptions C12_extraction_order_consistent.
