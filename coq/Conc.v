(* L2: the lock / snapshot protocol of libcuckoo as an interleaving transition system.
   One step per synchronisation event (exactly the events the guarded hooks in
   cuckoohash_map.hh report): lock request / acquire / release, loads and stores of the
   bucket-array hashpower, loads and the increment of the resize counter, reads of the lock
   list tail, publication of a new lock array.  Data accesses inside critical sections are not
   events here: theorem [validated_current] (ConcInv.v) shows they happen under locks of the
   current array with a current size snapshot and with no whole-table operation in progress.

   Everything data-dependent (which stripes, how many displacement episodes, whether a resize
   is needed, the values stored) is nondeterministic: the threads of the model can do at least
   everything the code can do, so invariants proved for all runs of the model hold for the code
   as long as every real event trace replays in the model (checked by the T2 harness through
   the extracted [replay]).  Definitions only. *)
From Coq Require Import NArith List Bool Arith Lia.
Import ListNotations.

Definition tid := nat.

(* ---------------------------------------------------------------- shared protocol state *)
Record shared := {
  g_hp : N;                                (* hashpower of the current bucket array (the table size) *)
  g_rc : N;                                (* resize counter (generation) *)
  g_arrs : list nat;                       (* sizes of the lock arrays, oldest first; current = last *)
  g_held : nat -> nat -> option tid;       (* array, stripe -> owner *)
  (* ghost (never read by a thread): values at the last generation bump, and whether the
     size / lock list has been written since *)
  g_hp0 : N;
  g_narr0 : nat;
  g_dirty : bool
}.

Definition narr (g : shared) : nat := length (g_arrs g).
Definition asz (g : shared) (a : nat) : nat := nth a (g_arrs g) 0.

Record snap := { sc : N; sh : N }.

(* what a thread may do once it holds no lock of a finished episode *)
Inductive tstate :=
| Idle                                                  (* between operations: holds nothing *)
| S0                                                    (* fresh snapshot: about to load the generation *)
| S1 (c0 : N)                                           (* generation loaded, about to load the size *)
| E0 (sn : snap)                                        (* about to read the current lock array *)
| E1 (sn : snap) (sa : nat)                             (* about to request the first stripe *)
| EW (sn : snap) (sa l : nat)                           (* waiting for first stripe (sa,l) *)
| EC (sn : snap) (sa l : nat)                           (* holds (sa,l); about to re-load the generation *)
| EF (sa l : nat)                                       (* check failed: holds (sa,l), must release it *)
| CS (sn : snap) (sa : nat) (got : list nat)            (* validated; holds stripes [got] of array sa (head = largest) *)
| CW (sn : snap) (sa : nat) (got : list nat) (l : nat)  (* validated; waiting for a further stripe l > all of got *)
| A0                                                    (* whole-table operation: about to read the list tail *)
| AR (first a i : nat)                                  (* requesting (a,i); holds all of arrays first..a-1 and (a,0..i-1) *)
| AN (first a : nat)                                    (* holds arrays first..a entirely; about to look for a next array *)
| AH (first : nat) (d : bool)                           (* holds every lock of arrays first..end; d = has written since last bump *)
| AU (first last a i : nat).                            (* releasing: (a,i) is next; still holds (a,i..) and arrays a+1..last
                                                           (last = the newest array when the release started) *)

Inductive label :=
| LD_RC (v : N) | LD_HP (v : N) | CURLOCKS (a : nat)
| LOCKREQ (a l : nat) | LOCKED (a l : nat) | UNLOCK (a l : nat)
| ST_HP (v : N) | EMPLACE (n : nat) | FA_RC
| ALL_FIRST (a : nat) | ALL_NEXT (more : bool)
| NEXT (what : nat)        (* internal choice after the last unlock: 0 Idle, 1 fresh snapshot, 2 carried snapshot, 3 whole-table *)
| BEGIN (what : nat).      (* operation start from Idle: 1 stripe operation, 3 whole-table operation *)

Definition set_held (g : shared) (a l : nat) (o : option tid) : shared :=
  {| g_hp := g_hp g; g_rc := g_rc g; g_arrs := g_arrs g;
     g_held := fun a' l' => if Nat.eqb a a' && Nat.eqb l l' then o else g_held g a' l';
     g_hp0 := g_hp0 g; g_narr0 := g_narr0 g; g_dirty := g_dirty g |}.

Definition max_got (got : list nat) : option nat := match got with [] => None | x :: _ => Some x end.

Definition after_release (what : nat) (sn : snap) : option tstate :=
  match what with
  | 0 => Some Idle | 1 => Some S0 | 2 => Some (E0 sn) | 3 => Some A0 | _ => None
  end.

(* One step of thread [me] in state [ts] with label [lb]: new shared state and thread state, or
   None if the step is not possible (wrong label for the state, lock not free, value mismatch). *)
Definition tstep (me : tid) (g : shared) (ts : tstate) (lb : label) : option (shared * tstate) :=
  match ts, lb with
  | Idle, BEGIN 1 => Some (g, S0)
  | Idle, BEGIN 3 => Some (g, A0)
  | S0, LD_RC v => if N.eqb v (g_rc g) then Some (g, S1 v) else None
  | S1 c0, LD_HP v => if N.eqb v (g_hp g) then Some (g, E0 {| sc := c0; sh := v |}) else None
  | E0 sn, CURLOCKS a => if Nat.eqb (S a) (narr g) then Some (g, E1 sn a) else None
  | E1 sn sa, LOCKREQ a l => if Nat.eqb a sa && Nat.ltb l (asz g sa) then Some (g, EW sn sa l) else None
  | EW sn sa l, LOCKED a l' =>
      if Nat.eqb a sa && Nat.eqb l l' then
        match g_held g sa l with
        | None => Some (set_held g sa l (Some me), EC sn sa l)
        | Some _ => None
        end
      else None
  | EC sn sa l, LD_RC v =>
      if N.eqb v (g_rc g) then
        if N.eqb v (sc sn) then Some (g, CS sn sa [l]) else Some (g, EF sa l)
      else None
  | EF sa l, UNLOCK a l' => if Nat.eqb a sa && Nat.eqb l l' then Some (set_held g sa l None, S0) else None
  | CS sn sa got, LOCKREQ a l =>
      if Nat.eqb a sa && Nat.ltb l (asz g sa) &&
         match max_got got with Some m => Nat.ltb m l | None => false end
      then Some (g, CW sn sa got l) else None
  | CW sn sa got l, LOCKED a l' =>
      if Nat.eqb a sa && Nat.eqb l l' then
        match g_held g sa l with
        | None => Some (set_held g sa l (Some me), CS sn sa (l :: got))
        | Some _ => None
        end
      else None
  (* loads performed while validated (run_cuckoo, cuckoo_insert_loop): a carried snapshot *)
  | CS sn sa (x :: r), LD_HP v => if N.eqb v (g_hp g) then Some (g, CS {| sc := sc sn; sh := v |} sa (x :: r)) else None
  | CS sn sa (x :: r), LD_RC v => if N.eqb v (g_rc g) then Some (g, CS {| sc := v; sh := sh sn |} sa (x :: r)) else None
  | CS sn sa (x :: r), CURLOCKS a => if Nat.eqb (S a) (narr g) then Some (g, CS sn sa (x :: r)) else None
  | CS sn sa got, UNLOCK a l =>
      if Nat.eqb a sa && existsb (Nat.eqb l) got then
        Some (set_held g sa l None, CS sn sa (filter (fun x => negb (Nat.eqb l x)) got))
      else None
  | CS sn sa [], NEXT w => match after_release w sn with Some ts' => Some (g, ts') | None => None end
  (* cuckoo_rehash / cuckoo_reserve read the size once, unsynchronised, to return early *)
  | A0, LD_HP v => if N.eqb v (g_hp g) then Some (g, A0) else None
  | A0, NEXT 0 => Some (g, Idle)
  | A0, ALL_FIRST a => if Nat.eqb (S a) (narr g) then Some (g, AR a a 0) else None
  | AR first a i, LOCKREQ a' i' => if Nat.eqb a a' && Nat.eqb i i' && Nat.ltb i (asz g a) then Some (g, AR first a i) else None
  | AR first a i, LOCKED a' i' =>
      if Nat.eqb a a' && Nat.eqb i i' && Nat.ltb i (asz g a) then
        match g_held g a i with
        | None => Some (set_held g a i (Some me), if Nat.eqb (S i) (asz g a) then AN first a else AR first a (S i))
        | Some _ => None
        end
      else None
  | AN first a, ALL_NEXT more =>
      if Nat.eqb (S a) (narr g) then (if more then None else Some (g, AH first false))
      else (if more then Some (g, AR first (S a) 0) else None)
  (* mutations under all locks *)
  | AH first d, ST_HP v =>
      Some ({| g_hp := v; g_rc := g_rc g; g_arrs := g_arrs g; g_held := g_held g;
               g_hp0 := g_hp0 g; g_narr0 := g_narr0 g; g_dirty := true |}, AH first true)
  | AH first d, EMPLACE n =>
      if Nat.ltb 0 n then
        let a := narr g in
        Some ({| g_hp := g_hp g; g_rc := g_rc g; g_arrs := g_arrs g ++ [n];
                 g_held := fun a' l' => if Nat.eqb a a' then (if Nat.ltb l' n then Some me else None) else g_held g a' l';
                 g_hp0 := g_hp0 g; g_narr0 := g_narr0 g; g_dirty := true |}, AH first true)
      else None
  | AH first d, FA_RC =>
      Some ({| g_hp := g_hp g; g_rc := N.succ (g_rc g); g_arrs := g_arrs g; g_held := g_held g;
               g_hp0 := g_hp g; g_narr0 := narr g; g_dirty := false |}, AH first false)
  | AH first d, LD_HP v => if N.eqb v (g_hp g) then Some (g, AH first d) else None
  | AH first d, LD_RC v => if N.eqb v (g_rc g) then Some (g, AH first d) else None
  | AH first d, CURLOCKS a => if Nat.eqb (S a) (narr g) then Some (g, AH first d) else None
  (* release: only with no unpublished write (the generation was bumped after the last one) *)
  | AH first false, UNLOCK a l =>
      if Nat.eqb a first && Nat.eqb l 0 then
        Some (set_held g a 0 None, AU first (narr g - 1) a 1)
      else None
  | AU first last a i, UNLOCK a' i' =>
      if Nat.ltb i (asz g a) then
        (if Nat.eqb a a' && Nat.eqb i i' then Some (set_held g a i None, AU first last a (S i)) else None)
      else
        (* array a finished: continue with a+1 up to the array that was last when the release started *)
        (if Nat.ltb a last then
           (if Nat.eqb (S a) a' && Nat.eqb 0 i' then Some (set_held g (S a) 0 None, AU first last (S a) 1) else None)
         else None)
  | AU first last a i, NEXT w =>
      if negb (Nat.ltb i (asz g a)) && negb (Nat.ltb a last) then
        match w with 0 => Some (g, Idle) | 1 => Some (g, S0) | _ => None end
      else None
  | _, _ => None
  end.

(* ---------------------------------------------------------------- global system *)
Record gstate := { sh_ : shared; thr : tid -> tstate }.

Definition upd_thr (f : tid -> tstate) (t : tid) (s : tstate) : tid -> tstate :=
  fun t' => if Nat.eqb t t' then s else f t'.

Definition gstep (s : gstate) (t : tid) (lb : label) : option gstate :=
  match tstep t (sh_ s) (thr s t) lb with
  | Some (g', ts') => Some {| sh_ := g'; thr := upd_thr (thr s) t ts' |}
  | None => None
  end.

(* initial state: a quiescent table (any hashpower, generation and list of lock arrays),
   nothing held, every thread idle *)
Definition ginit (hp0 rc0 : N) (arrs0 : list nat) : gstate :=
  {| sh_ := {| g_hp := hp0; g_rc := rc0; g_arrs := arrs0; g_held := fun _ _ => None;
               g_hp0 := hp0; g_narr0 := length arrs0; g_dirty := false |};
     thr := fun _ => Idle |}.

(* lock arrays are never empty *)
Definition arrs_ok (arrs0 : list nat) : Prop := arrs0 <> [] /\ Forall (fun n => 0 < n) arrs0.

(* replay of an event trace (used by the T2 harness on traces of the real library) *)
Fixpoint replay (s : gstate) (tr : list (tid * label)) : option gstate :=
  match tr with
  | [] => Some s
  | (t, lb) :: r => match gstep s t lb with Some s' => replay s' r | None => None end
  end.

Inductive reachable (hp0 rc0 : N) (arrs0 : list nat) : gstate -> Prop :=
| reach_init : reachable hp0 rc0 arrs0 (ginit hp0 rc0 arrs0)
| reach_step : forall s t lb s', reachable hp0 rc0 arrs0 s -> gstep s t lb = Some s' -> reachable hp0 rc0 arrs0 s'.

(* ---------------------------------------------------------------- notions used by the theorems *)
(* thread [t] holds lock (a,l) according to its own control state *)
Definition holds_lock (g : shared) (ts : tstate) (a l : nat) : Prop :=
  match ts with
  | EC _ sa l1 | EF sa l1 => a = sa /\ l = l1
  | CS _ sa got | CW _ sa got _ => a = sa /\ In l got
  | AR first a0 i => (first <= a /\ a < a0 /\ l < asz g a) \/ (a = a0 /\ l < i)
  | AN first a0 => first <= a /\ a <= a0 /\ l < asz g a
  | AH first _ => first <= a /\ a < narr g /\ l < asz g a
  | AU first last a0 i => (a = a0 /\ i <= l /\ l < asz g a) \/ (a0 < a /\ a <= last /\ l < asz g a)
  | _ => False
  end.

(* a thread that passed its generation check and is inside (or extending) a critical section *)
Definition validated (ts : tstate) : Prop :=
  match ts with CS _ _ (_ :: _) | CW _ _ (_ :: _) _ => True | _ => False end.

Definition all_holder (ts : tstate) : Prop :=
  match ts with AH _ _ => True | _ => False end.

Definition waiting_for (g : shared) (ts : tstate) : option (nat * nat) :=
  match ts with
  | EW _ sa l => Some (sa, l)
  | CW _ sa _ l => Some (sa, l)
  | AR _ a i => Some (a, i)
  | _ => None
  end.
