(* MemModel.v - theorems about the happens-before model of MemDefs.v: the memory orders written in the
   source (gen/MemOrders.v, regenerated from the C++ on every run) are sufficient - and necessary - for
   data-race freedom of lock-protected data and of the deferred-migration deallocation.  If somebody
   weakens e.g. memory_order_release in spinlock::unlock to relaxed, the regenerated [sites] no longer
   satisfies [source_orders_sufficient], this file stops compiling, and [weak_lock_orders_race] /
   the extracted detector [races] exhibit a racy execution. *)
From Coq Require Import String.
From Coq Require Import List Bool Arith Lia.
From LC.gen Require Import MemOrders.
From LC Require Import MemDefs.
Import ListNotations.

Set Implicit Arguments.

(* ------------------------------------------------------------------ *)
(** * 4. Results obtained by computation: T5, T2, T4 *)

(** T5: the orders written in the source are sufficient. *)
Theorem source_orders_sufficient :
  exists o, orders_of_sites sites = Some o /\
            is_acq (o_tas o) = true /\ is_rel (o_clr o) = true /\
            is_acq (o_dec o) = true /\ is_rel (o_dec o) = true.
Proof.
  eexists. vm_compute.
  (* fails with "Unable to unify true with false" if a site has been weakened *)
  repeat split; reflexivity.
Qed.

Lemma source_orders_eq : orders_of_sites sites = Some source_orders.
Proof. vm_compute. reflexivity. Qed.

Lemma source_orders_flags :
  is_acq (o_tas source_orders) = true /\ is_rel (o_clr source_orders) = true /\
  is_acq (o_dec source_orders) = true /\ is_rel (o_dec source_orders) = true.
Proof. vm_compute. repeat split. Qed.

(* sanity: a site list with a weakened unlock is rejected by the premise *)
Example weakened_unlock_detected :
  let s := map (fun x => if String.eqb (fst (fst x)) "unlock"%string then (fst x, [Relaxed]) else x) sites in
  match orders_of_sites s with
  | Some o => is_rel (o_clr o) = false
  | None => False
  end.
Proof. vm_compute. reflexivity. Qed.

Definition two_cs : exec := [Tas 0 0; Wr 0 0; Clr 0 0; Tas 1 0; Wr 1 0; Clr 1 0].

(** T2: the lock orders are necessary. *)
Theorem weak_lock_orders_race : forall o,
  is_acq (o_tas o) && is_rel (o_clr o) = false ->
  exists prot e, wf_locks e = true /\ protected_by prot e = true /\ races o e <> [].
Proof.
  intros o H. exists (fun _ => 0), two_cs.
  destruct o as [a b c]; cbn [o_tas o_clr] in H.
  destruct a, b; try discriminate H; destruct c; vm_compute; repeat split; discriminate.
Qed.

Example two_cs_race_free_with_source_orders : races source_orders two_cs = [].
Proof. vm_compute. reflexivity. Qed.

Example two_cs_racy_with_relaxed_unlock :
  races {| o_tas := AcqRel; o_clr := Relaxed; o_dec := AcqRel |} two_cs = [(1, 4)].
Proof. vm_compute. reflexivity. Qed.

Definition dec_witness : exec := [Rd 0 0; Dec 0; Dec 1; Wr 1 0].

(** T4: acq_rel on the decrement is necessary. *)
Theorem weak_decrement_race : forall o,
  is_acq (o_dec o) && is_rel (o_dec o) = false ->
  races o dec_witness = [(0, 3)].
Proof.
  intros o H. destruct o as [a b c]; cbn [o_dec] in H.
  destruct c; try discriminate H; destruct a, b; vm_compute; reflexivity.
Qed.

Example dec_witness_race_free_with_source_orders : races source_orders dec_witness = [].
Proof. vm_compute. reflexivity. Qed.

(* ------------------------------------------------------------------ *)
(** * 5. Inductive happens-before, and its equivalence with [hb_b] *)

Definition po (e : exec) (i j : nat) : Prop :=
  i < j /\ exists a b, nth_error e i = Some a /\ nth_error e j = Some b /\ tid a = tid b.

Definition sw (o : orders) (e : exec) (i j : nat) : Prop :=
  i < j /\
  ((sync_lock o = true /\ exists t t' lk,
      nth_error e i = Some (Clr t lk) /\ nth_error e j = Some (Tas t' lk) /\
      forall k c, i < k -> k < j -> nth_error e k = Some c -> mods lk c = false)
   \/
   (sync_dec o = true /\ exists t t',
      nth_error e i = Some (Dec t) /\ nth_error e j = Some (Dec t'))).

Inductive hb (o : orders) (e : exec) : nat -> nat -> Prop :=
| hb_po i j : po e i j -> hb o e i j
| hb_sw i j : sw o e i j -> hb o e i j
| hb_trans i k j : hb o e i k -> hb o e k j -> hb o e i j.

Lemma hb_lt o e i j : hb o e i j -> i < j.
Proof.
  induction 1 as [i j [H _]|i j [H _]|i k j _ IH1 _ IH2]; lia.
Qed.

(** ** bool-list sets *)

Lemma nth_nil_false i : nth i (@nil bool) false = false.
Proof. destruct i; reflexivity. Qed.

Lemma nth_orl a : forall b i, nth i (orl a b) false = nth i a false || nth i b false.
Proof.
  induction a as [|x a IH]; intros b i.
  - cbn [orl]. rewrite nth_nil_false. reflexivity.
  - destruct b as [|y b].
    + cbn [orl]. rewrite nth_nil_false, orb_false_r. reflexivity.
    + cbn [orl]. destruct i; cbn [nth]; auto.
Qed.

Lemma nth_single k : forall i, nth i (single k) false = (i =? k).
Proof.
  induction k as [|k IH]; intros [|i]; cbn [single nth Nat.eqb]; auto.
  apply nth_nil_false.
Qed.

Lemma nth_row_of ds i :
  nth i (row_of ds) false = true <->
  exists d row, In (d, row) ds /\ (i = d \/ nth i row false = true).
Proof.
  induction ds as [|[d row] ds IH].
  - cbn [row_of fold_right]. rewrite nth_nil_false. split; [discriminate|].
    intros (d & row & [] & _).
  - cbn [row_of fold_right]. fold (row_of ds). cbn [fst snd].
    rewrite !nth_orl, nth_single, !orb_true_iff, IH, Nat.eqb_eq. split.
    + intros [[H|H]|(d' & row' & Hin & H)].
      * exists d, row. split; [left; reflexivity|auto].
      * exists d, row. split; [left; reflexivity|auto].
      * exists d', row'. split; [right; assumption|auto].
    + intros (d' & row' & [Heq|Hin] & H).
      * injection Heq as <- <-. destruct H; auto.
      * right. exists d', row'. auto.
Qed.

(** ** structure of [hbrows] *)

Lemma rrows_length o re : length (rrows o re) = length re.
Proof. induction re as [|a re IH]; cbn [rrows length]; auto. Qed.

Lemma hbrows_length o e : length (hbrows o e) = length e.
Proof. unfold hbrows. rewrite rev_length, rrows_length, rev_length. reflexivity. Qed.

Definition last_row (o : orders) (pre : list ev) (a : ev) : list bool :=
  row_of (dpreds o (rev pre) (rrows o (rev pre)) a).

Lemma hbrows_snoc o pre a : hbrows o (pre ++ [a]) = hbrows o pre ++ [last_row o pre a].
Proof. unfold hbrows, last_row. rewrite rev_unit. cbn [rrows rev]. reflexivity. Qed.

Lemma hbrows_app o pre rest : exists Y, hbrows o (pre ++ rest) = hbrows o pre ++ Y.
Proof.
  induction rest as [|x rest IH] using rev_ind.
  - exists []. rewrite !app_nil_r. reflexivity.
  - destruct IH as [Y HY]. exists (Y ++ [last_row o (pre ++ rest) x]).
    rewrite app_assoc, hbrows_snoc, HY, app_assoc. reflexivity.
Qed.

Lemma hb_b_prefix o pre rest i d :
  d < length pre -> hb_b o (pre ++ rest) i d = hb_b o pre i d.
Proof.
  intros H. unfold hb_b. destruct (hbrows_app o pre rest) as [Y ->].
  rewrite app_nth1; auto. rewrite hbrows_length; auto.
Qed.

Lemma hbrows_nth_mid o pre a rest :
  nth (length pre) (hbrows o (pre ++ a :: rest)) [] = last_row o pre a.
Proof.
  replace (pre ++ a :: rest) with ((pre ++ [a]) ++ rest)
    by (rewrite <- app_assoc; reflexivity).
  destruct (hbrows_app o (pre ++ [a]) rest) as [Y ->].
  rewrite hbrows_snoc, <- app_assoc.
  rewrite app_nth2; rewrite hbrows_length; [|lia].
  rewrite Nat.sub_diag. reflexivity.
Qed.

Lemma hb_b_in_range o e i j : hb_b o e i j = true -> j < length e.
Proof.
  unfold hb_b. intros H. destruct (Nat.lt_ge_cases j (length e)) as [|Hge]; auto.
  rewrite (nth_overflow (hbrows o e)) in H by (rewrite hbrows_length; lia).
  rewrite nth_nil_false in H. discriminate.
Qed.

Lemma split_at (e : exec) j :
  j < length e -> exists pre a rest, e = pre ++ a :: rest /\ length pre = j.
Proof.
  intros H. destruct (nth_error e j) as [a|] eqn:E.
  - destruct (nth_error_split _ _ E) as (l1 & l2 & -> & Hl). exists l1, a, l2. auto.
  - apply nth_error_None in E. lia.
Qed.

Lemma nth_error_mid (pre : list ev) a rest : nth_error (pre ++ a :: rest) (length pre) = Some a.
Proof. rewrite nth_error_app2, Nat.sub_diag by lia. reflexivity. Qed.

Lemma nth_error_pre (pre : list ev) rest k :
  k < length pre -> nth_error (pre ++ rest) k = nth_error pre k.
Proof. intros H. apply nth_error_app1; auto. Qed.

Lemma nth_error_lt (l : list ev) k x : nth_error l k = Some x -> k < length l.
Proof. intros H. apply nth_error_Some. congruence. Qed.

(** ** [find_back] finds the LAST event satisfying p, and its row *)

Lemma find_back_spec o p pre :
  match find_back p (rev pre) (rrows o (rev pre)) with
  | Some (d, x, row) =>
      nth_error pre d = Some x /\ p x = true /\ row = nth d (hbrows o pre) [] /\
      forall k y, d < k -> nth_error pre k = Some y -> p y = false
  | None => forall k y, nth_error pre k = Some y -> p y = false
  end.
Proof.
  induction pre as [|a pre IH] using rev_ind.
  - cbn. intros [|k] y H; discriminate.
  - rewrite rev_unit. cbn [rrows find_back]. fold (last_row o pre a).
    assert (Hlast : forall k y, length pre <= k ->
                    nth_error (pre ++ [a]) k = Some y -> k = length pre /\ y = a).
    { intros k y Hk Hn. pose proof (nth_error_lt _ _ Hn) as Hl.
      rewrite app_length in Hl. cbn in Hl. assert (k = length pre) by lia. subst k.
      rewrite nth_error_mid in Hn. injection Hn as <-. auto. }
    destruct (p a) eqn:Hpa.
    + rewrite rev_length. split; [apply nth_error_mid|]. split; [assumption|]. split.
      * rewrite hbrows_snoc, app_nth2; rewrite hbrows_length; [|lia].
        rewrite Nat.sub_diag. reflexivity.
      * intros k y Hk Hn. destruct (Hlast k y) as [Hk' _]; [lia|assumption|lia].
    + destruct (find_back p (rev pre) (rrows o (rev pre))) as [[[d x] row]|].
      * destruct IH as (H1 & H2 & H3 & H4).
        pose proof (nth_error_lt _ _ H1) as Hd.
        split; [rewrite nth_error_pre; assumption|]. split; [assumption|]. split.
        -- rewrite hbrows_snoc, app_nth1; [assumption|rewrite hbrows_length; assumption].
        -- intros k y Hk Hn. destruct (Nat.lt_ge_cases k (length pre)) as [Hlt|Hge].
           ++ rewrite nth_error_pre in Hn by assumption. eauto.
           ++ destruct (Hlast k y Hge Hn) as [_ ->]. assumption.
      * intros k y Hn. destruct (Nat.lt_ge_cases k (length pre)) as [Hlt|Hge].
        -- rewrite nth_error_pre in Hn by assumption. eauto.
        -- destruct (Hlast k y Hge Hn) as [_ ->]. assumption.
Qed.

(** ** direct predecessors *)

Definition dp (o : orders) (pre : list ev) (a : ev) : list nat :=
  map fst (dpreds o (rev pre) (rrows o (rev pre)) a).

Lemma dpreds_rows o pre a d row :
  In (d, row) (dpreds o (rev pre) (rrows o (rev pre)) a) ->
  d < length pre /\ row = nth d (hbrows o pre) [].
Proof.
  unfold dpreds. intros H. apply in_app_or in H. destruct H as [H|H].
  - pose proof (find_back_spec o (fun b => tid b =? tid a) pre) as S.
    destruct (find_back _ (rev pre) (rrows o (rev pre))) as [[[d' x] row']|]; [|destruct H].
    destruct H as [H|[]]. injection H as <- <-. destruct S as (S1 & _ & S3 & _).
    split; [eapply nth_error_lt; eassumption|assumption].
  - destruct a as [t lk|t lk|t|t x|t x]; try destruct H.
    + destruct (sync_lock o); [|destruct H].
      pose proof (find_back_spec o (mods lk) pre) as S.
      destruct (find_back _ (rev pre) (rrows o (rev pre))) as [[[d' x] row']|]; [|destruct H].
      destruct x as [t0 l0|t0 l0|t0|t0 x0|t0 x0]; try (destruct H; fail).
      destruct H as [H|[]]. injection H as <- <-. destruct S as (S1 & _ & S3 & _).
      split; [eapply nth_error_lt; eassumption|assumption].
    + destruct (sync_dec o); [|destruct H].
      pose proof (find_back_spec o is_dec pre) as S.
      destruct (find_back _ (rev pre) (rrows o (rev pre))) as [[[d' x] row']|]; [|destruct H].
      destruct H as [H|[]]. injection H as <- <-. destruct S as (S1 & _ & S3 & _).
      split; [eapply nth_error_lt; eassumption|assumption].
Qed.

(** the unfolding equation of [hb_b] *)
Lemma hb_b_unfold o pre a rest i :
  hb_b o (pre ++ a :: rest) i (length pre) = true <->
  exists d, In d (dp o pre a) /\ (i = d \/ hb_b o (pre ++ a :: rest) i d = true).
Proof.
  unfold hb_b at 1. rewrite hbrows_nth_mid. unfold last_row. rewrite nth_row_of.
  unfold dp. split.
  - intros (d & row & Hin & H). exists d. split.
    + apply in_map_iff. exists (d, row). auto.
    + destruct (dpreds_rows _ _ _ _ _ Hin) as [Hlt ->]. destruct H as [H|H]; auto.
      right. rewrite hb_b_prefix by assumption. exact H.
  - intros (d & Hin & H). apply in_map_iff in Hin.
    destruct Hin as ([d' row] & Heq & Hin). cbn in Heq. subst d'.
    exists d, row. split; auto.
    destruct (dpreds_rows _ _ _ _ _ Hin) as [Hlt ->]. destruct H as [H|H]; auto.
    right. rewrite hb_b_prefix in H by assumption. exact H.
Qed.

Lemma dpreds_cases o pre a d row :
  In (d, row) (dpreds o (rev pre) (rrows o (rev pre)) a) ->
  (exists x, nth_error pre d = Some x /\ tid x = tid a) \/
  (sync_lock o = true /\ exists t' lk t,
      a = Tas t' lk /\ nth_error pre d = Some (Clr t lk) /\
      forall k y, d < k -> nth_error pre k = Some y -> mods lk y = false) \/
  (sync_dec o = true /\ exists t' t, a = Dec t' /\ nth_error pre d = Some (Dec t)).
Proof.
  unfold dpreds. intros H. apply in_app_or in H. destruct H as [H|H].
  - left. pose proof (find_back_spec o (fun b => tid b =? tid a) pre) as S.
    destruct (find_back _ (rev pre) (rrows o (rev pre))) as [[[d' x] row']|]; [|destruct H].
    destruct H as [H|[]]. injection H as <- <-. destruct S as (S1 & S2 & _ & _).
    exists x. split; [assumption|]. apply Nat.eqb_eq. exact S2.
  - right. destruct a as [t lk|t lk|t|t x|t x]; try (destruct H; fail).
    + left. destruct (sync_lock o); [|destruct H]. split; [reflexivity|].
      pose proof (find_back_spec o (mods lk) pre) as S.
      destruct (find_back _ (rev pre) (rrows o (rev pre))) as [[[d' x] row']|]; [|destruct H].
      destruct x as [t0 l0|t0 l0|t0|t0 x0|t0 x0]; try (destruct H; fail).
      destruct H as [H|[]]. injection H as <- <-. destruct S as (S1 & S2 & _ & S4).
      cbn [mods] in S2. apply Nat.eqb_eq in S2. subst l0.
      exists t, lk, t0. auto.
    + right. destruct (sync_dec o); [|destruct H]. split; [reflexivity|].
      pose proof (find_back_spec o is_dec pre) as S.
      destruct (find_back _ (rev pre) (rrows o (rev pre))) as [[[d' x] row']|]; [|destruct H].
      destruct H as [H|[]]. injection H as <- <-. destruct S as (S1 & S2 & _ & _).
      destruct x; try discriminate S2. eauto.
Qed.

Lemma dp_lt o pre a d : In d (dp o pre a) -> d < length pre.
Proof.
  unfold dp. intros H. apply in_map_iff in H. destruct H as ([d' row] & Heq & Hin).
  cbn in Heq. subst d'. apply (dpreds_rows _ _ _ _ _ Hin).
Qed.

(** every direct predecessor is a po- or sw-predecessor *)
Lemma dp_sound o pre a rest d :
  In d (dp o pre a) ->
  po (pre ++ a :: rest) d (length pre) \/ sw o (pre ++ a :: rest) d (length pre).
Proof.
  intros H. pose proof (dp_lt _ _ _ _ H) as Hlt. unfold dp in H.
  apply in_map_iff in H. destruct H as ([d' row] & Heq & Hin). cbn in Heq. subst d'.
  destruct (dpreds_cases _ _ _ _ _ Hin)
    as [(x & Hx & Ht)|[(Hs & t' & lk & t & -> & Hc & Hno)|(Hs & t' & t & -> & Hd)]].
  - left. split; [assumption|]. exists x, a.
    rewrite nth_error_pre by assumption. rewrite nth_error_mid. auto.
  - right. split; [assumption|]. left. split; [assumption|]. exists t, t', lk.
    rewrite nth_error_pre by assumption. rewrite nth_error_mid.
    split; [assumption|]. split; [reflexivity|].
    intros k c Hk1 Hk2 Hn. rewrite nth_error_pre in Hn by assumption. eauto.
  - right. split; [assumption|]. right. split; [assumption|]. exists t, t'.
    rewrite nth_error_pre by assumption. rewrite nth_error_mid. auto.
Qed.

(** conversely the direct predecessors dominate every po-/sw-predecessor *)
Lemma dp_po o pre a i x :
  nth_error pre i = Some x -> tid x = tid a ->
  exists d y, In d (dp o pre a) /\ i <= d /\ nth_error pre d = Some y /\ tid y = tid a.
Proof.
  intros Hi Ht. unfold dp, dpreds.
  pose proof (find_back_spec o (fun b => tid b =? tid a) pre) as S.
  destruct (find_back _ (rev pre) (rrows o (rev pre))) as [[[d' x'] row']|].
  - destruct S as (S1 & S2 & _ & S4). exists d', x'. split.
    + apply in_map_iff. exists (d', row'). split; [reflexivity|].
      apply in_or_app. left. left. reflexivity.
    + split; [|split; [assumption|apply Nat.eqb_eq; assumption]].
      destruct (Nat.lt_ge_cases d' i) as [Hlt|]; [|assumption].
      specialize (S4 i x Hlt Hi). cbn in S4. apply Nat.eqb_neq in S4. contradiction.
  - specialize (S i x Hi). cbn in S. apply Nat.eqb_neq in S. contradiction.
Qed.

Lemma dp_clr o pre t' lk t i :
  sync_lock o = true ->
  nth_error pre i = Some (Clr t lk) ->
  (forall k c, i < k -> nth_error pre k = Some c -> mods lk c = false) ->
  In i (dp o pre (Tas t' lk)).
Proof.
  intros Hs Hi Hno. unfold dp, dpreds. rewrite Hs.
  pose proof (find_back_spec o (mods lk) pre) as S.
  destruct (find_back (mods lk) (rev pre) (rrows o (rev pre))) as [[[d' x'] row']|].
  - destruct S as (S1 & S2 & _ & S4).
    assert (d' = i).
    { destruct (Nat.lt_trichotomy d' i) as [Hlt|[Heq|Hgt]]; [|assumption|].
      - specialize (S4 i _ Hlt Hi). cbn [mods] in S4. rewrite Nat.eqb_refl in S4. discriminate.
      - specialize (Hno d' _ Hgt S1). congruence. }
    subst d'. rewrite Hi in S1. injection S1 as <-.
    apply in_map_iff. exists (i, row'). split; [reflexivity|].
    apply in_or_app. right. left. reflexivity.
  - specialize (S i _ Hi). cbn [mods] in S. rewrite Nat.eqb_refl in S. discriminate.
Qed.

Lemma dp_dec o pre t' t i :
  sync_dec o = true ->
  nth_error pre i = Some (Dec t) ->
  exists d t'', In d (dp o pre (Dec t')) /\ i <= d /\ nth_error pre d = Some (Dec t'').
Proof.
  intros Hs Hi. unfold dp, dpreds. rewrite Hs.
  pose proof (find_back_spec o is_dec pre) as S.
  destruct (find_back is_dec (rev pre) (rrows o (rev pre))) as [[[d' x'] row']|].
  - destruct S as (S1 & S2 & _ & S4). destruct x' as [| |t''| |]; try discriminate S2.
    exists d', t''. split.
    + apply in_map_iff. exists (d', row'). split; [reflexivity|].
      apply in_or_app. right. left. reflexivity.
    + split; [|assumption].
      destruct (Nat.lt_ge_cases d' i) as [Hlt|]; [|assumption].
      specialize (S4 i _ Hlt Hi). discriminate.
  - specialize (S i _ Hi). discriminate.
Qed.

(** ** the equivalence *)

Lemma hb_b_sound o e : forall j i, hb_b o e i j = true -> hb o e i j.
Proof.
  induction j as [j IH] using lt_wf_ind. intros i H.
  pose proof (hb_b_in_range _ _ _ _ H) as Hj.
  destruct (split_at _ Hj) as (pre & a & rest & -> & <-).
  apply hb_b_unfold in H. destruct H as (d & Hd & H).
  pose proof (dp_lt _ _ _ _ Hd) as Hlt.
  assert (Hdj : hb o (pre ++ a :: rest) d (length pre)).
  { destruct (dp_sound o pre a rest d Hd); [apply hb_po|apply hb_sw]; assumption. }
  destruct H as [->|H]; [assumption|].
  eapply hb_trans; [|exact Hdj]. apply IH; assumption.
Qed.

Lemma hb_b_step o pre a rest i d :
  In d (dp o pre a) -> i = d \/ hb_b o (pre ++ a :: rest) i d = true ->
  hb_b o (pre ++ a :: rest) i (length pre) = true.
Proof. intros Hd H. apply hb_b_unfold. exists d. auto. Qed.

Lemma edge_hb_b o e : forall j i, po e i j \/ sw o e i j -> hb_b o e i j = true.
Proof.
  induction j as [j IH] using lt_wf_ind. intros i H.
  assert (Hj : j < length e).
  { destruct H as [(_ & a & b & _ & Hb & _)|(_ & [(_ & t & t' & lk & _ & Hb & _)|(_ & t & t' & _ & Hb)])];
      eapply nth_error_lt; eassumption. }
  destruct (split_at _ Hj) as (pre & a & rest & -> & <-).
  destruct H as [(Hij & x & b & Hx & Hb & Ht)|(Hij & [(Hs & t & t' & lk & Hc & Hb & Hno)|(Hs & t & t' & Hd & Hb)])];
    rewrite nth_error_mid in Hb; injection Hb as Hb;
    [subst b|subst a|subst a].
  - rewrite nth_error_pre in Hx by assumption.
    destruct (dp_po o pre a i Hx Ht) as (d & y & Hd & Hle & Hy & Hty).
    pose proof (dp_lt _ _ _ _ Hd) as Hlt.
    apply hb_b_step with (d := d); [assumption|].
    destruct (Nat.eq_dec i d) as [|Hne]; [left; assumption|right].
    apply IH; [assumption|]. left. split; [lia|]. exists x, y.
    rewrite !nth_error_pre by lia. split; [assumption|]. split; [assumption|]. congruence.
  - rewrite nth_error_pre in Hc by assumption.
    apply hb_b_step with (d := i); [|left; reflexivity].
    apply dp_clr with (t := t); try assumption.
    intros k c Hk Hn. pose proof (nth_error_lt _ _ Hn) as Hkl.
    apply (Hno k c Hk Hkl). rewrite nth_error_pre by assumption. exact Hn.
  - rewrite nth_error_pre in Hd by assumption.
    destruct (dp_dec o pre t' i Hs Hd) as (d & t'' & Hin & Hle & Hd').
    pose proof (dp_lt _ _ _ _ Hin) as Hlt.
    apply hb_b_step with (d := d); [assumption|].
    destruct (Nat.eq_dec i d) as [|Hne]; [left; assumption|right].
    apply IH; [assumption|]. right. split; [lia|]. right. split; [assumption|].
    exists t, t''. rewrite !nth_error_pre by lia. auto.
Qed.

Lemma hb_b_trans o e : forall j i k,
  hb_b o e i k = true -> hb_b o e k j = true -> hb_b o e i j = true.
Proof.
  induction j as [j IH] using lt_wf_ind. intros i k Hik Hkj.
  pose proof (hb_b_in_range _ _ _ _ Hkj) as Hj.
  destruct (split_at _ Hj) as (pre & a & rest & -> & <-).
  apply hb_b_unfold in Hkj. destruct Hkj as (d & Hd & H).
  pose proof (dp_lt _ _ _ _ Hd) as Hlt.
  apply hb_b_step with (d := d); [assumption|]. right.
  destruct H as [->|H]; [assumption|].
  apply IH with (k := k); assumption.
Qed.

Lemma hb_b_complete o e i j : hb o e i j -> hb_b o e i j = true.
Proof.
  induction 1 as [i j H|i j H|i k j _ IH1 _ IH2].
  - apply edge_hb_b. left. assumption.
  - apply edge_hb_b. right. assumption.
  - eapply hb_b_trans; eassumption.
Qed.

(** [hb_b] decides the inductive happens-before relation. *)
Theorem hb_b_iff o e i j : hb_b o e i j = true <-> hb o e i j.
Proof. split; [apply hb_b_sound|apply hb_b_complete]. Qed.

Lemma hb_b_lt o e i j : hb_b o e i j = true -> i < j /\ j < length e.
Proof.
  intros H. split; [|eapply hb_b_in_range; eassumption].
  apply hb_b_sound in H. eapply hb_lt; eassumption.
Qed.

Example hb_b_two_cs :
  hb_b {| o_tas := Acquire; o_clr := Release; o_dec := Relaxed |} two_cs 1 4 = true /\
  hb_b {| o_tas := Acquire; o_clr := Relaxed; o_dec := Relaxed |} two_cs 1 4 = false.
Proof. vm_compute. split; reflexivity. Qed.

(* ------------------------------------------------------------------ *)
(** * 6. Specification of the race detector *)

Lemma hd_nth0 (row : list bool) : hd false row = nth 0 row false.
Proof. destruct row; reflexivity. Qed.

Lemma nth_tl k (row : list bool) : nth k (tl row) false = nth (S k) row false.
Proof. destruct row; cbn [tl nth]; [apply nth_nil_false|reflexivity]. Qed.

Lemma in_scan_row j b : forall c i0 e row p q,
  In (p, q) (scan_row j b c i0 e row) <->
  q = j /\ exists k a, p = i0 + k /\ k < c /\ nth_error e k = Some a /\
                       conflict a b = true /\ nth k row false = false.
Proof.
  induction c as [|c IH]; intros i0 e row p q.
  - cbn [scan_row In]. split; [intros []|]. intros (_ & k & a & _ & Hk & _). lia.
  - destruct e as [|a e].
    + cbn [scan_row In]. split; [intros []|].
      intros (_ & k & a & _ & _ & Hn & _). destruct k; discriminate.
    + cbn [scan_row].
      assert (Hrest : In (p, q) (scan_row j b c (S i0) e (tl row)) <->
                q = j /\ exists k a', p = i0 + S k /\ S k < S c /\
                   nth_error (a :: e) (S k) = Some a' /\
                   conflict a' b = true /\ nth (S k) row false = false).
      { rewrite IH. split; intros (Hq & k & a' & Hp & Hk & Hn & Hc & Hr);
          (split; [assumption|]); exists k, a'.
        - rewrite nth_tl in Hr. cbn [nth_error]. repeat split; try assumption; lia.
        - rewrite nth_tl. cbn [nth_error] in Hn. repeat split; try assumption; lia. }
      destruct (conflict a b && negb (hd false row)) eqn:Hcond.
      * cbn [In]. rewrite Hrest. apply andb_prop in Hcond. destruct Hcond as [Hc0 Hr0].
        apply negb_true_iff in Hr0. rewrite hd_nth0 in Hr0. split.
        -- intros [Heq|(Hq & k & a' & H)].
           ++ injection Heq as <- <-. split; [reflexivity|]. exists 0, a.
              cbn [nth_error]. repeat split; try assumption; lia.
           ++ split; [assumption|]. exists (S k), a'. assumption.
        -- intros (Hq & [|k] & a' & Hp & Hk & Hn & Hc & Hr).
           ++ left. subst q. f_equal. lia.
           ++ right. split; [assumption|]. exists k, a'. auto.
      * rewrite Hrest. split.
        -- intros (Hq & k & a' & H). split; [assumption|]. exists (S k), a'. assumption.
        -- intros (Hq & [|k] & a' & Hp & Hk & Hn & Hc & Hr).
           ++ cbn [nth_error] in Hn. injection Hn as <-.
              rewrite Hc, hd_nth0, Hr in Hcond. discriminate.
           ++ split; [assumption|]. exists k, a'. auto.
Qed.

Lemma in_races_from eall : forall rest rows j0 p q,
  In (p, q) (races_from j0 eall rest rows) <->
  exists k b, q = j0 + k /\ nth_error rest k = Some b /\ k < length rows /\
              In (p, q) (scan_row q b q 0 eall (nth k rows [])).
Proof.
  induction rest as [|b rest IH]; intros rows j0 p q.
  - cbn [races_from In]. split; [intros []|].
    intros (k & b & _ & Hn & _). destruct k; discriminate.
  - destruct rows as [|row rows].
    + cbn [races_from In]. split; [intros []|].
      intros (k & b' & _ & _ & Hk & _). cbn in Hk. lia.
    + cbn [races_from]. rewrite in_app_iff, IH. split.
      * intros [H|(k & b' & Hq & Hn & Hk & H)].
        -- assert (q = j0) by (apply in_scan_row in H; tauto). subst q.
           exists 0, b. cbn [nth_error nth length]. repeat split; try assumption; lia.
        -- exists (S k), b'. cbn [nth_error nth length]. repeat split; try assumption; lia.
      * intros ([|k] & b' & Hq & Hn & Hk & H).
        -- left. cbn [nth_error] in Hn. injection Hn as <-. cbn [nth] in H.
           replace q with j0 in * by lia. assumption.
        -- right. exists k, b'. cbn [nth_error nth length] in *.
           repeat split; try assumption; lia.
Qed.

(** [races] lists exactly the pairs of conflicting accesses unordered by hb. *)
Theorem races_spec o e i j :
  In (i, j) (races o e) <->
  i < j /\ exists a b, nth_error e i = Some a /\ nth_error e j = Some b /\
                       conflict a b = true /\ hb_b o e i j = false.
Proof.
  unfold races. rewrite in_races_from. split.
  - intros (k & b & Hq & Hn & Hk & H). cbn in Hq. subst k.
    apply in_scan_row in H. destruct H as (_ & k & a & Hp & Hkj & Hna & Hc & Hr).
    cbn in Hp. subst k. split; [assumption|]. exists a, b. auto.
  - intros (Hij & a & b & Ha & Hb & Hc & Hr). exists j, b.
    split; [reflexivity|]. split; [assumption|]. split.
    + rewrite hbrows_length. eapply nth_error_lt; eassumption.
    + apply in_scan_row. split; [reflexivity|]. exists i, a. auto.
Qed.

Corollary races_unordered o e i j :
  In (i, j) (races o e) -> ~ hb o e i j /\ ~ hb o e j i.
Proof.
  intros H. apply races_spec in H. destruct H as (Hij & a & b & _ & _ & _ & Hr). split.
  - intros Hhb. apply hb_b_complete in Hhb. congruence.
  - intros Hhb. apply hb_lt in Hhb. lia.
Qed.

(** race freedom in terms of the inductive hb implies an empty detector output *)
Lemma races_nil o e :
  (forall i j a b, i < j -> nth_error e i = Some a -> nth_error e j = Some b ->
                   conflict a b = true -> hb o e i j) ->
  races o e = [].
Proof.
  intros H. destruct (races o e) as [|[i j] l] eqn:E; [reflexivity|exfalso].
  assert (Hin : In (i, j) (races o e)) by (rewrite E; left; reflexivity).
  apply races_spec in Hin. destruct Hin as (Hij & a & b & Ha & Hb & Hc & Hr).
  rewrite (hb_b_complete (H i j a b Hij Ha Hb Hc)) in Hr. discriminate.
Qed.

(** and conversely *)
Lemma races_nil_inv o e :
  races o e = [] ->
  forall i j a b, i < j -> nth_error e i = Some a -> nth_error e j = Some b ->
                  conflict a b = true -> hb o e i j.
Proof.
  intros E i j a b Hij Ha Hb Hc. apply hb_b_sound.
  destruct (hb_b o e i j) eqn:Hr; [reflexivity|exfalso].
  assert (Hin : In (i, j) (races o e)) by (apply races_spec; eauto 8).
  rewrite E in Hin. destruct Hin.
Qed.

(* ------------------------------------------------------------------ *)
(** * 7. T1: lock-protected data is race free *)

Section LockProtected.
  Variable o : orders.
  Variable prot : nat -> nat.
  Variable e : exec.
  Hypothesis Hacq : is_acq (o_tas o) = true.
  Hypothesis Hrel : is_rel (o_clr o) = true.

  (* a is "related to lock lk": it modifies lk or accesses data protected by lk *)
  Definition lkrel (lk : nat) (a : ev) : bool :=
    match a with
    | Tas _ l | Clr _ l => l =? lk
    | Rd _ x | Wr _ x => prot x =? lk
    | Dec _ => false
    end.

  Definition hbeq (i j : nat) : Prop := i = j \/ hb o e i j.

  (* invariant for lock lk after the first n events, v = current holder:
     - held by t: it was taken by some [Tas t lk] at m; everything lk-related
       up to m happens-before(-or-is) m, everything after m is by thread t;
     - free: either nothing lk-related happened yet, or the last lk-related
       event is a [Clr] at m and everything lk-related happens-before(-or-is) m *)
  Definition LInvAt (n : nat) (v : option nat) (lk : nat) : Prop :=
    match v with
    | Some t =>
        exists m, m < n /\ nth_error e m = Some (Tas t lk) /\
          forall k a, k < n -> nth_error e k = Some a -> lkrel lk a = true ->
                      (k <= m -> hbeq k m) /\ (m < k -> tid a = t)
    | None =>
        (forall k a, k < n -> nth_error e k = Some a -> lkrel lk a = false) \/
        (exists m t, m < n /\ nth_error e m = Some (Clr t lk) /\
          forall k a, k < n -> nth_error e k = Some a -> lkrel lk a = true ->
                      k <= m /\ hbeq k m)
    end.

  Definition RF (n : nat) : Prop :=
    forall i j a b, i < j -> j < n -> nth_error e i = Some a -> nth_error e j = Some b ->
                    conflict a b = true -> hb o e i j.

  Lemma LInvAt_ext n v lk a :
    nth_error e n = Some a ->
    lkrel lk a = false \/ v = Some (tid a) ->
    LInvAt n v lk -> LInvAt (S n) v lk.
  Proof.
    intros Hn Ha H. destruct v as [t|]; cbn [LInvAt] in *.
    - destruct H as (m & Hm & Hem & H). exists m. split; [lia|]. split; [assumption|].
      intros k c Hk Hc Hrelc. destruct (Nat.eq_dec k n) as [->|Hne].
      + rewrite Hn in Hc. injection Hc as <-. destruct Ha as [Ha|Ha]; [congruence|].
        injection Ha as <-. split; [lia|reflexivity].
      + apply H; [lia|assumption|assumption].
    - destruct Ha as [Ha|Ha]; [|discriminate Ha]. destruct H as [H|(m & t & Hm & Hem & H)].
      + left. intros k c Hk Hc. destruct (Nat.eq_dec k n) as [->|Hne].
        * rewrite Hn in Hc. injection Hc as <-. assumption.
        * eapply H; [|eassumption]. lia.
      + right. exists m, t. split; [lia|]. split; [assumption|].
        intros k c Hk Hc Hrelc. destruct (Nat.eq_dec k n) as [->|Hne].
        * rewrite Hn in Hc. injection Hc as <-. congruence.
        * apply H with (a := c); [lia|assumption|assumption].
  Qed.

  Lemma po_hbeq_trans k m n x a :
    hbeq k m -> m < n -> nth_error e m = Some x -> nth_error e n = Some a ->
    tid x = tid a -> hbeq k n.
  Proof.
    intros Hkm Hmn Hx Ha Ht. right.
    assert (Hmn' : hb o e m n) by (apply hb_po; split; [assumption|]; exists x, a; auto).
    destruct Hkm as [->|Hkm]; [assumption|]. eapply hb_trans; eassumption.
  Qed.

  Lemma lock_step n s a :
    nth_error e n = Some a ->
    ev_ok s a = true -> acc_ok prot s a = true ->
    (forall lk, LInvAt n (s lk) lk) -> RF n ->
    (forall lk, LInvAt (S n) (lstep s a lk) lk) /\ RF (S n).
  Proof.
    intros Hn Hok Hacc HI HRF. split.
    - intros lk. destruct a as [t l|t l|t|t x|t x]; cbn [lstep ev_ok acc_ok] in *.
      + (* Tas t l : l was free *)
        unfold upd. destruct (lk =? l) eqn:El.
        * apply Nat.eqb_eq in El. subst l. specialize (HI lk).
          destruct (s lk) as [t0|]; [discriminate Hok|]. cbn [LInvAt] in *.
          exists n. split; [lia|]. split; [assumption|].
          intros k c Hk Hc Hrelc. split; [|lia]. intros _.
          destruct (Nat.eq_dec k n) as [->|Hne]; [left; reflexivity|].
          assert (Hkn : k < n) by lia.
          destruct HI as [HI|(m & t0 & Hm & Hem & HI)].
          -- rewrite (HI k c Hkn Hc) in Hrelc. discriminate.
          -- destruct (HI k c Hkn Hc Hrelc) as [Hkm Hhb]. right.
             assert (Hsw : hb o e m n).
             { apply hb_sw. split; [assumption|]. left. split.
               - unfold sync_lock. rewrite Hrel, Hacq. reflexivity.
               - exists t0, t, lk. split; [assumption|]. split; [assumption|].
                 intros k' c' Hk1 Hk2 Hc'. destruct (mods lk c') eqn:Em; [|reflexivity].
                 assert (Hr' : lkrel lk c' = true) by (destruct c'; cbn in *; congruence).
                 destruct (HI k' c' Hk2 Hc' Hr') as [Hle _]. lia. }
             destruct Hhb as [->|Hhb]; [assumption|]. eapply hb_trans; eassumption.
        * apply LInvAt_ext with (a := Tas t l); [assumption| |apply HI].
          left. cbn [lkrel]. rewrite Nat.eqb_sym. assumption.
      + (* Clr t l : t held l *)
        unfold upd. destruct (lk =? l) eqn:El.
        * apply Nat.eqb_eq in El. subst l. specialize (HI lk).
          destruct (s lk) as [t0|]; [|discriminate Hok].
          apply Nat.eqb_eq in Hok. subst t0. cbn [LInvAt] in *.
          destruct HI as (m & Hm & Hem & HI).
          right. exists n, t. split; [lia|]. split; [assumption|].
          intros k c Hk Hc Hrelc. split; [lia|].
          destruct (Nat.eq_dec k n) as [->|Hne]; [left; reflexivity|].
          assert (Hkn : k < n) by lia.
          destruct (HI k c Hkn Hc Hrelc) as [H1 H2].
          destruct (Nat.le_gt_cases k m) as [Hle|Hgt].
          -- eapply po_hbeq_trans with (m := m); eauto.
          -- eapply po_hbeq_trans with (m := k); [left; reflexivity|lia|eassumption|eassumption|].
             cbn [tid]. auto.
        * apply LInvAt_ext with (a := Clr t l); [assumption| |apply HI].
          left. cbn [lkrel]. rewrite Nat.eqb_sym. assumption.
      + apply LInvAt_ext with (a := Dec t); [assumption|left; reflexivity|apply HI].
      + apply LInvAt_ext with (a := Rd t x); [assumption| |apply HI].
        cbn [lkrel tid]. destruct (prot x =? lk) eqn:El; [right|left; reflexivity].
        apply Nat.eqb_eq in El. subst lk.
        destruct (s (prot x)) as [t0|]; [|discriminate Hacc].
        apply Nat.eqb_eq in Hacc. congruence.
      + apply LInvAt_ext with (a := Wr t x); [assumption| |apply HI].
        cbn [lkrel tid]. destruct (prot x =? lk) eqn:El; [right|left; reflexivity].
        apply Nat.eqb_eq in El. subst lk.
        destruct (s (prot x)) as [t0|]; [|discriminate Hacc].
        apply Nat.eqb_eq in Hacc. congruence.
    - intros i j c b Hij Hj Hc Hb Hcf.
      destruct (Nat.eq_dec j n) as [->|Hne]; [|apply HRF with (a := c) (b := b); auto; lia].
      rewrite Hn in Hb. injection Hb as <-.
      (* a is an access to some x by t'; c an access to x by another thread *)
      assert (Hx : exists t' x, (a = Rd t' x \/ a = Wr t' x) /\
                    lkrel (prot x) c = true /\ tid c <> t').
      { destruct c as [| | |t x|t x], a as [| | |t' x'|t' x']; try discriminate Hcf;
          cbn [conflict] in Hcf; apply andb_prop in Hcf; destruct Hcf as [Hxx Htt];
          apply Nat.eqb_eq in Hxx; subst x'; apply negb_true_iff in Htt;
          apply Nat.eqb_neq in Htt; exists t', x; cbn [lkrel tid];
          rewrite Nat.eqb_refl; auto. }
      destruct Hx as (t' & x & Hax & Hrelc & Htid).
      assert (Hs : s (prot x) = Some t').
      { destruct Hax as [-> | ->]; cbn [acc_ok] in Hacc;
          (destruct (s (prot x)) as [t0|]; [|discriminate Hacc]);
          apply Nat.eqb_eq in Hacc; congruence. }
      specialize (HI (prot x)). rewrite Hs in HI. cbn [LInvAt] in HI.
      destruct HI as (m & Hm & Hem & HI).
      destruct (HI i c Hij Hc Hrelc) as [H1 H2].
      destruct (Nat.le_gt_cases i m) as [Hle|Hgt]; [|exfalso; auto].
      assert (Hmn : hb o e m n).
      { apply hb_po. split; [assumption|]. exists (Tas t' (prot x)), a.
        split; [assumption|]. split; [assumption|]. destruct Hax as [-> | ->]; reflexivity. }
      destruct (H1 Hle) as [->|Hhb]; [assumption|]. eapply hb_trans; eassumption.
  Qed.

  Lemma lock_run : forall rest pre s,
    e = pre ++ rest ->
    (forall lk, LInvAt (length pre) (s lk) lk) -> RF (length pre) ->
    wf_from s rest = true -> prot_from prot s rest = true ->
    RF (length e).
  Proof.
    induction rest as [|a rest IH]; intros pre s He HI HRF Hwf Hpr.
    - rewrite He, app_nil_r. assumption.
    - cbn [wf_from prot_from] in Hwf, Hpr.
      apply andb_prop in Hwf. destruct Hwf as [Hok Hwf].
      apply andb_prop in Hpr. destruct Hpr as [Hacc Hpr].
      assert (Hn : nth_error e (length pre) = Some a) by (rewrite He; apply nth_error_mid).
      destruct (lock_step s Hn Hok Hacc HI HRF) as [HI' HRF'].
      apply IH with (pre := pre ++ [a]) (s := lstep s a).
      + rewrite <- app_assoc. exact He.
      + rewrite app_length, Nat.add_1_r. exact HI'.
      + rewrite app_length, Nat.add_1_r. exact HRF'.
      + assumption.
      + assumption.
  Qed.

  (** T1, in terms of the inductive happens-before relation. *)
  Theorem lock_protected_hb :
    wf_locks e = true -> protected_by prot e = true ->
    forall i j a b, i < j -> nth_error e i = Some a -> nth_error e j = Some b ->
                    conflict a b = true -> hb o e i j.
  Proof.
    intros Hwf Hpr i j a b Hij Ha Hb Hc.
    assert (H : RF (length e)).
    { apply lock_run with (rest := e) (pre := []) (s := fun _ => None); try assumption.
      - reflexivity.
      - intros lk. cbn [LInvAt length]. left. intros k c Hk. lia.
      - intros i' j' a' b' _ Hj'. cbn in Hj'. lia. }
    apply H with (a := a) (b := b); try assumption. eapply nth_error_lt; eassumption.
  Qed.

  (** T1, in terms of the executable detector. *)
  Theorem lock_protected_race_free :
    wf_locks e = true -> protected_by prot e = true -> races o e = [].
  Proof.
    intros Hwf Hpr. apply races_nil. apply lock_protected_hb; assumption.
  Qed.
End LockProtected.

Example lock_protected_nonvacuous :
  wf_locks two_cs = true /\ protected_by (fun _ => 0) two_cs = true /\
  conflict (Wr 0 0) (Wr 1 0) = true.
Proof. vm_compute. repeat split. Qed.

(* ------------------------------------------------------------------ *)
(** * 8. T3: the last decrement may free the old buckets (deferred migration) *)

(* a is a plain access to a location of the set Old *)
Definition acc_old (Old : nat -> bool) (a : ev) : bool :=
  match a with Rd _ x | Wr _ x => Old x | _ => false end.

(* Shape of a deferred-migration execution, seen from the deallocation write at
   position w by thread tw:
   - tw's own decrement, at dl < w, is the LAST decrement of the execution;
   - every access to Old by another thread before w is followed (in program
     order) by that thread's own decrement. *)
Definition migration_shape (e : exec) (Old : nat -> bool) (w tw dl : nat) : Prop :=
  (exists x, nth_error e w = Some (Wr tw x) /\ Old x = true) /\
  nth_error e dl = Some (Dec tw) /\
  dl < w /\
  (forall k t, dl < k -> nth_error e k <> Some (Dec t)) /\
  (forall i a, i < w -> nth_error e i = Some a -> acc_old Old a = true -> tid a <> tw ->
               exists d, i < d /\ nth_error e d = Some (Dec (tid a))).

Theorem last_decrement_frees_safely_hb : forall o e Old w tw dl,
  is_acq (o_dec o) && is_rel (o_dec o) = true ->
  migration_shape e Old w tw dl ->
  forall i a, i < w -> nth_error e i = Some a -> acc_old Old a = true -> hb o e i w.
Proof.
  intros o e Old w tw dl Hf ((x & Hw & Hox) & Hdl & Hlt & Hlast & Hbefore) i a Hi Ha Hacc.
  destruct (Nat.eq_dec (tid a) tw) as [Heq|Hne].
  - apply hb_po. split; [assumption|]. exists a, (Wr tw x). auto.
  - destruct (Hbefore i a Hi Ha Hacc Hne) as (d & Hid & Hd).
    assert (Hddl : d < dl).
    { destruct (Nat.lt_trichotomy d dl) as [H|[H|H]]; [assumption|exfalso|exfalso].
      - subst d. rewrite Hdl in Hd. injection Hd as Hd. auto.
      - exact (Hlast d (tid a) H Hd). }
    apply hb_trans with (k := d).
    { apply hb_po. split; [assumption|]. exists a, (Dec (tid a)). auto. }
    apply hb_trans with (k := dl).
    { apply hb_sw. split; [assumption|]. right. split.
      - unfold sync_dec. rewrite andb_comm. assumption.
      - exists (tid a), tw. auto. }
    apply hb_po. split; [assumption|]. exists (Dec tw), (Wr tw x). auto.
Qed.

(** T3: no race between the deallocation write and any earlier event. *)
Theorem last_decrement_frees_safely : forall o e Old w tw dl,
  is_acq (o_dec o) && is_rel (o_dec o) = true ->
  migration_shape e Old w tw dl ->
  (forall i a, i < w -> nth_error e i = Some a -> acc_old Old a = true ->
               hb_b o e i w = true) /\
  (forall i, ~ In (i, w) (races o e)).
Proof.
  intros o e Old w tw dl Hf Hshape. split.
  - intros i a Hi Ha Hacc. apply hb_b_complete.
    eapply last_decrement_frees_safely_hb; eassumption.
  - intros i Hin. apply races_spec in Hin.
    destruct Hin as (Hi & a & b & Ha & Hb & Hc & Hr).
    pose proof Hshape as ((x & Hw & Hox) & _).
    rewrite Hw in Hb. injection Hb as <-.
    assert (Hacc : acc_old Old a = true).
    { destruct a as [| | |t y|t y]; try discriminate Hc; cbn [conflict] in Hc;
        apply andb_prop in Hc; destruct Hc as [Hxy _]; apply Nat.eqb_eq in Hxy;
        subst y; exact Hox. }
    rewrite (hb_b_complete (last_decrement_frees_safely_hb o Hf Hshape Hi Ha Hacc)) in Hr.
    discriminate.
Qed.

(* three threads each migrate their own stripe (lock t, old bucket 5+t), then
   decrement; the last one frees old bucket 5 *)
Definition migration_run : exec :=
  [Tas 0 0; Wr 0 5; Clr 0 0; Dec 0;
   Tas 1 1; Wr 1 6; Clr 1 1; Dec 1;
   Tas 2 2; Rd 2 7; Clr 2 2; Dec 2; Wr 2 5].

Example migration_run_shape :
  migration_shape migration_run (fun x => (5 <=? x) && (x <=? 7)) 12 2 11.
Proof.
  split; [exists 5; split; reflexivity|]. split; [reflexivity|]. split; [lia|]. split.
  - intros k t Hk. do 13 (destruct k as [|k]; [try lia; discriminate|]).
    destruct k; discriminate.
  - intros i a Hi Ha Hacc Ht.
    do 12 (destruct i as [|i];
           [injection Ha as <-; try discriminate Hacc; cbn [tid] in *;
            first [ exists 3; split; [lia|reflexivity]
                  | exists 7; split; [lia|reflexivity]
                  | congruence ] |]).
    lia.
Qed.

Example migration_run_race_free : races source_orders migration_run = [].
Proof. vm_compute. reflexivity. Qed.

Example migration_run_racy_if_relaxed :
  races {| o_tas := AcqRel; o_clr := Release; o_dec := Relaxed |} migration_run = [(1, 12)].
Proof. vm_compute. reflexivity. Qed.

(** T4 (continued): the witness of [weak_decrement_race] has the shape required
    by T3, so the premise on o_dec in T3 cannot be dropped. *)
Lemma dec_witness_shape : migration_shape dec_witness (fun _ => true) 3 1 2.
Proof.
  split; [exists 0; split; reflexivity|]. split; [reflexivity|]. split; [lia|]. split.
  - intros k t Hk. do 4 (destruct k as [|k]; [try lia; discriminate|]).
    destruct k; discriminate.
  - intros i a Hi Ha Hacc Ht.
    destruct i as [|i]; [injection Ha as <-; exists 1; split; [lia|reflexivity]|].
    do 2 (destruct i as [|i]; [injection Ha as <-; discriminate Hacc|]). lia.
Qed.

Theorem weak_decrement_race_shape : forall o,
  is_acq (o_dec o) && is_rel (o_dec o) = false ->
  exists e Old w tw dl, migration_shape e Old w tw dl /\ exists i, In (i, w) (races o e).
Proof.
  intros o H. exists dec_witness, (fun _ => true), 3, 1, 2.
  split; [apply dec_witness_shape|]. exists 0.
  rewrite (weak_decrement_race o H). left. reflexivity.
Qed.

(* ------------------------------------------------------------------ *)
(** * 9. T5 (continued): the theorems instantiated with the source's orders *)

Corollary source_lock_protected_race_free : forall prot e,
  wf_locks e = true -> protected_by prot e = true -> races source_orders e = [].
Proof.
  intros prot e. destruct source_orders_flags as (H1 & H2 & _ & _).
  apply lock_protected_race_free; assumption.
Qed.

Corollary source_lock_protected_hb : forall prot e,
  wf_locks e = true -> protected_by prot e = true ->
  forall i j a b, i < j -> nth_error e i = Some a -> nth_error e j = Some b ->
                  conflict a b = true -> hb source_orders e i j.
Proof.
  intros prot e. destruct source_orders_flags as (H1 & H2 & _ & _).
  apply lock_protected_hb; assumption.
Qed.

Corollary source_last_decrement_frees_safely : forall e Old w tw dl,
  migration_shape e Old w tw dl ->
  (forall i a, i < w -> nth_error e i = Some a -> acc_old Old a = true ->
               hb source_orders e i w) /\
  (forall i, ~ In (i, w) (races source_orders e)).
Proof.
  intros e Old w tw dl Hs. destruct source_orders_flags as (_ & _ & H3 & H4).
  assert (Hf : is_acq (o_dec source_orders) && is_rel (o_dec source_orders) = true)
    by (rewrite H3, H4; reflexivity).
  split.
  - intros i a. apply last_decrement_frees_safely_hb with (tw := tw) (dl := dl); assumption.
  - apply (last_decrement_frees_safely source_orders Hf Hs).
Qed.

(** The same, for whatever [orders_of_sites sites] returns (no reference to the
    value computed when this file was compiled). *)
Theorem source_sites_race_free : forall o,
  orders_of_sites sites = Some o ->
  (forall prot e, wf_locks e = true -> protected_by prot e = true -> races o e = []) /\
  (forall e Old w tw dl, migration_shape e Old w tw dl -> forall i, ~ In (i, w) (races o e)).
Proof.
  intros o Ho. rewrite source_orders_eq in Ho. injection Ho as <-. split.
  - apply source_lock_protected_race_free.
  - intros e Old w tw dl Hs. apply (source_last_decrement_frees_safely Hs).
Qed.

(* ------------------------------------------------------------------ *)
(** * 10. On lock-well-formed executions, "reads-from" = "the next Tas" *)

Lemma wf_from_app : forall l1 s l2,
  wf_from s (l1 ++ l2) = true -> wf_from (fold_left lstep l1 s) l2 = true.
Proof.
  induction l1 as [|a l1 IH]; intros s l2 H; [exact H|].
  cbn [app wf_from] in H. apply andb_prop in H. destruct H as [_ H].
  cbn [fold_left]. apply IH. exact H.
Qed.

Lemma free_no_clr lk : forall rest s k t,
  s lk = None -> wf_from s rest = true -> nth_error rest k = Some (Clr t lk) ->
  exists m t', m < k /\ nth_error rest m = Some (Tas t' lk).
Proof.
  induction rest as [|a rest IH]; intros s k t Hs Hwf Hn; [destruct k; discriminate|].
  cbn [wf_from] in Hwf. apply andb_prop in Hwf. destruct Hwf as [Hok Hwf].
  destruct k as [|k].
  - cbn [nth_error] in Hn. injection Hn as ->. cbn [ev_ok] in Hok.
    rewrite Hs in Hok. discriminate.
  - cbn [nth_error] in Hn.
    assert (Hcase : (exists t', a = Tas t' lk) \/ lstep s a lk = None).
    { destruct a as [t0 l|t0 l|t0|t0 x|t0 x]; cbn [lstep]; auto; unfold upd.
      - destruct (lk =? l) eqn:El; [|auto]. apply Nat.eqb_eq in El. subst l. eauto.
      - destruct (lk =? l); auto. }
    destruct Hcase as [(t' & ->)|Hs'].
    + exists 0, t'. split; [lia|reflexivity].
    + destruct (IH _ _ _ Hs' Hwf Hn) as (m & t' & Hm & Hnm).
      exists (S m), t'. split; [lia|exact Hnm].
Qed.

(** If [Clr t lk] is at i and no [Tas _ lk] lies strictly between i and j, then
    no modification of lk at all lies between them: the sw edge (1) of this
    model is exactly "Clr -> the NEXT Tas on the same lock". *)
Lemma wf_next_tas_reads_clr : forall e i j t lk,
  wf_locks e = true -> nth_error e i = Some (Clr t lk) ->
  (forall k t', i < k -> k < j -> nth_error e k <> Some (Tas t' lk)) ->
  forall k c, i < k -> k < j -> nth_error e k = Some c -> mods lk c = false.
Proof.
  intros e i j t lk Hwf Hi Hno k c Hik Hkj Hc.
  destruct c as [t0 l|t0 l|t0|t0 x|t0 x]; cbn [mods]; try reflexivity;
    (destruct (l =? lk) eqn:El; [exfalso|reflexivity]);
    apply Nat.eqb_eq in El; subst l.
  - exact (Hno k t0 Hik Hkj Hc).
  - destruct (nth_error_split _ _ Hi) as (pre & rest & -> & Hlen). subst i.
    unfold wf_locks in Hwf.
    replace (pre ++ Clr t lk :: rest) with ((pre ++ [Clr t lk]) ++ rest) in Hwf
      by (rewrite <- app_assoc; reflexivity).
    apply wf_from_app in Hwf. rewrite fold_left_app in Hwf. cbn [fold_left lstep] in Hwf.
    rewrite nth_error_app2 in Hc by lia.
    destruct (k - length pre) as [|k'] eqn:Ek; [lia|]. cbn [nth_error] in Hc.
    assert (Hs : upd (fold_left lstep pre (fun _ : nat => None)) lk None lk = None)
      by (unfold upd; rewrite Nat.eqb_refl; reflexivity).
    destruct (@free_no_clr lk rest _ k' t0 Hs Hwf Hc) as (m & t' & Hm & Hnm).
    apply (Hno (length pre + S m) t'); [lia|lia|].
    rewrite nth_error_app2 by lia.
    replace (length pre + S m - length pre) with (S m) by lia. exact Hnm.
Qed.

(* ------------------------------------------------------------------ *)
(** * 11. A larger run of the executable detector (400 events) *)

Fixpoint cs_run (n : nat) : exec :=
  match n with
  | 0 => []
  | S k => cs_run k ++ [Tas (k mod 3) (k mod 8); Rd (k mod 3) (k mod 8);
                        Wr (k mod 3) (k mod 8 + 8); Clr (k mod 3) (k mod 8)]
  end.

Example cs_run_checks :
  wf_locks (cs_run 100) = true /\
  protected_by (fun x => x mod 8) (cs_run 100) = true /\
  races source_orders (cs_run 100) = [] /\
  length (races {| o_tas := AcqRel; o_clr := Relaxed; o_dec := AcqRel |} (cs_run 100)) = 416.
Proof. vm_compute. repeat split. Qed.
