(* C09 - locked_table iteration enumerates each element exactly once, in both directions.
   Statements only; every theorem is closed by [exact] of a lemma of Iter.v about the model's
   iterator functions (Core.it_next / it_prev / it_make, Api.traverse_fwd / traverse_bwd).
   [occ_list c (cur t)] is the list of occupied (bucket, slot) positions in lexicographic order. *)
From Coq Require Import NArith ZArith List.
From LC Require Import gen.HashGen Core Api InvDefs Iter.
Import ListNotations.
Local Open Scope N_scope.

Theorem C09_forward_traversal_is_occupied_positions_in_order :
  forall c, 0 < spb c -> forall t, hashpower t < 62 ->
  traverse_fwd c t (it_begin c t) (trav_fuel c t) = flat_map (visit t) (occ_list c (cur t)).
Proof. exact traverse_fwd_spec. Qed.
Print Assumptions C09_forward_traversal_is_occupied_positions_in_order.

Theorem C09_backward_traversal_is_exact_reverse :
  forall c, 0 < spb c -> forall t, hashpower t < 62 ->
  traverse_bwd c t (it_end t) (trav_fuel c t) = flat_map (visit t) (rev (occ_list c (cur t))).
Proof. exact traverse_bwd_spec. Qed.
Print Assumptions C09_backward_traversal_is_exact_reverse.

Theorem C09_backward_positions_reverse_forward :
  forall c, 0 < spb c -> forall t, hashpower t < 62 ->
  out_positions (traverse_bwd c t (it_end t) (trav_fuel c t)) =
  rev (out_positions (traverse_fwd c t (it_begin c t) (trav_fuel c t))).
Proof. exact traverse_bwd_rev_fwd. Qed.
Print Assumptions C09_backward_positions_reverse_forward.

Theorem C09_each_position_visited_once :
  forall c, 0 < spb c -> forall t, hashpower t < 62 ->
  NoDup (out_positions (traverse_fwd c t (it_begin c t) (trav_fuel c t))).
Proof. exact traverse_fwd_visits_once. Qed.
Print Assumptions C09_each_position_visited_once.

Theorem C09_every_element_visited_nothing_else :
  forall c, 0 < spb c -> forall hash t p, arr_ok c hash (cur t) ->
  In p (out_positions (traverse_fwd c t (it_begin c t) (trav_fuel c t))) <-> occupied (cur t) (fst p) (snd p) = true.
Proof. exact traverse_fwd_visits_all_arr_ok. Qed.
Print Assumptions C09_every_element_visited_nothing_else.

Theorem C09_begin_is_end_iff_empty :
  forall c, 0 < spb c -> forall t, hashpower t < 62 ->
  it_begin c t = it_end t <-> occ_list c (cur t) = [].
Proof. exact begin_eq_end_iff_empty. Qed.
Print Assumptions C09_begin_is_end_iff_empty.

Theorem C09_increment_is_successor :
  forall c, 0 < spb c -> forall t, hashpower t < 62 ->
  forall l1 p l2, occ_list c (cur t) = l1 ++ p :: l2 -> it_next c t p = hd (end_pos t) l2.
Proof. exact it_next_spec. Qed.
Print Assumptions C09_increment_is_successor.

Theorem C09_decrement_is_predecessor :
  forall c, 0 < spb c -> forall t, hashpower t < 62 ->
  forall l1 q p l2, occ_list c (cur t) = l1 ++ [q] ++ p :: l2 -> it_prev c t p = Some q.
Proof. exact it_prev_spec. Qed.
Print Assumptions C09_decrement_is_predecessor.

Theorem C09_decrement_from_end_is_last :
  forall c, 0 < spb c -> forall t, hashpower t < 62 ->
  forall l1 q, occ_list c (cur t) = l1 ++ [q] -> it_prev c t (end_pos t) = Some q.
Proof. exact it_prev_end_spec. Qed.
Print Assumptions C09_decrement_from_end_is_last.

(* erase(it): removes exactly that element, returns the successor, every other position keeps
   its element (iterators are positions, so "stay valid" is literal) *)
Theorem C09_erase_returns_successor :
  forall c, 0 < spb c -> forall t p l1 l2, hashpower t < 62 ->
  occ_list c (cur t) = l1 ++ p :: l2 ->
  let t' := del_from_bucket c t (fst p) (snd p) in
  it_make c t' p = hd (end_pos t') l2 /\ occ_list c (cur t') = l1 ++ l2.
Proof. exact erase_it_returns_successor. Qed.
Print Assumptions C09_erase_returns_successor.

(* non-vacuity: a concrete table with elements in the first and last slot of a bucket *)
Example C09_ex : let c := {| spb := 2; lbits := 1; simple := true; nothrow := true; destructive := false |} in
  let t0 := new_table c 4 in
  let t1 := add_to_bucket c t0 0 1 7 11 5%Z in
  let t2 := add_to_bucket c t1 1 0 9 12 6%Z in
  occ_list c (cur t2) = [(0, 1); (1, 0)] /\ it_begin c t2 = (0, 1) /\ it_next c t2 (0, 1) = (1, 0) /\
  it_next c t2 (1, 0) = it_end t2 /\ it_prev c t2 (it_end t2) = Some (1, 0).
Proof. vm_compute. repeat split; reflexivity. Qed.

(* ---- iteration against the abstract map (LockedRefine.v): a begin / *it / ++it loop lists exactly the pairs of the map, the reverse traversal is the reverse list, erase(it) returns the successor ---- *)
From LC Require Import LazyRefine LockedRefine.
Theorem C09_iteration_lists_the_map :
  forall (c : config) (hash : N -> N),
  cfg_ok c ->
  forall (fapply : fnk -> Z -> bool -> Z * bool) (w : world) (a : nat) (s : tslot)
  (reg : nat) (m : amap) (w0 : world) (r0 : out),
  active s = true ->
  Refine.good c hash (tb s) ->
  rep c (tb s) m ->
  (reg < length (its w))%nat ->
  step_some c hash fapply w a s (ItBegin reg) = (w0, r0) ->
  let
  '(w', r) := iter_collect c hash fapply w0 a s reg (length (occ_list c (cur (tb s)))) in
  Refine.kvs r = contents c (tb s) /\
  is_listing m (Refine.kvs r) /\ get_it c w' (tb s) reg = Some (it_end (tb s)) /\ tabs w' = tabs w.
Proof. exact iteration_lists_the_map. Qed.
Print Assumptions C09_iteration_lists_the_map.

Theorem C09_reverse_traversal_is_reverse :
  forall (c : config) (hash : N -> N),
  cfg_ok c ->
  forall (fapply : fnk -> Z -> bool -> Z * bool) (w : world) (a : nat) (s : tslot)
  (m : amap) (w1 : world) (r1 : out) (w2 : world) (r2 : out),
  active s = true ->
  Refine.good c hash (tb s) ->
  rep c (tb s) m ->
  step_some c hash fapply w a s LTraverse = (w1, r1) ->
  step_some c hash fapply w a s LRTraverse = (w2, r2) ->
  Refine.kvs r2 = rev (Refine.kvs r1) /\ is_listing m (Refine.kvs r1) /\ w1 = w /\ w2 = w.
Proof. exact rtraverse_is_reverse. Qed.
Print Assumptions C09_reverse_traversal_is_reverse.

Theorem C09_erase_iterator_returns_successor :
  forall (c : config) (hash : N -> N),
  cfg_ok c ->
  forall (fapply : fnk -> Z -> bool -> Z * bool) (w : world) (a : nat) (s : tslot)
  (reg dst : nat) (w' : world) (r : out) (m : amap) (p : N * N) (k : N) (v : Z)
  (l1 l2 : list (N * N)),
  active s = true ->
  Refine.good c hash (tb s) ->
  rep c (tb s) m ->
  get_it c w (tb s) reg = Some p ->
  at_pos (tb s) p k v ->
  occ_list c (cur (tb s)) = l1 ++ p :: l2 ->
  step_some c hash fapply w a s (LEraseIt reg dst) = (w', r) ->
  exists t' : table,
  let q := hd (it_end t') l2 in
  w' = put_it (put_tab w a (Some {| tb := t'; active := true |})) dst q /\
  r = [RPos (fst q) (snd q)] /\
  Refine.good c hash t' /\
  Refine.lim_same (tb s) t' /\
  bhp (cur t') = bhp (cur (tb s)) /\ rep c t' (mset m k None) /\ occ_list c (cur t') = l1 ++ l2.
Proof. exact refines_LEraseIt. Qed.
Print Assumptions C09_erase_iterator_returns_successor.

Theorem C09_contents_listing :
  forall (c : config) (hash : N -> N) (t : table) (m : amap),
  Refine.good c hash t -> rep c t m -> is_listing m (contents c t).
Proof. exact contents_listing. Qed.
Print Assumptions C09_contents_listing.

(* ---- the oracle's locked-table clauses against the specification (SpecSoundLocked.v) ---- *)
From LC Require Import SpecSoundLocked.
Theorem C09_accepted_traversal_is_a_listing :
  forall (fapply : fnk -> Z -> bool -> Z * bool) (spb_ : N) (s : Spec.sst) (a : nat) 
  (t : Spec.stab) (m : amap) (r : out) (pre post : Spec.obs) (s' : Spec.sst),
  Spec.get_st s a = Some t ->
  Spec.st_moved t = false ->
  SpecSound.srep (Spec.st_m t) m ->
  Spec.is_exn r EUnmodelled = false ->
  Spec.judge_op fapply spb_ s a LTraverse r pre post = (s', []) ->
  is_listing m (Refine.kvs r) /\
  Sorted.StronglySorted lex_lt (poss r) /\
  Forall (fun p : N * N => fst p < fst (Spec.endp post) /\ snd p < spb_) (poss r).
Proof. exact accepted_traverse_listing. Qed.
Print Assumptions C09_accepted_traversal_is_a_listing.

Theorem C09_accepted_reverse_traversal_is_the_reverse :
  forall (fapply : fnk -> Z -> bool -> Z * bool) (spb_ : N) (s : Spec.sst) (a : nat) 
  (t : Spec.stab) (m : amap) (r1 r2 : out) (pre1 post1 pre2 post2 : Spec.obs)
  (s1 s2 : Spec.sst),
  Spec.get_st s a = Some t ->
  Spec.st_moved t = false ->
  SpecSound.srep (Spec.st_m t) m ->
  Spec.is_exn r1 EUnmodelled = false ->
  Spec.is_exn r2 EUnmodelled = false ->
  Spec.judge_op fapply spb_ s a LTraverse r1 pre1 post1 = (s1, []) ->
  Spec.judge_op fapply spb_ s1 a LRTraverse r2 pre2 post2 = (s2, []) ->
  exists od : Spec.order,
  r1 = out_of_order od /\
  r2 = out_of_order (rev od) /\
  Refine.kvs r2 = rev (Refine.kvs r1) /\
  poss r2 = rev (poss r1) /\
  is_listing m (Refine.kvs r1) /\
  is_listing m (Refine.kvs r2) /\ Sorted.StronglySorted lex_lt (poss r1) /\ s2 = s1.
Proof. exact accepted_rtraverse_is_reverse. Qed.
Print Assumptions C09_accepted_reverse_traversal_is_the_reverse.

Theorem C09_acceptor_sound_for_locked_operations :
  forall (c : config) (fapply : fnk -> Z -> bool -> Z * bool) (spb_ : N) (tb tb' : table) 
  (s : Spec.sst) (a : nat) (t : Spec.stab) (m : amap) (o : op) (r : out) (pre post : Spec.obs)
  (s' : Spec.sst),
  locked_op o = true ->
  (forall k : N, o <> LRange k) ->
  spb c = spb_ ->
  lobs c tb tb' o pre post ->
  ord_inv spb_ s t post ->
  Spec.get_st s a = Some t ->
  Spec.st_moved t = false ->
  SpecSound.srep (Spec.st_m t) m ->
  Spec.is_exn r EUnmodelled = false ->
  Spec.judge_op fapply spb_ s a o r pre post = (s', []) ->
  exists (m' : amap) (r0 : out),
  SpecSound.norm_out r0 = SpecSound.norm_out r /\
  lpost_ok s' a o t m' /\ lop_spec_abs c tb m o r0 tb' m'.
Proof. exact judge_sound_locked_abs. Qed.
Print Assumptions C09_acceptor_sound_for_locked_operations.

Theorem C09_acceptor_sound_for_equal_range :
  forall (c : config) (fapply : fnk -> Z -> bool -> Z * bool) (spb_ : N) (tb tb' : table) 
  (s : Spec.sst) (a : nat) (t : Spec.stab) (m : amap) (o : op) (r : out) (pre post : Spec.obs)
  (s' : Spec.sst),
  locked_op o = true ->
  spb c = spb_ ->
  lobs c tb tb' o pre post ->
  ord_inv spb_ s t post ->
  Spec.get_st s a = Some t ->
  Spec.st_moved t = false ->
  SpecSound.srep (Spec.st_m t) m ->
  Spec.is_exn r EUnmodelled = false ->
  lstrict s m o ->
  Spec.judge_op fapply spb_ s a o r pre post = (s', []) ->
  exists (m' : amap) (r0 : out),
  SpecSound.norm_out r0 = SpecSound.norm_out r /\
  lpost_ok s' a o t m' /\ lop_spec_abs c tb m o r0 tb' m'.
Proof. exact judge_sound_locked_strict. Qed.
Print Assumptions C09_acceptor_sound_for_equal_range.
