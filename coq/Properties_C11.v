(* C11 - copy, move, swap and assignment transfer the complete logical state (model level).
   No settledness is assumed: the source may have deferred migration pending, several lock-array
   generations, anything.  [step_some] is the model's API step on table slot a.
   Statements only; closed by [exact] of lemmas of Special.v. *)
From Coq Require Import NArith ZArith List.
From LC Require Import gen.HashGen Core Api InvDefs ArrLemmas Stats Resize Lazy Special Stream Life.
Import ListNotations.
Local Open Scope N_scope.

Theorem C11_swap_exchanges_complete_state : forall c hash fapply w a s b sb,
  get_tab w a = Some s -> get_tab w b = Some sb -> a <> b ->
  exists w', step_some c hash fapply w a s (OSwap b) = (w', [RNone]) /\
    get_tab w' a = Some {| tb := tb sb; active := active s |} /\
    get_tab w' b = Some {| tb := tb s; active := active sb |} /\
    (forall x, x <> a -> x <> b -> get_tab w' x = get_tab w x) /\ its w' = its w /\ imgs w' = imgs w.
Proof. exact swap_complete. Qed.
Print Assumptions C11_swap_exchanges_complete_state.

Theorem C11_copy_equal_and_source_unchanged : forall c hash fapply w a s b,
  get_tab w a = Some s -> get_tab w b = None -> (b < length (tabs w))%nat ->
  exists w', step_some c hash fapply w a s (OCopyTo b) = (w', [RNone]) /\
    get_tab w' b = Some {| tb := tb s; active := false |} /\ get_tab w' a = Some s /\
    (forall x, x <> b -> get_tab w' x = get_tab w x) /\ its w' = its w /\ imgs w' = imgs w.
Proof. exact copy_complete. Qed.
Print Assumptions C11_copy_equal_and_source_unchanged.

Theorem C11_copy_assignment : forall c hash fapply w a s b sb,
  get_tab w a = Some s -> get_tab w b = Some sb -> a <> b ->
  exists w', step_some c hash fapply w a s (OAssignTo b) = (w', [RNone]) /\
    get_tab w' b = Some {| tb := tb s; active := active sb |} /\ get_tab w' a = Some s /\
    (forall x, x <> b -> get_tab w' x = get_tab w x) /\ its w' = its w /\ imgs w' = imgs w.
Proof. exact assign_complete. Qed.
Print Assumptions C11_copy_assignment.

Theorem C11_move_destination_gets_former_state : forall c hash fapply w a s b,
  get_tab w a = Some s -> get_tab w b = None -> (b < length (tabs w))%nat ->
  exists w', step_some c hash fapply w a s (OMoveTo b) = (w', [RNone]) /\
    get_tab w' b = Some {| tb := tb s; active := false |} /\
    get_tab w' a = Some {| tb := moved_from (tb s); active := active s |} /\
    (forall x, x <> a -> x <> b -> get_tab w' x = get_tab w x) /\ its w' = its w /\ imgs w' = imgs w.
Proof. exact move_complete. Qed.
Print Assumptions C11_move_destination_gets_former_state.

(* the moved-from object: no lock arrays, no storage, size 0, settings kept - valid to destroy or assign to *)
Theorem C11_moved_from_object : forall c hash fapply w a s b w' r sa,
  get_tab w a = Some s -> get_tab w b = None -> (b < length (tabs w))%nat ->
  step_some c hash fapply w a s (OMoveTo b) = (w', r) -> get_tab w' a = Some sa ->
  locks (tb sa) = [] /\ bdead (cur (tb sa)) = true /\ bdead (old (tb sa)) = true /\ tsize (tb sa) = 0 /\
  (forall k v, ~ holds (cur (tb sa)) k v) /\ nrem (tb sa) = nrem (tb s) /\ rc (tb sa) = rc (tb s) /\
  mlfn (tb sa) = mlfn (tb s) /\ mlfd (tb sa) = mlfd (tb s) /\ mhp (tb sa) = mhp (tb s) /\
  workers (tb sa) = workers (tb s) /\ active sa = active s.
Proof. exact move_source. Qed.
Print Assumptions C11_moved_from_object.

(* allocator-extended copy with an unequal allocator: only the current lock array is copied, and
   that is enough - the invariant (incl. pending migration), the contents and the size carry over *)
Theorem C11_copy_with_unequal_allocator : forall c hash fapply w a s b w' r sd,
  get_tab w a = Some s -> get_tab w b = None -> (b < length (tabs w))%nat ->
  step_some c hash fapply w a s (OCopyAllocTo b false) = (w', r) -> get_tab w' b = Some sd ->
  cur (tb sd) = cur (tb s) /\ old (tb sd) = old (tb s) /\ nrem (tb sd) = nrem (tb s) /\
  locks (tb sd) = [cur_locks (tb s)] /\ cur_locks (tb sd) = cur_locks (tb s) /\ tsize (tb sd) = tsize (tb s) /\
  rc (tb sd) = rc (tb s) /\ mlfn (tb sd) = mlfn (tb s) /\ mlfd (tb sd) = mlfd (tb s) /\ mhp (tb sd) = mhp (tb s) /\
  workers (tb sd) = workers (tb s) /\ active sd = false /\
  (forall st, wfg c hash st (tb s) -> wfg c hash st (tb sd)) /\
  (forall k v, lholds c (tb sd) k v <-> lholds c (tb s) k v) /\ (lcounted c (tb sd) <-> lcounted c (tb s)).
Proof. exact copy_alloc_unequal. Qed.
Print Assumptions C11_copy_with_unequal_allocator.
