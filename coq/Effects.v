(* Failure atomicity of the resize paths as an order-of-effects argument.
   The generated lists (gen/EffectOrder.v, from the function bodies in clang's AST, in source order) name the
   failure-relevant effects of cuckoo_fast_double, cuckoo_expand_simple and locked_table's operator>>.
   An effect may FAIL (throw: allocation, user code run while filling the temporary map, setters that validate),
   may PUBLISH (make a change visible that a failure afterwards would leave behind), or both (GrowLocks: it
   allocates and then publishes the new lock array; std::list::emplace_back / vector::resize give the strong
   guarantee, so a failure inside it publishes nothing - trusted, see DESIGN 9).
   [run effs k]: execute the effects, the k-th failing opportunity fails.  [safe_order effs] (executable) implies:
   whichever opportunity fails, nothing has been published (the table is untouched), and if nothing fails the
   publication is followed by the generation bump with no failing opportunity in between. *)
From Coq Require Import List Bool Arith Lia.
From LC.gen Require Import EffectOrder.
Import ListNotations.

Definition may_fail (e : effect) : bool :=
  match e with AllocBuckets | AllocTempMap | FillTempMap | ReadBuckets | ReadScalar | GrowLocks | SetLimits | Validate => true | _ => false end.
Definition publishes (e : effect) : bool :=
  match e with GrowLocks | SwapBuckets | AssignBuckets => true | _ => false end.

(* outcome of a run in which the k-th failing opportunity (counting from 0) fails: Some published_before_failure,
   or None if the run completes (fewer than k+1 opportunities) *)
Fixpoint run (effs : list effect) (k : nat) (published : bool) : option bool :=
  match effs with
  | [] => None
  | e :: r =>
    if may_fail e then
      match k with
      | O => Some published                      (* fails here: a failing GrowLocks has published nothing *)
      | S k' => run r k' (published || publishes e)
      end
    else run r k (published || publishes e)
  end.

(* no failing opportunity after the first publication *)
Fixpoint no_fail_after_publish (effs : list effect) (published : bool) : bool :=
  match effs with
  | [] => true
  | e :: r => (negb (published && may_fail e)) && no_fail_after_publish r (published || publishes e)
  end.

(* every publication is eventually followed by a bump *)
Fixpoint bumped_after_publish (effs : list effect) (pending : bool) : bool :=
  match effs with
  | [] => negb pending
  | Bump :: r => bumped_after_publish r false
  | e :: r => bumped_after_publish r (pending || publishes e)
  end.

(* the lock array grows before the bucket array (hence the table size) is replaced *)
Fixpoint locks_before_buckets (effs : list effect) (seen_swap : bool) : bool :=
  match effs with
  | [] => true
  | GrowLocks :: r => negb seen_swap && locks_before_buckets r seen_swap
  | e :: r => locks_before_buckets r (seen_swap || match e with SwapBuckets | AssignBuckets => true | _ => false end)
  end.

Definition safe_order (effs : list effect) : bool :=
  no_fail_after_publish effs false && bumped_after_publish effs false && locks_before_buckets effs false.

Lemma run_unpublished : forall effs k p, no_fail_after_publish effs p = true -> forall b, run effs k p = Some b -> b = false.
Proof.
  induction effs as [|e r IH]; intros k p H b R; cbn [run no_fail_after_publish] in *; [discriminate|].
  apply andb_true_iff in H. destruct H as [H1 H2].
  destruct (may_fail e) eqn:Em.
  - destruct k as [|k'].
    + injection R as <-. destruct p; [cbn in H1; discriminate|reflexivity].
    + eapply IH; eassumption.
  - eapply IH; eassumption.
Qed.

(* main statement: under a safe order, a failure at ANY opportunity leaves the table unpublished (untouched) *)
Theorem safe_order_failure_atomic : forall effs, safe_order effs = true ->
  forall k b, run effs k false = Some b -> b = false.
Proof.
  intros effs H k b R. unfold safe_order in H.
  apply andb_true_iff in H. destruct H as [H _]. apply andb_true_iff in H. destruct H as [H _].
  eapply run_unpublished; eassumption.
Qed.

(* the converse on the same lists: if some failing opportunity follows a publication, some failure leaves a
   published change behind *)
Lemma unsafe_has_witness : forall effs p, no_fail_after_publish effs p = false -> exists k, run effs k p = Some true.
Proof.
  induction effs as [|e r IH]; intros p H; cbn [no_fail_after_publish] in H; [discriminate|].
  apply andb_false_iff in H. destruct H as [H|H].
  - apply negb_false_iff in H. apply andb_true_iff in H. destruct H as [Hp Hm]. subst p.
    exists 0. cbn [run]. rewrite Hm. reflexivity.
  - destruct (IH _ H) as [k Hk]. cbn [run]. destruct (may_fail e).
    + exists (S k). exact Hk.
    + exists k. exact Hk.
Qed.

Theorem fast_double_order_safe : safe_order fast_double_effects = true.
Proof. vm_compute. reflexivity. Qed.
Theorem expand_simple_order_safe : safe_order expand_simple_effects = true.
Proof. vm_compute. reflexivity. Qed.

Corollary fast_double_failure_atomic : forall k b, run fast_double_effects k false = Some b -> b = false.
Proof. apply safe_order_failure_atomic. exact fast_double_order_safe. Qed.
Corollary expand_simple_failure_atomic : forall k b, run expand_simple_effects k false = Some b -> b = false.
Proof. apply safe_order_failure_atomic. exact expand_simple_order_safe. Qed.

(* ---- weaker discipline, for a path that cannot be atomic (stream extraction reads and validates the stored settings
   after the bucket array has been replaced): every failing opportunity that follows a publication comes after the
   generation bump of that publication - a failure then leaves a changed but protocol-consistent table (operations
   that took their snapshot before the section re-validate), never an unbumped one. *)
Fixpoint run_pending (effs : list effect) (k : nat) (pending : bool) : option bool :=
  match effs with
  | [] => None
  | Bump :: r => run_pending r k false
  | e :: r =>
    if may_fail e then
      match k with
      | O => Some pending
      | S k' => run_pending r k' (pending || publishes e)
      end
    else run_pending r k (pending || publishes e)
  end.

Fixpoint consistent_from (effs : list effect) (pending : bool) : bool :=
  match effs with
  | [] => negb pending
  | Bump :: r => consistent_from r false
  | e :: r => negb (pending && may_fail e) && consistent_from r (pending || publishes e)
  end.
Definition consistent_order (effs : list effect) : bool := consistent_from effs false && locks_before_buckets effs false.

Lemma run_pending_clear : forall effs k p, consistent_from effs p = true -> forall b, run_pending effs k p = Some b -> b = false.
Proof.
  induction effs as [|e r IH]; intros k p H b R; [cbn in R; discriminate|].
  destruct e; cbn [run_pending consistent_from may_fail publishes] in *;
    try (apply andb_true_iff in H; destruct H as [H1 H2]);
    try (destruct k as [|k']; [injection R as <-; destruct p; [cbn in H1; discriminate|reflexivity]|eapply IH; eassumption]);
    try (eapply IH; eassumption).
Qed.

Theorem consistent_order_failure_leaves_no_unbumped_write : forall effs, consistent_order effs = true ->
  forall k b, run_pending effs k false = Some b -> b = false.
Proof.
  intros effs H k b R. unfold consistent_order in H. apply andb_true_iff in H. destruct H as [H _].
  eapply run_pending_clear; eassumption.
Qed.

Lemma safe_is_consistent_fast_double : consistent_order fast_double_effects = true.
Proof. vm_compute. reflexivity. Qed.
Lemma safe_is_consistent_expand_simple : consistent_order expand_simple_effects = true.
Proof. vm_compute. reflexivity. Qed.
Theorem stream_in_order_consistent : consistent_order stream_in_effects = true.
Proof. vm_compute. reflexivity. Qed.
Corollary stream_in_failure_leaves_no_unbumped_write : forall k b, run_pending stream_in_effects k false = Some b -> b = false.
Proof. apply consistent_order_failure_leaves_no_unbumped_write. exact stream_in_order_consistent. Qed.

(* the order before the repair 11077aa (bump as the last statement) is rejected, with the failing opportunity *)
Example stream_in_bump_last_is_inconsistent :
  consistent_order [ReadBuckets; GrowLocks; SwapBuckets; ReadScalar; ReadScalar; ReadScalar; SetLimits; SetLimits; Bump] = false /\
  run_pending [ReadBuckets; GrowLocks; SwapBuckets; ReadScalar; ReadScalar; ReadScalar; SetLimits; SetLimits; Bump] 5 false = Some true.
Proof. vm_compute. split; reflexivity. Qed.

(* non-vacuity: the orders do contain failing opportunities and publications *)
Example fast_double_has_three_failing_opportunities :
  run fast_double_effects 0 false = Some false /\ run fast_double_effects 1 false = Some false /\
  run fast_double_effects 2 false = Some false /\ run fast_double_effects 3 false = None.
Proof. vm_compute. repeat split. Qed.
(* the seeded order (lock array grown before the bucket array is allocated) is rejected, with its witness *)
Example grown_before_allocated_is_unsafe :
  safe_order [LockAll; Validate; GrowLocks; AllocBuckets; SwapBuckets; AssignBuckets; Bump] = false /\
  run [LockAll; Validate; GrowLocks; AllocBuckets; SwapBuckets; AssignBuckets; Bump] 2 false = Some true.
Proof. vm_compute. split; reflexivity. Qed.
