(* CodecW.v: the width-generic file codec of the C wrapper.

   CApi.v / Codec.v fix the format for `int` keys and `int` values (4 + 4 bytes).  The C template
   (libcuckoo-c/cuckoo_table_template.cc) is generic in the key and mapped types: the format is
     "8-byte little-endian element count, then for every element the raw bytes of the key
      followed by the raw bytes of the mapped value"
   with NO padding between or after them, whatever the in-memory layout of the pair is.

   This file gives the codec for arbitrary key width kw and value width vw (in bytes; keys and
   values are the unsigned numbers their bytes denote, < 256^kw resp. < 256^vw), and proves
     decode_encode_w, prefix_fails_w, encode_length_w, decode_records_w_None_iff,
     encode_file_w_4_4 (agreement with CApi.encode_file), decode_file_w_4_4 (same for the reader),
     padding_is_not_part_of_the_format (+ padded_reader_rejects, padded_file_is_accepted).
   None of the theorems needs (0 < kw + vw); the degenerate case kw = vw = 0 is covered too
   (except where stated). *)
From Coq Require Import NArith ZArith List Bool Lia Arith.
From LC Require Import CApi Codec.
Import ListNotations.
Local Open Scope N_scope.

(* ------------------------------------------------------------------ 1. definitions *)
Definition encode_pair_w (kw vw : nat) (kv : N * N) : list N :=
  le_bytes kw (fst kv) ++ le_bytes vw (snd kv).

Definition encode_file_w (kw vw : nat) (count : N) (pairs : list (N * N)) : list N :=
  le_bytes 8 count ++ flat_map (encode_pair_w kw vw) pairs.

(* the record loop: exactly n records of kw + vw bytes; None = a short read *)
Fixpoint decode_records_w (kw vw : nat) (n : nat) (bs : list N) : option (list (N * N)) :=
  match n with
  | O => Some []
  | S n' =>
    match take_bytes kw bs with
    | None => None
    | Some (kb, r1) =>
      match take_bytes vw r1 with
      | None => None
      | Some (vb, r2) =>
        match decode_records_w kw vw n' r2 with
        | None => None
        | Some ps => Some ((le_value kb, le_value vb) :: ps)
        end
      end
    end
  end.

(* same shape as CApi.decode_file: the count is read first, then that many records; trailing
   bytes are ignored.  [N.to_nat count] is only as large as the count field actually read, so
   small files compute fast under vm_compute. *)
Definition decode_file_w (kw vw : nat) (bs : list N) : option (N * list (N * N)) :=
  match take_bytes 8 bs with
  | None => None
  | Some (cb, r) =>
    let count := le_value cb in
    match decode_records_w kw vw (N.to_nat count) r with
    | None => None
    | Some ps => Some (count, ps)
    end
  end.

(* a variant that compares the count against the number of remaining bytes (in binary) before
   converting it to unary: it computes fast even on a file whose count field is garbage
   (up to 2^64).  Proved equal to decode_file_w below (decode_file_w_chk_eq). *)
Definition decode_file_w_chk (kw vw : nat) (bs : list N) : option (N * list (N * N)) :=
  match take_bytes 8 bs with
  | None => None
  | Some (cb, r) =>
    let count := le_value cb in
    if N.of_nat (length r) <? N.of_nat (kw + vw) * count then None
    else
      match decode_records_w kw vw (N.to_nat count) r with
      | None => None
      | Some ps => Some (count, ps)
      end
  end.

Definition pair_ok_w (kw vw : nat) (kv : N * N) : Prop :=
  fst kv < 256 ^ N.of_nat kw /\ snd kv < 256 ^ N.of_nat vw.

(* ------------------------------------------------------------------ 2. one record *)
Lemma decode_records_w_S : forall kw vw n bs,
  decode_records_w kw vw (S n) bs =
  match take_bytes kw bs with
  | None => None
  | Some (kb, r1) =>
    match take_bytes vw r1 with
    | None => None
    | Some (vb, r2) =>
      match decode_records_w kw vw n r2 with
      | None => None
      | Some ps => Some ((le_value kb, le_value vb) :: ps)
      end
    end
  end.
Proof. reflexivity. Qed.

Lemma encode_pair_w_length : forall kw vw kv,
  length (encode_pair_w kw vw kv) = (kw + vw)%nat.
Proof.
  intros kw vw kv. unfold encode_pair_w. rewrite app_length, !le_bytes_length. reflexivity.
Qed.

Lemma decode_records_w_cons : forall kw vw n k v rest,
  k < 256 ^ N.of_nat kw -> v < 256 ^ N.of_nat vw ->
  decode_records_w kw vw (S n) (encode_pair_w kw vw (k, v) ++ rest) =
  match decode_records_w kw vw n rest with
  | None => None
  | Some ps => Some ((k, v) :: ps)
  end.
Proof.
  intros kw vw n k v rest Hk Hv. rewrite decode_records_w_S.
  unfold encode_pair_w. cbn [fst snd]. rewrite <- app_assoc.
  rewrite (take_bytes_app kw (le_bytes kw k)) by apply le_bytes_length.
  rewrite (take_bytes_app vw (le_bytes vw v)) by apply le_bytes_length.
  rewrite (le_value_le_bytes kw k Hk), (le_value_le_bytes vw v Hv). reflexivity.
Qed.

Theorem pair_roundtrip_w : forall kw vw k v rest,
  k < 256 ^ N.of_nat kw -> v < 256 ^ N.of_nat vw ->
  decode_records_w kw vw 1 (encode_pair_w kw vw (k, v) ++ rest) = Some [(k, v)].
Proof.
  intros kw vw k v rest Hk Hv. rewrite (decode_records_w_cons kw vw 0 k v rest Hk Hv). reflexivity.
Qed.

(* ------------------------------------------------------------------ 3. lengths *)
Lemma flat_map_encode_w_length : forall kw vw ps,
  length (flat_map (encode_pair_w kw vw) ps) = ((kw + vw) * length ps)%nat.
Proof.
  intros kw vw. induction ps as [|kv ps IH]; cbn [flat_map length].
  - now rewrite Nat.mul_0_r.
  - rewrite app_length, encode_pair_w_length, IH, Nat.mul_succ_r. lia.
Qed.

Theorem encode_length_w : forall kw vw cnt ps,
  length (encode_file_w kw vw cnt ps) = (8 + (kw + vw) * length ps)%nat.
Proof.
  intros kw vw cnt ps. unfold encode_file_w.
  rewrite app_length, le_bytes_length, flat_map_encode_w_length. reflexivity.
Qed.

(* ------------------------------------------------------------------ 4. whole file *)
Lemma decode_records_w_encode : forall kw vw ps extra,
  Forall (pair_ok_w kw vw) ps ->
  decode_records_w kw vw (length ps) (flat_map (encode_pair_w kw vw) ps ++ extra) = Some ps.
Proof.
  intros kw vw. induction ps as [|[k v] ps IH]; intros extra Hok.
  - reflexivity.
  - inversion Hok as [|kv ps' Hkv Hps]; subst.
    destruct Hkv as [Hk Hv]. cbn [fst snd] in Hk, Hv.
    cbn [flat_map length]. rewrite <- app_assoc.
    rewrite (decode_records_w_cons kw vw (length ps) k v _ Hk Hv).
    rewrite (IH extra Hps). reflexivity.
Qed.

Theorem decode_encode_w_extra : forall kw vw ps extra,
  Forall (pair_ok_w kw vw) ps ->
  N.of_nat (length ps) < 2 ^ 64 ->
  decode_file_w kw vw (encode_file_w kw vw (N.of_nat (length ps)) ps ++ extra)
  = Some (N.of_nat (length ps), ps).
Proof.
  intros kw vw ps extra Hok Hcnt. unfold decode_file_w, encode_file_w.
  rewrite <- app_assoc.
  rewrite (take_bytes_app 8 (le_bytes 8 (N.of_nat (length ps)))) by apply le_bytes_length.
  rewrite (le_value_le_bytes 8 (N.of_nat (length ps))) by (rewrite pow256_8; exact Hcnt).
  rewrite Nat2N.id.
  rewrite (decode_records_w_encode kw vw ps extra Hok). reflexivity.
Qed.

Theorem decode_encode_w : forall kw vw ps,
  Forall (pair_ok_w kw vw) ps ->
  N.of_nat (length ps) < 2 ^ 64 ->
  decode_file_w kw vw (encode_file_w kw vw (N.of_nat (length ps)) ps)
  = Some (N.of_nat (length ps), ps).
Proof.
  intros kw vw ps Hok Hcnt.
  pose proof (decode_encode_w_extra kw vw ps [] Hok Hcnt) as H.
  rewrite app_nil_r in H. exact H.
Qed.

(* ------------------------------------------------------------------ 5. truncation *)
Lemma decode_records_w_short : forall kw vw n bs,
  (length bs < (kw + vw) * n)%nat -> decode_records_w kw vw n bs = None.
Proof.
  intros kw vw. induction n as [|n IH]; intros bs Hl.
  - rewrite Nat.mul_0_r in Hl. lia.
  - rewrite Nat.mul_succ_r in Hl. rewrite decode_records_w_S.
    destruct (le_lt_dec kw (length bs)) as [Hk|Hk].
    + rewrite (take_bytes_long kw bs Hk).
      assert (Hs1 : length (skipn kw bs) = (length bs - kw)%nat) by apply skipn_length.
      destruct (le_lt_dec vw (length (skipn kw bs))) as [Hv|Hv].
      * rewrite (take_bytes_long vw _ Hv).
        assert (Hs2 : length (skipn vw (skipn kw bs)) = (length (skipn kw bs) - vw)%nat)
          by apply skipn_length.
        rewrite (IH (skipn vw (skipn kw bs))) by lia. reflexivity.
      * rewrite (take_bytes_short vw _ Hv). reflexivity.
    + rewrite (take_bytes_short kw bs Hk). reflexivity.
Qed.

Lemma decode_records_w_long : forall kw vw n bs,
  ((kw + vw) * n <= length bs)%nat -> decode_records_w kw vw n bs <> None.
Proof.
  intros kw vw. induction n as [|n IH]; intros bs Hl.
  - cbn [decode_records_w]. discriminate.
  - rewrite Nat.mul_succ_r in Hl. rewrite decode_records_w_S.
    assert (Hs1 : length (skipn kw bs) = (length bs - kw)%nat) by apply skipn_length.
    assert (Hs2 : length (skipn vw (skipn kw bs)) = (length (skipn kw bs) - vw)%nat)
      by apply skipn_length.
    rewrite (take_bytes_long kw bs) by lia.
    rewrite (take_bytes_long vw (skipn kw bs)) by lia.
    specialize (IH (skipn vw (skipn kw bs)) ltac:(lia)).
    destruct (decode_records_w kw vw n (skipn vw (skipn kw bs))) as [ps|].
    + discriminate.
    + now contradiction IH.
Qed.

(* the record loop succeeds exactly when enough bytes remain *)
Theorem decode_records_w_None_iff : forall kw vw n bs,
  decode_records_w kw vw n bs = None <-> (length bs < (kw + vw) * n)%nat.
Proof.
  intros kw vw n bs. split.
  - intros Hn. destruct (le_lt_dec ((kw + vw) * n) (length bs)) as [Hge|Hlt]; [|exact Hlt].
    exfalso. exact (decode_records_w_long kw vw n bs Hge Hn).
  - apply decode_records_w_short.
Qed.

(* a successful record loop returns exactly n records *)
Lemma decode_records_w_Some_length : forall kw vw n bs ps,
  decode_records_w kw vw n bs = Some ps -> length ps = n.
Proof.
  intros kw vw. induction n as [|n IH]; intros bs ps H.
  - cbn [decode_records_w] in H. injection H as <-. reflexivity.
  - rewrite decode_records_w_S in H.
    destruct (take_bytes kw bs) as [[kb r1]|]; [|discriminate].
    destruct (take_bytes vw r1) as [[vb r2]|]; [|discriminate].
    destruct (decode_records_w kw vw n r2) as [ps'|] eqn:E; [|discriminate].
    injection H as <-. cbn [length]. now rewrite (IH r2 ps' E).
Qed.

(* truncation depends only on the count field being intact, not on the pair ranges *)
Lemma prefix_fails_gen_w : forall kw vw cnt (recs : list N) j,
  cnt < 2 ^ 64 ->
  length recs = ((kw + vw) * N.to_nat cnt)%nat ->
  (j < 8 + length recs)%nat ->
  decode_file_w kw vw (firstn j (le_bytes 8 cnt ++ recs)) = None.
Proof.
  intros kw vw cnt recs j Hcnt Hrecs Hj. unfold decode_file_w.
  destruct (le_lt_dec 8 j) as [H8|H8].
  - rewrite firstn_app, le_bytes_length.
    rewrite (firstn_all2 (le_bytes 8 cnt)) by (rewrite le_bytes_length; exact H8).
    rewrite (take_bytes_app 8 (le_bytes 8 cnt)) by apply le_bytes_length.
    rewrite (le_value_le_bytes 8 cnt) by (rewrite pow256_8; exact Hcnt).
    rewrite decode_records_w_short; [reflexivity|].
    rewrite firstn_length. lia.
  - rewrite take_bytes_short; [reflexivity|].
    rewrite firstn_length. lia.
Qed.

Theorem prefix_fails_w : forall kw vw ps j,
  Forall (pair_ok_w kw vw) ps ->
  N.of_nat (length ps) < 2 ^ 64 ->
  (j < length (encode_file_w kw vw (N.of_nat (length ps)) ps))%nat ->
  decode_file_w kw vw (firstn j (encode_file_w kw vw (N.of_nat (length ps)) ps)) = None.
Proof.
  intros kw vw ps j _ Hcnt Hj. rewrite encode_length_w in Hj. unfold encode_file_w.
  apply prefix_fails_gen_w.
  - exact Hcnt.
  - rewrite Nat2N.id. apply flat_map_encode_w_length.
  - rewrite flat_map_encode_w_length. exact Hj.
Qed.

Corollary prefix_fails_w_app : forall kw vw ps p q,
  Forall (pair_ok_w kw vw) ps ->
  N.of_nat (length ps) < 2 ^ 64 ->
  encode_file_w kw vw (N.of_nat (length ps)) ps = p ++ q ->
  q <> [] ->
  decode_file_w kw vw p = None.
Proof.
  intros kw vw ps p q Hok Hcnt Heq Hq.
  assert (Hp : p = firstn (length p) (encode_file_w kw vw (N.of_nat (length ps)) ps)).
  { rewrite Heq. symmetry. apply firstn_length_app. }
  rewrite Hp. apply prefix_fails_w; [exact Hok | exact Hcnt |].
  rewrite Heq, app_length. destruct q as [|b q]; [now contradiction Hq|].
  cbn [length]. lia.
Qed.

(* ------------------------------------------------------------------ 6. the checked reader *)
Theorem decode_file_w_chk_eq : forall kw vw bs,
  decode_file_w_chk kw vw bs = decode_file_w kw vw bs.
Proof.
  intros kw vw bs. unfold decode_file_w_chk, decode_file_w.
  destruct (take_bytes 8 bs) as [[cb r]|]; [|reflexivity].
  cbv zeta.
  destruct (N.ltb_spec (N.of_nat (length r)) (N.of_nat (kw + vw) * le_value cb)) as [Hlt|Hge];
    [|reflexivity].
  rewrite decode_records_w_short; [reflexivity|].
  rewrite <- (N2Nat.id (le_value cb)) in Hlt.
  rewrite <- Nat2N.inj_mul in Hlt. lia.
Qed.

(* ------------------------------------------------------------------ 7. agreement with CApi *)
Lemma encode_pair_w_4_4 : forall kv : N * Z,
  encode_pair_w 4 4 (fst kv, int_to_u32 (snd kv)) = encode_pair kv.
Proof. intros kv. reflexivity. Qed.

Theorem encode_file_w_4_4 : forall cnt (ps : list (N * Z)),
  encode_file_w 4 4 cnt (map (fun kv => (fst kv, int_to_u32 (snd kv))) ps) = encode_file cnt ps.
Proof.
  intros cnt ps. unfold encode_file_w, encode_file. f_equal.
  induction ps as [|kv ps IH]; cbn [map flat_map].
  - reflexivity.
  - rewrite IH, encode_pair_w_4_4. reflexivity.
Qed.

(* the readers agree too: CApi's is the generic one followed by the u32 -> int reinterpretation *)
Lemma decode_records_w_4_4 : forall n bs,
  decode_records n bs =
  option_map (map (fun kv : N * N => (fst kv, u32_to_int (snd kv)))) (decode_records_w 4 4 n bs).
Proof.
  induction n as [|n IH]; intros bs.
  - reflexivity.
  - rewrite decode_records_S, decode_records_w_S.
    destruct (take_bytes 4 bs) as [[kb r1]|]; [|reflexivity].
    destruct (take_bytes 4 r1) as [[vb r2]|]; [|reflexivity].
    rewrite IH. destruct (decode_records_w 4 4 n r2) as [ps|]; reflexivity.
Qed.

Theorem decode_file_w_4_4 : forall bs,
  decode_file bs =
  option_map (fun cp : N * list (N * N) =>
                (fst cp, map (fun kv : N * N => (fst kv, u32_to_int (snd kv))) (snd cp)))
             (decode_file_w 4 4 bs).
Proof.
  intros bs. unfold decode_file, decode_file_w.
  destruct (take_bytes 8 bs) as [[cb r]|]; [|reflexivity].
  cbv zeta. rewrite decode_records_w_4_4.
  destruct (decode_records_w 4 4 (N.to_nat (le_value cb)) r) as [ps|]; reflexivity.
Qed.

(* ------------------------------------------------------------------ 8. padding *)
(* A writer that dumps the in-memory representation of each element (sizeof(pair) bytes) would
   emit [mid] padding bytes between key and value and [tail] padding bytes after the value
   (std::pair<uint16_t,uint64_t>: mid = 6, tail = 0; std::pair<uint64_t,uint16_t>: mid = 0,
   tail = 6).  [fill] is the content of the padding bytes. *)
Definition encode_pair_padded (kw vw mid tail : nat) (fill : N) (kv : N * N) : list N :=
  le_bytes kw (fst kv) ++ repeat fill mid ++ le_bytes vw (snd kv) ++ repeat fill tail.

Definition encode_file_padded (kw vw mid tail : nat) (fill : N) (count : N) (pairs : list (N * N))
  : list N :=
  le_bytes 8 count ++ flat_map (encode_pair_padded kw vw mid tail fill) pairs.

Lemma encode_pair_padded_length : forall kw vw mid tail fill kv,
  length (encode_pair_padded kw vw mid tail fill kv) = (kw + vw + (mid + tail))%nat.
Proof.
  intros kw vw mid tail fill kv. unfold encode_pair_padded.
  rewrite !app_length, !le_bytes_length, !repeat_length. lia.
Qed.

Lemma flat_map_padded_length : forall kw vw mid tail fill ps,
  length (flat_map (encode_pair_padded kw vw mid tail fill) ps)
  = ((kw + vw + (mid + tail)) * length ps)%nat.
Proof.
  intros kw vw mid tail fill. induction ps as [|kv ps IH]; cbn [flat_map length].
  - now rewrite Nat.mul_0_r.
  - rewrite app_length, encode_pair_padded_length, IH, Nat.mul_succ_r. lia.
Qed.

Theorem encode_file_padded_length : forall kw vw mid tail fill cnt ps,
  length (encode_file_padded kw vw mid tail fill cnt ps)
  = (8 + (kw + vw + (mid + tail)) * length ps)%nat.
Proof.
  intros kw vw mid tail fill cnt ps. unfold encode_file_padded.
  rewrite app_length, le_bytes_length, flat_map_padded_length. reflexivity.
Qed.

(* no padding = the format *)
Lemma encode_file_padded_0 : forall kw vw fill cnt ps,
  encode_file_padded kw vw 0 0 fill cnt ps = encode_file_w kw vw cnt ps.
Proof.
  intros kw vw fill cnt ps. unfold encode_file_padded, encode_file_w. f_equal.
  induction ps as [|kv ps IH]; cbn [flat_map].
  - reflexivity.
  - rewrite IH. unfold encode_pair_padded, encode_pair_w. cbn [repeat app].
    now rewrite app_nil_r.
Qed.

(* (a) a padded file of a non-empty table is never the file of the format: it is strictly longer,
       by exactly (mid + tail) bytes per element *)
Theorem padding_is_not_part_of_the_format : forall kw vw mid tail fill cnt ps,
  (0 < mid + tail)%nat -> ps <> [] ->
  length (encode_file_padded kw vw mid tail fill cnt ps)
    = (length (encode_file_w kw vw cnt ps) + (mid + tail) * length ps)%nat /\
  (length (encode_file_w kw vw cnt ps) < length (encode_file_padded kw vw mid tail fill cnt ps))%nat /\
  encode_file_padded kw vw mid tail fill cnt ps <> encode_file_w kw vw cnt ps.
Proof.
  intros kw vw mid tail fill cnt ps Hpad Hne.
  assert (Hlen : length (encode_file_padded kw vw mid tail fill cnt ps)
    = (length (encode_file_w kw vw cnt ps) + (mid + tail) * length ps)%nat).
  { rewrite encode_file_padded_length, encode_length_w, Nat.mul_add_distr_r. lia. }
  assert (Hpos : (0 < (mid + tail) * length ps)%nat).
  { destruct ps as [|kv ps]; [now contradiction Hne|].
    cbn [length]. rewrite Nat.mul_succ_r. lia. }
  split; [exact Hlen|]. split; [lia|].
  intros Heq. rewrite Heq in Hlen. lia.
Qed.

(* (b) a reader that expects padded records (record size kw + vw + pad, here modelled by widening
       the value field) rejects every file of the format that has at least one element *)
Theorem padded_reader_rejects : forall kw vw pad ps,
  (0 < pad)%nat -> ps <> [] ->
  N.of_nat (length ps) < 2 ^ 64 ->
  decode_file_w kw (vw + pad) (encode_file_w kw vw (N.of_nat (length ps)) ps) = None.
Proof.
  intros kw vw pad ps Hpad Hne Hcnt. unfold decode_file_w, encode_file_w.
  rewrite (take_bytes_app 8 (le_bytes 8 (N.of_nat (length ps)))) by apply le_bytes_length.
  rewrite (le_value_le_bytes 8 (N.of_nat (length ps))) by (rewrite pow256_8; exact Hcnt).
  cbv zeta. rewrite Nat2N.id.
  rewrite decode_records_w_short; [reflexivity|].
  rewrite flat_map_encode_w_length.
  destruct ps as [|kv ps]; [now contradiction Hne|].
  cbn [length]. rewrite !Nat.mul_succ_r.
  assert (Hm : ((kw + vw) * length ps <= (kw + (vw + pad)) * length ps)%nat)
    by (apply Nat.mul_le_mono_r; lia).
  lia.
Qed.

(* (c) the reader of the format does NOT reject a padded file (it is long enough): it returns
       count-many records read at the unpadded stride, i.e. it silently misreads it.  So the
       absence of padding cannot be observed as a read failure - only as wrong contents (see the
       examples below) - and must be part of the specification of the writer. *)
Theorem padded_file_is_accepted : forall kw vw mid tail fill ps,
  N.of_nat (length ps) < 2 ^ 64 ->
  exists qs, length qs = length ps /\
    decode_file_w kw vw (encode_file_padded kw vw mid tail fill (N.of_nat (length ps)) ps)
    = Some (N.of_nat (length ps), qs).
Proof.
  intros kw vw mid tail fill ps Hcnt. unfold decode_file_w, encode_file_padded.
  rewrite (take_bytes_app 8 (le_bytes 8 (N.of_nat (length ps)))) by apply le_bytes_length.
  rewrite (le_value_le_bytes 8 (N.of_nat (length ps))) by (rewrite pow256_8; exact Hcnt).
  cbv zeta. rewrite Nat2N.id.
  destruct (decode_records_w kw vw (length ps)
              (flat_map (encode_pair_padded kw vw mid tail fill) ps)) as [qs|] eqn:E.
  - exists qs. split; [|reflexivity].
    exact (decode_records_w_Some_length kw vw _ _ _ E).
  - exfalso. apply decode_records_w_None_iff in E.
    rewrite flat_map_padded_length in E.
    assert (Hm : ((kw + vw) * length ps <= (kw + vw + (mid + tail)) * length ps)%nat)
      by (apply Nat.mul_le_mono_r; lia).
    lia.
Qed.

(* FINDING (the statement suggested in the task is false as it stands): "for pad > 0 the padded
   file is not accepted with the same contents unless it has no elements" has counterexamples:
   - a single element with trailing padding only: the padded file is the file of the format
     followed by [tail] extra bytes, which the reader ignores (padded_tail_single below);
   - any number of all-zero elements with zero padding bytes (ex_padded_zero below).
   What does hold is (a)-(c) above, and the concrete misreads below. *)
Theorem padded_tail_single : forall kw vw tail fill kv,
  pair_ok_w kw vw kv ->
  decode_file_w kw vw (encode_file_padded kw vw 0 tail fill 1 [kv]) = Some (1, [kv]).
Proof.
  intros kw vw tail fill kv Hok.
  assert (Heq : encode_file_padded kw vw 0 tail fill 1 [kv]
                = encode_file_w kw vw (N.of_nat (length [kv])) [kv] ++ repeat fill tail).
  { unfold encode_file_padded, encode_file_w, encode_pair_padded, encode_pair_w.
    cbn [flat_map repeat app length N.of_nat Pos.of_succ_nat].
    rewrite !app_nil_r, <- !app_assoc. reflexivity. }
  rewrite Heq.
  apply (decode_encode_w_extra kw vw [kv] (repeat fill tail)).
  - constructor; [exact Hok | constructor].
  - reflexivity.
Qed.

(* ------------------------------------------------------------------ 9. examples *)
(* (kw, vw) = (2, 8): uint16_t -> uint64_t *)
Definition ex_pairs_2_8 : list (N * N) := [(513, 72623859790382856); (65535, 18446744073709551615)].

Example ex_pairs_2_8_ok :
  Forall (pair_ok_w 2 8) ex_pairs_2_8 /\ N.of_nat (length ex_pairs_2_8) < 2 ^ 64.
Proof.
  split.
  - repeat constructor; cbn [fst snd]; reflexivity.
  - reflexivity.
Qed.

Example ex_file_2_8 :
  encode_file_w 2 8 2 ex_pairs_2_8 =
  [2;0;0;0;0;0;0;0;  1;2; 8;7;6;5;4;3;2;1;  255;255; 255;255;255;255;255;255;255;255].
Proof. vm_compute. reflexivity. Qed.

Example ex_decodes_2_8 : decode_file_w 2 8 (encode_file_w 2 8 2 ex_pairs_2_8) = Some (2, ex_pairs_2_8).
Proof. vm_compute. reflexivity. Qed.

Example ex_length_2_8 : length (encode_file_w 2 8 2 ex_pairs_2_8) = 28%nat.
Proof. vm_compute. reflexivity. Qed.

Example ex_prefix27_fails_2_8 : decode_file_w 2 8 (firstn 27 (encode_file_w 2 8 2 ex_pairs_2_8)) = None.
Proof. vm_compute. reflexivity. Qed.

Example ex_prefix7_fails_2_8 : decode_file_w 2 8 (firstn 7 (encode_file_w 2 8 2 ex_pairs_2_8)) = None.
Proof. vm_compute. reflexivity. Qed.

Example ex_all_prefixes_fail_2_8 :
  forallb (fun j => match decode_file_w 2 8 (firstn j (encode_file_w 2 8 2 ex_pairs_2_8)) with
                    | None => true | Some _ => false end) (seq 0 28) = true.
Proof. vm_compute. reflexivity. Qed.

Example ex_trailing_ignored_2_8 :
  decode_file_w 2 8 (encode_file_w 2 8 2 ex_pairs_2_8 ++ [9; 9; 9]) = Some (2, ex_pairs_2_8).
Proof. vm_compute. reflexivity. Qed.

(* (kw, vw) = (1, 8): uint8_t -> uint64_t *)
Definition ex_pairs_1_8 : list (N * N) := [(7, 1); (255, 18446744073709551615); (0, 256)].

Example ex_pairs_1_8_ok :
  Forall (pair_ok_w 1 8) ex_pairs_1_8 /\ N.of_nat (length ex_pairs_1_8) < 2 ^ 64.
Proof.
  split.
  - repeat constructor; cbn [fst snd]; reflexivity.
  - reflexivity.
Qed.

Example ex_file_1_8 :
  encode_file_w 1 8 3 ex_pairs_1_8 =
  [3;0;0;0;0;0;0;0;  7; 1;0;0;0;0;0;0;0;  255; 255;255;255;255;255;255;255;255;
   0; 0;1;0;0;0;0;0;0].
Proof. vm_compute. reflexivity. Qed.

Example ex_decodes_1_8 : decode_file_w 1 8 (encode_file_w 1 8 3 ex_pairs_1_8) = Some (3, ex_pairs_1_8).
Proof. vm_compute. reflexivity. Qed.

Example ex_length_1_8 : length (encode_file_w 1 8 3 ex_pairs_1_8) = 35%nat.
Proof. vm_compute. reflexivity. Qed.

Example ex_prefix34_fails_1_8 : decode_file_w 1 8 (firstn 34 (encode_file_w 1 8 3 ex_pairs_1_8)) = None.
Proof. vm_compute. reflexivity. Qed.

Example ex_all_prefixes_fail_1_8 :
  forallb (fun j => match decode_file_w 1 8 (firstn j (encode_file_w 1 8 3 ex_pairs_1_8)) with
                    | None => true | Some _ => false end) (seq 0 35) = true.
Proof. vm_compute. reflexivity. Qed.

(* the range hypotheses are necessary: an out-of-range key is truncated to its low bytes *)
Example ex_key_out_of_range_1_8 :
  decode_file_w 1 8 (encode_file_w 1 8 1 [(256, 5)]) = Some (1, [(0, 5)]).
Proof. vm_compute. reflexivity. Qed.

(* a count that disagrees with the number of records *)
Example ex_count_small_2_8 :
  decode_file_w 2 8 (encode_file_w 2 8 1 ex_pairs_2_8) = Some (1, [(513, 72623859790382856)]).
Proof. vm_compute. reflexivity. Qed.

Example ex_count_large_2_8 : decode_file_w 2 8 (encode_file_w 2 8 3 ex_pairs_2_8) = None.
Proof. vm_compute. reflexivity. Qed.

(* a garbage count field (2^64 - 1): the checked reader answers immediately *)
Example ex_count_huge_chk :
  decode_file_w_chk 2 8 (encode_file_w 2 8 18446744073709551615 ex_pairs_2_8) = None.
Proof. vm_compute. reflexivity. Qed.

(* agreement with CApi on Codec.ex_pairs *)
Example ex_4_4 :
  encode_file_w 4 4 2 (map (fun kv => (fst kv, int_to_u32 (snd kv))) ex_pairs) = encode_file 2 ex_pairs.
Proof. vm_compute. reflexivity. Qed.

(* the degenerate widths: records of 0 bytes *)
Example ex_0_0 : decode_file_w 0 0 (encode_file_w 0 0 2 [(0, 0); (0, 0)]) = Some (2, [(0, 0); (0, 0)]).
Proof. vm_compute. reflexivity. Qed.

(* ---- padding: std::pair<uint16_t, uint64_t> has sizeof 16 = 2 (key) + 6 (padding) + 8 (value) *)
Definition ex_pad_pairs : list (N * N) := [(1, 2); (3, 4)].

Example ex_padded_bytes :
  encode_file_padded 2 8 6 0 204 2 ex_pad_pairs =
  [2;0;0;0;0;0;0;0;
   1;0; 204;204;204;204;204;204; 2;0;0;0;0;0;0;0;
   3;0; 204;204;204;204;204;204; 4;0;0;0;0;0;0;0].
Proof. vm_compute. reflexivity. Qed.

Example ex_padded_length :
  length (encode_file_padded 2 8 6 0 204 2 ex_pad_pairs) = 40%nat /\
  length (encode_file_w 2 8 2 ex_pad_pairs) = 28%nat.
Proof. split; vm_compute; reflexivity. Qed.

(* the reader of the format accepts the padded file but yields different pairs *)
Example ex_padded_misread :
  decode_file_w 2 8 (encode_file_padded 2 8 6 0 204 2 ex_pad_pairs)
  = Some (2, [(1, 2 * 256 ^ 6 + (256 ^ 6 - 1) / 255 * 204);
              (0, 3 * 256 ^ 4 + 204 * 256 ^ 6 + 204 * 256 ^ 7)]).
Proof. vm_compute. reflexivity. Qed.

Example ex_padded_differs :
  decode_file_w 2 8 (encode_file_padded 2 8 6 0 204 2 ex_pad_pairs) <> Some (2, ex_pad_pairs) /\
  decode_file_w 2 8 (encode_file_w 2 8 2 ex_pad_pairs) = Some (2, ex_pad_pairs).
Proof. split; vm_compute; [discriminate | reflexivity]. Qed.

(* zeroed padding does not help *)
Example ex_padded_differs_zero_fill :
  decode_file_w 2 8 (encode_file_padded 2 8 6 0 0 2 ex_pad_pairs) = Some (2, [(1, 2 * 256 ^ 6); (0, 3 * 256 ^ 4)]).
Proof. vm_compute. reflexivity. Qed.

(* trailing padding (std::pair<uint64_t, uint16_t>: 8 + 2 + 6): the second record is misread *)
Example ex_padded_tail_differs :
  decode_file_w 8 2 (encode_file_padded 8 2 0 6 204 2 ex_pad_pairs)
  <> Some (2, ex_pad_pairs).
Proof. vm_compute. discriminate. Qed.

(* a reader using sizeof(pair) = 16 as the record size rejects the real file *)
Example ex_padded_reader_rejects : decode_file_w 2 (8 + 6) (encode_file_w 2 8 2 ex_pad_pairs) = None.
Proof. vm_compute. reflexivity. Qed.

(* the two counterexamples of the FINDING above *)
Example ex_padded_tail_single :
  decode_file_w 8 2 (encode_file_padded 8 2 0 6 204 1 [(5, 6)]) = Some (1, [(5, 6)]).
Proof. vm_compute. reflexivity. Qed.

Example ex_padded_zero :
  decode_file_w 2 8 (encode_file_padded 2 8 6 0 0 2 [(0, 0); (0, 0)]) = Some (2, [(0, 0); (0, 0)]).
Proof. vm_compute. reflexivity. Qed.

(* non-vacuity of the padding theorems' hypotheses on the example *)
Example ex_padding_thm :
  encode_file_padded 2 8 6 0 204 2 ex_pad_pairs <> encode_file_w 2 8 2 ex_pad_pairs.
Proof.
  apply (padding_is_not_part_of_the_format 2 8 6 0 204 2 ex_pad_pairs); [lia | discriminate].
Qed.
