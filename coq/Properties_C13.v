(* C13 - Candidate-bucket arithmetic is sound for every hash value and table size.
   Statements only; each closed by [exact] of a lemma of Bits.v about the definitions
   generated from the C++ AST (gen/HashGen.v). *)
From Coq Require Import NArith.
From LC Require Import gen.HashGen Bits.
Local Open Scope N_scope.

Theorem C13_candidates_in_range_and_alternate : forall hp h, hp < 64 ->
  let t := partial_key h in
  let i1 := index_hash hp h in
  let i2 := alt_index hp t i1 in
  i1 < 2 ^ hp /\ i2 < 2 ^ hp /\ alt_index hp t i2 = i1 /\ alt_index hp t i1 = i2.
Proof. exact candidates_sound. Qed.
Print Assumptions C13_candidates_in_range_and_alternate.

Theorem C13_alt_involutive : forall hp t i, hp < 64 -> i < 2 ^ hp ->
  alt_index hp t (alt_index hp t i) = i.
Proof. exact alt_involutive. Qed.
Print Assumptions C13_alt_involutive.

Theorem C13_alt_in_range : forall hp t i, hp < 64 -> alt_index hp t i < 2 ^ hp.
Proof. exact alt_lt. Qed.
Print Assumptions C13_alt_in_range.

Theorem C13_doubling_keeps_or_moves_up : forall hp h, hp + 1 < 64 ->
  let t := partial_key h in
  let i1 := index_hash hp h in let i2 := alt_index hp t i1 in
  let j1 := index_hash (hp + 1) h in let j2 := alt_index (hp + 1) t j1 in
  (j1 = i1 \/ j1 = i1 + 2 ^ hp) /\ (j2 = i2 \/ j2 = i2 + 2 ^ hp).
Proof. exact candidates_double. Qed.
Print Assumptions C13_doubling_keeps_or_moves_up.

Theorem C13_alt_commutes_with_doubling : forall hp t i, hp + 1 < 64 ->
  (alt_index (hp + 1) t i) mod 2 ^ hp = alt_index hp t (i mod 2 ^ hp).
Proof. exact alt_double. Qed.
Print Assumptions C13_alt_commutes_with_doubling.

Theorem C13_same_stripe_after_doubling : forall hp i, kMaxNumLocks <= 2 ^ hp ->
  lock_ind (i + 2 ^ hp) = lock_ind i.
Proof. exact stripe_stable. Qed.
Print Assumptions C13_same_stripe_after_doubling.

Theorem C13_same_stripe_any_pow2_stripe_count : forall L hp i, L < 64 -> L <= hp ->
  lock_ind_gen (2 ^ L) (i + 2 ^ hp) = lock_ind_gen (2 ^ L) i.
Proof. exact stripe_stable_gen. Qed.
Print Assumptions C13_same_stripe_any_pow2_stripe_count.

Theorem C13_stripe_count_is_power_of_two : exists L, L < 64 /\ kMaxNumLocks = 2 ^ L.
Proof. exact kMaxNumLocks_pow2. Qed.
Print Assumptions C13_stripe_count_is_power_of_two.

Theorem C13_partial_in_range : forall h, partial_key h < 256.
Proof. exact partial_range. Qed.
Print Assumptions C13_partial_in_range.

(* "the partial tag does not depend on the table size": by type - the generated
   function takes the hash only; a changed signature changes this constant. *)
Theorem C13_partial_independent_of_size : partial_key_arity = 1%nat.
Proof. reflexivity. Qed.

(* non-vacuity: concrete instances *)
Example C13_ex1 : let h := 0xdeadbeefcafef00d in let hp := 10 in
  index_hash hp h < 2 ^ hp /\ alt_index hp (partial_key h) (index_hash hp h) <> index_hash hp h.
Proof. vm_compute. split; [reflexivity|discriminate]. Qed.

(* ---- consequence for migration (Resize.v, Lazy.v): a doubling that migrates at once keeps every key; a doubling that DEFERS migration per stripe keeps every key reachable provided the old bucket count is at least the stripe count (then a bucket and its image b + old count share a stripe); finishing one stripe keeps every key ---- *)
From LC Require Import Core Api InvDefs ArrLemmas Resize Lazy.
Theorem C13_immediate_doubling_keeps_every_key :
  forall (c : config) (hash : N -> N),
  cfg_ok c ->
  forall (mode : bool) (t : table),
  settled c hash t ->
  counted c t ->
  bhp (cur t) + 1 < 62 ->
  hashsize (bhp (cur t)) < kmax c \/ mode = true /\ (length (cur_locks t) <= N.to_nat (kmax c))%nat ->
  let t' := fast_double_body c hash mode t (bhp (cur t) + 1) in
  settled c hash t' /\
  counted c t' /\
  bhp (cur t') = bhp (cur t) + 1 /\
  (forall (k : N) (v : Z), holds (cur t') k v <-> holds (cur t) k v) /\
  rc t' = wrap64 (rc t + 1) /\
  mlfn t' = mlfn t /\
  mlfd t' = mlfd t /\
  mhp t' = mhp t /\
  workers t' = workers t /\
  nrem t' = 0 /\
  length (cur_locks t') =
  PeanoNat.Nat.max (length (cur_locks t)) (N.to_nat (N.min (kmax c) (2 ^ (bhp (cur t) + 1)))).
Proof. exact fast_double_body_immediate. Qed.
Print Assumptions C13_immediate_doubling_keeps_every_key.

Theorem C13_deferred_doubling_keeps_every_key_when_stripes_divide_the_old_size :
  forall (c : config) (hash : N -> N),
  cfg_ok c ->
  forall t : table,
  settled c hash t ->
  counted c t ->
  bhp (cur t) + 1 < 62 ->
  kmax c <= hashsize (bhp (cur t)) ->
  (length (cur_locks t) <= N.to_nat (kmax c))%nat ->
  let t' := fast_double_body c hash false t (bhp (cur t) + 1) in
  wf c hash t' /\
  lcounted c t' /\
  bhp (cur t') = bhp (cur t) + 1 /\
  (forall (k : N) (v : Z), lholds c t' k v <-> holds (cur t) k v) /\
  rc t' = wrap64 (rc t + 1) /\
  mlfn t' = mlfn t /\
  mlfd t' = mlfd t /\
  mhp t' = mhp t /\
  workers t' = workers t /\
  nrem t' = kmax c /\
  cur t' = bnew (bhp (cur t) + 1) /\
  old t' = cur t /\
  length (cur_locks t') = N.to_nat (kmax c) /\ (forall l : N, l < kmax c -> mig (lock_at t' l) = false).
Proof. exact fast_double_body_deferred. Qed.
Print Assumptions C13_deferred_doubling_keeps_every_key_when_stripes_divide_the_old_size.

Theorem C13_migrating_one_stripe_keeps_every_key :
  forall (c : config) (hash : N -> N),
  cfg_ok c ->
  forall (s : bool) (t : table) (l : N),
  wfg c hash s t ->
  let t' := rehash_lock c hash s t l in
  wfg c hash s t' /\
  (forall (k : N) (v : Z), lholds c t' k v <-> lholds c t k v) /\
  (lcounted c t -> lcounted c t') /\
  mig (lock_at t' l) = true /\
  (forall l' : N, l' <> l -> lock_at t' l' = lock_at t l') /\
  (forall l' : N, mig (lock_at t l') = true -> mig (lock_at t' l') = true) /\
  bhp (cur t') = bhp (cur t) /\
  bhp (old t') = bhp (old t) /\
  length (cur_locks t') = length (cur_locks t) /\
  rc t' = rc t /\
  mlfn t' = mlfn t /\
  mlfd t' = mlfd t /\
  mhp t' = mhp t /\
  workers t' = workers t /\
  (forall b s0 : N, mig (lock_at t (b mod kmax c)) = true -> bget (cur t') b s0 = bget (cur t) b s0).
Proof. exact rehash_lock_wf. Qed.
Print Assumptions C13_migrating_one_stripe_keeps_every_key.
