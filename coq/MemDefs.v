(* MemDefs.v - the executable part (definitions only; MemModel.v holds the theorems) of a small axiomatic happens-before model of the C++11 memory-order
   fragment that libcuckoo's synchronisation relies on, with EXECUTABLE race
   detection, and theorems that the memory orders written in the source
   (generated file gen/MemOrders.v, regenerated from the C++ on every run) are
   sufficient - and necessary - for data-race freedom of lock-protected data
   and of the deferred-migration deallocation.

   If somebody weakens e.g. memory_order_release in spinlock::unlock to relaxed,
   the regenerated [sites] no longer satisfies [source_orders_sufficient], this
   file stops compiling, and [weak_lock_orders_race] exhibits a racy execution.

   Model.
   - An execution is a list of events in interleaving order; the position in
     the list is the identity of the event.
   - program order (po): same thread, earlier in the list.
   - synchronises-with (sw):
       (1) [Clr t lk] at i and [Tas t' lk] at j>i such that no other
           modification (Tas/Clr) of lk lies between them - i.e. the successful
           test_and_set READS the value written by the clear - provided the
           clear is a release and the test_and_set an acquire operation.
           (On lock-well-formed executions this is exactly "the next Tas on lk
           after the Clr"; see [wf_next_tas_reads_clr].)
       (2) [Dec t] at i and a later [Dec t'] at j, provided fetch_sub is both
           release and acquire: all operations on that counter are RMWs, so
           every later RMW is in the release sequence of every earlier one.
   - hb = transitive closure of po U sw.  Both go forward in the list, so hb is
     computed by one forward pass ([hbrows]): row j = set of i with i hb j,
     as a bool list, = union over the (at most three) DIRECT predecessors d of
     j of (row d U {d}).
   [memory_order_consume] is treated as NOT acquire (conservative). *)

From Coq Require Import String.
From Coq Require Import List Bool Arith Lia.
From LC.gen Require Import MemOrders.
Import ListNotations.

Set Implicit Arguments.

(* ------------------------------------------------------------------ *)
(** * 1. Orders, events, reading the orders off the generated site list *)

Definition is_acq (o : morder) : bool :=
  match o with Acquire | AcqRel | SeqCst => true | _ => false end.
Definition is_rel (o : morder) : bool :=
  match o with Release | AcqRel | SeqCst => true | _ => false end.

Inductive ev :=
| Tas (t lk : nat)   (* thread t: successful test_and_set on spinlock lk *)
| Clr (t lk : nat)   (* thread t: clear on spinlock lk (unlock) *)
| Dec (t : nat)      (* thread t: fetch_sub(1) on the remaining-stripes counter *)
| Rd (t x : nat)     (* plain read of location x *)
| Wr (t x : nat).    (* plain write of location x *)

Definition exec := list ev.

Record orders := { o_tas : morder; o_clr : morder; o_dec : morder }.

(* the weaker of two orders: acquire (release) only if both are *)
Definition meet (a b : morder) : morder :=
  match a, b with
  | SeqCst, SeqCst => SeqCst
  | _, _ =>
    match is_acq a && is_acq b, is_rel a && is_rel b with
    | true, true => AcqRel
    | true, false => Acquire
    | false, true => Release
    | false, false => Relaxed
    end
  end.

Lemma meet_acq a b : is_acq (meet a b) = is_acq a && is_acq b.
Proof. destruct a, b; reflexivity. Qed.
Lemma meet_rel a b : is_rel (meet a b) = is_rel a && is_rel b.
Proof. destruct a, b; reflexivity. Qed.

(* the unique order at call site (function f, atomic method m); None if the
   site is missing, duplicated, or has not exactly one memory_order argument *)
Definition site_order (s : list (string * string * list morder)) (f m : string)
  : option morder :=
  match filter (fun x => String.eqb (fst (fst x)) f && String.eqb (snd (fst x)) m) s with
  | [(_, [o])] => Some o
  | _ => None
  end.

Definition orders_of_sites (s : list (string * string * list morder)) : option orders :=
  match site_order s "lock"%string "test_and_set"%string,
        site_order s "try_lock"%string "test_and_set"%string,
        site_order s "unlock"%string "clear"%string,
        site_order s "decrement_num_remaining_lazy_rehash_locks"%string "fetch_sub"%string with
  | Some a, Some b, Some c, Some d =>
      Some {| o_tas := meet a b; o_clr := c; o_dec := d |}
  | _, _, _, _ => None
  end.

(* ------------------------------------------------------------------ *)
(** * 2. Executable happens-before *)

Definition tid (a : ev) : nat :=
  match a with Tas t _ | Clr t _ | Dec t | Rd t _ | Wr t _ => t end.

(* a modifies the atomic flag of lock lk *)
Definition mods (lk : nat) (a : ev) : bool :=
  match a with Tas _ l | Clr _ l => l =? lk | _ => false end.

Definition is_dec (a : ev) : bool := match a with Dec _ => true | _ => false end.

(* [rpre] is the REVERSED prefix (head = the event just before the current
   one) and [rs] the hb rows of those events, aligned with rpre.  Returns the
   latest event satisfying p with its index in execution order and its row.
   (No comparison of large unary numbers anywhere: the whole pass is O(n^2)
   constructor steps.) *)
Fixpoint find_back (p : ev -> bool) (rpre : list ev) (rs : list (list bool))
  : option (nat * ev * list bool) :=
  match rpre, rs with
  | a :: r, row :: rs' => if p a then Some (length r, a, row) else find_back p r rs'
  | _, _ => None
  end.

Definition sync_lock (o : orders) : bool := is_rel (o_clr o) && is_acq (o_tas o).
Definition sync_dec (o : orders) : bool := is_rel (o_dec o) && is_acq (o_dec o).

(* direct hb-predecessors (index, row) of event a whose reversed prefix is rpre:
   the previous event of the same thread; for a Tas, the Clr it reads from;
   for a Dec, the previous Dec. *)
Definition dpreds (o : orders) (rpre : list ev) (rs : list (list bool)) (a : ev)
  : list (nat * list bool) :=
  (match find_back (fun b => tid b =? tid a) rpre rs with
   | Some (d, _, row) => [(d, row)] | None => [] end) ++
  (match a with
   | Tas _ lk =>
       if sync_lock o then
         match find_back (mods lk) rpre rs with
         | Some (d, Clr _ _, row) => [(d, row)] | _ => [] end
       else []
   | Dec _ =>
       if sync_dec o then
         match find_back is_dec rpre rs with
         | Some (d, _, row) => [(d, row)] | None => [] end
       else []
   | _ => []
   end).

(* sets of event indices as bool lists *)
Fixpoint orl (a b : list bool) : list bool :=
  match a, b with
  | [], _ => b
  | _, [] => a
  | x :: a', y :: b' => (x || y) :: orl a' b'
  end.

Fixpoint single (k : nat) : list bool :=
  match k with 0 => [true] | S k' => false :: single k' end.

(* row of an event = union over its direct predecessors d of (row d U {d}) *)
Definition row_of (ds : list (nat * list bool)) : list bool :=
  fold_right (fun d acc => orl (orl (snd d) (single (fst d))) acc) [] ds.

(* rows of the hb matrix, latest event first (aligned with the reversed list) *)
Fixpoint rrows (o : orders) (re : list ev) : list (list bool) :=
  match re with
  | [] => []
  | a :: rpre =>
      let rs := rrows o rpre in
      row_of (dpreds o rpre rs a) :: rs
  end.

(* row j (in execution order) = the set of i with i hb j *)
Definition hbrows (o : orders) (e : exec) : list (list bool) := rev (rrows o (rev e)).

(* event i happens-before event j *)
Definition hb_b (o : orders) (e : exec) (i j : nat) : bool :=
  nth i (nth j (hbrows o e) []) false.

(* conflicting plain accesses: same location, different threads, one a write *)
Definition conflict (a b : ev) : bool :=
  match a, b with
  | Rd t x, Wr t' y | Wr t x, Rd t' y | Wr t x, Wr t' y => (x =? y) && negb (t =? t')
  | _, _ => false
  end.

(* races whose later event is b = event j, given row = hb-predecessors of j;
   scans the first c events of e (c = j), i = index of the head of e *)
Fixpoint scan_row (j : nat) (b : ev) (c i : nat) (e : list ev) (row : list bool)
  : list (nat * nat) :=
  match c, e with
  | S c', a :: e' =>
      let rest := scan_row j b c' (S i) e' (tl row) in
      if conflict a b && negb (hd false row) then (i, j) :: rest else rest
  | _, _ => []
  end.

Fixpoint races_from (j : nat) (eall rest : list ev) (rows : list (list bool))
  : list (nat * nat) :=
  match rest, rows with
  | b :: rest', row :: rows' =>
      scan_row j b j 0 eall row ++ races_from (S j) eall rest' rows'
  | _, _ => []
  end.

(* all pairs i<j of conflicting plain accesses not ordered by hb *)
Definition races (o : orders) (e : exec) : list (nat * nat) :=
  races_from 0 e e (hbrows o e).

(* ------------------------------------------------------------------ *)
(** * 3. Lock discipline (executable) *)

Definition lstate := nat -> option nat.     (* lock -> current holder *)
Definition upd (s : lstate) (lk : nat) (v : option nat) : lstate :=
  fun l => if l =? lk then v else s l.
Definition lstep (s : lstate) (a : ev) : lstate :=
  match a with
  | Tas t lk => upd s lk (Some t)
  | Clr _ lk => upd s lk None
  | _ => s
  end.
Definition ev_ok (s : lstate) (a : ev) : bool :=
  match a with
  | Tas _ lk => match s lk with None => true | Some _ => false end
  | Clr t lk => match s lk with Some t' => t =? t' | None => false end
  | _ => true
  end.
Fixpoint wf_from (s : lstate) (e : list ev) : bool :=
  match e with [] => true | a :: e' => ev_ok s a && wf_from (lstep s a) e' end.
(* a Tas only succeeds on a free lock; a Clr is only done by the holder *)
Definition wf_locks (e : exec) : bool := wf_from (fun _ => None) e.

Definition acc_ok (prot : nat -> nat) (s : lstate) (a : ev) : bool :=
  match a with
  | Rd t x | Wr t x => match s (prot x) with Some t' => t =? t' | None => false end
  | _ => true
  end.
Fixpoint prot_from (prot : nat -> nat) (s : lstate) (e : list ev) : bool :=
  match e with [] => true | a :: e' => acc_ok prot s a && prot_from prot (lstep s a) e' end.
(* every plain access to x is made while the accessing thread holds prot x *)
Definition protected_by (prot : nat -> nat) (e : exec) : bool :=
  prot_from prot (fun _ => None) e.

(* the orders written in the source, as a term (Relaxed everywhere if a site is missing) *)
Definition source_orders : orders :=
  match orders_of_sites sites with
  | Some o => o
  | None => {| o_tas := Relaxed; o_clr := Relaxed; o_dec := Relaxed |}
  end.
