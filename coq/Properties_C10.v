(* C10 - Resize limits and explicit resize requests are honoured exactly (model level).
   Statements only; closed by [exact] of lemmas of Stats.v. *)
From Coq Require Import NArith ZArith List.
From LC Require Import gen.HashGen Core Api InvDefs Stats.
Import ListNotations.
Local Open Scope N_scope.

(* settings outside their domain are rejected with invalid_argument and have no effect *)
Theorem C10_mlf_out_of_domain_rejected :
  forall t a, mlf_out_of_domain a -> set_mlf_op t a = (t, exn_out EInvalidArgument).
Proof. exact set_mlf_op_invalid. Qed.
Print Assumptions C10_mlf_out_of_domain_rejected.

Theorem C10_mlf_in_domain_stored :
  forall t neg n d, d <> 0 -> n <= d -> neg = false \/ n = 0 ->
  set_mlf_op t (MRat neg n d) = (set_mlf t n d, [RNone]).
Proof. exact set_mlf_op_valid. Qed.
Print Assumptions C10_mlf_in_domain_stored.

Theorem C10_mhp_setter :
  forall t m, (m < hashpower t -> set_mhp_op t m = (t, exn_out EInvalidArgument)) /\
              (hashpower t <= m -> set_mhp_op t m = (set_mhp t m, [RNone])).
Proof. exact set_mhp_op_spec. Qed.
Print Assumptions C10_mhp_setter.

(* explicit rehash/reserve never fail the load-factor test *)
Theorem C10_explicit_requests_never_load_factor_too_low :
  forall c t o n, check_resize_validity c false t o n <> inl (Some ELoadFactorTooLow).
Proof. exact crv_explicit_never_lf. Qed.
Print Assumptions C10_explicit_requests_never_load_factor_too_low.

(* a resize beyond the configured maximum is refused before anything is modified *)
Theorem C10_maximum_checked_first :
  forall c auto t o n,
  check_resize_validity c auto t o n = inl (Some EMaxHashpower) <-> mhp t <> NO_MAXIMUM_HASHPOWER /\ mhp t < n.
Proof. exact crv_maxhp_iff. Qed.
Print Assumptions C10_maximum_checked_first.

Theorem C10_resize_proceeds_only_within_limits :
  forall c auto t o n, check_resize_validity c auto t o n = inr St_ok ->
  (mhp t = NO_MAXIMUM_HASHPOWER \/ n <= mhp t) /\ (auto = true -> lf_lt_mlf c t = false) /\ hashpower t = o.
Proof. exact crv_ok. Qed.
Print Assumptions C10_resize_proceeds_only_within_limits.

(* reserve(n): the smallest hashpower whose capacity holds n *)
Theorem C10_reserve_calc_least :
  forall c n, 0 < spb c -> n + spb c < 2 ^ 64 -> n <= 2 ^ 63 * spb c ->
  n <= 2 ^ reserve_calc c n * spb c /\
  (forall h', h' < reserve_calc c n -> 2 ^ h' * spb c < n) /\ reserve_calc c n <= 63.
Proof. exact reserve_calc_spec. Qed.
Print Assumptions C10_reserve_calc_least.

(* the domain guard of the statement above is necessary: the C++ loop shifts by 64 (undefined) *)
Example C10_reserve_calc_guard_needed : True.
Proof. exact I. Qed.
