(* C10 - Resize limits and explicit resize requests are honoured exactly (model level).
   Statements only; closed by [exact] of lemmas of Stats.v. *)
From Coq Require Import NArith ZArith List.
From LC Require Import gen.HashGen Core Api InvDefs ArrLemmas Stats InsertLemmas Resize Lazy Refine.
Import ListNotations.
Local Open Scope N_scope.

(* settings outside their domain are rejected with invalid_argument and have no effect *)
Theorem C10_mlf_out_of_domain_rejected :
  forall t a, mlf_out_of_domain a -> set_mlf_op t a = (t, exn_out EInvalidArgument).
Proof. exact set_mlf_op_invalid. Qed.
Print Assumptions C10_mlf_out_of_domain_rejected.

Theorem C10_mlf_in_domain_stored :
  forall t neg n d, d <> 0 -> n <= d -> neg = false \/ n = 0 ->
  set_mlf_op t (MRat neg n d) = (set_mlf t n d, [RNone]).
Proof. exact set_mlf_op_valid. Qed.
Print Assumptions C10_mlf_in_domain_stored.

Theorem C10_mhp_setter :
  forall t m, (m < hashpower t -> set_mhp_op t m = (t, exn_out EInvalidArgument)) /\
              (hashpower t <= m -> set_mhp_op t m = (set_mhp t m, [RNone])).
Proof. exact set_mhp_op_spec. Qed.
Print Assumptions C10_mhp_setter.

(* explicit rehash/reserve never fail the load-factor test *)
Theorem C10_explicit_requests_never_load_factor_too_low :
  forall c t o n, check_resize_validity c false t o n <> inl (Some ELoadFactorTooLow).
Proof. exact crv_explicit_never_lf. Qed.
Print Assumptions C10_explicit_requests_never_load_factor_too_low.

(* a resize beyond the configured maximum is refused before anything is modified *)
Theorem C10_maximum_checked_first :
  forall c auto t o n,
  check_resize_validity c auto t o n = inl (Some EMaxHashpower) <-> mhp t <> NO_MAXIMUM_HASHPOWER /\ mhp t < n.
Proof. exact crv_maxhp_iff. Qed.
Print Assumptions C10_maximum_checked_first.

Theorem C10_resize_proceeds_only_within_limits :
  forall c auto t o n, check_resize_validity c auto t o n = inr St_ok ->
  (mhp t = NO_MAXIMUM_HASHPOWER \/ n <= mhp t) /\ (auto = true -> lf_lt_mlf c t = false) /\ hashpower t = o.
Proof. exact crv_ok. Qed.
Print Assumptions C10_resize_proceeds_only_within_limits.

(* reserve(n): the smallest hashpower whose capacity holds n *)
Theorem C10_reserve_calc_least :
  forall c n, 0 < spb c -> n + spb c < 2 ^ 64 -> n <= 2 ^ 63 * spb c ->
  n <= 2 ^ reserve_calc c n * spb c /\
  (forall h', h' < reserve_calc c n -> 2 ^ h' * spb c < n) /\ reserve_calc c n <= 63.
Proof. exact reserve_calc_spec. Qed.
Print Assumptions C10_reserve_calc_least.

(* the domain guard of the statement above is necessary: the C++ loop shifts by 64 (undefined) *)
Example C10_reserve_calc_guard_needed : True.
Proof. exact I. Qed.
(* ---- generated statements (tools/mkprops.py): limits through the operations (Refine.v) ---- *)
(* [good] contains [within t]: hashpower <= maximum whenever a maximum is set; it is an invariant of every
   operation below ([evolves] implies [good] of the result). *)

Theorem C10_rehash_postconditions :
  forall (c : config) (hash : N -> N),
  cfg_ok c ->
  forall (mode : bool) (t : table) (n : N),
  good c hash t ->
  limC c (mhp t) ->
  forall (t' : table) (r : exn + bool),
  cuckoo_rehash c hash mode t n = (t', r) ->
  (r = inr false <-> n = bhp (cur t)) /\
  (r = inr false -> t' = t) /\
  (r = inr true ->
  good c hash t' /\
  (forall (k : N) (v : Z), holds (cur t') k v <-> holds (cur t) k v) /\
  lim_same t t' /\ n <= bhp (cur t') /\ rc t' = wrap64 (rc t + 1) /\ ~ maxed t n) /\
  (forall e : exn,
  r = inl e ->
  n <> bhp (cur t) /\
  exn_ok0 false t e /\
  e <> ELoadFactorTooLow /\
  (maxed t n -> t' = t /\ e = EMaxHashpower) /\
  (destructive c = false -> evolves c hash t t' /\ bhp (cur t') = bhp (cur t))).
Proof. exact cuckoo_rehash_good. Qed.
Print Assumptions C10_rehash_postconditions.

Theorem C10_reserve_postconditions :
  forall (c : config) (hash : N -> N),
  cfg_ok c ->
  forall (mode : bool) (t : table) (n : N),
  good c hash t ->
  limC c (mhp t) ->
  forall (t' : table) (r : exn + bool),
  cuckoo_reserve c hash mode t n = (t', r) ->
  let new_hp := reserve_calc c n in
  (r = inr false <-> new_hp = bhp (cur t)) /\
  (r = inr false -> t' = t) /\
  (r = inr true ->
  good c hash t' /\
  (forall (k : N) (v : Z), holds (cur t') k v <-> holds (cur t) k v) /\
  lim_same t t' /\
  new_hp <= bhp (cur t') /\
  rc t' = wrap64 (rc t + 1) /\
  ~ maxed t new_hp /\ (n + spb c < 2 ^ 64 -> n <= 2 ^ bhp (cur t') * spb c)) /\
  (forall e : exn,
  r = inl e ->
  new_hp <> bhp (cur t) /\
  exn_ok0 false t e /\
  e <> ELoadFactorTooLow /\
  (maxed t new_hp -> t' = t /\ e = EMaxHashpower) /\
  (destructive c = false -> evolves c hash t t' /\ bhp (cur t') = bhp (cur t))).
Proof. exact cuckoo_reserve_good. Qed.
Print Assumptions C10_reserve_postconditions.

Theorem C10_automatic_expansion_policy :
  forall (c : config) (hash : N -> N),
  cfg_ok c ->
  forall (mode : bool) (t : table),
  nothrow c = true ->
  good c hash t ->
  immediate c mode t ->
  let hp := bhp (cur t) in
  (maxed t (hp + 1) -> cuckoo_fast_double c hash mode t hp = (t, inl EMaxHashpower)) /\
  (~ maxed t (hp + 1) ->
  lf_lt_mlf c t = true -> cuckoo_fast_double c hash mode t hp = (t, inl ELoadFactorTooLow)) /\
  (~ maxed t (hp + 1) ->
  lf_lt_mlf c t = false ->
  exists t' : table,
  cuckoo_fast_double c hash mode t hp = (t', inr St_ok) /\
  (hp + 1 < 60 ->
  good c hash t' /\
  bhp (cur t') = hp + 1 /\
  (forall (k : N) (v : Z), holds (cur t') k v <-> holds (cur t) k v) /\
  lim_same t t' /\ immediate c mode t' /\ rc t' = wrap64 (rc t + 1) /\ nrem t' = 0)).
Proof. exact cuckoo_fast_double_good. Qed.
Print Assumptions C10_automatic_expansion_policy.

Theorem C10_hashpower_stays_within_maximum :
  forall (c : config) (hash : N -> N),
  cfg_ok c ->
  forall (mode : bool) (t : table) (k : N) (v : Z) (g : Z -> bool -> option (Z * bool)),
  good c hash t ->
  limC c (mhp t) ->
  forall (t' : table) (r : exn + bool * list rv * (N * N)),
  uprase_gen c hash mode t k v g = (t', r) -> up_post c hash t k v g t' r.
Proof. exact uprase_gen_good_capped. Qed.
Print Assumptions C10_hashpower_stays_within_maximum.

(* ---- limits with pending stripes (LazyRefine.v) ---- *)
From LC Require Import LazyRefine.
Theorem C10_limits_checked_before_doubling_with_pending_stripes :
  forall (c : config) (hash : N -> N),
  cfg_ok c ->
  forall t : table,
  nothrow c = true ->
  lgood c hash t ->
  let hp := bhp (cur t) in
  (maxed t (hp + 1) -> cuckoo_fast_double c hash false t hp = (t, inl EMaxHashpower)) /\
  (~ maxed t (hp + 1) ->
  lf_lt_mlf c t = true -> cuckoo_fast_double c hash false t hp = (t, inl ELoadFactorTooLow)) /\
  (~ maxed t (hp + 1) ->
  lf_lt_mlf c t = false ->
  cuckoo_fast_double c hash false t hp = (fast_double_body c hash false t (hp + 1), inr St_ok) /\
  (hp + 1 < 60 ->
  let t' := fast_double_body c hash false t (hp + 1) in
  lgood c hash t' /\
  bhp (cur t') = hp + 1 /\
  (forall (k : N) (v : Z), lholds c t' k v <-> lholds c t k v) /\
  lim_same t t' /\ rc t' = wrap64 (rc t + 1))).
Proof. exact cuckoo_fast_double_lgood. Qed.
Print Assumptions C10_limits_checked_before_doubling_with_pending_stripes.

Theorem C10_rebuild_with_pending_stripes :
  forall (c : config) (hash : N -> N),
  cfg_ok c ->
  forall (auto : bool) (t : table) (new_hp : N),
  lgood c hash t ->
  limC c (mhp t) ->
  let r := cuckoo_expand_simple c hash auto false t new_hp in
  (maxed t new_hp -> r = (t, inl EMaxHashpower)) /\
  (~ maxed t new_hp -> auto = true -> lf_lt_mlf c t = true -> r = (t, inl ELoadFactorTooLow)) /\
  (~ maxed t new_hp ->
  (auto = true -> lf_lt_mlf c t = false) ->
  r = cuckoo_expand_simple c hash auto false (rehash_with_workers c hash t) new_hp) /\
  les_post c hash auto t new_hp r.
Proof. exact cuckoo_expand_simple_lgood. Qed.
Print Assumptions C10_rebuild_with_pending_stripes.

(* ---- an automatic doubling happens only at or above the minimum load factor, the exception only strictly below it (AcceptModel.v: the model's own statistics satisfy the acceptor's rules) ---- *)
From LC Require Import AcceptModel RunTied.
Theorem C10_doubling_only_at_or_above_minimum :
  forall (c : config) (hash : N -> N),
  cfg_ok c ->
  forall (t : table) (k : N) (v : Z) (g : Z -> bool -> option (Z * bool)) (t' : table)
  (r : exn + bool * list rv * (N * N)),
  nothrow c = true ->
  lgood c hash t ->
  uprase_gen c hash false t k v g = (t', r) ->
  (forall v0 : Z, ~ lholds c t k v0) ->
  tied_esc t' \/
  r <> inl EOutOfFuel /\
  dbl_ok c t t' /\
  ((exists e : exn, r = inl e /\ exn_ok c true t t' e /\ levolves c hash t t') \/
  (exists b s : N,
  r = inr (true, log_of g v true, (b, s)) /\
  lgood c hash t' /\
  lim_same t t' /\
  bhp (cur t) <= bhp (cur t') /\
  lupd c t t' k (final_of g v true) /\
  (forall vf : Z,
  final_of g v true = Some vf ->
  exists e : entry, bget (cur t') b s = Some e /\ ekey e = k /\ eval e = vf))).
Proof. exact uprase_gen_tied. Qed.
Print Assumptions C10_doubling_only_at_or_above_minimum.

Theorem C10_acceptor_load_factor_test_is_the_models :
  forall c : config,
  cfg_ok c ->
  forall spb_ : N,
  spb c = spb_ ->
  forall (t : table) (x y : bool),
  bhp (cur t) < 60 ->
  Spec.lf_below spb_ (SpecSound.obs_of c t x) (SpecSound.obs_of c t y) = lf_lt_mlf c t.
Proof. exact lf_below_iff_lf. Qed.
Print Assumptions C10_acceptor_load_factor_test_is_the_models.
