(* Shared definitions for the L1 proofs: candidate buckets, the structural invariant, the
   abstraction function.  Definitions only. *)
From Coq Require Import NArith ZArith List Bool Lia FMapPositive.
From LC Require Import gen.HashGen Bits Core Api.
Import ListNotations.
Local Open Scope N_scope.

Section Defs.
Variable c : config.
Variable hash : N -> N.

(* candidate buckets of key k in a table of hashpower hp *)
Definition i1_of (hp k : N) : N := index_hash hp (hash k).
Definition i2_of (hp k : N) : N := alt_index hp (partial_key (hash k)) (i1_of hp k).
Definition cand (hp k b : N) : Prop := b = i1_of hp k \/ b = i2_of hp k.

(* configuration well-formedness: what the static_asserts and the hook comment require *)
Record cfg_ok : Prop := {
  co_spb : 0 < spb c;
  co_spb_max : spb c <= 8;
  co_lbits : lbits c < 64
}.

(* A bucket array is a well-formed cuckoo table at its own hashpower:
   positions in range, every element live (no husk), in one of its two candidate buckets with
   the stored tag equal to the tag of its hash, and no key stored twice. *)
Record arr_ok (a : barray) : Prop := {
  ao_hp : bhp a < 62;
  ao_range : forall b s e, bget a b s = Some e -> b < 2 ^ bhp a /\ s < spb c;
  ao_live : forall b s e, bget a b s = Some e -> ehusk e = false;
  ao_place : forall b s e, bget a b s = Some e -> cand (bhp a) (ekey e) b;
  ao_tag : forall b s e, bget a b s = Some e -> epart e = partial_key (hash (ekey e));
  ao_uniq : forall b s e b' s' e',
      bget a b s = Some e -> bget a b' s' = Some e' -> ekey e = ekey e' -> b = b' /\ s = s'
}.

(* abstraction of one array: the value stored for key k, if any *)
Definition holds (a : barray) (k : N) (v : Z) : Prop :=
  exists b s e, bget a b s = Some e /\ ekey e = k /\ eval e = v.

(* all stripes migrated: the table is just its current array *)
Definition all_migrated (t : table) : Prop :=
  forall l, In l (cur_locks t) -> mig l = true.

(* the "settled" invariant: no deferred migration pending *)
Record settled (t : table) : Prop := {
  se_arr : arr_ok (cur t);
  se_alive : bdead (cur t) = false;
  se_mig : all_migrated t;
  se_locks : locks t <> [];
  (* the current lock array covers every stripe index the table can produce *)
  se_cover : forall b, b < 2 ^ bhp (cur t) -> (N.to_nat (lock_ind_gen (kmax c) b) < length (cur_locks t))%nat
}.

(* every slot position of an array of hashpower hp, in iteration (lexicographic) order *)
Definition nseq (n : N) : list N := map N.of_nat (seq 0 (N.to_nat n)).
Definition positions (hp : N) : list (N * N) := list_prod (nseq (2 ^ hp)) (nseq (spb c)).

(* the occupied positions, in iteration order, and the element count *)
Definition occ_list (a : barray) : list (N * N) :=
  filter (fun p => occupied a (fst p) (snd p)) (positions (bhp a)).
Definition count_arr (a : barray) : nat := length (occ_list a).

(* size bookkeeping: the counters of the current lock array sum to the number of elements *)
Definition counted (t : table) : Prop := sum_cnt (cur_locks t) = Z.of_nat (count_arr (cur t)).

(* the abstract contents of a settled table *)
Definition abs_holds (t : table) (k : N) (v : Z) : Prop := holds (cur t) k v.

End Defs.
