(* Extraction of the executable model for the correspondence check.
   Only ExtrOcamlBasic is used: bool, option, unit, list, prod, sumbool, sumor map to OCaml's;
   N, Z, positive, nat stay Coq datatypes. *)
From Coq Require Extraction ExtrOcamlBasic.
From Coq Require Import NArith ZArith List FMapPositive.
From LC Require Import gen.HashGen Core Api Spec CApi Codec CodecW Conc.
Extraction Language OCaml.
Extraction "model.ml" gstep ginit replay cstep cworld_init decode_file encode_file encode_file_w decode_file_w_chk step init_world judge_op judge_stats sst_init fapply_std tsize capacity hashpower bucket_count
  bget cur_locks partial_key index_hash alt_index lock_ind_gen hashsize hashmask
  N.add N.mul N.div_eucl N.of_nat N.to_nat Z.of_N Z.opp Z.add Z.mul N.compare Z.compare N.gcd
  PositiveMap.elements kMaxNumLocks.
