(* L0: lemmas about the index arithmetic GENERATED from the C++ AST (gen/HashGen.v). *)
From Coq Require Import NArith Lia ZArith Bool List.
From LC Require Import gen.HashGen.
Local Open Scope N_scope.

Lemma wrap_small w x : x < 2 ^ w -> wrap w x = x.
Proof. intro H. unfold wrap. apply N.mod_small. exact H. Qed.

Lemma wrap_lt w x : wrap w x < 2 ^ w.
Proof. unfold wrap. apply N.mod_lt. apply N.pow_nonzero. lia. Qed.

Lemma pow2_le_mono a b : a <= b -> 2 ^ a <= 2 ^ b.
Proof. intro H. apply N.pow_le_mono_r; lia. Qed.

Lemma pow2_lt_mono a b : a < b -> 2 ^ a < 2 ^ b.
Proof. intro H. apply N.pow_lt_mono_r; lia. Qed.

Lemma pow2_pos a : 0 < 2 ^ a.
Proof. apply N.neq_0_lt_0, N.pow_nonzero. lia. Qed.

Lemma hashsize_spec hp : hp < 64 -> hashsize hp = 2 ^ hp.
Proof.
  intro H. unfold hashsize. rewrite N.shiftl_1_l.
  apply wrap_small. apply pow2_lt_mono. exact H.
Qed.

Lemma hashmask_spec hp : hp < 64 -> hashmask hp = N.ones hp.
Proof.
  intro H. unfold hashmask. rewrite hashsize_spec by exact H.
  rewrite N.ones_equiv.
  assert (Hp := pow2_pos hp).
  assert (Hl : 2 ^ hp < 2 ^ 64) by (apply pow2_lt_mono; exact H).
  change 18446744073709551616 with (2 ^ 64) in *.
  unfold wrap.
  replace (2 ^ hp + 2 ^ 64 - 1) with (N.pred (2 ^ hp) + 1 * 2 ^ 64) by lia.
  rewrite N.mod_add by lia. apply N.mod_small. lia.
Qed.

Lemma land_mask hp x : hp < 64 -> N.land x (hashmask hp) = x mod 2 ^ hp.
Proof. intro H. rewrite hashmask_spec by exact H. apply N.land_ones. Qed.

Lemma index_hash_spec hp h : hp < 64 -> index_hash hp h = h mod 2 ^ hp.
Proof. intro H. unfold index_hash. apply land_mask. exact H. Qed.

Definition tagc (t : N) : N := wrap 64 ((t + 1) * 14313749767032793493).

Lemma alt_index_spec hp t i : hp < 64 -> alt_index hp t i = (N.lxor i (tagc t)) mod 2 ^ hp.
Proof. intro H. unfold alt_index. cbv zeta. rewrite land_mask by exact H. reflexivity. Qed.

Lemma lxor_mod_pow2 a b n : (N.lxor a b) mod 2 ^ n = N.lxor (a mod 2 ^ n) (b mod 2 ^ n).
Proof.
  apply N.bits_inj. intro k.
  destruct (N.lt_ge_cases k n) as [Hk|Hk].
  - rewrite N.mod_pow2_bits_low by exact Hk.
    rewrite !N.lxor_spec. rewrite !N.mod_pow2_bits_low by exact Hk. reflexivity.
  - rewrite N.mod_pow2_bits_high by exact Hk.
    rewrite N.lxor_spec. rewrite !N.mod_pow2_bits_high by exact Hk. reflexivity.
Qed.

Lemma mod_mod_pow2 a n : (a mod 2 ^ n) mod 2 ^ n = a mod 2 ^ n.
Proof. apply N.mod_mod. apply N.pow_nonzero. lia. Qed.

Lemma mod_pow2_le a n m : n <= m -> (a mod 2 ^ m) mod 2 ^ n = a mod 2 ^ n.
Proof.
  intro H. apply N.bits_inj. intro k.
  destruct (N.lt_ge_cases k n) as [Hk|Hk].
  - rewrite !N.mod_pow2_bits_low by lia. reflexivity.
  - rewrite !N.mod_pow2_bits_high by lia. reflexivity.
Qed.

(* ---- C13 statements over the generated definitions ---- *)

Lemma index_lt hp h : hp < 64 -> index_hash hp h < 2 ^ hp.
Proof. intro H. rewrite index_hash_spec by exact H. apply N.mod_lt, N.pow_nonzero. lia. Qed.

Lemma alt_lt hp t i : hp < 64 -> alt_index hp t i < 2 ^ hp.
Proof. intro H. rewrite alt_index_spec by exact H. apply N.mod_lt, N.pow_nonzero. lia. Qed.

Lemma alt_involutive hp t i : hp < 64 -> i < 2 ^ hp -> alt_index hp t (alt_index hp t i) = i.
Proof.
  intros H Hi. rewrite !alt_index_spec by exact H.
  rewrite (lxor_mod_pow2 (N.lxor i (tagc t) mod 2 ^ hp)).
  rewrite mod_mod_pow2. rewrite <- lxor_mod_pow2.
  rewrite N.lxor_assoc, N.lxor_nilpotent, N.lxor_0_r.
  apply N.mod_small. exact Hi.
Qed.

Lemma partial_range h : partial_key h < 256.
Proof.
  unfold partial_key. cbv zeta.
  change 256 with (2 ^ 8).
  set (a := wrap 8 _). set (b := wrap 8 _).
  assert (Ha : a < 2 ^ 8) by apply wrap_lt.
  assert (Hb : b < 2 ^ 8) by apply wrap_lt.
  clearbody a b.
  destruct (N.eq_dec (N.lxor a b) 0) as [E|E]; [rewrite E; reflexivity|].
  apply N.log2_lt_pow2; [lia|].
  eapply N.le_lt_trans; [apply N.log2_lxor|].
  apply N.max_lub_lt.
  - destruct (N.eq_dec a 0) as [->|Na]; [reflexivity|]. apply N.log2_lt_pow2; lia.
  - destruct (N.eq_dec b 0) as [->|Nb]; [reflexivity|]. apply N.log2_lt_pow2; lia.
Qed.

Lemma mod_pow2_succ a n :
  a mod 2 ^ (n + 1) = a mod 2 ^ n \/ a mod 2 ^ (n + 1) = a mod 2 ^ n + 2 ^ n.
Proof.
  assert (Hp := pow2_pos n).
  rewrite N.pow_add_r. change (2 ^ 1) with 2.
  rewrite N.mod_mul_r by lia.
  assert (Hm : (a / 2 ^ n) mod 2 < 2) by (apply N.mod_lt; lia).
  set (x := (a / 2 ^ n) mod 2) in *. set (y := a mod 2 ^ n). set (p := 2 ^ n) in *.
  clearbody x y p.
  destruct (N.eq_dec x 0) as [E|E].
  - left. rewrite E. lia.
  - right. replace x with 1 by lia. lia.
Qed.

Lemma index_double hp h : hp + 1 < 64 ->
  index_hash (hp + 1) h = index_hash hp h \/ index_hash (hp + 1) h = index_hash hp h + 2 ^ hp.
Proof.
  intro H. rewrite !index_hash_spec by lia. apply mod_pow2_succ.
Qed.

Lemma alt_double hp t i : hp + 1 < 64 ->
  (alt_index (hp + 1) t i) mod 2 ^ hp = alt_index hp t (i mod 2 ^ hp).
Proof.
  intro H. rewrite !alt_index_spec by lia.
  rewrite mod_pow2_le by lia.
  rewrite (lxor_mod_pow2 (i mod 2 ^ hp)). rewrite mod_mod_pow2. rewrite <- lxor_mod_pow2.
  reflexivity.
Qed.

Lemma alt_double_cases hp t i : hp + 1 < 64 ->
  alt_index (hp + 1) t i = alt_index hp t (i mod 2 ^ hp) \/
  alt_index (hp + 1) t i = alt_index hp t (i mod 2 ^ hp) + 2 ^ hp.
Proof.
  intro H. rewrite <- alt_double by exact H.
  rewrite (alt_index_spec (hp + 1)) by lia.
  rewrite mod_pow2_le by lia. apply mod_pow2_succ.
Qed.

(* the stripe of a bucket: generated lock_ind with an arbitrary power-of-two stripe count *)
Lemma lock_ind_gen_spec L b : L < 64 -> lock_ind_gen (2 ^ L) b = b mod 2 ^ L.
Proof.
  intro H. unfold lock_ind_gen.
  assert (Hp := pow2_pos L).
  assert (Hl : 2 ^ L < 2 ^ 64) by (apply pow2_lt_mono; exact H).
  change 18446744073709551616 with (2 ^ 64).
  unfold wrap.
  replace (2 ^ L + 2 ^ 64 - 1) with (N.pred (2 ^ L) + 1 * 2 ^ 64) by lia.
  rewrite N.mod_add by lia. rewrite N.mod_small by lia.
  rewrite <- N.ones_equiv. apply N.land_ones.
Qed.

Lemma kMaxNumLocks_pow2 : exists L, L < 64 /\ kMaxNumLocks = 2 ^ L.
Proof.
  (* finite search over the 64 candidate exponents, decided by computation *)
  assert (H : existsb (fun l => N.eqb kMaxNumLocks (2 ^ N.of_nat l)) (seq 0 64) = true)
    by (vm_compute; reflexivity).
  apply existsb_exists in H. destruct H as [l [Hin He]].
  exists (N.of_nat l). apply in_seq in Hin. apply N.eqb_eq in He. split; [lia|exact He].
Qed.

Lemma add_pow2_mod i hp L : L <= hp -> (i + 2 ^ hp) mod 2 ^ L = i mod 2 ^ L.
Proof.
  intro H. replace hp with ((hp - L) + L) by lia.
  rewrite N.pow_add_r. apply N.mod_add. apply N.pow_nonzero. lia.
Qed.

Lemma stripe_stable_gen L hp i : L < 64 -> L <= hp ->
  lock_ind_gen (2 ^ L) (i + 2 ^ hp) = lock_ind_gen (2 ^ L) i.
Proof.
  intros HL H. rewrite !lock_ind_gen_spec by exact HL. apply add_pow2_mod. exact H.
Qed.

Lemma stripe_stable hp i : kMaxNumLocks <= 2 ^ hp -> lock_ind (i + 2 ^ hp) = lock_ind i.
Proof.
  destruct kMaxNumLocks_pow2 as [L [HL E]]. unfold lock_ind. rewrite E. intro H.
  apply stripe_stable_gen; [exact HL|].
  apply N.pow_le_mono_r_iff with (a := 2); [lia|exact H].
Qed.

(* A stored key is reachable from its hash alone: both candidates are in range and
   alternate to each other. *)
Lemma candidates_sound hp h : hp < 64 ->
  let t := partial_key h in
  let i1 := index_hash hp h in
  let i2 := alt_index hp t i1 in
  i1 < 2 ^ hp /\ i2 < 2 ^ hp /\ alt_index hp t i2 = i1 /\ alt_index hp t i1 = i2.
Proof.
  intro H. cbv zeta. repeat split.
  - apply index_lt; exact H.
  - apply alt_lt; exact H.
  - apply alt_involutive; [exact H|apply index_lt; exact H].
Qed.

(* doubling: each candidate keeps its index or moves up by exactly 2^hp *)
Lemma candidates_double hp h : hp + 1 < 64 ->
  let t := partial_key h in
  let i1 := index_hash hp h in let i2 := alt_index hp t i1 in
  let j1 := index_hash (hp + 1) h in let j2 := alt_index (hp + 1) t j1 in
  (j1 = i1 \/ j1 = i1 + 2 ^ hp) /\ (j2 = i2 \/ j2 = i2 + 2 ^ hp).
Proof.
  intro H. cbv zeta. split; [apply index_double; exact H|].
  assert (E : index_hash (hp + 1) h mod 2 ^ hp = index_hash hp h).
  { rewrite !index_hash_spec by lia. apply mod_pow2_le. lia. }
  rewrite <- E. apply alt_double_cases. exact H.
Qed.
