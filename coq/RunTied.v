(* RunTied.v: a RUN-TIED escape clause.

   LazyRefine.lesc / Refine.esc ("the run reached a table of 2^59 buckets and was allowed to double
   it") are existentials NOT tied to the run: they hold of every well-formed table whose maximum
   hashpower is >= 60 or unset (AcceptModel.lesc_holds_of_a_fresh_table), so every theorem of the
   form "lesc t \/ ..." is vacuous for default tables and for the C interface's no-limits tables
   (where AcceptModel.big_esc is trivially true as well: minimum load factor 0).  Here the clause
   is a statement about the table the call RETURNS:

       tied_esc t' := 59 <= bhp (cur t')        (the call ended with at least 2^59 buckets)

   decidable on the result and false of every execution that fits in memory.

   1. structural facts, no invariant, any mode, any fuel: every constituent of the insert path keeps
      bhp (cur _) (move_bucket, rehash_lock, lock_one/two/three, the BFS, the path move,
      cuckoo_insert, snapshot_and_lock_two); fast_double_body .. nh has hashpower nh by
      construction; an automatic doubling of a nothrow type returns the table unchanged or doubled
      ([cuckoo_fast_double_hp]); hence THE HASHPOWER NEVER DECREASES ALONG cuckoo_insert_loop
      ([cuckoo_insert_loop_mono]).
   2. the insert loop and uprase_gen from any [lgood] table (normal mode, deferred migration
      possibly pending, NO condition on the limits): [l_insert_loop_tied],
      [cuckoo_insert_loop_lgood_tied], [uprase_gen_tied], [uprase_gen_lgood_tied] (exactly
      LazyRefine.uprase_gen_lgood with the tied clause), [uprase_gen_rep_tied].  The strong forms
      also carry AcceptModel's facts: no fuel artefact, every doubling permitted ([dbl_ok]).
   3. [normal_mode_op_refines_tied] (LazyRefine.normal_mode_op_refines) and
      [model_outputs_accepted_tied] (AcceptModel.model_outputs_accepted).
   4. [c_table_insert_no_policy_exception_tied]: CApiRefine's theorem with the tied clause AND
      without the EOutOfFuel disjunct.
   5. the immediate regime, any mode: [insert_loop_absent_tied], [uprase_gen_good_tied] (exactly
      Refine.uprase_gen_good with the tied clause).
   6. [refines_LInsert_tied], [refines_LIdx_tied], [locked_mode_op_refines_tied].
   7. non-vacuity on a no-limits table: the tied clause is false of the computed result and the
      theorems yield their specification disjunct, while [lesc] and [big_esc] HOLD of that table.
   Depends on AcceptModel.v (tsize_contents, dbl_ok, lil_ok, insert_accepted_core, ...). *)
From Coq Require Import NArith ZArith List Bool Arith Lia.
From LC Require Import gen.HashGen Bits Core Api InvDefs ArrLemmas Stats InsertLemmas Lazy Refine LazyRefine NoFuel
  LockedRefine CApi CApiLemmas CApiRefine Spec SpecSound AcceptModel.
Import ListNotations.
Local Open Scope N_scope.

(* ================================================================== 1. structural: the hashpower along a call *)

Section Struct.
Variable c : config.
Variable hash : N -> N.

Notation hpc t := (bhp (cur t)).

Lemma mbs_hp n : forall oldb newb obi ns s,
  bhp (snd (move_bucket_slots c hash oldb newb obi ns s n)) = bhp newb.
Proof.
  induction n as [|n IH]; intros oldb newb obi ns s; cbn [move_bucket_slots]; [reflexivity|].
  destruct (bget oldb obi s) as [e|]; [|apply IH]. cbv zeta. rewrite IH. apply st_bhp_bset.
Qed.

Lemma move_bucket_hp t obi : hpc (move_bucket c hash t obi) = hpc t.
Proof.
  unfold move_bucket.
  destruct (move_bucket_slots c hash (old t) (cur t) obi 0 0 (N.to_nat (spb c))) as [o n] eqn:E.
  cbn [cur set_cur]. change n with (snd (o, n)). rewrite <- E. apply mbs_hp.
Qed.

Lemma rehash_lock_loop_hp n : forall t bi, hpc (rehash_lock_loop c hash t bi n) = hpc t.
Proof.
  induction n as [|n IH]; intros t bi; cbn [rehash_lock_loop]; [reflexivity|].
  destruct (bi <? hashsize (bhp (old t))); [|reflexivity]. rewrite IH. apply move_bucket_hp.
Qed.

Lemma decrement_nrem_cur t : cur (decrement_nrem t) = cur t.
Proof. unfold decrement_nrem. destruct (nrem t =? 1); reflexivity. Qed.

Lemma rehash_lock_hp lazy t l : hpc (rehash_lock c hash lazy t l) = hpc t.
Proof.
  unfold rehash_lock. destruct (mig (lock_at t l)); [reflexivity|].
  destruct lazy; [rewrite decrement_nrem_cur|]; rewrite st_cur_upd_cur_lock; apply rehash_lock_loop_hp.
Qed.

Lemma lock_one_hp mode t i : hpc (lock_one c hash mode t i) = hpc t.
Proof. unfold lock_one. destruct mode; [reflexivity|apply rehash_lock_hp]. Qed.

Lemma lock_two_hp mode t i1 i2 : hpc (lock_two c hash mode t i1 i2) = hpc t.
Proof.
  unfold lock_two. destruct mode; [reflexivity|].
  destruct (lockind c i2 <? lockind c i1); rewrite !rehash_lock_hp; reflexivity.
Qed.

Lemma lock_three_hp mode t i1 i2 i3 : hpc (lock_three c hash mode t i1 i2 i3) = hpc t.
Proof.
  unfold lock_three. destruct mode; [reflexivity|].
  repeat match goal with |- context [if ?b then _ else _] => destruct b end;
    rewrite !rehash_lock_hp; reflexivity.
Qed.

Lemma snapshot_hp mode t k : hpc (fst (fst (snapshot_and_lock_two c hash mode t k))) = hpc t.
Proof. unfold snapshot_and_lock_two. cbn [fst]. apply lock_two_hp. Qed.

Lemma slot_search_loop_hp mode hp : forall fuel t q,
  hpc (fst (slot_search_loop c hash mode t hp q fuel)) = hpc t.
Proof.
  induction fuel as [|f IH]; intros t q; cbn [slot_search_loop]; [reflexivity|].
  destruct q as [|x q']; [reflexivity|].
  destruct (slot_search_scan c (lock_one c hash mode t (qbucket x)) hp x (qpathcode x mod spb c) 0
              (N.to_nat (spb c)) []) as [[r|] ch].
  - cbn [fst]. apply lock_one_hp.
  - rewrite IH. apply lock_one_hp.
Qed.

Lemma cuckoopath_search_loop_hp mode hp : forall slots t prev i acc,
  hpc (fst (fst (cuckoopath_search_loop c hash mode t hp prev slots i acc))) = hpc t.
Proof.
  induction slots as [|s rest IH]; intros t prev i acc; cbn [cuckoopath_search_loop]; [reflexivity|].
  cbv zeta.
  destruct (bget (cur (lock_one c hash mode t (alt_index hp (crpartial prev) (crbucket prev))))
              (alt_index hp (crpartial prev) (crbucket prev)) s) as [e|].
  - rewrite IH. apply lock_one_hp.
  - cbn [fst]. apply lock_one_hp.
Qed.

Lemma cuckoopath_search_hp mode t hp i1 i2 :
  hpc (fst (cuckoopath_search c hash mode t hp i1 i2)) = hpc t.
Proof.
  unfold cuckoopath_search, slot_search.
  match goal with |- context [slot_search_loop c hash mode t hp ?q ?f] =>
    assert (H := slot_search_loop_hp mode hp f t q);
    destruct (slot_search_loop c hash mode t hp q f) as [t1 [x|]] end; cbn [fst] in H; [|exact H].
  destruct (decode_slots c (qpathcode x) (S (N.to_nat (qdepth x))) []) as [slots code].
  destruct slots as [|s0 rest]; [exact H|]. cbv zeta.
  set (b0 := if code =? 0 then i1 else i2).
  destruct (bget (cur (lock_one c hash mode t1 b0)) b0 s0) as [e|].
  - match goal with |- context [cuckoopath_search_loop c hash mode ?t2 hp ?r0 rest 1 ?acc] =>
      assert (H2 := cuckoopath_search_loop_hp mode hp rest t2 r0 1 acc);
      destruct (cuckoopath_search_loop c hash mode t2 hp r0 rest 1 acc) as [[t3 racc] d] end.
    cbn [fst] in H2 |- *. rewrite H2, lock_one_hp. exact H.
  - cbn [fst]. rewrite lock_one_hp. exact H.
Qed.

Lemma cuckoopath_move_loop_hp mode path i1 i2 : forall depth t,
  hpc (fst (cuckoopath_move_loop c hash mode t path i1 i2 depth)) = hpc t.
Proof.
  induction depth as [|d IH]; intro t; [reflexivity|].
  cbn [cuckoopath_move_loop]. cbv zeta.
  set (t1 := if Nat.eqb (S d) 1 then _ else _).
  assert (H1 : hpc t1 = hpc t).
  { subst t1. destruct (Nat.eqb (S d) 1); [apply lock_three_hp|apply lock_two_hp]. }
  destruct (bget (cur t1) _ _); [exact H1|].
  destruct (bget (cur t1) _ _) as [e|]; [|exact H1].
  destruct (negb _); [exact H1|]. rewrite IH. cbn [cur set_cur]. rewrite !st_bhp_bset. exact H1.
Qed.

Lemma cuckoopath_move_hp mode t path depth i1 i2 :
  hpc (fst (cuckoopath_move c hash mode t path depth i1 i2)) = hpc t.
Proof.
  unfold cuckoopath_move. destruct (depth =? 0); [cbn [fst]; apply lock_two_hp|apply cuckoopath_move_loop_hp].
Qed.

Lemma run_cuckoo_loop_hp mode hp i1 i2 : forall fuel t,
  hpc (fst (run_cuckoo_loop c hash mode t hp i1 i2 fuel)) = hpc t.
Proof.
  induction fuel as [|f IH]; intro t; cbn [run_cuckoo_loop]; [reflexivity|].
  assert (H1 := cuckoopath_search_hp mode t hp i1 i2).
  destruct (cuckoopath_search c hash mode t hp i1 i2) as [t1 [[path depth]|]]; cbn [fst] in H1; [|exact H1].
  assert (H2 := cuckoopath_move_hp mode t1 path depth i1 i2).
  destruct (cuckoopath_move c hash mode t1 path depth i1 i2) as [t2 [|]]; cbn [fst] in H2 |- *.
  - congruence.
  - rewrite IH. congruence.
Qed.

Lemma cuckoo_insert_hp mode t k i1 i2 : hpc (fst (cuckoo_insert c hash mode t k i1 i2)) = hpc t.
Proof.
  unfold cuckoo_insert. cbv zeta.
  destruct (try_find_insert_bucket c (cur t) i1 (hashed_partial hash k) k 0 (N.to_nat (spb c)) None) as [[|] r1];
    [|reflexivity].
  destruct (try_find_insert_bucket c (cur t) i2 (hashed_partial hash k) k 0 (N.to_nat (spb c)) None) as [[|] r2];
    [|reflexivity].
  destruct r1; [reflexivity|]. destruct r2; [reflexivity|].
  unfold run_cuckoo.
  assert (H := run_cuckoo_loop_hp mode (hashpower t) i1 i2 run_cuckoo_fuel t).
  destruct (run_cuckoo_loop c hash mode t (hashpower t) i1 i2 run_cuckoo_fuel) as [t1 [b s| |]]; cbn [fst] in H |- *;
    try exact H.
  destruct (pstatus (cuckoo_find c t1 k (hashed_partial hash k) i1 i2)); exact H.
Qed.

Lemma rehash_all_hp n : forall t l, hpc (rehash_all c hash t l n) = hpc t.
Proof.
  induction n as [|n IH]; intros t l; cbn [rehash_all]; [reflexivity|]. rewrite IH. apply rehash_lock_hp.
Qed.

Lemma rww_hp t : hpc (rehash_with_workers c hash t) = hpc t.
Proof. unfold rehash_with_workers. rewrite cur_set_nrem. apply rehash_all_hp. Qed.

Lemma move_all_buckets_hp n : forall t i, hpc (move_all_buckets c hash t i n) = hpc t.
Proof.
  induction n as [|n IH]; intros t i; cbn [move_all_buckets]; [reflexivity|]. rewrite IH. apply move_bucket_hp.
Qed.

(* the doubling: the new current array has the requested hashpower, by construction *)
Lemma fast_double_body_hp mode t nh : hpc (fast_double_body c hash mode t nh) = nh.
Proof.
  unfold fast_double_body. cbv zeta. cbn [cur set_rc].
  match goal with |- context [if ?b then _ else _] => destruct b end.
  - rewrite cur_set_nrem, move_all_buckets_hp. reflexivity.
  - destruct mode; [rewrite rww_hp|]; rewrite cur_set_nrem; reflexivity.
Qed.

(* automatic doubling of a nothrow type: the table is returned unchanged, or doubled *)
Lemma cuckoo_fast_double_hp mode t hp t' r :
  nothrow c = true -> cuckoo_fast_double c hash mode t hp = (t', r) ->
  (t' = t /\ r <> inr St_ok) \/ (hpc t' = hp + 1 /\ r = inr St_ok).
Proof.
  intros Hnt E. unfold cuckoo_fast_double, resize_fuel in E.
  rewrite (fast_double_f_nothrow_unfold c hash 5 true mode t hp Hnt) in E.
  destruct (check_resize_validity c true t hp (hp + 1)) as [[e|]|st].
  - injection E as <- <-. left. split; [reflexivity|discriminate].
  - injection E as <- <-. left. split; [reflexivity|discriminate].
  - destruct st; injection E as <- <-; try (left; split; [reflexivity|discriminate]).
    right. split; [apply fast_double_body_hp|reflexivity].
Qed.

(* THE HASHPOWER NEVER DECREASES ALONG THE INSERT LOOP (no invariant, any mode, any fuel) *)
Lemma cuckoo_insert_loop_mono : nothrow c = true -> forall fuel mode t k i1 i2 t' res,
  cuckoo_insert_loop c hash (cuckoo_fast_double c hash) mode t k i1 i2 fuel = (t', res) -> hpc t <= hpc t'.
Proof.
  intro Hnt. induction fuel as [|f IH]; intros mode t k i1 i2 t' res E; cbn [cuckoo_insert_loop] in E.
  - injection E as <- <-. lia.
  - assert (H1 := cuckoo_insert_hp mode t k i1 i2).
    destruct (cuckoo_insert c hash mode t k i1 i2) as [t1 [pos|]]; cbn [fst] in H1.
    2:{ injection E as <- <-. lia. }
    assert (Hsnap : forall t2, hpc t <= hpc t2 ->
              (let '(t3, j1, j2) := snapshot_and_lock_two c hash mode t2 k in
               cuckoo_insert_loop c hash (cuckoo_fast_double c hash) mode t3 k j1 j2 f) = (t', res) ->
              hpc t <= hpc t').
    { intros t2 H2 E2. assert (H3 := snapshot_hp mode t2 k).
      destruct (snapshot_and_lock_two c hash mode t2 k) as [[t3 j1] j2]. cbn [fst] in H3.
      apply IH in E2. lia. }
    destruct (pstatus pos); try (injection E as <- <-; lia); try (apply (Hsnap t1); [lia|exact E]).
    destruct (cuckoo_fast_double c hash mode t1 (hashpower t)) as [t2 [e|st]] eqn:Efd.
    + injection E as <- <-.
      destruct (cuckoo_fast_double_hp mode t1 _ t2 _ Hnt Efd) as [[-> _]|[_ H]]; [lia|discriminate H].
    + apply (Hsnap t2); [|exact E].
      destruct (cuckoo_fast_double_hp mode t1 _ t2 _ Hnt Efd) as [[-> _]|[H _]]; [lia|].
      rewrite H. unfold hashpower. lia.
Qed.

End Struct.

(* ================================================================== 2. the insert loop and uprase_gen, tied clause *)

Section Tied.
Variable c : config.
Variable hash : N -> N.
Hypothesis Hc : cfg_ok c.

Notation lgood := (lgood c hash).
Notation levolves := (levolves c hash).
Notation lholds := (lholds c).
Notation rep := (rep c).
Notation hpc t := (bhp (cur t)).

(* THE RUN-TIED ESCAPE CLAUSE: the call ended with a table of at least 2^59 buckets.  Decidable on
   the result, false of every execution that fits in memory. *)
Definition tied_esc (t' : table) : Prop := 59 <= hpc t'.

(* the insert loop on an absent key, from any well-formed table, any fuel: the returned table has
   >= 2^59 buckets, or LazyRefine.lil_post's specification holds (without [lesc]), every doubling
   was permitted at load factor >= minimum, and - with fuel covering the distance to hashpower 60 -
   the loop did not stop on the model's fuel bound *)
Lemma l_insert_loop_tied :
  nothrow c = true ->
  forall fuel t k, lgood t -> stripes_done c hash t k -> (forall v, ~ lholds t k v) ->
  forall t' res,
  cuckoo_insert_loop c hash (cuckoo_fast_double c hash) false t k
    (i1_of hash (hpc t) k) (i2_of hash (hpc t) k) fuel = (t', res) ->
  tied_esc t' \/
  (lil_ok c hash t k t' res /\ dbl_ok c t t' /\
   (60 <= N.of_nat fuel + hpc t -> res <> IL_exn EOutOfFuel)).
Proof.
  intro Hnt. induction fuel as [|f IH]; intros t k G Hsd Hk t' res E.
  - cbn [cuckoo_insert_loop] in E. injection E as <- <-. right.
    split; [split; [apply levolves_refl; exact G|split; [exact Hk|apply exn_ok_fuel]]|].
    split; [apply dbl_ok_same; reflexivity|]. intro H. exfalso. assert (Hb := lgood_hp c hash t G). lia.
  - assert (W := lgood_wf c hash t G). cbn [cuckoo_insert_loop] in E.
    destruct (cuckoo_insert_wf c hash Hc t k W (proj1 Hsd) (proj2 Hsd)) as [t1 [r1 [E1 [W1 [V1 [_ Hout]]]]]].
    cbv zeta in E1.
    assert (Hnf := cuckoo_insert_no_fuel_wf c hash Hc t k (i1_of hash (hpc t) k) (i2_of hash (hpc t) k) W).
    rewrite E1 in Hnf. cbn [snd] in Hnf. rewrite E1 in E.
    destruct (lmv_lgood c hash t t1 G W1 V1) as [Ev1 Hhp1].
    assert (Hsd1 := stripes_done_lmv c hash t t1 k V1 Hsd).
    destruct (Hout Hk) as [->|[pos [-> Hcase]]]; [exfalso; apply Hnf; reflexivity|].
    destruct Hcase as [[Hs [Hg [Hidx Hslot]]]|Hs]; rewrite Hs in E.
    + injection E as <- <-. right. split; [|split; [apply dbl_ok_same; exact Hhp1|discriminate]].
      split; [exact Ev1|]. rewrite Hhp1.
      split; [reflexivity|]. split; [reflexivity|]. split; [exact Hsd1|]. right.
      split; [exact Hs|]. split; [exact Hk|]. split; [exact Hg|]. split; [exact Hidx|].
      split; [exact Hslot|]. apply (stripes_done_cand c hash t1 k _ Hsd1). rewrite Hhp1. exact Hidx.
    + assert (G1 := levolves_lgood c hash _ _ Ev1). assert (L1 := levolves_lim c hash _ _ Ev1).
      assert (Hts1 := levolves_tsize c hash Hc t t1 G Ev1).
      destruct (cuckoo_fast_double_lgood c hash Hc t1 Hnt G1) as [H1 [H2 H3]]. cbv zeta in H1, H2, H3.
      rewrite Hhp1 in H1, H2, H3. rewrite hashpower_eq in E.
      assert (Hm1 : mhp t1 = mhp t) by (destruct L1 as [_ [_ [H _]]]; exact H).
      destruct (maxed_dec hash t1 (hpc t + 1)) as [Hm|Hm].
      { rewrite (H1 Hm) in E. injection E as <- <-. right.
        split; [|split; [apply dbl_ok_same; exact Hhp1|discriminate]].
        split; [exact Ev1|]. split; [exact Hk|].
        destruct Hm as [Hm Hlt]. split.
        - left. split; [reflexivity|]. rewrite <- Hm1. exact Hm.
        - intros _. split; [|intro H; discriminate]. intros _. rewrite <- Hm1.
          destruct G1 as [_ [_ [_ [_ [Hw|Hw]]]]]; [contradiction|]. lia. }
      destruct (lf_lt_mlf c t1) eqn:Hlf.
      { rewrite (H2 Hm eq_refl) in E. injection E as <- <-. right.
        split; [|split; [apply dbl_ok_same; exact Hhp1|discriminate]].
        split; [exact Ev1|]. split; [exact Hk|]. split.
        - right. left. split; [reflexivity|]. split; [reflexivity|].
          destruct L1 as [H _]. rewrite <- H. apply (lf_true_mlfn c t1 Hlf).
        - intros _. split; [intro H; discriminate|]. intros _. exact Hlf. }
      destruct (H3 Hm eq_refl) as [Efd Hg]. rewrite Efd in E.
      assert (Hb1 := lgood_hp c hash t1 G1).
      set (t2 := fast_double_body c hash false t1 (hpc t + 1)) in *.
      assert (Hhp2' : hpc t2 = hpc t + 1) by apply fast_double_body_hp.
      destruct (N.lt_ge_cases (hpc t + 1) 60) as [L|L].
      2:{ (* the doubling 2^59 -> 2^60 happened: whatever follows, the hashpower stays *)
          left. unfold tied_esc. assert (H4 := snapshot_hp c hash false t2 k).
          destruct (snapshot_and_lock_two c hash false t2 k) as [[t3 j1] j2]. cbn [fst] in H4.
          apply (cuckoo_insert_loop_mono c hash Hnt) in E. lia. }
      destruct (Hg L) as [G2 [Hhp2 [Hh2 [L2 _]]]].
      assert (Ev2 : levolves t1 t2).
      { split; [exact G2|]. split; [exact Hh2|]. split; [exact L2|]. lia. }
      destruct (snapshot_lgood c hash Hc t2 k G2) as [Esnap [Ev3 [Hbc3 [Hsd3 _]]]].
      cbv zeta in Esnap, Ev3, Hbc3, Hsd3. rewrite Esnap in E.
      set (t3 := lock_two c hash false t2 (i1_of hash (hpc t2) k) (i2_of hash (hpc t2) k)) in *.
      assert (G3 := levolves_lgood c hash _ _ Ev3).
      assert (Ev13 : levolves t1 t3) by (eapply levolves_trans; eassumption).
      assert (Ev03 : levolves t t3) by (eapply levolves_trans; eassumption).
      assert (Hk3 : forall v, ~ lholds t3 k v).
      { intros v Hv. apply (Hk v). apply Ev03. exact Hv. }
      rewrite <- Hbc3 in E.
      destruct (IH t3 k G3 Hsd3 Hk3 t' res E) as [He|[Hpost [D3 Hres]]]; [left; exact He|].
      right. split; [exact (lil_ok_levolves c hash t t3 k t' res Ev03 Hk Hpost)|]. split.
      2:{ intro Hf. apply Hres. lia. }
      destruct Hpost as [Ev3' _].
      apply (dbl_ok_pre c t t1 t' Hhp1 Hts1 L1).
      intro Hlt.
      destruct (N.eq_dec (hpc t') (hpc t3)) as [Eq|Ne].
      * apply (dbl_ok_double c hash Hc t1 t' G1 Hlf); [lia|exact Hlt].
      * assert (Hle : hpc t3 <= hpc t') by (destruct Ev3' as [_ [_ [_ H]]]; exact H).
        assert (Hlt3 : hpc t3 < hpc t') by lia.
        specialize (D3 Hlt3).
        rewrite (levolves_tsize c hash Hc t1 t3 G1 Ev13) in D3.
        destruct (levolves_lim c hash _ _ Ev13) as [E3 [E4 _]]. rewrite E3, E4 in D3. exact D3.
Qed.

(* LazyRefine.cuckoo_insert_loop_lgood with the tied clause *)
Theorem cuckoo_insert_loop_lgood_tied fuel t k :
  nothrow c = true -> lgood t -> stripes_done c hash t k ->
  forall t' res,
  cuckoo_insert_loop c hash (cuckoo_fast_double c hash) false t k
    (i1_of hash (hpc t) k) (i2_of hash (hpc t) k) (S fuel) = (t', res) ->
  tied_esc t' \/ lil_ok c hash t k t' res.
Proof.
  intros Hnt G Hsd t' res E.
  destruct (lholds_dec c hash Hc t k (lgood_wf c hash t G)) as [Hk|Hk].
  - destruct (l_insert_loop_present c hash Hc _ t k fuel G Hsd Hk t' res E) as [pos [-> [Ev [Hhp [Hsd' [Hs He]]]]]].
    right. split; [exact Ev|]. rewrite Hhp. split; [reflexivity|]. split; [reflexivity|].
    split; [exact Hsd'|].
    left. split; [exact Hs|]. split; [exact Hk|]. split; [reflexivity|]. exact He.
  - destruct (l_insert_loop_tied Hnt (S fuel) t k G Hsd Hk t' res E) as [He|[H _]]; [left; exact He|right; exact H].
Qed.

(* uprase_gen on an absent key: tied clause, or the specification + no fuel artefact + doubling rule *)
Theorem uprase_gen_tied t k v g t' r :
  nothrow c = true -> lgood t -> uprase_gen c hash false t k v g = (t', r) ->
  (forall v0, ~ lholds t k v0) ->
  tied_esc t' \/
  (r <> inl EOutOfFuel /\ dbl_ok c t t' /\
   ((exists e, r = inl e /\ exn_ok c true t t' e /\ levolves t t') \/
    (exists b s, r = inr (true, log_of g v true, (b, s)) /\
       lgood t' /\ lim_same t t' /\ hpc t <= hpc t' /\
       lupd c t t' k (final_of g v true) /\
       (forall vf, final_of g v true = Some vf ->
          exists e, bget (cur t') b s = Some e /\ ekey e = k /\ eval e = vf)))).
Proof.
  intros Hnt G E Hk. assert (W := lgood_wf c hash t G).
  rewrite (uprase_gen_tail c hash Hc t k v g W) in E. cbv zeta in E.
  destruct (snapshot_lgood c hash Hc t k G) as [_ [Ev1 [Hbc [Hsd1 S1]]]]. cbv zeta in Ev1, Hbc, Hsd1, S1.
  set (hp := hpc t) in *.
  set (t1 := lock_two c hash false t (i1_of hash hp k) (i2_of hash hp k)) in *.
  assert (G1 := levolves_lgood c hash _ _ Ev1). assert (L1 := levolves_lim c hash _ _ Ev1).
  assert (Hts1 := levolves_tsize c hash Hc t t1 G Ev1).
  assert (Hk1 : forall v0, ~ lholds t1 k v0) by (intros v0 H; apply (Hk v0); apply Ev1; exact H).
  rewrite <- Hbc in E.
  destruct (cuckoo_insert_loop c hash (cuckoo_fast_double c hash) false t1 k
              (i1_of hash (hpc t1) k) (i2_of hash (hpc t1) k) insert_loop_fuel) as [t2 res] eqn:El.
  assert (Hf : 60 <= N.of_nat insert_loop_fuel + hpc t1) by (unfold insert_loop_fuel; lia).
  (* the tail never changes the hashpower *)
  assert (Htail : hpc t' = hpc t2).
  { destruct res as [pos j1 j2|e]; [|injection E as <- _; reflexivity].
    destruct (pstatus pos);
      match type of E with finish c ?a ?b ?s ?i ?g = _ =>
        destruct (finish_hp c a b s i g t' r E) as [H1 _] end; exact H1. }
  destruct (l_insert_loop_tied Hnt insert_loop_fuel t1 k G1 Hsd1 Hk1 t2 res El) as [He|[[Ev2 Hil] [D Hres]]].
  { left. unfold tied_esc in *. rewrite Htail. exact He. }
  right. specialize (Hres Hf).
  assert (D0 : dbl_ok c t t2) by (apply (dbl_ok_pre c t t1 t2 Hbc Hts1 L1 D)).
  assert (Ev02 : levolves t t2) by (eapply levolves_trans; eassumption).
  destruct res as [pos j1 j2|e].
  2:{ injection E as <- <-. split; [intro H; apply Hres; injection H as ->; reflexivity|].
      split; [exact D0|]. left. exists e. split; [reflexivity|]. destruct Hil as [_ He].
      split; [eapply exn_ok_lim; eassumption|exact Ev02]. }
  destruct Hil as [_ [_ [_ [[_ [[v1 Hin] _]]|[Hs [_ [Hg [Hcand [Hslot Hmg]]]]]]]]].
  { exfalso. exact (Hk1 v1 Hin). }
  rewrite Hs in E.
  assert (G2 := levolves_lgood c hash _ _ Ev2).
  assert (Hk2 : forall v0, ~ lholds t2 k v0).
  { intros v0 H. apply (Hk v0). apply Ev02. exact H. }
  destruct (lgood_add c hash Hc t2 (pindex pos) (pslot pos) k v G2 Hg Hcand Hslot Hmg Hk2)
    as [G3 [L3 [Hhp3 [He3 Hh3]]]]. cbv zeta in G3, L3, Hhp3, He3, Hh3.
  set (t3 := add_to_bucket c t2 (pindex pos) (pslot pos) (partial_key (hash k)) k v) in *.
  destruct (finish_lgood c hash Hc t3 (pindex pos) (pslot pos) _ true g G3 He3)
    as [t5 [Ef [G5 [L5 [Hhp5 [Hu Hp]]]]]]. cbn [ekey eval] in Ef, Hu, Hp.
  rewrite Ef in E. injection E as <- <-.
  split; [discriminate|]. split; [apply (dbl_ok_post c t t2 t5); [congruence|exact D0]|].
  destruct Ev02 as [_ [Hh [L2 Hb2]]].
  right. exists (pindex pos), (pslot pos). split; [reflexivity|]. split; [exact G5|].
  split; [exact (lim_same_trans _ _ _ L2 (lim_same_trans _ _ _ L3 L5))|].
  split; [lia|]. split; [|exact Hp].
  intros k' v'. rewrite (Hu k' v'), (Hh3 k' v'), (Hh k' v'). split.
  + intros [[Hne [[E1 _]|[_ H]]]|H]; [contradiction|left; split; assumption|right; exact H].
  + intros [[Hne H]|H]; [left; split; [exact Hne|right; split; assumption]|right; exact H].
Qed.

(* EXACTLY LazyRefine.uprase_gen_lgood, with [tied_esc t'] in place of [lesc c hash t] *)
Theorem uprase_gen_lgood_tied t k v g :
  nothrow c = true -> lgood t ->
  forall t' r, uprase_gen c hash false t k v g = (t', r) ->
  (forall v0, lholds t k v0 ->
     exists b s, r = inr (false, log_of g v0 false, (b, s)) /\
       lgood t' /\ lim_same t t' /\ hpc t' = hpc t /\
       lupd c t t' k (final_of g v0 false) /\
       (forall vf, final_of g v0 false = Some vf ->
          exists e, bget (cur t') b s = Some e /\ ekey e = k /\ eval e = vf)) /\
  ((forall v0, ~ lholds t k v0) ->
     tied_esc t' \/
     (exists e, r = inl e /\ exn_ok c true t t' e /\ levolves t t') \/
     (exists b s, r = inr (true, log_of g v true, (b, s)) /\
        lgood t' /\ lim_same t t' /\ hpc t <= hpc t' /\
        lupd c t t' k (final_of g v true) /\
        (forall vf, final_of g v true = Some vf ->
           exists e, bget (cur t') b s = Some e /\ ekey e = k /\ eval e = vf))).
Proof.
  intros Hnt G t' r E. split.
  - exact (proj1 (uprase_gen_lgood c hash Hc t k v g Hnt G t' r E)).
  - intro Hk. destruct (uprase_gen_tied t k v g t' r Hnt G E Hk) as [He|[_ [_ H]]]; [left; exact He|right; exact H].
Qed.

(* LazyRefine.uprase_gen_rep with the tied clause, no fuel artefact, the doubling rule *)
Lemma uprase_gen_rep_tied t k v g m t' r :
  nothrow c = true -> lgood t -> rep t m -> uprase_gen c hash false t k v g = (t', r) ->
  tied_esc t' \/
  (lgood t' /\ lim_same t t' /\ r <> inl EOutOfFuel /\ dbl_ok c t t' /\
   match r with
   | inl e => m k = None /\ exn_ok c true t t' e /\ rep t' m
   | inr (ins, lg, _) =>
       match m k with
       | Some v0 => ins = false /\ lg = log_of g v0 false /\ hpc t' = hpc t /\
                    rep t' (mset m k (final_of g v0 false))
       | None => ins = true /\ lg = log_of g v true /\ rep t' (mset m k (final_of g v true))
       end
   end).
Proof.
  intros Hnt G R E. destruct (uprase_gen_lgood c hash Hc t k v g Hnt G t' r E) as [Hin _].
  destruct (m k) as [v0|] eqn:Emk.
  - right. destruct (Hin v0 (proj2 (R k v0) Emk)) as [b [s [-> [G' [L [Hhp [U _]]]]]]].
    split; [exact G'|]. split; [exact L|]. split; [discriminate|]. split; [apply dbl_ok_same; exact Hhp|].
    split; [reflexivity|]. split; [reflexivity|]. split; [exact Hhp|]. apply (rep_lupd c t t' k _ m R U).
  - destruct (uprase_gen_tied t k v g t' r Hnt G E (proj1 (rep_none c t m k R) Emk))
      as [He|[Hnf [D [[e [-> [He Ev]]]|[b [s [-> [G' [L [_ [U _]]]]]]]]]]].
    + left. exact He.
    + right. split; [apply (levolves_lgood c hash _ _ Ev)|]. split; [apply (levolves_lim c hash _ _ Ev)|].
      split; [exact Hnf|]. split; [exact D|].
      split; [reflexivity|]. split; [exact He|]. apply (rep_same c t t' m R). apply Ev.
    + right. split; [exact G'|]. split; [exact L|]. split; [exact Hnf|]. split; [exact D|].
      split; [reflexivity|]. split; [reflexivity|]. apply (rep_lupd c t t' k _ m R U).
Qed.

End Tied.

(* ================================================================== 3. the operations *)

Section Ops.
Variable c : config.
Variable hash : N -> N.
Hypothesis Hc : cfg_ok c.
Variable fapply : fnk -> Z -> bool -> Z * bool.

Notation lgood := (lgood c hash).
Notation rep := (rep c).
Notation op_spec := (op_spec c fapply).

(* the step stored a table of at least 2^59 buckets in the slot *)
Definition tied_step (w : world) (a : nat) (s : tslot) (w' : world) : Prop :=
  exists t', w' = put_t w a s t' /\ tied_esc t'.

(* when the slot exists (always the case when the step is reached through Api.step) the clause is a
   decidable property of the resulting world; for a slot index outside the world [put_t] is the
   identity and BOTH disjuncts of the theorems below are unconstrained, exactly as in
   LazyRefine.normal_mode_op_refines *)
Lemma put_t_inj w a s t t' : (a < length (tabs w))%nat -> put_t w a s t = put_t w a s t' -> t = t'.
Proof.
  intros Ha E. apply (f_equal (fun x => nth a (tabs x) None)) in E.
  unfold put_t, put_tab in E. cbn [tabs] in E. rewrite !nth_set_nth_same in E by exact Ha.
  injection E as E. exact E.
Qed.

Lemma tied_step_slot w a s w' :
  (a < length (tabs w))%nat -> tied_step w a s w' ->
  exists sl', get_tab w' a = Some sl' /\ tied_esc (tb sl').
Proof.
  intros Ha [t' [-> He]]. exists {| tb := t'; active := active s |}. split; [|exact He].
  unfold get_tab, put_t, put_tab. cbn [tabs]. apply nth_set_nth_same. exact Ha.
Qed.

(* from the representation-level facts of one uprase_gen call to the map specification
   (SpecSound.uprase_gen_accept_core, without its escape clause) *)
Lemma ins_spec_of_rep t k v g (full : bool) m t1 (u : exn + (bool * list rv * (N * N))) :
  nothrow c = true ->
  match u with
  | inl e => m k = None /\ exn_ok c true t t1 e /\ rep t1 m
  | inr (ins, lg, _) =>
      match m k with
      | Some v0 => ins = false /\ lg = log_of g v0 false /\ bhp (cur t1) = bhp (cur t) /\
                   rep t1 (mset m k (final_of g v0 false))
      | None => ins = true /\ lg = log_of g v true /\ rep t1 (mset m k (final_of g v true))
      end
  end ->
  exists m', rep t1 m' /\ ins_spec t g k v full m (ures_out full u) m' /\
             (ures_out full u = [RExn EMaxHashpower] -> bhp (cur t1) = mhp t).
Proof.
  intros Hnt Hu. unfold ins_spec. destruct u as [e|[[ins lg] p]]; cbn [ures_out].
  - destruct Hu as [Emk [He R']]. rewrite Emk. exists m. split; [exact R'|]. split.
    + left. exists e. split; [reflexivity|]. split; [intro; reflexivity|apply He].
    + unfold exn_out. intro Hx. injection Hx as ->. destruct He as [_ Hk]. exact (proj1 (Hk Hnt) eq_refl).
  - destruct (m k) as [v0|].
    + destruct Hu as [-> [-> [_ R']]]. eexists. split; [exact R'|].
      split; [split; [intro; reflexivity|reflexivity]|discriminate].
    + destruct Hu as [-> [-> R']]. eexists. split; [exact R'|].
      split; [right; split; [intro; reflexivity|reflexivity]|discriminate].
Qed.

(* LazyRefine.normal_mode_op_refines WITH THE RUN-TIED CLAUSE: every normal-mode operation, from
   ANY well-formed table (no condition on its limits): the step stored a table of >= 2^59 buckets,
   or the result and the new contents are those of the map specification *)
Theorem normal_mode_op_refines_tied w a s o w' r m :
  nothrow c = true -> active s = false -> normal_op o = true ->
  lgood (tb s) -> rep (tb s) m -> op_pre c (tb s) o ->
  step_some c hash fapply w a s o = (w', r) ->
  tied_step w a s w' \/
  exists t' m', w' = put_t w a s t' /\ lgood t' /\ lim_same (tb s) t' /\ rep t' m' /\
                op_spec (tb s) m o r m'.
Proof.
  intros Hnt Hact Hop G R Hpre E.
  destruct (ins_family o) eqn:Hins.
  { destruct (ins_step_shape c hash fapply w a s o w' r Hact Hins E)
      as [k [v [g [full [t1 [u [Eu [Hw [Hr Hspec]]]]]]]]].
    destruct (uprase_gen_rep_tied c hash Hc (tb s) k v g m t1 u Hnt G R Eu) as [He|[G' [L [_ [_ Hu]]]]].
    - left. exists t1. split; assumption.
    - right. destruct (ins_spec_of_rep (tb s) k v g full m t1 u Hnt Hu) as [m' [R' [Hs _]]].
      exists t1, m'. split; [exact Hw|]. split; [exact G'|]. split; [exact L|]. split; [exact R'|].
      rewrite Hspec, Hr. exact Hs. }
  right. destruct (lookup_or_clear o) eqn:Hlk.
  { exact (lookup_refines_noesc c hash Hc fapply w a s o w' r m Hact Hlk G R E). }
  destruct o; try discriminate Hop; try discriminate Hins; try discriminate Hlk;
    destruct Hpre as [Hl Hd];
    cbv beta iota zeta delta [step_some] in E; rewrite Hact in E; rewrite if_negb_false in E.
  - destruct (cuckoo_rehash c hash false (tb s) n) as [t1 u] eqn:Er. injection E as <- <-.
    destruct (rehash_core c hash Hc (tb s) n m t1 u Hnt G R Hl Hd Er) as [G' [L [R' [Hs _]]]].
    exists t1, m. split; [reflexivity|]. split; [exact G'|]. split; [exact L|]. split; [exact R'|exact Hs].
  - rewrite cuckoo_reserve_eq in E.
    destruct (cuckoo_rehash c hash false (tb s) (reserve_calc c n)) as [t1 u] eqn:Er. injection E as <- <-.
    destruct (rehash_core c hash Hc (tb s) _ m t1 u Hnt G R Hl Hd Er) as [G' [L [R' [Hs _]]]].
    exists t1, m. split; [reflexivity|]. split; [exact G'|]. split; [exact L|]. split; [exact R'|exact Hs].
Qed.

(* AcceptModel.model_outputs_accepted WITH THE RUN-TIED CLAUSE *)
Theorem model_outputs_accepted_tied spb_ w a sl o w' r m s ts x y :
  spb c = spb_ ->
  nothrow c = true -> normal_op o = true -> op_pre c (tb sl) o -> reserve_fits c o ->
  related c hash sl m s a ts ->
  step_some c hash fapply w a sl o = (w', r) ->
  tied_step w a sl w' \/ accepted_step c hash fapply spb_ w a sl o w' r s ts x y.
Proof.
  intros Hspb Hnt Hop Hpre Hfit Hrel E.
  apply (model_outputs_accepted_gen c hash Hc fapply spb_ Hspb (tied_step w a sl w') w a sl o w' r m s ts x y);
    try assumption.
  intro Hins. destruct Hrel as [Hact [G [Rm [Hd [Hg [Hmv R]]]]]].
  destruct (ins_step_shape c hash fapply w a sl o w' r Hact Hins E)
    as [k [v [g [full [t1 [u [Eu [Hw [Hr Hspec]]]]]]]]].
  destruct (uprase_gen_rep_tied c hash Hc (tb sl) k v g m t1 u Hnt G Rm Eu) as [He|[G' [L [Hnf [D Hu]]]]].
  - left. exists t1. split; assumption.
  - right. exact (insert_accepted_core c hash Hc fapply spb_ Hspb w a sl o w' r m s ts x y k v g full t1 u
                    Hnt Hins G Rm Hd Hg Hmv R Hw Hr Hspec G' L Hnf D Hu).
Qed.

End Ops.

(* ================================================================== 4. the C interface's tables *)

Section CTables.
Variable c : config.
Variable hash : N -> N.
Hypothesis Hc : cfg_ok c.
Hypothesis Hnt : nothrow c = true.

(* CApiRefine.c_table_insert_no_policy_exception WITH THE RUN-TIED CLAUSE, and without the fuel
   disjunct: on a table with no limits (what _init and _read hand out) an insertion-type call
   returns normally, leaving a well-formed table with no limits - unless it ends with a table of
   at least 2^59 buckets.  ([lesc] and [big_esc] both hold of EVERY such table: no maximum
   hashpower, minimum load factor 0.) *)
Theorem c_table_insert_no_policy_exception_tied t k v g t' r :
  lgood c hash t -> no_limits t ->
  uprase_gen c hash false t k v g = (t', r) ->
  tied_esc t' \/
  (exists ins lg pos, r = inr (ins, lg, pos) /\ lgood c hash t' /\ no_limits t').
Proof.
  intros G [Hmlf Hmhp] E.
  destruct (uprase_gen_lgood c hash Hc t k v g Hnt G t' r E) as [Hp _].
  destruct (lholds_dec c hash Hc t k (proj1 G)) as [[v0 Hv0]|Habs].
  - destruct (Hp v0 Hv0) as [b [s [-> [G' [L _]]]]].
    right. do 3 eexists. split; [reflexivity|]. split; [exact G'|].
    eapply no_limits_lim_same; [split; eassumption|exact L].
  - destruct (uprase_gen_tied c hash Hc t k v g t' r Hnt G E Habs)
      as [He|[Hnf [_ [[e [-> [[[[_ Hne]|[[_ [_ Hne]]|He0]] _] _]]]|[b [s [-> [G' [L _]]]]]]]]].
    + left. exact He.
    + exfalso. apply Hne. exact Hmhp.
    + exfalso. apply Hne. exact Hmlf.
    + exfalso. apply Hnf. rewrite He0. reflexivity.
    + right. do 3 eexists. split; [reflexivity|]. split; [exact G'|].
      eapply no_limits_lim_same; [split; eassumption|exact L].
Qed.

End CTables.

Lemma big_esc_of_no_limits c t : no_limits t -> big_esc c t.
Proof.
  intros [Hm Hh]. split; [rewrite Hh; unfold NO_MAXIMUM_HASHPOWER; lia|]. rewrite Hm. lia.
Qed.

(* ================================================================== 5. the immediate regime (Refine.good, any mode) *)

Section GoodTied.
Variable c : config.
Variable hash : N -> N.
Hypothesis Hc : cfg_ok c.

Notation good := (good c hash).
Notation evolves := (evolves c hash).
Notation settled := (settled c hash).
Notation hpc t := (bhp (cur t)).

(* Refine.il_post without its escape disjunct *)
Definition il_ok (t : table) (k : N) (t' : table) (res : il_result) : Prop :=
  match res with
  | IL_pos pos j1 j2 =>
      evolves t t' /\ j1 = i1_of hash (hpc t') k /\ j2 = i2_of hash (hpc t') k /\
      ((pstatus pos = St_duplicated /\ key_in (cur t) k /\ hpc t' = hpc t /\
        exists e, bget (cur t') (pindex pos) (pslot pos) = Some e /\ ekey e = k) \/
       (pstatus pos = St_ok /\ ~ key_in (cur t) k /\
        bget (cur t') (pindex pos) (pslot pos) = None /\
        cand hash (hpc t') k (pindex pos) /\ pslot pos < spb c))
  | IL_exn e => ~ key_in (cur t) k /\ exn_ok c true t t' e /\ fail_ok c hash t t'
  end.

Lemma il_ok_evolves t t2 k t' res :
  evolves t t2 -> ~ key_in (cur t) k -> il_ok t2 k t' res -> il_ok t k t' res.
Proof.
  intros Ev Hk H. destruct res as [pos j1 j2|e].
  - destruct H as [Ev' [E1 [E2 Hcase]]]. split; [eapply evolves_trans; eassumption|].
    split; [exact E1|]. split; [exact E2|].
    destruct Hcase as [[_ [Hin _]]|[Hs [_ Hrest]]].
    + exfalso. apply Hk. apply (evolves_key_in c hash t t2 k Ev). exact Hin.
    + right. split; [exact Hs|]. split; [exact Hk|exact Hrest].
  - destruct H as [_ [He Hf]]. split; [exact Hk|].
    split; [eapply exn_ok_lim; [apply (evolves_lim c hash _ _ Ev)|exact He]|].
    eapply fail_ok_evolves; eassumption.
Qed.

Lemma insert_loop_absent_tied :
  nothrow c = true ->
  forall fuel mode t k, good t -> immediate c mode t -> ~ key_in (cur t) k ->
  forall t' res,
  cuckoo_insert_loop c hash (cuckoo_fast_double c hash) mode t k
    (i1_of hash (hpc t) k) (i2_of hash (hpc t) k) fuel = (t', res) ->
  tied_esc t' \/ il_ok t k t' res.
Proof.
  intro Hnt. induction fuel as [|f IH]; intros mode t k G Him Hk t' res E.
  - cbn [cuckoo_insert_loop] in E. injection E as <- <-. right. split; [exact Hk|].
    split; [apply exn_ok_fuel|]. intros _. apply evolves_refl. exact G.
  - assert (St : settled t) by (destruct G as [St _]; exact St).
    cbn [cuckoo_insert_loop] in E.
    destruct (cuckoo_insert_spec c hash Hc mode t k St) as [t1 [r1 [E1 [Hsc [_ Hout]]]]].
    cbv zeta in E1, Hout. rewrite E1 in E.
    destruct (good_same_contents c hash t t1 G Hsc) as [Ev1 Hhp1].
    destruct (Hout Hk) as [->|[pos [-> Hcase]]].
    + injection E as <- <-. right. split; [exact Hk|]. split; [apply exn_ok_fuel|].
      intros _. exact Ev1.
    + destruct Hcase as [[Hs [Hg [Hidx Hslot]]]|Hs]; rewrite Hs in E.
      * injection E as <- <-. right. split; [exact Ev1|]. rewrite Hhp1.
        split; [reflexivity|]. split; [reflexivity|]. right.
        split; [exact Hs|]. split; [exact Hk|]. split; [exact Hg|]. split; [exact Hidx|exact Hslot].
      * assert (G1 := evolves_good c hash _ _ Ev1). assert (L1 := evolves_lim c hash _ _ Ev1).
        assert (Him1 := immediate_lim c mode t t1 L1 Him).
        destruct (fast_double_f_good c hash Hc 5 true mode t1 Hnt G1 Him1) as [H1 [H2 H3]].
        cbv zeta in H1, H2, H3. rewrite Hhp1 in H1, H2, H3.
        rewrite hashpower_eq in E. unfold cuckoo_fast_double at 1, resize_fuel in E.
        assert (Hm1 : mhp t1 = mhp t) by (destruct L1 as [_ [_ [H _]]]; exact H).
        destruct (maxed_dec hash t1 (hpc t + 1)) as [Hm|Hm].
        { rewrite (H1 Hm) in E. injection E as <- <-. right. apply (il_ok_evolves t t1 k t1 _ Ev1 Hk).
          split; [intro H; apply Hk; apply (evolves_key_in c hash t t1 k Ev1); exact H|]. split.
          - split; [left; split; [reflexivity|destruct Hm as [Hm _]; exact Hm]|].
            intros _. split; [|intro H; discriminate]. intros _.
            destruct G1 as [_ [_ [_ [_ Hw]]]]. destruct Hm as [Hm1' Hm2]. destruct Hw as [Hw|Hw]; [contradiction|lia].
          - intros _. apply evolves_refl. exact G1. }
        destruct (lf_lt_mlf c t1) eqn:Hlf.
        { rewrite (H2 Hm eq_refl eq_refl) in E. injection E as <- <-. right.
          apply (il_ok_evolves t t1 k t1 _ Ev1 Hk).
          split; [intro H; apply Hk; apply (evolves_key_in c hash t t1 k Ev1); exact H|]. split.
          - split; [right; left; split; [reflexivity|split; [reflexivity|apply (lf_true_mlfn c t1 Hlf)]]|].
            intros _. split; [intro H; discriminate|]. intros _. exact Hlf.
          - intros _. apply evolves_refl. exact G1. }
        destruct (H3 Hm (fun _ => eq_refl)) as [Efd Hg]. rewrite Efd in E.
        set (t2 := fast_double_body c hash mode t1 (hpc t + 1)) in *.
        assert (Hhp2' : hpc t2 = hpc t + 1) by apply fast_double_body_hp.
        destruct (N.lt_ge_cases (hpc t + 1) 60) as [L|L].
        2:{ left. unfold tied_esc. assert (H4 := snapshot_hp c hash mode t2 k).
            destruct (snapshot_and_lock_two c hash mode t2 k) as [[t3 j1] j2]. cbn [fst] in H4.
            apply (cuckoo_insert_loop_mono c hash Hnt) in E. lia. }
        destruct (Hg L) as [G2 [Hhp2 [Hh2 [L2 [Him2 _]]]]].
        assert (Ev2 : evolves t1 t2).
        { split; [exact G2|]. split; [exact Hh2|]. split; [exact L2|]. lia. }
        assert (Ev02 : evolves t t2) by (eapply evolves_trans; eassumption).
        assert (St2 : settled t2) by (destruct G2 as [St2 _]; exact St2).
        rewrite (snapshot_and_lock_two_settled c hash mode t2 k (se_mig _ _ _ St2)) in E.
        rewrite hashpower_eq in E.
        assert (Hk2 : ~ key_in (cur t2) k).
        { intro H. apply Hk. apply (evolves_key_in c hash t t2 k Ev02). exact H. }
        destruct (IH mode t2 k G2 Him2 Hk2 t' res E) as [He|H]; [left; exact He|right].
        exact (il_ok_evolves t t2 k t' res Ev02 Hk H).
Qed.

(* the absent-key case for uprase_f with ANY loop fuel (stated for a variable fuel on purpose: with
   the literal 70 the kernel unfolds the insert loop when the proof is checked) *)
Lemma uprase_f_absent_tied n mode t k v g :
  nothrow c = true -> good t -> immediate c mode t ->
  forall t' r, uprase_f c hash n (cuckoo_fast_double c hash) mode t k v g = (t', r) ->
  ~ key_in (cur t) k ->
  tied_esc t' \/
  (exists e, r = inl e /\ exn_ok c true t t' e /\ evolves t t' /\ immediate c mode t') \/
  (exists b s, r = inr (true, log_of g v true, (b, s)) /\
     good t' /\ lim_same t t' /\ immediate c mode t' /\ hpc t <= hpc t' /\
     upd_holds (cur t) (cur t') k (final_of g v true) /\
     (forall vf, final_of g v true = Some vf ->
        exists e, bget (cur t') b s = Some e /\ ekey e = k /\ eval e = vf)).
Proof.
  intros Hnt G Him t' r E Hk.
  assert (St : settled t) by (destruct G as [St _]; exact St).
  rewrite (uprase_f_finish c hash n _ mode t k v g St) in E.
  destruct (cuckoo_insert_loop c hash (cuckoo_fast_double c hash) mode t k (i1_of hash (hpc t) k)
              (i2_of hash (hpc t) k) n) as [t2 res] eqn:El.
  assert (Htail : hpc t' = hpc t2).
  { destruct res as [pos j1 j2|e]; [|injection E as <- _; reflexivity].
    destruct (pstatus pos);
      match type of E with finish c ?a ?b ?s ?i ?g = _ =>
        destruct (finish_hp c a b s i g t' r E) as [H1 _] end; exact H1. }
  destruct (insert_loop_absent_tied Hnt n mode t k G Him Hk t2 res El) as [He|Hil].
  { left. unfold tied_esc in *. rewrite Htail. exact He. }
  right. destruct res as [pos j1 j2|e].
  2:{ injection E as <- <-. left. destruct Hil as [_ [He Hf]].
      assert (Ev : evolves t t2) by (apply Hf; left; exact Hnt).
      exists e. split; [reflexivity|]. split; [exact He|]. split; [exact Ev|].
      exact (immediate_lim c mode t t2 (evolves_lim c hash _ _ Ev) Him). }
  right.
  destruct Hil as [Ev [_ [_ [[_ [Hin _]]|[Hs [_ [Hg [Hcand Hslot]]]]]]]]; [contradiction|].
  rewrite Hs in E.
  assert (G2 := evolves_good c hash _ _ Ev).
  assert (Hk2 : ~ key_in (cur t2) k).
  { intro H. apply Hk. apply (evolves_key_in c hash t t2 k Ev). exact H. }
  destruct (good_add c hash t2 (pindex pos) (pslot pos) k v G2 Hg Hcand Hslot Hk2)
    as [G3 [L3 [Hhp3 [He3 Hh3]]]]. cbv zeta in G3, L3, Hhp3, He3, Hh3.
  set (t3 := add_to_bucket c t2 (pindex pos) (pslot pos) (partial_key (hash k)) k v) in *.
  destruct (finish_good c hash t3 (pindex pos) (pslot pos) _ true g G3 He3)
    as [t5 [Ef [G5 [L5 [Hhp5 [Hu Hp]]]]]]. cbn [ekey eval] in Ef, Hu, Hp.
  rewrite Ef in E. injection E as <- <-.
  destruct Ev as [_ [Hh [L2 Hb2]]].
  assert (L : lim_same t t5) by exact (lim_same_trans _ _ _ L2 (lim_same_trans _ _ _ L3 L5)).
  exists (pindex pos), (pslot pos). split; [reflexivity|]. split; [exact G5|]. split; [exact L|].
  split; [exact (immediate_lim c mode t t5 L Him)|]. split; [lia|]. split; [|exact Hp].
  intros k' v'. rewrite (Hu k' v'), (Hh3 k' v'), (Hh k' v'). split.
  + intros [[Hne [[E1 _]|[_ H]]]|H]; [contradiction|left; split; assumption|right; exact H].
  + intros [[Hne H]|H]; [left; split; [exact Hne|right; split; assumption]|right; exact H].
Qed.

(* EXACTLY Refine.uprase_gen_good, with [tied_esc t'] in place of [esc c hash t] *)
Theorem uprase_gen_good_tied mode t k v g :
  nothrow c = true -> good t -> immediate c mode t ->
  forall t' r, uprase_gen c hash mode t k v g = (t', r) ->
  (forall v0, holds (cur t) k v0 ->
     exists b s, r = inr (false, log_of g v0 false, (b, s)) /\
       good t' /\ lim_same t t' /\ immediate c mode t' /\ hpc t' = hpc t /\
       upd_holds (cur t) (cur t') k (final_of g v0 false) /\
       (forall vf, final_of g v0 false = Some vf ->
          exists e, bget (cur t') b s = Some e /\ ekey e = k /\ eval e = vf)) /\
  (~ key_in (cur t) k ->
     tied_esc t' \/
     (exists e, r = inl e /\ exn_ok c true t t' e /\ evolves t t' /\ immediate c mode t') \/
     (exists b s, r = inr (true, log_of g v true, (b, s)) /\
        good t' /\ lim_same t t' /\ immediate c mode t' /\ hpc t <= hpc t' /\
        upd_holds (cur t) (cur t') k (final_of g v true) /\
        (forall vf, final_of g v true = Some vf ->
           exists e, bget (cur t') b s = Some e /\ ekey e = k /\ eval e = vf))).
Proof.
  intros Hnt G Him t' r E. split.
  - exact (proj1 (uprase_gen_good c hash Hc mode t k v g Hnt G Him t' r E)).
  - rewrite uprase_gen_eq_f in E.
    exact (uprase_f_absent_tied insert_loop_fuel mode t k v g Hnt G Him t' r E).
Qed.

End GoodTied.

(* ================================================================== 6. locked_table::insert and operator[] *)

Section LockedTied.
Variable c : config.
Variable hash : N -> N.
Hypothesis Hc : cfg_ok c.
Variable fapply : fnk -> Z -> bool -> Z * bool.

Notation good := (good c hash).
Notation rep := (rep c).
Notation lpost := (lpost c hash).

(* LockedRefine.uprase_locked_rep with the tied clause *)
Lemma uprase_locked_rep_tied t k v m t' x :
  nothrow c = true -> good t -> rep t m ->
  uprase_gen c hash true t k v (fun _ _ => None) = (t', x) ->
  match m k with
  | Some v0 =>
      good t' /\ lim_same t t' /\ rep t' m /\ bhp (cur t') = bhp (cur t) /\
      exists p, x = inr (false, [], p) /\ at_pos t' p k v0
  | None =>
      tied_esc t' \/
      (good t' /\ lim_same t t' /\
       ((exists e, x = inl e /\ exn_ok c true t t' e /\ rep t' m) \/
        (exists p, x = inr (true, [], p) /\ rep t' (mset m k (Some v)) /\ at_pos t' p k v)))
  end.
Proof.
  intros Hnt G R E.
  destruct (uprase_gen_good_tied c hash Hc true t k v _ Hnt G (imm_true c t) t' x E) as [Hin Hout].
  destruct (m k) as [v0|] eqn:Emk.
  - assert (Hv0 : holds (cur t) k v0) by (apply (grep c hash t m G R); exact Emk).
    destruct (Hin v0 Hv0) as [b [sl [-> [G' [L [_ [Hhp [U Hp]]]]]]]].
    unfold final_of in U, Hp. cbv beta iota in U, Hp.
    split; [exact G'|]. split; [exact L|]. split; [|split; [exact Hhp|]].
    + apply (grep_same c hash t t' m G G' R). apply (upd_holds_same c hash _ _ k v0 (good_arr c hash t G) Hv0 U).
    + exists (b, sl). split; [reflexivity|]. destruct (Hp v0 eq_refl) as [e He]. exists e. exact He.
  - assert (Hno : ~ key_in (cur t) k) by (apply (grep_none c hash t m k G R); exact Emk).
    destruct (Hout Hno) as [He|[[e [-> [He [Ev _]]]]|[b [sl [-> [G' [L [_ [_ [U Hp]]]]]]]]]];
      [left; exact He|right|right].
    + destruct Ev as [G' [Hh [L _]]]. split; [exact G'|]. split; [exact L|]. left. exists e.
      split; [reflexivity|]. split; [exact He|]. apply (grep_same c hash t t' m G G' R Hh).
    + unfold final_of in U, Hp. cbv beta iota in U, Hp.
      split; [exact G'|]. split; [exact L|]. right. exists (b, sl). split; [reflexivity|].
      split; [apply (grep_upd c hash t t' m k _ G G' R U)|].
      destruct (Hp v eq_refl) as [e He]. exists e. exact He.
Qed.

Lemma refines_LInsert_tied w a s k v w' r m :
  nothrow c = true -> active s = true -> good (tb s) -> rep (tb s) m ->
  step_some c hash fapply w a s (LInsert k v) = (w', r) ->
  tied_step w a s w' \/ lpost w a s (LInsert k v) w' r m.
Proof.
  intros Hnt Hact G R E.
  cbv beta iota zeta delta [step_some] in E; rewrite Hact in E.
  destruct (uprase_gen c hash true (tb s) k v (fun _ _ => None)) as [t1 x] eqn:Eu.
  assert (Hw : w' = put_t w a s t1) by (destruct x as [e|[[ins lg] p]]; injection E as <- _; reflexivity).
  assert (H := uprase_locked_rep_tied (tb s) k v m t1 x Hnt G R Eu).
  unfold LockedRefine.lpost. cbn [lop_spec lop_world]. rewrite (put_t_active w a s t1 Hact) in E.
  destruct (m k) as [v0|] eqn:Emk.
  - right. destruct H as [G' [L [R' [_ [p [-> Hat]]]]]]. destruct (pair_inv _ _ _ _ E) as [<- <-].
    exists t1, m. split; [reflexivity|]. split; [exact G'|]. split; [exact L|]. split; [exact R'|].
    split; [intro; reflexivity|]. exists p. split; [reflexivity|exact Hat].
  - destruct H as [He|[G' [L [[e [-> [He R']]]|[p [-> [R' Hat]]]]]]]; [left; exists t1; split; assumption|right|right].
    + destruct (pair_inv _ _ _ _ E) as [<- <-]. exists t1, m. split; [reflexivity|].
      split; [exact G'|]. split; [exact L|]. split; [exact R'|]. left. exists e.
      split; [reflexivity|]. split; [intro; reflexivity|exact He].
    + destruct (pair_inv _ _ _ _ E) as [<- <-]. exists t1, (mset m k (Some v)). split; [reflexivity|].
      split; [exact G'|]. split; [exact L|]. split; [exact R'|]. right.
      split; [intro; reflexivity|]. exists p. split; [reflexivity|exact Hat].
Qed.

Lemma refines_LIdx_tied w a s k w' r m :
  nothrow c = true -> active s = true -> good (tb s) -> rep (tb s) m ->
  step_some c hash fapply w a s (LIdx k) = (w', r) ->
  tied_step w a s w' \/ lpost w a s (LIdx k) w' r m.
Proof.
  intros Hnt Hact G R E.
  cbv beta iota zeta delta [step_some] in E; rewrite Hact in E.
  destruct (uprase_gen c hash true (tb s) k 0%Z (fun _ _ => None)) as [t1 x] eqn:Eu.
  assert (Hw : w' = put_t w a s t1) by (destruct x as [e|[[ins lg] p]]; injection E as <- _; reflexivity).
  assert (H := uprase_locked_rep_tied (tb s) k 0%Z m t1 x Hnt G R Eu).
  unfold LockedRefine.lpost. cbn [lop_spec lop_world]. rewrite (put_t_active w a s t1 Hact) in E.
  destruct (m k) as [v0|] eqn:Emk.
  - right. destruct H as [G' [L [R' [_ [p [-> [e [He [_ Hv]]]]]]]]].
    destruct (pair_inv _ _ _ _ E) as [<- <-].
    exists t1, m. split; [reflexivity|]. split; [exact G'|]. split; [exact L|]. split; [exact R'|].
    split; [intro; reflexivity|]. unfold val_at. rewrite He, Hv. reflexivity.
  - destruct H as [He|[G' [L [[e [-> [He R']]]|[p [-> [R' [e [He [_ Hv]]]]]]]]]];
      [left; exists t1; split; assumption|right|right].
    + destruct (pair_inv _ _ _ _ E) as [<- <-]. exists t1, m. split; [reflexivity|].
      split; [exact G'|]. split; [exact L|]. split; [exact R'|]. left. exists e.
      split; [reflexivity|]. split; [intro; reflexivity|exact He].
    + destruct (pair_inv _ _ _ _ E) as [<- <-]. exists t1, (mset m k (Some 0%Z)). split; [reflexivity|].
      split; [exact G'|]. split; [exact L|]. split; [exact R'|]. right.
      split; [intro; reflexivity|]. unfold val_at. rewrite He, Hv. reflexivity.
Qed.

(* LockedRefine.locked_mode_op_refines WITH THE RUN-TIED CLAUSE *)
Theorem locked_mode_op_refines_tied w a s o w' r m :
  nothrow c = true -> active s = true -> locked_op o = true ->
  good (tb s) -> rep (tb s) m -> lop_pre c (tb s) o ->
  step_some c hash fapply w a s o = (w', r) ->
  tied_step w a s w' \/ lpost w a s o w' r m.
Proof.
  intros Hnt Hact Hop G R Hpre E.
  destruct o; try discriminate Hop.
  - right. eapply refines_OUnlock; eassumption.
  - exact (refines_LInsert_tied _ _ _ _ _ _ _ _ Hnt Hact G R E).
  - right. eapply refines_LEraseKey; eassumption.
  - right. eapply refines_LFind; eassumption.
  - right. eapply refines_LAt; eassumption.
  - exact (refines_LIdx_tied _ _ _ _ _ _ _ Hnt Hact G R E).
  - right. eapply refines_LCount; eassumption.
  - right. eapply refines_LRange; eassumption.
  - right. eapply refines_LRehash; eassumption.
  - right. eapply refines_LReserve; eassumption.
  - right. eapply refines_LClear; eassumption.
  - right. eapply refines_LTraverse; eassumption.
  - right. eapply refines_LRTraverse; eassumption.
Qed.

End LockedTied.

(* ================================================================== 7. non-vacuity, and the contrast with [lesc] *)

Module RunTiedExamples.
Import SpecSoundExamples.

(* a table as the C interface hands it out: no minimum load factor, no maximum hashpower *)
Definition tN : table := init_table c0 0.

Lemma init_table_good n : reserve_calc c0 n < 60 ->
  good c0 h0 (init_table c0 n) /\ (forall k v, ~ holds (cur (init_table c0 n)) k v) /\
  bhp (cur (init_table c0 n)) = reserve_calc c0 n.
Proof.
  intro H. destruct (good_new_table c0 h0 c0_ok n H) as [G [Hno Hhp]].
  split; [|split; [exact Hno|exact Hhp]].
  unfold init_table. apply good_set_mhp; [apply good_set_mlf; exact G|].
  cbn [cur set_mlf]. rewrite Hhp. unfold NO_MAXIMUM_HASHPOWER. lia.
Qed.

Lemma tN_lgood : lgood c0 h0 tN /\ no_limits tN.
Proof.
  destruct (init_table_good 0) as [G _]; [vm_compute; reflexivity|].
  split; [apply good_lgood; exact G|apply init_table_no_limits].
Qed.

(* the call, computed: an absent key is inserted, the table keeps its single bucket *)
Example insert_on_tN :
  let '(t', r) := uprase_gen c0 h0 false tN 5 7%Z (fun _ _ => None) in
  bhp (cur t') = 0 /\ exists p, r = inr (true, [], p).
Proof. vm_compute. split; [reflexivity|eexists; reflexivity]. Qed.

(* so the tied clause is FALSE and the theorem yields its specification disjunct *)
Example tied_clause_false_spec_holds :
  let t' := fst (uprase_gen c0 h0 false tN 5 7%Z (fun _ _ => None)) in
  let r := snd (uprase_gen c0 h0 false tN 5 7%Z (fun _ _ => None)) in
  ~ tied_esc t' /\
  exists ins lg pos, r = inr (ins, lg, pos) /\ lgood c0 h0 t' /\ no_limits t'.
Proof.
  cbv zeta. destruct tN_lgood as [G Hn].
  assert (Hhp : bhp (cur (fst (uprase_gen c0 h0 false tN 5 7%Z (fun _ _ => None)))) = 0)
    by (vm_compute; reflexivity).
  destruct (uprase_gen c0 h0 false tN 5 7%Z (fun _ _ => None)) as [t' r] eqn:E. cbn [fst snd] in *.
  assert (Hne : ~ tied_esc t') by (unfold tied_esc; rewrite Hhp; lia).
  split; [exact Hne|].
  destruct (c_table_insert_no_policy_exception_tied c0 h0 c0_ok eq_refl tN 5 7%Z _ t' r G Hn E) as [He|H];
    [contradiction|exact H].
Qed.

(* CONTRAST: LazyRefine's escape clause HOLDS of the same table (an empty no-limits table of 2^59
   buckets exists), and so does AcceptModel.big_esc (minimum load factor 0): with either of them
   CApiRefine.c_table_insert_no_policy_exception says nothing about [tN] *)
Example lesc_holds_of_tN : lesc c0 h0 tN /\ big_esc c0 tN.
Proof.
  split; [|apply big_esc_of_no_limits; apply init_table_no_limits].
  destruct (init_table_good 0) as [G0 [Hno0 _]]; [vm_compute; reflexivity|].
  destruct (init_table_good 2305843009213693952) as [G [Hno Hhp]]; [vm_compute; reflexivity|].
  exists (init_table c0 2305843009213693952). split; [|split].
  - split; [apply good_lgood; exact G|]. split; [|split].
    + intros k v. rewrite (good_lholds c0 h0 _ k v G), (good_lholds c0 h0 tN k v G0).
      split; [intro H; exfalso; exact (Hno k v H)|intro H; exfalso; exact (Hno0 k v H)].
    + repeat split.
    + rewrite Hhp. vm_compute. discriminate.
  - rewrite Hhp. vm_compute. reflexivity.
  - vm_compute. discriminate.
Qed.

(* the same for the packaged statement: a normal-mode insert on [tN] refines the map specification *)
Definition slN : tslot := {| tb := tN; active := false |}.
Definition wN : world := {| tabs := [Some slN]; its := []; imgs := [] |}.

Example normal_insert_on_tN w' r :
  step_some c0 h0 fapply_std wN 0 slN (OInsert 5 7%Z) = (w', r) ->
  exists t' m', w' = put_t wN 0 slN t' /\ lgood c0 h0 t' /\
                rep c0 t' m' /\ op_spec c0 fapply_std tN mempty (OInsert 5 7%Z) r m'.
Proof.
  intro E. destruct tN_lgood as [G _].
  assert (R : rep c0 tN mempty).
  { destruct (init_table_good 0) as [G0 [Hno0 _]]; [vm_compute; reflexivity|].
    intros k v. rewrite (good_lholds c0 h0 tN k v G0). split; [intro H; exfalso; exact (Hno0 k v H)|discriminate]. }
  destruct (normal_mode_op_refines_tied c0 h0 c0_ok fapply_std wN 0 slN
              (OInsert 5 7%Z) w' r mempty eq_refl eq_refl eq_refl G R I E) as [Ht|[t' [m' [Hw [G' [_ [R' Hs]]]]]]].
  - exfalso. destruct (tied_step_slot wN 0 slN w' (Nat.lt_0_1) Ht) as [sl' [Hg He]].
    assert (Hc : match get_tab (fst (step_some c0 h0 fapply_std wN 0 slN (OInsert 5 7%Z))) 0 with
                 | Some sl => bhp (cur (tb sl)) = 0 | None => False end) by (vm_compute; reflexivity).
    rewrite E in Hc. cbn [fst] in Hc. rewrite Hg in Hc. unfold tied_esc in He. rewrite Hc in He. lia.
  - exists t', m'. split; [exact Hw|]. split; [exact G'|]. split; assumption.
Qed.

End RunTiedExamples.
