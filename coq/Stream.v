(* L1 proofs: the stream round trip.  Writing a locked_table to a stream (operator<<) and
   reading the stream into ANY other locked_table (operator>>) yields a table with equal
   contents, size(), minimum load factor and maximum hashpower, which satisfies the full
   invariant of a settled table (so every later operation works on it). *)
From Coq Require Import NArith ZArith List Bool Lia FMapPositive.
From LC Require Import gen.HashGen Bits Core Api InvDefs ArrLemmas Stats Resize.
Import ListNotations.
Local Open Scope N_scope.

(* ================================================================== A. what depends only on the slots *)

(* the array that operator>> installs *)
Definition reloaded (a : barray) : barray := {| bhp := bhp a; bsl := bsl a; bdead := false |}.

Lemma bget_bsl a a' : bsl a' = bsl a -> forall b s, bget a' b s = bget a b s.
Proof. intros E b s. unfold bget. rewrite E. reflexivity. Qed.

Lemma occupied_bsl a a' : bsl a' = bsl a -> forall b s, occupied a' b s = occupied a b s.
Proof. intros E b s. unfold occupied. rewrite (bget_bsl a a' E). reflexivity. Qed.

Lemma holds_bsl a a' : bsl a' = bsl a -> forall k v, holds a' k v <-> holds a k v.
Proof.
  intros E k v. unfold holds.
  split; intros [b [s [e [H R]]]]; exists b, s, e; (split; [|exact R]).
  - rewrite <- (bget_bsl a a' E). exact H.
  - rewrite (bget_bsl a a' E). exact H.
Qed.

Lemma count_arr_bsl c a a' : bhp a' = bhp a -> bsl a' = bsl a -> count_arr c a' = count_arr c a.
Proof. intros E1 E2. apply count_arr_ext; [exact E1|]. intros b s _ _. apply occupied_bsl. exact E2. Qed.

Lemma arr_ok_bsl c hash a a' :
  bhp a' = bhp a -> bsl a' = bsl a -> arr_ok c hash a -> arr_ok c hash a'.
Proof.
  intros E1 E2 [A1 A2 A3 A4 A5 A6].
  assert (G := bget_bsl a a' E2).
  constructor.
  - rewrite E1. exact A1.
  - intros b s e H. rewrite E1. rewrite G in H. apply (A2 b s e H).
  - intros b s e H. rewrite G in H. apply (A3 b s e H).
  - intros b s e H. rewrite E1. rewrite G in H. apply (A4 b s e H).
  - intros b s e H. rewrite G in H. apply (A5 b s e H).
  - intros b s e b' s' e' H H'. rewrite G in H, H'. apply (A6 b s e b' s' e' H H').
Qed.

(* ================================================================== B. lock arrays under [upd] / [map] *)

Lemma In_upd_mig (f : lockm -> lockm) la : (forall y, mig (f y) = mig y) ->
  forall i x, In x (upd i f la) -> exists y, In y la /\ mig x = mig y.
Proof.
  intro Hf. induction la as [|z r IH]; intros i x Hin; [destruct i; contradiction|].
  destruct i as [|i]; cbn [upd] in Hin; destruct Hin as [E|Hin].
  - subst x. exists z. split; [left; reflexivity|apply Hf].
  - exists x. split; [right; exact Hin|reflexivity].
  - subst x. exists z. split; [left; reflexivity|reflexivity].
  - destruct (IH i x Hin) as [y [Hy E]]. exists y. split; [right; exact Hy|exact E].
Qed.

Lemma In_map_mig (f : lockm -> lockm) la : (forall y, mig (f y) = mig y) ->
  forall x, In x (map f la) -> exists y, In y la /\ mig x = mig y.
Proof.
  intros Hf x Hin. apply in_map_iff in Hin. destruct Hin as [y [E Hy]].
  exists y. split; [exact Hy|]. subst x. apply Hf.
Qed.

(* ================================================================== C. operator>> computed *)

Section StreamIn.
Variable c : config.

(* the table operator>> builds before the validated setters run *)
Definition si_t4 (t : table) (im : image) : table :=
  let t1 := set_cur t {| bhp := ihp im; bsl := isl im; bdead := false |} in
  let t2 := maybe_resize_locks c t1 (bucket_count t1) in
  let t3 := set_locks t2 (upd_last (map (fun lk => {| cnt := 0%Z; mig := mig lk |})) (locks t2)) in
  if 0 <? isize im then upd_cur_lock t3 0 (fun lk => {| cnt := Z.of_N (isize im); mig := mig lk |}) else t3.

Lemma si_t4_cur t im : cur (si_t4 t im) = {| bhp := ihp im; bsl := isl im; bdead := false |}.
Proof.
  unfold si_t4. cbv zeta. destruct (0 <? isize im).
  - rewrite st_cur_upd_cur_lock. cbn [cur set_locks]. rewrite maybe_resize_locks_cur. reflexivity.
  - cbn [cur set_locks]. rewrite maybe_resize_locks_cur. reflexivity.
Qed.

Lemma si_t4_scalars t im :
  old (si_t4 t im) = old t /\ nrem (si_t4 t im) = nrem t /\ rc (si_t4 t im) = rc t /\
  mlfn (si_t4 t im) = mlfn t /\ mlfd (si_t4 t im) = mlfd t /\ mhp (si_t4 t im) = mhp t /\
  workers (si_t4 t im) = workers t.
Proof.
  unfold si_t4. cbv zeta.
  set (t1 := set_cur t {| bhp := ihp im; bsl := isl im; bdead := false |}).
  destruct (maybe_resize_locks_scalars c t1 (bucket_count t1)) as [G1 [G2 [G3 [G4 [G5 G6]]]]].
  assert (G0 := maybe_resize_locks_old c t1 (bucket_count t1)).
  destruct (0 <? isize im);
    cbn [old nrem rc mlfn mlfd mhp workers upd_cur_lock set_locks]; repeat split; assumption.
Qed.

(* when the recorded maximum hashpower is not below the recorded hashpower, the validated
   setter accepts and the resize counter is bumped *)
Lemma stream_in_accept t im :
  ihp im <= imhp im ->
  stream_in c t im =
  (set_rc (set_mhp (set_mlf (si_t4 t im) (imlfn im) (imlfd im)) (imhp im))
          (wrap64 (rc t + 1)), [RNone]).
Proof.
  intro Hle. unfold stream_in. cbv zeta. fold (si_t4 t im).
  rewrite set_mhp_op_valid.
  - cbn [rc set_mhp set_mlf]. destruct (si_t4_scalars t im) as [_ [_ [R _]]]. rewrite R. reflexivity.
  - unfold hashpower. cbn [cur set_mlf]. rewrite si_t4_cur. cbn [bhp]. exact Hle.
Qed.

(* when it is below, operator>> throws after having replaced the contents (no bump) *)
Lemma stream_in_reject t im :
  imhp im < ihp im ->
  stream_in c t im = (set_mlf (si_t4 t im) (imlfn im) (imlfd im), exn_out EInvalidArgument).
Proof.
  intro Hlt. unfold stream_in. cbv zeta. fold (si_t4 t im).
  destruct (set_mhp_op_spec (set_mlf (si_t4 t im) (imlfn im) (imlfd im)) (imhp im)) as [R _].
  rewrite R; [reflexivity|].
  unfold hashpower. cbn [cur set_mlf]. rewrite si_t4_cur. cbn [bhp]. exact Hlt.
Qed.

Lemma si_t4_locks_nonnil t im : locks t <> [] -> locks (si_t4 t im) <> [].
Proof.
  intro Hne. unfold si_t4. cbv zeta.
  set (t1 := set_cur t {| bhp := ihp im; bsl := isl im; bdead := false |}).
  assert (H2 : locks (maybe_resize_locks c t1 (bucket_count t1)) <> []).
  { apply maybe_resize_locks_nonnil. exact Hne. }
  assert (H3 : upd_last (map (fun lk => {| cnt := 0%Z; mig := mig lk |}))
                 (locks (maybe_resize_locks c t1 (bucket_count t1))) <> []).
  { apply st_upd_last_nonnil. exact H2. }
  destruct (0 <? isize im).
  - apply st_locks_upd_cur_lock_nonnil. exact H3.
  - exact H3.
Qed.

(* the current lock array after operator>> *)
Lemma si_t4_cur_locks t im :
  locks t <> [] ->
  let t1 := set_cur t {| bhp := ihp im; bsl := isl im; bdead := false |} in
  let la := map (fun lk => {| cnt := 0%Z; mig := mig lk |})
                (cur_locks (maybe_resize_locks c t1 (bucket_count t1))) in
  cur_locks (si_t4 t im) =
    if 0 <? isize im then upd 0 (fun lk => {| cnt := Z.of_N (isize im); mig := mig lk |}) la else la.
Proof.
  intros Hne. cbv zeta. unfold si_t4. cbv zeta.
  set (t1 := set_cur t {| bhp := ihp im; bsl := isl im; bdead := false |}).
  set (t2 := maybe_resize_locks c t1 (bucket_count t1)).
  assert (H2 : locks t2 <> []) by (apply maybe_resize_locks_nonnil; exact Hne).
  set (zero := fun lk : lockm => {| cnt := 0%Z; mig := mig lk |}).
  set (t3 := set_locks t2 (upd_last (map zero) (locks t2))).
  assert (E3 : cur_locks t3 = map zero (cur_locks t2)) by (apply cur_locks_upd_last; exact H2).
  assert (H3 : locks t3 <> []) by (apply st_upd_last_nonnil; exact H2).
  destruct (0 <? isize im).
  - rewrite st_cur_locks_upd_cur_lock by exact H3. rewrite E3. reflexivity.
  - exact E3.
Qed.

Lemma si_t4_length t im :
  locks t <> [] ->
  length (cur_locks (si_t4 t im)) =
  Nat.max (length (cur_locks t)) (N.to_nat (N.min (kmax c) (hashsize (ihp im)))).
Proof.
  intro Hne. rewrite (si_t4_cur_locks t im Hne). cbv zeta.
  assert (L : forall la : lockarr,
     length (if 0 <? isize im
             then upd 0 (fun lk => {| cnt := Z.of_N (isize im); mig := mig lk |}) la else la) = length la).
  { intro la. destruct (0 <? isize im); [apply st_upd_length|reflexivity]. }
  rewrite L, map_length, maybe_resize_locks_length_eq. reflexivity.
Qed.

Lemma si_t4_all_migrated t im : locks t <> [] -> all_migrated t -> all_migrated (si_t4 t im).
Proof.
  intros Hne Hm. unfold all_migrated. rewrite (si_t4_cur_locks t im Hne). cbv zeta.
  set (t1 := set_cur t {| bhp := ihp im; bsl := isl im; bdead := false |}).
  assert (H2 : all_migrated (maybe_resize_locks c t1 (bucket_count t1))).
  { apply maybe_resize_locks_all_migrated. exact Hm. }
  set (la := cur_locks (maybe_resize_locks c t1 (bucket_count t1))) in *.
  assert (Hmap : forall x, In x (map (fun lk => {| cnt := 0%Z; mig := mig lk |}) la) -> mig x = true).
  { intros x Hin.
    destruct (In_map_mig (fun lk => {| cnt := 0%Z; mig := mig lk |}) la (fun y => eq_refl) x Hin) as [y [Hy E]].
    rewrite E. apply H2. exact Hy. }
  destruct (0 <? isize im); [|exact Hmap].
  intros x Hin.
  destruct (In_upd_mig (fun lk => {| cnt := Z.of_N (isize im); mig := mig lk |}) _ (fun y => eq_refl) _ x Hin)
    as [y [Hy E]].
  rewrite E. apply Hmap. exact Hy.
Qed.

End StreamIn.

(* ================================================================== D. the round trip *)

Section RoundTrip.
Variable c : config.
Variable hash : N -> N.
Hypothesis Hc : cfg_ok c.

Notation settled := (settled c hash).

(* operator<< is a pure read of the source: the image is a function of the source table alone *)
Lemma stream_out_fields ts :
  ihp (stream_out ts) = bhp (cur ts) /\ isl (stream_out ts) = bsl (cur ts) /\
  isize (stream_out ts) = tsize ts /\ imlfn (stream_out ts) = mlfn ts /\
  imlfd (stream_out ts) = mlfd ts /\ imhp (stream_out ts) = mhp ts.
Proof. repeat split. Qed.

(* the image is accepted by the validated maximum_hashpower setter *)
Lemma stream_out_accepted ts :
  bhp (cur ts) < 62 ->
  hashpower ts <= mhp ts \/ mhp ts = NO_MAXIMUM_HASHPOWER ->
  ihp (stream_out ts) <= imhp (stream_out ts).
Proof.
  intros Hhp [H|H]; cbn [ihp imhp stream_out]; [exact H|].
  rewrite H. unfold hashpower, NO_MAXIMUM_HASHPOWER. lia.
Qed.

Lemma tsize_lt64 t : (0 <= Z.of_N (tsize t) < 2 ^ 64)%Z.
Proof.
  unfold tsize. destruct (locks t); [cbn; lia|].
  change 18446744073709551616%Z with (2 ^ 64)%Z.
  assert (H := Z.mod_pos_bound (sum_cnt (cur_locks t)) (2 ^ 64) ltac:(lia)).
  rewrite Z2N.id by lia. exact H.
Qed.

Theorem stream_roundtrip ts td :
  settled ts -> counted c ts ->
  hashpower ts <= mhp ts \/ mhp ts = NO_MAXIMUM_HASHPOWER ->
  (0 <= sum_cnt (cur_locks ts) < 2 ^ 64)%Z ->
  locks td <> [] -> cur_locks td <> [] -> all_migrated td ->
  let im := stream_out ts in
  let td' := fst (stream_in c td im) in
  snd (stream_in c td im) = [RNone] /\
  cur td' = {| bhp := bhp (cur ts); bsl := bsl (cur ts); bdead := false |} /\
  (forall b s, bget (cur td') b s = bget (cur ts) b s) /\
  (forall k v, holds (cur td') k v <-> holds (cur ts) k v) /\
  hashpower td' = hashpower ts /\
  mlfn td' = mlfn ts /\ mlfd td' = mlfd ts /\ mhp td' = mhp ts /\
  tsize td' = tsize ts /\
  settled td' /\ counted c td' /\
  rc td' = wrap64 (rc td + 1) /\
  old td' = old td /\ nrem td' = nrem td /\ workers td' = workers td /\
  length (cur_locks td') =
    Nat.max (length (cur_locks td)) (N.to_nat (N.min (kmax c) (2 ^ bhp (cur ts)))) /\
  ((length (cur_locks td) <= N.to_nat (kmax c))%nat -> (length (cur_locks td') <= N.to_nat (kmax c))%nat).
Proof.
  intros St Hcnt Hmhp Hrange Hne Hcl Hmig im td'.
  assert (Ha := se_arr _ _ _ St).
  assert (Hhp : bhp (cur ts) < 62) by apply (ao_hp _ _ _ Ha).
  assert (Hacc : ihp im <= imhp im) by (apply stream_out_accepted; assumption).
  assert (E := stream_in_accept c td im Hacc).
  subst td'. rewrite E. cbn [fst snd].
  set (t4 := si_t4 c td im) in *.
  set (td' := set_rc (set_mhp (set_mlf t4 (imlfn im) (imlfd im)) (imhp im)) (wrap64 (rc td + 1))).
  assert (Hcur : cur td' = {| bhp := bhp (cur ts); bsl := bsl (cur ts); bdead := false |}).
  { change (cur td') with (cur t4). unfold t4. rewrite si_t4_cur. reflexivity. }
  assert (Hbsl : bsl (cur td') = bsl (cur ts)) by (rewrite Hcur; reflexivity).
  assert (Hbhp : bhp (cur td') = bhp (cur ts)) by (rewrite Hcur; reflexivity).
  assert (Hlk : locks td' <> []).
  { change (locks td') with (locks t4). apply si_t4_locks_nonnil. exact Hne. }
  assert (Hlen : length (cur_locks td') =
                 Nat.max (length (cur_locks td)) (N.to_nat (N.min (kmax c) (2 ^ bhp (cur ts))))).
  { change (cur_locks td') with (cur_locks t4). unfold t4. rewrite si_t4_length by exact Hne.
    change (ihp im) with (bhp (cur ts)). rewrite hashsize_spec by lia. reflexivity. }
  assert (Hsum : sum_cnt (cur_locks td') = Z.of_N (tsize ts)).
  { assert (S := stream_in_sum c td im Hne Hcl). rewrite E in S. cbn [fst] in S. exact S. }
  destruct (si_t4_scalars c td im) as [Q1 [Q2 [Q3 [Q4 [Q5 [Q6 Q7]]]]]]. fold t4 in Q1, Q2, Q3, Q4, Q5, Q6, Q7.
  split; [reflexivity|].
  split; [exact Hcur|].
  split; [apply bget_bsl; exact Hbsl|].
  split; [apply holds_bsl; exact Hbsl|].
  split; [exact Hbhp|].
  split; [reflexivity|]. split; [reflexivity|]. split; [reflexivity|].
  split.
  { apply N2Z.inj. rewrite tsize_mod by exact Hlk. rewrite Hsum.
    apply Z.mod_small. apply tsize_lt64. }
  split.
  { constructor.
    - apply (arr_ok_bsl c hash (cur ts)); assumption.
    - rewrite Hcur. reflexivity.
    - apply (all_migrated_locks t4 td'); [reflexivity|]. apply si_t4_all_migrated; assumption.
    - exact Hlk.
    - intros b Hb. rewrite Hbhp in Hb. rewrite Hlen.
      apply (cover_min c Hc (bhp (cur ts))); [lia|exact Hb]. }
  split.
  { unfold counted. rewrite Hsum.
    rewrite (count_arr_bsl c (cur ts) (cur td') Hbhp Hbsl).
    rewrite (tsize_spec ts (se_locks _ _ _ St) Hrange). exact Hcnt. }
  split; [reflexivity|].
  split; [exact Q1|]. split; [exact Q2|]. split; [exact Q7|].
  split; [exact Hlen|].
  intro Hk. rewrite Hlen. lia.
Qed.

(* the parts that need no invariant of the source: contents, limits and size are copied
   for ANY source and destination (the setter must accept) *)
Theorem stream_roundtrip_raw ts td :
  hashpower ts <= mhp ts ->
  locks td <> [] -> cur_locks td <> [] ->
  let td' := fst (stream_in c td (stream_out ts)) in
  snd (stream_in c td (stream_out ts)) = [RNone] /\
  cur td' = reloaded (cur ts) /\
  mlfn td' = mlfn ts /\ mlfd td' = mlfd ts /\ mhp td' = mhp ts /\
  tsize td' = tsize ts /\ rc td' = wrap64 (rc td + 1).
Proof.
  intros Hmhp Hne Hcl td'.
  assert (E := stream_in_accept c td (stream_out ts) Hmhp).
  assert (S := stream_in_sum c td (stream_out ts) Hne Hcl).
  subst td'. rewrite E in *. cbn [fst snd] in *.
  split; [reflexivity|].
  split; [cbn [cur set_rc set_mhp set_mlf]; rewrite si_t4_cur; reflexivity|].
  split; [reflexivity|]. split; [reflexivity|]. split; [reflexivity|].
  split; [|reflexivity].
  apply N2Z.inj. rewrite tsize_mod.
  - rewrite S. apply Z.mod_small. apply tsize_lt64.
  - cbn [locks set_rc set_mhp set_mlf]. apply si_t4_locks_nonnil. exact Hne.
Qed.

(* a source whose maximum hashpower is below its hashpower cannot be read back: operator>>
   throws invalid_argument AFTER it has replaced the destination's contents *)
Theorem stream_in_rejects ts td :
  mhp ts < hashpower ts ->
  snd (stream_in c td (stream_out ts)) = exn_out EInvalidArgument /\
  cur (fst (stream_in c td (stream_out ts))) = reloaded (cur ts) /\
  rc (fst (stream_in c td (stream_out ts))) = rc td.
Proof.
  intro H. rewrite (stream_in_reject c td (stream_out ts) H). cbn [fst snd].
  split; [reflexivity|]. split.
  - cbn [cur set_mlf]. rewrite si_t4_cur. reflexivity.
  - cbn [rc set_mlf]. apply (si_t4_scalars c td (stream_out ts)).
Qed.

End RoundTrip.
