(* L2 x L1: linearizability (by linearization points) of libcuckoo's single-critical-section
   operations, obtained by COMPOSING
     (A) the lock / snapshot protocol model (Conc.v) and its invariants (ConcInv.v), and
     (B) the sequential table model (Core.v, Api.v) and its refinement lemmas
         (ArrLemmas.v, InsertLemmas.v, Refine.v).

   The combined transition system runs the protocol of Conc.v next to ONE shared [table].  The data
   effect of an operation is a single atomic step ([C_lin]) taken while the thread is in a validated
   critical section [CS sn sa (x :: r)]; the step evaluates the CONCRETE code path of Core/Api with
   the candidate buckets computed from the thread's own size snapshot [sh sn].  A resize
   ([C_resize]) is the protocol's [ST_HP] step, taken under all locks, together with the replacement
   of the table by a rearranged one with the same contents.

   The composition: [validated_current] (ConcInv) says the snapshot of a validated thread is the
   current size; the LINK invariant says the protocol's size is the table's hashpower; hence the
   snapshot code path IS the sequential code path ([lookup_snap_current], [uprase_snap_current]), and
   the refinement lemmas of (B) say what that does to the abstract contents [holds (cur tbl)].

   Main results: [cinv_reachable] (the invariant), [lin_step_spec] (composition lemma),
   [linearizable_by_points], [completed_op_linearized], [lookup_none_absent],
   [resize_excludes_critical_sections], [lin_snapshot_current], and concrete two-thread runs
   ([example_run], [example_resize_run]; [stale_snapshot_misses] shows the snapshot matters). *)
From Coq Require Import NArith ZArith List Bool Arith Lia.
From LC Require Import gen.HashGen Bits Core Api InvDefs ArrLemmas InsertLemmas Refine Conc ConcInv.
Import ListNotations.

(* ================================================================== A. abstract map specification *)

(* the abstract contents of the map: a key/value relation (functional for well-formed tables) *)
Definition contents := N -> Z -> Prop.

Definition ceq (a b : contents) : Prop := forall k v, a k v <-> b k v.

(* [a'] is [a] with key k bound to o (None: no binding); on [holds] this is Refine.upd_holds *)
Definition cupd (a a' : contents) (k : N) (o : option Z) : Prop :=
  forall k' v', a' k' v' <-> (k' <> k /\ a k' v') \/ (k' = k /\ o = Some v').

Definition cfun (a : contents) : Prop := forall k v v', a k v -> a k v' -> v = v'.

Lemma ceq_refl a : ceq a a.
Proof. intros k v. reflexivity. Qed.
Lemma ceq_sym a b : ceq a b -> ceq b a.
Proof. intros H k v. symmetry. apply H. Qed.
Lemma ceq_trans a b d : ceq a b -> ceq b d -> ceq a d.
Proof. intros H1 H2 k v. rewrite (H1 k v). apply H2. Qed.

(* operations: every single-critical-section operation of cuckoohash_map is one of these two
   (see Api.step_some): find / contains / find_fn / update / update_fn / erase / erase_fn are
   [lookup_fn] with a functor; insert / insert_or_assign / upsert / uprase_fn are [uprase_gen] *)
Inductive dop :=
| DLookup (k : N) (g : Z -> Z * bool)
| DUprase (k : N) (v : Z) (g : Z -> bool -> option (Z * bool)).

(* results: the value the functor saw (lookups); inserted? and the functor log (insert family) *)
Inductive dres :=
| RLookup (o : option Z)
| RUprase (ins : bool) (lg : list rv).

(* the sequential specification, on contents *)
Inductive spec_step (a : contents) : dop -> dres -> contents -> Prop :=
| SS_lookup_hit : forall k (g : Z -> Z * bool) v0 a',
    a k v0 -> cupd a a' k (if snd (g v0) then None else Some (fst (g v0))) ->
    spec_step a (DLookup k g) (RLookup (Some v0)) a'
| SS_lookup_miss : forall k g a',
    (forall v0, ~ a k v0) -> ceq a a' ->
    spec_step a (DLookup k g) (RLookup None) a'
| SS_uprase_hit : forall k v g v0 a',
    a k v0 -> cupd a a' k (final_of g v0 false) ->
    spec_step a (DUprase k v g) (RUprase false (log_of g v0 false)) a'
| SS_uprase_new : forall k v g a',
    (forall v0, ~ a k v0) -> cupd a a' k (final_of g v true) ->
    spec_step a (DUprase k v g) (RUprase true (log_of g v true)) a'.

Lemma cupd_ceq_l a b a' k o : ceq a b -> cupd a a' k o -> cupd b a' k o.
Proof. intros E U k' v'. rewrite (U k' v'), (E k' v'). reflexivity. Qed.

Lemma cupd_ceq_r a a' b' k o : ceq a' b' -> cupd a a' k o -> cupd a b' k o.
Proof. intros E U k' v'. rewrite <- (E k' v'). apply U. Qed.

Lemma spec_step_ceq_l a b op r a' : ceq a b -> spec_step a op r a' -> spec_step b op r a'.
Proof.
  intros E S. destruct S.
  - apply SS_lookup_hit; [apply E; assumption|eapply cupd_ceq_l; eassumption].
  - apply SS_lookup_miss; [intros v0 H1; apply (H v0), E, H1|].
    eapply ceq_trans; [apply ceq_sym; exact E|assumption].
  - apply SS_uprase_hit; [apply E; assumption|eapply cupd_ceq_l; eassumption].
  - apply SS_uprase_new; [intros v0 H1; apply (H v0), E, H1|eapply cupd_ceq_l; eassumption].
Qed.

Lemma spec_step_ceq_r a op r a' b' : ceq a' b' -> spec_step a op r a' -> spec_step a op r b'.
Proof.
  intros E S. destruct S.
  - eapply SS_lookup_hit; [eassumption|eapply cupd_ceq_r; eassumption].
  - apply SS_lookup_miss; [assumption|eapply ceq_trans; eassumption].
  - eapply SS_uprase_hit; [eassumption|eapply cupd_ceq_r; eassumption].
  - apply SS_uprase_new; [assumption|eapply cupd_ceq_r; eassumption].
Qed.

Lemma cupd_det a a' a'' k o : cupd a a' k o -> cupd a a'' k o -> ceq a' a''.
Proof. intros U1 U2 k' v'. rewrite (U1 k' v'), (U2 k' v'). reflexivity. Qed.

(* the specification is a (partial) FUNCTION of the contents: result and new contents are determined *)
Lemma spec_step_det a op r1 a1 r2 a2 :
  cfun a -> spec_step a op r1 a1 -> spec_step a op r2 a2 -> r1 = r2 /\ ceq a1 a2.
Proof.
  intros F S1 S2. destruct S1; inversion S2; subst;
    try solve [exfalso; match goal with Hn : forall v0, ~ a ?k v0, Hp : a ?k _ |- _ => exact (Hn _ Hp) end].
  - match goal with H1 : a k ?x, H2 : a k ?y |- _ => assert (x = y) by (eapply F; eassumption); subst end.
    split; [reflexivity|eapply cupd_det; eassumption].
  - split; [reflexivity|]. eapply ceq_trans; [apply ceq_sym|]; eassumption.
  - match goal with H1 : a k ?x, H2 : a k ?y |- _ => assert (x = y) by (eapply F; eassumption); subst end.
    split; [reflexivity|eapply cupd_det; eassumption].
  - split; [reflexivity|eapply cupd_det; eassumption].
Qed.

Lemma cupd_fun a a' k o : cfun a -> cupd a a' k o -> cfun a'.
Proof.
  intros F U k' v v' H1 H2. apply U in H1. apply U in H2.
  destruct H1 as [[N1 H1]|[E1 H1]], H2 as [[N2 H2]|[E2 H2]]; try contradiction.
  - eapply F; eassumption.
  - congruence.
Qed.

Lemma spec_step_fun a op r a' : cfun a -> spec_step a op r a' -> cfun a'.
Proof.
  intros F S. destruct S; try (eapply cupd_fun; eassumption).
  intros k' v v' H1 H2. apply H0 in H1. apply H0 in H2. eapply F; eassumption.
Qed.

(* a legal sequential execution of the specification (contents up to extensional equality) *)
Inductive legal : contents -> list (dop * dres) -> contents -> Prop :=
| legal_nil : forall a b, ceq a b -> legal a [] b
| legal_cons : forall a op r a1 l b, spec_step a op r a1 -> legal a1 l b -> legal a ((op, r) :: l) b.

Lemma legal_ceq_r a l b b' : ceq b b' -> legal a l b -> legal a l b'.
Proof.
  intros E L. induction L.
  - apply legal_nil. eapply ceq_trans; eassumption.
  - eapply legal_cons; [eassumption|]. apply IHL. exact E.
Qed.

Lemma legal_snoc a l b op r b' : legal a l b -> spec_step b op r b' -> legal a (l ++ [(op, r)]) b'.
Proof.
  intros L S. induction L.
  - simpl. eapply legal_cons; [|apply legal_nil, ceq_refl].
    eapply spec_step_ceq_l; [apply ceq_sym; eassumption|exact S].
  - simpl. eapply legal_cons; [eassumption|]. apply IHL. exact S.
Qed.

(* splitting a legal execution at any point: the contents "at that point" *)
Lemma legal_app_inv a l1 l2 b : legal a (l1 ++ l2) b -> exists m, legal a l1 m /\ legal m l2 b.
Proof.
  revert a. induction l1 as [|[op r] l1 IH]; intros a L.
  - exists a. split; [apply legal_nil, ceq_refl|exact L].
  - simpl in L. inversion L; subst. destruct (IH _ H5) as [m [L1 L2]].
    exists m. split; [eapply legal_cons; eassumption|exact L2].
Qed.

Lemma legal_fun a l b : cfun a -> legal a l b -> cfun b.
Proof.
  intros F L. induction L.
  - intros k v v' H1 H2. apply H in H1. apply H in H2. eapply F; eassumption.
  - apply IHL. eapply spec_step_fun; eassumption.
Qed.

(* ================================================================== B. data steps with a snapshot *)
Section Data.
Variable c : config.
Variable hash : N -> N.
Hypothesis Hc : cfg_ok c.

Notation good := (good c hash).
Notation settled := (settled c hash).

(* Api.lookup_fn c hash false, with the candidate buckets computed from the snapshot [hp] *)
Definition lookup_snap (hp : N) (t : table) (k : N) (g : Z -> Z * bool) : table * option Z :=
  let h := hash k in
  let i1 := index_hash hp h in
  let i2 := alt_index hp (partial_key h) i1 in
  let t1 := lock_two c hash false t i1 i2 in
  let pos := cuckoo_find c t1 k (hashed_partial hash k) i1 i2 in
  match pstatus pos with
  | St_ok =>
    let v := val_at t1 (pindex pos) (pslot pos) in
    let '(v', er) := g v in
    let t2 := set_val t1 (pindex pos) (pslot pos) v' in
    let t3 := if er then del_from_bucket c t2 (pindex pos) (pslot pos) else t2 in
    (t3, Some v)
  | _ => (t1, None)
  end.

(* Api.uprase_gen c hash false, with the snapshot's buckets, for the case where the first
   cuckoo_insert yields a position (ok / duplicated).  An insertion that needs an expansion does
   not take effect in this critical section: the code releases its locks, resizes under all locks
   and retries, so the step is not enabled (None). *)
Definition uprase_snap (hp : N) (t : table) (k : N) (v : Z) (g : Z -> bool -> option (Z * bool))
  : option (table * (bool * list rv)) :=
  let h := hash k in
  let i1 := index_hash hp h in
  let i2 := alt_index hp (partial_key h) i1 in
  let t0 := lock_two c hash false t i1 i2 in
  match cuckoo_insert c hash false t0 k i1 i2 with
  | (t1, CI_pos pos) =>
    let fin (inserted : bool) :=
      let t3 := if inserted
                then add_to_bucket c t1 (pindex pos) (pslot pos) (hashed_partial hash k) k v else t1 in
      let cur_v := val_at t3 (pindex pos) (pslot pos) in
      match g cur_v inserted with
      | None => (t3, (inserted, []))
      | Some (v', er) =>
        let t4 := set_val t3 (pindex pos) (pslot pos) v' in
        let t5 := if er then del_from_bucket c t4 (pindex pos) (pslot pos) else t4 in
        (t5, (inserted, [RFn cur_v inserted]))
      end in
    match pstatus pos with
    | St_ok => Some (fin true)
    | St_duplicated => Some (fin false)
    | _ => None
    end
  | (_, CI_fuel) => None
  end.

(* with a CURRENT snapshot these are the sequential operations of Api.v *)
Lemma lookup_snap_current t k g : lookup_snap (hashpower t) t k g = lookup_fn c hash false t k g.
Proof. reflexivity. Qed.

Lemma uprase_snap_current t k v g t' ins lg :
  uprase_snap (hashpower t) t k v g = Some (t', (ins, lg)) ->
  exists p, uprase_gen c hash false t k v g = (t', inr (ins, lg, p)).
Proof.
  unfold uprase_snap, uprase_gen, snapshot_and_lock_two. cbv zeta.
  change insert_loop_fuel with (S 69).
  destruct (cuckoo_insert c hash false _ k _ _) as [t1 [pos|]] eqn:E; [|discriminate].
  destruct (pstatus pos) eqn:Hs; try discriminate.
  - rewrite (cuckoo_insert_loop_done c hash (cuckoo_fast_double c hash) false _ k _ _ 69 t1 pos E
               (or_introl Hs)).
    rewrite Hs.
    destruct (g _ true) as [[v' er]|]; intro H; injection H as <- <- <-; eexists; reflexivity.
  - rewrite (cuckoo_insert_loop_done c hash (cuckoo_fast_double c hash) false _ k _ _ 69 t1 pos E
               (or_intror Hs)).
    rewrite Hs.
    destruct (g _ false) as [[v' er]|]; intro H; injection H as <- <- <-; eexists; reflexivity.
Qed.

(* the data part of a linearization step *)
Definition lin_data (hp : N) (t : table) (op : dop) : option (table * dres) :=
  match op with
  | DLookup k g => let '(t', r) := lookup_snap hp t k g in Some (t', RLookup r)
  | DUprase k v g =>
    match uprase_snap hp t k v g with
    | Some (t', (i, lg)) => Some (t', RUprase i lg)
    | None => None
    end
  end.

(* ------------------------------------------------------------------ the composition, data side:
   with a current snapshot the data step is a step of the sequential specification on the abstract
   contents [holds (cur t)], it keeps the table [good] and does not change the hashpower *)
Lemma lookup_lin t k g t' r :
  good t -> lookup_snap (bhp (cur t)) t k g = (t', r) ->
  good t' /\ bhp (cur t') = bhp (cur t) /\
  spec_step (holds (cur t)) (DLookup k g) (RLookup r) (holds (cur t')).
Proof.
  intros G E. change (bhp (cur t)) with (hashpower t) in E at 1. rewrite lookup_snap_current in E.
  destruct (lookup_fn_good c hash false t k g G t' r E)
    as [G' [_ [Hhp [[Hk [-> ->]]|[v0 [Hv [-> U]]]]]]].
  - split; [exact G|]. split; [reflexivity|]. apply SS_lookup_miss; [|apply ceq_refl].
    intros v0 H. apply Hk. apply key_in_holds. exists v0. exact H.
  - split; [exact G'|]. split; [exact Hhp|]. eapply SS_lookup_hit; [exact Hv|exact U].
Qed.

Lemma uprase_lin t k v g t' ins lg :
  good t -> uprase_snap (bhp (cur t)) t k v g = Some (t', (ins, lg)) ->
  good t' /\ bhp (cur t') = bhp (cur t) /\
  spec_step (holds (cur t)) (DUprase k v g) (RUprase ins lg) (holds (cur t')).
Proof.
  intros G E. assert (St : settled t) by apply G.
  unfold uprase_snap in E. cbv zeta in E.
  rewrite (lock_two_settled c hash false t _ _ (se_mig _ _ _ St)) in E.
  destruct (cuckoo_insert_spec c hash Hc false t k St) as [t1 [res [E1 [Hsc [Hin Hout]]]]].
  cbv zeta in E1, Hin, Hout. unfold i2_of, i1_of in E1, Hout. rewrite E1 in E.
  destruct (good_same_contents c hash t t1 G Hsc) as [Ev Hhp1].
  assert (G1 := evolves_good c hash _ _ Ev). destruct Ev as [_ [Hh _]].
  destruct (key_in_dec c hash t k (se_arr _ _ _ St)) as [Hk|Hk].
  - (* the key is there: duplicated *)
    destruct (Hin Hk) as [pos [-> [Hs [e [He Hek]]]]]. rewrite Hs in E.
    destruct (finish_good c hash t1 (pindex pos) (pslot pos) e false g G1 He)
      as [t5 [Ef [G5 [_ [Hhp5 [Hu _]]]]]].
    unfold finish in Ef. cbv zeta in Ef.
    destruct (g (val_at t1 (pindex pos) (pslot pos)) false) as [[v' er]|];
      injection E as <- <- <-; injection Ef as Et Elog; rewrite Et, Elog;
      (split; [exact G5|]); (split; [congruence|]);
      (eapply SS_uprase_hit;
       [apply Hh; exists (pindex pos), (pslot pos), e; repeat split; assumption
       |rewrite Hek in Hu; eapply cupd_ceq_l; [exact Hh|exact Hu]]).
  - (* the key is absent: a free slot in one of the two buckets (possibly after displacement) *)
    destruct (Hout Hk) as [->|[pos [-> Hcase]]]; [discriminate|].
    destruct Hcase as [[Hs [Hg [Hidx Hslot]]]|Hs]; rewrite Hs in E; [|discriminate].
    assert (Hcand : cand hash (bhp (cur t1)) k (pindex pos)) by (rewrite Hhp1; exact Hidx).
    assert (Hk1 : ~ key_in (cur t1) k).
    { intro H. apply Hk. apply key_in_holds in H. destruct H as [v0 H]. apply key_in_holds.
      exists v0. apply Hh. exact H. }
    destruct (good_add c hash t1 (pindex pos) (pslot pos) k v G1 Hg Hcand Hslot Hk1)
      as [G3 [_ [Hhp3 [He3 Hh3]]]]. cbv zeta in G3, Hhp3, He3, Hh3.
    unfold hashed_partial in E.
    set (t3 := add_to_bucket c t1 (pindex pos) (pslot pos) (partial_key (hash k)) k v) in *.
    destruct (finish_good c hash t3 (pindex pos) (pslot pos) _ true g G3 He3)
      as [t5 [Ef [G5 [_ [Hhp5 [Hu _]]]]]]. cbn [ekey eval] in Ef, Hu.
    unfold finish in Ef. cbv zeta in Ef.
    assert (Hspec : cupd (holds (cur t)) (holds (cur t5)) k (final_of g v true)).
    { intros k' v'. rewrite (Hu k' v'), (Hh3 k' v'), (Hh k' v'). split.
      - intros [[Hne [[E2 _]|[_ H]]]|H]; [contradiction|left; split; assumption|right; exact H].
      - intros [[Hne H]|H]; [left; split; [exact Hne|right; split; assumption]|right; exact H]. }
    assert (Hno : forall v0, ~ holds (cur t) k v0).
    { intros v0 H. apply Hk. apply key_in_holds. exists v0. exact H. }
    destruct (g (val_at t3 (pindex pos) (pslot pos)) true) as [[v' er]|];
      injection E as <- <- <-; injection Ef as Et Elog; rewrite Et, Elog;
      (split; [exact G5|]); (split; [congruence|]);
      (apply SS_uprase_new; [exact Hno|exact Hspec]).
Qed.

Lemma lin_data_spec t op t' r :
  good t -> lin_data (bhp (cur t)) t op = Some (t', r) ->
  good t' /\ bhp (cur t') = bhp (cur t) /\ spec_step (holds (cur t)) op r (holds (cur t')).
Proof.
  intros G E. destruct op as [k g|k v g]; simpl in E.
  - destruct (lookup_snap (bhp (cur t)) t k g) as [t1 r1] eqn:El. injection E as <- <-.
    apply lookup_lin; assumption.
  - destruct (uprase_snap (bhp (cur t)) t k v g) as [[t1 [i lg]]|] eqn:Eu; [|discriminate].
    injection E as <- <-. apply uprase_lin; assumption.
Qed.

(* the sequential reading of the same fact: the data step IS the Api.v operation *)
Lemma lin_data_sequential t op t' r :
  lin_data (hashpower t) t op = Some (t', r) ->
  match op, r with
  | DLookup k g, RLookup o => lookup_fn c hash false t k g = (t', o)
  | DUprase k v g, RUprase i lg => exists p, uprase_gen c hash false t k v g = (t', inr (i, lg, p))
  | _, _ => False
  end.
Proof.
  destruct op as [k g|k v g]; simpl.
  - rewrite lookup_snap_current. destruct (lookup_fn c hash false t k g) as [t1 r1].
    intro H. injection H as <- <-. reflexivity.
  - destruct (uprase_snap (hashpower t) t k v g) as [[t1 [i lg]]|] eqn:Eu; [|discriminate].
    intro H. injection H as <- <-. eapply uprase_snap_current. exact Eu.
Qed.

End Data.

(* ================================================================== C. histories *)
Inductive hev :=
| HInv (t : tid) (op : dop)
| HLin (t : tid) (op : dop) (r : dres)
| HRes (t : tid) (op : dop) (r : dres).

Definition ev_tid (e : hev) : tid :=
  match e with HInv t _ | HLin t _ _ | HRes t _ _ => t end.

(* the linearization points of a history, in order *)
Fixpoint lins (h : list hev) : list (dop * dres) :=
  match h with
  | [] => []
  | HLin _ op r :: h' => (op, r) :: lins h'
  | _ :: h' => lins h'
  end.

Lemma lins_app h1 h2 : lins (h1 ++ h2) = lins h1 ++ lins h2.
Proof.
  induction h1 as [|e h1 IH]; [reflexivity|]. destruct e; simpl; rewrite IH; reflexivity.
Qed.

(* no event of thread t *)
Definition quiet (t : tid) (h : list hev) : Prop := forall e, In e h -> ev_tid e <> t.

(* where thread t stands after a history: idle, invoked, or linearized-but-not-returned *)
Inductive phase := PIdle | PInv (op : dop) | PLin (op : dop) (r : dres).

Inductive pstep (t : tid) : phase -> hev -> phase -> Prop :=
| ps_other : forall p e, ev_tid e <> t -> pstep t p e p
| ps_inv : forall op, pstep t PIdle (HInv t op) (PInv op)
| ps_lin : forall op r, pstep t (PInv op) (HLin t op r) (PLin op r)
| ps_res : forall op r, pstep t (PLin op r) (HRes t op r) PIdle.

(* per-thread well-formedness of a history (events are appended at the end) *)
Inductive tphase (t : tid) : list hev -> phase -> Prop :=
| tp_nil : tphase t [] PIdle
| tp_snoc : forall h p e p', tphase t h p -> pstep t p e p' -> tphase t (h ++ [e]) p'.

Lemma tphase_snoc_inv t h e p' : tphase t (h ++ [e]) p' -> exists p, tphase t h p /\ pstep t p e p'.
Proof.
  intro H. inversion H as [E|h0 p e0 p0 T S E].
  - destruct h; discriminate.
  - apply app_inj_tail in E. destruct E as [-> ->]. exists p. split; assumption.
Qed.

Lemma tphase_prefix t h1 : forall h2 p, tphase t (h1 ++ h2) p -> exists p1, tphase t h1 p1.
Proof.
  intro h2. induction h2 as [|e h2 IH] using rev_ind; intros p H.
  - rewrite app_nil_r in H. exists p. exact H.
  - rewrite app_assoc in H. apply tphase_snoc_inv in H. destruct H as [p0 [H _]]. eapply IH. exact H.
Qed.

Lemma quiet_nil t : quiet t [].
Proof. intros e []. Qed.

Lemma quiet_snoc t h e : quiet t h -> ev_tid e <> t -> quiet t (h ++ [e]).
Proof.
  intros Q N e' H. apply in_app_or in H. destruct H as [H|[<-|[]]]; [apply Q; exact H|exact N].
Qed.

(* the shape of a well-formed history, read off the phase *)
Lemma tphase_shape t h p : tphase t h p ->
  match p with
  | PIdle => True
  | PInv op => exists ha hb, h = ha ++ HInv t op :: hb /\ quiet t hb /\ tphase t ha PIdle
  | PLin op r => exists ha hb hc, h = ha ++ HInv t op :: hb ++ HLin t op r :: hc /\
                   quiet t hb /\ quiet t hc /\ tphase t ha PIdle
  end.
Proof.
  induction 1 as [|h p e p' T IH S]; [exact I|]. destruct S.
  - destruct p; [exact I| |].
    + destruct IH as [ha [hb [-> [Q T0]]]]. exists ha, (hb ++ [e]).
      split; [rewrite <- app_assoc; reflexivity|]. split; [apply quiet_snoc; assumption|exact T0].
    + destruct IH as [ha [hb [hc [-> [Q1 [Q2 T0]]]]]]. exists ha, hb, (hc ++ [e]).
      split; [rewrite <- !app_assoc; simpl; rewrite <- !app_assoc; reflexivity|].
      split; [exact Q1|]. split; [apply quiet_snoc; assumption|exact T0].
  - exists h, []. split; [reflexivity|]. split; [apply quiet_nil|exact T].
  - destruct IH as [ha [hb [-> [Q T0]]]]. exists ha, hb, [].
    split; [rewrite <- app_assoc; reflexivity|]. split; [exact Q|]. split; [apply quiet_nil|exact T0].
  - exact I.
Qed.

(* ================================================================== D. the combined system *)
Definition updf {A} (f : tid -> A) (t : tid) (x : A) : tid -> A :=
  fun t' => if Nat.eqb t t' then x else f t'.

Lemma updf_same {A} (f : tid -> A) t x : updf f t x t = x.
Proof. unfold updf. rewrite Nat.eqb_refl. reflexivity. Qed.

Lemma updf_other {A} (f : tid -> A) t x u : u <> t -> updf f t x u = f u.
Proof.
  intro N. unfold updf. destruct (Nat.eqb t u) eqn:E; [|reflexivity].
  apply Nat.eqb_eq in E. congruence.
Qed.

Record cstate := {
  pr : gstate;                       (* the protocol state of Conc.v *)
  tbl : table;                       (* the shared table of Core.v *)
  cur_op : tid -> option dop;        (* the operation in flight *)
  res_of : tid -> option dres;       (* its result, once its linearization step has happened *)
  hist : list hev                    (* ghost: invocations, linearization points, responses *)
}.

(* protocol labels tied to data or to operation boundaries: not free protocol steps *)
Definition tied (lb : label) : bool :=
  match lb with ST_HP _ | BEGIN _ | NEXT 0 => true | _ => false end.

Definition phase_of (o : option dop) (r : option dres) : phase :=
  match o, r with
  | None, _ => PIdle
  | Some op, None => PInv op
  | Some op, Some r => PLin op r
  end.

Section System.
Variable c : config.
Variable hash : N -> N.
Hypothesis Hc : cfg_ok c.

Notation good := (good c hash).

Inductive cstep (s : cstate) : cstate -> Prop :=
(* a thread between operations starts a stripe operation *)
| C_invoke : forall t op p',
    cur_op s t = None -> gstep (pr s) t (BEGIN 1) = Some p' ->
    cstep s {| pr := p'; tbl := tbl s; cur_op := updf (cur_op s) t (Some op);
               res_of := updf (res_of s) t None; hist := hist s ++ [HInv t op] |}
(* any protocol step that is not tied to data: snapshot loads, lock requests / acquisitions /
   releases, retries, the lock-all sequence, generation bump, new lock array, ... *)
| C_proto : forall t lb p',
    tied lb = false -> gstep (pr s) t lb = Some p' ->
    cstep s {| pr := p'; tbl := tbl s; cur_op := cur_op s; res_of := res_of s; hist := hist s |}
(* the linearization point: inside a validated critical section, the concrete code path evaluated
   with the thread's own size snapshot *)
| C_lin : forall t sn sa x r op tbl' rs,
    thr (pr s) t = CS sn sa (x :: r) -> cur_op s t = Some op -> res_of s t = None ->
    lin_data c hash (sh sn) (tbl s) op = Some (tbl', rs) ->
    cstep s {| pr := pr s; tbl := tbl'; cur_op := cur_op s;
               res_of := updf (res_of s) t (Some rs); hist := hist s ++ [HLin t op rs] |}
(* response: the thread has released everything and becomes idle *)
| C_ret : forall t op rs p',
    cur_op s t = Some op -> res_of s t = Some rs -> gstep (pr s) t (NEXT 0) = Some p' ->
    cstep s {| pr := p'; tbl := tbl s; cur_op := updf (cur_op s) t None;
               res_of := updf (res_of s) t None; hist := hist s ++ [HRes t op rs] |}
(* a resize: the size store under all locks, together with a rearranged table of that size with
   the same contents (what Resize.v / Refine.v prove of the resize paths with immediate migration) *)
| C_resize : forall t first d v tbl' p',
    thr (pr s) t = AH first d -> gstep (pr s) t (ST_HP v) = Some p' ->
    good tbl' -> bhp (cur tbl') = v -> ceq (holds (cur tbl')) (holds (cur (tbl s))) ->
    cstep s {| pr := p'; tbl := tbl'; cur_op := cur_op s; res_of := res_of s; hist := hist s |}
(* a thread with no map operation in flight starts / finishes a whole-table operation
   (rehash, reserve): no event, the abstract map is not changed by it *)
| C_whole_begin : forall t p',
    cur_op s t = None -> gstep (pr s) t (BEGIN 3) = Some p' ->
    cstep s {| pr := p'; tbl := tbl s; cur_op := cur_op s; res_of := res_of s; hist := hist s |}
| C_whole_end : forall t p',
    cur_op s t = None -> gstep (pr s) t (NEXT 0) = Some p' ->
    cstep s {| pr := p'; tbl := tbl s; cur_op := cur_op s; res_of := res_of s; hist := hist s |}.

Variables (hp0 rc0 : N) (arrs0 : list nat) (t0 : table).
Hypothesis OK : arrs_ok arrs0.
Hypothesis G0 : good t0.
Hypothesis HP0 : bhp (cur t0) = hp0.

Definition cinit : cstate :=
  {| pr := ginit hp0 rc0 arrs0; tbl := t0; cur_op := fun _ => None; res_of := fun _ => None;
     hist := [] |}.

Inductive creach : cstate -> Prop :=
| cr_init : creach cinit
| cr_step : forall s s', creach s -> cstep s s' -> creach s'.

(* ------------------------------------------------------------------ protocol facts *)
Lemma gstep_hp_other s t lb s' :
  gstep s t lb = Some s' -> (forall v, lb <> ST_HP v) -> g_hp (sh_ s') = g_hp (sh_ s).
Proof.
  intros H N. apply gstep_inv in H. destruct H as (g' & ts' & HS & ->). simpl.
  destruct HS; try reflexivity. exfalso. eapply N. reflexivity.
Qed.

Lemma gstep_hp_store s t v s' : gstep s t (ST_HP v) = Some s' -> g_hp (sh_ s') = v.
Proof.
  intro H. apply gstep_inv in H. destruct H as (g' & ts' & HS & ->). simpl.
  inversion HS; subst; try reflexivity;
    match goal with
    | H : lstep _ _ _ _ |- _ => inversion H
    | H : astep _ _ _ _ _ _ |- _ => inversion H
    end.
Qed.

Lemma tied_not_store lb : tied lb = false -> forall v, lb <> ST_HP v.
Proof. intros H v ->. discriminate. Qed.

(* ------------------------------------------------------------------ the invariant *)
Record CInv (s : cstate) : Prop := {
  (* (i) the protocol component is a reachable state of Conc.v *)
  ci_reach : reachable hp0 rc0 arrs0 (pr s);
  (* (ii) LINK: the protocol's size variable is the hashpower of the table *)
  ci_link : g_hp (sh_ (pr s)) = bhp (cur (tbl s));
  (* (iii) the table is a well-formed, fully migrated cuckoo table with exact size counters *)
  ci_good : good (tbl s);
  (* (iv) bookkeeping *)
  ci_book : forall t, cur_op s t = None -> res_of s t = None;
  (* the linearization points so far are a legal sequential execution ending in the contents *)
  ci_legal : legal (holds (cur t0)) (lins (hist s)) (holds (cur (tbl s)));
  (* every thread's events alternate invoke / linearize / respond, in step with its state *)
  ci_hist : forall t, tphase t (hist s) (phase_of (cur_op s t) (res_of s t))
}.

Lemma CInv_Inv s : CInv s -> Inv (pr s).
Proof. intro H. eapply reachable_Inv; [exact OK|apply H]. Qed.

Lemma cinv_init : CInv cinit.
Proof.
  split; simpl.
  - apply reach_init.
  - symmetry. exact HP0.
  - exact G0.
  - reflexivity.
  - apply legal_nil, ceq_refl.
  - intro t. apply tp_nil.
Qed.

(* THE COMPOSITION LEMMA.  At a linearization step the thread's snapshot is the current size
   ([validated_current] + LINK), so the concrete step is a step of the sequential specification
   on the abstract contents, and it IS the sequential operation of Api.v on the shared table. *)
Lemma lin_step_spec s t sn sa x r op tbl' rs :
  CInv s -> thr (pr s) t = CS sn sa (x :: r) ->
  lin_data c hash (sh sn) (tbl s) op = Some (tbl', rs) ->
  sh sn = hashpower (tbl s) /\
  good tbl' /\ bhp (cur tbl') = bhp (cur (tbl s)) /\
  spec_step (holds (cur (tbl s))) op rs (holds (cur tbl')) /\
  match op, rs with
  | DLookup k g, RLookup o => lookup_fn c hash false (tbl s) k g = (tbl', o)
  | DUprase k v g, RUprase i lg =>
      exists p, uprase_gen c hash false (tbl s) k v g = (tbl', inr (i, lg, p))
  | _, _ => False
  end.
Proof.
  intros HI Ht E.
  destruct (validated_current hp0 rc0 arrs0 OK (pr s) (ci_reach _ HI) t sn sa x r (or_introl Ht))
    as (_ & Hsh & _).
  assert (Hcur : sh sn = hashpower (tbl s)).
  { unfold hashpower. rewrite Hsh. apply (ci_link _ HI). }
  rewrite Hcur in E. split; [exact Hcur|].
  destruct (lin_data_spec c hash Hc (tbl s) op tbl' rs (ci_good _ HI) E) as [G' [Hhp S]].
  split; [exact G'|]. split; [exact Hhp|]. split; [exact S|].
  apply (lin_data_sequential c hash). exact E.
Qed.

Lemma tphase_other t h p e : tphase t h p -> ev_tid e <> t -> tphase t (h ++ [e]) p.
Proof. intros T N. eapply tp_snoc; [exact T|apply ps_other; exact N]. Qed.

Theorem cinv_step s s' : CInv s -> cstep s s' -> CInv s'.
Proof.
  intros HI ST. destruct HI as [R L G B LG TH]. destruct ST.
  - (* invoke *)
    split; simpl.
    + eapply reach_step; eassumption.
    + rewrite (gstep_hp_other _ _ _ _ H0); [exact L|intros v; discriminate].
    + exact G.
    + intros u. destruct (Nat.eq_dec u t) as [->|N].
      * rewrite !updf_same. reflexivity.
      * rewrite !updf_other by exact N. apply B.
    + rewrite lins_app. simpl. rewrite app_nil_r. exact LG.
    + intros u. destruct (Nat.eq_dec u t) as [->|N].
      * rewrite !updf_same. simpl. eapply tp_snoc; [|apply ps_inv].
        specialize (TH t). rewrite H in TH. exact TH.
      * rewrite !updf_other by exact N. apply tphase_other; [apply TH|simpl; congruence].
  - (* protocol step *)
    split; simpl; try assumption.
    + eapply reach_step; eassumption.
    + rewrite (gstep_hp_other _ _ _ _ H0); [exact L|apply tied_not_store; exact H].
  - (* linearization point *)
    destruct (lin_step_spec s t sn sa x r op tbl' rs
                (Build_CInv s R L G B LG TH) H H2) as [_ [G' [Hhp [S _]]]].
    split; simpl.
    + exact R.
    + rewrite Hhp. exact L.
    + exact G'.
    + intros u Hu. destruct (Nat.eq_dec u t) as [->|N]; [congruence|].
      rewrite updf_other by exact N. apply B. exact Hu.
    + rewrite lins_app. simpl. eapply legal_snoc; eassumption.
    + intros u. destruct (Nat.eq_dec u t) as [->|N].
      * rewrite updf_same, H0. simpl. eapply tp_snoc; [|apply ps_lin].
        specialize (TH t). rewrite H0, H1 in TH. exact TH.
      * rewrite updf_other by exact N. apply tphase_other; [apply TH|simpl; congruence].
  - (* response *)
    split; simpl.
    + eapply reach_step; eassumption.
    + rewrite (gstep_hp_other _ _ _ _ H1); [exact L|intros v; discriminate].
    + exact G.
    + intros u. destruct (Nat.eq_dec u t) as [->|N].
      * rewrite !updf_same. reflexivity.
      * rewrite !updf_other by exact N. apply B.
    + rewrite lins_app. simpl. rewrite app_nil_r. exact LG.
    + intros u. destruct (Nat.eq_dec u t) as [->|N].
      * rewrite !updf_same. simpl. eapply tp_snoc; [|apply ps_res].
        specialize (TH t). rewrite H, H0 in TH. exact TH.
      * rewrite !updf_other by exact N. apply tphase_other; [apply TH|simpl; congruence].
  - (* resize *)
    split; simpl; try assumption.
    + eapply reach_step; eassumption.
    + rewrite (gstep_hp_store _ _ _ _ H0). symmetry. assumption.
    + eapply legal_ceq_r; [apply ceq_sym; eassumption|exact LG].
  - (* whole-table operation begins *)
    split; simpl; try assumption.
    + eapply reach_step; eassumption.
    + rewrite (gstep_hp_other _ _ _ _ H0); [exact L|intros v; discriminate].
  - (* whole-table operation ends *)
    split; simpl; try assumption.
    + eapply reach_step; eassumption.
    + rewrite (gstep_hp_other _ _ _ _ H0); [exact L|intros v; discriminate].
Qed.

Theorem cinv_reachable s : creach s -> CInv s.
Proof. induction 1; [apply cinv_init|eapply cinv_step; eassumption]. Qed.

(* ================================================================== E. the theorems *)

Lemma legal_ceq_l a a' l b : ceq a a' -> legal a l b -> legal a' l b.
Proof.
  intros E L. destruct L.
  - apply legal_nil. eapply ceq_trans; [apply ceq_sym; exact E|assumption].
  - eapply legal_cons; [eapply spec_step_ceq_l; eassumption|exact L].
Qed.

(* a legal execution determines the final contents (the specification is deterministic) *)
Lemma legal_det a l : forall b b', cfun a -> legal a l b -> legal a l b' -> ceq b b'.
Proof.
  revert a. induction l as [|[op r] l IH]; intros a b b' F L1 L2; inversion L1; inversion L2; subst.
  - eapply ceq_trans; [apply ceq_sym|]; eassumption.
  - match goal with S1 : spec_step a op r ?x, S2 : spec_step a op r ?y |- _ =>
      destruct (spec_step_det a op r x r y F S1 S2) as [_ E];
      apply (IH x); [eapply spec_step_fun; eassumption|assumption|];
      eapply legal_ceq_l; [apply ceq_sym; exact E|assumption]
    end.
Qed.

Lemma holds_cfun t : good t -> cfun (holds (cur t)).
Proof.
  intros G k v v' H1 H2. destruct G as [St _].
  eapply (holds_fun c hash); [apply (se_arr _ _ _ St)|eassumption|eassumption].
Qed.

(* LINEARIZABILITY BY LINEARIZATION POINTS.  In every reachable state of the combined system:
   (a) the linearization points of the history, in the order in which they happened, are a legal
       sequential execution of the map specification from the initial contents to the contents
       of the shared table;
   (b) every response [HRes t op r] is preceded by ITS linearization point [HLin t op r] (same
       operation, same result), which is preceded by ITS invocation [HInv t op]; thread t has no
       other event in between, and before the invocation thread t was between operations (so,
       recursively, the same holds for its earlier operations);
   (c) every linearization point is preceded by its invocation, with no event of the thread in
       between: pending operations that have taken effect are accounted for in the same way. *)
Theorem linearizable_by_points s : creach s ->
  legal (holds (cur t0)) (lins (hist s)) (holds (cur (tbl s))) /\
  (forall t op r h1 h2, hist s = h1 ++ HRes t op r :: h2 ->
     exists ha hb hc, h1 = ha ++ HInv t op :: hb ++ HLin t op r :: hc /\
       quiet t hb /\ quiet t hc /\ tphase t ha PIdle) /\
  (forall t op r h1 h2, hist s = h1 ++ HLin t op r :: h2 ->
     exists ha hb, h1 = ha ++ HInv t op :: hb /\ quiet t hb /\ tphase t ha PIdle).
Proof.
  intro R. assert (HI := cinv_reachable s R). split; [apply HI|]. split.
  - intros t op r h1 h2 E. assert (T := ci_hist _ HI t). rewrite E in T.
    change (h1 ++ HRes t op r :: h2) with (h1 ++ [HRes t op r] ++ h2) in T. rewrite app_assoc in T.
    apply tphase_prefix in T. destruct T as [p1 T]. apply tphase_snoc_inv in T.
    destruct T as [p [T S]]. inversion S; subst; [simpl in *; congruence|].
    destruct (tphase_shape _ _ _ T) as [ha [hb [hc [E1 [Q1 [Q2 T0]]]]]].
    exists ha, hb, hc. repeat split; assumption.
  - intros t op r h1 h2 E. assert (T := ci_hist _ HI t). rewrite E in T.
    change (h1 ++ HLin t op r :: h2) with (h1 ++ [HLin t op r] ++ h2) in T. rewrite app_assoc in T.
    apply tphase_prefix in T. destruct T as [p1 T]. apply tphase_snoc_inv in T.
    destruct T as [p [T S]]. inversion S; subst; [simpl in *; congruence|].
    destruct (tphase_shape _ _ _ T) as [ha [hb [E1 [Q1 T0]]]].
    exists ha, hb. repeat split; assumption.
Qed.

(* the same, for one completed operation, with the real-time reading: the operation takes effect
   exactly once, between its invocation and its response, with the result it returns; and every
   operation linearized after the response (in particular every operation invoked after it) is
   ordered after it in the sequential execution *)
Corollary completed_op_linearized s t op r h1 h2 : creach s ->
  hist s = h1 ++ HRes t op r :: h2 ->
  exists ha hb hc,
    hist s = ha ++ HInv t op :: hb ++ HLin t op r :: hc ++ HRes t op r :: h2 /\
    quiet t hb /\ quiet t hc /\
    lins (hist s) = lins (ha ++ hb) ++ (op, r) :: lins hc ++ lins h2.
Proof.
  intros R E. destruct (linearizable_by_points s R) as [_ [Hb _]].
  destruct (Hb t op r h1 h2 E) as [ha [hb [hc [E1 [Q1 [Q2 _]]]]]].
  exists ha, hb, hc. split; [|split; [exact Q1|split; [exact Q2|]]].
  - rewrite E, E1. rewrite <- !app_assoc. simpl. rewrite <- !app_assoc. reflexivity.
  - rewrite E, E1. rewrite !lins_app. simpl. rewrite !lins_app. simpl.
    rewrite <- !app_assoc. reflexivity.
Qed.

(* what a linearization point saw: THE contents at that point of the sequential execution *)
Corollary lin_point_spec s l1 op r l2 : creach s ->
  lins (hist s) = l1 ++ (op, r) :: l2 ->
  forall m, legal (holds (cur t0)) l1 m ->
  exists m', spec_step m op r m' /\ legal m' l2 (holds (cur (tbl s))).
Proof.
  intros R E m Lm. destruct (linearizable_by_points s R) as [L _]. rewrite E in L.
  apply legal_app_inv in L. destruct L as [m0 [L1 L2]]. inversion L2; subst.
  assert (Em : ceq m0 m) by (eapply legal_det; [apply holds_cfun; exact G0|eassumption|eassumption]).
  exists a1. split; [eapply spec_step_ceq_l; eassumption|assumption].
Qed.

(* "a key that is present is never reported absent": a lookup (find / contains / update / erase ...)
   whose linearization point reports [None] happened at a point of the sequential execution where
   the key was absent from the abstract contents *)
Corollary lookup_none_absent s l1 k g l2 : creach s ->
  lins (hist s) = l1 ++ (DLookup k g, RLookup None) :: l2 ->
  forall m, legal (holds (cur t0)) l1 m -> forall v, ~ m k v.
Proof.
  intros R E m Lm. destruct (lin_point_spec s l1 _ _ l2 R E m Lm) as [m' [S _]].
  inversion S; subst. assumption.
Qed.

(* ... and a lookup that reports a value reports THE value bound at that point *)
Corollary lookup_some_present s l1 k g v l2 : creach s ->
  lins (hist s) = l1 ++ (DLookup k g, RLookup (Some v)) :: l2 ->
  forall m, legal (holds (cur t0)) l1 m -> m k v.
Proof.
  intros R E m Lm. destruct (lin_point_spec s l1 _ _ l2 R E m Lm) as [m' [S _]].
  inversion S; subst. assumption.
Qed.

(* an insert-family operation reports "inserted" exactly when the key was absent *)
Corollary uprase_inserted_iff_absent s l1 k v g i lg l2 : creach s ->
  lins (hist s) = l1 ++ (DUprase k v g, RUprase i lg) :: l2 ->
  forall m, legal (holds (cur t0)) l1 m -> (i = true <-> forall v0, ~ m k v0).
Proof.
  intros R E m Lm. destruct (lin_point_spec s l1 _ _ l2 R E m Lm) as [m' [S _]].
  inversion S; subst.
  - split; [discriminate|]. intro H. exfalso. eapply H. eassumption.
  - split; [intros _; assumption|reflexivity].
Qed.

(* the data steps exclude each other the way the protocol promises: while some thread holds all
   locks (the only state in which [C_resize] can fire) no thread is in a validated critical
   section (the only state in which [C_lin] can fire), and vice versa *)
Theorem resize_excludes_critical_sections s t first d : creach s ->
  thr (pr s) t = AH first d -> forall u, ~ validated (thr (pr s) u).
Proof.
  intros R Ht u V. assert (HI := cinv_reachable s R).
  apply (validated_excludes_all_holder hp0 rc0 arrs0 (pr s) u OK (ci_reach _ HI) V t).
  rewrite Ht. exact I.
Qed.

(* at every linearization point the snapshot used is the current hashpower of the table *)
Theorem lin_snapshot_current s t sn sa x r : creach s ->
  thr (pr s) t = CS sn sa (x :: r) -> sh sn = hashpower (tbl s).
Proof.
  intros R Ht. assert (HI := cinv_reachable s R).
  destruct (validated_current hp0 rc0 arrs0 OK (pr s) (ci_reach _ HI) t sn sa x r (or_introl Ht))
    as (_ & Hsh & _).
  unfold hashpower. rewrite Hsh. apply (ci_link _ HI).
Qed.

End System.

(* ================================================================== F. an executable scheduler and a concrete run *)
Inductive action :=
| AInvoke (t : tid) (op : dop)
| AProto (t : tid) (lb : label)
| ALin (t : tid)
| ARet (t : tid)
| AWholeBegin (t : tid)
| AWholeEnd (t : tid).

Section Exec.
Variable c : config.
Variable hash : N -> N.

Definition cexec (s : cstate) (a : action) : option cstate :=
  match a with
  | AInvoke t op =>
    match cur_op s t, gstep (pr s) t (BEGIN 1) with
    | None, Some p' =>
      Some {| pr := p'; tbl := tbl s; cur_op := updf (cur_op s) t (Some op);
              res_of := updf (res_of s) t None; hist := hist s ++ [HInv t op] |}
    | _, _ => None
    end
  | AProto t lb =>
    if tied lb then None else
    match gstep (pr s) t lb with
    | Some p' => Some {| pr := p'; tbl := tbl s; cur_op := cur_op s; res_of := res_of s; hist := hist s |}
    | None => None
    end
  | ALin t =>
    match thr (pr s) t, cur_op s t, res_of s t with
    | CS sn sa (x :: r), Some op, None =>
      match lin_data c hash (sh sn) (tbl s) op with
      | Some (tbl', rs) =>
        Some {| pr := pr s; tbl := tbl'; cur_op := cur_op s;
                res_of := updf (res_of s) t (Some rs); hist := hist s ++ [HLin t op rs] |}
      | None => None
      end
    | _, _, _ => None
    end
  | ARet t =>
    match cur_op s t, res_of s t, gstep (pr s) t (NEXT 0) with
    | Some op, Some rs, Some p' =>
      Some {| pr := p'; tbl := tbl s; cur_op := updf (cur_op s) t None;
              res_of := updf (res_of s) t None; hist := hist s ++ [HRes t op rs] |}
    | _, _, _ => None
    end
  | AWholeBegin t =>
    match cur_op s t, gstep (pr s) t (BEGIN 3) with
    | None, Some p' =>
      Some {| pr := p'; tbl := tbl s; cur_op := cur_op s; res_of := res_of s; hist := hist s |}
    | _, _ => None
    end
  | AWholeEnd t =>
    match cur_op s t, gstep (pr s) t (NEXT 0) with
    | None, Some p' =>
      Some {| pr := p'; tbl := tbl s; cur_op := cur_op s; res_of := res_of s; hist := hist s |}
    | _, _ => None
    end
  end.

Lemma cexec_sound s a s' : cexec s a = Some s' -> cstep c hash s s'.
Proof.
  destruct a as [t op|t lb|t|t|t|t]; simpl.
  - destruct (cur_op s t) eqn:E1; [discriminate|].
    destruct (gstep (pr s) t (BEGIN 1)) eqn:E2; [|discriminate].
    intro H. injection H as <-. apply C_invoke; assumption.
  - destruct (tied lb) eqn:E1; [discriminate|].
    destruct (gstep (pr s) t lb) eqn:E2; [|discriminate].
    intro H. injection H as <-. eapply C_proto; eassumption.
  - destruct (thr (pr s) t) eqn:E1; try discriminate. destruct got as [|x r]; [discriminate|].
    destruct (cur_op s t) as [op|] eqn:E2; [|discriminate].
    destruct (res_of s t) eqn:E3; [discriminate|].
    destruct (lin_data c hash (sh sn) (tbl s) op) as [[tbl' rs]|] eqn:E4; [|discriminate].
    intro H. injection H as <-. eapply C_lin; eassumption.
  - destruct (cur_op s t) as [op|] eqn:E1; [|discriminate].
    destruct (res_of s t) as [rs|] eqn:E2; [|discriminate].
    destruct (gstep (pr s) t (NEXT 0)) eqn:E3; [|discriminate].
    intro H. injection H as <-. eapply C_ret; eassumption.
  - destruct (cur_op s t) eqn:E1; [discriminate|].
    destruct (gstep (pr s) t (BEGIN 3)) eqn:E2; [|discriminate].
    intro H. injection H as <-. eapply C_whole_begin; eassumption.
  - destruct (cur_op s t) eqn:E1; [discriminate|].
    destruct (gstep (pr s) t (NEXT 0)) eqn:E2; [|discriminate].
    intro H. injection H as <-. eapply C_whole_end; eassumption.
Qed.

Fixpoint crun (s : cstate) (l : list action) : option cstate :=
  match l with
  | [] => Some s
  | a :: l' => match cexec s a with Some s' => crun s' l' | None => None end
  end.

Lemma crun_reach hp0 rc0 arrs0 t0 l : forall s s',
  creach c hash hp0 rc0 arrs0 t0 s -> crun s l = Some s' -> creach c hash hp0 rc0 arrs0 t0 s'.
Proof.
  induction l as [|a l IH]; simpl; intros s s' R H.
  - injection H as <-. exact R.
  - destruct (cexec s a) as [s1|] eqn:E; [|discriminate].
    eapply IH; [|exact H]. eapply cr_step; [exact R|]. eapply cexec_sound. exact E.
Qed.
End Exec.

(* Non-vacuity: a two-thread run on a fresh table.  Thread 0 inserts key 5 with value 7, thread 1
   looks key 5 up; both are invoked before either takes its snapshot; thread 1's critical section
   comes after thread 0's, and its lookup linearizes with the value inserted. *)
Module ConcLinExample.
Definition cx : config := {| spb := 4; lbits := 16; simple := false; nothrow := true; destructive := false |}.
Definition hx (k : N) : N := (k * 2654435761)%N.
Definition tx : table := new_table cx 0.
Definition op_ins : dop := DUprase 5%N 7%Z (fun _ _ => None).
Definition op_find : dop := DLookup 5%N (fun v => (v, false)).

Lemma cx_ok : cfg_ok cx.
Proof. split; simpl; lia. Qed.

Lemma tx_good : good cx hx tx /\ bhp (cur tx) = 0%N.
Proof.
  destruct (good_new_table cx hx cx_ok 0%N) as [G [_ E]]; [vm_compute; reflexivity|].
  split; [exact G|]. vm_compute. reflexivity.
Qed.

Definition critical (t : tid) : list action :=
  [ AProto t (LD_RC 0%N); AProto t (LD_HP 0%N); AProto t (CURLOCKS 0); AProto t (LOCKREQ 0 0);
    AProto t (LOCKED 0 0); AProto t (LD_RC 0%N); ALin t; AProto t (UNLOCK 0 0); ARet t ].

Definition schedule : list action :=
  [ AInvoke 0 op_ins; AInvoke 1 op_find;
    AProto 1 (LD_RC 0%N); AProto 1 (LD_HP 0%N); AProto 1 (CURLOCKS 0); AProto 1 (LOCKREQ 0 0) ]
  ++ critical 0
  ++ [ AProto 1 (LOCKED 0 0); AProto 1 (LD_RC 0%N); ALin 1; AProto 1 (UNLOCK 0 0); ARet 1 ].

Example example_run :
  exists s, creach cx hx 0%N 0%N [1] tx s /\
    hist s = [ HInv 0 op_ins; HInv 1 op_find;
               HLin 0 op_ins (RUprase true []); HRes 0 op_ins (RUprase true []);
               HLin 1 op_find (RLookup (Some 7%Z)); HRes 1 op_find (RLookup (Some 7%Z)) ] /\
    holds (cur (tbl s)) 5%N 7%Z.
Proof.
  destruct (crun cx hx (cinit 0%N 0%N [1] tx) schedule) as [s|] eqn:E.
  2:{ vm_compute in E. discriminate. }
  exists s. split; [eapply crun_reach; [apply cr_init|exact E]|].
  vm_compute in E. injection E as <-. split; [reflexivity|].
  exists 0%N, 3%N. eexists. vm_compute. split; [reflexivity|]. split; reflexivity.
Qed.

(* the theorems apply to it: its hypotheses hold of the example's initial state *)
Example example_linearizable : forall s, creach cx hx 0%N 0%N [1] tx s ->
  legal (holds (cur tx)) (lins (hist s)) (holds (cur (tbl s))).
Proof.
  intros s R. destruct tx_good as [G E].
  assert (OK : arrs_ok [1]) by (split; [discriminate|repeat constructor]).
  apply (linearizable_by_points cx hx cx_ok 0%N 0%N [1] tx OK G E s R).
Qed.
(* a run with a RESIZE: thread 0 takes all locks, doubles the (empty) table, publishes a larger
   lock array, bumps the generation and releases; thread 1, invoked before, then takes its snapshot
   (size 1, lock array 1) and its lookup linearizes on the resized table *)
Definition tx1 : table := new_table cx 8.

Lemma tx1_good : good cx hx tx1 /\ bhp (cur tx1) = 1%N /\ ceq (holds (cur tx1)) (holds (cur tx)).
Proof.
  destruct (good_new_table cx hx cx_ok 8%N) as [G [Em _]]; [vm_compute; reflexivity|].
  destruct (good_new_table cx hx cx_ok 0%N) as [_ [Em0 _]]; [vm_compute; reflexivity|].
  split; [exact G|]. split; [vm_compute; reflexivity|].
  intros k v. split; intro H; exfalso; [eapply Em|eapply Em0]; exact H.
Qed.

Definition sched_a : list action :=
  [ AInvoke 1 op_find; AWholeBegin 0; AProto 0 (ALL_FIRST 0); AProto 0 (LOCKREQ 0 0);
    AProto 0 (LOCKED 0 0); AProto 0 (ALL_NEXT false) ].

Definition sched_b : list action :=
  [ AProto 0 (EMPLACE 2); AProto 0 FA_RC;
    AProto 0 (UNLOCK 0 0); AProto 0 (UNLOCK 1 0); AProto 0 (UNLOCK 1 1); AWholeEnd 0;
    AProto 1 (LD_RC 1%N); AProto 1 (LD_HP 1%N); AProto 1 (CURLOCKS 1); AProto 1 (LOCKREQ 1 1);
    AProto 1 (LOCKED 1 1); AProto 1 (LD_RC 1%N); ALin 1; AProto 1 (UNLOCK 1 1); ARet 1 ].

Example example_resize_run :
  exists s, creach cx hx 0%N 0%N [1] tx s /\
    hashpower (tbl s) = 1%N /\
    hist s = [ HInv 1 op_find; HLin 1 op_find (RLookup None); HRes 1 op_find (RLookup None) ].
Proof.
  destruct (crun cx hx (cinit 0%N 0%N [1] tx) sched_a) as [s1|] eqn:E1.
  2:{ vm_compute in E1. discriminate. }
  assert (R1 : creach cx hx 0%N 0%N [1] tx s1) by (eapply crun_reach; [apply cr_init|exact E1]).
  destruct tx1_good as [G1 [Hhp1 Hc1]].
  assert (Ht : thr (pr s1) 0 = AH 0 false) by (vm_compute in E1; injection E1 as <-; reflexivity).
  destruct (gstep (pr s1) 0 (ST_HP 1%N)) as [p2|] eqn:E2.
  2:{ unfold gstep in E2. rewrite Ht in E2. discriminate. }
  assert (Htb : tbl s1 = tx) by (vm_compute in E1; injection E1 as <-; reflexivity).
  assert (R2 := cr_step cx hx 0%N 0%N [1] tx _ _ R1
                  (C_resize cx hx s1 0 0 false 1%N tx1 p2 Ht E2 G1 Hhp1
                     ltac:(rewrite Htb; exact Hc1))).
  match type of R2 with creach _ _ _ _ _ _ ?s2 =>
    destruct (crun cx hx s2 sched_b) as [s3|] eqn:E3 end.
  2:{ vm_compute in E1. injection E1 as <-. vm_compute in E2. injection E2 as <-.
      vm_compute in E3. discriminate. }
  exists s3. split; [eapply crun_reach; [exact R2|exact E3]|].
  vm_compute in E1. injection E1 as <-. vm_compute in E2. injection E2 as <-.
  vm_compute in E3. injection E3 as <-. split; reflexivity.
Qed.
(* why the composition needs [validated_current] and LINK: the same lookup evaluated with a STALE
   snapshot (size 0 on a table of size 1) probes the wrong buckets and misses a key that is there *)
Example stale_snapshot_misses :
  let t := fst (uprase_gen cx hx false tx1 5%N 7%Z (fun _ _ => None)) in
  hashpower t = 1%N /\
  snd (lookup_snap cx hx 1%N t 5%N (fun v => (v, false))) = Some 7%Z /\
  snd (lookup_snap cx hx 0%N t 5%N (fun v => (v, false))) = None.
Proof. vm_compute. repeat split. Qed.
End ConcLinExample.
