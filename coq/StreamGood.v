(* The table a stream extraction produces is [good] (Refine.v) and [lgood] (LazyRefine.v): every refinement
   theorem about later operations - lookups, insertions with expansions, rehash/reserve, clear, in locked
   and in normal mode - applies to it ("the destination is afterwards a fully functional table"). *)
From Coq Require Import NArith ZArith List Lia.
From LC Require Import gen.HashGen Core Api InvDefs ArrLemmas Stats Resize Lazy Special Stream Refine LazyRefine.
Import ListNotations.
Local Open Scope N_scope.

Section StreamGood.
Variable c : config.
Variable hash : N -> N.
Hypothesis Hc : cfg_ok c.

Theorem stream_in_good ts td :
  good c hash ts -> (0 <= sum_cnt (cur_locks ts) < 2 ^ 64)%Z ->
  locks td <> [] -> cur_locks td <> [] -> all_migrated td ->
  (length (cur_locks td) <= N.to_nat (kmax c))%nat ->
  let td' := fst (stream_in c td (stream_out ts)) in
  good c hash td' /\ lgood c hash td' /\
  (forall k v, holds (cur td') k v <-> holds (cur ts) k v) /\
  (forall k v, lholds c td' k v <-> holds (cur ts) k v) /\
  mlfn td' = mlfn ts /\ mlfd td' = mlfd ts /\ mhp td' = mhp ts /\ workers td' = workers td /\
  tsize td' = tsize ts /\ bhp (cur td') = bhp (cur ts).
Proof.
  intros [Hs [Hcn [Hb [Hl Hw]]]] Hsum Hlk Hcl Ham Hlen td'.
  assert (Hmax : hashpower ts <= mhp ts \/ mhp ts = NO_MAXIMUM_HASHPOWER).
  { destruct Hw as [Hw|Hw]; [right; exact Hw|left; exact Hw]. }
  pose proof (stream_roundtrip c hash Hc ts td Hs Hcn Hmax Hsum Hlk Hcl Ham) as R.
  cbv zeta in R. fold td' in R.
  destruct R as [_ [Hcur [_ [Hh [Hhp [Hm1 [Hm2 [Hm3 [Hts [Hs' [Hc' [_ [_ [_ [Hwk [_ Hlen']]]]]]]]]]]]]]]].
  assert (Hbhp : bhp (cur td') = bhp (cur ts)) by (rewrite Hcur; reflexivity).
  assert (G : good c hash td').
  { split; [exact Hs'|]. split; [exact Hc'|]. split; [rewrite Hbhp; exact Hb|]. split; [exact (Hlen' Hlen)|].
    unfold within. rewrite Hm3, Hbhp. exact Hw. }
  split; [exact G|]. split; [apply good_lgood; exact G|].
  split; [exact Hh|]. split.
  - intros k v. rewrite <- Hh. apply (good_lholds c hash). exact G.
  - repeat split; assumption.
Qed.

(* hence every later normal-mode operation on the extracted table refines the abstract map that the SOURCE held *)
Corollary stream_in_then_operation_refines ts td (m : amap) fapply w a s o w' r :
  nothrow c = true ->
  good c hash ts -> (0 <= sum_cnt (cur_locks ts) < 2 ^ 64)%Z ->
  locks td <> [] -> cur_locks td <> [] -> all_migrated td ->
  (length (cur_locks td) <= N.to_nat (kmax c))%nat ->
  (forall k v, holds (cur ts) k v <-> m k = Some v) ->
  tb s = fst (stream_in c td (stream_out ts)) -> active s = false -> normal_op o = true -> op_pre c (tb s) o ->
  step_some c hash fapply w a s o = (w', r) ->
  lesc c hash (tb s) \/
  exists t' m', w' = put_t w a s t' /\ lgood c hash t' /\ lim_same (tb s) t' /\ rep c t' m' /\ op_spec c fapply (tb s) m o r m'.
Proof.
  intros Hnt G Hsum Hlk Hcl Ham Hlen Hm Etb Hact Hno Hpre E.
  destruct (stream_in_good ts td G Hsum Hlk Hcl Ham Hlen) as [_ [LG [_ [Hl _]]]].
  rewrite <- Etb in LG, Hl.
  eapply normal_mode_op_refines; try eassumption.
  intros k v. rewrite Hl. apply Hm.
Qed.
End StreamGood.
