(* L1 refinement from ANY well-formed table (normal mode, any stripe count): the restriction of
   Refine.v to the "immediate regime" is removed.  The invariant is [lgood] (Lazy.wf + counting +
   the bounds of Refine.good); the abstraction is Lazy.lholds.  A table whose last doubling still
   has deferred per-stripe migration pending is a legal starting point of every theorem here.
   Composes Lazy (deferred migration), Resize (the doubling), Refine (settled regime). *)
From Coq Require Import NArith ZArith List Bool Lia FMapPositive.
From LC Require Import gen.HashGen Bits Core Api InvDefs ArrLemmas Stats InsertLemmas Resize Iter Lazy
  Refine Life.
Import ListNotations.
Local Open Scope N_scope.

Section LazyRefine.
Variable c : config.
Variable hash : N -> N.
Hypothesis Hc : cfg_ok c.

Notation arr_ok := (arr_ok c hash).
Notation settled := (settled c hash).
Notation counted := (counted c).
Notation wf := (wf c hash).
Notation wfg := (wfg c hash).
Notation lholds := (lholds c).
Notation lcounted := (lcounted c).
Notation lstep := (lstep c).
Notation lmv := (lmv c).
Notation good := (good c hash).
Notation evolves := (evolves c hash).
Notation rww := (rehash_with_workers c hash).
Notation exn_ok := (exn_ok c).
Notation limC := (limC c).

(* ================================================================== 0. the invariant *)

Definition lgood (t : table) : Prop :=
  wf t /\ lcounted t /\ bhp (cur t) < 60 /\ (length (cur_locks t) <= N.to_nat (kmax c))%nat /\
  within t.

Definition levolves (t t' : table) : Prop :=
  lgood t' /\ (forall k v, lholds t' k v <-> lholds t k v) /\ lim_same t t' /\
  bhp (cur t) <= bhp (cur t').

Lemma good_lgood t : good t -> lgood t.
Proof.
  intros [St [Ct [Hb [Hl Hw]]]]. split; [apply settled_wfg; exact St|].
  split; [apply (lcounted_settled c t (se_mig _ _ _ St)); exact Ct|].
  split; [exact Hb|]. split; assumption.
Qed.

Lemma lgood_good t : lgood t -> all_migrated t -> good t.
Proof.
  intros [W [Ct [Hb [Hl Hw]]]] Hm. split; [apply (wfg_settled c hash true); assumption|].
  split; [apply (lcounted_settled c t Hm); exact Ct|].
  split; [exact Hb|]. split; assumption.
Qed.

Lemma lgood_wf t : lgood t -> wf t.
Proof. intros [W _]. exact W. Qed.

Lemma levolves_refl t : lgood t -> levolves t t.
Proof.
  intro G. split; [exact G|]. split; [intros k v; reflexivity|]. split; [apply lim_same_refl|lia].
Qed.

Lemma levolves_trans t t' t'' : levolves t t' -> levolves t' t'' -> levolves t t''.
Proof.
  intros [_ [H1 [L1 B1]]] [G2 [H2 [L2 B2]]]. split; [exact G2|].
  split; [intros k v; rewrite H2; apply H1|]. split; [eapply lim_same_trans; eassumption|lia].
Qed.

Lemma levolves_lgood t t' : levolves t t' -> lgood t'.
Proof. intros [G _]. exact G. Qed.

Lemma levolves_lim t t' : levolves t t' -> lim_same t t'.
Proof. intros [_ [_ [L _]]]. exact L. Qed.

Lemma evolves_levolves t t' : evolves t t' -> all_migrated t -> levolves t t'.
Proof.
  intros [G [Hh [L Hb]]] Hm.
  assert (Hm' : all_migrated t') by (destruct G as [St _]; apply (se_mig _ _ _ St)).
  split; [apply good_lgood; exact G|].
  split; [|split; assumption].
  intros k v. rewrite (lholds_settled c t' k v Hm'), (lholds_settled c t k v Hm). apply Hh.
Qed.

(* on the settled side the two abstractions coincide *)
Lemma good_lholds t k v : good t -> (lholds t k v <-> holds (cur t) k v).
Proof. intros [St _]. apply lholds_settled. apply (se_mig _ _ _ St). Qed.

(* ---- what locking / searching / displacing (Lazy.lstep, Lazy.lmv) preserve ---- *)

Lemma lmv_lgood t t' : lgood t -> wf t' -> lmv t t' -> levolves t t' /\ bhp (cur t') = bhp (cur t).
Proof.
  intros [W [Ct [Hb [Hl Hw]]]] W' [A1 [A2 [A3 [A4 [A5 [A6 [A7 [A8 [A9 [A10 A11]]]]]]]]]].
  split; [|exact A4]. split.
  - split; [exact W'|]. split; [apply A2; exact Ct|]. split; [rewrite A4; exact Hb|].
    split; [rewrite A6; exact Hl|]. apply (within_same t t' A10 A4 Hw).
  - split; [exact A1|]. split; [repeat split; assumption|]. rewrite A4. lia.
Qed.

Lemma lstep_lgood t t' : lgood t -> wf t' -> lstep t t' -> levolves t t' /\ bhp (cur t') = bhp (cur t).
Proof. intros G W' S. apply lmv_lgood; [exact G|exact W'|apply lstep_lmv; exact S]. Qed.

(* ---- the abstraction is a partial function with a decidable domain ---- *)

Lemma lholds_snap t k :
  wf t -> exists t1, wf t1 /\ lstep t t1 /\ (forall v, lholds t k v <-> holds (cur t1) k v).
Proof.
  intro W. destruct (snapshot_wf c hash Hc t k W) as [_ [W1 [S1 [_ [_ Hk]]]]]. cbv zeta in W1, S1, Hk.
  eexists. split; [exact W1|]. split; [exact S1|].
  intro v. rewrite <- Hk. symmetry. apply S1.
Qed.

Lemma lholds_fun t k v v' : wf t -> lholds t k v -> lholds t k v' -> v = v'.
Proof.
  intros W H H'. destruct (lholds_snap t k W) as [t1 [W1 [_ Hk]]].
  apply (holds_fun c hash (cur t1) k v v' (li_arr _ _ _ _ _ (wf_inv _ _ _ _ W1))); apply Hk; assumption.
Qed.

Lemma lholds_dec t k : wf t -> (exists v, lholds t k v) \/ (forall v, ~ lholds t k v).
Proof.
  intro W. destruct (lholds_snap t k W) as [t1 [W1 [_ Hk]]].
  destruct (key_in_dec c hash t1 k (li_arr _ _ _ _ _ (wf_inv _ _ _ _ W1))) as [H|H].
  - left. apply key_in_holds in H. destruct H as [v H]. exists v. apply Hk. exact H.
  - right. intros v Hv. apply H. apply key_in_holds. exists v. apply Hk. exact Hv.
Qed.

(* ================================================================== 1. the doubling *)

(* ---- 1a. finishing the pending migration (rehash_with_workers) ---- *)

Lemma rehash_lock_sum s t l :
  locks t <> [] -> sum_cnt (cur_locks (rehash_lock c hash s t l)) = sum_cnt (cur_locks t).
Proof.
  intro Hne. destruct (mig (lock_at t l)) eqn:Em.
  - rewrite (rehash_lock_migrated c hash s t l Em). reflexivity.
  - rewrite (rehash_lock_cur_locks c hash s t l Hne Em).
    destruct (Nat.lt_ge_cases (N.to_nat l) (length (cur_locks t))) as [L|G].
    + rewrite sum_cnt_upd by exact L. unfold set_mig. cbn [cnt]. lia.
    + apply sum_cnt_upd_out. exact G.
Qed.

Lemma rehash_all_sum n : forall t l,
  wfg false t -> sum_cnt (cur_locks (rehash_all c hash t l n)) = sum_cnt (cur_locks t).
Proof.
  induction n as [|n IH]; intros t l W; cbn [rehash_all]; [reflexivity|].
  destruct (rehash_lock_wf c hash Hc false t l W) as [W1 _]. cbv zeta in W1.
  rewrite (IH _ (l + 1) W1). apply rehash_lock_sum. apply (wf_locks _ _ _ _ W).
Qed.

Lemma tsize_eq t t' :
  locks t <> [] -> locks t' <> [] -> sum_cnt (cur_locks t') = sum_cnt (cur_locks t) -> tsize t' = tsize t.
Proof.
  intros H H' E. unfold tsize. destruct (locks t) as [|x r]; [congruence|].
  destruct (locks t') as [|x' r']; [congruence|]. rewrite E. reflexivity.
Qed.

Lemma lf_eq t t' :
  tsize t' = tsize t -> bhp (cur t') = bhp (cur t) -> lim_same t t' -> lf_lt_mlf c t' = lf_lt_mlf c t.
Proof.
  intros E1 E2 [E3 [E4 _]]. unfold lf_lt_mlf, capacity, bucket_count, hashpower.
  rewrite E1, E2, E3, E4. reflexivity.
Qed.

Lemma maxed_eq t t' n : lim_same t t' -> (maxed t' n <-> maxed t n).
Proof. intros [_ [_ [E _]]]. unfold maxed. rewrite E. reflexivity. Qed.

(* lock_table / the first step of every resize: pending deferred migration is finished first *)
Theorem rww_lgood t :
  lgood t ->
  good (rww t) /\ (forall k v, holds (cur (rww t)) k v <-> lholds t k v) /\
  bhp (cur (rww t)) = bhp (cur t) /\ lim_same t (rww t) /\ rc (rww t) = rc t /\ nrem (rww t) = 0 /\
  length (cur_locks (rww t)) = length (cur_locks t) /\ tsize (rww t) = tsize t /\
  lf_lt_mlf c (rww t) = lf_lt_mlf c t.
Proof.
  intros [W [Ct [Hb [Hl Hw]]]].
  destruct (rehash_with_workers_wf c hash Hc true t W) as [St [Cn [Hh [Hhp [Hn [Hlen [R1 [R2 [R3 [R4 R5]]]]]]]]]].
  cbv zeta in St, Cn, Hh, Hhp, Hn, Hlen, R1, R2, R3, R4, R5.
  assert (L : lim_same t (rww t)) by (repeat split; assumption).
  assert (Hts : tsize (rww t) = tsize t).
  { apply tsize_eq; [apply (wf_locks _ _ _ _ W)|apply (se_locks _ _ _ St)|].
    unfold rehash_with_workers. rewrite cur_locks_set_nrem. apply rehash_all_sum.
    apply wfg_weaken. exact W. }
  split; [|split; [exact Hh|split; [exact Hhp|split; [exact L|split; [exact R1|split; [exact Hn|
          split; [exact Hlen|split; [exact Hts|apply lf_eq; assumption]]]]]]]].
  split; [exact St|]. split; [apply Cn; exact Ct|]. split; [rewrite Hhp; exact Hb|].
  split; [rewrite Hlen; exact Hl|]. apply (within_same t _ R4 Hhp Hw).
Qed.

Lemma rww_settled_id t : settled t -> rww t = set_nrem t 0.
Proof.
  intro St. unfold rehash_with_workers. rewrite (rehash_all_settled c hash _ t 0 (se_mig _ _ _ St)).
  reflexivity.
Qed.

Lemma rww_idem s t : wfg s t -> rww (rww t) = rww t.
Proof.
  intro W. destruct (rehash_with_workers_wf c hash Hc s t W) as [St _]. cbv zeta in St.
  rewrite (rww_settled_id _ St). unfold rehash_with_workers. reflexivity.
Qed.

(* ---- 1b. fast_double_body from any well-formed table ---- *)

(* fast_double_body = finish the pending migration, then the rest *)
Definition fdb_rest (mode : bool) (t1 : table) (new_hp : N) : table :=
  let t2 := maybe_resize_locks c t1 (wrap64 (N.shiftl 1 new_hp)) in
  let t3 := set_cur (set_old t2 (cur t2)) (bnew new_hp) in
  let t4 :=
    if hashsize (bhp (old t3)) <? kmax c then
      set_nrem (move_all_buckets c hash t3 0 (N.to_nat (hashsize (bhp (old t3))))) 0
    else
      let t5 := set_nrem (set_all_unmigrated t3) (N.of_nat (length (cur_locks t3))) in
      if mode then rehash_with_workers c hash t5 else t5 in
  set_rc t4 (wrap64 (rc t4 + 1)).

Lemma fdb_split mode t nh : fast_double_body c hash mode t nh = fdb_rest mode (rww t) nh.
Proof. reflexivity. Qed.

(* the body applied to a table with pending migration IS the body applied to the settled table
   obtained by finishing that migration *)
Lemma fdb_via_rww s mode t nh :
  wfg s t -> fast_double_body c hash mode t nh = fast_double_body c hash mode (rww t) nh.
Proof. intro W. rewrite (fdb_split mode (rww t)), (rww_idem s t W). apply fdb_split. Qed.

Theorem fast_double_body_lgood t :
  lgood t -> bhp (cur t) + 1 < 60 -> ~ maxed t (bhp (cur t) + 1) ->
  let t' := fast_double_body c hash false t (bhp (cur t) + 1) in
  lgood t' /\ bhp (cur t') = bhp (cur t) + 1 /\
  (forall k v, lholds t' k v <-> lholds t k v) /\
  lim_same t t' /\ rc t' = wrap64 (rc t + 1) /\
  (hashsize (bhp (cur t)) < kmax c -> all_migrated t' /\ nrem t' = 0) /\
  (kmax c <= hashsize (bhp (cur t)) ->
     nrem t' = kmax c /\ cur t' = bnew (bhp (cur t) + 1) /\ old t' = cur (rww t) /\
     forall l, l < kmax c -> mig (lock_at t' l) = false).
Proof.
  intros G Hb1 Hnm t'. subst t'.
  rewrite (fdb_via_rww true false t _ (lgood_wf t G)).
  destruct (rww_lgood t G) as [G1 [Hh1 [Hhp1 [L1 [Hrc1 [_ [Hlen1 _]]]]]]].
  set (t1 := rww t) in *. rewrite <- Hhp1.
  destruct G1 as [St1 [Ct1 [Hb [Hl1 Hw1]]]].
  assert (Hb2 : bhp (cur t1) + 1 < 62) by lia.
  assert (Hnm1 : ~ maxed t1 (bhp (cur t1) + 1)).
  { rewrite (maxed_eq t t1 _ L1), Hhp1. exact Hnm. }
  assert (Hwith : forall t2, mhp t2 = mhp t1 -> bhp (cur t2) = bhp (cur t1) + 1 -> within t2).
  { intros t2 E1 E2. unfold within. rewrite E1, E2. unfold maxed in Hnm1.
    destruct (N.eq_dec (mhp t1) NO_MAXIMUM_HASHPOWER) as [E|E]; [left; exact E|right].
    destruct (N.le_gt_cases (bhp (cur t1) + 1) (mhp t1)) as [L|L]; [exact L|].
    exfalso. apply Hnm1. split; assumption. }
  destruct (N.lt_ge_cases (hashsize (bhp (cur t1))) (kmax c)) as [Hsmall|Hbig].
  - (* fewer buckets than stripes: every bucket is moved at once *)
    destruct (fast_double_body_immediate c hash Hc false t1 St1 Ct1 Hb2 (or_introl Hsmall))
      as [St' [Ct' [Hhp [Hh [Hrc [M1 [M2 [M3 [M4 [Hnr Hlen]]]]]]]]]].
    cbv zeta in St', Ct', Hhp, Hh, Hrc, M1, M2, M3, M4, Hnr, Hlen.
    set (t' := fast_double_body c hash false t1 (bhp (cur t1) + 1)) in *.
    assert (G' : good t').
    { split; [exact St'|]. split; [exact Ct'|]. split; [lia|]. split.
      - rewrite Hlen. apply Nat.max_lub; [exact Hl1|]. lia.
      - apply Hwith; assumption. }
    split; [apply good_lgood; exact G'|]. split; [exact Hhp|].
    split; [intros k v; rewrite (good_lholds t' k v G'), Hh; apply Hh1|].
    split; [apply (lim_same_trans _ _ _ L1); repeat split; assumption|].
    split; [rewrite Hrc, Hrc1; reflexivity|].
    split; [intros _; split; [apply (se_mig _ _ _ St')|exact Hnr]|].
    intro H. lia.
  - (* at least as many buckets as stripes: the whole migration is deferred *)
    destruct (fast_double_body_deferred c hash Hc t1 St1 Ct1 Hb2 Hbig Hl1)
      as [W' [Ct' [Hhp [Hh [Hrc [M1 [M2 [M3 [M4 [Hnr [Hcur [Hold [Hlen Hmig]]]]]]]]]]]]].
    cbv zeta in W', Ct', Hhp, Hh, Hrc, M1, M2, M3, M4, Hnr, Hcur, Hold, Hlen, Hmig.
    set (t' := fast_double_body c hash false t1 (bhp (cur t1) + 1)) in *.
    split.
    { split; [exact W'|]. split; [exact Ct'|]. split; [lia|]. split; [lia|].
      apply Hwith; assumption. }
    split; [exact Hhp|].
    split; [intros k v; rewrite Hh; apply Hh1|].
    split; [apply (lim_same_trans _ _ _ L1); repeat split; assumption|].
    split; [rewrite Hrc, Hrc1; reflexivity|].
    split; [intro H; lia|].
    intros _. split; [exact Hnr|]. split; [exact Hcur|]. split; [exact Hold|exact Hmig].
Qed.

(* the regime is really entered: doubling a table with at least as many buckets as stripes in
   normal mode yields a well-formed table that is NOT settled (so Refine.good does not cover it) *)
Corollary deferred_state_reached t :
  lgood t -> bhp (cur t) + 1 < 60 -> ~ maxed t (bhp (cur t) + 1) -> kmax c <= hashsize (bhp (cur t)) ->
  let t' := fast_double_body c hash false t (bhp (cur t) + 1) in
  lgood t' /\ ~ all_migrated t' /\ ~ good t'.
Proof.
  intros G Hb Hm Hbig. destruct (fast_double_body_lgood t G Hb Hm) as [G' [_ [_ [_ [_ [_ Hd]]]]]].
  cbv zeta in *. destruct (Hd Hbig) as [_ [_ [_ Hmig]]].
  assert (Hn : ~ all_migrated (fast_double_body c hash false t (bhp (cur t) + 1))).
  { intro Ha. assert (H0 := Hmig 0 (kmax_pos c)). rewrite (lock_at_mig _ 0 Ha) in H0. discriminate. }
  split; [exact G'|]. split; [exact Hn|]. intros [St _]. apply Hn. apply (se_mig _ _ _ St).
Qed.

(* ---- 1c. cuckoo_fast_double (automatic doubling of a nothrow type) ---- *)

Theorem cuckoo_fast_double_lgood t :
  nothrow c = true -> lgood t ->
  let hp := bhp (cur t) in
  (maxed t (hp + 1) -> cuckoo_fast_double c hash false t hp = (t, inl EMaxHashpower)) /\
  (~ maxed t (hp + 1) -> lf_lt_mlf c t = true ->
     cuckoo_fast_double c hash false t hp = (t, inl ELoadFactorTooLow)) /\
  (~ maxed t (hp + 1) -> lf_lt_mlf c t = false ->
     cuckoo_fast_double c hash false t hp = (fast_double_body c hash false t (hp + 1), inr St_ok) /\
     (hp + 1 < 60 ->
      let t' := fast_double_body c hash false t (hp + 1) in
      lgood t' /\ bhp (cur t') = hp + 1 /\
      (forall k v, lholds t' k v <-> lholds t k v) /\
      lim_same t t' /\ rc t' = wrap64 (rc t + 1))).
Proof.
  intros Hnt G hp. unfold cuckoo_fast_double, resize_fuel.
  rewrite (fast_double_f_nothrow_unfold c hash 5 true false t hp Hnt). subst hp.
  split; [|split].
  - intro Hm. apply (crv_maxhp_iff c true t (bhp (cur t)) (bhp (cur t) + 1)) in Hm. rewrite Hm. reflexivity.
  - intros Hm Hlf.
    assert (E : check_resize_validity c true t (bhp (cur t)) (bhp (cur t) + 1) = inl (Some ELoadFactorTooLow)).
    { apply crv_lf_iff. split; [exact Hm|]. split; [reflexivity|exact Hlf]. }
    rewrite E. reflexivity.
  - intros Hm Hlf.
    assert (E : check_resize_validity c true t (bhp (cur t)) (bhp (cur t) + 1) = inr St_ok).
    { rewrite <- (hashpower_eq t) at 1. apply crv_ok_intro; [|intros _; exact Hlf].
      unfold maxed in Hm. set (hp := bhp (cur t)) in *.
      destruct (N.eq_dec (mhp t) NO_MAXIMUM_HASHPOWER) as [E|E]; [left; exact E|right].
      destruct (N.le_gt_cases (hp + 1) (mhp t)) as [L|L]; [exact L|]. exfalso. apply Hm. split; assumption. }
    rewrite E. split; [reflexivity|]. intro Hb1.
    destruct (fast_double_body_lgood t G Hb1 Hm) as [G' [Hhp [Hh [Hlim [Hrc _]]]]].
    cbv zeta. split; [exact G'|]. split; [exact Hhp|]. split; [exact Hh|]. split; assumption.
Qed.

(* ================================================================== 2. single-slot updates *)

(* [t'] is [t] with key k bound to o (None: no binding) *)
Definition lupd (t t' : table) (k : N) (o : option Z) : Prop :=
  forall k' v', lholds t' k' v' <-> (k' <> k /\ lholds t k' v') \/ (k' = k /\ o = Some v').

Lemma lupd_pre t0 t t' k o :
  (forall k' v', lholds t k' v' <-> lholds t0 k' v') -> lupd t t' k o -> lupd t0 t' k o.
Proof. intros H U k' v'. rewrite (U k' v'), (H k' v'). reflexivity. Qed.

Lemma lgood_set_val t b s e v :
  lgood t -> bget (cur t) b s = Some e ->
  let t' := set_val t b s v in
  lgood t' /\ lim_same t t' /\ bhp (cur t') = bhp (cur t) /\
  (exists e', bget (cur t') b s = Some e' /\ ekey e' = ekey e /\ eval e' = v) /\
  (forall k' v', lholds t' k' v' <-> (k' = ekey e /\ v' = v) \/ (k' <> ekey e /\ lholds t k' v')).
Proof.
  intros [W [Ct [Hb [Hl Hw]]]] He.
  destruct (set_val_wf c hash true t b s e v W He) as [W' [Hhp [Hlk [_ [Ct' [He' Hh]]]]]].
  cbv zeta in *.
  assert (L : lim_same t (set_val t b s v)) by (rewrite (set_val_occupied t b s e v He); repeat split).
  split; [|split; [exact L|split; [exact Hhp|split; [exact He'|exact Hh]]]].
  split; [exact W'|]. split; [apply Ct'; exact Ct|]. split; [rewrite Hhp; exact Hb|].
  split; [rewrite (cur_locks_locks _ _ Hlk); exact Hl|].
  apply (within_same t _); [apply L|exact Hhp|exact Hw].
Qed.

Lemma lgood_del t b s e :
  lgood t -> bget (cur t) b s = Some e ->
  let t' := del_from_bucket c t b s in
  lgood t' /\ lim_same t t' /\ bhp (cur t') = bhp (cur t) /\
  (forall k' v', lholds t' k' v' <-> lholds t k' v' /\ k' <> ekey e).
Proof.
  intros [W [Ct [Hb [Hl Hw]]]] He.
  destruct (del_from_bucket_wf c hash true t b s e W He) as [W' [Hhp [Ct' Hh]]].
  cbv zeta in *. split; [|split; [apply lim_same_del|split; [exact Hhp|exact Hh]]].
  split; [exact W'|]. split; [apply Ct'; exact Ct|]. split; [rewrite Hhp; exact Hb|].
  split; [rewrite (del_from_bucket_locks_length c t b s (wf_locks _ _ _ _ W)); exact Hl|].
  apply (within_same t _); [reflexivity|exact Hhp|exact Hw].
Qed.

Lemma lgood_add t b s k v :
  lgood t -> bget (cur t) b s = None -> cand hash (bhp (cur t)) k b -> s < spb c ->
  mig (lock_at t (lockind c b)) = true -> (forall v0, ~ lholds t k v0) ->
  let t' := add_to_bucket c t b s (partial_key (hash k)) k v in
  lgood t' /\ lim_same t t' /\ bhp (cur t') = bhp (cur t) /\
  bget (cur t') b s = Some {| ekey := k; eval := v; epart := partial_key (hash k); ehusk := false |} /\
  (forall k' v', lholds t' k' v' <-> (k' = k /\ v' = v) \/ (k' <> k /\ lholds t k' v')).
Proof.
  intros [W [Ct [Hb [Hl Hw]]]] Hg Hcand Hs Hm Hno.
  assert (Hr : b < 2 ^ bhp (cur t)).
  { apply (cand_range c hash t k b (li_arr _ _ _ _ _ (wf_inv _ _ _ _ W)) Hcand). }
  unfold lockind in Hm. rewrite (lockind_spec c Hc) in Hm.
  destruct (add_to_bucket_wf c hash true t b s k v W Hg Hr Hs Hcand Hm Hno) as [W' [Hhp [Ct' Hh]]].
  cbv zeta in *. split; [|split; [apply lim_same_add|split; [exact Hhp|split; [|exact Hh]]]].
  - split; [exact W'|]. split; [apply Ct'; exact Ct|]. split; [rewrite Hhp; exact Hb|].
    split; [rewrite (add_to_bucket_locks_length c t b s _ k v (wf_locks _ _ _ _ W)); exact Hl|].
    apply (within_same t _); [reflexivity|exact Hhp|exact Hw].
  - rewrite cur_add_to_bucket. apply bget_bset_eq.
Qed.

(* the part of uprase_fn after the position is known (Refine.finish), on a well-formed table *)
Lemma finish_lgood t3 b s e ins g :
  lgood t3 -> bget (cur t3) b s = Some e ->
  exists t', finish c t3 b s ins g = (t', inr (ins, log_of g (eval e) ins, (b, s))) /\
    lgood t' /\ lim_same t3 t' /\ bhp (cur t') = bhp (cur t3) /\
    lupd t3 t' (ekey e) (final_of g (eval e) ins) /\
    (forall vf, final_of g (eval e) ins = Some vf ->
       exists e', bget (cur t') b s = Some e' /\ ekey e' = ekey e /\ eval e' = vf).
Proof.
  intros G He. assert (W : wf t3) by (apply lgood_wf; exact G).
  assert (Hself : lholds t3 (ekey e) (eval e)) by (left; exists b, s, e; repeat split; exact He).
  unfold finish, log_of, final_of, val_at. rewrite He.
  destruct (g (eval e) ins) as [[v' er]|].
  2:{ exists t3. split; [reflexivity|]. split; [exact G|]. split; [apply lim_same_refl|].
      split; [reflexivity|]. split.
      - intros k' v'. split.
        + intro H. destruct (N.eq_dec k' (ekey e)) as [E|E].
          * right. split; [exact E|]. subst k'. f_equal. apply (lholds_fun t3 _ _ _ W Hself H).
          * left. split; assumption.
        + intros [[_ H]|[E H]]; [exact H|]. injection H as <-. subst k'. exact Hself.
      - intros vf H. injection H as <-. exists e. repeat split. exact He. }
  destruct (lgood_set_val t3 b s e v' G He) as [G4 [L4 [Hhp4 [[e4 [He4 [Hk4 Hv4]]] Hh4]]]].
  cbv zeta in G4, L4, Hhp4, He4, Hh4. destruct er.
  - destruct (lgood_del (set_val t3 b s v') b s e4 G4 He4) as [G5 [L5 [Hhp5 Hh5]]].
    cbv zeta in G5, L5, Hhp5, Hh5.
    eexists. split; [reflexivity|]. split; [exact G5|].
    split; [eapply lim_same_trans; eassumption|]. split; [congruence|]. split.
    + intros k' v''. rewrite Hh5, Hh4, Hk4. split.
      * intros [[[E _]|[E H]] Hne]; [contradiction|]. left. split; assumption.
      * intros [[E H]|[_ H]]; [|discriminate]. split; [right; split; assumption|exact E].
    + intros vf H. discriminate.
  - eexists. split; [reflexivity|]. split; [exact G4|]. split; [exact L4|]. split; [exact Hhp4|]. split.
    + intros k' v''. rewrite Hh4. split.
      * intros [[E1 E2]|[E H]]; [right; split; [exact E1|f_equal; symmetry; exact E2]|left; split; assumption].
      * intros [[E H]|[E H]]; [right; split; assumption|left]. injection H as <-. split; [exact E|reflexivity].
    + intros vf H. injection H as <-. exists e4. split; [exact He4|]. split; assumption.
Qed.

(* ================================================================== 3. find / update / erase *)

(* find / contains / find_fn / update / update_fn / erase / erase_fn through a deferred migration:
   the two stripes of the key are migrated first, then the current array alone decides *)
Theorem lookup_fn_lgood t k g :
  lgood t ->
  forall t' r, lookup_fn c hash false t k g = (t', r) ->
  lgood t' /\ lim_same t t' /\ bhp (cur t') = bhp (cur t) /\
  (((forall v, ~ lholds t k v) /\ r = None /\ levolves t t') \/
   (exists v0, lholds t k v0 /\ r = Some v0 /\
      lupd t t' k (if snd (g v0) then None else Some (fst (g v0))))).
Proof.
  intros G t' r E. assert (W : wf t) by (apply lgood_wf; exact G).
  destruct (snapshot_wf c hash Hc t k W) as [Esnap [W1 [S1 [M1 [M2 Hk1]]]]].
  cbv zeta in Esnap, W1, S1, M1, M2, Hk1.
  set (hp := bhp (cur t)) in *.
  set (t1 := lock_two c hash false t (i1_of hash hp k) (i2_of hash hp k)) in *.
  destruct (lstep_lgood t t1 G W1 S1) as [Ev1 Hbc]. fold hp in Hbc.
  assert (G1 := levolves_lgood _ _ Ev1). assert (L1 := levolves_lim _ _ Ev1).
  assert (Hh1 : forall k' v', lholds t1 k' v' <-> lholds t k' v') by apply S1.
  assert (Ha1 := li_arr _ _ _ _ _ (wf_inv _ _ _ _ W1)).
  assert (Hfind := cuckoo_find_cases c hash t1 k Ha1). cbv zeta in Hfind. rewrite Hbc in Hfind.
  unfold lookup_fn in E. rewrite Esnap in E. unfold hashed_partial in E.
  set (pos := cuckoo_find c t1 k (partial_key (hash k)) (i1_of hash hp k) (i2_of hash hp k)) in *.
  destruct Hfind as [[Hs [_ [_ [e [He Hek]]]]]|[Hs Hn]]; rewrite Hs in E.
  2:{ injection E as <- <-. split; [exact G1|]. split; [exact L1|]. split; [exact Hbc|]. left.
      split; [|split; [reflexivity|exact Ev1]].
      intros v Hv. apply Hn. apply key_in_holds. exists v. apply Hk1. apply Hh1. exact Hv. }
  unfold val_at in E. rewrite He in E.
  assert (Hself : lholds t k (eval e)).
  { apply Hh1. left. exists (pindex pos), (pslot pos), e. split; [exact He|]. split; [exact Hek|reflexivity]. }
  destruct (g (eval e)) as [v' er] eqn:Eg. cbv beta iota zeta in E.
  destruct (lgood_set_val t1 (pindex pos) (pslot pos) e v' G1 He) as [G4 [L4 [Hhp4 [[e4 [He4 [Hk4 Hv4]]] Hh4]]]].
  cbv zeta in G4, L4, Hhp4, He4, Hh4. rewrite Hek in Hh4, Hk4.
  destruct er.
  - destruct (lgood_del (set_val t1 (pindex pos) (pslot pos) v') (pindex pos) (pslot pos) e4 G4 He4)
      as [G5 [L5 [Hhp5 Hh5]]]. cbv zeta in G5, L5, Hhp5, Hh5. rewrite Hk4 in Hh5.
    injection E as <- <-. split; [exact G5|].
    split; [exact (lim_same_trans _ _ _ L1 (lim_same_trans _ _ _ L4 L5))|].
    split; [congruence|]. right. exists (eval e). split; [exact Hself|]. split; [reflexivity|].
    rewrite Eg. cbn [fst snd]. intros k' v''. rewrite Hh5, Hh4, Hh1. split.
    + intros [[[E1 _]|[E1 H]] Hne]; [contradiction|]. left. split; assumption.
    + intros [[E1 H]|[_ H]]; [|discriminate]. split; [right; split; assumption|exact E1].
  - injection E as <- <-. split; [exact G4|]. split; [exact (lim_same_trans _ _ _ L1 L4)|].
    split; [congruence|].
    right. exists (eval e). split; [exact Hself|]. split; [reflexivity|].
    rewrite Eg. cbn [fst snd]. intros k' v''. rewrite Hh4, Hh1. split.
    + intros [[E1 E2]|[E1 H]]; [right; split; [exact E1|rewrite E2; reflexivity]|left; split; assumption].
    + intros [[E1 H]|[E1 H]]; [right; split; assumption|left]. injection H as <-. split; [exact E1|reflexivity].
Qed.

(* ================================================================== 4. the insert loop *)

(* the run reached a well-formed table of 2^59 buckets and was allowed to double it
   (Refine.esc over the deferred-migration invariant) *)
Definition lesc (t : table) : Prop :=
  exists tm, levolves t tm /\ bhp (cur tm) = 59 /\ 60 <= mhp t.

Lemma lesc_levolves t t1 : levolves t t1 -> lesc t1 -> lesc t.
Proof.
  intros Ev [tm [Ev' [Hb Hm]]]. exists tm. split; [eapply levolves_trans; eassumption|].
  split; [exact Hb|]. destruct Ev as [_ [_ [[_ [_ [E _]]] _]]]. rewrite <- E. exact Hm.
Qed.

Lemma lesc_capped t : mhp t <= 59 -> ~ lesc t.
Proof. intros H [tm [_ [_ H60]]]. lia. Qed.

(* both candidate stripes of k are migrated (the state after snapshot_and_lock_two) *)
Definition stripes_done (t : table) (k : N) : Prop :=
  mig (lock_at t (lockind c (i1_of hash (bhp (cur t)) k))) = true /\
  mig (lock_at t (lockind c (i2_of hash (bhp (cur t)) k))) = true.

Lemma stripes_done_lmv t t' k : lmv t t' -> stripes_done t k -> stripes_done t' k.
Proof.
  intros [_ [_ [A3 [A4 _]]]] [M1 M2]. unfold stripes_done. rewrite A4. split; apply A3; assumption.
Qed.

Lemma stripes_done_cand t k b :
  stripes_done t k -> cand hash (bhp (cur t)) k b -> mig (lock_at t (lockind c b)) = true.
Proof. intros [M1 M2] [->| ->]; assumption. Qed.

(* after snapshot_and_lock_two *)
Lemma snapshot_lgood t k :
  lgood t ->
  let hp := bhp (cur t) in
  let t1 := lock_two c hash false t (i1_of hash hp k) (i2_of hash hp k) in
  snapshot_and_lock_two c hash false t k = (t1, i1_of hash hp k, i2_of hash hp k) /\
  levolves t t1 /\ bhp (cur t1) = hp /\ stripes_done t1 k /\ lstep t t1.
Proof.
  intros G hp t1. destruct (snapshot_wf c hash Hc t k (lgood_wf t G)) as [Esnap [W1 [S1 [M1 [M2 _]]]]].
  cbv zeta in Esnap, W1, S1, M1, M2. fold hp in Esnap, W1, S1, M1, M2. fold t1 in Esnap, W1, S1, M1, M2.
  destruct (lstep_lgood t t1 G W1 S1) as [Ev1 Hbc]. fold hp in Hbc.
  split; [exact Esnap|]. split; [exact Ev1|]. split; [exact Hbc|]. split; [|exact S1].
  unfold stripes_done. rewrite Hbc. split; assumption.
Qed.

Definition lil_post (t : table) (k : N) (t' : table) (res : il_result) : Prop :=
  lesc t \/
  (levolves t t' /\
   match res with
   | IL_pos pos j1 j2 =>
       j1 = i1_of hash (bhp (cur t')) k /\ j2 = i2_of hash (bhp (cur t')) k /\ stripes_done t' k /\
       ((pstatus pos = St_duplicated /\ (exists v, lholds t k v) /\ bhp (cur t') = bhp (cur t) /\
         exists e, bget (cur t') (pindex pos) (pslot pos) = Some e /\ ekey e = k) \/
        (pstatus pos = St_ok /\ (forall v, ~ lholds t k v) /\
         bget (cur t') (pindex pos) (pslot pos) = None /\
         cand hash (bhp (cur t')) k (pindex pos) /\ pslot pos < spb c /\
         mig (lock_at t' (lockind c (pindex pos))) = true))
   | IL_exn e => (forall v, ~ lholds t k v) /\ exn_ok true t t' e
   end).

Lemma lil_post_levolves t t2 k t' res :
  levolves t t2 -> (forall v, ~ lholds t k v) -> lil_post t2 k t' res -> lil_post t k t' res.
Proof.
  intros Ev Hk [He|[Ev' H]]; [left; eapply lesc_levolves; eassumption|right].
  split; [eapply levolves_trans; eassumption|].
  destruct res as [pos j1 j2|e].
  - destruct H as [E1 [E2 [Hsd Hcase]]]. split; [exact E1|]. split; [exact E2|]. split; [exact Hsd|].
    destruct Hcase as [[_ [[v Hin] _]]|[Hs [_ Hrest]]].
    + exfalso. apply (Hk v). apply Ev. exact Hin.
    + right. split; [exact Hs|]. split; [exact Hk|exact Hrest].
  - destruct H as [_ He]. split; [exact Hk|].
    eapply exn_ok_lim; [apply (levolves_lim _ _ Ev)|exact He].
Qed.

(* a present key is found by the first probe: no displacement, no expansion, no exception *)
Lemma l_insert_loop_present fd t k fuel :
  lgood t -> stripes_done t k -> (exists v, lholds t k v) ->
  forall t' res,
  cuckoo_insert_loop c hash fd false t k (i1_of hash (bhp (cur t)) k) (i2_of hash (bhp (cur t)) k) (S fuel)
    = (t', res) ->
  exists pos, res = IL_pos pos (i1_of hash (bhp (cur t)) k) (i2_of hash (bhp (cur t)) k) /\
    levolves t t' /\ bhp (cur t') = bhp (cur t) /\ stripes_done t' k /\ pstatus pos = St_duplicated /\
    exists e, bget (cur t') (pindex pos) (pslot pos) = Some e /\ ekey e = k.
Proof.
  intros G Hsd Hk t' res E. assert (W := lgood_wf t G). destruct Hsd as [M1 M2].
  destruct (cuckoo_insert_wf c hash Hc t k W M1 M2) as [t1 [r1 [E1 [W1 [V1 [Hin _]]]]]].
  cbv zeta in E1. destruct (Hin Hk) as [pos [-> [Hs He]]].
  rewrite (cuckoo_insert_loop_done c hash fd false t k _ _ fuel t1 pos E1 (or_intror Hs)) in E.
  injection E as <- <-. exists pos. split; [reflexivity|].
  destruct (lmv_lgood t t1 G W1 V1) as [Ev Hhp].
  split; [exact Ev|]. split; [exact Hhp|].
  split; [apply (stripes_done_lmv t t1 k V1); split; assumption|]. split; [exact Hs|exact He].
Qed.

Lemma l_insert_loop_absent :
  nothrow c = true ->
  forall fuel t k, lgood t -> stripes_done t k -> (forall v, ~ lholds t k v) ->
  forall t' res,
  cuckoo_insert_loop c hash (cuckoo_fast_double c hash) false t k
    (i1_of hash (bhp (cur t)) k) (i2_of hash (bhp (cur t)) k) fuel = (t', res) ->
  lil_post t k t' res.
Proof.
  intro Hnt. induction fuel as [|f IH]; intros t k G Hsd Hk t' res E.
  - cbn [cuckoo_insert_loop] in E. injection E as <- <-. right.
    split; [apply levolves_refl; exact G|]. split; [exact Hk|apply exn_ok_fuel].
  - assert (W := lgood_wf t G). cbn [cuckoo_insert_loop] in E.
    destruct (cuckoo_insert_wf c hash Hc t k W (proj1 Hsd) (proj2 Hsd)) as [t1 [r1 [E1 [W1 [V1 [_ Hout]]]]]].
    cbv zeta in E1. rewrite E1 in E.
    destruct (lmv_lgood t t1 G W1 V1) as [Ev1 Hhp1].
    assert (Hsd1 := stripes_done_lmv t t1 k V1 Hsd).
    destruct (Hout Hk) as [->|[pos [-> Hcase]]].
    + injection E as <- <-. right. split; [exact Ev1|]. split; [exact Hk|apply exn_ok_fuel].
    + destruct Hcase as [[Hs [Hg [Hidx Hslot]]]|Hs]; rewrite Hs in E.
      * injection E as <- <-. right. split; [exact Ev1|]. rewrite Hhp1.
        split; [reflexivity|]. split; [reflexivity|]. split; [exact Hsd1|]. right.
        split; [exact Hs|]. split; [exact Hk|]. split; [exact Hg|]. split; [exact Hidx|].
        split; [exact Hslot|]. apply (stripes_done_cand t1 k _ Hsd1). rewrite Hhp1. exact Hidx.
      * assert (G1 := levolves_lgood _ _ Ev1). assert (L1 := levolves_lim _ _ Ev1).
        destruct (cuckoo_fast_double_lgood t1 Hnt G1) as [H1 [H2 H3]]. cbv zeta in H1, H2, H3.
        rewrite Hhp1 in H1, H2, H3. rewrite hashpower_eq in E.
        assert (Hm1 : mhp t1 = mhp t) by (destruct L1 as [_ [_ [H _]]]; exact H).
        destruct (maxed_dec hash t1 (bhp (cur t) + 1)) as [Hm|Hm].
        { rewrite (H1 Hm) in E. injection E as <- <-. right. split; [exact Ev1|]. split; [exact Hk|].
          destruct Hm as [Hm Hlt]. split.
          - left. split; [reflexivity|]. rewrite <- Hm1. exact Hm.
          - intros _. split; [|intro H; discriminate]. intros _. rewrite <- Hm1.
            destruct G1 as [_ [_ [_ [_ [Hw|Hw]]]]]; [contradiction|]. lia. }
        destruct (lf_lt_mlf c t1) eqn:Hlf.
        { rewrite (H2 Hm eq_refl) in E. injection E as <- <-. right. split; [exact Ev1|]. split; [exact Hk|].
          split.
          - right. left. split; [reflexivity|]. split; [reflexivity|].
            destruct L1 as [H _]. rewrite <- H. apply (lf_true_mlfn c t1 Hlf).
          - intros _. split; [intro H; discriminate|]. intros _. exact Hlf. }
        destruct (H3 Hm eq_refl) as [Efd Hg]. rewrite Efd in E.
        assert (Hb1 : bhp (cur t1) < 60) by (destruct G1 as [_ [_ [H _]]]; exact H).
        destruct (N.lt_ge_cases (bhp (cur t) + 1) 60) as [L|L].
        2:{ left. exists t1. split; [exact Ev1|]. split; [lia|]. rewrite <- Hm1. unfold maxed in Hm.
            destruct (N.eq_dec (mhp t1) NO_MAXIMUM_HASHPOWER) as [E'|E'].
            { rewrite E'. unfold NO_MAXIMUM_HASHPOWER. lia. }
            destruct (N.lt_ge_cases (mhp t1) (bhp (cur t) + 1)) as [L'|L']; [|lia].
            exfalso. apply Hm. split; assumption. }
        destruct (Hg L) as [G2 [Hhp2 [Hh2 [L2 _]]]].
        set (t2 := fast_double_body c hash false t1 (bhp (cur t) + 1)) in *.
        assert (Ev2 : levolves t1 t2).
        { split; [exact G2|]. split; [exact Hh2|]. split; [exact L2|]. lia. }
        destruct (snapshot_lgood t2 k G2) as [Esnap [Ev3 [Hbc3 [Hsd3 _]]]].
        cbv zeta in Esnap, Ev3, Hbc3, Hsd3. rewrite Esnap in E.
        set (t3 := lock_two c hash false t2 (i1_of hash (bhp (cur t2)) k) (i2_of hash (bhp (cur t2)) k)) in *.
        assert (Ev03 : levolves t t3).
        { eapply levolves_trans; [exact Ev1|]. eapply levolves_trans; eassumption. }
        assert (Hk3 : forall v, ~ lholds t3 k v).
        { intros v Hv. apply (Hk v). apply Ev03. exact Hv. }
        rewrite <- Hbc3 in E.
        apply (lil_post_levolves t t3 k t' res Ev03 Hk).
        apply (IH t3 k (levolves_lgood _ _ Ev3) Hsd3 Hk3 t' res E).
Qed.

(* the insert loop, from ANY well-formed table on which the key's two stripes are migrated *)
Theorem cuckoo_insert_loop_lgood fuel t k :
  nothrow c = true -> lgood t -> stripes_done t k ->
  forall t' res,
  cuckoo_insert_loop c hash (cuckoo_fast_double c hash) false t k
    (i1_of hash (bhp (cur t)) k) (i2_of hash (bhp (cur t)) k) (S fuel) = (t', res) ->
  lil_post t k t' res.
Proof.
  intros Hnt G Hsd t' res E.
  destruct (lholds_dec t k (lgood_wf t G)) as [Hk|Hk].
  - destruct (l_insert_loop_present _ t k fuel G Hsd Hk t' res E) as [pos [-> [Ev [Hhp [Hsd' [Hs He]]]]]].
    right. split; [exact Ev|]. rewrite Hhp. split; [reflexivity|]. split; [reflexivity|].
    split; [exact Hsd'|].
    left. split; [exact Hs|]. split; [exact Hk|]. split; [reflexivity|]. exact He.
  - apply (l_insert_loop_absent Hnt (S fuel) t k G Hsd Hk t' res E).
Qed.

(* ================================================================== 5. the insert family *)

(* uprase_gen = lock the key's two stripes, run the insert loop, finish at the position *)
Lemma uprase_gen_tail t k v g :
  wf t ->
  let hp := bhp (cur t) in
  let t1 := lock_two c hash false t (i1_of hash hp k) (i2_of hash hp k) in
  uprase_gen c hash false t k v g =
  match cuckoo_insert_loop c hash (cuckoo_fast_double c hash) false t1 k
          (i1_of hash hp k) (i2_of hash hp k) insert_loop_fuel with
  | (t2, IL_exn e) => (t2, inl e)
  | (t2, IL_pos pos _ _) =>
    match pstatus pos with
    | St_ok => finish c (add_to_bucket c t2 (pindex pos) (pslot pos) (partial_key (hash k)) k v)
                      (pindex pos) (pslot pos) true g
    | _ => finish c t2 (pindex pos) (pslot pos) false g
    end
  end.
Proof.
  intros W hp t1. unfold uprase_gen.
  destruct (snapshot_wf c hash Hc t k W) as [Esnap _]. cbv zeta in Esnap. rewrite Esnap.
  fold hp. fold t1.
  destruct (cuckoo_insert_loop c hash (cuckoo_fast_double c hash) false t1 k (i1_of hash hp k)
              (i2_of hash hp k) insert_loop_fuel) as [t2 [pos j1 j2|e]]; [|reflexivity].
  destruct (pstatus pos); reflexivity.
Qed.

(* every member of the insert family (insert, insert_or_assign, upsert, uprase_fn) is uprase_gen
   with some functor g; from ANY well-formed table:
   - present key: no exception, result (false, log_of g v0 false, pos), the value argument v is not
     stored, the functor sees the stored value, contents updated per final_of, hashpower unchanged;
   - absent key: an exception with the contents unchanged, or (true, log_of g v true, pos) with
     k |-> v then final_of; [lesc]: the run doubled a table of 2^59 buckets. *)
Theorem uprase_gen_lgood t k v g :
  nothrow c = true -> lgood t ->
  forall t' r, uprase_gen c hash false t k v g = (t', r) ->
  (forall v0, lholds t k v0 ->
     exists b s, r = inr (false, log_of g v0 false, (b, s)) /\
       lgood t' /\ lim_same t t' /\ bhp (cur t') = bhp (cur t) /\
       lupd t t' k (final_of g v0 false) /\
       (forall vf, final_of g v0 false = Some vf ->
          exists e, bget (cur t') b s = Some e /\ ekey e = k /\ eval e = vf)) /\
  ((forall v0, ~ lholds t k v0) ->
     lesc t \/
     (exists e, r = inl e /\ exn_ok true t t' e /\ levolves t t') \/
     (exists b s, r = inr (true, log_of g v true, (b, s)) /\
        lgood t' /\ lim_same t t' /\ bhp (cur t) <= bhp (cur t') /\
        lupd t t' k (final_of g v true) /\
        (forall vf, final_of g v true = Some vf ->
           exists e, bget (cur t') b s = Some e /\ ekey e = k /\ eval e = vf))).
Proof.
  intros Hnt G t' r E. assert (W := lgood_wf t G).
  rewrite (uprase_gen_tail t k v g W) in E. cbv zeta in E.
  destruct (snapshot_lgood t k G) as [_ [Ev1 [Hbc [Hsd1 S1]]]]. cbv zeta in Ev1, Hbc, Hsd1, S1.
  set (hp := bhp (cur t)) in *.
  set (t1 := lock_two c hash false t (i1_of hash hp k) (i2_of hash hp k)) in *.
  assert (G1 := levolves_lgood _ _ Ev1). assert (L1 := levolves_lim _ _ Ev1).
  assert (Hh1 : forall k' v', lholds t1 k' v' <-> lholds t k' v') by apply S1.
  rewrite insert_loop_fuel_S in E. rewrite <- Hbc in E.
  destruct (cuckoo_insert_loop c hash (cuckoo_fast_double c hash) false t1 k
              (i1_of hash (bhp (cur t1)) k) (i2_of hash (bhp (cur t1)) k) 70) as [t2 res] eqn:El.
  split.
  - intros v0 Hv0.
    assert (Hk1 : exists v, lholds t1 k v) by (exists v0; apply Hh1; exact Hv0).
    destruct (l_insert_loop_present _ t1 k 69 G1 Hsd1 Hk1 t2 res El)
      as [pos [-> [Ev2 [Hhp2 [_ [Hs [e [He Hek]]]]]]]].
    rewrite Hs in E.
    destruct (finish_lgood t2 (pindex pos) (pslot pos) e false g (levolves_lgood _ _ Ev2) He)
      as [t5 [Ef [G5 [L5 [Hhp5 [Hu Hp]]]]]].
    rewrite Ef in E. injection E as <- <-. rewrite Hek in Hu, Hp.
    destruct Ev2 as [G2 [Hh2 [L2 _]]].
    assert (Hve : eval e = v0).
    { apply (lholds_fun t k _ _ W); [|exact Hv0]. apply Hh1. apply Hh2. left.
      exists (pindex pos), (pslot pos), e. split; [exact He|]. split; [exact Hek|reflexivity]. }
    rewrite Hve in Hu, Hp. exists (pindex pos), (pslot pos).
    split; [rewrite Hve; reflexivity|]. split; [exact G5|].
    split; [exact (lim_same_trans _ _ _ L1 (lim_same_trans _ _ _ L2 L5))|].
    split; [congruence|]. split; [|exact Hp].
    apply (lupd_pre t t2); [|exact Hu]. intros k' v'. rewrite (Hh2 k' v'). apply Hh1.
  - intro Hk.
    assert (Hk1 : forall v0, ~ lholds t1 k v0) by (intros v0 H; apply (Hk v0); apply Hh1; exact H).
    assert (Hil := l_insert_loop_absent Hnt 70 t1 k G1 Hsd1 Hk1 t2 res El).
    destruct Hil as [He|[Ev2 Hil]]; [left; eapply lesc_levolves; eassumption|right].
    assert (Ev02 : levolves t t2) by (eapply levolves_trans; eassumption).
    destruct res as [pos j1 j2|e].
    2:{ injection E as <- <-. left. exists e. split; [reflexivity|]. destruct Hil as [_ He].
        split; [eapply exn_ok_lim; eassumption|exact Ev02]. }
    right.
    destruct Hil as [_ [_ [_ [[_ [[v1 Hin] _]]|[Hs [_ [Hg [Hcand [Hslot Hmg]]]]]]]]].
    { exfalso. exact (Hk1 v1 Hin). }
    rewrite Hs in E.
    assert (G2 := levolves_lgood _ _ Ev2).
    assert (Hk2 : forall v0, ~ lholds t2 k v0).
    { intros v0 H. apply (Hk v0). apply Ev02. exact H. }
    destruct (lgood_add t2 (pindex pos) (pslot pos) k v G2 Hg Hcand Hslot Hmg Hk2)
      as [G3 [L3 [Hhp3 [He3 Hh3]]]]. cbv zeta in G3, L3, Hhp3, He3, Hh3.
    set (t3 := add_to_bucket c t2 (pindex pos) (pslot pos) (partial_key (hash k)) k v) in *.
    destruct (finish_lgood t3 (pindex pos) (pslot pos) _ true g G3 He3)
      as [t5 [Ef [G5 [L5 [Hhp5 [Hu Hp]]]]]]. cbn [ekey eval] in Ef, Hu, Hp.
    rewrite Ef in E. injection E as <- <-.
    destruct Ev02 as [_ [Hh [L2 Hb2]]].
    exists (pindex pos), (pslot pos). split; [reflexivity|]. split; [exact G5|].
    split; [exact (lim_same_trans _ _ _ L2 (lim_same_trans _ _ _ L3 L5))|].
    split; [lia|]. split; [|exact Hp].
    intros k' v'. rewrite (Hu k' v'), (Hh3 k' v'), (Hh k' v'). split.
    + intros [[Hne [[E1 _]|[_ H]]]|H]; [contradiction|left; split; assumption|right; exact H].
    + intros [[Hne H]|H]; [left; split; [exact Hne|right; split; assumption]|right; exact H].
Qed.

(* ================================================================== 6. whole-table operations *)

(* ---- 6a. lock_table: rww_lgood above; as an evolution step ---- *)

Lemma rww_levolves t : lgood t -> levolves t (rww t) /\ bhp (cur (rww t)) = bhp (cur t).
Proof.
  intro G. destruct (rww_lgood t G) as [G1 [Hh [Hhp [L _]]]]. split; [|exact Hhp].
  split; [apply good_lgood; exact G1|]. split; [|split; [exact L|rewrite Hhp; lia]].
  intros k v. rewrite (good_lholds _ k v G1). apply Hh.
Qed.

(* ---- 6b. clear ---- *)

Theorem cuckoo_clear_lgood t :
  lgood t ->
  good (cuckoo_clear t) /\ (forall k v, ~ lholds (cuckoo_clear t) k v) /\
  lim_same t (cuckoo_clear t) /\ bhp (cur (cuckoo_clear t)) = bhp (cur t) /\
  tsize (cuckoo_clear t) = 0 /\ bdead (old (cuckoo_clear t)) = true /\ nrem (cuckoo_clear t) = 0.
Proof.
  intros [W [Ct [Hb [Hl Hw]]]].
  assert (Hn := wf_locks _ _ _ _ W). assert (Ha := li_arr _ _ _ _ _ (wf_inv _ _ _ _ W)).
  assert (Hg : forall b s, bget (cur (cuckoo_clear t)) b s = None).
  { intros b s. rewrite cuckoo_clear_cur. apply bget_bclear. }
  assert (Hhp : bhp (cur (cuckoo_clear t)) = bhp (cur t)) by (rewrite cuckoo_clear_cur; reflexivity).
  assert (Hcl := cuckoo_clear_cur_locks t Hn).
  assert (G' : good (cuckoo_clear t)).
  { split; [|split; [apply counted_cuckoo_clear; exact Hn|split; [lia|split]]].
    - constructor.
      + constructor.
        * rewrite Hhp. apply (ao_hp _ _ _ Ha).
        * intros b s e H. rewrite Hg in H. discriminate.
        * intros b s e H. rewrite Hg in H. discriminate.
        * intros b s e H. rewrite Hg in H. discriminate.
        * intros b s e H. rewrite Hg in H. discriminate.
        * intros b s e b' s' e' H. rewrite Hg in H. discriminate.
      + rewrite cuckoo_clear_cur. apply (li_alive _ _ _ _ _ (wf_inv _ _ _ _ W)).
      + intros l Hin. rewrite Hcl in Hin. apply in_map_iff in Hin. destruct Hin as [x [<- _]]. reflexivity.
      + apply cuckoo_clear_locks_nonnil. exact Hn.
      + intros b Hlt. rewrite Hcl, map_length. apply (wf_cover _ _ _ _ W). rewrite <- Hhp. exact Hlt.
    - rewrite Hcl, map_length. exact Hl.
    - apply (within_same t _); [reflexivity|exact Hhp|exact Hw]. }
  destruct (cuckoo_clear_frees t) as [F1 [F2 _]].
  split; [exact G'|]. split; [|split; [repeat split|split; [exact Hhp|split; [apply cuckoo_clear_tsize|split; assumption]]]].
  intros k v H. apply (good_lholds _ k v G') in H. destruct H as [b [s [e [H _]]]].
  rewrite Hg in H. discriminate.
Qed.

(* ---- 6c. the rebuild (cuckoo_expand_simple): finish the pending migration, then exactly the
        settled case of Refine ---- *)

Definition les_post (auto : bool) (t : table) (new_hp : N) (r : rres) : Prop :=
  match snd r with
  | inr St_ok =>
      good (fst r) /\ (forall k v, holds (cur (fst r)) k v <-> lholds t k v) /\
      lim_same t (fst r) /\ new_hp <= bhp (cur (fst r)) /\ rc (fst r) = wrap64 (rc t + 1) /\
      ~ maxed t new_hp /\ (auto = true -> lf_lt_mlf c t = false)
  | inr _ => False
  | inl e =>
      exn_ok0 auto t e /\
      (destructive c = false -> levolves t (fst r) /\ bhp (cur (fst r)) = bhp (cur t))
  end.

Lemma es_body_via_rww fd auto t new_hp :
  lgood t -> new_hp <= 58 -> ~ maxed t new_hp -> (auto = true -> lf_lt_mlf c t = false) ->
  es_body c hash fd auto t new_hp = es_body c hash fd auto (rww t) new_hp.
Proof.
  intros G H58 Hm Hlf.
  destruct (rww_lgood t G) as [G1 [_ [Hhp [L [_ [_ [_ [_ Hlfe]]]]]]]].
  assert (Hok : forall u, ~ maxed u new_hp -> (auto = true -> lf_lt_mlf c u = false) ->
            check_resize_validity c auto u (hashpower u) new_hp = inr St_ok).
  { intros u Hmu Hlu. apply crv_ok_intro; [|exact Hlu]. unfold maxed in Hmu.
    destruct (N.eq_dec (mhp u) NO_MAXIMUM_HASHPOWER) as [E|E]; [left; exact E|right].
    destruct (N.le_gt_cases new_hp (mhp u)) as [Lq|Lq]; [exact Lq|]. exfalso. apply Hmu. split; assumption. }
  unfold es_body. cbv zeta.
  rewrite (Hok t Hm Hlf).
  rewrite (Hok (rww t)); [|rewrite (maxed_eq t _ _ L); exact Hm|rewrite Hlfe; exact Hlf].
  replace (58 <? new_hp) with false by (symmetry; apply N.ltb_ge; exact H58).
  rewrite (rww_idem true t (lgood_wf t G)). rewrite !hashpower_eq, Hhp. reflexivity.
Qed.

Theorem cuckoo_expand_simple_lgood auto t new_hp :
  lgood t -> limC (mhp t) ->
  let r := cuckoo_expand_simple c hash auto false t new_hp in
  (maxed t new_hp -> r = (t, inl EMaxHashpower)) /\
  (~ maxed t new_hp -> auto = true -> lf_lt_mlf c t = true -> r = (t, inl ELoadFactorTooLow)) /\
  (~ maxed t new_hp -> (auto = true -> lf_lt_mlf c t = false) ->
     r = cuckoo_expand_simple c hash auto false (rww t) new_hp) /\
  les_post auto t new_hp r.
Proof.
  intros G Hl r. subst r. unfold cuckoo_expand_simple, resize_fuel. rewrite !expand_simple_f_S.
  set (fd := fast_double_f c hash 5 true).
  assert (Hcap : forall n, ~ maxed t n -> n <= 58).
  { intros n Hm. destruct Hl as [_ H58]. destruct (N.le_gt_cases n 58) as [L|L]; [exact L|].
    exfalso. apply Hm. split; [unfold NO_MAXIMUM_HASHPOWER; lia|lia]. }
  split; [intro Hm; apply es_body_maxed; exact Hm|].
  split; [intros Hm -> Hlf; apply es_body_lf; assumption|].
  split; [intros Hm Hlf; apply es_body_via_rww; [exact G|apply Hcap; exact Hm|exact Hm|exact Hlf]|].
  destruct (crv_self c hash auto t new_hp) as [[Hm _]|[[Hm [Ha [Hlf _]]]|[Hm [Hlf _]]]].
  - rewrite (es_body_maxed c hash fd auto t new_hp Hm). unfold les_post. cbn [fst snd].
    split; [left; split; [reflexivity|destruct Hm as [Hm _]; exact Hm]|].
    intros _. split; [apply levolves_refl; exact G|reflexivity].
  - subst auto. rewrite (es_body_lf c hash fd t new_hp Hm Hlf). unfold les_post. cbn [fst snd].
    split; [right; left; split; [reflexivity|split; [reflexivity|apply (lf_true_mlfn c t Hlf)]]|].
    intros _. split; [apply levolves_refl; exact G|reflexivity].
  - rewrite (es_body_via_rww fd auto t new_hp G (Hcap _ Hm) Hm Hlf).
    destruct (rww_lgood t G) as [G1 [Hh1 [Hhp1 [L1 [Hrc1 [_ [_ [_ Hlfe]]]]]]]].
    destruct (rww_levolves t G) as [Ev1 _].
    assert (Hl1 : limC (mhp (rww t))).
    { destruct L1 as [_ [_ [E _]]]. rewrite E. exact Hl. }
    destruct (cuckoo_expand_simple_good c hash Hc auto false (rww t) new_hp G1 Hl1) as [_ [_ Hp]].
    cbv zeta in Hp. unfold cuckoo_expand_simple, resize_fuel in Hp. rewrite expand_simple_f_S in Hp.
    fold fd in Hp. unfold es_post in Hp. unfold les_post.
    destruct (es_body c hash fd auto (rww t) new_hp) as [t' [e|st]]; cbn [fst snd] in *.
    + destruct Hp as [He Hd]. split.
      * apply (exn_ok0_lim auto t (rww t) e L1 He).
      * intro Hdd. destruct (Hd Hdd) as [Ev Hb]. split; [|congruence].
        eapply levolves_trans; [exact Ev1|]. apply evolves_levolves; [exact Ev|].
        destruct G1 as [St1 _]. apply (se_mig _ _ _ St1).
    + destruct st; try contradiction.
      destruct Hp as [G' [Hh [L [Hb [Hrc [Hm' Hlf']]]]]].
      split; [exact G'|]. split; [intros k v; rewrite (Hh k v); apply Hh1|].
      split; [exact (lim_same_trans _ _ _ L1 L)|]. split; [exact Hb|].
      split; [rewrite Hrc, Hrc1; reflexivity|]. split; [exact Hm|exact Hlf].
Qed.

(* ---- 6d. rehash and reserve ---- *)

Theorem cuckoo_rehash_lgood t n :
  lgood t -> limC (mhp t) ->
  forall t' r, cuckoo_rehash c hash false t n = (t', r) ->
  (r = inr false <-> n = bhp (cur t)) /\
  (r = inr false -> t' = t) /\
  (r = inr true ->
     good t' /\ (forall k v, holds (cur t') k v <-> lholds t k v) /\ lim_same t t' /\
     n <= bhp (cur t') /\ rc t' = wrap64 (rc t + 1) /\ ~ maxed t n) /\
  (forall e, r = inl e ->
     n <> bhp (cur t) /\ exn_ok0 false t e /\ e <> ELoadFactorTooLow /\
     (maxed t n -> t' = t /\ e = EMaxHashpower) /\
     (destructive c = false -> levolves t t' /\ bhp (cur t') = bhp (cur t))).
Proof.
  intros G Hl t' r E. unfold cuckoo_rehash in E. rewrite hashpower_eq in E.
  destruct (N.eqb_spec n (bhp (cur t))) as [Heq|Hne].
  - injection E as <- <-. split; [split; [intros _; exact Heq|reflexivity]|].
    split; [reflexivity|]. split; [intro H; discriminate|]. intros e H. discriminate.
  - destruct (cuckoo_expand_simple_lgood false t n G Hl) as [Hmx [_ [_ Hp]]]. cbv zeta in Hmx, Hp.
    unfold les_post in Hp.
    destruct (cuckoo_expand_simple c hash false false t n) as [t1 [e|st]] eqn:Ees; cbn [fst snd] in Hp.
    + injection E as <- <-. split; [split; [intro H; discriminate|intro H; contradiction]|].
      split; [intro H; discriminate|]. split; [intro H; discriminate|].
      intros e' H. injection H as <-. destruct Hp as [He Hd]. split; [exact Hne|]. split; [exact He|].
      split.
      * intro H. subst e. destruct He as [[H _]|[[_ [H _]]|H]]; discriminate.
      * split; [|exact Hd]. intro Hm. specialize (Hmx Hm). injection Hmx as <- <-. split; reflexivity.
    + destruct st; try contradiction. injection E as <- <-.
      split; [split; [intro H; discriminate|intro H; contradiction]|].
      split; [intro H; discriminate|]. split; [|intros e H; discriminate].
      intros _. destruct Hp as [G' [Hh [L [Hb [Hrc [Hm _]]]]]].
      split; [exact G'|]. split; [exact Hh|]. split; [exact L|]. split; [exact Hb|]. split; assumption.
Qed.

Theorem cuckoo_reserve_lgood t n :
  lgood t -> limC (mhp t) ->
  forall t' r, cuckoo_reserve c hash false t n = (t', r) ->
  let new_hp := reserve_calc c n in
  (r = inr false <-> new_hp = bhp (cur t)) /\
  (r = inr false -> t' = t) /\
  (r = inr true ->
     good t' /\ (forall k v, holds (cur t') k v <-> lholds t k v) /\ lim_same t t' /\
     new_hp <= bhp (cur t') /\ rc t' = wrap64 (rc t + 1) /\ ~ maxed t new_hp /\
     (n + spb c < 2 ^ 64 -> n <= 2 ^ bhp (cur t') * spb c)) /\
  (forall e, r = inl e ->
     new_hp <> bhp (cur t) /\ exn_ok0 false t e /\ e <> ELoadFactorTooLow /\
     (maxed t new_hp -> t' = t /\ e = EMaxHashpower) /\
     (destructive c = false -> levolves t t' /\ bhp (cur t') = bhp (cur t))).
Proof.
  intros G Hl t' r E new_hp. rewrite cuckoo_reserve_eq in E. fold new_hp in E.
  destruct (cuckoo_rehash_lgood t new_hp G Hl t' r E) as [H1 [H2 [H3 H4]]].
  split; [exact H1|]. split; [exact H2|]. split; [|exact H4].
  intro Hr. destruct (H3 Hr) as [G' [Hh [L [Hb [Hrc Hm]]]]].
  split; [exact G'|]. split; [exact Hh|]. split; [exact L|]. split; [exact Hb|]. split; [exact Hrc|].
  split; [exact Hm|]. intro Hn.
  destruct (reserve_calc_fits c n (co_spb _ Hc) Hn) as [Hfit _]. fold new_hp in Hfit.
  assert (Hp := pow2_le_mono _ _ Hb).
  eapply N.le_trans; [exact Hfit|]. apply N.mul_le_mono_r. exact Hp.
Qed.

(* ================================================================== 7. the normal-mode operations refine a map *)

(* the abstract map: a partial function; [rep t m]: m is the abstraction of t *)
Definition amap := N -> option Z.
Definition rep (t : table) (m : amap) : Prop := forall k v, lholds t k v <-> m k = Some v.
Definition mset (m : amap) (k : N) (o : option Z) : amap := fun k' => if k' =? k then o else m k'.
Definition meq (m m' : amap) : Prop := forall k, m k = m' k.
Definition mempty : amap := fun _ => None.
Definition is_some {A} (o : option A) : bool := match o with Some _ => true | None => false end.

Lemma rep_lupd t t' k o m : rep t m -> lupd t t' k o -> rep t' (mset m k o).
Proof.
  intros R U k' v'. rewrite (U k' v'). unfold mset. destruct (N.eqb_spec k' k) as [E|E].
  - split; [intros [[H _]|[_ H]]; [contradiction|exact H]|intro H; right; split; assumption].
  - rewrite (R k' v'). split; [intros [[_ H]|[H _]]; [exact H|contradiction]|intro H; left; split; assumption].
Qed.

Lemma rep_same t t' m : rep t m -> (forall k v, lholds t' k v <-> lholds t k v) -> rep t' m.
Proof. intros R H k v. rewrite (H k v). apply R. Qed.

Lemma rep_meq t m m' : rep t m -> meq m m' -> rep t m'.
Proof. intros R H k v. rewrite <- (H k). apply R. Qed.

Lemma rep_none t m k : rep t m -> (m k = None <-> forall v, ~ lholds t k v).
Proof.
  intro R. split.
  - intros E v H. apply R in H. congruence.
  - intro H. destruct (m k) as [v|] eqn:E; [|reflexivity]. exfalso. apply (H v). apply R. exact E.
Qed.

Lemma mset_same m k : meq (mset m k (m k)) m.
Proof. intro k'. unfold mset. destruct (N.eqb_spec k' k) as [->|_]; reflexivity. Qed.

(* the map after find_fn / update_fn / erase_fn with functor g *)
Definition lk_new (g : Z -> Z * bool) (m : amap) (k : N) : amap :=
  match m k with
  | Some v0 => mset m k (if snd (g v0) then None else Some (fst (g v0)))
  | None => m
  end.

Lemma lookup_fn_rep t k g m t' r :
  lgood t -> rep t m -> lookup_fn c hash false t k g = (t', r) ->
  lgood t' /\ lim_same t t' /\ bhp (cur t') = bhp (cur t) /\ r = m k /\ rep t' (lk_new g m k).
Proof.
  intros G R E. destruct (lookup_fn_lgood t k g G t' r E) as [G' [L [Hhp Hcase]]].
  split; [exact G'|]. split; [exact L|]. split; [exact Hhp|]. unfold lk_new.
  destruct Hcase as [[Hno [-> Ev]]|[v0 [Hv0 [-> U]]]].
  - apply (rep_none t m k R) in Hno. rewrite Hno. split; [reflexivity|].
    apply (rep_same t t' m R). apply Ev.
  - apply R in Hv0. rewrite Hv0. split; [reflexivity|]. apply (rep_lupd t t' k _ m R U).
Qed.

Lemma uprase_gen_rep t k v g m t' r :
  nothrow c = true -> lgood t -> rep t m -> uprase_gen c hash false t k v g = (t', r) ->
  lesc t \/
  (lgood t' /\ lim_same t t' /\
   match r with
   | inl e => m k = None /\ exn_ok true t t' e /\ rep t' m
   | inr (ins, lg, _) =>
       match m k with
       | Some v0 => ins = false /\ lg = log_of g v0 false /\ bhp (cur t') = bhp (cur t) /\
                    rep t' (mset m k (final_of g v0 false))
       | None => ins = true /\ lg = log_of g v true /\ rep t' (mset m k (final_of g v true))
       end
   end).
Proof.
  intros Hnt G R E. destruct (uprase_gen_lgood t k v g Hnt G t' r E) as [Hin Hout].
  destruct (m k) as [v0|] eqn:Emk.
  - right. destruct (Hin v0 (proj2 (R k v0) Emk)) as [b [s [-> [G' [L [Hhp [U _]]]]]]].
    split; [exact G'|]. split; [exact L|]. split; [reflexivity|]. split; [reflexivity|].
    split; [exact Hhp|]. apply (rep_lupd t t' k _ m R U).
  - destruct (Hout (proj1 (rep_none t m k R) Emk)) as [He|[[e [-> [He Ev]]]|[b [s [-> [G' [L [_ [U _]]]]]]]]].
    + left. exact He.
    + right. split; [apply (levolves_lgood _ _ Ev)|]. split; [apply (levolves_lim _ _ Ev)|].
      split; [reflexivity|]. split; [exact He|]. apply (rep_same t t' m R). apply Ev.
    + right. split; [exact G'|]. split; [exact L|]. split; [reflexivity|]. split; [reflexivity|].
      apply (rep_lupd t t' k _ m R U).
Qed.

Section Ops.
Variable fapply : fnk -> Z -> bool -> Z * bool.   (* arbitrary functor semantics *)

(* what a member of the insert family may do: [full] = the functor log is printed *)
Definition ins_spec (t : table) (g : Z -> bool -> option (Z * bool)) (k : N) (v : Z) (full : bool)
  (m : amap) (r : out) (m' : amap) : Prop :=
  match m k with
  | Some v0 =>
      meq m' (mset m k (final_of g v0 false)) /\
      r = RBool false :: (if full then log_of g v0 false else [])
  | None =>
      (exists e, r = [RExn e] /\ meq m' m /\ exn_ok0 true t e) \/
      (meq m' (mset m k (final_of g v true)) /\
       r = RBool true :: (if full then log_of g v true else []))
  end.

Definition resize_spec (t : table) (target : N) (m : amap) (r : out) (m' : amap) : Prop :=
  meq m' m /\
  ((exists b, r = [RBool b] /\ (b = false <-> target = bhp (cur t))) \/
   (exists e, r = [RExn e] /\ target <> bhp (cur t) /\ exn_ok0 false t e /\ e <> ELoadFactorTooLow)).

(* the map specification of the normal-mode operations: printed result r and new map m' *)
Definition op_spec (t : table) (m : amap) (o : op) (r : out) (m' : amap) : Prop :=
  match o with
  | OFind k => meq m' m /\ r = match m k with Some v => [RBool true; RInt v] | None => [RBool false] end
  | OFindThrow k => meq m' m /\ r = match m k with Some v => [RInt v] | None => [RExn EOutOfRange] end
  | OContains k => meq m' m /\ r = [RBool (is_some (m k))]
  | OFindFn k => meq m' m /\ r = match m k with Some v => [RBool true; RFn v false] | None => [RBool false] end
  | OUpdate k v => meq m' (lk_new (fun _ => (v, false)) m k) /\ r = [RBool (is_some (m k))]
  | OUpdateFn k f =>
      meq m' (lk_new (fun v => (fst (fapply f v false), false)) m k) /\
      r = match m k with Some v => [RBool true; RFn v false] | None => [RBool false] end
  | OErase k => meq m' (lk_new (fun v => (v, true)) m k) /\ r = [RBool (is_some (m k))]
  | OEraseFn k f =>
      meq m' (lk_new (fun v => fapply f v false) m k) /\
      r = match m k with Some v => [RBool true; RFn v false] | None => [RBool false] end
  | OInsert k v => ins_spec t (fun _ _ => None) k v false m r m'
  | OIoa k v => ins_spec t (fun _ newly => if newly then None else Some (v, false)) k v false m r m'
  | OUpsert k f two v => ins_spec t (invoke fapply f two false) k v true m r m'
  | OUprase k f two v => ins_spec t (invoke fapply f two true) k v true m r m'
  | OClear => meq m' mempty /\ r = [RNone]
  | ORehash n => resize_spec t n m r m'
  | OReserve n => resize_spec t (reserve_calc c n) m r m'
  | _ => False
  end.

Definition normal_op (o : op) : bool :=
  match o with
  | OFind _ | OFindThrow _ | OContains _ | OFindFn _ | OUpdate _ _ | OUpdateFn _ _
  | OErase _ | OEraseFn _ _ | OInsert _ _ | OIoa _ _ | OUpsert _ _ _ _ | OUprase _ _ _ _
  | OClear | ORehash _ | OReserve _ => true
  | _ => false
  end.

(* side conditions of the explicit-resize operations (those of Refine's rebuild theorem) *)
Definition op_pre (t : table) (o : op) : Prop :=
  match o with
  | ORehash _ | OReserve _ => limC (mhp t) /\ destructive c = false
  | _ => True
  end.

Lemma lk_new_id m k (g : Z -> Z * bool) :
  (forall v, g v = (v, false)) -> meq (lk_new g m k) m.
Proof.
  intro Hg. unfold lk_new. destruct (m k) as [v0|] eqn:E; [|intro; reflexivity].
  rewrite Hg. cbn [fst snd]. rewrite <- E. apply mset_same.
Qed.

Lemma step_lookup t k g (f : table -> option Z -> world * out) (w' : world) (r : out) m :
  lgood t -> rep t m ->
  (let '(t1, x) := lookup_fn c hash false t k g in f t1 x) = (w', r) ->
  exists t', f t' (m k) = (w', r) /\ lgood t' /\ lim_same t t' /\ rep t' (lk_new g m k).
Proof.
  intros G R E. destruct (lookup_fn c hash false t k g) as [t1 x] eqn:El.
  destruct (lookup_fn_rep t k g m t1 x G R El) as [G' [L [_ [-> R']]]].
  exists t1. split; [exact E|]. split; [exact G'|]. split; assumption.
Qed.

Lemma ins_spec_intro t k v g full m t' r :
  nothrow c = true -> lgood t -> rep t m -> uprase_gen c hash false t k v g = (t', r) ->
  lesc t \/
  (lgood t' /\ lim_same t t' /\
   exists m', rep t' m' /\
     ins_spec t g k v full m
       (match r with
        | inl e => exn_out e
        | inr (ins, lg, _) => RBool ins :: (if full then lg else [])
        end) m').
Proof.
  intros Hnt G R E. destruct (uprase_gen_rep t k v g m t' r Hnt G R E) as [He|[G' [L H]]]; [left; exact He|right].
  split; [exact G'|]. split; [exact L|]. unfold ins_spec.
  destruct r as [e|[[ins lg] p]].
  - destruct H as [Emk [He R']]. rewrite Emk. exists m. split; [exact R'|]. left. exists e.
    split; [reflexivity|]. split; [intro; reflexivity|apply He].
  - destruct (m k) as [v0|].
    + destruct H as [-> [-> [_ R']]]. eexists. split; [exact R'|]. split; [intro; reflexivity|reflexivity].
    + destruct H as [-> [-> R']]. eexists. split; [exact R'|]. right. split; [intro; reflexivity|reflexivity].
Qed.

(* one lemma per operation, then the packaged statement.
   [if_negb_false] is used as a REWRITE on purpose: asked to convert [if negb false then X else Y]
   with X where X is headed by uprase_gen, the kernel unfolds the 70-step insert loop first and
   Qed does not terminate in practice. *)
Lemma if_negb_false {A} (X Y : A) : (if negb false then X else Y) = X.
Proof. reflexivity. Qed.

Lemma refines_OFind w a s k w' r m :
  nothrow c = true -> active s = false ->
  lgood (tb s) -> rep (tb s) m -> op_pre (tb s) (OFind k) ->
  step_some c hash fapply w a s (OFind k) = (w', r) ->
  lesc (tb s) \/
  exists t' m', w' = put_t w a s t' /\ lgood t' /\ lim_same (tb s) t' /\ rep t' m' /\
                op_spec (tb s) m (OFind k) r m'.
Proof.
  intros Hnt Hact G R Hpre E.
  cbv beta iota zeta delta [step_some] in E; rewrite Hact in E; rewrite if_negb_false in E.
    right. destruct (step_lookup (tb s) k _ _ w' r m G R E) as [t' [E' [G' [L R']]]].
    injection E' as <- <-. exists t', (lk_new (fun v => (v, false)) m k).
    split; [reflexivity|]. split; [exact G'|]. split; [exact L|]. split; [exact R'|].
    cbn [op_spec]. split; [apply lk_new_id; reflexivity|reflexivity].
Qed.

Lemma refines_OFindThrow w a s k w' r m :
  nothrow c = true -> active s = false ->
  lgood (tb s) -> rep (tb s) m -> op_pre (tb s) (OFindThrow k) ->
  step_some c hash fapply w a s (OFindThrow k) = (w', r) ->
  lesc (tb s) \/
  exists t' m', w' = put_t w a s t' /\ lgood t' /\ lim_same (tb s) t' /\ rep t' m' /\
                op_spec (tb s) m (OFindThrow k) r m'.
Proof.
  intros Hnt Hact G R Hpre E.
  cbv beta iota zeta delta [step_some] in E; rewrite Hact in E; rewrite if_negb_false in E.
    right. destruct (step_lookup (tb s) k _ _ w' r m G R E) as [t' [E' [G' [L R']]]].
    injection E' as <- <-. exists t', (lk_new (fun v => (v, false)) m k).
    split; [reflexivity|]. split; [exact G'|]. split; [exact L|]. split; [exact R'|].
    cbn [op_spec]. split; [apply lk_new_id; reflexivity|reflexivity].
Qed.

Lemma refines_OContains w a s k w' r m :
  nothrow c = true -> active s = false ->
  lgood (tb s) -> rep (tb s) m -> op_pre (tb s) (OContains k) ->
  step_some c hash fapply w a s (OContains k) = (w', r) ->
  lesc (tb s) \/
  exists t' m', w' = put_t w a s t' /\ lgood t' /\ lim_same (tb s) t' /\ rep t' m' /\
                op_spec (tb s) m (OContains k) r m'.
Proof.
  intros Hnt Hact G R Hpre E.
  cbv beta iota zeta delta [step_some] in E; rewrite Hact in E; rewrite if_negb_false in E.
    right. destruct (step_lookup (tb s) k _ _ w' r m G R E) as [t' [E' [G' [L R']]]].
    injection E' as <- <-. exists t', (lk_new (fun v => (v, false)) m k).
    split; [reflexivity|]. split; [exact G'|]. split; [exact L|]. split; [exact R'|].
    cbn [op_spec]. split; [apply lk_new_id; reflexivity|reflexivity].
Qed.

Lemma refines_OFindFn w a s k w' r m :
  nothrow c = true -> active s = false ->
  lgood (tb s) -> rep (tb s) m -> op_pre (tb s) (OFindFn k) ->
  step_some c hash fapply w a s (OFindFn k) = (w', r) ->
  lesc (tb s) \/
  exists t' m', w' = put_t w a s t' /\ lgood t' /\ lim_same (tb s) t' /\ rep t' m' /\
                op_spec (tb s) m (OFindFn k) r m'.
Proof.
  intros Hnt Hact G R Hpre E.
  cbv beta iota zeta delta [step_some] in E; rewrite Hact in E; rewrite if_negb_false in E.
    right. destruct (step_lookup (tb s) k _ _ w' r m G R E) as [t' [E' [G' [L R']]]].
    injection E' as <- <-. exists t', (lk_new (fun v => (v, false)) m k).
    split; [reflexivity|]. split; [exact G'|]. split; [exact L|]. split; [exact R'|].
    cbn [op_spec]. split; [apply lk_new_id; reflexivity|reflexivity].
Qed.

Lemma refines_OUpdate w a s k v w' r m :
  nothrow c = true -> active s = false ->
  lgood (tb s) -> rep (tb s) m -> op_pre (tb s) (OUpdate k v) ->
  step_some c hash fapply w a s (OUpdate k v) = (w', r) ->
  lesc (tb s) \/
  exists t' m', w' = put_t w a s t' /\ lgood t' /\ lim_same (tb s) t' /\ rep t' m' /\
                op_spec (tb s) m (OUpdate k v) r m'.
Proof.
  intros Hnt Hact G R Hpre E.
  cbv beta iota zeta delta [step_some] in E; rewrite Hact in E; rewrite if_negb_false in E.
    right. destruct (step_lookup (tb s) k _ _ w' r m G R E) as [t' [E' [G' [L R']]]].
    injection E' as <- <-. eexists t', _.
    split; [reflexivity|]. split; [exact G'|]. split; [exact L|]. split; [exact R'|].
    cbn [op_spec]. split; [intro; reflexivity|]. destruct (m k); reflexivity.
Qed.

Lemma refines_OUpdateFn w a s k f w' r m :
  nothrow c = true -> active s = false ->
  lgood (tb s) -> rep (tb s) m -> op_pre (tb s) (OUpdateFn k f) ->
  step_some c hash fapply w a s (OUpdateFn k f) = (w', r) ->
  lesc (tb s) \/
  exists t' m', w' = put_t w a s t' /\ lgood t' /\ lim_same (tb s) t' /\ rep t' m' /\
                op_spec (tb s) m (OUpdateFn k f) r m'.
Proof.
  intros Hnt Hact G R Hpre E.
  cbv beta iota zeta delta [step_some] in E; rewrite Hact in E; rewrite if_negb_false in E.
    right. destruct (step_lookup (tb s) k _ _ w' r m G R E) as [t' [E' [G' [L R']]]].
    injection E' as <- <-. eexists t', _.
    split; [reflexivity|]. split; [exact G'|]. split; [exact L|]. split; [exact R'|].
    cbn [op_spec]. split; [intro; reflexivity|reflexivity].
Qed.

Lemma refines_OInsert w a s k v w' r m :
  nothrow c = true -> active s = false ->
  lgood (tb s) -> rep (tb s) m -> op_pre (tb s) (OInsert k v) ->
  step_some c hash fapply w a s (OInsert k v) = (w', r) ->
  lesc (tb s) \/
  exists t' m', w' = put_t w a s t' /\ lgood t' /\ lim_same (tb s) t' /\ rep t' m' /\
                op_spec (tb s) m (OInsert k v) r m'.
Proof.
  intros Hnt Hact G R Hpre E.
  cbv beta iota zeta delta [step_some] in E; rewrite Hact in E; rewrite if_negb_false in E.
    destruct (uprase_gen c hash false (tb s) k v (fun _ _ => None)) as [t1 x] eqn:Eu.
    destruct (ins_spec_intro (tb s) k v _ false m t1 x Hnt G R Eu) as [He|[G' [L [m' [R' Hs]]]]];
      [left; exact He|right].
    exists t1, m'. split.
    { destruct x as [e|[[ins lg] p]]; injection E as <- _; reflexivity. }
    split; [exact G'|]. split; [exact L|]. split; [exact R'|]. cbn [op_spec].
    destruct x as [e|[[ins lg] p]]; injection E as _ <-; exact Hs.
Qed.

Lemma refines_OIoa w a s k v w' r m :
  nothrow c = true -> active s = false ->
  lgood (tb s) -> rep (tb s) m -> op_pre (tb s) (OIoa k v) ->
  step_some c hash fapply w a s (OIoa k v) = (w', r) ->
  lesc (tb s) \/
  exists t' m', w' = put_t w a s t' /\ lgood t' /\ lim_same (tb s) t' /\ rep t' m' /\
                op_spec (tb s) m (OIoa k v) r m'.
Proof.
  intros Hnt Hact G R Hpre E.
  cbv beta iota zeta delta [step_some] in E; rewrite Hact in E; rewrite if_negb_false in E.
    destruct (uprase_gen c hash false (tb s) k v (fun _ newly => if newly then None else Some (v, false)))
      as [t1 x] eqn:Eu.
    destruct (ins_spec_intro (tb s) k v _ false m t1 x Hnt G R Eu) as [He|[G' [L [m' [R' Hs]]]]];
      [left; exact He|right].
    exists t1, m'. split.
    { destruct x as [e|[[ins lg] p]]; injection E as <- _; reflexivity. }
    split; [exact G'|]. split; [exact L|]. split; [exact R'|]. cbn [op_spec].
    destruct x as [e|[[ins lg] p]]; injection E as _ <-; exact Hs.
Qed.

Lemma refines_OUpsert w a s k f two v w' r m :
  nothrow c = true -> active s = false ->
  lgood (tb s) -> rep (tb s) m -> op_pre (tb s) (OUpsert k f two v) ->
  step_some c hash fapply w a s (OUpsert k f two v) = (w', r) ->
  lesc (tb s) \/
  exists t' m', w' = put_t w a s t' /\ lgood t' /\ lim_same (tb s) t' /\ rep t' m' /\
                op_spec (tb s) m (OUpsert k f two v) r m'.
Proof.
  intros Hnt Hact G R Hpre E.
  cbv beta iota zeta delta [step_some] in E; rewrite Hact in E; rewrite if_negb_false in E.
    destruct (uprase_gen c hash false (tb s) k v (invoke fapply f two false)) as [t1 x] eqn:Eu.
    destruct (ins_spec_intro (tb s) k v _ true m t1 x Hnt G R Eu) as [He|[G' [L [m' [R' Hs]]]]];
      [left; exact He|right].
    exists t1, m'. split.
    { destruct x as [e|[[ins lg] p]]; injection E as <- _; reflexivity. }
    split; [exact G'|]. split; [exact L|]. split; [exact R'|]. cbn [op_spec].
    destruct x as [e|[[ins lg] p]]; injection E as _ <-; exact Hs.
Qed.

Lemma refines_OUprase w a s k f two v w' r m :
  nothrow c = true -> active s = false ->
  lgood (tb s) -> rep (tb s) m -> op_pre (tb s) (OUprase k f two v) ->
  step_some c hash fapply w a s (OUprase k f two v) = (w', r) ->
  lesc (tb s) \/
  exists t' m', w' = put_t w a s t' /\ lgood t' /\ lim_same (tb s) t' /\ rep t' m' /\
                op_spec (tb s) m (OUprase k f two v) r m'.
Proof.
  intros Hnt Hact G R Hpre E.
  cbv beta iota zeta delta [step_some] in E; rewrite Hact in E; rewrite if_negb_false in E.
    destruct (uprase_gen c hash false (tb s) k v (invoke fapply f two true)) as [t1 x] eqn:Eu.
    destruct (ins_spec_intro (tb s) k v _ true m t1 x Hnt G R Eu) as [He|[G' [L [m' [R' Hs]]]]];
      [left; exact He|right].
    exists t1, m'. split.
    { destruct x as [e|[[ins lg] p]]; injection E as <- _; reflexivity. }
    split; [exact G'|]. split; [exact L|]. split; [exact R'|]. cbn [op_spec].
    destruct x as [e|[[ins lg] p]]; injection E as _ <-; exact Hs.
Qed.

Lemma refines_OErase w a s k w' r m :
  nothrow c = true -> active s = false ->
  lgood (tb s) -> rep (tb s) m -> op_pre (tb s) (OErase k) ->
  step_some c hash fapply w a s (OErase k) = (w', r) ->
  lesc (tb s) \/
  exists t' m', w' = put_t w a s t' /\ lgood t' /\ lim_same (tb s) t' /\ rep t' m' /\
                op_spec (tb s) m (OErase k) r m'.
Proof.
  intros Hnt Hact G R Hpre E.
  cbv beta iota zeta delta [step_some] in E; rewrite Hact in E; rewrite if_negb_false in E.
    right. destruct (step_lookup (tb s) k _ _ w' r m G R E) as [t' [E' [G' [L R']]]].
    injection E' as <- <-. eexists t', _.
    split; [reflexivity|]. split; [exact G'|]. split; [exact L|]. split; [exact R'|].
    cbn [op_spec]. split; [intro; reflexivity|]. destruct (m k); reflexivity.
Qed.

Lemma refines_OEraseFn w a s k f w' r m :
  nothrow c = true -> active s = false ->
  lgood (tb s) -> rep (tb s) m -> op_pre (tb s) (OEraseFn k f) ->
  step_some c hash fapply w a s (OEraseFn k f) = (w', r) ->
  lesc (tb s) \/
  exists t' m', w' = put_t w a s t' /\ lgood t' /\ lim_same (tb s) t' /\ rep t' m' /\
                op_spec (tb s) m (OEraseFn k f) r m'.
Proof.
  intros Hnt Hact G R Hpre E.
  cbv beta iota zeta delta [step_some] in E; rewrite Hact in E; rewrite if_negb_false in E.
    right. destruct (step_lookup (tb s) k _ _ w' r m G R E) as [t' [E' [G' [L R']]]].
    injection E' as <- <-. eexists t', _.
    split; [reflexivity|]. split; [exact G'|]. split; [exact L|]. split; [exact R'|].
    cbn [op_spec]. split; [intro; reflexivity|reflexivity].
Qed.

Lemma refines_ORehash w a s n w' r m :
  nothrow c = true -> active s = false ->
  lgood (tb s) -> rep (tb s) m -> op_pre (tb s) (ORehash n) ->
  step_some c hash fapply w a s (ORehash n) = (w', r) ->
  lesc (tb s) \/
  exists t' m', w' = put_t w a s t' /\ lgood t' /\ lim_same (tb s) t' /\ rep t' m' /\
                op_spec (tb s) m (ORehash n) r m'.
Proof.
  intros Hnt Hact G R Hpre E.
  cbv beta iota zeta delta [step_some] in E; rewrite Hact in E; rewrite if_negb_false in E.
    right. destruct Hpre as [Hl Hd].
    destruct (cuckoo_rehash c hash false (tb s) n) as [t1 x] eqn:Er. injection E as <- <-.
    destruct (cuckoo_rehash_lgood (tb s) n G Hl t1 x Er) as [H1 [H2 [H3 H4]]].
    exists t1, m. split; [reflexivity|].
    destruct x as [e|[|]].
    + destruct (H4 e eq_refl) as [Hne [He [Hlf [_ Hev]]]]. destruct (Hev Hd) as [Ev _].
      split; [apply (levolves_lgood _ _ Ev)|]. split; [apply (levolves_lim _ _ Ev)|].
      split; [apply (rep_same _ _ m R); apply Ev|]. cbn [op_spec]. split; [intro; reflexivity|].
      right. exists e. split; [reflexivity|]. split; [exact Hne|]. split; assumption.
    + destruct (H3 eq_refl) as [G' [Hh [L [_ [_ Hnm]]]]].
      split; [apply good_lgood; exact G'|]. split; [exact L|].
      split; [intros k v; rewrite (good_lholds _ k v G'), (Hh k v); apply R|].
      cbn [op_spec]. split; [intro; reflexivity|]. left. exists true. split; [reflexivity|].
      split; [intro H; discriminate|]. intro H. apply H1 in H. discriminate.
    + rewrite (H2 eq_refl). split; [exact G|]. split; [apply lim_same_refl|]. split; [exact R|].
      cbn [op_spec]. split; [intro; reflexivity|]. left. exists false. split; [reflexivity|].
      split; [intros _; apply H1; reflexivity|reflexivity].
Qed.

Lemma refines_OReserve w a s n w' r m :
  nothrow c = true -> active s = false ->
  lgood (tb s) -> rep (tb s) m -> op_pre (tb s) (OReserve n) ->
  step_some c hash fapply w a s (OReserve n) = (w', r) ->
  lesc (tb s) \/
  exists t' m', w' = put_t w a s t' /\ lgood t' /\ lim_same (tb s) t' /\ rep t' m' /\
                op_spec (tb s) m (OReserve n) r m'.
Proof.
  intros Hnt Hact G R Hpre E.
  cbv beta iota zeta delta [step_some] in E; rewrite Hact in E; rewrite if_negb_false in E.
    right. destruct Hpre as [Hl Hd]. rewrite cuckoo_reserve_eq in E.
    destruct (cuckoo_rehash c hash false (tb s) (reserve_calc c n)) as [t1 x] eqn:Er. injection E as <- <-.
    destruct (cuckoo_rehash_lgood (tb s) _ G Hl t1 x Er) as [H1 [H2 [H3 H4]]].
    exists t1, m. split; [reflexivity|].
    destruct x as [e|[|]].
    + destruct (H4 e eq_refl) as [Hne [He [Hlf [_ Hev]]]]. destruct (Hev Hd) as [Ev _].
      split; [apply (levolves_lgood _ _ Ev)|]. split; [apply (levolves_lim _ _ Ev)|].
      split; [apply (rep_same _ _ m R); apply Ev|]. cbn [op_spec]. split; [intro; reflexivity|].
      right. exists e. split; [reflexivity|]. split; [exact Hne|]. split; assumption.
    + destruct (H3 eq_refl) as [G' [Hh [L [_ [_ Hnm]]]]].
      split; [apply good_lgood; exact G'|]. split; [exact L|].
      split; [intros k v; rewrite (good_lholds _ k v G'), (Hh k v); apply R|].
      cbn [op_spec]. split; [intro; reflexivity|]. left. exists true. split; [reflexivity|].
      split; [intro H; discriminate|]. intro H. apply H1 in H. discriminate.
    + rewrite (H2 eq_refl). split; [exact G|]. split; [apply lim_same_refl|]. split; [exact R|].
      cbn [op_spec]. split; [intro; reflexivity|]. left. exists false. split; [reflexivity|].
      split; [intros _; apply H1; reflexivity|reflexivity].
Qed.

Lemma refines_OClear w a s w' r m :
  nothrow c = true -> active s = false ->
  lgood (tb s) -> rep (tb s) m -> op_pre (tb s) OClear ->
  step_some c hash fapply w a s OClear = (w', r) ->
  lesc (tb s) \/
  exists t' m', w' = put_t w a s t' /\ lgood t' /\ lim_same (tb s) t' /\ rep t' m' /\
                op_spec (tb s) m OClear r m'.
Proof.
  intros Hnt Hact G R Hpre E.
  cbv beta iota zeta delta [step_some] in E; rewrite Hact in E; rewrite if_negb_false in E.
    right. injection E as <- <-.
    destruct (cuckoo_clear_lgood (tb s) G) as [G' [Hno [L _]]].
    exists (cuckoo_clear (tb s)), mempty. split; [reflexivity|]. split; [apply good_lgood; exact G'|].
    split; [exact L|]. split.
    + intros k v. split; [intro H; exfalso; exact (Hno k v H)|intro H; discriminate].
    + cbn [op_spec]. split; [intro; reflexivity|reflexivity].
Qed.

(* THE PACKAGED STATEMENT: every normal-mode operation of Api.step_some, started on ANY
   well-formed table (deferred migration possibly pending), leaves a well-formed table with the
   same limits, and its printed result and new contents are those of the map specification. *)
Theorem normal_mode_op_refines w a s o w' r m :
  nothrow c = true -> active s = false -> normal_op o = true ->
  lgood (tb s) -> rep (tb s) m -> op_pre (tb s) o ->
  step_some c hash fapply w a s o = (w', r) ->
  lesc (tb s) \/
  exists t' m', w' = put_t w a s t' /\ lgood t' /\ lim_same (tb s) t' /\ rep t' m' /\
                op_spec (tb s) m o r m'.
Proof.
  intros Hnt Hact Hop G R Hpre E.
  destruct o; try discriminate Hop.
  - exact (refines_OFind _ _ _ _ _ _ _ Hnt Hact G R Hpre E).
  - exact (refines_OFindThrow _ _ _ _ _ _ _ Hnt Hact G R Hpre E).
  - exact (refines_OContains _ _ _ _ _ _ _ Hnt Hact G R Hpre E).
  - exact (refines_OFindFn _ _ _ _ _ _ _ Hnt Hact G R Hpre E).
  - exact (refines_OUpdate _ _ _ _ _ _ _ _ Hnt Hact G R Hpre E).
  - exact (refines_OUpdateFn _ _ _ _ _ _ _ _ Hnt Hact G R Hpre E).
  - exact (refines_OInsert _ _ _ _ _ _ _ _ Hnt Hact G R Hpre E).
  - exact (refines_OIoa _ _ _ _ _ _ _ _ Hnt Hact G R Hpre E).
  - exact (refines_OUpsert _ _ _ _ _ _ _ _ _ _ Hnt Hact G R Hpre E).
  - exact (refines_OUprase _ _ _ _ _ _ _ _ _ _ Hnt Hact G R Hpre E).
  - exact (refines_OErase _ _ _ _ _ _ _ Hnt Hact G R Hpre E).
  - exact (refines_OEraseFn _ _ _ _ _ _ _ _ Hnt Hact G R Hpre E).
  - exact (refines_ORehash _ _ _ _ _ _ _ Hnt Hact G R Hpre E).
  - exact (refines_OReserve _ _ _ _ _ _ _ Hnt Hact G R Hpre E).
  - exact (refines_OClear _ _ _ _ _ _ Hnt Hact G R Hpre E).
Qed.

End Ops.

End LazyRefine.
