(* L1 proofs: table doubling in the sequential model.
   1. the move decision of move_bucket (model-level content of C13's last clause)
   2. one bucket: move_bucket_slots splits old bucket b into new buckets b and b + 2^ohp
   3. whole-array immediate migration (move_all_buckets)
   4. fast_double_body in the immediate (non-deferred) cases                         *)
From Coq Require Import NArith ZArith List Bool Lia FMapPositive.
From LC Require Import gen.HashGen Bits Core Api InvDefs ArrLemmas Stats.
Import ListNotations.
Local Open Scope N_scope.

(* the element written into the new array: same key / value / tag, never a husk *)
Definition live (e : entry) : entry :=
  {| ekey := ekey e; eval := eval e; epart := epart e; ehusk := false |}.

Lemma ekey_live e : ekey (live e) = ekey e. Proof. reflexivity. Qed.
Lemma eval_live e : eval (live e) = eval e. Proof. reflexivity. Qed.
Lemma epart_live e : epart (live e) = epart e. Proof. reflexivity. Qed.
Lemma ehusk_live e : ehusk (live e) = false. Proof. reflexivity. Qed.

Section Resize.
Variable c : config.
Variable hash : N -> N.
Hypothesis Hc : cfg_ok c.

Notation arr_ok := (arr_ok c hash).
Notation settled := (settled c hash).
Notation cand := (cand hash).

(* ================================================================== 1. the move decision *)

(* the boolean [to_new] computed by move_bucket_slots for key k found in old bucket b *)
Definition to_new_b (ohp k b : N) : bool :=
  let h := hash k in
  let p := partial_key h in
  let old_ihash := index_hash ohp h in
  let old_ahash := alt_index ohp p old_ihash in
  let new_ihash := index_hash (ohp + 1) h in
  let new_ahash := alt_index (ohp + 1) p new_ihash in
  ((b =? old_ihash) && (new_ihash =? b + 2 ^ ohp)) || ((b =? old_ahash) && (new_ahash =? b + 2 ^ ohp)).

Lemma nbi_spec ohp b : ohp + 1 < 64 -> b < 2 ^ ohp -> wrap64 (b + hashsize ohp) = b + 2 ^ ohp.
Proof.
  intros Hhp Hb. rewrite hashsize_spec by lia. unfold wrap64. apply wrap_small.
  assert (H1 : 2 ^ (ohp + 1) <= 2 ^ 64) by (apply pow2_le_mono; lia).
  rewrite N.pow_add_r in H1. change (2 ^ 1) with 2 in H1.
  set (p := 2 ^ ohp) in *. set (q := 2 ^ 64) in *. clearbody p q. lia.
Qed.

Lemma move_decision_true ohp k b :
  to_new_b ohp k b = true -> cand (ohp + 1) k (b + 2 ^ ohp).
Proof.
  unfold to_new_b, InvDefs.cand, i2_of, i1_of. cbv zeta. intro H.
  apply orb_true_iff in H. destruct H as [H|H]; apply andb_true_iff in H; destruct H as [_ H];
    apply N.eqb_eq in H.
  - left. symmetry. exact H.
  - right. symmetry. exact H.
Qed.

Lemma move_decision_false ohp k b :
  ohp + 1 < 64 -> cand ohp k b -> to_new_b ohp k b = false -> cand (ohp + 1) k b.
Proof.
  unfold to_new_b, InvDefs.cand, i2_of, i1_of. cbv zeta. intros Hhp Hcand H.
  destruct (candidates_double ohp (hash k) Hhp) as [D1 D2]. cbv zeta in D1, D2.
  apply orb_false_iff in H. destruct H as [H1 H2].
  destruct Hcand as [E|E].
  - left. rewrite <- E in D1, H1. rewrite N.eqb_refl in H1. cbn [andb] in H1.
    apply N.eqb_neq in H1. destruct D1 as [D1|D1]; [symmetry; exact D1|contradiction].
  - right. rewrite <- E in D2, H2. rewrite N.eqb_refl in H2. cbn [andb] in H2.
    apply N.eqb_neq in H2. destruct D2 as [D2|D2]; [symmetry; exact D2|contradiction].
Qed.

(* Lemma 1, in the form asked for: the boolean of move_bucket_slots, with nb := wrap64 (b + hashsize ohp) *)
Theorem move_decision ohp k b :
  ohp + 1 < 62 -> b < 2 ^ ohp -> cand ohp k b ->
  let nb := wrap64 (b + hashsize ohp) in
  let h := hash k in
  let p := partial_key h in
  let old_ihash := index_hash ohp h in
  let old_ahash := alt_index ohp p old_ihash in
  let new_ihash := index_hash (ohp + 1) h in
  let new_ahash := alt_index (ohp + 1) p new_ihash in
  let to_new := ((b =? old_ihash) && (new_ihash =? nb)) || ((b =? old_ahash) && (new_ahash =? nb)) in
  nb = b + 2 ^ ohp /\
  (to_new = true -> cand (ohp + 1) k nb) /\
  (to_new = false -> cand (ohp + 1) k b).
Proof.
  intros Hhp Hb Hcand. cbv zeta. rewrite nbi_spec by lia.
  split; [reflexivity|]. split.
  - apply move_decision_true.
  - apply move_decision_false; [lia|exact Hcand].
Qed.

(* ================================================================== 2. one bucket *)

Lemma mbs_step_none oldb newb obi ns s n :
  bget oldb obi s = None ->
  move_bucket_slots c hash oldb newb obi ns s (S n) =
  move_bucket_slots c hash oldb newb obi ns (s + 1) n.
Proof. intro H. cbn [move_bucket_slots]. rewrite H. reflexivity. Qed.

Lemma mbs_step_some ohp oldb newb obi ns s n e :
  bget oldb obi s = Some e -> bhp oldb = ohp -> bhp newb = ohp + 1 -> ohp + 1 < 64 -> obi < 2 ^ ohp ->
  move_bucket_slots c hash oldb newb obi ns s (S n) =
  move_bucket_slots c hash (bset oldb obi s (Some (husk_of c e)))
     (bset newb (if to_new_b ohp (ekey e) obi then obi + 2 ^ ohp else obi)
                (if to_new_b ohp (ekey e) obi then ns else s) (Some (live e)))
     obi (if to_new_b ohp (ekey e) obi then ns + 1 else ns) (s + 1) n.
Proof.
  intros H Ho Hn Hhp Hb. cbn [move_bucket_slots]. rewrite H. cbv zeta.
  rewrite Ho, Hn. rewrite (nbi_spec ohp obi Hhp Hb). reflexivity.
Qed.

Lemma pow2_succ_double n : 2 ^ (n + 1) = 2 * 2 ^ n.
Proof. rewrite N.pow_add_r. change (2 ^ 1) with 2. lia. Qed.

Section OneBucket.
(* fixed data of one run of the slot loop *)
Variable ohp : N.            (* old hashpower *)
Variable a : barray.         (* the old array when the loop starts *)
Variable n0 : barray.        (* the new array when the loop starts *)
Variable g0 : barray.        (* ghost: the not-yet-moved part of the old array (for counting) *)
Variable obi : N.            (* the old bucket being split *)
Variable K : nat.            (* count_arr new + count_arr ghost, constant *)

Hypothesis Hhp : ohp + 1 < 62.
Hypothesis Hobi : obi < 2 ^ ohp.
Hypothesis HBrange : forall s e, bget a obi s = Some e -> s < spb c.
Hypothesis HBcand : forall s e, bget a obi s = Some e -> cand ohp (ekey e) obi.
Hypothesis HBuniq : forall s e s' e',
  bget a obi s = Some e -> bget a obi s' = Some e' -> ekey e = ekey e' -> s = s'.

Let nb := obi + 2 ^ ohp.

Record sinv (oldb newb g : barray) (ns s : N) : Prop := {
  iv_ohp : bhp oldb = ohp;
  iv_nhp : bhp newb = ohp + 1;
  iv_ghp : bhp g = ohp;
  iv_dead : bdead newb = bdead n0;
  iv_ns : ns <= s;
  iv_old_rest : forall s', s <= s' -> bget oldb obi s' = bget a obi s';
  iv_old_done : forall s', s' < s -> bget oldb obi s' = option_map (husk_of c) (bget a obi s');
  iv_old_other : forall b s', b <> obi -> bget oldb b s' = bget a b s';
  iv_frame : forall b s', b <> obi -> b <> nb -> bget newb b s' = bget n0 b s';
  iv_sound : forall b s' e', (b = obi \/ b = nb) -> bget newb b s' = Some e' ->
     exists s0 e0, s0 < s /\ bget a obi s0 = Some e0 /\ e' = live e0 /\ cand (ohp + 1) (ekey e0) b /\
       (b = obi -> s' = s0) /\ (b = nb -> s' < ns);
  iv_compl : forall s0 e0, s0 < s -> bget a obi s0 = Some e0 ->
     bget newb obi s0 = Some (live e0) \/ exists s', s' < ns /\ bget newb nb s' = Some (live e0);
  iv_uniq : forall b1 s1 e1 b2 s2 e2, (b1 = obi \/ b1 = nb) -> (b2 = obi \/ b2 = nb) ->
     bget newb b1 s1 = Some e1 -> bget newb b2 s2 = Some e2 -> ekey e1 = ekey e2 -> b1 = b2 /\ s1 = s2;
  iv_dense : forall s', s' < ns -> bget newb nb s' <> None;
  iv_order : forall s1 s2 e1 e2, bget newb nb s1 = Some e1 -> bget newb nb s2 = Some e2 -> s1 < s2 ->
     exists t1 t2 x1 x2, bget a obi t1 = Some x1 /\ bget a obi t2 = Some x2 /\
       e1 = live x1 /\ e2 = live x2 /\ t1 < t2;
  iv_g_rest : forall s', s <= s' -> bget g obi s' = bget a obi s';
  iv_g_done : forall s', s' < s -> bget g obi s' = None;
  iv_g_other : forall b s', b <> obi -> bget g b s' = bget g0 b s';
  iv_count : (count_arr c newb + count_arr c g = K)%nat
}.

Lemma nb_neq : obi <> nb.
Proof. subst nb. assert (H := pow2_pos ohp). set (p := 2 ^ ohp) in *. clearbody p. lia. Qed.

Lemma nb_lt : nb < 2 ^ (ohp + 1).
Proof. subst nb. rewrite pow2_succ_double. set (p := 2 ^ ohp) in *. clearbody p. lia. Qed.

Lemma obi_lt : obi < 2 ^ (ohp + 1).
Proof. rewrite pow2_succ_double. set (p := 2 ^ ohp) in *. clearbody p. lia. Qed.

(* the slot is empty in the old bucket: only the slot counter advances *)
Lemma sinv_step_none oldb newb g ns s :
  sinv oldb newb g ns s -> bget a obi s = None -> sinv oldb newb g ns (s + 1).
Proof.
  intros [I1 I2 I3 I4 I5 I6 I7 I8 I9 I10 I11 I12 I13 I14 I15 I16 I17 I18] Hn.
  constructor; try assumption.
  - lia.
  - intros s' Hs'. apply I6. lia.
  - intros s' Hs'. destruct (N.eq_dec s' s) as [->|Ne].
    + rewrite I6 by lia. rewrite Hn. reflexivity.
    + apply I7. lia.
  - intros b s' e' Hb E. destruct (I10 b s' e' Hb E) as [s0 [e0 [H1 H2]]].
    exists s0, e0. split; [lia|exact H2].
  - intros s0 e0 Hs0 E. destruct (N.eq_dec s0 s) as [->|Ne]; [congruence|].
    apply I11; [lia|exact E].
  - intros s' Hs'. apply I15. lia.
  - intros s' Hs'. destruct (N.eq_dec s' s) as [->|Ne].
    + rewrite I15 by lia. exact Hn.
    + apply I16. lia.
Qed.

(* the slot holds e and the decision is "stay": e is copied to (obi, s) *)
Lemma sinv_step_stay oldb newb g ns s e :
  sinv oldb newb g ns s -> bget a obi s = Some e -> to_new_b ohp (ekey e) obi = false ->
  sinv (bset oldb obi s (Some (husk_of c e))) (bset newb obi s (Some (live e))) (bset g obi s None)
       ns (s + 1).
Proof.
  intros [I1 I2 I3 I4 I5 I6 I7 I8 I9 I10 I11 I12 I13 I14 I15 I16 I17 I18] He Htn.
  assert (Hneq := nb_neq).
  assert (Hs : s < spb c) by (apply (HBrange s e He)).
  assert (Hempty : bget newb obi s = None).
  { destruct (bget newb obi s) as [e'|] eqn:E; [|reflexivity].
    destruct (I10 obi s e' (or_introl eq_refl) E) as [s0 [e0 [H1 [_ [_ [_ [H5 _]]]]]]].
    specialize (H5 eq_refl). lia. }
  assert (Hcand : cand (ohp + 1) (ekey e) obi).
  { apply move_decision_false; [lia|apply (HBcand s e He)|exact Htn]. }
  constructor.
  - rewrite bhp_bset. exact I1.
  - rewrite bhp_bset. exact I2.
  - rewrite bhp_bset. exact I3.
  - rewrite bdead_bset. exact I4.
  - lia.
  - intros s' Hs'. rewrite bget_bset_other by (right; lia). apply I6. lia.
  - intros s' Hs'. destruct (N.eq_dec s' s) as [->|Ne].
    + rewrite bget_bset_eq, He. reflexivity.
    + rewrite bget_bset_other by (right; lia). apply I7. lia.
  - intros b s' Hb. rewrite bget_bset_other by (left; congruence). apply I8. exact Hb.
  - intros b s' Hb1 Hb2. rewrite bget_bset_other by (left; congruence). apply I9; assumption.
  - intros b s' e' Hb E.
    destruct (bget_bset_cases newb obi s (Some (live e)) b s') as [[-> [-> Hx]]|[Hne Hx]]; rewrite Hx in E.
    + injection E as <-. exists s, e. split; [lia|]. split; [exact He|]. split; [reflexivity|].
      split; [exact Hcand|]. split; [reflexivity|]. intro F. contradiction.
    + destruct (I10 b s' e' Hb E) as [s0 [e0 [H1 H2]]]. exists s0, e0. split; [lia|exact H2].
  - intros s0 e0 Hs0 E. destruct (N.eq_dec s0 s) as [->|Ne].
    + left. rewrite bget_bset_eq. congruence.
    + destruct (I11 s0 e0 ltac:(lia) E) as [H|[s' [H1 H2]]].
      * left. rewrite bget_bset_other by (right; lia). exact H.
      * right. exists s'. split; [exact H1|]. rewrite bget_bset_other by (left; exact Hneq). exact H2.
  - intros b1 s1 e1 b2 s2 e2 Hb1 Hb2 E1 E2 Hk.
    destruct (bget_bset_cases newb obi s (Some (live e)) b1 s1) as [[-> [-> Hx1]]|[Hne1 Hx1]]; rewrite Hx1 in E1;
    destruct (bget_bset_cases newb obi s (Some (live e)) b2 s2) as [[-> [-> Hx2]]|[Hne2 Hx2]]; rewrite Hx2 in E2.
    + split; reflexivity.
    + exfalso. injection E1 as <-.
      destruct (I10 b2 s2 e2 Hb2 E2) as [s0 [e0 [H1 [H2 [H3 _]]]]]. subst e2.
      assert (s = s0) by (apply (HBuniq s e s0 e0 He H2); exact Hk). lia.
    + exfalso. injection E2 as <-.
      destruct (I10 b1 s1 e1 Hb1 E1) as [s0 [e0 [H1 [H2 [H3 _]]]]]. subst e1.
      assert (s = s0) by (apply (HBuniq s e s0 e0 He H2); symmetry; exact Hk). lia.
    + apply (I12 b1 s1 e1 b2 s2 e2); assumption.
  - intros s' Hs'. rewrite bget_bset_other by (left; exact Hneq). apply I13. exact Hs'.
  - intros s1 s2 e1 e2 E1 E2 Hlt.
    rewrite bget_bset_other in E1 by (left; exact Hneq).
    rewrite bget_bset_other in E2 by (left; exact Hneq).
    apply (I14 s1 s2 e1 e2); assumption.
  - intros s' Hs'. rewrite bget_bset_other by (right; lia). apply I15. lia.
  - intros s' Hs'. destruct (N.eq_dec s' s) as [->|Ne].
    + apply bget_bset_eq.
    + rewrite bget_bset_other by (right; lia). apply I16. lia.
  - intros b s' Hb. rewrite bget_bset_other by (left; congruence). apply I17. exact Hb.
  - assert (Hg : bget g obi s = Some e) by (rewrite I15 by lia; exact He).
    assert (C1 : count_arr c (bset newb obi s (Some (live e))) = S (count_arr c newb)).
    { apply count_arr_add; [rewrite I2; exact obi_lt|exact Hs|exact Hempty]. }
    assert (C2 : count_arr c g = S (count_arr c (bset g obi s None))).
    { apply (count_arr_del c g obi s e); [rewrite I3; exact Hobi|exact Hs|exact Hg]. }
    lia.
Qed.

(* the slot holds e and the decision is "move": e is appended to bucket nb at slot ns *)
Lemma sinv_step_move oldb newb g ns s e :
  sinv oldb newb g ns s -> bget a obi s = Some e -> to_new_b ohp (ekey e) obi = true ->
  sinv (bset oldb obi s (Some (husk_of c e))) (bset newb nb ns (Some (live e))) (bset g obi s None)
       (ns + 1) (s + 1).
Proof.
  intros [I1 I2 I3 I4 I5 I6 I7 I8 I9 I10 I11 I12 I13 I14 I15 I16 I17 I18] He Htn.
  assert (Hneq := nb_neq).
  assert (Hs : s < spb c) by (apply (HBrange s e He)).
  assert (Hempty : bget newb nb ns = None).
  { destruct (bget newb nb ns) as [e'|] eqn:E; [|reflexivity].
    destruct (I10 nb ns e' (or_intror eq_refl) E) as [s0 [e0 [H1 [_ [_ [_ [_ H6]]]]]]].
    specialize (H6 eq_refl). lia. }
  assert (Hcand : cand (ohp + 1) (ekey e) nb) by (apply move_decision_true; exact Htn).
  constructor.
  - rewrite bhp_bset. exact I1.
  - rewrite bhp_bset. exact I2.
  - rewrite bhp_bset. exact I3.
  - rewrite bdead_bset. exact I4.
  - lia.
  - intros s' Hs'. rewrite bget_bset_other by (right; lia). apply I6. lia.
  - intros s' Hs'. destruct (N.eq_dec s' s) as [->|Ne].
    + rewrite bget_bset_eq, He. reflexivity.
    + rewrite bget_bset_other by (right; lia). apply I7. lia.
  - intros b s' Hb. rewrite bget_bset_other by (left; congruence). apply I8. exact Hb.
  - intros b s' Hb1 Hb2. rewrite bget_bset_other by (left; congruence). apply I9; assumption.
  - intros b s' e' Hb E.
    destruct (bget_bset_cases newb nb ns (Some (live e)) b s') as [[-> [-> Hx]]|[Hne Hx]]; rewrite Hx in E.
    + injection E as <-. exists s, e. split; [lia|]. split; [exact He|]. split; [reflexivity|].
      split; [exact Hcand|]. split; [intro F; symmetry in F; contradiction|]. intros _. lia.
    + destruct (I10 b s' e' Hb E) as [s0 [e0 [H1 [H2 [H3 [H4 [H5 H6]]]]]]]. exists s0, e0.
      split; [lia|]. split; [exact H2|]. split; [exact H3|]. split; [exact H4|]. split; [exact H5|].
      intro F. specialize (H6 F). lia.
  - intros s0 e0 Hs0 E. destruct (N.eq_dec s0 s) as [->|Ne].
    + right. exists ns. split; [lia|]. rewrite bget_bset_eq. congruence.
    + destruct (I11 s0 e0 ltac:(lia) E) as [H|[s' [H1 H2]]].
      * left. rewrite bget_bset_other by (left; congruence). exact H.
      * right. exists s'. split; [lia|]. rewrite bget_bset_other by (right; lia). exact H2.
  - intros b1 s1 e1 b2 s2 e2 Hb1 Hb2 E1 E2 Hk.
    destruct (bget_bset_cases newb nb ns (Some (live e)) b1 s1) as [[-> [-> Hx1]]|[Hne1 Hx1]]; rewrite Hx1 in E1;
    destruct (bget_bset_cases newb nb ns (Some (live e)) b2 s2) as [[-> [-> Hx2]]|[Hne2 Hx2]]; rewrite Hx2 in E2.
    + split; reflexivity.
    + exfalso. injection E1 as <-.
      destruct (I10 b2 s2 e2 Hb2 E2) as [s0 [e0 [H1 [H2 [H3 _]]]]]. subst e2.
      assert (s = s0) by (apply (HBuniq s e s0 e0 He H2); exact Hk). lia.
    + exfalso. injection E2 as <-.
      destruct (I10 b1 s1 e1 Hb1 E1) as [s0 [e0 [H1 [H2 [H3 _]]]]]. subst e1.
      assert (s = s0) by (apply (HBuniq s e s0 e0 He H2); symmetry; exact Hk). lia.
    + apply (I12 b1 s1 e1 b2 s2 e2); assumption.
  - intros s' Hs'. destruct (N.eq_dec s' ns) as [->|Ne].
    + rewrite bget_bset_eq. discriminate.
    + rewrite bget_bset_other by (right; lia). apply I13. lia.
  - intros s1 s2 e1 e2 E1 E2 Hlt.
    destruct (bget_bset_cases newb nb ns (Some (live e)) nb s1) as [[_ [-> Hx1]]|[Hne1 Hx1]]; rewrite Hx1 in E1;
    destruct (bget_bset_cases newb nb ns (Some (live e)) nb s2) as [[_ [-> Hx2]]|[Hne2 Hx2]]; rewrite Hx2 in E2.
    + lia.
    + exfalso. destruct (I10 nb s2 e2 (or_intror eq_refl) E2) as [s0 [e0 [_ [_ [_ [_ [_ H6]]]]]]].
      specialize (H6 eq_refl). lia.
    + injection E2 as <-.
      destruct (I10 nb s1 e1 (or_intror eq_refl) E1) as [s0 [e0 [H1 [H2 [H3 _]]]]].
      exists s0, s, e0, e. repeat split; assumption.
    + apply (I14 s1 s2 e1 e2); assumption.
  - intros s' Hs'. rewrite bget_bset_other by (right; lia). apply I15. lia.
  - intros s' Hs'. destruct (N.eq_dec s' s) as [->|Ne].
    + apply bget_bset_eq.
    + rewrite bget_bset_other by (right; lia). apply I16. lia.
  - intros b s' Hb. rewrite bget_bset_other by (left; congruence). apply I17. exact Hb.
  - assert (Hg : bget g obi s = Some e) by (rewrite I15 by lia; exact He).
    assert (C1 : count_arr c (bset newb nb ns (Some (live e))) = S (count_arr c newb)).
    { apply count_arr_add; [rewrite I2; exact nb_lt|lia|exact Hempty]. }
    assert (C2 : count_arr c g = S (count_arr c (bset g obi s None))).
    { apply (count_arr_del c g obi s e); [rewrite I3; exact Hobi|exact Hs|exact Hg]. }
    lia.
Qed.

(* the loop: the invariant advances by n slots *)
Lemma mbs_sinv n : forall oldb newb g ns s,
  sinv oldb newb g ns s ->
  exists g' ns',
    sinv (fst (move_bucket_slots c hash oldb newb obi ns s n))
         (snd (move_bucket_slots c hash oldb newb obi ns s n)) g' ns' (s + N.of_nat n).
Proof.
  induction n as [|n IH]; intros oldb newb g ns s I.
  - exists g, ns. cbn [move_bucket_slots fst snd]. replace (s + N.of_nat 0) with s by lia. exact I.
  - replace (s + N.of_nat (S n)) with ((s + 1) + N.of_nat n) by lia.
    destruct (bget oldb obi s) as [e|] eqn:E.
    + assert (Ea : bget a obi s = Some e).
      { rewrite <- (iv_old_rest _ _ _ _ _ I s) by lia. exact E. }
      rewrite (mbs_step_some ohp oldb newb obi ns s n e E (iv_ohp _ _ _ _ _ I) (iv_nhp _ _ _ _ _ I))
        by (lia || exact Hobi).
      destruct (to_new_b ohp (ekey e) obi) eqn:Etn.
      * apply IH with (g := bset g obi s None). apply sinv_step_move; assumption.
      * apply IH with (g := bset g obi s None). apply sinv_step_stay; assumption.
    + assert (Ea : bget a obi s = None).
      { rewrite <- (iv_old_rest _ _ _ _ _ I s) by lia. exact E. }
      rewrite (mbs_step_none oldb newb obi ns s n E).
      apply IH with (g := g). apply sinv_step_none; assumption.
Qed.

Lemma sinv_init :
  bhp a = ohp -> bhp n0 = ohp + 1 -> bhp g0 = ohp ->
  (forall s, bget n0 obi s = None) -> (forall s, bget n0 nb s = None) ->
  (forall s, bget g0 obi s = bget a obi s) ->
  (count_arr c n0 + count_arr c g0 = K)%nat ->
  sinv a n0 g0 0 0.
Proof.
  intros H1 H2 H3 He1 He2 Hg HK. constructor; try assumption; try reflexivity.
  - intros s' Hs'. lia.
  - intros b s' e' [->| ->] E; [rewrite He1 in E|rewrite He2 in E]; discriminate.
  - intros s0 e0 Hs0. lia.
  - intros b1 s1 e1 b2 s2 e2 [->| ->] _ E; [rewrite He1 in E|rewrite He2 in E]; discriminate.
  - intros s' Hs'. lia.
  - intros s1 s2 e1 e2 E. rewrite He2 in E. discriminate.
  - intros s' _. apply Hg.
  - intros s' Hs'. lia.
Qed.

End OneBucket.

(* Lemma 2: one whole bucket.  (The hypotheses "every element is live" and "has the right tag"
   of the informal statement are not needed: the copy always clears the husk flag and keeps
   the tag.) *)
Theorem move_bucket_slots_spec ohp oldb newb obi :
  ohp + 1 < 62 -> obi < 2 ^ ohp -> bhp oldb = ohp -> bhp newb = ohp + 1 ->
  (forall s e, bget oldb obi s = Some e -> s < spb c) ->
  (forall s e, bget oldb obi s = Some e -> cand ohp (ekey e) obi) ->
  (forall s e s' e', bget oldb obi s = Some e -> bget oldb obi s' = Some e' -> ekey e = ekey e' -> s = s') ->
  (forall s, bget newb obi s = None) ->
  (forall s, bget newb (obi + 2 ^ ohp) s = None) ->
  let nb := obi + 2 ^ ohp in
  let r := move_bucket_slots c hash oldb newb obi 0 0 (N.to_nat (spb c)) in
  let oldb' := fst r in
  let newb' := snd r in
  (* (a) frame of the new array *)
  (bhp newb' = ohp + 1 /\ bdead newb' = bdead newb /\
   forall b s, b <> obi -> b <> nb -> bget newb' b s = bget newb b s) /\
  (* (b) every old element arrives, at its own slot of bucket obi or in bucket nb *)
  (forall s e, bget oldb obi s = Some e ->
     (bget newb' obi s = Some (live e) /\ cand (ohp + 1) (ekey e) obi) \/
     (exists s', s' < spb c /\ bget newb' nb s' = Some (live e) /\ cand (ohp + 1) (ekey e) nb)) /\
  (* nothing else is in the two buckets *)
  (forall b s' e', (b = obi \/ b = nb) -> bget newb' b s' = Some e' ->
     s' < spb c /\ ehusk e' = false /\
     exists s e, bget oldb obi s = Some e /\ e' = live e /\ cand (ohp + 1) (ekey e) b /\ (b = obi -> s' = s)) /\
  (* exactly once: no key twice in the two buckets *)
  (forall b1 s1 e1 b2 s2 e2, (b1 = obi \/ b1 = nb) -> (b2 = obi \/ b2 = nb) ->
     bget newb' b1 s1 = Some e1 -> bget newb' b2 s2 = Some e2 -> ekey e1 = ekey e2 -> b1 = b2 /\ s1 = s2) /\
  (* bucket nb is filled at slots 0 .. m-1, in the order of the old slots *)
  (exists m, m <= spb c /\ forall s', bget newb' nb s' <> None <-> s' < m) /\
  (forall s1 s2 e1 e2, bget newb' nb s1 = Some e1 -> bget newb' nb s2 = Some e2 -> s1 < s2 ->
     exists t1 t2 x1 x2, bget oldb obi t1 = Some x1 /\ bget oldb obi t2 = Some x2 /\
       e1 = live x1 /\ e2 = live x2 /\ t1 < t2) /\
  (* (c) the old array keeps its keys and values; moved elements become husks *)
  (bhp oldb' = ohp /\
   (forall b s, b <> obi -> bget oldb' b s = bget oldb b s) /\
   (forall s, bget oldb' obi s = option_map (husk_of c) (bget oldb obi s))).
Proof.
  intros Hhp Hobi Ho Hn HBr HBc HBu He1 He2. cbv zeta.
  assert (I0 : sinv ohp oldb newb oldb obi (count_arr c newb + count_arr c oldb)%nat oldb newb oldb 0 0).
  { apply sinv_init; try assumption; reflexivity. }
  destruct (mbs_sinv ohp oldb newb oldb obi _ Hhp Hobi HBr HBc HBu (N.to_nat (spb c)) oldb newb oldb 0 0 I0)
    as [g' [ns' I]].
  rewrite N2Nat.id, N.add_0_l in I.
  destruct (move_bucket_slots c hash oldb newb obi 0 0 (N.to_nat (spb c))) as [o' n'].
  cbn [fst snd] in *.
  destruct I as [I1 I2 I3 I4 I5 I6 I7 I8 I9 I10 I11 I12 I13 I14 I15 I16 I17 I18].
  repeat split.
  - exact I2.
  - exact I4.
  - exact I9.
  - intros s e E. destruct (I11 s e (HBr s e E) E) as [H|[s' [H1 H2]]].
    + left. split; [exact H|].
      destruct (I10 obi s (live e) (or_introl eq_refl) H) as [s0 [e0 [_ [F2 [F3 [F4 [F5 _]]]]]]].
      specialize (F5 eq_refl). subst s0. rewrite E in F2. injection F2 as <-. exact F4.
    + right. exists s'. split; [lia|]. split; [exact H2|].
      destruct (I10 _ s' (live e) (or_intror eq_refl) H2) as [s0 [e0 [_ [F2 [F3 [F4 _]]]]]].
      replace (ekey e) with (ekey e0); [exact F4|].
      change (ekey (live e0) = ekey (live e)). rewrite <- F3. reflexivity.
  - destruct (I10 b s' e' H H0) as [s0 [e0 [F1 [F2 [F3 [F4 [F5 F6]]]]]]].
    destruct H as [->|E]; [rewrite (F5 eq_refl); exact F1|]. specialize (F6 E). lia.
  - destruct (I10 b s' e' H H0) as [s0 [e0 [F1 [F2 [F3 _]]]]]. subst e'. reflexivity.
  - destruct (I10 b s' e' H H0) as [s0 [e0 [F1 [F2 [F3 [F4 [F5 F6]]]]]]].
    exists s0, e0. repeat split; assumption.
  - apply (I12 b1 s1 e1 b2 s2 e2); assumption.
  - apply (I12 b1 s1 e1 b2 s2 e2); assumption.
  - exists ns'. split; [exact I5|]. intro s'. split.
    + intro Hne. destruct (bget n' (obi + 2 ^ ohp) s') as [e'|] eqn:E; [|congruence].
      destruct (I10 _ s' e' (or_intror eq_refl) E) as [s0 [e0 [_ [_ [_ [_ [_ F6]]]]]]].
      apply F6. reflexivity.
    + apply I13.
  - exact I14.
  - exact I1.
  - exact I8.
  - intro s. destruct (N.lt_ge_cases s (spb c)) as [L|G].
    + apply I7. exact L.
    + rewrite I6 by exact G. destruct (bget oldb obi s) as [e|] eqn:E; [|reflexivity].
      specialize (HBr s e E). lia.
Qed.

(* ================================================================== 3. whole-array migration *)

(* table fields other than the two arrays *)
Definition same_scal (t t' : table) : Prop :=
  nrem t' = nrem t /\ rc t' = rc t /\ mlfn t' = mlfn t /\ mlfd t' = mlfd t /\
  mhp t' = mhp t /\ workers t' = workers t.

Definition same_meta (t t' : table) : Prop := locks t' = locks t /\ same_scal t t'.

Lemma same_scal_refl t : same_scal t t.
Proof. repeat split. Qed.

Lemma same_scal_trans t t' t'' : same_scal t t' -> same_scal t' t'' -> same_scal t t''.
Proof.
  intros [A2 [A3 [A4 [A5 [A6 A7]]]]] [B2 [B3 [B4 [B5 [B6 B7]]]]].
  repeat split; congruence.
Qed.

Lemma same_meta_refl t : same_meta t t.
Proof. repeat split. Qed.

Lemma same_meta_trans t t' t'' : same_meta t t' -> same_meta t' t'' -> same_meta t t''.
Proof.
  intros [A1 [A2 [A3 [A4 [A5 [A6 A7]]]]]] [B1 [B2 [B3 [B4 [B5 [B6 B7]]]]]].
  repeat split; congruence.
Qed.

Lemma move_bucket_proj t i :
  old (move_bucket c hash t i) = fst (move_bucket_slots c hash (old t) (cur t) i 0 0 (N.to_nat (spb c))) /\
  cur (move_bucket c hash t i) = snd (move_bucket_slots c hash (old t) (cur t) i 0 0 (N.to_nat (spb c))) /\
  same_meta t (move_bucket c hash t i).
Proof.
  unfold move_bucket.
  destruct (move_bucket_slots c hash (old t) (cur t) i 0 0 (N.to_nat (spb c))) as [o n].
  repeat split.
Qed.

Section Migrate.
Variable ohp : N.
Variable a : barray.          (* the array being migrated, as it was before the doubling *)
Hypothesis Hhp : ohp + 1 < 62.
Hypothesis Ha : arr_ok a.
Hypothesis Hbhp : bhp a = ohp.

(* state of a migration in progress: D = the set of old buckets already moved;
   o / n = old and new array; g = ghost, the old array minus the moved buckets *)
Record minv (D : N -> Prop) (o n g : barray) : Prop := {
  mi_ohp : bhp o = ohp;
  mi_nhp : bhp n = ohp + 1;
  mi_ghp : bhp g = ohp;
  mi_dead : bdead n = false;
  mi_old : forall b s, b < 2 ^ ohp -> ~ D b -> bget o b s = bget a b s;
  mi_sound : forall b s e, bget n b s = Some e ->
     s < spb c /\ cand (ohp + 1) (ekey e) b /\
     exists b0 s0 e0, b0 < 2 ^ ohp /\ D b0 /\ bget a b0 s0 = Some e0 /\ e = live e0 /\
                      (b = b0 \/ b = b0 + 2 ^ ohp);
  mi_compl : forall b0 s0 e0, D b0 -> bget a b0 s0 = Some e0 -> exists b s, bget n b s = Some (live e0);
  mi_uniq : forall b1 s1 e1 b2 s2 e2,
     bget n b1 s1 = Some e1 -> bget n b2 s2 = Some e2 -> ekey e1 = ekey e2 -> b1 = b2 /\ s1 = s2;
  mi_g_done : forall b s, b < 2 ^ ohp -> D b -> bget g b s = None;
  mi_g_rest : forall b s, b < 2 ^ ohp -> ~ D b -> bget g b s = bget a b s;
  mi_g_out : forall b s, 2 ^ ohp <= b -> bget g b s = None;
  mi_count : (count_arr c n + count_arr c g = count_arr c a)%nat
}.

Lemma a_range b s e : bget a b s = Some e -> b < 2 ^ ohp /\ s < spb c.
Proof. intro E. rewrite <- Hbhp. apply (ao_range _ _ _ Ha _ _ _ E). Qed.

Lemma minv_ext D D' o n g :
  (forall b, b < 2 ^ ohp -> (D b <-> D' b)) -> minv D o n g -> minv D' o n g.
Proof.
  intros HD [M1 M2 M3 M4 M5 M6 M7 M8 M9 M10 M11 M12]. constructor; try assumption.
  - intros b s Hb Hn. apply M5; [exact Hb|]. intro F. apply Hn. apply HD; assumption.
  - intros b s e E. destruct (M6 b s e E) as [F1 [F2 [b0 [s0 [e0 [F3 [F4 F5]]]]]]].
    split; [exact F1|]. split; [exact F2|]. exists b0, s0, e0. split; [exact F3|].
    split; [apply HD; assumption|exact F5].
  - intros b0 s0 e0 Hd E. apply (M7 b0 s0 e0); [|exact E].
    apply HD; [apply (a_range b0 s0 e0 E)|exact Hd].
  - intros b s Hb Hd. apply M9; [exact Hb|]. apply HD; assumption.
  - intros b s Hb Hn. apply M10; [exact Hb|]. intro F. apply Hn. apply HD; assumption.
Qed.

Lemma minv_init : minv (fun _ => False) a (bnew (ohp + 1)) a.
Proof.
  constructor; try reflexivity; try assumption.
  - intros b s e E. rewrite bget_bnew in E. discriminate.
  - intros b0 s0 e0 F. contradiction.
  - intros b1 s1 e1 b2 s2 e2 E. rewrite bget_bnew in E. discriminate.
  - intros b s _ F. contradiction.
  - intros b s Hb. destruct (bget a b s) as [e|] eqn:E; [|reflexivity].
    destruct (a_range b s e E) as [F _]. lia.
  - rewrite count_arr_bnew. reflexivity.
Qed.

(* new buckets i and i + 2^ohp are still empty while old bucket i has not been moved *)
Lemma minv_empty D o n g i :
  minv D o n g -> i < 2 ^ ohp -> ~ D i ->
  (forall s, bget n i s = None) /\ (forall s, bget n (i + 2 ^ ohp) s = None).
Proof.
  intros M Hi Hn. split; intro s.
  - destruct (bget n i s) as [e|] eqn:E; [|reflexivity]. exfalso.
    destruct (mi_sound _ _ _ _ M _ _ _ E) as [_ [_ [b0 [s0 [e0 [F1 [F2 [_ [_ F5]]]]]]]]].
    destruct F5 as [F5|F5].
    + subst b0. contradiction.
    + set (p := 2 ^ ohp) in *. clearbody p. lia.
  - destruct (bget n (i + 2 ^ ohp) s) as [e|] eqn:E; [|reflexivity]. exfalso.
    destruct (mi_sound _ _ _ _ M _ _ _ E) as [_ [_ [b0 [s0 [e0 [F1 [F2 [_ [_ F5]]]]]]]]].
    destruct F5 as [F5|F5].
    + set (p := 2 ^ ohp) in *. clearbody p. lia.
    + assert (b0 = i) by (set (p := 2 ^ ohp) in *; clearbody p; lia). subst b0. contradiction.
Qed.

(* moving one not-yet-moved bucket *)
Lemma minv_step D o n g i :
  minv D o n g -> i < 2 ^ ohp -> ~ D i ->
  exists g',
    minv (fun b => D b \/ b = i)
         (fst (move_bucket_slots c hash o n i 0 0 (N.to_nat (spb c))))
         (snd (move_bucket_slots c hash o n i 0 0 (N.to_nat (spb c)))) g'.
Proof.
  intros M Hi Hn.
  destruct (minv_empty D o n g i M Hi Hn) as [He1 He2].
  destruct M as [M1 M2 M3 M4 M5 M6 M7 M8 M9 M10 M11 M12].
  assert (Hoi : forall s, bget o i s = bget a i s) by (intro s; apply M5; assumption).
  assert (HBr : forall s e, bget o i s = Some e -> s < spb c).
  { intros s e E. rewrite Hoi in E. apply (a_range i s e E). }
  assert (HBc : forall s e, bget o i s = Some e -> cand ohp (ekey e) i).
  { intros s e E. rewrite Hoi in E. rewrite <- Hbhp. apply (ao_place _ _ _ Ha _ _ _ E). }
  assert (HBu : forall s e s' e', bget o i s = Some e -> bget o i s' = Some e' -> ekey e = ekey e' -> s = s').
  { intros s e s' e' E E' Hk. rewrite Hoi in E, E'. apply (ao_uniq _ _ _ Ha _ _ _ _ _ _ E E' Hk). }
  assert (I0 : sinv ohp o n g i (count_arr c n + count_arr c g)%nat o n g 0 0).
  { apply sinv_init; try assumption; try reflexivity.
    intro s. rewrite Hoi. apply M10; assumption. }
  destruct (mbs_sinv ohp o n g i _ Hhp Hi HBr HBc HBu (N.to_nat (spb c)) o n g 0 0 I0) as [g' [ns' I]].
  rewrite N2Nat.id, N.add_0_l in I.
  destruct (move_bucket_slots c hash o n i 0 0 (N.to_nat (spb c))) as [o' n'].
  cbn [fst snd] in *.
  destruct I as [I1 I2 I3 I4 I5 I6 I7 I8 I9 I10 I11 I12 I13 I14 I15 I16 I17 I18].
  set (nb := i + 2 ^ ohp) in *.
  exists g'. constructor.
  - exact I1.
  - exact I2.
  - exact I3.
  - rewrite I4. exact M4.
  - intros b s Hb Hnd. rewrite I8 by (intro F; apply Hnd; right; exact F).
    apply M5; [exact Hb|]. intro F. apply Hnd. left. exact F.
  - intros b s e E.
    destruct (N.eq_dec b i) as [Ebi|Nbi]; [|destruct (N.eq_dec b nb) as [Ebn|Nbn]].
    + destruct (I10 b s e (or_introl Ebi) E) as [s0 [e0 [F1 [F2 [F3 [F4 [F5 F6]]]]]]].
      rewrite Hoi in F2. split; [rewrite (F5 Ebi); exact F1|]. split; [rewrite F3; exact F4|].
      exists i, s0, e0. split; [exact Hi|]. split; [right; reflexivity|]. split; [exact F2|].
      split; [exact F3|]. left. exact Ebi.
    + destruct (I10 b s e (or_intror Ebn) E) as [s0 [e0 [F1 [F2 [F3 [F4 [F5 F6]]]]]]].
      rewrite Hoi in F2. specialize (F6 Ebn). split; [lia|]. split; [rewrite F3; exact F4|].
      exists i, s0, e0. split; [exact Hi|]. split; [right; reflexivity|]. split; [exact F2|].
      split; [exact F3|]. right. exact Ebn.
    + rewrite I9 in E by assumption.
      destruct (M6 b s e E) as [F1 [F2 [b0 [s0 [e0 [F3 [F4 F5]]]]]]].
      split; [exact F1|]. split; [exact F2|]. exists b0, s0, e0. split; [exact F3|].
      split; [left; exact F4|exact F5].
  - intros b0 s0 e0 Hd E. destruct (N.eq_dec b0 i) as [Eb|Nb].
    + subst b0. assert (Hs0 : s0 < spb c) by (apply (a_range i s0 e0 E)).
      rewrite <- Hoi in E. destruct (I11 s0 e0 Hs0 E) as [H|[s' [_ H]]].
      * exists i, s0. exact H.
      * exists nb, s'. exact H.
    + destruct Hd as [Hd|Hd]; [|contradiction].
      destruct (M7 b0 s0 e0 Hd E) as [b [s H]]. exists b, s.
      rewrite I9; [exact H| |].
      * intro F. subst b. rewrite He1 in H. discriminate.
      * intro F. subst b. fold nb in He2. rewrite He2 in H. discriminate.
  - intros b1 s1 e1 b2 s2 e2 E1 E2 Hk.
    assert (Hcross : forall b s e b' s' e', (b = i \/ b = nb) -> ~ (b' = i \/ b' = nb) ->
              bget n' b s = Some e -> bget n' b' s' = Some e' -> ekey e = ekey e' -> False).
    { intros b s e b' s' e' Hin Hout E E' Hke.
      destruct (I10 b s e Hin E) as [s0 [e0 [_ [F2 [F3 _]]]]]. rewrite Hoi in F2.
      rewrite I9 in E' by (intro F; apply Hout; ((left; exact F) || (right; exact F))).
      destruct (M6 b' s' e' E') as [_ [_ [b0 [s0' [e0' [_ [G4 [G5 [G6 _]]]]]]]]].
      subst e e'. cbn [live ekey] in Hke.
      destruct (ao_uniq _ _ _ Ha _ _ _ _ _ _ F2 G5 Hke) as [Eb _]. subst b0. contradiction. }
    assert (Hdec : forall b, (b = i \/ b = nb) \/ ~ (b = i \/ b = nb)).
    { intro b. destruct (N.eq_dec b i) as [E|N1]; [left; left; exact E|].
      destruct (N.eq_dec b nb) as [E|N2]; [left; right; exact E|].
      right. intros [F|F]; contradiction. }
    destruct (Hdec b1) as [In1|Out1]; destruct (Hdec b2) as [In2|Out2].
    + apply (I12 b1 s1 e1 b2 s2 e2); assumption.
    + exfalso. apply (Hcross b1 s1 e1 b2 s2 e2); assumption.
    + exfalso. apply (Hcross b2 s2 e2 b1 s1 e1); try assumption. symmetry. exact Hk.
    + rewrite I9 in E1 by (intro F; apply Out1; ((left; exact F) || (right; exact F))).
      rewrite I9 in E2 by (intro F; apply Out2; ((left; exact F) || (right; exact F))).
      apply (M8 b1 s1 e1 b2 s2 e2); assumption.
  - intros b s Hb Hd. destruct (N.eq_dec b i) as [Eb|Nb].
    + subst b. destruct (N.lt_ge_cases s (spb c)) as [L|G].
      * apply I16. exact L.
      * rewrite I15 by exact G. destruct (bget o i s) as [e|] eqn:E; [|reflexivity].
        specialize (HBr s e E). lia.
    + destruct Hd as [Hd|Hd]; [|contradiction].
      rewrite I17 by exact Nb. apply M9; assumption.
  - intros b s Hb Hnd.
    assert (Nb : b <> i) by (intro F; apply Hnd; right; exact F).
    rewrite I17 by exact Nb. apply M10; [exact Hb|]. intro F. apply Hnd. left. exact F.
  - intros b s Hb.
    assert (Nb : b <> i) by lia.
    rewrite I17 by exact Nb. apply M11. exact Hb.
  - rewrite I18. exact M12.
Qed.

(* every old bucket moved: the new array is a well-formed table with the same contents *)
Lemma minv_final D o n g :
  minv D o n g -> (forall b, b < 2 ^ ohp -> D b) ->
  arr_ok n /\ bhp n = ohp + 1 /\ bdead n = false /\
  (forall k v, holds n k v <-> holds a k v) /\
  count_arr c n = count_arr c a.
Proof.
  intros [M1 M2 M3 M4 M5 M6 M7 M8 M9 M10 M11 M12] Hall.
  split; [|split; [exact M2|split; [exact M4|split]]].
  - constructor.
    + rewrite M2. exact Hhp.
    + intros b s e E. destruct (M6 b s e E) as [F1 [_ [b0 [s0 [e0 [F3 [_ [_ [_ F5]]]]]]]]].
      split; [|exact F1]. rewrite M2, pow2_succ_double.
      set (p := 2 ^ ohp) in *. clearbody p. lia.
    + intros b s e E. destruct (M6 b s e E) as [_ [_ [b0 [s0 [e0 [_ [_ [_ [F4 _]]]]]]]]].
      subst e. reflexivity.
    + intros b s e E. rewrite M2. apply (M6 b s e E).
    + intros b s e E. destruct (M6 b s e E) as [_ [_ [b0 [s0 [e0 [_ [_ [F3 [F4 _]]]]]]]]].
      subst e. cbn [live epart ekey]. apply (ao_tag _ _ _ Ha _ _ _ F3).
    + exact M8.
  - intros k v. split.
    + intros [b [s [e [E [Hk Hv]]]]].
      destruct (M6 b s e E) as [_ [_ [b0 [s0 [e0 [_ [_ [F3 [F4 _]]]]]]]]].
      subst e. exists b0, s0, e0. split; [exact F3|]. split; [exact Hk|exact Hv].
    + intros [b0 [s0 [e0 [E [Hk Hv]]]]].
      destruct (M7 b0 s0 e0 (Hall b0 (proj1 (a_range b0 s0 e0 E))) E) as [b [s H]].
      exists b, s, (live e0). split; [exact H|]. split; [exact Hk|exact Hv].
  - assert (Hg : count_arr c g = O).
    { apply count_arr_empty. intros b s. destruct (N.lt_ge_cases b (2 ^ ohp)) as [L|G].
      - apply M9; [exact L|apply Hall; exact L].
      - apply M11. exact G. }
    lia.
Qed.

Lemma move_bucket_minv D t g i :
  minv D (old t) (cur t) g -> i < 2 ^ ohp -> ~ D i ->
  exists g', minv (fun b => D b \/ b = i) (old (move_bucket c hash t i)) (cur (move_bucket c hash t i)) g'.
Proof.
  intros M Hi Hn. destruct (move_bucket_proj t i) as [E1 [E2 _]]. rewrite E1, E2.
  apply minv_step with (g := g); assumption.
Qed.

Lemma mab_minv n : forall t i g,
  minv (fun b => b < i) (old t) (cur t) g -> i + N.of_nat n <= 2 ^ ohp ->
  (exists g', minv (fun b => b < i + N.of_nat n)
                   (old (move_all_buckets c hash t i n)) (cur (move_all_buckets c hash t i n)) g') /\
  same_meta t (move_all_buckets c hash t i n).
Proof.
  induction n as [|n IH]; intros t i g M Hle.
  - cbn [move_all_buckets]. split; [|apply same_meta_refl].
    exists g. apply (minv_ext (fun b => b < i)); [|exact M]. intros b _. lia.
  - cbn [move_all_buckets].
    assert (Hi : i < 2 ^ ohp) by (set (p := 2 ^ ohp) in *; clearbody p; lia).
    assert (Hni : ~ i < i) by lia.
    assert (Hle' : i + 1 + N.of_nat n <= 2 ^ ohp) by (set (p := 2 ^ ohp) in *; clearbody p; lia).
    destruct (move_bucket_minv (fun b => b < i) t g i M Hi Hni) as [g1 M1].
    assert (M1' : minv (fun b => b < i + 1) (old (move_bucket c hash t i)) (cur (move_bucket c hash t i)) g1).
    { apply (minv_ext (fun b => b < i \/ b = i)); [|exact M1]. intros b _. lia. }
    destruct (IH (move_bucket c hash t i) (i + 1) g1 M1' Hle') as [[g2 M2] S2].
    split.
    + exists g2. apply (minv_ext (fun b => b < i + 1 + N.of_nat n)); [|exact M2]. intros b _. lia.
    + apply (same_meta_trans _ (move_bucket c hash t i)); [|exact S2].
      apply (move_bucket_proj t i).
Qed.

End Migrate.

(* Lemma 3: the immediate migration of a whole array *)
Theorem move_all_buckets_spec a ohp t :
  arr_ok a -> bhp a = ohp -> ohp + 1 < 62 ->
  old t = a -> cur t = bnew (ohp + 1) ->
  let t' := move_all_buckets c hash t 0 (N.to_nat (2 ^ ohp)) in
  arr_ok (cur t') /\ bhp (cur t') = ohp + 1 /\ bdead (cur t') = false /\
  (forall k v, holds (cur t') k v <-> holds a k v) /\
  count_arr c (cur t') = count_arr c a /\
  locks t' = locks t /\ same_meta t t' /\ bhp (old t') = ohp.
Proof.
  intros Ha Hb Hhp Ho Hcur t'.
  assert (M0 : minv ohp a (fun b => b < 0) (old t) (cur t) a).
  { rewrite Ho, Hcur. apply (minv_ext ohp a Ha Hb (fun _ => False)).
    - intros b _. lia.
    - apply minv_init; assumption. }
  destruct (mab_minv ohp a Hhp Ha Hb (N.to_nat (2 ^ ohp)) t 0 a M0) as [[g' M] S].
  { rewrite N2Nat.id. lia. }
  fold t' in M, S. rewrite N2Nat.id, N.add_0_l in M.
  destruct (minv_final ohp a Hhp Ha Hb _ _ _ _ M) as [F1 [F2 [F3 [F4 F5]]]].
  { intros b Hlt. exact Hlt. }
  split; [exact F1|]. split; [exact F2|]. split; [exact F3|]. split; [exact F4|].
  split; [exact F5|]. split; [apply S|]. split; [exact S|]. apply (mi_ohp _ _ _ _ _ _ M).
Qed.

(* ================================================================== 4. fast_double_body *)

(* ---- side facts ---- *)

Lemma rehash_all_settled n : forall t l, all_migrated t -> rehash_all c hash t l n = t.
Proof.
  induction n as [|n IH]; intros t l H; cbn [rehash_all]; [reflexivity|].
  rewrite (rehash_lock_settled c hash false t l H). apply IH. exact H.
Qed.

Lemma set_nrem_zero t : set_nrem t 0 = set_old (set_nrem_raw t 0) (bdealloc (old t)).
Proof. reflexivity. Qed.

Lemma set_nrem_fields t n :
  cur (set_nrem t n) = cur t /\ locks (set_nrem t n) = locks t /\ nrem (set_nrem t n) = n /\
  rc (set_nrem t n) = rc t /\ mlfn (set_nrem t n) = mlfn t /\ mlfd (set_nrem t n) = mlfd t /\
  mhp (set_nrem t n) = mhp t /\ workers (set_nrem t n) = workers t.
Proof. unfold set_nrem. destruct (n =? 0); repeat split. Qed.

Lemma set_nrem_nonzero t n : n <> 0 -> set_nrem t n = set_nrem_raw t n.
Proof. intro H. unfold set_nrem. apply N.eqb_neq in H. rewrite H. reflexivity. Qed.

Lemma all_migrated_locks t t' : locks t' = locks t -> all_migrated t -> all_migrated t'.
Proof. intros E H l Hin. apply H. unfold cur_locks in *. rewrite <- E. exact Hin. Qed.

Lemma cur_locks_locks t t' : locks t' = locks t -> cur_locks t' = cur_locks t.
Proof. intro E. unfold cur_locks. rewrite E. reflexivity. Qed.

Lemma kmax_pos : 0 < kmax c.
Proof. unfold kmax. apply pow2_pos. Qed.

Lemma lockind_spec b : lock_ind_gen (kmax c) b = b mod kmax c.
Proof. unfold kmax. apply lock_ind_gen_spec. apply (co_lbits _ Hc). Qed.

(* a lock array of at least min(kmax, 2^hp) stripes covers every bucket of hashpower hp *)
Lemma cover_min hp len :
  (N.to_nat (N.min (kmax c) (2 ^ hp)) <= len)%nat ->
  forall b, b < 2 ^ hp -> (N.to_nat (lock_ind_gen (kmax c) b) < len)%nat.
Proof.
  intros Hlen b Hb. rewrite lockind_spec.
  assert (H1 : b mod kmax c < kmax c) by (apply N.mod_lt; assert (H := kmax_pos); lia).
  assert (H2 : b mod kmax c <= b) by (apply N.mod_le; assert (H := kmax_pos); lia).
  set (m := b mod kmax c) in *. set (p := 2 ^ hp) in *. set (k := kmax c) in *. clearbody m p k.
  lia.
Qed.

(* ---- the common prefix of fast_double_body: finish pending work, grow the lock array,
        swap the arrays ---- *)
Definition fd_t3 (t : table) (new_hp : N) : table :=
  let t1 := set_nrem (rehash_all c hash t 0 (length (cur_locks t))) 0 in
  let t2 := maybe_resize_locks c t1 (wrap64 (N.shiftl 1 new_hp)) in
  set_cur (set_old t2 (cur t2)) (bnew new_hp).

Lemma fast_double_body_unfold mode t new_hp :
  fast_double_body c hash mode t new_hp =
  let t3 := fd_t3 t new_hp in
  let t4 :=
    if hashsize (bhp (old t3)) <? kmax c then
      set_nrem (move_all_buckets c hash t3 0 (N.to_nat (hashsize (bhp (old t3))))) 0
    else
      let t5 := set_nrem (set_all_unmigrated t3) (N.of_nat (length (cur_locks t3))) in
      if mode then rehash_with_workers c hash t5 else t5 in
  set_rc t4 (wrap64 (rc t4 + 1)).
Proof. reflexivity. Qed.

Lemma fd_t3_spec t :
  settled t -> bhp (cur t) + 1 < 62 ->
  let hp := bhp (cur t) in
  let t3 := fd_t3 t (hp + 1) in
  cur t3 = bnew (hp + 1) /\ old t3 = cur t /\ all_migrated t3 /\ locks t3 <> [] /\
  sum_cnt (cur_locks t3) = sum_cnt (cur_locks t) /\
  length (cur_locks t3) = Nat.max (length (cur_locks t)) (N.to_nat (N.min (kmax c) (2 ^ (hp + 1)))) /\
  nrem t3 = 0 /\ rc t3 = rc t /\ mlfn t3 = mlfn t /\ mlfd t3 = mlfd t /\ mhp t3 = mhp t /\
  workers t3 = workers t.
Proof.
  intros St Hhp hp t3. subst t3. unfold fd_t3.
  rewrite (rehash_all_settled _ t 0 (se_mig _ _ _ St)).
  rewrite (wrap64_shiftl_small (hp + 1)) by (subst hp; lia).
  set (t1 := set_nrem t 0).
  destruct (set_nrem_fields t 0) as [F1 [F2 [F3 [F4 [F5 [F6 [F7 F8]]]]]]]. fold t1 in F1, F2, F3, F4, F5, F6, F7, F8.
  assert (Hcl : cur_locks t1 = cur_locks t) by (apply cur_locks_locks; exact F2).
  set (t2 := maybe_resize_locks c t1 (2 ^ (hp + 1))).
  destruct (maybe_resize_locks_scalars c t1 (2 ^ (hp + 1))) as [G1 [G2 [G3 [G4 [G5 G6]]]]].
  fold t2 in G1, G2, G3, G4, G5, G6.
  cbn [cur old locks nrem rc mlfn mlfd mhp workers set_cur set_old].
  change (cur_locks (set_cur (set_old t2 (cur t2)) (bnew (hp + 1)))) with (cur_locks t2).
  split; [reflexivity|].
  split; [subst t2; rewrite maybe_resize_locks_cur; exact F1|].
  split.
  { apply (all_migrated_locks t2); [reflexivity|]. subst t2. apply maybe_resize_locks_all_migrated.
    apply (all_migrated_locks t); [exact F2|]. apply (se_mig _ _ _ St). }
  split.
  { subst t2. apply maybe_resize_locks_nonnil. rewrite F2. apply (se_locks _ _ _ St). }
  split.
  { subst t2. rewrite maybe_resize_locks_sum, Hcl. reflexivity. }
  split.
  { subst t2. rewrite maybe_resize_locks_length_eq, Hcl. reflexivity. }
  repeat split; congruence.
Qed.

(* ---- the small-table branch: immediate migration of all buckets ---- *)
Lemma fast_double_body_small mode t :
  settled t -> counted c t -> bhp (cur t) + 1 < 62 ->
  hashsize (bhp (cur t)) < kmax c ->
  let t' := fast_double_body c hash mode t (bhp (cur t) + 1) in
  settled t' /\ counted c t' /\ bhp (cur t') = bhp (cur t) + 1 /\
  (forall k v, holds (cur t') k v <-> holds (cur t) k v) /\
  rc t' = wrap64 (rc t + 1) /\ mlfn t' = mlfn t /\ mlfd t' = mlfd t /\ mhp t' = mhp t /\
  workers t' = workers t /\ nrem t' = 0 /\
  length (cur_locks t') = Nat.max (length (cur_locks t)) (N.to_nat (N.min (kmax c) (2 ^ (bhp (cur t) + 1)))).
Proof.
  intros St Hcnt Hhp Hsmall t'. subst t'. rewrite fast_double_body_unfold. cbv zeta.
  destruct (fd_t3_spec t St Hhp) as [T1 [T2 [T3 [T4 [T5 [T6 [T7 [T8 [T9 [T10 [T11 T12]]]]]]]]]]].
  cbv zeta in T1, T2, T3, T4, T5, T6, T7, T8, T9, T10, T11, T12.
  set (hp := bhp (cur t)) in *.
  set (t3 := fd_t3 t (hp + 1)) in *.
  rewrite T2. fold hp.
  assert (Hlt : (hashsize hp <? kmax c) = true) by (apply N.ltb_lt; exact Hsmall).
  rewrite Hlt. rewrite (hashsize_spec hp) by lia.
  destruct (move_all_buckets_spec (cur t) hp t3 (se_arr _ _ _ St) eq_refl Hhp T2 T1)
    as [A1 [A2 [A3 [A4 [A5 [A6 [[_ [A7 [A8 [A9 [A10 [A11 A12]]]]]] _]]]]]]].
  set (tm := move_all_buckets c hash t3 0 (N.to_nat (2 ^ hp))) in *.
  destruct (set_nrem_fields tm 0) as [F1 [F2 [F3 [F4 [F5 [F6 [F7 F8]]]]]]].
  set (t4 := set_nrem tm 0) in *.
  assert (Hcl : cur_locks t4 = cur_locks t3).
  { apply cur_locks_locks. rewrite F2. exact A6. }
  cbn [cur old locks nrem rc mlfn mlfd mhp workers set_rc].
  change (cur_locks (set_rc t4 (wrap64 (rc t4 + 1)))) with (cur_locks t4).
  split.
  { constructor; cbn [cur set_rc].
    - rewrite F1. exact A1.
    - rewrite F1. exact A3.
    - apply (all_migrated_locks t3); [cbn [locks set_rc]; rewrite F2; exact A6|exact T3].
    - cbn [locks set_rc]. rewrite F2, A6. exact T4.
    - intros b Hb. change (cur_locks (set_rc t4 (wrap64 (rc t4 + 1)))) with (cur_locks t4).
      rewrite Hcl, T6. rewrite F1, A2 in Hb.
      apply (cover_min (hp + 1)); [lia|exact Hb]. }
  split.
  { unfold counted. cbn [cur set_rc].
    change (cur_locks (set_rc t4 (wrap64 (rc t4 + 1)))) with (cur_locks t4).
    rewrite Hcl, T5, F1, A5. exact Hcnt. }
  split; [rewrite F1; exact A2|].
  split; [intros k v; rewrite F1; apply A4|].
  split; [rewrite F4, A8, T8; reflexivity|].
  split; [congruence|]. split; [congruence|]. split; [congruence|]. split; [congruence|].
  split; [exact F3|].
  rewrite Hcl. exact T6.
Qed.

(* ---- the large-table branch in locked-table mode: every stripe is migrated at once,
        stripe l moving old buckets l, l + kmax, l + 2 kmax, ... ---- *)

Section Stripes.
Variable ohp : N.
Variable a : barray.
Hypothesis Hhp : ohp + 1 < 62.
Hypothesis Ha : arr_ok a.
Hypothesis Hbhp : bhp a = ohp.

Notation minv := (minv ohp a).

(* old buckets already moved when stripe l has done j iterations of its loop *)
Definition Ds (l j b : N) : Prop :=
  b mod kmax c < l \/ (b mod kmax c = l /\ b / kmax c < j).

Lemma stripe_bucket_mod l j : l < kmax c -> (l + j * kmax c) mod kmax c = l.
Proof.
  intro Hl. rewrite N.mod_add by lia. apply N.mod_small. exact Hl.
Qed.

Lemma stripe_bucket_div l j : l < kmax c -> (l + j * kmax c) / kmax c = j.
Proof.
  intro Hl. rewrite N.div_add by lia. rewrite N.div_small by exact Hl. lia.
Qed.

Lemma stripe_bucket_eq l j b :
  l < kmax c -> (b = l + j * kmax c <-> b mod kmax c = l /\ b / kmax c = j).
Proof.
  intro Hl. split.
  - intros ->. split; [apply stripe_bucket_mod|apply stripe_bucket_div]; exact Hl.
  - intros [H1 H2]. assert (H := N.div_mod b (kmax c) ltac:(lia)).
    rewrite H1, H2 in H. rewrite H. lia.
Qed.

Lemma Ds_step l j b : l < kmax c -> ((Ds l j b \/ b = l + j * kmax c) <-> Ds l (j + 1) b).
Proof.
  intro Hl. unfold Ds. rewrite (stripe_bucket_eq l j b Hl).
  set (m := b mod kmax c). set (d := b / kmax c). clearbody m d. lia.
Qed.

Lemma Ds_not l j : l < kmax c -> ~ Ds l j (l + j * kmax c).
Proof.
  intro Hl. unfold Ds. rewrite stripe_bucket_mod, stripe_bucket_div by exact Hl. lia.
Qed.

Lemma Ds_done l j b :
  l < kmax c -> 2 ^ ohp <= l + j * kmax c -> b < 2 ^ ohp -> (Ds l j b <-> Ds (l + 1) 0 b).
Proof.
  intros Hl Hend Hb. unfold Ds.
  assert (Hk := kmax_pos).
  assert (H := N.div_mod b (kmax c) ltac:(lia)).
  assert (Hm : b mod kmax c < kmax c) by (apply N.mod_lt; lia).
  assert (Hd : b mod kmax c = l -> b / kmax c < j).
  { intro E. destruct (N.lt_ge_cases (b / kmax c) j) as [L|G]; [exact L|exfalso].
    assert (G' : kmax c * j <= kmax c * (b / kmax c)) by (apply N.mul_le_mono_l; exact G).
    rewrite E in H.
    replace (j * kmax c) with (kmax c * j) in Hend by apply N.mul_comm.
    set (p := 2 ^ ohp) in *. set (x := kmax c * (b / kmax c)) in *.
    set (y := kmax c * j) in *. clearbody p x y. lia. }
  clear H.
  set (m := b mod kmax c) in *. set (d := b / kmax c) in *. set (p := 2 ^ ohp) in *.
  set (k := kmax c) in *. clearbody m d p k.
  split.
  - intros [H1|[H1 _]]; left; lia.
  - intros [H1|[_ H1]]; [|lia].
    destruct (N.eq_dec m l) as [E|Ne]; [|left; lia].
    right. split; [exact E|]. apply Hd. exact E.
Qed.

(* the bucket loop of one stripe *)
Lemma rll_minv l (Hl : l < kmax c) n : forall t j g bi,
  bi = l + j * kmax c ->
  minv (Ds l j) (old t) (cur t) g ->
  exists j' g',
    minv (Ds l j') (old (rehash_lock_loop c hash t bi n)) (cur (rehash_lock_loop c hash t bi n)) g' /\
    same_meta t (rehash_lock_loop c hash t bi n) /\
    (2 ^ ohp <= l + j' * kmax c \/ j' = j + N.of_nat n).
Proof.
  induction n as [|n IH]; intros t j g bi Hbi M.
  - exists j, g. cbn [rehash_lock_loop]. split; [exact M|]. split; [apply same_meta_refl|right; lia].
  - cbn [rehash_lock_loop]. rewrite (mi_ohp _ _ _ _ _ _ M). rewrite hashsize_spec by lia.
    destruct (bi <? 2 ^ ohp) eqn:E.
    + apply N.ltb_lt in E.
      assert (Hnot : ~ Ds l j bi) by (rewrite Hbi; apply Ds_not; exact Hl).
      destruct (move_bucket_minv ohp a Hhp Ha Hbhp (Ds l j) t g bi M E Hnot) as [g1 M1].
      assert (M1' : minv (Ds l (j + 1)) (old (move_bucket c hash t bi)) (cur (move_bucket c hash t bi)) g1).
      { apply (minv_ext ohp a Ha Hbhp (fun b => Ds l j b \/ b = bi)); [|exact M1].
        intros b _. rewrite Hbi. apply Ds_step. exact Hl. }
      assert (Hbi' : bi + kmax c = l + (j + 1) * kmax c).
      { rewrite Hbi, N.mul_add_distr_r. lia. }
      destruct (IH (move_bucket c hash t bi) (j + 1) g1 (bi + kmax c) Hbi' M1') as [j' [g' [M' [S' Hj]]]].
      exists j', g'. split; [exact M'|]. split.
      * apply (same_meta_trans _ (move_bucket c hash t bi)); [apply (move_bucket_proj t bi)|exact S'].
      * destruct Hj as [Hj|Hj]; [left; exact Hj|right; lia].
    + apply N.ltb_ge in E. exists j, g. split; [exact M|]. split; [apply same_meta_refl|].
      left. rewrite <- Hbi. exact E.
Qed.

(* the state of the current lock array while stripes < l are done and stripes >= l are pending *)
Definition lk_state (S : Z) (l : N) (t : table) : Prop :=
  locks t <> [] /\ length (cur_locks t) = N.to_nat (kmax c) /\
  (forall j, (j < N.to_nat l)%nat -> mig (nth j (cur_locks t) dflt_lock) = true) /\
  (forall j, (N.to_nat l <= j < N.to_nat (kmax c))%nat -> mig (nth j (cur_locks t) dflt_lock) = false) /\
  sum_cnt (cur_locks t) = S.

Lemma rehash_lock_stripe S l t g :
  l < kmax c -> minv (Ds l 0) (old t) (cur t) g -> lk_state S l t ->
  (exists g', minv (Ds (l + 1) 0) (old (rehash_lock c hash false t l)) (cur (rehash_lock c hash false t l)) g') /\
  lk_state S (l + 1) (rehash_lock c hash false t l) /\
  same_scal t (rehash_lock c hash false t l).
Proof.
  intros Hl M [L1 [L2 [L3 [L4 L5]]]]. unfold rehash_lock.
  assert (Hmig : mig (lock_at t l) = false).
  { unfold lock_at. apply L4. lia. }
  rewrite Hmig.
  set (iters := N.to_nat (hashsize (bhp (old t)) / kmax c + 1)).
  assert (Hbi : l = l + 0 * kmax c) by lia.
  destruct (rll_minv l Hl iters t 0 g l Hbi M) as [j' [g' [M' [[S1 S2] Hj]]]].
  set (t1 := rehash_lock_loop c hash t l iters) in *.
  assert (Hend : 2 ^ ohp <= l + j' * kmax c).
  { destruct Hj as [Hj|Hj]; [exact Hj|].
    subst iters. rewrite (mi_ohp _ _ _ _ _ _ M), hashsize_spec in Hj by lia.
    rewrite N2Nat.id in Hj. rewrite Hj.
    assert (H := N.mul_succ_div_gt (2 ^ ohp) (kmax c) ltac:(lia)).
    rewrite <- N.add_1_r in H. rewrite N.add_0_l.
    replace ((2 ^ ohp / kmax c + 1) * kmax c) with (kmax c * (2 ^ ohp / kmax c + 1)) by apply N.mul_comm.
    set (p := 2 ^ ohp) in *. set (x := kmax c * (p / kmax c + 1)) in *. clearbody p x. lia. }
  assert (Hcl : cur_locks t1 = cur_locks t) by (apply cur_locks_locks; exact S1).
  assert (Hne1 : locks t1 <> []) by (rewrite S1; exact L1).
  set (f := fun lk : lockm => {| cnt := cnt lk; mig := true |}).
  assert (Hcl2 : cur_locks (upd_cur_lock t1 l f) = upd (N.to_nat l) f (cur_locks t)).
  { rewrite st_cur_locks_upd_cur_lock by exact Hne1. rewrite Hcl. reflexivity. }
  split; [|split].
  - exists g'. change (old (upd_cur_lock t1 l f)) with (old t1). change (cur (upd_cur_lock t1 l f)) with (cur t1).
    apply (minv_ext ohp a Ha Hbhp (Ds l j')); [|exact M'].
    intros b Hb. apply Ds_done; assumption.
  - unfold lk_state. rewrite Hcl2. split; [apply st_locks_upd_cur_lock_nonnil; exact Hne1|].
    split; [rewrite st_upd_length; exact L2|].
    assert (Hll : (N.to_nat l < length (cur_locks t))%nat) by lia.
    split; [|split].
    + intros j Hj'. destruct (Nat.eq_dec j (N.to_nat l)) as [->|Ne].
      * rewrite nth_upd_same by exact Hll. reflexivity.
      * rewrite nth_upd_other by congruence. apply L3. lia.
    + intros j Hj'. rewrite nth_upd_other by lia. apply L4. lia.
    + rewrite sum_cnt_upd by exact Hll. subst f. cbn [cnt]. lia.
  - destruct S2 as [B2 [B3 [B4 [B5 [B6 B7]]]]]. repeat split; assumption.
Qed.

Lemma ra_stripes S n : forall t l g,
  l + N.of_nat n <= kmax c -> minv (Ds l 0) (old t) (cur t) g -> lk_state S l t ->
  (exists g', minv (Ds (l + N.of_nat n) 0) (old (rehash_all c hash t l n)) (cur (rehash_all c hash t l n)) g') /\
  lk_state S (l + N.of_nat n) (rehash_all c hash t l n) /\
  same_scal t (rehash_all c hash t l n).
Proof.
  induction n as [|n IH]; intros t l g Hle M L.
  - cbn [rehash_all]. replace (l + N.of_nat 0) with l by lia.
    split; [exists g; exact M|]. split; [exact L|apply same_scal_refl].
  - cbn [rehash_all].
    destruct (rehash_lock_stripe S l t g ltac:(lia) M L) as [[g1 M1] [L1 S1]].
    destruct (IH (rehash_lock c hash false t l) (l + 1) g1 ltac:(lia) M1 L1) as [[g2 M2] [L2 S2]].
    replace (l + N.of_nat (Datatypes.S n)) with (l + 1 + N.of_nat n) by lia.
    split; [exists g2; exact M2|]. split; [exact L2|].
    apply (same_scal_trans _ (rehash_lock c hash false t l)); assumption.
Qed.

End Stripes.

Lemma nth_map_lt {A B} (f : A -> B) (l : list A) (d : A) (d' : B) j :
  (j < length l)%nat -> nth j (map f l) d' = f (nth j l d).
Proof.
  intro Hj. rewrite (nth_indep (map f l) d' (f d)) by (rewrite map_length; exact Hj).
  apply map_nth.
Qed.

(* the large-table branch, locked-table mode (every stripe migrated before returning).
   Extra hypothesis: the current lock array has at most kmax stripes ([settled] gives no
   upper bound on its length). *)
Lemma fast_double_body_locked t :
  settled t -> counted c t -> bhp (cur t) + 1 < 62 ->
  kmax c <= hashsize (bhp (cur t)) ->
  (length (cur_locks t) <= N.to_nat (kmax c))%nat ->
  let t' := fast_double_body c hash true t (bhp (cur t) + 1) in
  settled t' /\ counted c t' /\ bhp (cur t') = bhp (cur t) + 1 /\
  (forall k v, holds (cur t') k v <-> holds (cur t) k v) /\
  rc t' = wrap64 (rc t + 1) /\ mlfn t' = mlfn t /\ mlfd t' = mlfd t /\ mhp t' = mhp t /\
  workers t' = workers t /\ nrem t' = 0 /\
  length (cur_locks t') = Nat.max (length (cur_locks t)) (N.to_nat (N.min (kmax c) (2 ^ (bhp (cur t) + 1)))).
Proof.
  intros St Hcnt Hhp Hbig Hlen t'. subst t'. rewrite fast_double_body_unfold. cbv zeta.
  destruct (fd_t3_spec t St Hhp) as [T1 [T2 [T3 [T4 [T5 [T6 [T7 [T8 [T9 [T10 [T11 T12]]]]]]]]]]].
  cbv zeta in T1, T2, T3, T4, T5, T6, T7, T8, T9, T10, T11, T12.
  set (hp := bhp (cur t)) in *.
  set (t3 := fd_t3 t (hp + 1)) in *.
  rewrite T2. fold hp.
  assert (Hge : (hashsize hp <? kmax c) = false) by (apply N.ltb_ge; exact Hbig).
  rewrite Hge. rewrite (hashsize_spec hp) in Hbig by lia.
  assert (Hkpos := kmax_pos).
  assert (Hmin : N.min (kmax c) (2 ^ (hp + 1)) = kmax c).
  { apply N.min_l. rewrite pow2_succ_double. set (p := 2 ^ hp) in *. clearbody p. lia. }
  rewrite Hmin in T6.
  assert (HL : length (cur_locks t3) = N.to_nat (kmax c)) by lia.
  assert (HLnz : N.of_nat (length (cur_locks t3)) <> 0) by lia.
  rewrite (set_nrem_nonzero _ _ HLnz).
  set (t5 := set_nrem_raw (set_all_unmigrated t3) (N.of_nat (length (cur_locks t3)))).
  unfold rehash_with_workers.
  set (f := fun lk : lockm => {| cnt := cnt lk; mig := false |}).
  assert (Hcl5 : cur_locks t5 = map f (cur_locks t3)).
  { change (cur_locks t5) with (cur_locks (set_all_unmigrated t3)).
    unfold set_all_unmigrated. apply cur_locks_upd_last. exact T4. }
  assert (Ha := se_arr _ _ _ St).
  assert (M0 : minv hp (cur t) (Ds 0 0) (old t5) (cur t5) (cur t)).
  { change (old t5) with (old t3). change (cur t5) with (cur t3). rewrite T1, T2.
    apply (minv_ext hp (cur t) Ha eq_refl (fun _ => False)).
    - intros b _. unfold Ds. set (m := b mod kmax c). set (d := b / kmax c). clearbody m d. lia.
    - apply minv_init; [exact Hhp|exact Ha|reflexivity]. }
  assert (L0 : lk_state (sum_cnt (cur_locks t)) 0 t5).
  { unfold lk_state. rewrite Hcl5. split.
    - change (locks t5) with (upd_last (map f) (locks t3)). apply st_upd_last_nonnil. exact T4.
    - split; [rewrite map_length; exact HL|]. split; [intros j Hj; lia|]. split.
      + intros j Hj. rewrite (nth_map_lt f (cur_locks t3) dflt_lock dflt_lock j) by lia. reflexivity.
      + rewrite sum_cnt_map_same by (intro lk; reflexivity). exact T5. }
  assert (Hlen5 : length (cur_locks t5) = N.to_nat (kmax c)) by (apply L0).
  rewrite Hlen5.
  destruct (ra_stripes hp (cur t) Hhp Ha eq_refl (sum_cnt (cur_locks t)) (N.to_nat (kmax c)) t5 0 (cur t))
    as [[g' M] [[K1 [K2 [K3 [_ K5]]]] [R2 [R3 [R4 [R5 [R6 R7]]]]]]]; [lia|exact M0|exact L0|].
  set (tr := rehash_all c hash t5 0 (N.to_nat (kmax c))) in *.
  rewrite N2Nat.id, N.add_0_l in M, K3.
  destruct (minv_final hp (cur t) Hhp Ha eq_refl _ _ _ _ M) as [A1 [A2 [A3 [A4 A5]]]].
  { intros b _. unfold Ds. left. apply N.mod_lt. lia. }
  destruct (set_nrem_fields tr 0) as [F1 [F2 [F3 [F4 [F5 [F6 [F7 F8]]]]]]].
  set (t4 := set_nrem tr 0) in *.
  assert (Hcl : cur_locks t4 = cur_locks tr) by (apply cur_locks_locks; exact F2).
  cbn [cur old locks nrem rc mlfn mlfd mhp workers set_rc].
  change (cur_locks (set_rc t4 (wrap64 (rc t4 + 1)))) with (cur_locks t4).
  change (rc t5) with (rc t3) in R3. change (mlfn t5) with (mlfn t3) in R4.
  change (mlfd t5) with (mlfd t3) in R5. change (mhp t5) with (mhp t3) in R6.
  change (workers t5) with (workers t3) in R7.
  split.
  { constructor; cbn [cur set_rc].
    - rewrite F1. exact A1.
    - rewrite F1. exact A3.
    - intros lk Hin. change (cur_locks (set_rc t4 (wrap64 (rc t4 + 1)))) with (cur_locks t4) in Hin.
      rewrite Hcl in Hin. destruct (In_nth _ _ dflt_lock Hin) as [j [Hj Ej]].
      rewrite <- Ej. apply K3. lia.
    - cbn [locks set_rc]. rewrite F2. exact K1.
    - intros b Hb. change (cur_locks (set_rc t4 (wrap64 (rc t4 + 1)))) with (cur_locks t4).
      rewrite Hcl, K2. rewrite F1, A2 in Hb.
      apply (cover_min (hp + 1)); [rewrite Hmin; lia|exact Hb]. }
  split.
  { unfold counted. cbn [cur set_rc].
    change (cur_locks (set_rc t4 (wrap64 (rc t4 + 1)))) with (cur_locks t4).
    rewrite Hcl, K5, F1, A5. exact Hcnt. }
  split; [rewrite F1; exact A2|].
  split; [intros k v; rewrite F1; apply A4|].
  split; [rewrite F4, R3, T8; reflexivity|].
  split; [congruence|]. split; [congruence|]. split; [congruence|]. split; [congruence|].
  split; [exact F3|].
  rewrite Hcl, K2, Hmin. lia.
Qed.

(* Lemma 4: fast_double_body when the migration is not deferred *)
Theorem fast_double_body_immediate mode t :
  settled t -> counted c t -> bhp (cur t) + 1 < 62 ->
  (hashsize (bhp (cur t)) < kmax c \/
   (mode = true /\ (length (cur_locks t) <= N.to_nat (kmax c))%nat)) ->
  let t' := fast_double_body c hash mode t (bhp (cur t) + 1) in
  settled t' /\ counted c t' /\ bhp (cur t') = bhp (cur t) + 1 /\
  (forall k v, holds (cur t') k v <-> holds (cur t) k v) /\
  rc t' = wrap64 (rc t + 1) /\ mlfn t' = mlfn t /\ mlfd t' = mlfd t /\ mhp t' = mhp t /\
  workers t' = workers t /\ nrem t' = 0 /\
  length (cur_locks t') = Nat.max (length (cur_locks t)) (N.to_nat (N.min (kmax c) (2 ^ (bhp (cur t) + 1)))).
Proof.
  intros St Hcnt Hhp Hcase.
  destruct (N.lt_ge_cases (hashsize (bhp (cur t))) (kmax c)) as [L|G].
  - apply fast_double_body_small; assumption.
  - destruct Hcase as [L|[-> Hlen]]; [lia|].
    apply fast_double_body_locked; assumption.
Qed.

End Resize.
