(* L1 proofs: table doubling in the sequential model.
   1. the move decision of move_bucket (model-level content of C13's last clause)
   2. one bucket: move_bucket_slots splits old bucket b into new buckets b and b + 2^ohp
   3. whole-array immediate migration (move_all_buckets)
   4. fast_double_body in the immediate (non-deferred) cases                         *)
From Coq Require Import NArith ZArith List Bool Lia FMapPositive.
From LC Require Import gen.HashGen Bits Core Api InvDefs ArrLemmas Stats.
Import ListNotations.
Local Open Scope N_scope.

(* the element written into the new array: same key / value / tag, never a husk *)
Definition live (e : entry) : entry :=
  {| ekey := ekey e; eval := eval e; epart := epart e; ehusk := false |}.

Lemma ekey_live e : ekey (live e) = ekey e. Proof. reflexivity. Qed.
Lemma eval_live e : eval (live e) = eval e. Proof. reflexivity. Qed.
Lemma epart_live e : epart (live e) = epart e. Proof. reflexivity. Qed.
Lemma ehusk_live e : ehusk (live e) = false. Proof. reflexivity. Qed.

Section Resize.
Variable c : config.
Variable hash : N -> N.
Hypothesis Hc : cfg_ok c.

Notation arr_ok := (arr_ok c hash).
Notation settled := (settled c hash).
Notation cand := (cand hash).

(* ================================================================== 1. the move decision *)

(* the boolean [to_new] computed by move_bucket_slots for key k found in old bucket b *)
Definition to_new_b (ohp k b : N) : bool :=
  let h := hash k in
  let p := partial_key h in
  let old_ihash := index_hash ohp h in
  let old_ahash := alt_index ohp p old_ihash in
  let new_ihash := index_hash (ohp + 1) h in
  let new_ahash := alt_index (ohp + 1) p new_ihash in
  ((b =? old_ihash) && (new_ihash =? b + 2 ^ ohp)) || ((b =? old_ahash) && (new_ahash =? b + 2 ^ ohp)).

Lemma nbi_spec ohp b : ohp + 1 < 64 -> b < 2 ^ ohp -> wrap64 (b + hashsize ohp) = b + 2 ^ ohp.
Proof.
  intros Hhp Hb. rewrite hashsize_spec by lia. unfold wrap64. apply wrap_small.
  assert (H1 : 2 ^ (ohp + 1) <= 2 ^ 64) by (apply pow2_le_mono; lia).
  rewrite N.pow_add_r in H1. change (2 ^ 1) with 2 in H1.
  set (p := 2 ^ ohp) in *. set (q := 2 ^ 64) in *. clearbody p q. lia.
Qed.

Lemma move_decision_true ohp k b :
  to_new_b ohp k b = true -> cand (ohp + 1) k (b + 2 ^ ohp).
Proof.
  unfold to_new_b, InvDefs.cand, i2_of, i1_of. cbv zeta. intro H.
  apply orb_true_iff in H. destruct H as [H|H]; apply andb_true_iff in H; destruct H as [_ H];
    apply N.eqb_eq in H.
  - left. symmetry. exact H.
  - right. symmetry. exact H.
Qed.

Lemma move_decision_false ohp k b :
  ohp + 1 < 64 -> cand ohp k b -> to_new_b ohp k b = false -> cand (ohp + 1) k b.
Proof.
  unfold to_new_b, InvDefs.cand, i2_of, i1_of. cbv zeta. intros Hhp Hcand H.
  destruct (candidates_double ohp (hash k) Hhp) as [D1 D2]. cbv zeta in D1, D2.
  apply orb_false_iff in H. destruct H as [H1 H2].
  destruct Hcand as [E|E].
  - left. rewrite <- E in D1, H1. rewrite N.eqb_refl in H1. cbn [andb] in H1.
    apply N.eqb_neq in H1. destruct D1 as [D1|D1]; [symmetry; exact D1|contradiction].
  - right. rewrite <- E in D2, H2. rewrite N.eqb_refl in H2. cbn [andb] in H2.
    apply N.eqb_neq in H2. destruct D2 as [D2|D2]; [symmetry; exact D2|contradiction].
Qed.

(* Lemma 1, in the form asked for: the boolean of move_bucket_slots, with nb := wrap64 (b + hashsize ohp) *)
Theorem move_decision ohp k b :
  ohp + 1 < 62 -> b < 2 ^ ohp -> cand ohp k b ->
  let nb := wrap64 (b + hashsize ohp) in
  let h := hash k in
  let p := partial_key h in
  let old_ihash := index_hash ohp h in
  let old_ahash := alt_index ohp p old_ihash in
  let new_ihash := index_hash (ohp + 1) h in
  let new_ahash := alt_index (ohp + 1) p new_ihash in
  let to_new := ((b =? old_ihash) && (new_ihash =? nb)) || ((b =? old_ahash) && (new_ahash =? nb)) in
  nb = b + 2 ^ ohp /\
  (to_new = true -> cand (ohp + 1) k nb) /\
  (to_new = false -> cand (ohp + 1) k b).
Proof.
  intros Hhp Hb Hcand. cbv zeta. rewrite nbi_spec by lia.
  split; [reflexivity|]. split.
  - apply move_decision_true.
  - apply move_decision_false; [lia|exact Hcand].
Qed.

(* ================================================================== 2. one bucket *)

Lemma mbs_step_none oldb newb obi ns s n :
  bget oldb obi s = None ->
  move_bucket_slots c hash oldb newb obi ns s (S n) =
  move_bucket_slots c hash oldb newb obi ns (s + 1) n.
Proof. intro H. cbn [move_bucket_slots]. rewrite H. reflexivity. Qed.

Lemma mbs_step_some ohp oldb newb obi ns s n e :
  bget oldb obi s = Some e -> bhp oldb = ohp -> bhp newb = ohp + 1 -> ohp + 1 < 64 -> obi < 2 ^ ohp ->
  move_bucket_slots c hash oldb newb obi ns s (S n) =
  move_bucket_slots c hash (bset oldb obi s (Some (husk_of c e)))
     (bset newb (if to_new_b ohp (ekey e) obi then obi + 2 ^ ohp else obi)
                (if to_new_b ohp (ekey e) obi then ns else s) (Some (live e)))
     obi (if to_new_b ohp (ekey e) obi then ns + 1 else ns) (s + 1) n.
Proof.
  intros H Ho Hn Hhp Hb. cbn [move_bucket_slots]. rewrite H. cbv zeta.
  rewrite Ho, Hn. rewrite (nbi_spec ohp obi Hhp Hb). reflexivity.
Qed.

Lemma pow2_succ_double n : 2 ^ (n + 1) = 2 * 2 ^ n.
Proof. rewrite N.pow_add_r. change (2 ^ 1) with 2. lia. Qed.

Section OneBucket.
(* fixed data of one run of the slot loop *)
Variable ohp : N.            (* old hashpower *)
Variable a : barray.         (* the old array when the loop starts *)
Variable n0 : barray.        (* the new array when the loop starts *)
Variable g0 : barray.        (* ghost: the not-yet-moved part of the old array (for counting) *)
Variable obi : N.            (* the old bucket being split *)
Variable K : nat.            (* count_arr new + count_arr ghost, constant *)

Hypothesis Hhp : ohp + 1 < 62.
Hypothesis Hobi : obi < 2 ^ ohp.
Hypothesis HBrange : forall s e, bget a obi s = Some e -> s < spb c.
Hypothesis HBcand : forall s e, bget a obi s = Some e -> cand ohp (ekey e) obi.
Hypothesis HBuniq : forall s e s' e',
  bget a obi s = Some e -> bget a obi s' = Some e' -> ekey e = ekey e' -> s = s'.

Let nb := obi + 2 ^ ohp.

Record sinv (oldb newb g : barray) (ns s : N) : Prop := {
  iv_ohp : bhp oldb = ohp;
  iv_nhp : bhp newb = ohp + 1;
  iv_ghp : bhp g = ohp;
  iv_dead : bdead newb = bdead n0;
  iv_ns : ns <= s;
  iv_old_rest : forall s', s <= s' -> bget oldb obi s' = bget a obi s';
  iv_old_done : forall s', s' < s -> bget oldb obi s' = option_map (husk_of c) (bget a obi s');
  iv_old_other : forall b s', b <> obi -> bget oldb b s' = bget a b s';
  iv_frame : forall b s', b <> obi -> b <> nb -> bget newb b s' = bget n0 b s';
  iv_sound : forall b s' e', (b = obi \/ b = nb) -> bget newb b s' = Some e' ->
     exists s0 e0, s0 < s /\ bget a obi s0 = Some e0 /\ e' = live e0 /\ cand (ohp + 1) (ekey e0) b /\
       (b = obi -> s' = s0) /\ (b = nb -> s' < ns);
  iv_compl : forall s0 e0, s0 < s -> bget a obi s0 = Some e0 ->
     bget newb obi s0 = Some (live e0) \/ exists s', s' < ns /\ bget newb nb s' = Some (live e0);
  iv_uniq : forall b1 s1 e1 b2 s2 e2, (b1 = obi \/ b1 = nb) -> (b2 = obi \/ b2 = nb) ->
     bget newb b1 s1 = Some e1 -> bget newb b2 s2 = Some e2 -> ekey e1 = ekey e2 -> b1 = b2 /\ s1 = s2;
  iv_dense : forall s', s' < ns -> bget newb nb s' <> None;
  iv_order : forall s1 s2 e1 e2, bget newb nb s1 = Some e1 -> bget newb nb s2 = Some e2 -> s1 < s2 ->
     exists t1 t2 x1 x2, bget a obi t1 = Some x1 /\ bget a obi t2 = Some x2 /\
       e1 = live x1 /\ e2 = live x2 /\ t1 < t2;
  iv_g_rest : forall s', s <= s' -> bget g obi s' = bget a obi s';
  iv_g_done : forall s', s' < s -> bget g obi s' = None;
  iv_g_other : forall b s', b <> obi -> bget g b s' = bget g0 b s';
  iv_count : (count_arr c newb + count_arr c g = K)%nat
}.

Lemma nb_neq : obi <> nb.
Proof. subst nb. assert (H := pow2_pos ohp). set (p := 2 ^ ohp) in *. clearbody p. lia. Qed.

Lemma nb_lt : nb < 2 ^ (ohp + 1).
Proof. subst nb. rewrite pow2_succ_double. set (p := 2 ^ ohp) in *. clearbody p. lia. Qed.

Lemma obi_lt : obi < 2 ^ (ohp + 1).
Proof. rewrite pow2_succ_double. set (p := 2 ^ ohp) in *. clearbody p. lia. Qed.

(* the slot is empty in the old bucket: only the slot counter advances *)
Lemma sinv_step_none oldb newb g ns s :
  sinv oldb newb g ns s -> bget a obi s = None -> sinv oldb newb g ns (s + 1).
Proof.
  intros [I1 I2 I3 I4 I5 I6 I7 I8 I9 I10 I11 I12 I13 I14 I15 I16 I17 I18] Hn.
  constructor; try assumption.
  - lia.
  - intros s' Hs'. apply I6. lia.
  - intros s' Hs'. destruct (N.eq_dec s' s) as [->|Ne].
    + rewrite I6 by lia. rewrite Hn. reflexivity.
    + apply I7. lia.
  - intros b s' e' Hb E. destruct (I10 b s' e' Hb E) as [s0 [e0 [H1 H2]]].
    exists s0, e0. split; [lia|exact H2].
  - intros s0 e0 Hs0 E. destruct (N.eq_dec s0 s) as [->|Ne]; [congruence|].
    apply I11; [lia|exact E].
  - intros s' Hs'. apply I15. lia.
  - intros s' Hs'. destruct (N.eq_dec s' s) as [->|Ne].
    + rewrite I15 by lia. exact Hn.
    + apply I16. lia.
Qed.

(* the slot holds e and the decision is "stay": e is copied to (obi, s) *)
Lemma sinv_step_stay oldb newb g ns s e :
  sinv oldb newb g ns s -> bget a obi s = Some e -> to_new_b ohp (ekey e) obi = false ->
  sinv (bset oldb obi s (Some (husk_of c e))) (bset newb obi s (Some (live e))) (bset g obi s None)
       ns (s + 1).
Proof.
  intros [I1 I2 I3 I4 I5 I6 I7 I8 I9 I10 I11 I12 I13 I14 I15 I16 I17 I18] He Htn.
  assert (Hneq := nb_neq).
  assert (Hs : s < spb c) by (apply (HBrange s e He)).
  assert (Hempty : bget newb obi s = None).
  { destruct (bget newb obi s) as [e'|] eqn:E; [|reflexivity].
    destruct (I10 obi s e' (or_introl eq_refl) E) as [s0 [e0 [H1 [_ [_ [_ [H5 _]]]]]]].
    specialize (H5 eq_refl). lia. }
  assert (Hcand : cand (ohp + 1) (ekey e) obi).
  { apply move_decision_false; [lia|apply (HBcand s e He)|exact Htn]. }
  constructor.
  - rewrite bhp_bset. exact I1.
  - rewrite bhp_bset. exact I2.
  - rewrite bhp_bset. exact I3.
  - rewrite bdead_bset. exact I4.
  - lia.
  - intros s' Hs'. rewrite bget_bset_other by (right; lia). apply I6. lia.
  - intros s' Hs'. destruct (N.eq_dec s' s) as [->|Ne].
    + rewrite bget_bset_eq, He. reflexivity.
    + rewrite bget_bset_other by (right; lia). apply I7. lia.
  - intros b s' Hb. rewrite bget_bset_other by (left; congruence). apply I8. exact Hb.
  - intros b s' Hb1 Hb2. rewrite bget_bset_other by (left; congruence). apply I9; assumption.
  - intros b s' e' Hb E.
    destruct (bget_bset_cases newb obi s (Some (live e)) b s') as [[-> [-> Hx]]|[Hne Hx]]; rewrite Hx in E.
    + injection E as <-. exists s, e. split; [lia|]. split; [exact He|]. split; [reflexivity|].
      split; [exact Hcand|]. split; [reflexivity|]. intro F. contradiction.
    + destruct (I10 b s' e' Hb E) as [s0 [e0 [H1 H2]]]. exists s0, e0. split; [lia|exact H2].
  - intros s0 e0 Hs0 E. destruct (N.eq_dec s0 s) as [->|Ne].
    + left. rewrite bget_bset_eq. congruence.
    + destruct (I11 s0 e0 ltac:(lia) E) as [H|[s' [H1 H2]]].
      * left. rewrite bget_bset_other by (right; lia). exact H.
      * right. exists s'. split; [exact H1|]. rewrite bget_bset_other by (left; exact Hneq). exact H2.
  - intros b1 s1 e1 b2 s2 e2 Hb1 Hb2 E1 E2 Hk.
    destruct (bget_bset_cases newb obi s (Some (live e)) b1 s1) as [[-> [-> Hx1]]|[Hne1 Hx1]]; rewrite Hx1 in E1;
    destruct (bget_bset_cases newb obi s (Some (live e)) b2 s2) as [[-> [-> Hx2]]|[Hne2 Hx2]]; rewrite Hx2 in E2.
    + split; reflexivity.
    + exfalso. injection E1 as <-.
      destruct (I10 b2 s2 e2 Hb2 E2) as [s0 [e0 [H1 [H2 [H3 _]]]]]. subst e2.
      assert (s = s0) by (apply (HBuniq s e s0 e0 He H2); exact Hk). lia.
    + exfalso. injection E2 as <-.
      destruct (I10 b1 s1 e1 Hb1 E1) as [s0 [e0 [H1 [H2 [H3 _]]]]]. subst e1.
      assert (s = s0) by (apply (HBuniq s e s0 e0 He H2); symmetry; exact Hk). lia.
    + apply (I12 b1 s1 e1 b2 s2 e2); assumption.
  - intros s' Hs'. rewrite bget_bset_other by (left; exact Hneq). apply I13. exact Hs'.
  - intros s1 s2 e1 e2 E1 E2 Hlt.
    rewrite bget_bset_other in E1 by (left; exact Hneq).
    rewrite bget_bset_other in E2 by (left; exact Hneq).
    apply (I14 s1 s2 e1 e2); assumption.
  - intros s' Hs'. rewrite bget_bset_other by (right; lia). apply I15. lia.
  - intros s' Hs'. destruct (N.eq_dec s' s) as [->|Ne].
    + apply bget_bset_eq.
    + rewrite bget_bset_other by (right; lia). apply I16. lia.
  - intros b s' Hb. rewrite bget_bset_other by (left; congruence). apply I17. exact Hb.
  - assert (Hg : bget g obi s = Some e) by (rewrite I15 by lia; exact He).
    assert (C1 : count_arr c (bset newb obi s (Some (live e))) = S (count_arr c newb)).
    { apply count_arr_add; [rewrite I2; exact obi_lt|exact Hs|exact Hempty]. }
    assert (C2 : count_arr c g = S (count_arr c (bset g obi s None))).
    { apply (count_arr_del c g obi s e); [rewrite I3; exact Hobi|exact Hs|exact Hg]. }
    lia.
Qed.

(* the slot holds e and the decision is "move": e is appended to bucket nb at slot ns *)
Lemma sinv_step_move oldb newb g ns s e :
  sinv oldb newb g ns s -> bget a obi s = Some e -> to_new_b ohp (ekey e) obi = true ->
  sinv (bset oldb obi s (Some (husk_of c e))) (bset newb nb ns (Some (live e))) (bset g obi s None)
       (ns + 1) (s + 1).
Proof.
  intros [I1 I2 I3 I4 I5 I6 I7 I8 I9 I10 I11 I12 I13 I14 I15 I16 I17 I18] He Htn.
  assert (Hneq := nb_neq).
  assert (Hs : s < spb c) by (apply (HBrange s e He)).
  assert (Hempty : bget newb nb ns = None).
  { destruct (bget newb nb ns) as [e'|] eqn:E; [|reflexivity].
    destruct (I10 nb ns e' (or_intror eq_refl) E) as [s0 [e0 [H1 [_ [_ [_ [_ H6]]]]]]].
    specialize (H6 eq_refl). lia. }
  assert (Hcand : cand (ohp + 1) (ekey e) nb) by (apply move_decision_true; exact Htn).
  constructor.
  - rewrite bhp_bset. exact I1.
  - rewrite bhp_bset. exact I2.
  - rewrite bhp_bset. exact I3.
  - rewrite bdead_bset. exact I4.
  - lia.
  - intros s' Hs'. rewrite bget_bset_other by (right; lia). apply I6. lia.
  - intros s' Hs'. destruct (N.eq_dec s' s) as [->|Ne].
    + rewrite bget_bset_eq, He. reflexivity.
    + rewrite bget_bset_other by (right; lia). apply I7. lia.
  - intros b s' Hb. rewrite bget_bset_other by (left; congruence). apply I8. exact Hb.
  - intros b s' Hb1 Hb2. rewrite bget_bset_other by (left; congruence). apply I9; assumption.
  - intros b s' e' Hb E.
    destruct (bget_bset_cases newb nb ns (Some (live e)) b s') as [[-> [-> Hx]]|[Hne Hx]]; rewrite Hx in E.
    + injection E as <-. exists s, e. split; [lia|]. split; [exact He|]. split; [reflexivity|].
      split; [exact Hcand|]. split; [intro F; symmetry in F; contradiction|]. intros _. lia.
    + destruct (I10 b s' e' Hb E) as [s0 [e0 [H1 [H2 [H3 [H4 [H5 H6]]]]]]]. exists s0, e0.
      split; [lia|]. split; [exact H2|]. split; [exact H3|]. split; [exact H4|]. split; [exact H5|].
      intro F. specialize (H6 F). lia.
  - intros s0 e0 Hs0 E. destruct (N.eq_dec s0 s) as [->|Ne].
    + right. exists ns. split; [lia|]. rewrite bget_bset_eq. congruence.
    + destruct (I11 s0 e0 ltac:(lia) E) as [H|[s' [H1 H2]]].
      * left. rewrite bget_bset_other by (left; congruence). exact H.
      * right. exists s'. split; [lia|]. rewrite bget_bset_other by (right; lia). exact H2.
  - intros b1 s1 e1 b2 s2 e2 Hb1 Hb2 E1 E2 Hk.
    destruct (bget_bset_cases newb nb ns (Some (live e)) b1 s1) as [[-> [-> Hx1]]|[Hne1 Hx1]]; rewrite Hx1 in E1;
    destruct (bget_bset_cases newb nb ns (Some (live e)) b2 s2) as [[-> [-> Hx2]]|[Hne2 Hx2]]; rewrite Hx2 in E2.
    + split; reflexivity.
    + exfalso. injection E1 as <-.
      destruct (I10 b2 s2 e2 Hb2 E2) as [s0 [e0 [H1 [H2 [H3 _]]]]]. subst e2.
      assert (s = s0) by (apply (HBuniq s e s0 e0 He H2); exact Hk). lia.
    + exfalso. injection E2 as <-.
      destruct (I10 b1 s1 e1 Hb1 E1) as [s0 [e0 [H1 [H2 [H3 _]]]]]. subst e1.
      assert (s = s0) by (apply (HBuniq s e s0 e0 He H2); symmetry; exact Hk). lia.
    + apply (I12 b1 s1 e1 b2 s2 e2); assumption.
  - intros s' Hs'. destruct (N.eq_dec s' ns) as [->|Ne].
    + rewrite bget_bset_eq. discriminate.
    + rewrite bget_bset_other by (right; lia). apply I13. lia.
  - intros s1 s2 e1 e2 E1 E2 Hlt.
    destruct (bget_bset_cases newb nb ns (Some (live e)) nb s1) as [[_ [-> Hx1]]|[Hne1 Hx1]]; rewrite Hx1 in E1;
    destruct (bget_bset_cases newb nb ns (Some (live e)) nb s2) as [[_ [-> Hx2]]|[Hne2 Hx2]]; rewrite Hx2 in E2.
    + lia.
    + exfalso. destruct (I10 nb s2 e2 (or_intror eq_refl) E2) as [s0 [e0 [_ [_ [_ [_ [_ H6]]]]]]].
      specialize (H6 eq_refl). lia.
    + injection E2 as <-.
      destruct (I10 nb s1 e1 (or_intror eq_refl) E1) as [s0 [e0 [H1 [H2 [H3 _]]]]].
      exists s0, s, e0, e. repeat split; assumption.
    + apply (I14 s1 s2 e1 e2); assumption.
  - intros s' Hs'. rewrite bget_bset_other by (right; lia). apply I15. lia.
  - intros s' Hs'. destruct (N.eq_dec s' s) as [->|Ne].
    + apply bget_bset_eq.
    + rewrite bget_bset_other by (right; lia). apply I16. lia.
  - intros b s' Hb. rewrite bget_bset_other by (left; congruence). apply I17. exact Hb.
  - assert (Hg : bget g obi s = Some e) by (rewrite I15 by lia; exact He).
    assert (C1 : count_arr c (bset newb nb ns (Some (live e))) = S (count_arr c newb)).
    { apply count_arr_add; [rewrite I2; exact nb_lt|lia|exact Hempty]. }
    assert (C2 : count_arr c g = S (count_arr c (bset g obi s None))).
    { apply (count_arr_del c g obi s e); [rewrite I3; exact Hobi|exact Hs|exact Hg]. }
    lia.
Qed.

(* the loop: the invariant advances by n slots *)
Lemma mbs_sinv n : forall oldb newb g ns s,
  sinv oldb newb g ns s ->
  exists g' ns',
    sinv (fst (move_bucket_slots c hash oldb newb obi ns s n))
         (snd (move_bucket_slots c hash oldb newb obi ns s n)) g' ns' (s + N.of_nat n).
Proof.
  induction n as [|n IH]; intros oldb newb g ns s I.
  - exists g, ns. cbn [move_bucket_slots fst snd]. replace (s + N.of_nat 0) with s by lia. exact I.
  - replace (s + N.of_nat (S n)) with ((s + 1) + N.of_nat n) by lia.
    destruct (bget oldb obi s) as [e|] eqn:E.
    + assert (Ea : bget a obi s = Some e).
      { rewrite <- (iv_old_rest _ _ _ _ _ I s) by lia. exact E. }
      rewrite (mbs_step_some ohp oldb newb obi ns s n e E (iv_ohp _ _ _ _ _ I) (iv_nhp _ _ _ _ _ I))
        by (lia || exact Hobi).
      destruct (to_new_b ohp (ekey e) obi) eqn:Etn.
      * apply IH with (g := bset g obi s None). apply sinv_step_move; assumption.
      * apply IH with (g := bset g obi s None). apply sinv_step_stay; assumption.
    + assert (Ea : bget a obi s = None).
      { rewrite <- (iv_old_rest _ _ _ _ _ I s) by lia. exact E. }
      rewrite (mbs_step_none oldb newb obi ns s n E).
      apply IH with (g := g). apply sinv_step_none; assumption.
Qed.

End OneBucket.

End Resize.
