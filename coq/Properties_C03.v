(* C03 - element access is exclusive: the protocol statements.
   A functor runs inside a critical section (state CS): by C03_stripe_has_one_owner no other thread
   owns a stripe the running thread owns, by C03_critical_section_is_current the stripes it owns are
   those of the current array for the current table size (so they are the stripes of the element's
   two candidate buckets), and no whole-table operation runs.  Lost updates are excluded by
   linearizability of same-key read-modify-write programs, checked on the real library (T2).
   The data-race clause is partial: the model enumerates the accesses to size, generation and lock
   list only; the unsynchronised read of the lock list is a recorded finding (known_findings.txt).
   Statements only; closed by [exact] of lemmas of ConcInv.v. *)
From Coq Require Import NArith List.
From LC Require Import Conc ConcInv.
Import ListNotations.

Theorem C03_stripe_has_one_owner : forall hp0 rc0 arrs0, arrs_ok arrs0 -> forall s, reachable hp0 rc0 arrs0 s ->
  forall t1 t2 a l, holds_lock (sh_ s) (thr s t1) a l -> holds_lock (sh_ s) (thr s t2) a l -> t1 = t2.
Proof. exact single_owner. Qed.
Print Assumptions C03_stripe_has_one_owner.

Theorem C03_ownership_is_what_the_control_state_says : forall hp0 rc0 arrs0, arrs_ok arrs0 -> forall s, reachable hp0 rc0 arrs0 s ->
  forall t a l, g_held (sh_ s) a l = Some t <-> holds_lock (sh_ s) (thr s t) a l.
Proof. exact owner_iff. Qed.
Print Assumptions C03_ownership_is_what_the_control_state_says.

Theorem C03_critical_section_is_current : forall hp0 rc0 arrs0, arrs_ok arrs0 -> forall s, reachable hp0 rc0 arrs0 s ->
  forall t sn sa x r, thr s t = CS sn sa (x :: r) \/ (exists l, thr s t = CW sn sa (x :: r) l) ->
  sc sn = g_rc (sh_ s) /\ sh sn = g_hp (sh_ s) /\ sa + 1 = narr (sh_ s) /\ g_dirty (sh_ s) = false /\ (forall y, In y (x :: r) -> g_held (sh_ s) sa y = Some t /\ y < asz (sh_ s) sa) /\ (forall t', ~ all_holder (thr s t')).
Proof. exact validated_current. Qed.
Print Assumptions C03_critical_section_is_current.

Theorem C03_no_critical_section_during_whole_table_operation : forall hp0 rc0 arrs0 s t, arrs_ok arrs0 -> reachable hp0 rc0 arrs0 s ->
  validated (thr s t) -> forall t', ~ all_holder (thr s t').
Proof. exact validated_excludes_all_holder. Qed.
Print Assumptions C03_no_critical_section_during_whole_table_operation.
