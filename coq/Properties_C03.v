(* C03 - element access is exclusive: the protocol statements.
   A functor runs inside a critical section (state CS): by C03_stripe_has_one_owner no other thread
   owns a stripe the running thread owns, by C03_critical_section_is_current the stripes it owns are
   those of the current array for the current table size (so they are the stripes of the element's
   two candidate buckets), and no whole-table operation runs.  Lost updates are excluded by
   linearizability of same-key read-modify-write programs, checked on the real library (T2).
   The data-race clause: MemDefs.v / MemModel.v give a happens-before model of the acquire/release
   fragment the locks and the pending-stripes counter use.  The memory orders are read off the C++
   source on every run (gen/MemOrders.v): [C03_source_memory_orders_sufficient] fails to check if one
   is weakened; [C03_lock_protected_accesses_never_race] shows that a lock-well-formed execution in
   which every plain access is made under the lock protecting its location has no data race; the
   premise is checked on every T2 run (bucket accesses reported by a guarded hook), and the extracted
   detector [races] decides each run directly.  The unsynchronised read of the lock list is a recorded
   finding (known_findings.txt).
   Statements only; closed by [exact] of lemmas of ConcInv.v. *)
From Coq Require Import NArith List.
From LC Require Import Conc ConcInv.
Import ListNotations.

Theorem C03_stripe_has_one_owner : forall hp0 rc0 arrs0, arrs_ok arrs0 -> forall s, reachable hp0 rc0 arrs0 s ->
  forall t1 t2 a l, holds_lock (sh_ s) (thr s t1) a l -> holds_lock (sh_ s) (thr s t2) a l -> t1 = t2.
Proof. exact single_owner. Qed.
Print Assumptions C03_stripe_has_one_owner.

Theorem C03_ownership_is_what_the_control_state_says : forall hp0 rc0 arrs0, arrs_ok arrs0 -> forall s, reachable hp0 rc0 arrs0 s ->
  forall t a l, g_held (sh_ s) a l = Some t <-> holds_lock (sh_ s) (thr s t) a l.
Proof. exact owner_iff. Qed.
Print Assumptions C03_ownership_is_what_the_control_state_says.

Theorem C03_critical_section_is_current : forall hp0 rc0 arrs0, arrs_ok arrs0 -> forall s, reachable hp0 rc0 arrs0 s ->
  forall t sn sa x r, thr s t = CS sn sa (x :: r) \/ (exists l, thr s t = CW sn sa (x :: r) l) ->
  sc sn = g_rc (sh_ s) /\ sh sn = g_hp (sh_ s) /\ sa + 1 = narr (sh_ s) /\ g_dirty (sh_ s) = false /\ (forall y, In y (x :: r) -> g_held (sh_ s) sa y = Some t /\ y < asz (sh_ s) sa) /\ (forall t', ~ all_holder (thr s t')).
Proof. exact validated_current. Qed.
Print Assumptions C03_critical_section_is_current.

Theorem C03_no_critical_section_during_whole_table_operation : forall hp0 rc0 arrs0 s t, arrs_ok arrs0 -> reachable hp0 rc0 arrs0 s ->
  validated (thr s t) -> forall t', ~ all_holder (thr s t').
Proof. exact validated_excludes_all_holder. Qed.
Print Assumptions C03_no_critical_section_during_whole_table_operation.

(* ---- data-race clause: happens-before model with the memory orders of the source (MemDefs.v, MemModel.v) ---- *)
From LC Require Import gen.MemOrders MemDefs MemModel.
Theorem C03_source_memory_orders_sufficient :
  exists o : orders,
  orders_of_sites sites = Some o /\
  is_acq (o_tas o) = true /\
  is_rel (o_clr o) = true /\ is_acq (o_dec o) = true /\ is_rel (o_dec o) = true.
Proof. exact source_orders_sufficient. Qed.
Print Assumptions C03_source_memory_orders_sufficient.

Theorem C03_lock_protected_accesses_never_race :
  forall (o : orders) (prot : nat -> nat) (e : exec),
  is_acq (o_tas o) = true ->
  is_rel (o_clr o) = true -> wf_locks e = true -> protected_by prot e = true -> races o e = [].
Proof. exact lock_protected_race_free. Qed.
Print Assumptions C03_lock_protected_accesses_never_race.

Theorem C03_lock_protected_accesses_ordered_by_happens_before :
  forall (o : orders) (prot : nat -> nat) (e : exec),
  is_acq (o_tas o) = true ->
  is_rel (o_clr o) = true ->
  wf_locks e = true ->
  protected_by prot e = true ->
  forall (i j : nat) (a b : ev),
  i < j -> nth_error e i = Some a -> nth_error e j = Some b -> conflict a b = true -> hb o e i j.
Proof. exact lock_protected_hb. Qed.
Print Assumptions C03_lock_protected_accesses_ordered_by_happens_before.

Theorem C03_weaker_lock_orders_do_race :
  forall o : orders,
  (is_acq (o_tas o) && is_rel (o_clr o))%bool = false ->
  exists (prot : nat -> nat) (e : exec),
  wf_locks e = true /\ protected_by prot e = true /\ races o e <> [].
Proof. exact weak_lock_orders_race. Qed.
Print Assumptions C03_weaker_lock_orders_do_race.

Theorem C03_release_of_superseded_array_is_ordered :
  forall (o : orders) (e : exec) (Old : nat -> bool) (w tw dl : nat),
  (is_acq (o_dec o) && is_rel (o_dec o))%bool = true ->
  migration_shape e Old w tw dl ->
  (forall (i : nat) (a : ev),
  i < w -> nth_error e i = Some a -> acc_old Old a = true -> hb_b o e i w = true) /\
  (forall i : nat, ~ In (i, w) (races o e)).
Proof. exact last_decrement_frees_safely. Qed.
Print Assumptions C03_release_of_superseded_array_is_ordered.

Theorem C03_weaker_decrement_order_does_race :
  forall o : orders,
  (is_acq (o_dec o) && is_rel (o_dec o))%bool = false ->
  exists (e : exec) (Old : nat -> bool) (w tw dl : nat),
  migration_shape e Old w tw dl /\ (exists i : nat, In (i, w) (races o e)).
Proof. exact weak_decrement_race_shape. Qed.
Print Assumptions C03_weaker_decrement_order_does_race.

Theorem C03_detector_is_happens_before :
  forall (o : orders) (e : exec) (i j : nat), hb_b o e i j = true <-> hb o e i j.
Proof. exact hb_b_iff. Qed.
Print Assumptions C03_detector_is_happens_before.

Theorem C03_detector_reports_exactly_unordered_conflicts :
  forall (o : orders) (e : exec) (i j : nat),
  In (i, j) (races o e) <->
  i < j /\
  (exists a b : ev,
  nth_error e i = Some a /\ nth_error e j = Some b /\ conflict a b = true /\ hb_b o e i j = false).
Proof. exact races_spec. Qed.
Print Assumptions C03_detector_reports_exactly_unordered_conflicts.

Theorem C03_source_orders_race_free :
  forall o : orders,
  orders_of_sites sites = Some o ->
  (forall (prot : nat -> nat) (e : exec),
  wf_locks e = true -> protected_by prot e = true -> races o e = []) /\
  (forall (e : exec) (Old : nat -> bool) (w tw dl : nat),
  migration_shape e Old w tw dl -> forall i : nat, ~ In (i, w) (races o e)).
Proof. exact source_sites_race_free. Qed.
Print Assumptions C03_source_orders_race_free.
