(* C04, second half: the optimistic retry loop of the lock / snapshot protocol [Conc.v] cannot
   spin for ever on its own.  A validation failure (EC --LD_RC--> EF, a RETRY) of thread t needs
   a generation bump (FA_RC, once per completed resize) between the load of the snapshot it
   fails on and the failing check; hence in every run
       retries of t  <=  bumps + (1 if t entered the run with a stale snapshot else 0).
   Third part: [lock_all] / [unlock_all] are bounded loops: the number of acquisitions and
   array hops from ALL_FIRST to AH is exactly (stripes + arrays) of the arrays first..end as
   they are when AH is reached, the number of releases is exactly the number of stripes of
   first..last.
   Proofs only; no axioms.  Uses Conc.v (definitions) and ConcInv.v (tstepR, Inv). *)
From Coq Require Import NArith List Bool Arith Lia.
From LC Require Import Conc ConcInv.
Import ListNotations.

(* ================================================================== B1: runs, retries, bumps *)
Inductive run : gstate -> list (tid * label) -> gstate -> Prop :=
| run_nil : forall s, run s [] s
| run_cons : forall s t lb s1 tr s', gstep s t lb = Some s1 -> run s1 tr s' -> run s ((t, lb) :: tr) s'.

Lemma run_iff_replay : forall tr s s', run s tr s' <-> replay s tr = Some s'.
Proof.
  induction tr as [|[t lb] tr IH]; simpl; intros s s'.
  - split; intros H; [inversion H; subst; auto | inversion H; subst; constructor].
  - split; intros H.
    + inversion H; subst. match goal with E : gstep _ _ _ = Some _ |- _ => rewrite E end. now apply IH.
    + destruct (gstep s t lb) as [s1|] eqn:E; [|discriminate]. econstructor; eauto. now apply IH.
Qed.

Lemma run_app : forall tr1 tr2 s s1 s', run s tr1 s1 -> run s1 tr2 s' -> run s (tr1 ++ tr2) s'.
Proof.
  induction tr1 as [|[t lb] tr1 IH]; simpl; intros tr2 s s1 s' H1 H2.
  - inversion H1; subst; auto.
  - inversion H1; subst. econstructor; eauto.
Qed.

Lemma run_app_inv : forall tr1 tr2 s s', run s (tr1 ++ tr2) s' -> exists s1, run s tr1 s1 /\ run s1 tr2 s'.
Proof.
  induction tr1 as [|[t lb] tr1 IH]; simpl; intros tr2 s s' H.
  - exists s; split; auto; constructor.
  - inversion H; subst. match goal with R : run _ (tr1 ++ tr2) _ |- _ => destruct (IH _ _ _ R) as (s2 & R1 & R2) end.
    exists s2; split; auto. econstructor; eauto.
Qed.

Lemma run_reachable : forall hp0 rc0 arrs0 tr s s',
  reachable hp0 rc0 arrs0 s -> run s tr s' -> reachable hp0 rc0 arrs0 s'.
Proof.
  intros hp0 rc0 arrs0 tr s s' R H. apply run_iff_replay in H. eapply replay_reachable_from; eauto.
Qed.

Lemma run_Inv : forall tr s s', Inv s -> run s tr s' -> Inv s'.
Proof. intros tr s s' HI H. induction H; eauto using Inv_step. Qed.

(* a validation failure: the thread was holding its first stripe and about to re-load the
   generation, and ends up having to release *)
Definition is_fail (pre post : tstate) : bool :=
  match pre, post with EC _ _ _, EF _ _ => true | _, _ => false end.

Definition fail01 (pre post : tstate) : nat := if is_fail pre post then 1 else 0.

(* number of validation failures of thread [t] in the trace [tr] started in [s] *)
Fixpoint retries (t : tid) (s : gstate) (tr : list (tid * label)) : nat :=
  match tr with
  | [] => 0
  | (u, lb) :: r =>
      match gstep s u lb with
      | Some s1 => fail01 (thr s t) (thr s1 t) + retries t s1 r
      | None => 0
      end
  end.

Definition bump1 (lb : label) : nat := match lb with FA_RC => 1 | _ => 0 end.

(* number of generation bumps in the trace *)
Fixpoint bumps (tr : list (tid * label)) : nat :=
  match tr with [] => 0 | (_, lb) :: r => bump1 lb + bumps r end.

Lemma bumps_app : forall tr1 tr2, bumps (tr1 ++ tr2) = bumps tr1 + bumps tr2.
Proof. induction tr1 as [|[u lb] tr1 IH]; simpl; intros; auto. rewrite IH; lia. Qed.

Lemma retries_app : forall t tr1 tr2 s s1, run s tr1 s1 ->
  retries t s (tr1 ++ tr2) = retries t s tr1 + retries t s1 tr2.
Proof.
  induction tr1 as [|[u lb] tr1 IH]; simpl; intros tr2 s s1 H.
  - inversion H; subst; auto.
  - inversion H; subst. match goal with E : gstep _ _ _ = Some _ |- _ => rewrite E end.
    erewrite IH by eauto. lia.
Qed.

Lemma bumps_pos_In : forall tr, 0 < bumps tr -> exists u, In (u, FA_RC) tr.
Proof.
  induction tr as [|[u lb] tr IH]; simpl; intros H; [lia|].
  destruct lb; simpl in H; try (destruct (IH H) as (w & Hw); eauto; fail).
  exists u; auto.
Qed.

Lemma In_bumps_pos : forall tr u, In (u, FA_RC) tr -> 0 < bumps tr.
Proof.
  induction tr as [|[w lb] tr IH]; simpl; intros u H; [contradiction|].
  destruct H as [H | H]; [inversion H; subst; simpl; lia | apply IH in H; lia].
Qed.

(* ------------------------------------------------------------------ the generation counter *)
Lemma rc_tstepR : forall me g ts lb g' ts', tstepR me g ts lb g' ts' ->
  g_rc g' = (g_rc g + N.of_nat (bump1 lb))%N.
Proof.
  intros me g ts lb g' ts' H.
  destruct H as [ts lb ts' L | ts lb a l ts' A F | ts a l ts' R | first d v | first d n Hn | first d];
    [destruct L | destruct A | | | | ]; cbn; lia.
Qed.

Lemma rc_gstep : forall s t lb s', gstep s t lb = Some s' ->
  g_rc (sh_ s') = (g_rc (sh_ s) + N.of_nat (bump1 lb))%N.
Proof.
  intros s t lb s' H. apply gstep_inv in H. destruct H as (g' & ts' & HS & ->). cbn [sh_].
  eapply rc_tstepR; eauto.
Qed.

(* the generation counter counts the bumps exactly *)
Theorem rc_counts_bumps : forall tr s s', run s tr s' ->
  g_rc (sh_ s') = (g_rc (sh_ s) + N.of_nat (bumps tr))%N.
Proof.
  intros tr s s' H. induction H as [s | s t lb s1 tr s' E _ IH].
  - simpl; lia.
  - rewrite IH, (rc_gstep _ _ _ _ E). cbn [bumps]. lia.
Qed.

(* ------------------------------------------------------------------ carried snapshots *)
(* the generation value a thread carries as (part of) its snapshot *)
Definition snapc (ts : tstate) : option N :=
  match ts with
  | S1 c => Some c
  | E0 sn | E1 sn _ | EW sn _ _ | EC sn _ _ | CS sn _ _ | CW sn _ _ _ => Some (sc sn)
  | _ => None
  end.

(* 1 if the thread carries a snapshot that is not current any more, else 0 *)
Definition stale (g : shared) (ts : tstate) : nat :=
  match snapc ts with
  | Some c => if N.eqb c (g_rc g) then 0 else 1
  | None => 0
  end.

Lemma stale_le1 : forall g ts, stale g ts <= 1.
Proof. intros; unfold stale. destruct (snapc ts); [destruct (N.eqb _ _)|]; lia. Qed.

Lemma is_fail_refl : forall x, is_fail x x = false.
Proof. destruct x; reflexivity. Qed.

Ltac eqb_cases :=
  repeat match goal with
  | |- context [N.eqb ?a ?b] => destruct (N.eqb_spec a b)
  end.

(* the potential argument, own step: a failure consumes the staleness, and staleness can only
   appear through a bump *)
Lemma stale_own : forall me g ts lb g' ts', tstepR me g ts lb g' ts' ->
  fail01 ts ts' + stale g' ts' <= bump1 lb + stale g ts.
Proof.
  intros me g ts lb g' ts' H.
  destruct H as [ts lb ts' L | ts lb a l ts' A F | ts a l ts' R | first d v | first d n Hn | first d].
  - destruct L; unfold fail01, stale; cbn;
      repeat match goal with H : _ \/ _ |- _ => destruct H end; subst; cbn;
      eqb_cases; try lia; congruence.
  - destruct A; unfold fail01, stale; cbn; eqb_cases; try lia; congruence.
  - destruct R; unfold fail01, stale; cbn; eqb_cases; try lia; congruence.
  - unfold fail01, stale; cbn; lia.
  - unfold fail01, stale; cbn; lia.
  - unfold fail01, stale; cbn; lia.
Qed.

(* the potential argument, step of another thread *)
Lemma stale_frame : forall me g ts lb g' ts' x, tstepR me g ts lb g' ts' ->
  stale g' x <= bump1 lb + stale g x.
Proof.
  intros me g ts lb g' ts' x H. pose proof (rc_tstepR _ _ _ _ _ _ H) as E.
  unfold stale. destruct (snapc x) as [c|]; [|lia].
  eqb_cases; lia.
Qed.

Lemma stale_gstep : forall t s u lb s1, gstep s u lb = Some s1 ->
  fail01 (thr s t) (thr s1 t) + stale (sh_ s1) (thr s1 t) <= bump1 lb + stale (sh_ s) (thr s t).
Proof.
  intros t s u lb s1 H. apply gstep_inv in H. destruct H as (g' & ts' & HS & ->). cbn [sh_ thr].
  destruct (Nat.eq_dec t u) as [-> | Hne].
  - rewrite upd_thr_same. eapply stale_own; eauto.
  - rewrite upd_thr_other by auto. unfold fail01. rewrite is_fail_refl. simpl.
    eapply stale_frame; eauto.
Qed.

(* ================================================================== B2: retries <= bumps *)
(* exact accounting: staleness at the start is the only credit, staleness at the end is kept *)
Theorem retries_potential : forall t tr s s', run s tr s' ->
  retries t s tr + stale (sh_ s') (thr s' t) <= bumps tr + stale (sh_ s) (thr s t).
Proof.
  intros t tr s s' H. induction H as [s | s u lb s1 tr s' E _ IH].
  - simpl; lia.
  - cbn [retries bumps]. rewrite E. pose proof (stale_gstep t _ _ _ _ E). lia.
Qed.

Theorem retries_le_bumps_stale : forall t tr s s', run s tr s' ->
  retries t s tr <= bumps tr + stale (sh_ s) (thr s t).
Proof. intros t tr s s' H. pose proof (retries_potential t _ _ _ H). lia. Qed.

(* any start state (in particular any reachable one) *)
Theorem retries_le_bumps : forall t tr s s', run s tr s' -> retries t s tr <= bumps tr + 1.
Proof.
  intros t tr s s' H. pose proof (retries_le_bumps_stale t _ _ _ H).
  pose proof (stale_le1 (sh_ s) (thr s t)). lia.
Qed.

(* a thread that carries no snapshot, or a current one, at the start: no credit *)
Theorem retries_le_bumps_fresh : forall t tr s s', run s tr s' ->
  (forall c, snapc (thr s t) = Some c -> c = g_rc (sh_ s)) ->
  retries t s tr <= bumps tr.
Proof.
  intros t tr s s' H F. pose proof (retries_le_bumps_stale t _ _ _ H) as K.
  unfold stale in K. destruct (snapc (thr s t)) as [c|]; [|lia].
  rewrite (F c eq_refl), N.eqb_refl in K. lia.
Qed.

Theorem retries_le_bumps_init : forall hp0 rc0 arrs0 t tr s',
  run (ginit hp0 rc0 arrs0) tr s' -> retries t (ginit hp0 rc0 arrs0) tr <= bumps tr.
Proof. intros. eapply retries_le_bumps_fresh; eauto. simpl; discriminate. Qed.

Corollary retries_le_bumps_replay : forall hp0 rc0 arrs0 t tr s',
  replay (ginit hp0 rc0 arrs0) tr = Some s' -> retries t (ginit hp0 rc0 arrs0) tr <= bumps tr.
Proof. intros. eapply retries_le_bumps_init. apply run_iff_replay; eauto. Qed.

(* in terms of the counter itself *)
Corollary retries_le_rc_growth : forall t tr s s', run s tr s' ->
  (N.of_nat (retries t s tr) <= g_rc (sh_ s') - g_rc (sh_ s) + 1)%N.
Proof.
  intros t tr s s' H. pose proof (retries_le_bumps t _ _ _ H). pose proof (rc_counts_bumps _ _ _ H). lia.
Qed.

(* no resize completes => at most the one inherited failure, and none for a fresh thread *)
Corollary no_bump_no_retry : forall t tr s s', run s tr s' -> bumps tr = 0 ->
  retries t s tr <= stale (sh_ s) (thr s t).
Proof. intros t tr s s' H B. pose proof (retries_le_bumps_stale t _ _ _ H). lia. Qed.

(* ------------------------------------------------------------------ where a snapshot comes from *)
Definition is_load (t : tid) (e : tid * label) : bool :=
  Nat.eqb (fst e) t && match snd e with LD_RC _ => true | _ => false end.

(* thread t performs no load of the generation counter in the trace *)
Definition noload (t : tid) (tr : list (tid * label)) : Prop := Forall (fun e => is_load t e = false) tr.

Lemma snapc_own : forall me g ts lb g' ts' c, tstepR me g ts lb g' ts' -> snapc ts' = Some c ->
  (lb = LD_RC c /\ g_rc g = c) \/ (snapc ts = Some c /\ forall v, lb <> LD_RC v).
Proof.
  intros me g ts lb g' ts' c H.
  destruct H as [ts lb ts' L | ts lb a l ts' A F | ts a l ts' R | first d v | first d n Hn | first d];
    [destruct L | destruct A | destruct R | | | ]; cbn;
    repeat match goal with H : _ \/ _ |- _ => destruct H end; subst; cbn; intros E.
  all: try discriminate.
  all: try (left; split; congruence).
  all: right; split; [assumption | intros; discriminate].
Qed.

Lemma snapc_gstep : forall t s u lb s1 c, gstep s u lb = Some s1 -> snapc (thr s1 t) = Some c ->
  (u = t /\ lb = LD_RC c /\ g_rc (sh_ s) = c) \/ (snapc (thr s t) = Some c /\ is_load t (u, lb) = false).
Proof.
  intros t s u lb s1 c H. apply gstep_inv in H. destruct H as (g' & ts' & HS & ->). cbn [sh_ thr].
  destruct (Nat.eq_dec t u) as [-> | Hne].
  - rewrite upd_thr_same. intros E. destruct (snapc_own _ _ _ _ _ _ _ HS E) as [[-> K] | [K1 K2]]; auto.
    right; split; auto. unfold is_load; cbn. rewrite Nat.eqb_refl; cbn.
    destruct lb; auto. exfalso; eapply K2; eauto.
  - rewrite upd_thr_other by auto. intros E. right; split; auto.
    unfold is_load; cbn. apply Nat.eqb_neq in Hne. rewrite Nat.eqb_sym, Hne. reflexivity.
Qed.

(* the snapshot value a thread carries at the end of a run was either brought into the run
   untouched, or was loaded (as the then current generation) by the thread's last LD_RC step *)
Lemma snapshot_origin : forall t c tr s s', run s tr s' -> snapc (thr s' t) = Some c ->
  (snapc (thr s t) = Some c /\ noload t tr) \/
  (exists tr1 s1 s2 tr2, tr = tr1 ++ (t, LD_RC c) :: tr2 /\ run s tr1 s1 /\ g_rc (sh_ s1) = c /\
                         gstep s1 t (LD_RC c) = Some s2 /\ run s2 tr2 s' /\ noload t tr2).
Proof.
  intros t c tr s s' H. induction H as [s | s u lb s1 tr s' E R IH]; intros K.
  - left; split; auto. constructor.
  - destruct (IH K) as [[K1 NL] | (tr1 & sa & sb & tr2 & -> & R1 & C & G & R2 & NL)].
    + destruct (snapc_gstep _ _ _ _ _ _ E K1) as [(-> & -> & C) | [K0 L]].
      * right. exists [], s, s1, tr. repeat split; auto. constructor.
      * left; split; auto. constructor; auto.
    + right. exists ((u, lb) :: tr1), sa, sb, tr2. repeat split; auto. econstructor; eauto.
Qed.

(* shape of a failing step *)
Lemma fail_step_inv : forall t s u lb s', gstep s u lb = Some s' -> is_fail (thr s t) (thr s' t) = true ->
  u = t /\ exists sn sa l, thr s t = EC sn sa l /\ lb = LD_RC (g_rc (sh_ s)) /\ g_rc (sh_ s) <> sc sn /\
                          thr s' t = EF sa l /\ sh_ s' = sh_ s.
Proof.
  intros t s u lb s' H. apply gstep_inv in H. destruct H as (g' & ts' & HS & ->). cbn [sh_ thr].
  destruct (Nat.eq_dec t u) as [-> | Hne].
  - rewrite upd_thr_same. remember (thr s u) as ts eqn:Hts. intros F. split; auto.
    destruct HS as [ts lb ts' L | ts lb a l ts' A Fr | ts a l ts' R | first d v | first d n Hn | first d];
      [destruct L | destruct A | destruct R | | | ]; cbn in F; try discriminate F.
    eauto 10.
  - rewrite upd_thr_other by auto. rewrite is_fail_refl. discriminate.
Qed.

(* B2, the window statement.  Thread t fails its validation on the value c at the end of [tr].
   Then either it loaded c inside the run, by its last LD_RC step before the failure, and a
   bump happened after that load; or it brought c into the run and, if c was current at the
   start, a bump happened in the run. *)
Theorem retry_needs_bump_gen : forall t tr s s1 lb s' c,
  run s tr s1 -> gstep s1 t lb = Some s' -> is_fail (thr s1 t) (thr s' t) = true ->
  snapc (thr s1 t) = Some c ->
  (snapc (thr s t) = Some c /\ noload t tr /\ (c = g_rc (sh_ s) -> exists u, In (u, FA_RC) tr)) \/
  (exists tr1 tr2 u, tr = tr1 ++ (t, LD_RC c) :: tr2 /\ noload t tr2 /\ In (u, FA_RC) tr2).
Proof.
  intros t tr s s1 lb s' c R G F K.
  destruct (fail_step_inv _ _ _ _ _ G F) as (_ & sn & sa & l & Ht & _ & NE & _ & _).
  rewrite Ht in K; cbn in K. inversion K; subst c. clear K.
  assert (Ht' : snapc (thr s1 t) = Some (sc sn)) by (rewrite Ht; reflexivity).
  destruct (snapshot_origin _ _ _ _ _ R Ht') as [[K0 NL] | (tr1 & sa' & sb & tr2 & -> & R1 & C & G1 & R2 & NL)].
  - left. repeat split; auto. intros C. apply bumps_pos_In.
    pose proof (rc_counts_bumps _ _ _ R). lia.
  - right. pose proof (rc_counts_bumps _ _ _ R2) as B. pose proof (rc_gstep _ _ _ _ G1) as B1. cbn in B1.
    destruct (bumps_pos_In tr2) as (u & Hu); [lia|]. eauto 10.
Qed.

(* ... for a thread that entered the run without a snapshot (every run from [ginit]) *)
Theorem retry_needs_bump : forall t tr s s1 lb s' c,
  run s tr s1 -> snapc (thr s t) = None ->
  gstep s1 t lb = Some s' -> is_fail (thr s1 t) (thr s' t) = true -> snapc (thr s1 t) = Some c ->
  exists tr1 tr2 u, tr = tr1 ++ (t, LD_RC c) :: tr2 /\ noload t tr2 /\ In (u, FA_RC) tr2.
Proof.
  intros t tr s s1 lb s' c R N0 G F K.
  destruct (retry_needs_bump_gen _ _ _ _ _ _ _ R G F K) as [(K0 & _) | H]; auto. congruence.
Qed.

Corollary retry_needs_bump_init : forall hp0 rc0 arrs0 t tr s1 lb s' c,
  run (ginit hp0 rc0 arrs0) tr s1 ->
  gstep s1 t lb = Some s' -> is_fail (thr s1 t) (thr s' t) = true -> snapc (thr s1 t) = Some c ->
  exists tr1 tr2 u, tr = tr1 ++ (t, LD_RC c) :: tr2 /\ noload t tr2 /\ In (u, FA_RC) tr2.
Proof. intros. eapply retry_needs_bump; eauto. Qed.

(* ------------------------------------------------------------------ non-vacuity *)
(* thread 0 takes its snapshot, thread 1 performs a complete (empty) resize, thread 0 fails *)
Definition ex_pre : list (tid * label) :=
  [ (0, BEGIN 1); (0, LD_RC 0%N); (0, LD_HP 0%N); (0, CURLOCKS 0); (0, LOCKREQ 0 0);
    (1, BEGIN 3); (1, ALL_FIRST 0); (1, LOCKED 0 0); (1, ALL_NEXT false); (1, FA_RC);
    (1, UNLOCK 0 0); (1, NEXT 0) ].
Definition ex_suf : list (tid * label) := [ (0, LOCKED 0 0); (0, LD_RC 1%N); (0, UNLOCK 0 0) ].

(* from the initial state the bound [retries <= bumps] is attained *)
Example retries_bound_tight_init :
  replay (ginit 0 0 [1]) (ex_pre ++ ex_suf) <> None /\
  retries 0 (ginit 0 0 [1]) (ex_pre ++ ex_suf) = 1 /\ bumps (ex_pre ++ ex_suf) = 1.
Proof. split; [vm_compute; discriminate | vm_compute; auto]. Qed.

(* from a reachable state in which the thread carries a stale snapshot, [bumps + 1] is attained *)
Example retries_bound_tight_reachable :
  match replay (ginit 0 0 [1]) ex_pre with
  | Some s => replay s ex_suf <> None /\ retries 0 s ex_suf = 1 /\ bumps ex_suf = 0 /\
              stale (sh_ s) (thr s 0) = 1
  | None => False
  end.
Proof. vm_compute. split; [discriminate | auto]. Qed.

(* ================================================================== B3: lock_all / unlock_all are bounded loops *)
(* total size of the [n] lock arrays lo, lo+1, ... *)
Fixpoint sumsz (g : shared) (lo n : nat) : nat :=
  match n with 0 => 0 | S k => asz g lo + sumsz g (S lo) k end.

Lemma sumsz_snoc : forall g n lo, sumsz g lo (S n) = sumsz g lo n + asz g (lo + n).
Proof.
  induction n as [|n IH]; intros lo.
  - cbn [sumsz]. rewrite !Nat.add_0_r. lia.
  - change (sumsz g lo (S (S n))) with (asz g lo + sumsz g (S lo) (S n)).
    rewrite IH. cbn [sumsz]. replace (S lo + n) with (lo + S n) by lia. lia.
Qed.

Lemma sumsz_agree : forall g g' n lo, (forall b, lo <= b -> b < lo + n -> asz g' b = asz g b) ->
  sumsz g' lo n = sumsz g lo n.
Proof.
  induction n as [|n IH]; intros lo H; simpl; auto.
  rewrite H by lia. rewrite IH; auto. intros; apply H; lia.
Qed.

Lemma sumsz_ext : forall g g' lo n, arrs_ext g g' -> lo + n <= narr g -> sumsz g' lo n = sumsz g lo n.
Proof. intros. apply sumsz_agree. intros; apply ext_asz; auto; lia. Qed.

Lemma sumsz_app : forall g n m lo, sumsz g lo (n + m) = sumsz g lo n + sumsz g (lo + n) m.
Proof.
  induction n as [|n IH]; intros m lo; cbn [sumsz Nat.add].
  - now rewrite Nat.add_0_r.
  - rewrite IH. replace (S lo + n) with (lo + S n) by lia. lia.
Qed.

(* progress made by a thread that is acquiring every lock: [wl] units per acquired stripe and
   [wn] per array finished (the weights give the two counts separately from one proof) *)
Definition acq_doneW (wl wn : nat) (g : shared) (ts : tstate) : nat :=
  match ts with
  | AR first a i => wl * (sumsz g first (a - first) + i) + wn * (a - first)
  | AN first a => wl * (sumsz g first (a - first) + asz g a) + wn * (a - first)
  | AH first _ => wl * sumsz g first (narr g - first) + wn * (narr g - first)
  | _ => 0
  end.

Definition acquiring (first : nat) (ts : tstate) : Prop :=
  match ts with AR f _ _ | AN f _ | AH f _ => f = first | _ => False end.

Definition astepW (wl wn : nat) (lb : label) : nat :=
  match lb with LOCKED _ _ => wl | ALL_NEXT _ => wn | _ => 0 end.

Fixpoint astepsW (wl wn : nat) (t : tid) (tr : list (tid * label)) : nat :=
  match tr with
  | [] => 0
  | (u, lb) :: r => (if Nat.eqb u t then astepW wl wn lb else 0) + astepsW wl wn t r
  end.

(* acquisitions (LOCKED), array hops (ALL_NEXT) and both, of thread t in the trace *)
Definition locked_steps : tid -> list (tid * label) -> nat := astepsW 1 0.
Definition next_steps : tid -> list (tid * label) -> nat := astepsW 0 1.
Definition asteps : tid -> list (tid * label) -> nat := astepsW 1 1.

Lemma asteps_split : forall t tr, asteps t tr = locked_steps t tr + next_steps t tr.
Proof.
  unfold asteps, locked_steps, next_steps. induction tr as [|[u lb] tr IH]; cbn [astepsW]; auto.
  rewrite IH. destruct (Nat.eqb u t); destruct lb; cbn [astepW]; lia.
Qed.

(* the whole job, measured on the current list of arrays: stripes and arrays of first..end *)
Definition stripes_from (g : shared) (first : nat) : nat := sumsz g first (narr g - first).
Definition arrays_from (g : shared) (first : nat) : nat := narr g - first.
Definition acq_totalW (wl wn : nat) (g : shared) (first : nat) : nat :=
  wl * stripes_from g first + wn * arrays_from g first.

(* steps that end (UNLOCK) or re-dimension (EMPLACE, by the all-holder itself) the job *)
Definition ends_acq (t : tid) (e : tid * label) : bool :=
  Nat.eqb (fst e) t && match snd e with UNLOCK _ _ | EMPLACE _ => true | _ => false end.

Lemma acq_done_same : forall wl wn g g' ts, g_arrs g' = g_arrs g -> acq_doneW wl wn g' ts = acq_doneW wl wn g ts.
Proof.
  intros wl wn g g' ts E.
  assert (A : forall b, asz g' b = asz g b) by (intros; unfold asz; now rewrite E).
  assert (S : forall lo n, sumsz g' lo n = sumsz g lo n) by (intros; apply sumsz_agree; auto).
  assert (Nn : narr g' = narr g) by (unfold narr; now rewrite E).
  destruct ts; cbn [acq_doneW]; rewrite ?S, ?A, ?Nn; auto.
Qed.

Lemma acq_own : forall wl wn me g ts lb g' ts' first, tstepR me g ts lb g' ts' -> wf_ts g ts ->
  acquiring first ts -> (forall a l, lb <> UNLOCK a l) -> (forall n, lb <> EMPLACE n) ->
  acquiring first ts' /\ acq_doneW wl wn g' ts' = acq_doneW wl wn g ts + astepW wl wn lb.
Proof.
  intros wl wn me g ts lb g' ts' first H W AC NU NE.
  destruct H as [ts lb ts' L | ts lb a l ts' A F | ts a l ts' R | f d v | f d n Hn | f d].
  - destruct L; cbn in AC; try contradiction; subst; cbn [acquiring astepW]; split; auto;
      cbn [acq_doneW wf_ts] in *; try lia.
    + (* AN -> AH *)
      replace (narr g - first) with (S (a - first)) by lia.
      rewrite sumsz_snoc. replace (first + (a - first)) with a by lia. lia.
    + (* AN -> AR (S a) *)
      replace (S a - first) with (S (a - first)) by lia.
      rewrite sumsz_snoc. replace (first + (a - first)) with a by lia. lia.
  - rewrite (acq_done_same wl wn g (set_held g a l (Some me))) by reflexivity.
    destruct A; cbn in AC; try contradiction; subst; cbn [acquiring astepW acq_doneW]; split; auto; lia.
  - exfalso. eapply NU; eauto.
  - rewrite (acq_done_same wl wn g (g_sthp g v)) by reflexivity. cbn [acquiring astepW] in *. split; auto.
  - exfalso. eapply NE; eauto.
  - rewrite (acq_done_same wl wn g (g_bump g)) by reflexivity. cbn [acquiring astepW] in *. split; auto.
Qed.

(* steps of the other threads do not touch the progress made *)
Lemma acq_frame : forall wl wn s t u lb g' ts' first, Inv s -> u <> t ->
  tstepR u (sh_ s) (thr s u) lb g' ts' -> acquiring first (thr s t) ->
  acq_doneW wl wn g' (thr s t) = acq_doneW wl wn (sh_ s) (thr s t).
Proof.
  intros wl wn s t u lb g' ts' first HI Hne HS AC.
  pose proof (i_wf _ HI t) as W. pose proof (tstepR_ext _ _ _ _ _ _ HS) as EX.
  destruct (thr s t) eqn:Et; cbn in AC; try contradiction; subst; cbn [acq_doneW wf_ts] in *.
  - rewrite (sumsz_ext _ _ _ _ EX) by lia. reflexivity.
  - rewrite (sumsz_ext _ _ _ _ EX) by lia. rewrite (ext_asz _ _ _ EX) by lia. reflexivity.
  - destruct (tstepR_data _ _ _ _ _ _ HS) as [D | A].
    + change (acq_doneW wl wn g' (AH first d) = acq_doneW wl wn (sh_ s) (AH first d)).
      apply acq_done_same. apply D.
    + exfalso. destruct (thr s u) eqn:Eu; simpl in A; try tauto.
      apply Hne. eapply one_ah; eauto.
Qed.

Lemma acq_gstep : forall wl wn t s u lb s1 first, Inv s -> gstep s u lb = Some s1 ->
  acquiring first (thr s t) -> ends_acq t (u, lb) = false ->
  acquiring first (thr s1 t) /\
  acq_doneW wl wn (sh_ s1) (thr s1 t) =
    acq_doneW wl wn (sh_ s) (thr s t) + (if Nat.eqb u t then astepW wl wn lb else 0).
Proof.
  intros wl wn t s u lb s1 first HI H AC NE. apply gstep_inv in H. destruct H as (g' & ts' & HS & ->). cbn [sh_ thr].
  destruct (Nat.eq_dec u t) as [-> | Hne].
  - rewrite upd_thr_same, Nat.eqb_refl. unfold ends_acq in NE; cbn in NE. rewrite Nat.eqb_refl in NE; cbn in NE.
    eapply acq_own; eauto using i_wf; intros; intros ->; discriminate.
  - rewrite upd_thr_other by auto. apply Nat.eqb_neq in Hne as Hb. rewrite Hb. split; auto.
    rewrite Nat.add_0_r. eapply acq_frame; eauto.
Qed.

(* lock_all: as long as the thread neither starts releasing nor appends an array itself, it stays
   in the acquisition (or in AH) and its progress is exactly the (weighted) number of its
   LOCKED / ALL_NEXT steps - whatever the other threads do meanwhile, including appending arrays *)
Theorem lock_all_progress : forall wl wn t first tr s s', run s tr s' -> Inv s ->
  acquiring first (thr s t) -> Forall (fun e => ends_acq t e = false) tr ->
  acquiring first (thr s' t) /\
  acq_doneW wl wn (sh_ s') (thr s' t) = acq_doneW wl wn (sh_ s) (thr s t) + astepsW wl wn t tr.
Proof.
  intros wl wn t first tr s s' H. induction H as [s | s u lb s1 tr s' E R IH]; intros HI AC NE.
  - split; [auto | cbn [astepsW]; lia].
  - inversion NE as [|x y NE1 NE2]; subst.
    destruct (acq_gstep wl wn _ _ _ _ _ _ HI E AC NE1) as [AC1 D1].
    destruct (IH (Inv_step _ _ _ _ HI E) AC1 NE2) as [AC2 D2].
    split; auto. cbn [astepsW]. lia.
Qed.

Lemma acq_done_le_total : forall wl wn g ts first, wf_ts g ts -> acquiring first ts ->
  acq_doneW wl wn g ts <= acq_totalW wl wn g first.
Proof.
  intros wl wn g ts first W AC. unfold acq_totalW, stripes_from, arrays_from.
  destruct ts; cbn in AC; try contradiction; subst; cbn [acq_doneW wf_ts] in *.
  - replace (narr g - first) with ((a - first) + S (narr g - S a)) by lia.
    rewrite sumsz_app. replace (first + (a - first)) with a by lia. cbn [sumsz].
    apply Nat.add_le_mono; apply Nat.mul_le_mono_l; lia.
  - replace (narr g - first) with ((a - first) + S (narr g - S a)) by lia.
    rewrite sumsz_app. replace (first + (a - first)) with a by lia. cbn [sumsz].
    apply Nat.add_le_mono; apply Nat.mul_le_mono_l; lia.
  - lia.
Qed.

(* the bound, measured on the list of arrays at the end of the run *)
Theorem lock_all_bounded : forall t first tr s s', run s tr s' -> Inv s ->
  acquiring first (thr s t) -> Forall (fun e => ends_acq t e = false) tr ->
  locked_steps t tr <= stripes_from (sh_ s') first /\
  next_steps t tr <= arrays_from (sh_ s') first /\
  asteps t tr <= stripes_from (sh_ s') first + arrays_from (sh_ s') first.
Proof.
  intros t first tr s s' R HI AC NE.
  pose proof (i_wf _ (run_Inv _ _ _ HI R) t) as W.
  assert (K : forall wl wn, astepsW wl wn t tr <= acq_totalW wl wn (sh_ s') first).
  { intros wl wn. destruct (lock_all_progress wl wn _ _ _ _ _ R HI AC NE) as [AC' D].
    pose proof (acq_done_le_total wl wn _ _ _ W AC'). lia. }
  pose proof (K 1 0) as K10. pose proof (K 0 1) as K01. unfold acq_totalW in *.
  rewrite asteps_split. unfold locked_steps, next_steps. lia.
Qed.

(* from the first request (just after ALL_FIRST) to AH: exactly one acquisition per stripe and
   one hop per array of first..end, as they are when AH is reached *)
Theorem lock_all_exact : forall t first tr s s' d, run s tr s' -> Inv s ->
  thr s t = AR first first 0 -> Forall (fun e => ends_acq t e = false) tr ->
  thr s' t = AH first d ->
  locked_steps t tr = stripes_from (sh_ s') first /\
  next_steps t tr = arrays_from (sh_ s') first /\
  asteps t tr = stripes_from (sh_ s') first + arrays_from (sh_ s') first.
Proof.
  intros t first tr s s' d R HI Ht NE Ht'.
  assert (AC : acquiring first (thr s t)) by (rewrite Ht; reflexivity).
  assert (K : forall wl wn, astepsW wl wn t tr = acq_totalW wl wn (sh_ s') first).
  { intros wl wn. destruct (lock_all_progress wl wn _ _ _ _ _ R HI AC NE) as [_ D].
    rewrite Ht, Ht' in D. cbn [acq_doneW] in D. rewrite Nat.sub_diag in D. cbn [sumsz] in D.
    unfold acq_totalW, stripes_from, arrays_from. lia. }
  pose proof (K 1 0) as K10. pose proof (K 0 1) as K01. unfold acq_totalW in *.
  rewrite asteps_split. unfold locked_steps, next_steps. lia.
Qed.

(* ------------------------------------------------------------------ own steps including requests *)
(* FINDING (model, not library): in [Conc.tstep] the request step of the whole-table
   acquisition, [AR first a i --LOCKREQ a i--> AR first a i], does not change the state, so the
   model admits any number of repeated requests and the number of OWN STEPS from A0 to AH is not
   bounded in the model; only the number of acquisitions and hops is.  (The library issues one
   request per acquisition; the same holds for the stripe loop [E1 -> EW], which the model does
   get right.)  The bound on all own steps therefore needs the discipline "one LOCKREQ per
   LOCKED" as a hypothesis on the trace.
   Other loops of the model that are unbounded by design (data-dependent, bounded elsewhere):
   [A0 --LD_HP--> A0], every step of [AH] (the resize work), the loads of a validated [CS], and
   the [CS -> CW -> CS -> UNLOCK] cycle (displacement episodes; see InsertLemmas for the path
   length).  None of them is a retry: the only backward edge of the snapshot protocol is
   [EF --UNLOCK--> S0], counted by [retries]. *)
Lemma lockreq_stutter : forall s t first a i s1, thr s t = AR first a i ->
  gstep s t (LOCKREQ a i) = Some s1 -> sh_ s1 = sh_ s /\ forall u, thr s1 u = thr s u.
Proof.
  intros s t first a i s1 Ht H. unfold gstep in H. rewrite Ht in H. unfold tstep in H. cbv beta iota in H.
  rewrite !Nat.eqb_refl in H. cbn [andb] in H. destruct (Nat.ltb i (asz (sh_ s) a)); [|discriminate].
  inversion H; subst; clear H. cbn [sh_ thr]. split; auto. intros u.
  destruct (Nat.eq_dec u t) as [-> | Hne]; [now rewrite upd_thr_same | now rewrite upd_thr_other].
Qed.

Example lockreq_unbounded : forall n,
  replay (ginit 0 0 [1]) ([(0, BEGIN 3); (0, ALL_FIRST 0)] ++ repeat (0, LOCKREQ 0 0) n) <> None.
Proof.
  intros n. change (replay (ginit 0 0 [1]) ([(0, BEGIN 3); (0, ALL_FIRST 0)] ++ repeat (0, LOCKREQ 0 0) n))
    with (replay {| sh_ := sh_ (ginit 0 0 [1]); thr := upd_thr (upd_thr (thr (ginit 0 0 [1])) 0 A0) 0 (AR 0 0 0) |}
            (repeat (0, LOCKREQ 0 0) n)).
  set (s0 := {| sh_ := sh_ (ginit 0 0 [1]); thr := upd_thr (upd_thr (thr (ginit 0 0 [1])) 0 A0) 0 (AR 0 0 0) |}).
  assert (K : forall s, sh_ s = sh_ s0 -> thr s 0 = AR 0 0 0 -> replay s (repeat (0, LOCKREQ 0 0) n) <> None).
  { induction n as [|n IH]; intros s E1 E2; cbn [repeat replay]; [discriminate|].
    unfold gstep. rewrite E2, E1. cbn. apply IH; cbn; auto. }
  apply K; reflexivity.
Qed.

(* labels of thread t, in order *)
Fixpoint own (t : tid) (tr : list (tid * label)) : list label :=
  match tr with
  | [] => []
  | (u, lb) :: r => if Nat.eqb u t then lb :: own t r else own t r
  end.

(* one request per acquisition: no LOCKREQ while a request is pending, none pending at the end *)
Fixpoint req_disc (pending : bool) (ls : list label) : bool :=
  match ls with
  | [] => negb pending
  | LOCKREQ _ _ :: r => negb pending && req_disc true r
  | LOCKED _ _ :: r => req_disc false r
  | _ :: r => req_disc pending r
  end.

Definition acq_label (lb : label) : bool :=
  match lb with LOCKREQ _ _ | LOCKED _ _ | ALL_NEXT _ => true | _ => false end.

Lemma astepsW_own : forall wl wn t tr,
  astepsW wl wn t tr = fold_right (fun lb n => astepW wl wn lb + n) 0 (own t tr).
Proof.
  induction tr as [|[u lb] tr IH]; cbn [astepsW own fold_right]; auto.
  destruct (Nat.eqb u t); cbn [fold_right]; rewrite IH; lia.
Qed.

Lemma req_disc_count : forall ls p, forallb acq_label ls = true -> req_disc p ls = true ->
  length ls + (if p then 1 else 0) <=
    2 * fold_right (fun lb n => astepW 1 0 lb + n) 0 ls + fold_right (fun lb n => astepW 0 1 lb + n) 0 ls.
Proof.
  induction ls as [|lb ls IH]; intros p A D.
  - destruct p; [discriminate D | cbn; lia].
  - cbn [forallb] in A. apply andb_true_iff in A. destruct A as [A1 A2].
    destruct lb; try discriminate A1; cbn [req_disc] in D; cbn [fold_right astepW length].
    + apply andb_true_iff in D. destruct D as [D1 D2]. destruct p; [discriminate D1|].
      specialize (IH true A2 D2). cbv iota in IH. lia.
    + specialize (IH false A2 D). cbv iota in IH. destruct p; lia.
    + specialize (IH p A2 D). lia.
Qed.

(* all own steps of lock_all, from the first request to AH, for a thread that requests each
   stripe once: at most 2 * stripes + arrays (so with ALL_FIRST and BEGIN:
   2 * stripes + arrays + 2, the loop bound of the library) *)
Theorem lock_all_own_steps : forall t first tr s s' d, run s tr s' -> Inv s ->
  thr s t = AR first first 0 -> thr s' t = AH first d ->
  forallb acq_label (own t tr) = true -> req_disc false (own t tr) = true ->
  length (own t tr) <= 2 * stripes_from (sh_ s') first + arrays_from (sh_ s') first.
Proof.
  intros t first tr s s' d R HI Ht Ht' AL RD.
  assert (NE : Forall (fun e => ends_acq t e = false) tr).
  { clear - AL. induction tr as [|[u lb] tr IH]; constructor.
    - unfold ends_acq; cbn [fst snd]. cbn [own] in AL. destruct (Nat.eqb u t); auto.
      cbn [forallb] in AL. apply andb_true_iff in AL. destruct AL as [A1 _]. destruct lb; auto; discriminate A1.
    - apply IH. cbn [own] in AL. destruct (Nat.eqb u t); auto.
      cbn [forallb] in AL. apply andb_true_iff in AL. tauto. }
  destruct (lock_all_exact _ _ _ _ _ _ R HI Ht NE Ht') as (K1 & K2 & _).
  pose proof (req_disc_count _ _ AL RD) as C. cbn [Nat.add] in C.
  unfold locked_steps, next_steps in *. rewrite astepsW_own in K1, K2. lia.
Qed.


(* ------------------------------------------------------------------ unlock_all *)
(* stripes still to release *)
Definition rel_rem (g : shared) (ts : tstate) : nat :=
  match ts with
  | AU first last a i => (asz g a - i) + sumsz g (S a) (last - a)
  | _ => 0
  end.

Definition ustep1 (lb : label) : nat := match lb with UNLOCK _ _ => 1 | _ => 0 end.

Fixpoint usteps (t : tid) (tr : list (tid * label)) : nat :=
  match tr with
  | [] => 0
  | (u, lb) :: r => (if Nat.eqb u t then ustep1 lb else 0) + usteps t r
  end.

Definition is_next (t : tid) (e : tid * label) : bool :=
  Nat.eqb (fst e) t && match snd e with NEXT _ => true | _ => false end.

Definition releasing (first last : nat) (ts : tstate) : Prop :=
  match ts with AU f l _ _ => f = first /\ l = last | _ => False end.

Lemma rel_rem_same : forall g g' ts, g_arrs g' = g_arrs g -> rel_rem g' ts = rel_rem g ts.
Proof.
  intros g g' ts E.
  assert (A : forall b, asz g' b = asz g b) by (intros; unfold asz; now rewrite E).
  assert (S : forall lo n, sumsz g' lo n = sumsz g lo n) by (intros; apply sumsz_agree; auto).
  destruct ts; simpl; rewrite ?S, ?A; auto.
Qed.

Lemma rel_own : forall me g ts lb g' ts' first last, tstepR me g ts lb g' ts' -> shape g -> wf_ts g ts ->
  releasing first last ts -> (forall w, lb <> NEXT w) ->
  releasing first last ts' /\ rel_rem g' ts' + ustep1 lb = rel_rem g ts.
Proof.
  intros me g ts lb g' ts' first last H SH W RL NN.
  destruct H as [ts lb ts' L | ts lb a l ts' A F | ts a l ts' R | f d v | f d n Hn | f d];
    try (cbn in RL; contradiction).
  - destruct L; cbn in RL; try contradiction. exfalso; eapply NN; eauto.
  - destruct A; cbn in RL; contradiction.
  - rewrite (rel_rem_same g (set_held g a l None)) by reflexivity.
    destruct R; cbn in RL; try contradiction; destruct RL; subst; cbn [releasing ustep1 rel_rem wf_ts] in *;
      split; auto.
    + lia.
    + assert (P : 0 < asz g (S a)) by (apply (sh_pos _ SH); lia).
      replace (last - a) with (S (last - S a)) by lia. simpl. lia.
Qed.

Lemma rel_frame : forall g g' ts first last, arrs_ext g g' -> wf_ts g ts -> releasing first last ts ->
  rel_rem g' ts = rel_rem g ts.
Proof.
  intros g g' ts first last EX W RL. destruct ts; cbn in RL; try contradiction.
  cbn [rel_rem wf_ts] in *. rewrite (sumsz_ext _ _ _ _ EX) by lia. rewrite (ext_asz _ _ _ EX) by lia. reflexivity.
Qed.

Lemma rel_gstep : forall t s u lb s1 first last, Inv s -> gstep s u lb = Some s1 ->
  releasing first last (thr s t) -> is_next t (u, lb) = false ->
  releasing first last (thr s1 t) /\
  rel_rem (sh_ s1) (thr s1 t) + (if Nat.eqb u t then ustep1 lb else 0) = rel_rem (sh_ s) (thr s t).
Proof.
  intros t s u lb s1 first last HI H RL NN. apply gstep_inv in H. destruct H as (g' & ts' & HS & ->). cbn [sh_ thr].
  destruct (Nat.eq_dec u t) as [-> | Hne].
  - rewrite upd_thr_same, Nat.eqb_refl. unfold is_next in NN; cbn in NN. rewrite Nat.eqb_refl in NN; cbn in NN.
    eapply rel_own; eauto using i_wf, i_shape; intros; intros ->; discriminate.
  - rewrite upd_thr_other by auto. apply Nat.eqb_neq in Hne as Hb. rewrite Hb. split; auto.
    rewrite Nat.add_0_r. eapply rel_frame; eauto using i_wf, tstepR_ext.
Qed.

(* unlock_all: until the thread leaves by NEXT, every one of its UNLOCK steps takes one stripe
   off a remainder that nobody else can change (arrays appended meanwhile are beyond [last]) *)
Theorem unlock_all_progress : forall t first last tr s s', run s tr s' -> Inv s ->
  releasing first last (thr s t) -> Forall (fun e => is_next t e = false) tr ->
  releasing first last (thr s' t) /\
  rel_rem (sh_ s') (thr s' t) + usteps t tr = rel_rem (sh_ s) (thr s t).
Proof.
  intros t first last tr s s' H. induction H as [s | s u lb s1 tr s' E R IH]; intros HI RL NN.
  - split; auto.
  - inversion NN as [|x y NN1 NN2]; subst.
    destruct (rel_gstep _ _ _ _ _ _ _ HI E RL NN1) as [RL1 D1].
    destruct (IH (Inv_step _ _ _ _ HI E) RL1 NN2) as [RL2 D2].
    split; auto. cbn [usteps]. lia.
Qed.

Theorem unlock_all_bounded : forall t first last tr s s', run s tr s' -> Inv s ->
  releasing first last (thr s t) -> Forall (fun e => is_next t e = false) tr ->
  usteps t tr <= rel_rem (sh_ s) (thr s t).
Proof.
  intros t first last tr s s' R HI RL NN.
  destruct (unlock_all_progress _ _ _ _ _ _ R HI RL NN). lia.
Qed.

(* the first release: leaves every stripe of first..last but one *)
Lemma unlock_all_first : forall s t first d a l s1, Inv s -> thr s t = AH first d ->
  gstep s t (UNLOCK a l) = Some s1 ->
  thr s1 t = AU first (narr (sh_ s) - 1) first 1 /\
  rel_rem (sh_ s1) (thr s1 t) + 1 = sumsz (sh_ s) first (narr (sh_ s) - first).
Proof.
  intros s t first d a l s1 HI Ht H.
  pose proof (i_wf _ HI t) as W. rewrite Ht in W; cbn in W.
  assert (P : 0 < asz (sh_ s) first) by (apply (sh_pos _ (i_shape _ HI)); auto).
  unfold gstep in H. rewrite Ht in H. destruct d; cbn in H; [discriminate|].
  destruct (Nat.eqb a first && Nat.eqb l 0) eqn:E; [|discriminate]. bprop; subst a l.
  inversion H; subst; clear H. cbn [thr sh_].
  rewrite upd_thr_same. split; auto.
  rewrite (rel_rem_same (sh_ s) (set_held (sh_ s) first 0 None)) by reflexivity. cbn [rel_rem].
  replace (narr (sh_ s) - first) with (S (narr (sh_ s) - 1 - first)) by lia. simpl. lia.
Qed.

(* the release is over (NEXT is enabled) exactly when nothing remains *)
Lemma unlock_all_done : forall g first last a i, shape g -> wf_ts g (AU first last a i) ->
  (rel_rem g (AU first last a i) = 0 <-> ~ i < asz g a /\ ~ a < last).
Proof.
  intros g first last a i SH W. cbn [rel_rem wf_ts] in *. split.
  - intros H. split; [lia|]. intros L.
    assert (P : 0 < asz g (S a)) by (apply (sh_pos _ SH); lia).
    replace (last - a) with (S (last - S a)) in H by lia. simpl in H. lia.
  - intros [H1 H2]. replace (last - a) with 0 by lia. simpl. lia.
Qed.

(* the whole release, first UNLOCK (taken from AH) included: at most one step per stripe of the
   arrays first..last, [last] being the newest array when the release started; exactly that
   many when the thread can leave *)
Theorem unlock_all_total : forall t first d a l tr s s1 s', Inv s -> thr s t = AH first d ->
  gstep s t (UNLOCK a l) = Some s1 -> run s1 tr s' -> Forall (fun e => is_next t e = false) tr ->
  releasing first (narr (sh_ s) - 1) (thr s' t) /\
  rel_rem (sh_ s') (thr s' t) + usteps t ((t, UNLOCK a l) :: tr) = stripes_from (sh_ s) first.
Proof.
  intros t first d a l tr s s1 s' HI Ht G R NN.
  destruct (unlock_all_first _ _ _ _ _ _ _ HI Ht G) as [Ht1 D1].
  assert (RL : releasing first (narr (sh_ s) - 1) (thr s1 t)) by (rewrite Ht1; cbn; auto).
  destruct (unlock_all_progress _ _ _ _ _ _ R (Inv_step _ _ _ _ HI G) RL NN) as [RL' D].
  split; auto. cbn [usteps ustep1]. rewrite Nat.eqb_refl. unfold stripes_from. lia.
Qed.

(* ------------------------------------------------------------------ stated on reachable states *)
(* B2 as asked for: every run from a reachable state (reachability is not even needed) *)
Theorem retries_le_bumps_reachable : forall hp0 rc0 arrs0 s, reachable hp0 rc0 arrs0 s ->
  forall t tr s', run s tr s' ->
  retries t s tr <= bumps tr + stale (sh_ s) (thr s t) /\ retries t s tr <= bumps tr + 1.
Proof. intros; split; eauto using retries_le_bumps_stale, retries_le_bumps. Qed.

Section Reachable.
  Variables (hp0 rc0 : N) (arrs0 : list nat).
  Hypothesis OK : arrs_ok arrs0.
  Variable s : gstate.
  Hypothesis R : reachable hp0 rc0 arrs0 s.

  Theorem lock_all_exact_reachable : forall t first tr s' d, run s tr s' ->
    thr s t = AR first first 0 -> Forall (fun e => ends_acq t e = false) tr -> thr s' t = AH first d ->
    locked_steps t tr = stripes_from (sh_ s') first /\ next_steps t tr = arrays_from (sh_ s') first.
  Proof.
    intros t first tr s' d H Ht NE Ht'.
    destruct (lock_all_exact _ _ _ _ _ _ H (reachable_Inv _ _ _ _ OK R) Ht NE Ht') as (K1 & K2 & _). auto.
  Qed.

  Theorem lock_all_bounded_reachable : forall t first tr s', run s tr s' ->
    acquiring first (thr s t) -> Forall (fun e => ends_acq t e = false) tr ->
    locked_steps t tr <= stripes_from (sh_ s') first /\ next_steps t tr <= arrays_from (sh_ s') first.
  Proof.
    intros t first tr s' H AC NE.
    destruct (lock_all_bounded _ _ _ _ _ H (reachable_Inv _ _ _ _ OK R) AC NE) as (K1 & K2 & _). auto.
  Qed.

  Theorem unlock_all_total_reachable : forall t first d a l tr s1 s', thr s t = AH first d ->
    gstep s t (UNLOCK a l) = Some s1 -> run s1 tr s' -> Forall (fun e => is_next t e = false) tr ->
    usteps t ((t, UNLOCK a l) :: tr) <= stripes_from (sh_ s) first.
  Proof.
    intros t first d a l tr s1 s' Ht G H NN.
    destruct (unlock_all_total _ _ _ _ _ _ _ _ _ (reachable_Inv _ _ _ _ OK R) Ht G H NN). lia.
  Qed.
End Reachable.

(* ------------------------------------------------------------------ non-vacuity of B3 *)
(* Thread 0 reads the list tail and stalls.  Thread 1 completes a resize that appends an array
   of 2 stripes, starts a second whole-table operation on the new array only (AH 1), and appends
   a third array of 3 stripes WHILE thread 0 already holds the lock of array 0 (so there can be
   an all-holder while another thread is acquiring past its first lock: it holds later arrays
   only).  Thread 0 then walks through all three arrays: 6 acquisitions, 3 hops, 6 requests. *)
Definition ex_all_pre : list (tid * label) := [ (0, BEGIN 3); (0, ALL_FIRST 0) ].
Definition ex_all_a : list (tid * label) :=
  [ (1, BEGIN 3); (1, ALL_FIRST 0); (1, LOCKREQ 0 0); (1, LOCKED 0 0); (1, ALL_NEXT false);
    (1, EMPLACE 2); (1, FA_RC); (1, UNLOCK 0 0); (1, UNLOCK 1 0); (1, UNLOCK 1 1); (1, NEXT 0);
    (1, BEGIN 3); (1, ALL_FIRST 1); (1, LOCKED 1 0); (1, LOCKED 1 1); (1, ALL_NEXT false);
    (0, LOCKREQ 0 0); (0, LOCKED 0 0) ].
Definition ex_all_b : list (tid * label) :=
  [ (1, EMPLACE 3); (1, FA_RC);
    (1, UNLOCK 1 0); (1, UNLOCK 1 1); (1, UNLOCK 2 0); (1, UNLOCK 2 1); (1, UNLOCK 2 2); (1, NEXT 0);
    (0, ALL_NEXT true); (0, LOCKREQ 1 0); (0, LOCKED 1 0); (0, LOCKREQ 1 1); (0, LOCKED 1 1);
    (0, ALL_NEXT true); (0, LOCKREQ 2 0); (0, LOCKED 2 0); (0, LOCKREQ 2 1); (0, LOCKED 2 1);
    (0, LOCKREQ 2 2); (0, LOCKED 2 2); (0, ALL_NEXT false) ].

Example all_holder_while_acquiring :
  match replay (ginit 0 0 [1]) (ex_all_pre ++ ex_all_a) with
  | Some s => thr s 0 = AN 0 0 /\ thr s 1 = AH 1 false /\ g_held (sh_ s) 0 0 = Some 0 /\
              gstep s 1 (EMPLACE 3) <> None
  | None => False
  end.
Proof. vm_compute. repeat split; discriminate. Qed.

Example lock_all_exact_instance :
  match replay (ginit 0 0 [1]) ex_all_pre with
  | Some s =>
      thr s 0 = AR 0 0 0 /\
      match replay s (ex_all_a ++ ex_all_b) with
      | Some s' =>
          thr s' 0 = AH 0 false /\
          forallb (fun e => negb (ends_acq 0 e)) (ex_all_a ++ ex_all_b) = true /\
          locked_steps 0 (ex_all_a ++ ex_all_b) = 6 /\ stripes_from (sh_ s') 0 = 6 /\
          next_steps 0 (ex_all_a ++ ex_all_b) = 3 /\ arrays_from (sh_ s') 0 = 3 /\
          forallb acq_label (own 0 (ex_all_a ++ ex_all_b)) = true /\
          req_disc false (own 0 (ex_all_a ++ ex_all_b)) = true /\
          length (own 0 (ex_all_a ++ ex_all_b)) = 2 * 6 + 3
      | None => False
      end
  | None => False
  end.
Proof. vm_compute. repeat split. Qed.

(* the release of thread 1's second operation: arrays 1..2, 5 stripes, 5 UNLOCK steps *)
Example unlock_all_instance :
  match replay (ginit 0 0 [1]) (ex_all_pre ++ ex_all_a ++ [(1, EMPLACE 3); (1, FA_RC)]) with
  | Some s =>
      thr s 1 = AH 1 false /\ stripes_from (sh_ s) 1 = 5 /\
      let tr := [(1, UNLOCK 1 0); (1, UNLOCK 1 1); (1, UNLOCK 2 0); (1, UNLOCK 2 1); (1, UNLOCK 2 2)] in
      usteps 1 tr = 5 /\
      match replay s tr with
      | Some s' => rel_rem (sh_ s') (thr s' 1) = 0 /\ gstep s' 1 (NEXT 0) <> None
      | None => False
      end
  | None => False
  end.
Proof. vm_compute. repeat split; discriminate. Qed.
