(* C14 - the C wrapper's file format: writing then reading back yields the same records, and every
   truncated prefix of a written file is rejected (model level: CApi.encode_file / decode_file,
   the byte-level transcription of <name>_locked_table_write and <name>_read; forwarding entry
   points are [CApi.CFwd] and are definitionally the C++ operation).
   Statements only; closed by [exact] of lemmas of Codec.v. *)
From Coq Require Import NArith ZArith List.
From LC Require Import CApi Codec.
Import ListNotations.
Local Open Scope N_scope.

Theorem C14_file_roundtrip :
  forall ps, Forall pair_ok ps -> N.of_nat (length ps) < 2 ^ 64 ->
  decode_file (encode_file (N.of_nat (length ps)) ps) = Some (N.of_nat (length ps), ps).
Proof. exact decode_encode. Qed.
Print Assumptions C14_file_roundtrip.

Theorem C14_every_truncated_prefix_fails :
  forall ps j, Forall pair_ok ps -> N.of_nat (length ps) < 2 ^ 64 ->
  (j < length (encode_file (N.of_nat (length ps)) ps))%nat ->
  decode_file (firstn j (encode_file (N.of_nat (length ps)) ps)) = None.
Proof. exact prefix_fails. Qed.
Print Assumptions C14_every_truncated_prefix_fails.

Theorem C14_file_length :
  forall cnt ps, length (encode_file cnt ps) = (8 + 8 * length ps)%nat.
Proof. exact encode_length. Qed.
Print Assumptions C14_file_length.

Theorem C14_short_read_iff :
  forall n bs, decode_records n bs = None <-> (length bs < 8 * n)%nat.
Proof. exact decode_records_None_iff. Qed.
Print Assumptions C14_short_read_iff.

Example C14_ex_decodes : decode_file (encode_file 2 ex_pairs) = Some (2, ex_pairs).
Proof. exact ex_decodes. Qed.
Example C14_ex_prefix_fails : decode_file (firstn 23 (encode_file 2 ex_pairs)) = None.
Proof. exact ex_prefix23_fails. Qed.
