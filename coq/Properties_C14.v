(* C14 - the C wrapper's file format: writing then reading back yields the same records, and every
   truncated prefix of a written file is rejected (model level: CApi.encode_file / decode_file,
   the byte-level transcription of <name>_locked_table_write and <name>_read; forwarding entry
   points are [CApi.CFwd] and are definitionally the C++ operation).
   Statements only; closed by [exact] of lemmas of Codec.v. *)
From Coq Require Import NArith ZArith List.
From LC Require Import CApi Codec.
Import ListNotations.
Local Open Scope N_scope.

Theorem C14_file_roundtrip :
  forall ps, Forall pair_ok ps -> N.of_nat (length ps) < 2 ^ 64 ->
  decode_file (encode_file (N.of_nat (length ps)) ps) = Some (N.of_nat (length ps), ps).
Proof. exact decode_encode. Qed.
Print Assumptions C14_file_roundtrip.

Theorem C14_every_truncated_prefix_fails :
  forall ps j, Forall pair_ok ps -> N.of_nat (length ps) < 2 ^ 64 ->
  (j < length (encode_file (N.of_nat (length ps)) ps))%nat ->
  decode_file (firstn j (encode_file (N.of_nat (length ps)) ps)) = None.
Proof. exact prefix_fails. Qed.
Print Assumptions C14_every_truncated_prefix_fails.

Theorem C14_file_length :
  forall cnt ps, length (encode_file cnt ps) = (8 + 8 * length ps)%nat.
Proof. exact encode_length. Qed.
Print Assumptions C14_file_length.

Theorem C14_short_read_iff :
  forall n bs, decode_records n bs = None <-> (length bs < 8 * n)%nat.
Proof. exact decode_records_None_iff. Qed.
Print Assumptions C14_short_read_iff.

Example C14_ex_decodes : decode_file (encode_file 2 ex_pairs) = Some (2, ex_pairs).
Proof. exact ex_decodes. Qed.
Example C14_ex_prefix_fails : decode_file (firstn 23 (encode_file 2 ex_pairs)) = None.
Proof. exact ex_prefix23_fails. Qed.

(* ---- the format for every instantiation of the C template (CodecW.v): count, then per element the key bytes followed by the mapped bytes, no padding, whatever the in-memory layout of the pair ---- *)
From LC Require Import Codec CodecW.
Theorem C14_file_roundtrip_any_widths :
  forall (kw vw : nat) (ps : list (N * N)),
  Forall (pair_ok_w kw vw) ps ->
  N.of_nat (length ps) < 2 ^ 64 ->
  decode_file_w kw vw (encode_file_w kw vw (N.of_nat (length ps)) ps) = Some (N.of_nat (length ps), ps).
Proof. exact decode_encode_w. Qed.
Print Assumptions C14_file_roundtrip_any_widths.

Theorem C14_every_truncated_prefix_fails_any_widths :
  forall (kw vw : nat) (ps : list (N * N)) (j : nat),
  Forall (pair_ok_w kw vw) ps ->
  N.of_nat (length ps) < 2 ^ 64 ->
  (j < length (encode_file_w kw vw (N.of_nat (length ps)) ps))%nat ->
  decode_file_w kw vw (firstn j (encode_file_w kw vw (N.of_nat (length ps)) ps)) = None.
Proof. exact prefix_fails_w. Qed.
Print Assumptions C14_every_truncated_prefix_fails_any_widths.

Theorem C14_file_length_any_widths :
  forall (kw vw : nat) (cnt : N) (ps : list (N * N)),
  length (encode_file_w kw vw cnt ps) = (8 + (kw + vw) * length ps)%nat.
Proof. exact encode_length_w. Qed.
Print Assumptions C14_file_length_any_widths.

Theorem C14_generic_codec_agrees_with_int_int :
  forall (cnt : N) (ps : list (N * Z)),
  encode_file_w 4 4 cnt (map (fun kv : N * Z => (fst kv, int_to_u32 (snd kv))) ps) = encode_file cnt ps.
Proof. exact encode_file_w_4_4. Qed.
Print Assumptions C14_generic_codec_agrees_with_int_int.

Theorem C14_padding_is_not_part_of_the_format :
  forall (kw vw mid tail : nat) (fill cnt : N) (ps : list (N * N)),
  (0 < mid + tail)%nat ->
  ps <> [] ->
  length (encode_file_padded kw vw mid tail fill cnt ps) =
  (length (encode_file_w kw vw cnt ps) + (mid + tail) * length ps)%nat /\
  (length (encode_file_w kw vw cnt ps) < length (encode_file_padded kw vw mid tail fill cnt ps))%nat /\
  encode_file_padded kw vw mid tail fill cnt ps <> encode_file_w kw vw cnt ps.
Proof. exact padding_is_not_part_of_the_format. Qed.
Print Assumptions C14_padding_is_not_part_of_the_format.

Theorem C14_padded_file_is_silently_misread :
  forall (kw vw mid tail : nat) (fill : N) (ps : list (N * N)),
  N.of_nat (length ps) < 2 ^ 64 ->
  exists qs : list (N * N),
  length qs = length ps /\
  decode_file_w kw vw (encode_file_padded kw vw mid tail fill (N.of_nat (length ps)) ps) =
  Some (N.of_nat (length ps), qs).
Proof. exact padded_file_is_accepted. Qed.
Print Assumptions C14_padded_file_is_silently_misread.
