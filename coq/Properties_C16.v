(* C16 - arguments are consumed only on success (model level).
   [uprase_gen] is the common body of insert, insert_or_assign, upsert, uprase_fn, locked_table::insert
   and operator[]; its result (inserted, functor log, position) says whether the new element was
   constructed from the arguments.  C16_stored_iff_absent: for a PRESENT key - found at once, after
   displacement or after any number of expansions - the result is (false, ..), no exception is possible,
   the table keeps its hashpower and the passed value never enters the table ([upd_holds] only mentions
   the functor's result on the OLD value); for an ABSENT key the pair (k, v) is added exactly once.
   C16_duplicate_detected_whatever_the_path: the insert loop reports St_duplicated iff the key was present.
   Heterogeneous lookup: every operation depends on the key only through [hash k] and key equality
   (the model has no other access to keys); the harness instantiates lookups with a key-like type that is
   not convertible to key_type.  Value categories / moves are observed on the real library with
   instrumented argument objects (T1: "consumed=" flags compared with the model).
   Statements only; closed by [exact] of lemmas of Refine.v / Lazy.v. *)
From Coq Require Import NArith ZArith List.
From LC Require Import gen.HashGen Core Api InvDefs ArrLemmas Stats InsertLemmas Resize Lazy Refine.
Import ListNotations.
Local Open Scope N_scope.

Theorem C16_stored_iff_absent :
  forall (c : config) (hash : N -> N),
  cfg_ok c ->
  forall (mode : bool) (t : table) (k : N) (v : Z) (g : Z -> bool -> option (Z * bool)),
  nothrow c = true ->
  good c hash t ->
  immediate c mode t ->
  forall (t' : table) (r : exn + bool * list rv * (N * N)),
  uprase_gen c hash mode t k v g = (t', r) ->
  (forall v0 : Z,
  holds (cur t) k v0 ->
  exists b s : N,
  r = inr (false, log_of g v0 false, (b, s)) /\
  good c hash t' /\
  lim_same t t' /\
  immediate c mode t' /\
  bhp (cur t') = bhp (cur t) /\
  upd_holds (cur t) (cur t') k (final_of g v0 false) /\
  (forall vf : Z,
  final_of g v0 false = Some vf ->
  exists e : entry, bget (cur t') b s = Some e /\ ekey e = k /\ eval e = vf)) /\
  (~ key_in (cur t) k ->
  esc c hash t \/
  (exists e : exn, r = inl e /\ exn_ok c true t t' e /\ evolves c hash t t' /\ immediate c mode t') \/
  (exists b s : N,
  r = inr (true, log_of g v true, (b, s)) /\
  good c hash t' /\
  lim_same t t' /\
  immediate c mode t' /\
  bhp (cur t) <= bhp (cur t') /\
  upd_holds (cur t) (cur t') k (final_of g v true) /\
  (forall vf : Z,
  final_of g v true = Some vf ->
  exists e : entry, bget (cur t') b s = Some e /\ ekey e = k /\ eval e = vf))).
Proof. exact uprase_gen_good. Qed.
Print Assumptions C16_stored_iff_absent.

Theorem C16_duplicate_detected_whatever_the_path :
  forall (c : config) (hash : N -> N),
  cfg_ok c ->
  forall (mode : bool) (fuel : nat) (t : table) (k : N),
  nothrow c = true ->
  good c hash t ->
  immediate c mode t ->
  forall (t' : table) (res : il_result),
  cuckoo_insert_loop c hash (cuckoo_fast_double c hash) mode t k (i1_of hash (bhp (cur t)) k)
  (i2_of hash (bhp (cur t)) k) (S fuel) = (t', res) ->
  esc c hash t \/
  evolves c hash t t' /\
  immediate c mode t' /\
  match res with
  | IL_pos pos j1 j2 =>
  j1 = i1_of hash (bhp (cur t')) k /\
  j2 = i2_of hash (bhp (cur t')) k /\
  (pstatus pos = St_duplicated /\
  key_in (cur t) k /\
  bhp (cur t') = bhp (cur t) /\
  (exists e : entry, bget (cur t') (pindex pos) (pslot pos) = Some e /\ ekey e = k) \/
  pstatus pos = St_ok /\
  ~ key_in (cur t) k /\
  bget (cur t') (pindex pos) (pslot pos) = None /\
  cand hash (bhp (cur t')) k (pindex pos) /\ pslot pos < spb c)
  | IL_exn e => ~ key_in (cur t) k /\ exn_ok c true t t' e
  end.
Proof. exact cuckoo_insert_loop_good. Qed.
Print Assumptions C16_duplicate_detected_whatever_the_path.

Theorem C16_present_key_no_expansion_no_exception :
  forall (c : config) (hash : N -> N),
  cfg_ok c ->
  forall (fd : bool -> table -> N -> rres) (mode : bool) (t : table) (k : N) (fuel : nat),
  good c hash t ->
  key_in (cur t) k ->
  forall (t' : table) (res : il_result),
  cuckoo_insert_loop c hash fd mode t k (i1_of hash (bhp (cur t)) k) (i2_of hash (bhp (cur t)) k)
  (S fuel) = (t', res) ->
  exists pos : table_position,
  res = IL_pos pos (i1_of hash (bhp (cur t)) k) (i2_of hash (bhp (cur t)) k) /\
  evolves c hash t t' /\
  bhp (cur t') = bhp (cur t) /\
  pstatus pos = St_duplicated /\
  (exists e : entry, bget (cur t') (pindex pos) (pslot pos) = Some e /\ ekey e = k).
Proof. exact insert_loop_present. Qed.
Print Assumptions C16_present_key_no_expansion_no_exception.

Theorem C16_duplicate_through_deferred_migration :
  forall (c : config) (hash : N -> N),
  cfg_ok c ->
  forall (t : table) (k : N) (v : Z) (t2 : table) (pos : table_position),
  wf c hash t ->
  let hp := bhp (cur t) in
  let i1 := i1_of hash hp k in
  let i2 := i2_of hash hp k in
  let t1 := lock_two c hash false t i1 i2 in
  cuckoo_insert c hash false t1 k i1 i2 = (t2, CI_pos pos) ->
  pstatus pos = St_duplicated ->
  uprase_gen c hash false t k v (fun (_ : Z) (_ : bool) => None) =
  (t2, inr (false, [], (pindex pos, pslot pos))) /\
  (exists v0 : Z, lholds c t k v0) /\
  wf c hash t2 /\
  lmv c t t2 /\ (exists e : entry, bget (cur t2) (pindex pos) (pslot pos) = Some e /\ ekey e = k).
Proof. exact uprase_gen_insert_dup_wf. Qed.
Print Assumptions C16_duplicate_through_deferred_migration.

Theorem C16_new_key_through_deferred_migration :
  forall (c : config) (hash : N -> N),
  cfg_ok c ->
  forall (t : table) (k : N) (v : Z) (t2 : table) (pos : table_position),
  wf c hash t ->
  let hp := bhp (cur t) in
  let i1 := i1_of hash hp k in
  let i2 := i2_of hash hp k in
  let t1 := lock_two c hash false t i1 i2 in
  cuckoo_insert c hash false t1 k i1 i2 = (t2, CI_pos pos) ->
  pstatus pos = St_ok ->
  exists t3 : table,
  uprase_gen c hash false t k v (fun (_ : Z) (_ : bool) => None) =
  (t3, inr (true, [], (pindex pos, pslot pos))) /\
  (forall v0 : Z, ~ lholds c t k v0) /\
  wf c hash t3 /\
  bhp (cur t3) = bhp (cur t) /\
  (lcounted c t -> lcounted c t3) /\
  (forall (k' : N) (v' : Z), lholds c t3 k' v' <-> k' = k /\ v' = v \/ k' <> k /\ lholds c t k' v').
Proof. exact uprase_gen_insert_new_wf. Qed.
Print Assumptions C16_new_key_through_deferred_migration.

(* ---- the same through deferred migration (LazyRefine.v): for a present key the passed value never enters the table, whatever stripes were still pending ---- *)
From LC Require Import LazyRefine.
Theorem C16_stored_iff_absent_through_deferred_migration :
  forall (c : config) (hash : N -> N),
  cfg_ok c ->
  forall (t : table) (k : N) (v : Z) (g : Z -> bool -> option (Z * bool)),
  nothrow c = true ->
  lgood c hash t ->
  forall (t' : table) (r : exn + bool * list rv * (N * N)),
  uprase_gen c hash false t k v g = (t', r) ->
  (forall v0 : Z,
  lholds c t k v0 ->
  exists b s : N,
  r = inr (false, log_of g v0 false, (b, s)) /\
  lgood c hash t' /\
  lim_same t t' /\
  bhp (cur t') = bhp (cur t) /\
  lupd c t t' k (final_of g v0 false) /\
  (forall vf : Z,
  final_of g v0 false = Some vf ->
  exists e : entry, bget (cur t') b s = Some e /\ ekey e = k /\ eval e = vf)) /\
  ((forall v0 : Z, ~ lholds c t k v0) ->
  lesc c hash t \/
  (exists e : exn, r = inl e /\ exn_ok c true t t' e /\ levolves c hash t t') \/
  (exists b s : N,
  r = inr (true, log_of g v true, (b, s)) /\
  lgood c hash t' /\
  lim_same t t' /\
  bhp (cur t) <= bhp (cur t') /\
  lupd c t t' k (final_of g v true) /\
  (forall vf : Z,
  final_of g v true = Some vf ->
  exists e : entry, bget (cur t') b s = Some e /\ ekey e = k /\ eval e = vf))).
Proof. exact uprase_gen_lgood. Qed.
Print Assumptions C16_stored_iff_absent_through_deferred_migration.

Theorem C16_duplicate_detected_through_deferred_migration :
  forall (c : config) (hash : N -> N),
  cfg_ok c ->
  forall (fuel : nat) (t : table) (k : N),
  nothrow c = true ->
  lgood c hash t ->
  stripes_done c hash t k ->
  forall (t' : table) (res : il_result),
  cuckoo_insert_loop c hash (cuckoo_fast_double c hash) false t k (i1_of hash (bhp (cur t)) k)
  (i2_of hash (bhp (cur t)) k) (S fuel) = (t', res) -> lil_post c hash t k t' res.
Proof. exact cuckoo_insert_loop_lgood. Qed.
Print Assumptions C16_duplicate_detected_through_deferred_migration.

(* ---- run-tied form (RunTied.v) ---- *)
From LC Require Import AcceptModel RunTied.
Theorem C16_stored_iff_absent_tied :
  forall (c : config) (hash : N -> N),
  cfg_ok c ->
  forall (t : table) (k : N) (v : Z) (g : Z -> bool -> option (Z * bool)),
  nothrow c = true ->
  lgood c hash t ->
  forall (t' : table) (r : exn + bool * list rv * (N * N)),
  uprase_gen c hash false t k v g = (t', r) ->
  (forall v0 : Z,
  lholds c t k v0 ->
  exists b s : N,
  r = inr (false, log_of g v0 false, (b, s)) /\
  lgood c hash t' /\
  lim_same t t' /\
  bhp (cur t') = bhp (cur t) /\
  lupd c t t' k (final_of g v0 false) /\
  (forall vf : Z,
  final_of g v0 false = Some vf ->
  exists e : entry, bget (cur t') b s = Some e /\ ekey e = k /\ eval e = vf)) /\
  ((forall v0 : Z, ~ lholds c t k v0) ->
  tied_esc t' \/
  (exists e : exn, r = inl e /\ exn_ok c true t t' e /\ levolves c hash t t') \/
  (exists b s : N,
  r = inr (true, log_of g v true, (b, s)) /\
  lgood c hash t' /\
  lim_same t t' /\
  bhp (cur t) <= bhp (cur t') /\
  lupd c t t' k (final_of g v true) /\
  (forall vf : Z,
  final_of g v true = Some vf ->
  exists e : entry, bget (cur t') b s = Some e /\ ekey e = k /\ eval e = vf))).
Proof. exact uprase_gen_lgood_tied. Qed.
Print Assumptions C16_stored_iff_absent_tied.
