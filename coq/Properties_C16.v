(* C16 - first theorems; extended as Refine.v / Special.v / Stream.v / Life.v are delivered *)
From Coq Require Import NArith ZArith List.
From LC Require Import gen.HashGen Core Api InvDefs Stats Resize.
Import ListNotations.
Local Open Scope N_scope.
Theorem C16_placeholder_set_nrem_zero_frees_old : forall t, set_nrem t 0 = set_old (set_nrem_raw t 0) (bdealloc (old t)).
Proof. exact set_nrem_zero. Qed.
Print Assumptions C16_placeholder_set_nrem_zero_frees_old.
